(* Proofs for HAVING (C04, C03): the groups that stay are exactly those on which the condition - over the
   aggregates and key columns of the group itself - is TRUE, in the order of the groups; an evaluation error
   anywhere is an error of the whole clause. *)
From Coq Require Import ZArith List Bool Lia.
Require Import Csvq.Model.Base Csvq.Model.Value Csvq.Model.Compare Csvq.Model.Arith Csvq.Model.Expr
               Csvq.Model.Key Csvq.Model.SortVal Csvq.Model.Query.
Require Import Csvq.Proofs.Query.
Import ListNotations.

(* the value of the HAVING condition on one group *)
Definition having_value strict (his : list sitem) (h : expr) (g : list row) : res val :=
  do hv <- mapM (eval_item strict g) his; eval hv h.

Lemma filter_groups_spec strict his h gs (v : list row -> val) :
  (forall g, In g gs -> having_value strict his h g = Ok (v g)) ->
  filter_groups strict his h gs = Ok (filter (fun g => is_true (v g)) gs).
Proof.
  induction gs as [|g gs IH]; intros H; cbn [filter_groups filter]; [reflexivity|].
  pose proof (H g (or_introl eq_refl)) as Hg. unfold having_value in Hg.
  destruct (mapM (eval_item strict g) his) as [hv|e]; cbn [bind] in Hg |- *; [|discriminate].
  rewrite Hg. cbn [bind]. rewrite IH by (intros g' Hg'; apply H; right; exact Hg'). cbn [bind].
  destruct (is_true (v g)); reflexivity.
Qed.

Lemma filter_groups_error strict his h gs g e :
  In g gs -> having_value strict his h g = Err e -> exists e', filter_groups strict his h gs = Err e'.
Proof.
  induction gs as [|g0 gs IH]; intros Hin He; [contradiction|]. cbn [filter_groups].
  destruct Hin as [->|Hin].
  - unfold having_value in He.
    destruct (mapM (eval_item strict g) his) as [hv|e0]; cbn [bind] in He |- *; [|eexists; reflexivity].
    rewrite He. cbn [bind]. eexists; reflexivity.
  - destruct (mapM (eval_item strict g0) his) as [hv|e0]; cbn [bind]; [|eexists; reflexivity].
    destruct (eval hv h) as [v0|e0]; cbn [bind]; [|eexists; reflexivity].
    destruct (IH Hin He) as [e' ->]. cbn [bind]. eexists; reflexivity.
Qed.

(* iff: a result exists exactly when the condition has a value on every group, and then it is the filter *)
Theorem filter_groups_ok_iff strict his h gs out :
  filter_groups strict his h gs = Ok out <->
  exists v, (forall g, In g gs -> having_value strict his h g = Ok (v g)) /\ out = filter (fun g => is_true (v g)) gs.
Proof.
  split.
  - intros H.
    assert (G : forall g, In g gs -> exists x, having_value strict his h g = Ok x).
    { intros g Hg. destruct (having_value strict his h g) as [x|e] eqn:E; [eexists; reflexivity|].
      destruct (filter_groups_error strict his h gs g e Hg E) as [e' He']. congruence. }
    exists (fun g => match having_value strict his h g with Ok x => x | Err _ => VNull end). split.
    + intros g Hg. destruct (G g Hg) as [x Hx]. rewrite Hx. reflexivity.
    + rewrite (filter_groups_spec strict his h gs
                 (fun g => match having_value strict his h g with Ok x => x | Err _ => VNull end)) in H.
      * inversion H. reflexivity.
      * intros g Hg. destruct (G g Hg) as [x Hx]. rewrite Hx. reflexivity.
  - intros [v [Hv ->]]. apply filter_groups_spec. exact Hv.
Qed.

(* membership: a group is kept iff it is a group and its condition is TRUE; nothing is invented *)
Theorem filter_groups_membership strict his h gs out g :
  filter_groups strict his h gs = Ok out ->
  (In g out <-> In g gs /\ exists x, having_value strict his h g = Ok x /\ is_true x = true).
Proof.
  intros H. apply filter_groups_ok_iff in H. destruct H as [v [Hv ->]]. rewrite filter_In. split.
  - intros [Hin Ht]. split; [exact Hin|]. exists (v g). split; [apply Hv; exact Hin|exact Ht].
  - intros [Hin [x [Hx Ht]]]. split; [exact Hin|]. rewrite (Hv g Hin) in Hx. inversion Hx. subst. exact Ht.
Qed.

(* a condition that is TRUE on every group removes nothing: HAVING then equals the plain GROUP BY *)
Theorem filter_groups_all_true strict his h gs :
  (forall g, In g gs -> exists x, having_value strict his h g = Ok x /\ is_true x = true) ->
  filter_groups strict his h gs = Ok gs.
Proof.
  intros H.
  rewrite (filter_groups_spec strict his h gs
             (fun g => match having_value strict his h g with Ok x => x | Err _ => VNull end)).
  - f_equal. induction gs as [|g gs IH]; [reflexivity|]. cbn [filter].
    destruct (H g (or_introl eq_refl)) as [x [Hx Ht]]. rewrite Hx, Ht. f_equal.
    apply IH. intros g' Hg'. apply H. right. exact Hg'.
  - intros g Hg. destruct (H g Hg) as [x [Hx _]]. rewrite Hx. reflexivity.
Qed.

(* SELECT items FROM src [WHERE c] GROUP BY keys HAVING h: the buckets of the GROUP BY query, of these the ones
   on which h is TRUE, one row per remaining bucket in the order of the buckets *)
Theorem having_pipeline strict src wh keys his h items :
  eval_query strict (Q (BSelect src wh (Some keys) (Some (his, h)) items false) [] None None) =
  (do rows <- eval_source strict src;
   do kept <- (match wh with None => Ok rows | Some c => filter_rows c rows end);
   do gs <- group_rows strict keys kept;
   do gs1 <- filter_groups strict his h gs;
   mapM (fun g => mapM (eval_item strict g) items) gs1).
Proof.
  change (eval_query strict (Q (BSelect src wh (Some keys) (Some (his, h)) items false) [] None None))
    with (do rows <- eval_body strict (BSelect src wh (Some keys) (Some (his, h)) items false); apply_order_limit strict [] None None rows).
  change (eval_body strict (BSelect src wh (Some keys) (Some (his, h)) items false))
    with (do rows <- eval_source strict src;
          do rows1 <- (match wh with None => Ok rows | Some c => filter_rows c rows end);
          do outs <- (do gs <- group_rows strict keys rows1;
                      do gs1 <- filter_groups strict his h gs;
                      mapM (fun g => do o <- mapM (eval_item strict g) items; Ok (hd [] g, o)) gs1);
          Ok outs).
  destruct (eval_source strict src) as [rows|e]; cbn [bind]; [|reflexivity].
  destruct (match wh with None => Ok rows | Some c => filter_rows c rows end) as [kept|e]; cbn [bind]; [|reflexivity].
  destruct (group_rows strict keys kept) as [gs|e]; cbn [bind]; [|reflexivity].
  destruct (filter_groups strict his h gs) as [gs1|e]; cbn [bind]; [|reflexivity].
  assert (E : forall (l : list (list row)),
     (do outs <- mapM (fun g => do o <- mapM (eval_item strict g) items; Ok (hd [] g, o)) l; Ok (map snd outs))
     = mapM (fun g => mapM (eval_item strict g) items) l).
  { induction l as [|g l IH]; [reflexivity|]. cbn [mapM].
    destruct (mapM (eval_item strict g) items) as [o|e]; cbn [bind]; [|reflexivity].
    destruct (mapM (fun g0 => do o0 <- mapM (eval_item strict g0) items; Ok (hd [] g0, o0)) l) as [outs|e]; cbn [bind] in IH |- *.
    - destruct (mapM (fun g0 => mapM (eval_item strict g0) items) l); cbn [bind]; [|discriminate]. inversion IH. reflexivity.
    - destruct (mapM (fun g0 => mapM (eval_item strict g0) items) l); cbn [bind]; [discriminate|]. inversion IH. reflexivity. }
  rewrite <- E.
  destruct (mapM (fun g => do o <- mapM (eval_item strict g) items; Ok (hd [] g, o)) gs1) as [outs|e]; cbn [bind]; [|reflexivity].
  unfold apply_order_limit. cbn. unfold offset_rows. cbn. reflexivity.
Qed.

(* SELECT DISTINCT items .. GROUP BY keys HAVING h: the rows of the statement without DISTINCT, and of these the
   first one of every key - DISTINCT comes after HAVING, whatever the condition *)
Require Import Csvq.Proofs.Lateral.
Theorem distinct_having_pipeline strict src wh keys his h items :
  eval_query strict (Q (BSelect src wh (Some keys) (Some (his, h)) items true) [] None None) =
  (do rows <- eval_query strict (Q (BSelect src wh (Some keys) (Some (his, h)) items false) [] None None);
   Ok (dedup_by (row_key strict) rows [])).
Proof.
  change (eval_query strict (Q (BSelect src wh (Some keys) (Some (his, h)) items true) [] None None))
    with (do rows <- eval_body strict (BSelect src wh (Some keys) (Some (his, h)) items true); apply_order_limit strict [] None None rows).
  change (eval_query strict (Q (BSelect src wh (Some keys) (Some (his, h)) items false) [] None None))
    with (do rows <- eval_body strict (BSelect src wh (Some keys) (Some (his, h)) items false); apply_order_limit strict [] None None rows).
  change (eval_body strict (BSelect src wh (Some keys) (Some (his, h)) items true))
    with (do rows <- eval_source strict src;
          do rows1 <- (match wh with None => Ok rows | Some c => filter_rows c rows end);
          do outs <- (do gs <- group_rows strict keys rows1;
                      do gs1 <- filter_groups strict his h gs;
                      mapM (fun g => do o <- mapM (eval_item strict g) items; Ok (hd [] g, o)) gs1);
          Ok (pick outs (distinct_idx (map (fun ro => row_key strict (snd ro)) outs)))).
  change (eval_body strict (BSelect src wh (Some keys) (Some (his, h)) items false))
    with (do rows <- eval_source strict src;
          do rows1 <- (match wh with None => Ok rows | Some c => filter_rows c rows end);
          do outs <- (do gs <- group_rows strict keys rows1;
                      do gs1 <- filter_groups strict his h gs;
                      mapM (fun g => do o <- mapM (eval_item strict g) items; Ok (hd [] g, o)) gs1);
          Ok outs).
  destruct (eval_source strict src) as [rows|e]; cbn [bind]; [|reflexivity].
  destruct (match wh with None => Ok rows | Some c => filter_rows c rows end) as [kept|e]; cbn [bind]; [|reflexivity].
  destruct (group_rows strict keys kept) as [gs|e]; cbn [bind]; [|reflexivity].
  destruct (filter_groups strict his h gs) as [gs1|e]; cbn [bind]; [|reflexivity].
  destruct (mapM (fun g => do o <- mapM (eval_item strict g) items; Ok (hd [] g, o)) gs1) as [outs|e]; cbn [bind]; [|reflexivity].
  unfold apply_order_limit. cbn. unfold offset_rows. cbn.
  f_equal. apply distinct_step.
Qed.

(* HAVING FALSE-on-every-bucket yields no row at all (not an empty group) *)
Theorem filter_groups_none_true strict his h gs :
  (forall g, In g gs -> exists x, having_value strict his h g = Ok x /\ is_true x = false) ->
  filter_groups strict his h gs = Ok [].
Proof.
  intros H.
  rewrite (filter_groups_spec strict his h gs
             (fun g => match having_value strict his h g with Ok x => x | Err _ => VNull end)).
  - f_equal. induction gs as [|g gs IH]; [reflexivity|]. cbn [filter].
    destruct (H g (or_introl eq_refl)) as [x [Hx Ht]]. rewrite Hx, Ht.
    apply IH. intros g' Hg'. apply H. right. exact Hg'.
  - intros g Hg. destruct (H g Hg) as [x [Hx _]]. rewrite Hx. reflexivity.
Qed.
