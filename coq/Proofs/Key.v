(* Proofs about comparison keys: the string codec is injective on tuples of equal length, and the
   bucket functions partition the rows by key equality. *)
From Coq Require Import ZArith NArith List Bool Lia Floats DecimalString DecimalZ Permutation.
Require Import Csvq.Model.Base Csvq.Model.Value Csvq.Model.Key.
Require Import Csvq.Proofs.FloatFacts.
Import ListNotations.

(* ---- basic equalities ------------------------------------------------------------------------ *)
Lemma str_eqb_refl s : str_eqb s s = true.
Proof. induction s as [|c s IH]; simpl; [reflexivity|]. rewrite N.eqb_refl. exact IH. Qed.
Lemma str_eqb_eq a b : str_eqb a b = true <-> a = b.
Proof.
  split; [|intros ->; apply str_eqb_refl].
  revert b. induction a as [|x a IH]; destruct b as [|y b]; simpl; intros H; try discriminate; [reflexivity|].
  apply andb_true_iff in H. destruct H as [H1 H2]. apply N.eqb_eq in H1. subst. f_equal. apply IH. exact H2.
Qed.
Lemma tern_eqb_eq a b : tern_eqb a b = true <-> a = b.
Proof. destruct a, b; simpl; split; intros; try discriminate; reflexivity. Qed.

Lemma kform_eqb_refl k : kform_eqb k k = true.
Proof.
  destruct k; simpl; try reflexivity; try apply Z.eqb_refl.
  - apply float_same_refl.
  - apply str_eqb_refl.
  - destruct b; reflexivity.
  - destruct t; reflexivity.
Qed.
Lemma kform_eqb_sym a b : kform_eqb a b = kform_eqb b a.
Proof.
  destruct a, b; simpl; try reflexivity; try apply Z.eqb_sym.
  - apply float_same_sym.
  - destruct (str_eqb s s0) eqn:E1, (str_eqb s0 s) eqn:E2; try reflexivity.
    + apply str_eqb_eq in E1. subst. rewrite str_eqb_refl in E2. discriminate.
    + apply str_eqb_eq in E2. subst. rewrite str_eqb_refl in E1. discriminate.
  - destruct b, b0; reflexivity.
  - destruct t, t0; reflexivity.
Qed.
Lemma kform_eqb_trans a b c : kform_eqb a b = true -> kform_eqb b c = true -> kform_eqb a c = true.
Proof.
  destruct a, b; simpl; try discriminate; destruct c; simpl; try discriminate; intros H1 H2; try reflexivity.
  - apply Z.eqb_eq in H1, H2. subst. apply Z.eqb_refl.
  - eapply float_same_trans; eassumption.
  - apply Z.eqb_eq in H1, H2. subst. apply Z.eqb_refl.
  - apply str_eqb_eq in H1, H2. subst. apply str_eqb_refl.
  - destruct b, b0, b1; try discriminate; reflexivity.
  - destruct t, t0, t1; try discriminate; reflexivity.
Qed.

Lemma keys_eqb_refl k : keys_eqb k k = true.
Proof. induction k as [|x k IH]; simpl; [reflexivity|]. unfold keys_eqb in *. simpl. rewrite kform_eqb_refl. exact IH. Qed.
Lemma keys_eqb_sym : forall a b, keys_eqb a b = keys_eqb b a.
Proof.
  unfold keys_eqb. induction a as [|x a IH]; destruct b as [|y b]; simpl; try reflexivity.
  rewrite kform_eqb_sym, IH. reflexivity.
Qed.
Lemma keys_eqb_trans : forall a b c, keys_eqb a b = true -> keys_eqb b c = true -> keys_eqb a c = true.
Proof.
  unfold keys_eqb. induction a as [|x a IH]; destruct b as [|y b]; simpl; try discriminate; destruct c as [|z c]; simpl; try discriminate; auto.
  intros H1 H2. apply andb_true_iff in H1, H2. destruct H1 as [A1 A2], H2 as [B1 B2].
  apply andb_true_iff. split; [eapply kform_eqb_trans; eassumption | eapply IH; eassumption].
Qed.
Lemma keys_eqb_length : forall a b, keys_eqb a b = true -> length a = length b.
Proof.
  unfold keys_eqb. induction a as [|x a IH]; destruct b as [|y b]; simpl; try discriminate; auto.
  intros H. apply andb_true_iff in H. destruct H as [_ H]. f_equal. apply IH. exact H.
Qed.

(* ---- the codec -------------------------------------------------------------------------------- *)
(* "closed" = no unescaped colon, does not end inside an escape *)
Fixpoint closed_from (e : bool) (s : str) : bool :=
  match s with
  | [] => negb e
  | c :: r => if e then closed_from false r
              else if (c =? bslash)%N then closed_from true r
              else if (c =? colon)%N then false else closed_from false r
  end.
Definition closed := closed_from false.
Definition safe (s : str) : bool := forallb (fun c => negb ((c =? colon)%N || (c =? bslash)%N)) s.

Lemma closed_esc_app s t : closed_from false (esc s ++ t) = closed_from false t.
Proof.
  induction s as [|c r IH]; simpl; auto.
  destruct ((c =? colon)%N || (c =? bslash)%N) eqn:E; simpl.
  - exact IH.
  - apply orb_false_iff in E as [E1 E2]. rewrite E1, E2. exact IH.
Qed.
Lemma closed_safe_app s t : safe s = true -> closed_from false (s ++ t) = closed_from false t.
Proof.
  induction s as [|c r IH]; simpl; auto. intros H. apply andb_true_iff in H as [H1 H2].
  apply negb_true_iff, orb_false_iff in H1 as [E1 E2]. rewrite E1, E2. auto.
Qed.
Lemma safe_app s t : safe (s ++ t) = safe s && safe t.
Proof. unfold safe. apply forallb_app. Qed.

Fixpoint split_from (e : bool) (cur : str) (s : str) : list str :=
  match s with
  | [] => [rev cur]
  | c :: r => if e then split_from false (c :: cur) r
              else if (c =? bslash)%N then split_from true (c :: cur) r
              else if (c =? colon)%N then rev cur :: split_from false [] r
              else split_from false (c :: cur) r
  end.

Lemma split_closed_app : forall x e cur rest,
  closed_from e x = true ->
  split_from e cur (x ++ colon :: rest) = rev (rev x ++ cur) :: split_from false [] rest.
Proof.
  induction x as [|c r IH]; intros e cur rest H; simpl in *.
  - destruct e; [discriminate|]. reflexivity.
  - destruct e.
    + rewrite IH by exact H. f_equal. rewrite <- app_assoc. reflexivity.
    + destruct (c =? bslash)%N eqn:E1.
      * rewrite IH by exact H. f_equal. rewrite <- app_assoc. reflexivity.
      * destruct (c =? colon)%N eqn:E2; [discriminate|].
        rewrite IH by exact H. f_equal. rewrite <- app_assoc. reflexivity.
Qed.
Lemma split_closed_end : forall x e cur,
  closed_from e x = true -> split_from e cur x = [rev (rev x ++ cur)].
Proof.
  induction x as [|c r IH]; intros e cur H; simpl in *.
  - reflexivity.
  - destruct e.
    + rewrite IH by exact H. rewrite <- app_assoc. reflexivity.
    + destruct (c =? bslash)%N eqn:E1.
      * rewrite IH by exact H. rewrite <- app_assoc. reflexivity.
      * destruct (c =? colon)%N eqn:E2; [discriminate|].
        rewrite IH by exact H. rewrite <- app_assoc. reflexivity.
Qed.

Lemma split_join : forall l, l <> [] -> forallb closed l = true -> split_from false [] (join l) = l.
Proof.
  induction l as [|x r IH]; intros Hne Hc; [congruence|].
  simpl in Hc. apply andb_true_iff in Hc as [Hx Hr].
  destruct r as [|y r'].
  - simpl. rewrite split_closed_end by exact Hx. rewrite app_nil_r, rev_involutive. reflexivity.
  - change (join (x :: y :: r')) with (x ++ colon :: join (y :: r')).
    rewrite split_closed_app by exact Hx. rewrite app_nil_r, rev_involutive.
    f_equal. apply IH; [congruence| exact Hr].
Qed.

Lemma join_inj l1 l2 : length l1 = length l2 ->
  forallb closed l1 = true -> forallb closed l2 = true -> join l1 = join l2 -> l1 = l2.
Proof.
  intros Hlen H1 H2 E.
  destruct l1 as [|s l1], l2 as [|s0 l2]; try discriminate; auto.
  rewrite <- (split_join (s :: l1)), <- (split_join (s0 :: l2)) by (congruence || assumption).
  now rewrite E.
Qed.

Lemma esc_inj : forall s t, esc s = esc t -> s = t.
Proof.
  induction s as [|c r IH]; destruct t as [|d u]; simpl; intros H; auto.
  - destruct ((d =? colon)%N || (d =? bslash)%N); discriminate.
  - destruct ((c =? colon)%N || (c =? bslash)%N); discriminate.
  - destruct ((c =? colon)%N || (c =? bslash)%N) eqn:Ec, ((d =? colon)%N || (d =? bslash)%N) eqn:Ed.
    + inversion H; subst. f_equal; auto.
    + inversion H; subst. apply orb_false_iff in Ed as [_ Ed]. rewrite N.eqb_refl in Ed. discriminate.
    + inversion H; subst. apply orb_false_iff in Ec as [_ Ec]. rewrite N.eqb_refl in Ec. discriminate.
    + inversion H; subst. f_equal; auto.
Qed.

(* decimal rendering: digits and '-' only, injective *)
Lemma uint_str_safe d : safe (uint_str d) = true.
Proof. induction d; simpl; auto. Qed.
Lemma uint_str_inj : forall d1 d2, uint_str d1 = uint_str d2 -> d1 = d2.
Proof. induction d1; destruct d2; simpl; intros H; try discriminate; try reflexivity; inversion H; f_equal; auto. Qed.
Lemma uint_str_no_minus d r : uint_str d <> 45%N :: r.
Proof. destruct d; simpl; intros H; discriminate. Qed.
Lemma int_str_inj i1 i2 : int_str i1 = int_str i2 -> i1 = i2.
Proof.
  destruct i1 as [d1|d1], i2 as [d2|d2]; simpl; intros H.
  - f_equal. apply uint_str_inj. exact H.
  - exfalso. eapply uint_str_no_minus. exact H.
  - exfalso. eapply uint_str_no_minus. symmetry. exact H.
  - inversion H. f_equal. apply uint_str_inj. assumption.
Qed.
Lemma z_to_str_inj a b : z_to_str a = z_to_str b -> a = b.
Proof.
  unfold z_to_str. intros H. apply int_str_inj in H.
  rewrite <- (DecimalZ.of_to a), <- (DecimalZ.of_to b), H. reflexivity.
Qed.
Lemma z_to_str_safe z : safe (z_to_str z) = true.
Proof. unfold z_to_str. destruct (Z.to_int z); simpl; apply uint_str_safe. Qed.

Section Codec.
  Variable ffmt : float -> str.
  (* assumptions about strconv.FormatFloat(f,'f',-1,64) -- trusted base: it never emits ':' or '\',
     and it is injective on floats up to the identification of NaNs *)
  Hypothesis ffmt_safe : forall f, safe (ffmt f) = true.
  Hypothesis ffmt_inj : forall f g, ffmt f = ffmt g <-> float_same f g = true.

  Lemma closed_safe s : safe s = true -> closed_from false s = true.
  Proof. intros H. rewrite <- (app_nil_r s). rewrite closed_safe_app by exact H. reflexivity. Qed.

  Lemma ser_item_closed k : closed (ser_item ffmt k) = true.
  Proof.
    unfold closed. destruct k; unfold ser_item.
    - reflexivity.
    - apply closed_safe. rewrite safe_app, z_to_str_safe. reflexivity.
    - apply closed_safe. rewrite safe_app, ffmt_safe. reflexivity.
    - apply closed_safe. rewrite safe_app, z_to_str_safe. reflexivity.
    - rewrite closed_safe_app by reflexivity.
      rewrite <- (app_nil_r (esc s)). rewrite closed_esc_app. reflexivity.
    - destruct b; reflexivity.
    - destruct t; reflexivity.
  Qed.

  Lemma ser_item_inj a b : ser_item ffmt a = ser_item ffmt b <-> kform_eqb a b = true.
  Proof.
    split.
    - destruct a, b; simpl; intros H; try discriminate; try reflexivity;
        try (injection H as H).
      + apply z_to_str_inj in H. subst. apply Z.eqb_refl.
      + apply ffmt_inj. exact H.
      + apply z_to_str_inj in H. subst. apply Z.eqb_refl.
      + apply esc_inj in H. subst. apply str_eqb_refl.
      + destruct b, b0; try discriminate; reflexivity.
      + destruct t, t0; try discriminate; reflexivity.
    - destruct a, b; simpl; intros H; try discriminate; try reflexivity.
      + apply Z.eqb_eq in H. subst. reflexivity.
      + apply ffmt_inj in H. rewrite H. reflexivity.
      + apply Z.eqb_eq in H. subst. reflexivity.
      + apply str_eqb_eq in H. subst. reflexivity.
      + destruct b, b0; try discriminate; reflexivity.
      + destruct t, t0; try discriminate; reflexivity.
  Qed.

  Lemma map_ser_item_eq : forall a b, map (ser_item ffmt) a = map (ser_item ffmt) b <-> keys_eqb a b = true.
  Proof.
    unfold keys_eqb. induction a as [|x a IH]; destruct b as [|y b]; simpl; split; intros H; try discriminate; try reflexivity.
    - inversion H as [[H1 H2]]. apply andb_true_iff. split; [apply ser_item_inj; exact H1 | apply IH; exact H2].
    - apply andb_true_iff in H. destruct H as [H1 H2]. f_equal; [apply ser_item_inj; exact H1 | apply IH; exact H2].
  Qed.

  Lemma all_closed ks : forallb closed (map (ser_item ffmt) ks) = true.
  Proof. induction ks as [|k ks IH]; simpl; [reflexivity|]. rewrite ser_item_closed. exact IH. Qed.

  (* two key tuples of the same length serialize to the same string iff they are equal column by
     column in normal form: no two different rows share a key, no bucket is split *)
  Theorem key_injective a b : length a = length b ->
    (ser_keys ffmt a = ser_keys ffmt b <-> keys_eqb a b = true).
  Proof.
    intros Hlen. unfold ser_keys. split.
    - intros H. apply map_ser_item_eq. apply join_inj; try apply all_closed; [rewrite !map_length; exact Hlen | exact H].
    - intros H. apply map_ser_item_eq in H. rewrite H. reflexivity.
  Qed.
End Codec.

(* the unrepaired codec (no escaping) is not injective: F-C04-1 *)
Section Unescaped.
  Definition ser_item_raw (k : kform) : str :=
    match k with KStr s => [91; 83; 93]%N ++ s | _ => ser_item (fun _ => []) k end.
  Definition ser_keys_raw (ks : list kform) : str := join (map ser_item_raw ks).
  Lemma raw_codec_collides :
    exists a b, length a = length b /\ ser_keys_raw a = ser_keys_raw b /\ keys_eqb a b = false.
  Proof.
    exists [KStr [88; 58; 91; 83; 93; 89]%N; KStr [90]%N], [KStr [88]%N; KStr [89; 58; 91; 83; 93; 90]%N].
    vm_compute. repeat split.
  Qed.
End Unescaped.


(* ---- buckets ---------------------------------------------------------------------------------- *)
Lemma seen_spec k acc : seen k acc = true <-> exists k', In k' acc /\ keys_eqb k k' = true.
Proof.
  induction acc as [|a acc IH]; simpl.
  - split; [discriminate | intros [k' [[] _]]].
  - rewrite orb_true_iff, IH. split.
    + intros [H|[k' [H1 H2]]]; [exists a; auto | exists k'; auto].
    + intros [k' [[->|H1] H2]]; [left; exact H2 | right; exists k'; auto].
Qed.

Lemma seen_false k acc : seen k acc = false <-> forall k', In k' acc -> keys_eqb k k' = false.
Proof.
  split.
  - intros H k' Hin. destruct (keys_eqb k k') eqn:E; [|reflexivity].
    assert (seen k acc = true) by (apply seen_spec; exists k'; auto). congruence.
  - intros H. destruct (seen k acc) eqn:E; [|reflexivity].
    apply seen_spec in E. destruct E as [k' [H1 H2]]. rewrite (H k' H1) in H2. discriminate.
Qed.

Lemma seen_equiv k1 k2 acc : keys_eqb k1 k2 = true -> seen k1 acc = seen k2 acc.
Proof.
  intros E. destruct (seen k1 acc) eqn:S1, (seen k2 acc) eqn:S2; try reflexivity.
  - apply seen_spec in S1. destruct S1 as [k' [H1 H2]].
    assert (seen k2 acc = true); [|congruence]. apply seen_spec. exists k'. split; [exact H1|].
    eapply keys_eqb_trans; [|exact H2]. rewrite keys_eqb_sym. exact E.
  - apply seen_spec in S2. destruct S2 as [k' [H1 H2]].
    assert (seen k1 acc = true); [|congruence]. apply seen_spec. exists k'. split; [exact H1|].
    eapply keys_eqb_trans; [exact E|exact H2].
Qed.

Lemma dist_in : forall l acc i k, In (i, k) (dist l acc) -> In (i, k) l /\ seen k acc = false.
Proof.
  induction l as [|[i0 k0] l IH]; simpl; intros acc i k H; [contradiction|].
  destruct (seen k0 acc) eqn:S.
  - destruct (IH _ _ _ H) as [H1 H2]. auto.
  - destruct H as [H|H].
    + inversion H; subst. auto.
    + destruct (IH _ _ _ H) as [H1 H2]. split; [auto|].
      simpl in H2. apply orb_false_iff in H2. tauto.
Qed.

Lemma dist_pairwise : forall l acc, ForallOrdPairs (fun a b => keys_eqb a b = false) (map snd (dist l acc)).
Proof.
  induction l as [|[i0 k0] l IH]; simpl; intros acc; [constructor|].
  destruct (seen k0 acc) eqn:S; [apply IH|].
  simpl. constructor; [|apply IH].
  apply Forall_forall. intros k Hk. apply in_map_iff in Hk. destruct Hk as [[j k'] [<- Hin]].
  apply dist_in in Hin. destruct Hin as [_ Hs]. simpl in Hs. apply orb_false_iff in Hs.
  simpl. rewrite keys_eqb_sym. tauto.
Qed.

Lemma dist_cover : forall l acc j k, In (j, k) l ->
  seen k acc = true \/ exists r, In r (dist l acc) /\ keys_eqb k (snd r) = true.
Proof.
  induction l as [|[i0 k0] l IH]; simpl; intros acc j k H; [contradiction|].
  destruct H as [H|H].
  - inversion H; subst. destruct (seen k acc) eqn:S; [left; reflexivity|].
    right. exists (j, k). split; [left; reflexivity | apply keys_eqb_refl].
  - destruct (seen k0 acc) eqn:S; [apply IH with (j := j); exact H|].
    destruct (IH (k0 :: acc) j k H) as [H1|[r [H1 H2]]].
    + simpl in H1. apply orb_true_iff in H1. destruct H1 as [H1|H1]; [|left; exact H1].
      right. exists (i0, k0). split; [left; reflexivity | exact H1].
    + right. exists r. split; [right; exact H1 | exact H2].
Qed.

Lemma filter_none {A} (f : A -> bool) l : (forall x, In x l -> f x = false) -> filter f l = [].
Proof.
  induction l as [|x l IH]; simpl; intros H; [reflexivity|].
  rewrite (H x (or_introl eq_refl)). apply IH. intros y Hy. apply H. right. exact Hy.
Qed.

Lemma unique_match reps k :
  ForallOrdPairs (fun a b => keys_eqb a b = false) reps ->
  (exists r, In r reps /\ keys_eqb k r = true) ->
  length (filter (fun r => keys_eqb k r) reps) = 1%nat.
Proof.
  induction reps as [|a reps IH]; intros Hp [r [Hin Hk]]; [contradiction|].
  inversion Hp as [|? ? Hhead Htail]; subst. simpl.
  destruct (keys_eqb k a) eqn:E.
  - simpl. f_equal. rewrite filter_none; [reflexivity|].
    intros x Hx. destruct (keys_eqb k x) eqn:Ex; [|reflexivity].
    rewrite Forall_forall in Hhead. specialize (Hhead x Hx).
    assert (keys_eqb a x = true).
    { eapply keys_eqb_trans; [|exact Ex]. rewrite keys_eqb_sym. exact E. }
    congruence.
  - destruct Hin as [->|Hin]; [congruence|]. apply IH; [exact Htail | exists r; auto].
Qed.

Lemma concat_insert_perm {A B} (m : B -> bool) (f : B -> list A) (x : A) reps :
  Permutation (concat (map (fun r => if m r then x :: f r else f r) reps))
              (repeat x (length (filter m reps)) ++ concat (map f reps)).
Proof.
  induction reps as [|r reps IH]; simpl; [reflexivity|].
  destruct (m r); simpl.
  - apply perm_skip. rewrite IH. rewrite !app_assoc. apply Permutation_app_tail. apply Permutation_app_comm.
  - rewrite IH. rewrite !app_assoc. apply Permutation_app_tail. apply Permutation_app_comm.
Qed.

Lemma buckets_partition reps (l : list (nat * K)) :
  (forall p, In p l -> length (filter (fun r => keys_eqb (snd p) r) reps) = 1%nat) ->
  Permutation (concat (map (fun r => bucket l r) reps)) (map fst l).
Proof.
  induction l as [|p l IH]; intros H.
  - clear H. unfold bucket. simpl. induction reps as [|r reps IHr]; simpl; [apply perm_nil|exact IHr].
  - assert (E : map (fun r => bucket (p :: l) r) reps =
                map (fun r => if keys_eqb (snd p) r then fst p :: bucket l r else bucket l r) reps).
    { apply map_ext. intros r. unfold bucket. cbn [filter]. destruct (keys_eqb (snd p) r); simpl; reflexivity. }
    rewrite E. eapply perm_trans; [apply (concat_insert_perm (fun r => keys_eqb (snd p) r) (fun r => bucket l r) (fst p) reps)|].
    rewrite (H p (or_introl eq_refl)). simpl. apply perm_skip. apply IH.
    intros q Hq. apply H. right. exact Hq.
Qed.

(* GROUP BY: the buckets are a partition of the rows *)
Theorem group_partition l : Permutation (concat (group l)) (map fst l).
Proof.
  unfold group. rewrite <- (map_map snd (fun k => bucket l k)).
  apply buckets_partition. intros [j k] Hin. simpl.
  apply unique_match; [apply dist_pairwise|].
  destruct (dist_cover l [] j k Hin) as [H|[r [H1 H2]]]; [discriminate|].
  exists (snd r). split; [apply in_map; exact H1 | exact H2].
Qed.

Lemma in_bucket l kr i : In i (bucket l kr) <-> exists k, In (i, k) l /\ keys_eqb k kr = true.
Proof.
  unfold bucket. rewrite in_map_iff. split.
  - intros [[i' k] [E H]]. simpl in E. subst. apply filter_In in H. exists k. exact H.
  - intros [k [H1 H2]]. exists (i, k). split; [reflexivity | apply filter_In; auto].
Qed.

Lemma nodup_fst_key (l : list (nat * K)) i k k' : NoDup (map fst l) -> In (i, k) l -> In (i, k') l -> k = k'.
Proof.
  induction l as [|[j kj] l IH]; simpl; intros ND H1 H2; [contradiction|].
  inversion ND as [|? ? Hn ND']; subst.
  destruct H1 as [H1|H1], H2 as [H2|H2].
  - congruence.
  - inversion H1; subst. exfalso. apply Hn. apply in_map_iff. exists (i, k'). auto.
  - inversion H2; subst. exfalso. apply Hn. apply in_map_iff. exists (i, k). auto.
  - eapply IH; eassumption.
Qed.

(* two rows share a bucket iff their keys are equal: no two different rows share a bucket, and
   no bucket is split *)
Theorem same_bucket_iff (l : list (nat * K)) i k j k' :
  NoDup (map fst l) -> In (i, k) l -> In (j, k') l ->
  ((exists b, In b (group l) /\ In i b /\ In j b) <-> keys_eqb k k' = true).
Proof.
  intros ND Hi Hj. split.
  - intros [b [Hb [Hib Hjb]]]. unfold group in Hb. apply in_map_iff in Hb. destruct Hb as [r [<- Hr]].
    apply in_bucket in Hib. apply in_bucket in Hjb.
    destruct Hib as [k1 [A1 A2]], Hjb as [k2 [B1 B2]].
    rewrite (nodup_fst_key l i k k1 ND Hi A1). rewrite (nodup_fst_key l j k' k2 ND Hj B1).
    eapply keys_eqb_trans; [exact A2|]. rewrite keys_eqb_sym. exact B2.
  - intros E. destruct (dist_cover l [] i k Hi) as [H|[r [H1 H2]]]; [discriminate|].
    exists (bucket l (snd r)). split; [unfold group; apply in_map_iff; exists r; auto|].
    split; apply in_bucket.
    + exists k. auto.
    + exists k'. split; [exact Hj|]. eapply keys_eqb_trans; [|exact H2]. rewrite keys_eqb_sym. exact E.
Qed.

Theorem group_no_empty_bucket l b : In b (group l) -> b <> [].
Proof.
  unfold group. intros H. apply in_map_iff in H. destruct H as [[i k] [<- Hr]].
  apply dist_in in Hr. destruct Hr as [Hin _]. simpl.
  assert (In i (bucket l k)) by (apply in_bucket; exists k; split; [exact Hin | apply keys_eqb_refl]).
  intros E. rewrite E in H. contradiction.
Qed.

Lemma indexed_nodup {A} (l : list A) : NoDup (map fst (indexed l)).
Proof.
  unfold indexed. rewrite map_fst_combine_seq || idtac.
  assert (G : forall n (l : list A), map fst (combine (seq n (length l)) l) = seq n (length l)).
  { intros n l0. revert n. induction l0 as [|x l0 IH]; intros n; simpl; [reflexivity|]. rewrite IH. reflexivity. }
  rewrite G. apply seq_NoDup.
Qed.

(* DISTINCT keeps exactly one row of every bucket: the kept rows have pairwise different keys and
   every row's key is the key of a kept row *)
Theorem distinct_spec (ks : list K) :
  ForallOrdPairs (fun a b => keys_eqb a b = false) (map snd (dist (indexed ks) [])) /\
  (forall j k, In (j, k) (indexed ks) -> exists r, In r (dist (indexed ks) []) /\ keys_eqb k (snd r) = true) /\
  (forall r, In r (dist (indexed ks) []) -> In r (indexed ks)).
Proof.
  split; [apply dist_pairwise|]. split.
  - intros j k H. destruct (dist_cover _ [] j k H) as [H1|H1]; [discriminate|exact H1].
  - intros [i k] H. apply dist_in in H. tauto.
Qed.

(* EXCEPT / INTERSECT *)
Lemma setop_sound kr all : forall l rk acc i,
  In i (setop kr all l rk acc) ->
  exists k, In (i, k) l /\ seen k rk = kr /\ (all = false -> seen k acc = false).
Proof.
  induction l as [|[i0 k0] l IH]; simpl; intros rk acc i H; [contradiction|].
  destruct (Bool.eqb (seen k0 rk) kr) eqn:E.
  - apply eqb_prop in E. destruct all.
    + destruct H as [<-|H]; [exists k0; repeat split; auto; discriminate|].
      destruct (IH _ _ _ H) as [k [H1 [H2 H3]]]. exists k. auto.
    + destruct (seen k0 acc) eqn:S.
      * destruct (IH _ _ _ H) as [k [H1 [H2 H3]]]. exists k. auto.
      * destruct H as [<-|H]; [exists k0; auto|].
        destruct (IH _ _ _ H) as [k [H1 [H2 H3]]]. exists k. repeat split; auto.
        intros _. specialize (H3 eq_refl). simpl in H3. apply orb_false_iff in H3. tauto.
  - destruct (IH _ _ _ H) as [k [H1 [H2 H3]]]. exists k. auto.
Qed.

Lemma setop_complete_all kr : forall l rk acc i k,
  In (i, k) l -> seen k rk = kr -> In i (setop kr true l rk acc).
Proof.
  induction l as [|[i0 k0] l IH]; simpl; intros rk acc i k H Hs; [contradiction|].
  destruct H as [H|H].
  - inversion H; subst. rewrite eqb_reflx. left. reflexivity.
  - destruct (Bool.eqb (seen k0 rk) kr); [right|]; eapply IH; eassumption.
Qed.

Lemma setop_complete_distinct kr : forall l rk acc i k,
  In (i, k) l -> seen k rk = kr ->
  seen k acc = true \/ exists j k', In (j, k') l /\ In j (setop kr false l rk acc) /\ keys_eqb k k' = true.
Proof.
  induction l as [|[i0 k0] l IH]; simpl; intros rk acc i k H Hs; [contradiction|].
  destruct H as [H|H].
  - inversion H; subst. rewrite eqb_reflx. destruct (seen k acc) eqn:S; [left; reflexivity|].
    right. exists i, k. repeat split; auto. left. reflexivity. apply keys_eqb_refl.
  - destruct (Bool.eqb (seen k0 rk) kr) eqn:E.
    + destruct (seen k0 acc) eqn:S.
      * destruct (IH rk acc i k H Hs) as [H1|[j [k' [H1 [H2 H3]]]]]; [left; exact H1|].
        right. exists j, k'. auto.
      * destruct (IH rk (k0 :: acc) i k H Hs) as [H1|[j [k' [H1 [H2 H3]]]]].
        -- simpl in H1. apply orb_true_iff in H1. destruct H1 as [H1|H1]; [|left; exact H1].
           right. exists i0, k0. repeat split; auto. left. reflexivity.
        -- right. exists j, k'. repeat split; auto. right. exact H2.
    + destruct (IH rk acc i k H Hs) as [H1|[j [k' [H1 [H2 H3]]]]]; [left; exact H1|].
      right. exists j, k'. auto.
Qed.
