(* Lateral.v -- LATERAL joins and recursive common table expressions (Model/Query.v: lateral_rows,
   rec_loop, SrcLateral, SrcRec): what rows they yield, for every table and every derived query. *)
From Coq Require Import ZArith List Bool Lia.
Require Import Csvq.Model.Base Csvq.Model.Value Csvq.Model.Expr Csvq.Model.Key Csvq.Model.SortVal Csvq.Model.Query.
Require Import Csvq.Proofs.Key Csvq.Proofs.Query.
Import ListNotations.

(* ---- LATERAL ------------------------------------------------------------------------------------ *)
Lemma inner_join_single c l rs : inner_join c [l] rs = match_right c l rs.
Proof.
  cbn [inner_join]. destruct (match_right c l rs) as [a|e]; cbn [bind]; [|reflexivity].
  now rewrite app_nil_r.
Qed.

Lemma left_join_single c rw l rs :
  left_join c rw [l] rs = do a <- match_right c l rs; Ok (match a with [] => [l ++ nulls rw] | _ => a end).
Proof.
  cbn [left_join]. destruct (match_right c l rs) as [a|e]; cbn [bind]; [|reflexivity].
  now rewrite app_nil_r.
Qed.

Definition lateral_kind (k : jkind) : bool :=
  match k with JCross | JInner | JLeft => true | _ => false end.

(* a derived table that does not depend on the left row: LATERAL changes nothing *)
Theorem lateral_rows_const k cond lw rw rs ls :
  lateral_kind k = true ->
  lateral_rows k cond lw rw (fun _ => Ok rs) ls = join_rows k cond lw rw ls rs.
Proof.
  intros Hk. induction ls as [|l ls IH].
  - destruct k; try discriminate; reflexivity.
  - cbn [lateral_rows bind]. rewrite IH. clear IH.
    destruct k; try discriminate; cbn [join_rows].
    + rewrite inner_join_single. cbn [inner_join]. reflexivity.
    + rewrite inner_join_single. cbn [inner_join]. reflexivity.
    + rewrite left_join_single. cbn [left_join].
      destruct (match_right cond l rs) as [a|e]; cbn [bind]; reflexivity.
Qed.

(* the rows of a LATERAL join: per left row, in order, the join of that row alone with the derived
   table evaluated for that row; nothing else *)
Theorem lateral_rows_spec k cond lw rw sub ls out :
  lateral_rows k cond lw rw sub ls = Ok out <->
  exists parts,
    Forall2 (fun l part => exists rs, sub l = Ok rs /\ join_rows k cond lw rw [l] rs = Ok part) ls parts /\
    out = concat parts.
Proof.
  revert out. induction ls as [|l ls IH]; intros out.
  - cbn [lateral_rows]. split.
    + intros H. injection H as <-. exists []. split; [constructor | reflexivity].
    + intros [parts [HF ->]]. inversion HF. reflexivity.
  - cbn [lateral_rows]. split.
    + intros H. destruct (sub l) as [rs|e] eqn:Hs; cbn [bind] in H; [|discriminate].
      destruct (join_rows k cond lw rw [l] rs) as [a|e] eqn:Ha; cbn [bind] in H; [|discriminate].
      destruct (lateral_rows k cond lw rw sub ls) as [b|e] eqn:Hb; cbn [bind] in H; [|discriminate].
      injection H as <-. destruct (proj1 (IH b) eq_refl) as [parts [HF ->]].
      exists (a :: parts). split; [|reflexivity]. constructor; [|exact HF]. exists rs. split; [exact Hs|exact Ha].
    + intros [parts [HF ->]]. inversion HF as [|x p ls' parts' [rs [Hs Ha]] HF' E1 E2]; subst.
      rewrite Hs. cbn [bind]. rewrite Ha. cbn [bind].
      rewrite (proj2 (IH (concat parts')) (ex_intro _ parts' (conj HF' eq_refl))). reflexivity.
Qed.

Lemma Forall2_in_r {A B} (R : A -> B -> Prop) la lb b : Forall2 R la lb -> In b lb -> exists a, In a la /\ R a b.
Proof.
  induction 1 as [|x y la lb HR HF IH]; intros Hin; [destruct Hin|].
  destruct Hin as [<-|Hin]; [exists x; split; [left; reflexivity|exact HR]|].
  destruct (IH Hin) as [a [Ha HRa]]. exists a. split; [right; exact Ha|exact HRa].
Qed.
Lemma Forall2_in_l {A B} (R : A -> B -> Prop) la lb a : Forall2 R la lb -> In a la -> exists b, In b lb /\ R a b.
Proof.
  induction 1 as [|x y la lb HR HF IH]; intros Hin; [destruct Hin|].
  destruct Hin as [<-|Hin]; [exists y; split; [left; reflexivity|exact HR]|].
  destruct (IH Hin) as [b [Hb HRb]]. exists b. split; [right; exact Hb|exact HRb].
Qed.

(* which rows an INNER / LEFT JOIN LATERAL holds, as a relational statement: the pairs of a left row and a row
   of the derived table evaluated for that left row on which the condition is TRUE, and (LEFT) every left row
   without such a partner once, padded with NULLs *)
Theorem lateral_rows_membership (p : row -> bool) cond (v : row -> val) :
  (forall x, p x = is_true (v x)) ->
  forall k lw rw (sub : row -> res (list row)) ls out,
  k = JInner \/ k = JLeft ->
  (forall l rs r, In l ls -> sub l = Ok rs -> In r rs -> eval (l ++ r) cond = Ok (v (l ++ r))) ->
  lateral_rows k (Some cond) lw rw sub ls = Ok out ->
  forall x, In x out <->
    (exists l rs r, In l ls /\ sub l = Ok rs /\ In r rs /\ p (l ++ r) = true /\ x = l ++ r) \/
    (k = JLeft /\ exists l rs, In l ls /\ sub l = Ok rs /\ (forall r, In r rs -> p (l ++ r) = false) /\ x = l ++ nulls rw).
Proof.
  intros Hp k lw rw sub ls out Hk Htot H x.
  apply lateral_rows_spec in H. destruct H as [parts [HF ->]].
  assert (Hpart : forall l rs part, In l ls -> sub l = Ok rs -> join_rows k (Some cond) lw rw [l] rs = Ok part ->
            part = match k with JInner => inner_spec p [l] rs | _ => left_spec p rw [l] rs end).
  { intros l rs part Hl Hs Hj.
    rewrite (join_rows_spec p cond v Hp k lw rw [l] rs) in Hj.
    - destruct Hk as [-> | ->]; injection Hj as <-; reflexivity.
    - intros l' r' [E|[]] Hr'. subst l'. exact (Htot l rs r' Hl Hs Hr'). }
  rewrite in_concat. split.
  - intros [part [Hin Hx]].
    destruct (Forall2_in_r _ _ _ _ HF Hin) as [l [Hl [rs [Hs Hj]]]].
    rewrite (Hpart l rs part Hl Hs Hj) in Hx.
    destruct Hk as [-> | ->].
    + apply in_inner_spec in Hx. destruct Hx as [l' [r [[E|[]] [Hr [Hpr ->]]]]]. subst l'.
      left. exists l, rs, r. auto.
    + apply in_left_spec in Hx. destruct Hx as [Hx | [l' [[E|[]] [Hn ->]]]].
      * apply in_inner_spec in Hx. destruct Hx as [l' [r [[E|[]] [Hr [Hpr ->]]]]]. subst l'. left. exists l, rs, r. auto.
      * subst l'. right. split; [reflexivity|]. exists l, rs. auto.
  - intros [[l [rs [r [Hl [Hs [Hr [Hpr ->]]]]]]] | [-> [l [rs [Hl [Hs [Hn ->]]]]]]].
    + destruct (Forall2_in_l _ _ _ _ HF Hl) as [part [Hin [rs' [Hs' Hj]]]].
      rewrite Hs in Hs'. injection Hs' as <-.
      exists part. split; [exact Hin|]. rewrite (Hpart l rs part Hl Hs Hj).
      destruct Hk as [-> | ->].
      * apply in_inner_spec. exists l, r. repeat split; auto. left; reflexivity.
      * apply in_left_spec. left. apply in_inner_spec. exists l, r. repeat split; auto. left; reflexivity.
    + destruct (Forall2_in_l _ _ _ _ HF Hl) as [part [Hin [rs' [Hs' Hj]]]].
      rewrite Hs in Hs'. injection Hs' as <-.
      exists part. split; [exact Hin|]. rewrite (Hpart l rs part Hl Hs Hj).
      apply in_left_spec. right. exists l. repeat split; auto. left; reflexivity.
Qed.

(* an error of the derived table or of the ON condition for any left row is an error of the join *)
Theorem lateral_rows_error k cond lw rw sub ls l e :
  In l ls -> sub l = Err e -> exists e', lateral_rows k cond lw rw sub ls = Err e'.
Proof.
  induction ls as [|x ls IH]; intros Hin He; [destruct Hin|].
  cbn [lateral_rows]. destruct Hin as [->|Hin].
  - rewrite He. eexists. reflexivity.
  - destruct (sub x) as [rs|e1]; cbn [bind]; [|eexists; reflexivity].
    destruct (join_rows k cond lw rw [x] rs) as [a|e1]; cbn [bind]; [|eexists; reflexivity].
    destruct (IH Hin He) as [e' ->]. eexists. reflexivity.
Qed.

Lemma eval_source_lateral strict k l rw sub cond :
  eval_source strict (SrcLateral k l rw sub cond) =
  (do ls <- eval_source strict l;
   match k with
   | JRight | JFull => Err (EOther 98)
   | _ => lateral_rows k cond (src_width l) rw (fun o => eval_query strict (sub o)) ls
   end).
Proof. reflexivity. Qed.

Lemma eval_source_rec strict all w base step limit :
  eval_source strict (SrcRec all w base step limit) =
  (do b <- eval_query strict base; rec_loop strict all (fun x => eval_query strict (step x)) limit b b).
Proof. reflexivity. Qed.

Theorem lateral_source_spec strict k l rw sub cond out :
  eval_source strict (SrcLateral k l rw sub cond) = Ok out <->
  lateral_kind k = true /\
  exists ls parts,
    eval_source strict l = Ok ls /\
    Forall2 (fun o part => exists rs, eval_query strict (sub o) = Ok rs /\
                                      join_rows k cond (src_width l) rw [o] rs = Ok part) ls parts /\
    out = concat parts.
Proof.
  rewrite eval_source_lateral. split.
  - intros H. destruct (eval_source strict l) as [ls|e]; cbn [bind] in H; [|discriminate].
    destruct k; try discriminate; (split; [reflexivity|]);
      apply lateral_rows_spec in H; destruct H as [parts [HF ->]]; exists ls, parts; auto.
  - intros [Hk [ls [parts [Hl [HF ->]]]]]. rewrite Hl. cbn [bind].
    destruct k; try discriminate; apply lateral_rows_spec; exists parts; auto.
Qed.

Theorem lateral_right_full_rejected strict k l rw sub cond :
  lateral_kind k = false -> forall out, eval_source strict (SrcLateral k l rw sub cond) <> Ok out.
Proof.
  intros Hk out. rewrite eval_source_lateral. destruct (eval_source strict l); cbn [bind]; [|discriminate].
  destruct k; try discriminate.
Qed.

(* ---- keeping the first row of every key ----------------------------------------------------------- *)
Section Dedup.
  Context {A : Type} (key : A -> list kform).

  Fixpoint dedup_by (l : list A) (acc : list (list kform)) : list A :=
    match l with
    | [] => []
    | x :: l' => if seen (key x) acc then dedup_by l' acc else x :: dedup_by l' (key x :: acc)
    end.
  Fixpoint acc_after (l : list A) (acc : list (list kform)) : list (list kform) :=
    match l with
    | [] => acc
    | x :: l' => if seen (key x) acc then acc_after l' acc else acc_after l' (key x :: acc)
    end.

  Lemma dedup_app a b acc : dedup_by (a ++ b) acc = dedup_by a acc ++ dedup_by b (acc_after a acc).
  Proof.
    revert acc. induction a as [|x a IH]; intros acc; [reflexivity|].
    cbn [app dedup_by acc_after]. destruct (seen (key x) acc); [apply IH|].
    cbn [app]. f_equal. apply IH.
  Qed.

  Lemma dedup_idem l : forall acc, dedup_by (dedup_by l acc) acc = dedup_by l acc.
  Proof.
    induction l as [|x l IH]; intros acc; [reflexivity|].
    cbn [dedup_by]. destruct (seen (key x) acc) eqn:Hs; [apply IH|].
    cbn [dedup_by]. rewrite Hs. f_equal. apply IH.
  Qed.

  Lemma acc_after_dedup l : forall acc, acc_after (dedup_by l acc) acc = acc_after l acc.
  Proof.
    induction l as [|x l IH]; intros acc; [reflexivity|].
    cbn [dedup_by acc_after]. destruct (seen (key x) acc) eqn:Hs; [apply IH|].
    cbn [acc_after]. rewrite Hs. apply IH.
  Qed.

  (* removing duplicates step by step = removing them once from the concatenation *)
  Lemma dedup_incremental a b : dedup_by (dedup_by a [] ++ b) [] = dedup_by (a ++ b) [].
  Proof. rewrite !dedup_app, dedup_idem, acc_after_dedup. reflexivity. Qed.

  Lemma dedup_in l : forall acc x, In x (dedup_by l acc) -> In x l /\ seen (key x) acc = false.
  Proof.
    induction l as [|y l IH]; intros acc x Hin; [destruct Hin|].
    cbn [dedup_by] in Hin. destruct (seen (key y) acc) eqn:Hs.
    - destruct (IH _ _ Hin). split; [right|]; assumption.
    - destruct Hin as [->|Hin]; [split; [left; reflexivity|exact Hs]|].
      destruct (IH _ _ Hin) as [H1 H2]. split; [right; exact H1|].
      cbn [seen] in H2. apply orb_false_iff in H2. apply H2.
  Qed.

  (* no two kept rows have equal keys *)
  Lemma dedup_pairwise l : forall acc,
    ForallOrdPairs (fun a b => keys_eqb (key a) (key b) = false) (dedup_by l acc).
  Proof.
    induction l as [|x l IH]; intros acc; [constructor|].
    cbn [dedup_by]. destruct (seen (key x) acc); [apply IH|].
    constructor; [|apply IH]. apply Forall_forall. intros y Hy.
    apply dedup_in in Hy. destruct Hy as [_ Hy]. cbn [seen] in Hy.
    apply orb_false_iff in Hy. rewrite keys_eqb_sym. apply Hy.
  Qed.

  (* every row has a kept row with an equal key, or its key was taken before *)
  Lemma dedup_cover l : forall acc x, In x l ->
    seen (key x) acc = true \/ exists y, In y (dedup_by l acc) /\ keys_eqb (key x) (key y) = true.
  Proof.
    induction l as [|y l IH]; intros acc x Hin; [destruct Hin|].
    cbn [dedup_by]. destruct Hin as [->|Hin].
    - destruct (seen (key x) acc) eqn:Hs; [left; reflexivity|].
      right. exists x. split; [left; reflexivity|apply keys_eqb_refl].
    - destruct (seen (key y) acc) eqn:Hs.
      + destruct (IH acc x Hin) as [H|[z [Hz1 Hz2]]]; [left; exact H|right; exists z; auto].
      + destruct (IH (key y :: acc) x Hin) as [H|[z [Hz1 Hz2]]].
        * cbn [seen] in H. apply orb_true_iff in H. destruct H as [H|H]; [|left; exact H].
          right. exists y. split; [left; reflexivity|exact H].
        * right. exists z. split; [right; exact Hz1|exact Hz2].
  Qed.
End Dedup.

(* pick over distinct_idx is dedup_by *)
Lemma pick_dist {A} (key : A -> list kform) (pre l : list A) acc :
  pick (pre ++ l) (map fst (dist (combine (seq (length pre) (length l)) (map key l)) acc)) = dedup_by key l acc.
Proof.
  revert pre acc. induction l as [|x l IH]; intros pre acc; [reflexivity|].
  cbn [length seq map combine dist dedup_by]. destruct (seen (key x) acc).
  - specialize (IH (pre ++ [x]) acc). rewrite <- app_assoc, app_length in IH. cbn [length app] in IH.
    rewrite Nat.add_1_r in IH. exact IH.
  - cbn [map fst]. unfold pick at 1. cbn [flat_map].
    rewrite nth_error_app2 by lia. rewrite Nat.sub_diag. cbn [nth_error app]. f_equal.
    specialize (IH (pre ++ [x]) (key x :: acc)). rewrite <- app_assoc, app_length in IH. cbn [length app] in IH.
    rewrite Nat.add_1_r in IH. exact IH.
Qed.

Lemma pick_distinct_idx {A} (key : A -> list kform) (l : list A) :
  pick l (distinct_idx (map key l)) = dedup_by key l [].
Proof.
  unfold distinct_idx, indexed. rewrite map_length. exact (pick_dist key [] l []).
Qed.

(* ---- recursive common table expressions ------------------------------------------------------------- *)
Section Rec.
  Variable strict : bool.
  Variable all : bool.
  Variable step : list row -> res (list row).

  (* UNION ALL keeps everything; UNION keeps the first row of every key *)
  Definition combine_rows (l : list row) : list row :=
    if all then l else dedup_by (row_key strict) l [].

  Lemma union_rows_combine a b : union_rows strict all a b = combine_rows (a ++ b).
  Proof.
    unfold union_rows, combine_rows, union_idx. destruct all.
    - rewrite !map_length, <- app_length. unfold pick. apply pick_seq.
    - rewrite <- map_app. apply pick_distinct_idx.
  Qed.

  Lemma combine_incremental a b : combine_rows (combine_rows a ++ b) = combine_rows (a ++ b).
  Proof. unfold combine_rows. destruct all; [reflexivity|apply dedup_incremental]. Qed.

  (* the non-empty step results, each computed from the one before, up to the first empty one *)
  Inductive chain : list row -> list (list row) -> Prop :=
  | chain_end w : step w = Ok [] -> chain w []
  | chain_step w new ws : step w = Ok new -> new <> [] -> chain new ws -> chain w (new :: ws).

  Lemma chain_functional w ws1 : chain w ws1 -> forall ws2, chain w ws2 -> ws1 = ws2.
  Proof.
    induction 1 as [w H|w new ws Hs Hne Hc IH]; intros ws2 H2.
    - inversion H2 as [w' H'|w' new' ws' Hs' Hne' Hc']; subst; [reflexivity|].
      rewrite H in Hs'. injection Hs' as <-. contradiction.
    - inversion H2 as [w' H'|w' new' ws' Hs' Hne' Hc']; subst.
      + rewrite Hs in H'. injection H' as ->. contradiction.
      + rewrite Hs in Hs'. injection Hs' as <-. f_equal. apply IH. exact Hc'.
  Qed.

  Theorem rec_loop_spec fuel : forall acc work out,
    rec_loop strict all step fuel acc work = Ok out <->
    exists ws, chain work ws /\ (length ws < fuel)%nat /\ out = combine_rows (combine_rows acc ++ concat ws).
  Proof.
    induction fuel as [|f IH]; intros acc work out.
    - cbn [rec_loop]. split; [discriminate|]. intros [ws [_ [H _]]]. lia.
    - cbn [rec_loop]. split.
      + intros H. destruct (step work) as [new|e] eqn:Hs; cbn [bind] in H; [|discriminate].
        destruct new as [|r new].
        * injection H as <-. exists []. split; [constructor; exact Hs|]. split; [cbn; lia|].
          rewrite union_rows_combine. cbn [concat]. rewrite !app_nil_r.
          pose proof (combine_incremental acc []) as E. rewrite !app_nil_r in E. now rewrite E.
        * apply IH in H. destruct H as [ws [Hc [Hl ->]]].
          exists ((r :: new) :: ws). split; [econstructor; [exact Hs|discriminate|exact Hc]|].
          split; [cbn [length]; lia|].
          rewrite union_rows_combine. cbn [concat].
          rewrite (combine_incremental (combine_rows (acc ++ r :: new)) (concat ws)).
          rewrite (combine_incremental (acc ++ r :: new) (concat ws)).
          rewrite (combine_incremental acc ((r :: new) ++ concat ws)).
          now rewrite <- app_assoc.
      + intros [ws [Hc [Hl ->]]]. inversion Hc as [w Hs|w new ws' Hs Hne Hc']; subst.
        * rewrite Hs. cbn [bind]. rewrite union_rows_combine. cbn [concat]. rewrite !app_nil_r.
          pose proof (combine_incremental acc []) as E. rewrite !app_nil_r in E. now rewrite E.
        * rewrite Hs. cbn [bind]. destruct new as [|r new]; [contradiction|].
          apply IH. exists ws'. split; [exact Hc'|]. split; [cbn [length] in Hl; lia|].
          rewrite union_rows_combine. cbn [concat].
          rewrite (combine_incremental (combine_rows (acc ++ r :: new)) (concat ws')).
          rewrite (combine_incremental (acc ++ r :: new) (concat ws')).
          rewrite (combine_incremental acc ((r :: new) ++ concat ws')).
          now rewrite <- app_assoc.
  Qed.

  (* the limit is an error, never a shortened result *)
  Theorem rec_loop_limit fuel : forall acc work ws,
    chain work ws -> (fuel <= length ws)%nat -> rec_loop strict all step fuel acc work = Err (EOther 97).
  Proof.
    induction fuel as [|f IH]; intros acc work ws Hc Hl; [reflexivity|].
    cbn [rec_loop]. inversion Hc as [w Hs|w new ws' Hs Hne Hc']; subst; [cbn in Hl; lia|].
    rewrite Hs. cbn [bind]. destruct new as [|r new]; [contradiction|].
    apply IH with (ws := ws'); [exact Hc'|cbn [length] in Hl; lia].
  Qed.
End Rec.

(* the result of WITH RECURSIVE t AS (base UNION [ALL] step): the base rows followed by the rows of every
   iteration, in that order, combined by UNION [ALL]; the iteration stops at the first empty step result *)
Theorem rec_source_spec strict all w base step limit out :
  eval_source strict (SrcRec all w base step limit) = Ok out <->
  exists b ws,
    eval_query strict base = Ok b /\
    chain (fun work => eval_query strict (step work)) b ws /\
    (length ws < limit)%nat /\
    out = combine_rows strict all (b ++ concat ws).
Proof.
  rewrite eval_source_rec. split.
  - intros H. destruct (eval_query strict base) as [b|e]; cbn [bind] in H; [|discriminate].
    apply rec_loop_spec in H. destruct H as [ws [Hc [Hl ->]]]. exists b, ws.
    repeat split; try assumption. apply combine_incremental.
  - intros [b [ws [Hb [Hc [Hl ->]]]]]. rewrite Hb. cbn [bind]. apply rec_loop_spec.
    exists ws. repeat split; try assumption. symmetry. apply combine_incremental.
Qed.

Theorem rec_union_has_one_row_per_key strict l :
  ForallOrdPairs (fun a b => keys_eqb (row_key strict a) (row_key strict b) = false) (combine_rows strict false l) /\
  (forall x, In x (combine_rows strict false l) -> In x l) /\
  (forall x, In x l -> exists y, In y (combine_rows strict false l) /\ keys_eqb (row_key strict x) (row_key strict y) = true).
Proof.
  unfold combine_rows. split; [apply dedup_pairwise|]. split.
  - intros x Hx. apply dedup_in in Hx. apply Hx.
  - intros x Hx. destruct (dedup_cover (row_key strict) l [] x Hx) as [H|H]; [discriminate|exact H].
Qed.

(* ---- SELECT DISTINCT, also over a grouped view ---------------------------------------------------------------- *)
Lemma dedup_by_map {A B} (f : A -> B) (key : B -> list kform) (l : list A) : forall acc,
  map f (dedup_by (fun a => key (f a)) l acc) = dedup_by key (map f l) acc.
Proof.
  induction l as [|x l IH]; intros acc; [reflexivity|].
  cbn [dedup_by map]. destruct (seen (key (f x)) acc); [apply IH|]. cbn [map]. f_equal. apply IH.
Qed.

(* the DISTINCT step of eval_body: of the rows produced so far, the first one of every key, in order *)
Lemma distinct_step strict (outs : list (row * row)) :
  map snd (pick outs (distinct_idx (map (fun ro => row_key strict (snd ro)) outs))) =
  dedup_by (row_key strict) (map snd outs) [].
Proof.

  etransitivity; [|exact (dedup_by_map snd (row_key strict) outs [])].
  f_equal. exact (pick_distinct_idx (fun ro : row * row => row_key strict (snd ro)) outs).
Qed.

(* SELECT DISTINCT items FROM src [WHERE c] GROUP BY keys: one row per bucket as without DISTINCT, and of these rows
   the first one of every key (which matters when not all the keys are selected) *)
Theorem distinct_group_by_pipeline strict src wh keys items :
  eval_query strict (Q (BSelect src wh (Some keys) None items true) [] None None) =
  (do rows <- eval_query strict (Q (BSelect src wh (Some keys) None items false) [] None None);
   Ok (dedup_by (row_key strict) rows [])).
Proof.
  change (eval_query strict (Q (BSelect src wh (Some keys) None items true) [] None None))
    with (do rows <- eval_body strict (BSelect src wh (Some keys) None items true); apply_order_limit strict [] None None rows).
  change (eval_query strict (Q (BSelect src wh (Some keys) None items false) [] None None))
    with (do rows <- eval_body strict (BSelect src wh (Some keys) None items false); apply_order_limit strict [] None None rows).
  change (eval_body strict (BSelect src wh (Some keys) None items true))
    with (do rows <- eval_source strict src;
          do rows1 <- (match wh with None => Ok rows | Some c => filter_rows c rows end);
          do outs <- (do gs <- group_rows strict keys rows1;
                      do gs1 <- Ok gs;
                      mapM (fun g => do o <- mapM (eval_item strict g) items; Ok (hd [] g, o)) gs1);
          Ok (pick outs (distinct_idx (map (fun ro => row_key strict (snd ro)) outs)))).
  change (eval_body strict (BSelect src wh (Some keys) None items false))
    with (do rows <- eval_source strict src;
          do rows1 <- (match wh with None => Ok rows | Some c => filter_rows c rows end);
          do outs <- (do gs <- group_rows strict keys rows1;
                      do gs1 <- Ok gs;
                      mapM (fun g => do o <- mapM (eval_item strict g) items; Ok (hd [] g, o)) gs1);
          Ok outs).
  destruct (eval_source strict src) as [rows|e]; cbn [bind]; [|reflexivity].
  destruct (match wh with None => Ok rows | Some c => filter_rows c rows end) as [kept|e]; cbn [bind]; [|reflexivity].
  destruct (group_rows strict keys kept) as [gs|e]; cbn [bind]; [|reflexivity].
  destruct (mapM (fun g => do o <- mapM (eval_item strict g) items; Ok (hd [] g, o)) gs) as [outs|e]; cbn [bind]; [|reflexivity].
  unfold apply_order_limit. cbn. unfold offset_rows. cbn.
  f_equal. apply distinct_step.
Qed.
