(* Proofs/Lex.v -- the scanner model (Model/Lex.v): every loop advances only by calls of next(),
   hence termination inside the fuel, progress, and positions inside the input; what
   QuoteString / QuoteIdentifier print is scanned back to the same literal. *)
From Coq Require Import Lia.
Require Import Csvq.Model.Base Csvq.Model.Escape Csvq.Model.Lex Csvq.Proofs.Escape.
Open Scope N_scope.

(* ---- one call of next() that consumes input, and sequences of them ---------------------------- *)
Definition nstep (s s' : pst) : Prop := exists c, next s = (Some c, s').

Inductive steps : pst -> pst -> Prop :=
| steps_refl : forall s, steps s s
| steps_cons : forall s s1 s2, nstep s s1 -> steps s1 s2 -> steps s s2.

Lemma steps_one : forall s s', nstep s s' -> steps s s'.
Proof. intros s s' H. eapply steps_cons; [exact H|apply steps_refl]. Qed.

Lemma steps_trans : forall a b c, steps a b -> steps b c -> steps a c.
Proof. intros a b c H. induction H as [|a a1 b Hn Hs IH]; intros Hc; [exact Hc|]. eapply steps_cons; [exact Hn|auto]. Qed.

Lemma nstep_crlf : forall r ln cl, nstep (mkP (13 :: 10 :: r) ln cl) (mkP r (ln + 1) 0).
Proof. intros. exists 10. reflexivity. Qed.
Lemma nstep_cr_nil : forall ln cl, nstep (mkP [13] ln cl) (mkP [] (ln + 1) 0).
Proof. intros. exists 13. reflexivity. Qed.
Lemma nstep_cr_other : forall d r ln cl, (d =? 10) = false -> nstep (mkP (13 :: d :: r) ln cl) (mkP (d :: r) (ln + 1) 0).
Proof. intros d r ln cl H. exists 13. unfold next. cbn [p_rest p_line p_col]. cbn [N.eqb Pos.eqb]. rewrite H. reflexivity. Qed.
Lemma nstep_lf : forall r ln cl, nstep (mkP (10 :: r) ln cl) (mkP r (ln + 1) 0).
Proof. intros. exists 10. reflexivity. Qed.
Lemma nstep_ch : forall c r ln cl, (c =? 13) = false -> (c =? 10) = false ->
  nstep (mkP (c :: r) ln cl) (mkP r ln (cl + 1)).
Proof. intros c r ln cl H1 H2. exists c. unfold next. cbn [p_rest p_line p_col]. rewrite H1, H2. reflexivity. Qed.

Lemma steps_ch2 : forall c d r ln cl,
  (c =? 13) = false -> (c =? 10) = false -> (d =? 13) = false -> (d =? 10) = false ->
  steps (mkP (c :: d :: r) ln cl) (mkP r ln (cl + 2)).
Proof.
  intros c d r ln cl H1 H2 H3 H4.
  eapply steps_cons; [apply nstep_ch; assumption|].
  replace (cl + 2) with (cl + 1 + 1) by lia.
  apply steps_one, nstep_ch; assumption.
Qed.

(* what a sequence of steps does to the remaining input *)
Lemma nstep_length : forall s s', nstep s s' -> (length (p_rest s') < length (p_rest s))%nat.
Proof.
  intros [l ln cl] s' [c H]. unfold next in H. cbn [p_rest p_line p_col] in H.
  destruct l as [|x r]; [discriminate|].
  destruct (x =? 13).
  - destruct r as [|d r'].
    + inversion H; subst; cbn; lia.
    + destruct (d =? 10); inversion H; subst; cbn; lia.
  - destruct (x =? 10); inversion H; subst; cbn; lia.
Qed.

Lemma steps_length : forall s s', steps s s' -> (length (p_rest s') <= length (p_rest s))%nat.
Proof.
  intros s s' H. induction H as [|s s1 s2 Hn _ IH]; [lia|].
  apply nstep_length in Hn. lia.
Qed.

Lemma nstep_positions : forall s s', nstep s s' ->
  positions_l (p_rest s) (p_line s) (p_col s)
  = (p_line s, p_col s) :: positions_l (p_rest s') (p_line s') (p_col s').
Proof.
  intros [l ln cl] s' [c H]. unfold next in H. cbn [p_rest p_line p_col] in *.
  destruct l as [|x r]; [discriminate|].
  cbn [positions_l].
  destruct (x =? 13).
  - destruct r as [|d r'].
    + inversion H; subst; reflexivity.
    + destruct (d =? 10); inversion H; subst; reflexivity.
  - destruct (x =? 10); inversion H; subst; reflexivity.
Qed.

Lemma positions_head : forall l ln cl, In (ln, cl) (positions_l l ln cl).
Proof. intros. destruct l; cbn [positions_l]; left; reflexivity. Qed.

(* every state reached by steps sits at one of the positions of the text it started on *)
Lemma steps_positions : forall s s', steps s s' ->
  forall p, In p (positions_l (p_rest s') (p_line s') (p_col s')) ->
            In p (positions_l (p_rest s) (p_line s) (p_col s)).
Proof.
  intros s s' H. induction H as [|s s1 s2 Hn _ IH]; intros p Hp; [exact Hp|].
  rewrite (nstep_positions _ _ Hn). right. auto.
Qed.

Lemma steps_at : forall s s', steps s s' ->
  In (p_line s', p_col s') (positions_l (p_rest s) (p_line s) (p_col s)).
Proof. intros s s' H. eapply steps_positions; [exact H|apply positions_head]. Qed.

(* numeric reading of "inside": lines are counted from the start line, and the line breaks plus
   the chars of the current line never exceed the code points consumed *)
Lemma positions_bound : forall l ln cl p, In p (positions_l l ln cl) ->
  ln <= fst p /\ (fst p - ln) + snd p <= cl + N.of_nat (length l) /\ (fst p = ln -> cl <= snd p).
Proof.
  intros l. remember (length l) as n eqn:Hn.
  assert (Hle : (length l <= n)%nat) by lia. clear Hn. revert l Hle.
  induction n as [|n IH]; intros l Hle ln cl p Hp.
  - destruct l; [|cbn in Hle; lia]. cbn in Hp. destruct Hp as [<-|[]]. cbn. lia.
  - destruct l as [|x r].
    + cbn in Hp. destruct Hp as [<-|[]]. cbn. lia.
    + cbn [positions_l] in Hp. destruct Hp as [<-|Hp]; [cbn [fst snd length]; lia|].
      cbn [length] in *.
      destruct (x =? 13).
      * destruct r as [|d r'].
        -- apply IH in Hp; [|cbn; lia]. cbn [length] in *. lia.
        -- destruct (d =? 10); apply IH in Hp; cbn [length] in *; try lia.
      * destruct (x =? 10); apply IH in Hp; cbn [length] in *; try lia.
Qed.

(* ---- the loops ----------------------------------------------------------------------------------- *)
Lemma while_next_l_steps : forall p l ln cl w s',
  while_next_l p l ln cl = (w, s') -> steps (mkP l ln cl) s'.
Proof.
  intros p l. remember (length l) as n eqn:Hn.
  assert (Hle : (length l <= n)%nat) by lia. clear Hn. revert l Hle.
  induction n as [|n IH]; intros l Hle ln cl w s' H.
  - destruct l; [|cbn in Hle; lia]. cbn in H. inversion H. apply steps_refl.
  - destruct l as [|c r]; [cbn in H; inversion H; apply steps_refl|].
    cbn [while_next_l] in H. cbn [length] in Hle.
    destruct (p c); [|inversion H; apply steps_refl].
    destruct (c =? 13) eqn:E13.
    + apply N.eqb_eq in E13. subst c.
      destruct r as [|d r'].
      * destruct (while_next_l p [] (ln + 1) 0) as [w1 s1] eqn:E. inversion H; subst.
        eapply steps_cons; [apply nstep_cr_nil|]. eapply IH; [|exact E]. cbn; lia.
      * destruct (d =? 10) eqn:E10.
        -- apply N.eqb_eq in E10. subst d.
           destruct (while_next_l p r' (ln + 1) 0) as [w1 s1] eqn:E. inversion H; subst.
           eapply steps_cons; [apply nstep_crlf|]. eapply IH; [|exact E]. cbn [length] in Hle; lia.
        -- destruct (while_next_l p (d :: r') (ln + 1) 0) as [w1 s1] eqn:E. inversion H; subst.
           eapply steps_cons; [apply nstep_cr_other; exact E10|]. eapply IH; [|exact E]. lia.
    + destruct (c =? 10) eqn:E10.
      * apply N.eqb_eq in E10. subst c.
        destruct (while_next_l p r (ln + 1) 0) as [w1 s1] eqn:E. inversion H; subst.
        eapply steps_cons; [apply nstep_lf|]. eapply IH; [|exact E]. lia.
      * destruct (while_next_l p r ln (cl + 1)) as [w1 s1] eqn:E. inversion H; subst.
        eapply steps_cons; [apply nstep_ch; assumption|]. eapply IH; [|exact E]. lia.
Qed.

Lemma while_next_steps : forall p s w s', while_next p s = (w, s') -> steps s s'.
Proof. intros p [l ln cl] w s' H. unfold while_next in H. cbn in H. eapply while_next_l_steps; exact H. Qed.

Lemma while_next_steps' : forall p s, steps s (snd (while_next p s)).
Proof. intros p s. destruct (while_next p s) as [w s'] eqn:E. eapply while_next_steps; exact E. Qed.

(* what the loop leaves does not start with a rune it accepts *)
Lemma while_next_l_stop : forall p l ln cl w s',
  while_next_l p l ln cl = (w, s') -> opt_is p (hd_error (p_rest s')) = false.
Proof.
  intros p l. remember (length l) as n eqn:Hn.
  assert (Hle : (length l <= n)%nat) by lia. clear Hn. revert l Hle.
  induction n as [|n IH]; intros l Hle ln cl w s' H.
  - destruct l; [|cbn in Hle; lia]. cbn in H. inversion H. reflexivity.
  - destruct l as [|c r]; [cbn in H; inversion H; reflexivity|].
    cbn [while_next_l] in H. cbn [length] in Hle.
    destruct (p c) eqn:Epc; [|inversion H; cbn; exact Epc].
    destruct (c =? 13).
    + destruct r as [|d r'].
      * destruct (while_next_l p [] (ln + 1) 0) as [w1 s1] eqn:E. inversion H; subst. eapply IH; [|exact E]. cbn; lia.
      * destruct (d =? 10).
        -- destruct (while_next_l p r' (ln + 1) 0) as [w1 s1] eqn:E. inversion H; subst. eapply IH; [|exact E]. cbn [length] in Hle; lia.
        -- destruct (while_next_l p (d :: r') (ln + 1) 0) as [w1 s1] eqn:E. inversion H; subst. eapply IH; [|exact E]. lia.
    + destruct (c =? 10).
      * destruct (while_next_l p r (ln + 1) 0) as [w1 s1] eqn:E. inversion H; subst. eapply IH; [|exact E]. lia.
      * destruct (while_next_l p r ln (cl + 1)) as [w1 s1] eqn:E. inversion H; subst. eapply IH; [|exact E]. lia.
Qed.

Lemma next_steps : forall s, steps s (snd (next s)).
Proof.
  intros s. destruct (next s) as [[c|] s'] eqn:E; cbn [snd].
  - apply steps_one. exists c. exact E.
  - unfold next in E. destruct (p_rest s) as [|x r]; [inversion E; apply steps_refl|].
    destruct (x =? 13); [destruct r as [|d r']; [|destruct (d =? 10)]|destruct (x =? 10)]; discriminate.
Qed.

Lemma next_some_nstep : forall s c s', next s = (Some c, s') -> nstep s s'.
Proof. intros s c s' H. exists c. exact H. Qed.

Lemma next_none : forall s s', next s = (None, s') -> s' = s /\ p_rest s = [].
Proof.
  intros s s' H. unfold next in H. destruct (p_rest s) as [|x r] eqn:E; [inversion H; auto|].
  destruct (x =? 13); [destruct r as [|d r']; [|destruct (d =? 10)]|destruct (x =? 10)]; discriminate.
Qed.

(* quotation marks are never line breaks *)
Definition not_eol_rune (q : N) : Prop := (q =? 13) = false /\ (q =? 10) = false.

Lemma scan_string_l_steps : forall q, not_eol_rune q -> forall l ln cl w t s',
  scan_string_l q l ln cl = (w, t, s') -> steps (mkP l ln cl) s'.
Proof.
  intros q [Hq13 Hq10] l. remember (length l) as n eqn:Hn.
  assert (Hle : (length l <= n)%nat) by lia. clear Hn. revert l Hle.
  induction n as [|n IH]; intros l Hle ln cl w t s' H.
  - destruct l; [|cbn in Hle; lia]. cbn in H. inversion H. apply steps_refl.
  - destruct l as [|c r]; [cbn in H; inversion H; apply steps_refl|].
    cbn [scan_string_l] in H. cbn [length] in Hle.
    destruct (c =? 13) eqn:E13.
    { apply N.eqb_eq in E13. subst c. destruct r as [|d r'].
      - destruct (scan_string_l q [] (ln + 1) 0) as [[w1 t1] s1] eqn:E. inversion H; subst.
        eapply steps_cons; [apply nstep_cr_nil|]. eapply IH; [|exact E]. cbn; lia.
      - destruct (d =? 10) eqn:E10.
        + apply N.eqb_eq in E10. subst d.
          destruct (scan_string_l q r' (ln + 1) 0) as [[w1 t1] s1] eqn:E. inversion H; subst.
          eapply steps_cons; [apply nstep_crlf|]. eapply IH; [|exact E]. cbn [length] in Hle; lia.
        + destruct (scan_string_l q (d :: r') (ln + 1) 0) as [[w1 t1] s1] eqn:E. inversion H; subst.
          eapply steps_cons; [apply nstep_cr_other; exact E10|]. eapply IH; [|exact E]. lia. }
    destruct (c =? 10) eqn:E10.
    { apply N.eqb_eq in E10. subst c.
      destruct (scan_string_l q r (ln + 1) 0) as [[w1 t1] s1] eqn:E. inversion H; subst.
      eapply steps_cons; [apply nstep_lf|]. eapply IH; [|exact E]. lia. }
    destruct (c =? q) eqn:Eq.
    { destruct r as [|d r'].
      - inversion H; subst. apply steps_one, nstep_ch; assumption.
      - destruct (d =? q) eqn:Edq.
        + apply N.eqb_eq in Edq. subst d.
          destruct (scan_string_l q r' ln (cl + 2)) as [[w1 t1] s1] eqn:E. inversion H; subst.
          eapply steps_trans; [apply steps_ch2; assumption|]. eapply IH; [|exact E]. cbn [length] in Hle; lia.
        + inversion H; subst. apply steps_one, nstep_ch; assumption. }
    destruct (c =? 92) eqn:E92.
    { destruct r as [|d r'].
      - destruct (scan_string_l q [] ln (cl + 1)) as [[w1 t1] s1] eqn:E. inversion H; subst.
        eapply steps_cons; [apply nstep_ch; assumption|]. eapply IH; [|exact E]. cbn; lia.
      - destruct ((d =? 92) || (d =? q))%bool eqn:Ed.
        + destruct (scan_string_l q r' ln (cl + 2)) as [[w1 t1] s1] eqn:E. inversion H; subst.
          assert (Hd : (d =? 13) = false /\ (d =? 10) = false).
          { apply Bool.orb_true_iff in Ed. destruct Ed as [Ed|Ed]; apply N.eqb_eq in Ed; subst d; auto. }
          destruct Hd as [Hd13 Hd10].
          eapply steps_trans; [apply steps_ch2; assumption|]. eapply IH; [|exact E]. cbn [length] in Hle; lia.
        + destruct (scan_string_l q (d :: r') ln (cl + 1)) as [[w1 t1] s1] eqn:E. inversion H; subst.
          eapply steps_cons; [apply nstep_ch; assumption|]. eapply IH; [|exact E]. lia. }
    destruct (scan_string_l q r ln (cl + 1)) as [[w1 t1] s1] eqn:E. inversion H; subst.
    eapply steps_cons; [apply nstep_ch; assumption|]. eapply IH; [|exact E]. lia.
Qed.

Lemma scan_string_steps : forall q, not_eol_rune q -> forall s w t s',
  scan_string q s = (w, t, s') -> steps s s'.
Proof. intros q Hq [l ln cl] w t s' H. unfold scan_string in H. cbn in H. eapply scan_string_l_steps; eauto. Qed.

Lemma scan_comment_l_steps : forall l ln cl, steps (mkP l ln cl) (scan_comment_l l ln cl).
Proof.
  intros l. remember (length l) as n eqn:Hn.
  assert (Hle : (length l <= n)%nat) by lia. clear Hn. revert l Hle.
  induction n as [|n IH]; intros l Hle ln cl.
  - destruct l; [|cbn in Hle; lia]. cbn. apply steps_refl.
  - destruct l as [|c r]; [cbn; apply steps_refl|].
    cbn [scan_comment_l]. cbn [length] in Hle.
    destruct (c =? 13) eqn:E13.
    { apply N.eqb_eq in E13. subst c. destruct r as [|d r'].
      - eapply steps_cons; [apply nstep_cr_nil|]. apply IH. cbn; lia.
      - destruct (d =? 10) eqn:E10.
        + apply N.eqb_eq in E10. subst d. eapply steps_cons; [apply nstep_crlf|]. apply IH. cbn [length] in Hle; lia.
        + eapply steps_cons; [apply nstep_cr_other; exact E10|]. apply IH. lia. }
    destruct (c =? 10) eqn:E10.
    { apply N.eqb_eq in E10. subst c. eapply steps_cons; [apply nstep_lf|]. apply IH. lia. }
    destruct (c =? 42) eqn:E42.
    { destruct r as [|d r'].
      - eapply steps_cons; [apply nstep_ch; assumption|]. apply IH. cbn; lia.
      - destruct (d =? 47) eqn:E47.
        + apply N.eqb_eq in E47. subst d. apply steps_ch2; auto.
        + eapply steps_cons; [apply nstep_ch; assumption|]. apply IH. lia. }
    eapply steps_cons; [apply nstep_ch; assumption|]. apply IH. lia.
Qed.

Lemma scan_comment_steps : forall s, steps s (scan_comment s).
Proof. intros [l ln cl]. unfold scan_comment. cbn. apply scan_comment_l_steps. Qed.

Lemma scan_line_comment_steps : forall s, steps s (scan_line_comment s).
Proof. intros s. unfold scan_line_comment. apply while_next_steps'. Qed.

Definition emode_ok (m : emode) : Prop :=
  match m with EQuoted q => not_eol_rune q | _ => True end.

Lemma is_quote_not_eol : forall c, is_quote c = true -> not_eol_rune c.
Proof.
  intros c H. unfold is_quote in H.
  destruct (c =? 34) eqn:E1; [apply N.eqb_eq in E1; subst c; split; reflexivity|].
  destruct (c =? 39) eqn:E2; [apply N.eqb_eq in E2; subst c; split; reflexivity|].
  destruct (c =? 96) eqn:E3; [apply N.eqb_eq in E3; subst c; split; reflexivity|]. discriminate.
Qed.

Lemma scan_ext_l_steps : forall l m ln cl w s', emode_ok m ->
  scan_ext_l m l ln cl = (w, s') -> steps (mkP l ln cl) s'.
Proof.
  intros l. remember (length l) as n eqn:Hn.
  assert (Hle : (length l <= n)%nat) by lia. clear Hn. revert l Hle.
  induction n as [|n IH]; intros l Hle m ln cl w s' Hm H.
  - destruct l; [|cbn in Hle; lia]. cbn in H. inversion H. apply steps_refl.
  - destruct l as [|c r]; [cbn in H; inversion H; apply steps_refl|].
    cbn [scan_ext_l] in H. cbn [length] in Hle.
    destruct (match m with ETop => c =? 59 | _ => false end); [inversion H; apply steps_refl|].
    destruct (c =? 13) eqn:E13.
    { apply N.eqb_eq in E13. subst c. destruct r as [|d r'].
      - destruct (scan_ext_l m [] (ln + 1) 0) as [w1 s1] eqn:E. inversion H; subst.
        eapply steps_cons; [apply nstep_cr_nil|]. eapply IH; [| |exact E]; [cbn; lia|assumption].
      - destruct (d =? 10) eqn:E10.
        + apply N.eqb_eq in E10. subst d.
          destruct (scan_ext_l m r' (ln + 1) 0) as [w1 s1] eqn:E. inversion H; subst.
          eapply steps_cons; [apply nstep_crlf|]. eapply IH; [| |exact E]; [cbn [length] in Hle; lia|assumption].
        + destruct (scan_ext_l m (d :: r') (ln + 1) 0) as [w1 s1] eqn:E. inversion H; subst.
          eapply steps_cons; [apply nstep_cr_other; exact E10|]. eapply IH; [| |exact E]; [lia|assumption]. }
    destruct (c =? 10) eqn:E10.
    { apply N.eqb_eq in E10. subst c.
      destruct (scan_ext_l m r (ln + 1) 0) as [w1 s1] eqn:E. inversion H; subst.
      eapply steps_cons; [apply nstep_lf|]. eapply IH; [| |exact E]; [lia|assumption]. }
    assert (Hone : forall m' w1 s1, emode_ok m' -> scan_ext_l m' r ln (cl + 1) = (w1, s1) -> steps (mkP (c :: r) ln cl) s1).
    { intros m' w1 s1 Hm' E. eapply steps_cons; [apply nstep_ch; assumption|]. eapply IH; [| |exact E]; [lia|assumption]. }
    destruct m as [|q|].
    + destruct (is_quote c) eqn:Eqc.
      { destruct (scan_ext_l (EQuoted c) r ln (cl + 1)) as [w1 s1] eqn:E. inversion H; subst.
        eapply Hone; [|exact E]. apply is_quote_not_eol; assumption. }
      destruct (c =? 36) eqn:E36.
      { destruct r as [|d r'].
        - destruct (scan_ext_l ETop [] ln (cl + 1)) as [w1 s1] eqn:E. inversion H; subst. eapply Hone; [|exact E]. exact I.
        - destruct (d =? 123) eqn:E123.
          + apply N.eqb_eq in E123. subst d.
            destruct (scan_ext_l EExpr r' ln (cl + 2)) as [w1 s1] eqn:E. inversion H; subst.
            eapply steps_trans; [apply steps_ch2; auto|]. eapply IH; [| |exact E]; [cbn [length] in Hle; lia|exact I].
          + destruct (scan_ext_l ETop (d :: r') ln (cl + 1)) as [w1 s1] eqn:E. inversion H; subst. eapply Hone; [|exact E]. exact I. }
      destruct (scan_ext_l ETop r ln (cl + 1)) as [w1 s1] eqn:E. inversion H; subst. eapply Hone; [|exact E]. exact I.
    + destruct (c =? q) eqn:Ecq.
      { destruct (scan_ext_l ETop r ln (cl + 1)) as [w1 s1] eqn:E. inversion H; subst. eapply Hone; [|exact E]. exact I. }
      destruct (c =? 92) eqn:E92.
      { destruct r as [|d r'].
        - destruct (scan_ext_l (EQuoted q) [] ln (cl + 1)) as [w1 s1] eqn:E. inversion H; subst. eapply Hone; [|exact E]. exact Hm.
        - destruct ((d =? 92) || (d =? q))%bool eqn:Ed.
          + destruct (scan_ext_l (EQuoted q) r' ln (cl + 2)) as [w1 s1] eqn:E. inversion H; subst.
            assert (Hd : (d =? 13) = false /\ (d =? 10) = false).
            { apply Bool.orb_true_iff in Ed. destruct Ed as [Ed|Ed]; apply N.eqb_eq in Ed; subst d; [auto|exact Hm]. }
            destruct Hd as [Hd13 Hd10].
            eapply steps_trans; [apply steps_ch2; assumption|]. eapply IH; [| |exact E]; [cbn [length] in Hle; lia|exact Hm].
          + destruct (scan_ext_l (EQuoted q) (d :: r') ln (cl + 1)) as [w1 s1] eqn:E. inversion H; subst. eapply Hone; [|exact E]. exact Hm. }
      destruct (scan_ext_l (EQuoted q) r ln (cl + 1)) as [w1 s1] eqn:E. inversion H; subst. eapply Hone; [|exact E]. exact Hm.
    + destruct (c =? 125) eqn:E125.
      { destruct (scan_ext_l ETop r ln (cl + 1)) as [w1 s1] eqn:E. inversion H; subst. eapply Hone; [|exact E]. exact I. }
      destruct (c =? 92) eqn:E92.
      { destruct r as [|d r'].
        - destruct (scan_ext_l EExpr [] ln (cl + 1)) as [w1 s1] eqn:E. inversion H; subst. eapply Hone; [|exact E]. exact I.
        - destruct ((d =? 92) || (d =? 123) || (d =? 125))%bool eqn:Ed.
          + destruct (scan_ext_l EExpr r' ln (cl + 2)) as [w1 s1] eqn:E. inversion H; subst.
            assert (Hd : (d =? 13) = false /\ (d =? 10) = false).
            { apply Bool.orb_true_iff in Ed. destruct Ed as [Ed|Ed]; [apply Bool.orb_true_iff in Ed; destruct Ed as [Ed|Ed]|];
                apply N.eqb_eq in Ed; subst d; auto. }
            destruct Hd as [Hd13 Hd10].
            eapply steps_trans; [apply steps_ch2; assumption|]. eapply IH; [| |exact E]; [cbn [length] in Hle; lia|exact I].
          + destruct (scan_ext_l EExpr (d :: r') ln (cl + 1)) as [w1 s1] eqn:E. inversion H; subst. eapply Hone; [|exact E]. exact I. }
      destruct (scan_ext_l EExpr r ln (cl + 1)) as [w1 s1] eqn:E. inversion H; subst. eapply Hone; [|exact E]. exact I.
Qed.

Lemma scan_ext_steps : forall s w s', scan_ext s = (w, s') -> steps s s'.
Proof. intros [l ln cl] w s' H. unfold scan_ext in H. cbn in H. eapply scan_ext_l_steps; [|exact H]. exact I. Qed.

(* ---- the token classes ---------------------------------------------------------------------------- *)
Lemma steps_next_r : forall a s, steps a s -> steps a (snd (next s)).
Proof. intros a s H. eapply steps_trans; [exact H|apply next_steps]. Qed.

Lemma steps_while_r : forall a p s w s', steps a s -> while_next p s = (w, s') -> steps a s'.
Proof. intros a p s w s' H E. eapply steps_trans; [exact H|eapply while_next_steps; exact E]. Qed.

Lemma scan_frac_steps : forall a s1 hf fd s2, steps a s1 -> scan_frac s1 = (hf, fd, s2) -> steps a s2.
Proof.
  intros a s1 hf fd s2 S H. unfold scan_frac in H.
  destruct (opt_eq (peek s1) 46).
  - destruct (while_next is_decimal (snd (next s1))) as [d2 s'] eqn:E. inversion H; subst.
    eapply steps_while_r; [apply steps_next_r; exact S|exact E].
  - inversion H; subst. exact S.
Qed.

Lemma scan_sign_steps : forall a sa sg sb, steps a sa -> scan_sign sa = (sg, sb) -> steps a sb.
Proof.
  intros a sa sg sb S H. unfold scan_sign in H.
  destruct (peek sa) as [g|]; [|inversion H; subst; exact S].
  destruct ((g =? 43) || (g =? 45))%bool; inversion H; subst; [apply steps_next_r|]; exact S.
Qed.

Lemma scan_exp_steps : forall a s2 ex l s3, steps a s2 -> scan_exp s2 = (ex, l, s3) -> steps a s3.
Proof.
  intros a s2 ex l s3 S H. unfold scan_exp in H.
  destruct (peek s2) as [e|]; [|inversion H; subst; exact S].
  destruct ((e =? 101) || (e =? 69))%bool; [|inversion H; subst; exact S].
  destruct (scan_sign (snd (next s2))) as [sg sb] eqn:E1.
  destruct (while_next is_decimal sb) as [d3 sc] eqn:E2. inversion H; subst.
  eapply steps_while_r; [eapply scan_sign_steps; [apply steps_next_r; exact S|exact E1]|exact E2].
Qed.

Lemma scan_number_steps : forall c head s k lit e s',
  scan_number c head s = (k, lit, e, s') -> steps s s'.
Proof.
  intros c head s k lit e s' H. unfold scan_number in H.
  destruct (while_next is_decimal s) as [d1 s1] eqn:E1.
  destruct (scan_frac s1) as [[hf fd] s2] eqn:E2.
  destruct (scan_exp s2) as [[ex el] s3] eqn:E3.
  assert (S3 : steps s s3).
  { eapply scan_exp_steps; [|exact E3]. eapply scan_frac_steps; [|exact E2]. eapply while_next_steps; exact E1. }
  destruct (negb hf && match ex with None => true | Some _ => false end && parse_int_ok (head :: d1))%bool;
    [inversion H; subst; exact S3|].
  destruct (parse_float_ok (head :: d1) fd ex); inversion H; subst; exact S3.
Qed.

Lemma scan_word_steps : forall c ch word s k lit e s',
  scan_word c ch word s = (k, lit, e, s') -> steps s s'.
Proof.
  intros c ch word s k lit e s' H. unfold scan_word in H.
  destruct (classify_word c word); [inversion H; subst; apply steps_refl|].
  destruct (is_letter (c_letters c) ch && opt_eq (peek s) 58)%bool; [|inversion H; subst; apply steps_refl].
  destruct (opt_eq (peek_ahead 2 s) 58).
  - destruct (opt_eq (peek_next_letter3 s) 40).
    + inversion H; subst. apply steps_next_r, steps_next_r, steps_refl.
    + destruct (opt_is (is_ident_rune c) (peek (snd (next (snd (next s)))))).
      * destruct (while_next (is_ident_rune c) (snd (next (snd (next s))))) as [w s3] eqn:E. inversion H; subst.
        eapply steps_while_r; [|exact E]. apply steps_next_r, steps_next_r, steps_refl.
      * inversion H; subst. apply steps_next_r, steps_next_r, steps_refl.
  - destruct (while_next is_url_rune (snd (next s))) as [w s2] eqn:E. inversion H; subst.
    eapply steps_while_r; [|exact E]. apply steps_next_r, steps_refl.
Qed.

Lemma scan_variable_steps : forall c s k lit q e s',
  scan_variable c s = (k, lit, q, e, s') -> steps s s'.
Proof.
  intros c s k lit q e s' H. unfold scan_variable in H.
  assert (S1 : exists k1 s1, match peek s with
             | Some d => if d =? 37 then (k_envvar (c_tok c), snd (next s))
                         else if d =? 35 then (k_runtime (c_tok c), snd (next s))
                         else if d =? 64 then (k_flag (c_tok c), snd (next s))
                         else (k_variable (c_tok c), s)
             | None => (k_variable (c_tok c), s)
             end = (k1, s1) /\ steps s s1).
  { destruct (peek s) as [d|]; [|do 2 eexists; split; [reflexivity|apply steps_refl]].
    destruct (d =? 37); [do 2 eexists; split; [reflexivity|apply next_steps]|].
    destruct (d =? 35); [do 2 eexists; split; [reflexivity|apply next_steps]|].
    destruct (d =? 64); do 2 eexists; (split; [reflexivity|]); [apply next_steps|apply steps_refl]. }
  destruct S1 as (k1 & s1 & E1 & S1). rewrite E1 in H.
  destruct ((k1 =? k_envvar (c_tok c))%Z && opt_eq (peek s1) 96)%bool.
  - destruct (scan_string 96 (snd (next s1))) as [[raw term] s2] eqn:E2. inversion H; subst.
    eapply steps_trans; [apply steps_next_r; exact S1|].
    eapply scan_string_steps; [|exact E2]. split; reflexivity.
  - destruct (opt_is (is_ident_rune c) (peek s1)).
    + destruct (next s1) as [[h|] s2] eqn:E2.
      * destruct (while_next (is_ident_rune c) s2) as [w s3] eqn:E3. inversion H; subst.
        eapply steps_while_r; [|exact E3]. eapply steps_trans; [exact S1|]. apply steps_one. exists h. exact E2.
      * inversion H; subst. apply next_none in E2. destruct E2 as [-> _]. exact S1.
    + inversion H; subst. exact S1.
Qed.

(* ---- Scan ------------------------------------------------------------------------------------------ *)
Lemma peek_some_nstep : forall s x, peek s = Some x -> nstep s (snd (next s)).
Proof.
  intros s x H. destruct (next s) as [[c|] s'] eqn:E; cbn [snd].
  - exists c. exact E.
  - apply next_none in E. destruct E as [_ E]. unfold peek in H. rewrite E in H. discriminate.
Qed.

Lemma opt_eq_peek_nstep : forall s x, opt_eq (peek s) x = true -> nstep s (snd (next s)).
Proof.
  intros s x H. destruct (peek s) as [y|] eqn:E; [|discriminate]. eapply peek_some_nstep; exact E.
Qed.

(* one pass through the body of Scan: the token is reported at a state [s2] reached by steps, the
   scanner goes on by steps, and either the input is exhausted (EOF token) or something was consumed;
   a comment consumes at least its two opening runes *)
Definition body_ok (s0 : pst) (r : body_result) : Prop :=
  match r with
  | BTok t h' s' =>
      exists s2, steps s0 s2 /\ steps s2 s' /\ t_line t = p_line s2 /\ t_char t = p_col s2 /\
        ((t_kind t = k_eof /\ p_rest s' = []) \/ (length (p_rest s') < length (p_rest s0))%nat)
  | BSkip s' => steps s0 s' /\ (length (p_rest s') + 2 <= length (p_rest s0))%nat
  end.

Lemma quote_rune_not_eol : forall ch b1 b2,
  ((ch =? 39) || (b1 && (ch =? 34)) || (ch =? 96) || (b2 && (ch =? 34)))%bool = true -> not_eol_rune ch.
Proof.
  intros ch b1 b2 H.
  destruct (ch =? 39) eqn:E1; [apply N.eqb_eq in E1; subst ch; split; reflexivity|].
  destruct (ch =? 34) eqn:E2; [apply N.eqb_eq in E2; subst ch; split; reflexivity|].
  destruct (ch =? 96) eqn:E3; [apply N.eqb_eq in E3; subst ch; split; reflexivity|].
  destruct b1, b2; discriminate.
Qed.

Lemma scan_body_ok : forall c m h s0, body_ok s0 (scan_body c m h s0).
Proof.
  intros c m h s0. unfold scan_body.
  pose proof (while_next_steps' is_space s0) as S01.
  set (s1 := snd (while_next is_space s0)) in *.
  destruct (next s1) as [[ch|] s2] eqn:En.
  2:{ apply next_none in En. destruct En as [-> Hr]. cbn [body_ok t_line t_char t_kind].
      exists s1. repeat split; [exact S01|apply steps_refl|]. left. split; [reflexivity|exact Hr]. }
  assert (N12 : nstep s1 s2) by (exists ch; exact En).
  assert (S02 : steps s0 s2) by (eapply steps_trans; [exact S01|apply steps_one; exact N12]).
  assert (L2 : (length (p_rest s2) < length (p_rest s0))%nat).
  { apply nstep_length in N12. apply steps_length in S01. lia. }
  assert (FIN : forall t h' s', steps s2 s' -> t_line t = p_line s2 -> t_char t = p_col s2 -> body_ok s0 (BTok t h' s')).
  { intros t h' s' S Hl Hc. cbn [body_ok]. exists s2. repeat split; try assumption.
    right. apply steps_length in S. lia. }
  destruct (m_prepared m && (ch =? 63))%bool; [apply FIN; [apply steps_refl|reflexivity|reflexivity]|].
  destruct (m_prepared m && (ch =? 58) && opt_is (is_ident_rune c) (peek s2))%bool.
  { destruct (while_next (is_ident_rune c) s2) as [w s3] eqn:E.
    apply FIN; [eapply while_next_steps; exact E|reflexivity|reflexivity]. }
  destruct (is_decimal ch).
  { destruct (scan_number c ch s2) as [[[k lit] e] s3] eqn:E.
    apply FIN; [eapply scan_number_steps; exact E|reflexivity|reflexivity]. }
  destruct (is_ident_rune c ch).
  { destruct (while_next (is_ident_rune c) s2) as [w s3] eqn:E1.
    destruct (scan_word c ch (ch :: w) s3) as [[[k lit] e] s4] eqn:E2.
    apply FIN; [|reflexivity|reflexivity].
    eapply steps_trans; [eapply while_next_steps; exact E1|eapply scan_word_steps; exact E2]. }
  destruct (is_operator_rune ch).
  { destruct (while_next is_operator_rune s2) as [w s3] eqn:E.
    apply FIN; [eapply while_next_steps; exact E|reflexivity|reflexivity]. }
  destruct (ch =? 64).
  { destruct (scan_variable c s2) as [[[[k lit] q] e] s3] eqn:E.
    apply FIN; [eapply scan_variable_steps; exact E|reflexivity|reflexivity]. }
  destruct (ch =? 36).
  { destruct (scan_ext s2) as [w s3] eqn:E.
    apply FIN; [eapply scan_ext_steps; exact E|reflexivity|reflexivity]. }
  destruct ((ch =? 47) && opt_eq (peek s2) 42)%bool eqn:Ec.
  { apply Bool.andb_true_iff in Ec. destruct Ec as [_ Ec]. apply opt_eq_peek_nstep in Ec.
    cbn [body_ok]. pose proof (scan_comment_steps (snd (next s2))) as S3.
    split.
    - eapply steps_trans; [exact S02|]. eapply steps_cons; [exact Ec|exact S3].
    - apply nstep_length in Ec. apply steps_length in S3. lia. }
  destruct ((ch =? 45) && opt_eq (peek s2) 45)%bool eqn:El.
  { apply Bool.andb_true_iff in El. destruct El as [_ El]. apply opt_eq_peek_nstep in El.
    cbn [body_ok]. pose proof (scan_line_comment_steps (snd (next s2))) as S3.
    split.
    - eapply steps_trans; [exact S02|]. eapply steps_cons; [exact El|exact S3].
    - apply nstep_length in El. apply steps_length in S3. lia. }
  destruct ((ch =? 39) || (negb (m_ansi m) && (ch =? 34)))%bool eqn:Es.
  { destruct (scan_string ch s2) as [[raw term] s3] eqn:E.
    apply FIN; [|reflexivity|reflexivity]. eapply scan_string_steps; [|exact E].
    apply (quote_rune_not_eol ch (negb (m_ansi m)) false). rewrite Es. reflexivity. }
  destruct ((ch =? 96) || (m_ansi m && (ch =? 34)))%bool eqn:Ei.
  { destruct (scan_string ch s2) as [[raw term] s3] eqn:E.
    apply FIN; [|reflexivity|reflexivity]. eapply scan_string_steps; [|exact E].
    apply (quote_rune_not_eol ch false (m_ansi m)).
    apply Bool.orb_true_iff in Ei. destruct Ei as [Ei|Ei]; rewrite Ei;
      repeat rewrite Bool.orb_true_r; reflexivity. }
  destruct (is_token_number c ch); apply FIN; [apply steps_refl|reflexivity|reflexivity|apply steps_refl|reflexivity|reflexivity].
Qed.

Lemma body_ok_after_skip : forall s s' t h' s'',
  steps s s' -> body_ok s' (BTok t h' s'') -> body_ok s (BTok t h' s'').
Proof.
  intros s s' t h' s'' S (s2 & S2 & S3 & Hl & Hc & Hd). cbn [body_ok].
  exists s2. repeat split; try assumption.
  - eapply steps_trans; eassumption.
  - destruct Hd as [Hd|Hd]; [left; exact Hd|right]. apply steps_length in S. lia.
Qed.

(* whatever Scan returns satisfies the invariant of its body *)
Lemma scan_some_ok : forall fuel c m h s t h' s',
  scan fuel c m h s = Some (t, h', s') -> body_ok s (BTok t h' s').
Proof.
  induction fuel as [|f IH]; intros c m h s t h' s' H; [discriminate|].
  cbn [scan] in H. pose proof (scan_body_ok c m h s) as B.
  destruct (scan_body c m h s) as [t0 h0 s0|s0].
  - inversion H; subst. exact B.
  - destruct B as [S _]. eapply body_ok_after_skip; [exact S|]. eapply IH; exact H.
Qed.

(* Scan never runs out of a fuel above the length of the remaining input *)
Lemma scan_enough_fuel : forall fuel c m h s, (length (p_rest s) < fuel)%nat ->
  scan fuel c m h s <> None.
Proof.
  induction fuel as [|f IH]; intros c m h s L; [lia|].
  cbn [scan]. pose proof (scan_body_ok c m h s) as B.
  destruct (scan_body c m h s) as [t0 h0 s0|s0]; [discriminate|].
  destruct B as [_ B]. apply IH. lia.
Qed.

Lemma scan_all_enough_fuel : forall fuel c m h s, (length (p_rest s) < fuel)%nat ->
  scan_all fuel c m h s <> None.
Proof.
  induction fuel as [|f IH]; intros c m h s L; [lia|].
  cbn [scan_all].
  destruct (scan (S (length (p_rest s))) c m h s) as [[[t h'] s']|] eqn:E.
  2:{ exfalso. revert E. apply scan_enough_fuel. lia. }
  destruct (t_kind t =? k_eof)%Z eqn:Ek; [discriminate|].
  apply scan_some_ok in E. destruct E as (s2 & _ & _ & _ & _ & [[Hk _]|Hlt]).
  - rewrite Hk in Ek. discriminate.
  - specialize (IH c m h' s'). destruct (scan_all f c m h' s') as [[ts h'']|]; [discriminate|].
    exfalso. apply IH; [lia|reflexivity].
Qed.

(* every token of the stream is reported at a state reached by steps from the start, and there are at
   most as many tokens as remaining code points, plus the EOF token *)
Lemma scan_all_tokens : forall fuel c m h s ts h' s_init,
  scan_all fuel c m h s = Some (ts, h') -> steps s_init s ->
  Forall (fun t => exists s2, steps s_init s2 /\ t_line t = p_line s2 /\ t_char t = p_col s2) ts
  /\ (length ts <= S (length (p_rest s)))%nat.
Proof.
  induction fuel as [|f IH]; intros c m h s ts h' s_init H S0; [discriminate|].
  cbn [scan_all] in H.
  destruct (scan (S (length (p_rest s))) c m h s) as [[[t h1] s1]|] eqn:E; [|discriminate].
  apply scan_some_ok in E. destruct E as (s2 & S2 & S3 & Hl & Hc & Hd).
  assert (Ht : exists s2', steps s_init s2' /\ t_line t = p_line s2' /\ t_char t = p_col s2').
  { exists s2. repeat split; try assumption. eapply steps_trans; eassumption. }
  destruct (t_kind t =? k_eof)%Z eqn:Ek.
  - inversion H; subst. split; [constructor; [exact Ht|constructor]|cbn; lia].
  - destruct (scan_all f c m h1 s1) as [[ts1 h2]|] eqn:E1; [|discriminate]. inversion H; subst.
    destruct Hd as [[Hk _]|Hlt]; [rewrite Hk in Ek; discriminate|].
    destruct (IH _ _ _ _ _ _ s_init E1) as [F L].
    { eapply steps_trans; [exact S0|]. eapply steps_trans; eassumption. }
    split; [constructor; assumption|cbn [length]; lia].
Qed.

(* ---- the statements about `tokens` ------------------------------------------------------------------ *)
Definition positions (src : str) : list (N * N) := positions_l src 1 0.

Lemma tokens_total : forall c m src, tokens c m src <> None.
Proof.
  intros c m src. unfold tokens.
  pose proof (scan_all_enough_fuel (S (length src)) c m init_hst (init_pst src)) as H.
  destruct (scan_all (S (length src)) c m init_hst (init_pst src)) as [[ts h]|]; [discriminate|].
  exfalso. apply H; [cbn; lia|reflexivity].
Qed.

Lemma tokens_progress : forall c m src ts n, tokens c m src = Some (ts, n) ->
  (length ts <= S (length src))%nat.
Proof.
  intros c m src ts n H. unfold tokens in H.
  destruct (scan_all (S (length src)) c m init_hst (init_pst src)) as [[ts' h]|] eqn:E; [|discriminate].
  inversion H; subst. eapply (scan_all_tokens _ _ _ _ _ _ _ (init_pst src)) in E; [|apply steps_refl].
  destruct E as [_ L]. exact L.
Qed.

Lemma tokens_positions : forall c m src ts n, tokens c m src = Some (ts, n) ->
  Forall (fun t => In (t_line t, t_char t) (positions src)) ts.
Proof.
  intros c m src ts n H. unfold tokens in H.
  destruct (scan_all (S (length src)) c m init_hst (init_pst src)) as [[ts' h]|] eqn:E; [|discriminate].
  inversion H; subst. eapply (scan_all_tokens _ _ _ _ _ _ _ (init_pst src)) in E; [|apply steps_refl].
  destruct E as [F _]. eapply Forall_impl; [|exact F].
  intros t (s2 & S & Hl & Hc). rewrite Hl, Hc. apply (steps_at _ _ S).
Qed.

Lemma positions_numeric : forall src p, In p (positions src) ->
  1 <= fst p /\ (fst p - 1) + snd p <= N.of_nat (length src).
Proof.
  intros src p H. apply positions_bound in H. destruct H as (H1 & H2 & _). split; [exact H1|lia].
Qed.

(* a single Scan: every token but the EOF token consumes at least one code point *)
Lemma scan_progress_one : forall fuel c m h s t h' s',
  scan fuel c m h s = Some (t, h', s') ->
  (t_kind t = k_eof /\ p_rest s' = []) \/ (length (p_rest s') < length (p_rest s))%nat.
Proof.
  intros fuel c m h s t h' s' H. apply scan_some_ok in H.
  destruct H as (s2 & _ & _ & _ & _ & Hd). exact Hd.
Qed.

(* ---- what QuoteString / QuoteIdentifier print is scanned back -------------------------------------- *)
Section Quoted.
  Variable q : N.
  Hypothesis Hq : q = c_squote \/ q = c_btick.

  Lemma scan_string_l_escape_rune : forall c l ln cl,
    scan_string_l q (escape_rune q c ++ l) ln cl
    = let '(w, t, s) := scan_string_l q l ln (cl + N.of_nat (length (escape_rune q c))) in
      (escape_rune q c ++ w, t, s).
  Proof.
    intros c l ln cl. unfold escape_rune.
    assert (E2 : forall x, x <> 92 -> x <> q -> x <> 13 -> x <> 10 ->
              scan_string_l q (92 :: x :: l) ln cl
              = let '(w, t, s) := scan_string_l q l ln (cl + 2) in (92 :: x :: w, t, s)).
    { intros x H92 Hxq H13 H10. cbn [scan_string_l].
      replace (92 =? 13) with false by reflexivity. replace (92 =? 10) with false by reflexivity.
      replace (92 =? q) with false by (destruct Hq; subst q; reflexivity).
      replace (92 =? 92) with true by reflexivity.
      apply N.eqb_neq in H92, Hxq, H13, H10. rewrite H92, Hxq, H13, H10. cbn [orb].
      replace (cl + 1 + 1) with (cl + 2) by lia.
      destruct (scan_string_l q l ln (cl + 2)) as [[w t] s]. reflexivity. }
    assert (E2' : forall x, x = 92 \/ x = q ->
              scan_string_l q (92 :: x :: l) ln cl
              = let '(w, t, s) := scan_string_l q l ln (cl + 2) in (92 :: x :: w, t, s)).
    { intros x Hx. cbn [scan_string_l].
      replace (92 =? 13) with false by reflexivity. replace (92 =? 10) with false by reflexivity.
      replace (92 =? q) with false by (destruct Hq; subst q; reflexivity).
      replace (92 =? 92) with true by reflexivity.
      replace ((x =? 92) || (x =? q))%bool with true; [reflexivity|].
      destruct Hx; subst x; [reflexivity|]. rewrite N.eqb_refl. symmetry. apply Bool.orb_true_r. }
    assert (Qn : q <> 92 /\ q <> 13 /\ q <> 10 /\ q <> 97 /\ q <> 98 /\ q <> 102 /\ q <> 110 /\ q <> 114 /\ q <> 116 /\ q <> 118).
    { destruct Hq; subst q; repeat split; discriminate. }
    destruct Qn as (Q92 & Q13 & Q10 & Qa & Qb & Qf & Qn & Qr & Qt & Qv).
    destruct (c =? c_bel); [cbn [app length]; apply E2; auto; discriminate|].
    destruct (c =? c_bs); [cbn [app length]; apply E2; auto; discriminate|].
    destruct (c =? c_ff); [cbn [app length]; apply E2; auto; discriminate|].
    destruct (c =? c_lf) eqn:Elf; [cbn [app length]; apply E2; auto; discriminate|].
    destruct (c =? c_cr) eqn:Ecr; [cbn [app length]; apply E2; auto; discriminate|].
    destruct (c =? c_tab); [cbn [app length]; apply E2; auto; discriminate|].
    destruct (c =? c_vt); [cbn [app length]; apply E2; auto; discriminate|].
    destruct (c =? q) eqn:Ecq; [cbn [app length]; apply E2'; right; reflexivity|].
    destruct (c =? c_bslash) eqn:Ecb; [cbn [app length]; apply E2'; left; reflexivity|].
    (* an ordinary rune *)
    cbn [app length scan_string_l]. unfold c_bslash, c_lf, c_cr in *. rewrite Ecq, Ecb, Elf, Ecr.
    replace (cl + N.of_nat 1) with (cl + 1) by lia. reflexivity.
  Qed.

  (* the escaped text, its closing quotation mark, and whatever follows -- unless that is the same
     quotation mark again, which the scanner reads as a doubled (= literal) one *)
  Lemma scan_string_l_escaped : forall s rest ln cl, hd_error rest <> Some q ->
    scan_string_l q (escape_with q s ++ q :: rest) ln cl
    = (escape_with q s, true, mkP rest ln (cl + N.of_nat (length (escape_with q s)) + 1)).
  Proof.
    induction s as [|c s IH]; intros rest ln cl Hr.
    - cbn [escape_with flat_map app length scan_string_l].
      replace (q =? 13) with false by (destruct Hq; subst q; reflexivity).
      replace (q =? 10) with false by (destruct Hq; subst q; reflexivity).
      rewrite N.eqb_refl. replace (cl + N.of_nat 0 + 1) with (cl + 1) by lia.
      destruct rest as [|d r']; [reflexivity|].
      destruct (d =? q) eqn:E; [|reflexivity]. apply N.eqb_eq in E. subst d. exfalso. apply Hr. reflexivity.
    - unfold escape_with in *. cbn [flat_map]. rewrite <- app_assoc, scan_string_l_escape_rune.
      rewrite IH by exact Hr. rewrite app_length.
      f_equal. f_equal. lia.
  Qed.
End Quoted.

Lemma not_space_39 : is_space 39 = false. Proof. reflexivity. Qed.
Lemma not_space_96 : is_space 96 = false. Proof. reflexivity. Qed.

Lemma while_next_l_head_stop : forall p c r ln cl, p c = false ->
  while_next_l p (c :: r) ln cl = ([], mkP (c :: r) ln cl).
Proof. intros p c r ln cl H. cbn [while_next_l]. rewrite H. reflexivity. Qed.

(* Scan on what QuoteString printed: the STRING token with the original text, at the position of the
   opening quotation mark, in every mode, leaving exactly the rest *)
Lemma scan_quoted_string : forall fuel c m h s rest ln cl, hd_error rest <> Some c_squote ->
  scan (S fuel) c m h (mkP (quote_string s ++ rest) ln cl)
  = Some (mkTok (k_string (c_tok c)) s false 0 ln (cl + 1) None, h,
          mkP rest ln (cl + N.of_nat (length (quote_string s)))).
Proof.
  intros fuel c m h s rest ln cl Hr. cbn [scan]. unfold scan_body, while_next. cbn [p_rest p_line p_col].
  unfold quote_string, c_squote in *. cbn [app]. rewrite (while_next_l_head_stop is_space 39 _ ln cl not_space_39).
  cbn [snd]. unfold next. cbn [p_rest p_line p_col].
  cbn [N.eqb Pos.eqb]. cbv beta iota zeta. cbn [p_rest p_line p_col].
  rewrite ?Bool.andb_false_r. cbn [andb].
  change (is_decimal 39) with false. change (is_ident_rune c 39) with false. change (is_operator_rune 39) with false.
  cbv beta iota. cbn [orb].
  unfold scan_string. cbn [p_rest p_line p_col].
  rewrite <- app_assoc. cbn [app].
  pose proof (scan_string_l_escaped 39 (or_introl eq_refl) s rest ln (cl + 1) Hr) as E.
  unfold escape_string, c_squote. rewrite E. cbv beta iota.
  change (escape_with 39 s) with (escape_string s).
  change (unescape_string (escape_string s) 39) with (unescape_string (escape_string s) c_squote).
  rewrite unescape_escape_string. cbn [string_err].
  f_equal. f_equal. f_equal. cbn [length]. rewrite app_length. cbn [length]. unfold escape_string, c_squote. lia.
Qed.

(* ... and on what QuoteIdentifier printed: the quoted IDENTIFIER token, with ANSI_QUOTES on or off *)
Lemma scan_quoted_identifier : forall fuel c m h s rest ln cl, hd_error rest <> Some c_btick ->
  scan (S fuel) c m h (mkP (quote_identifier s ++ rest) ln cl)
  = Some (mkTok (k_identifier (c_tok c)) s true 0 ln (cl + 1) None, h,
          mkP rest ln (cl + N.of_nat (length (quote_identifier s)))).
Proof.
  intros fuel c m h s rest ln cl Hr. cbn [scan]. unfold scan_body, while_next. cbn [p_rest p_line p_col].
  unfold quote_identifier, c_btick in *. cbn [app]. rewrite (while_next_l_head_stop is_space 96 _ ln cl not_space_96).
  cbn [snd]. unfold next. cbn [p_rest p_line p_col].
  cbn [N.eqb Pos.eqb]. cbv beta iota zeta. cbn [p_rest p_line p_col].
  rewrite ?Bool.andb_false_r. cbn [andb].
  change (is_decimal 96) with false. change (is_ident_rune c 96) with false. change (is_operator_rune 96) with false.
  cbv beta iota. cbn [orb].
  unfold scan_string. cbn [p_rest p_line p_col].
  rewrite <- app_assoc. cbn [app].
  pose proof (scan_string_l_escaped 96 (or_intror eq_refl) s rest ln (cl + 1) Hr) as E.
  unfold escape_identifier, c_btick. rewrite E. cbv beta iota.
  change (escape_with 96 s) with (escape_identifier s).
  change (unescape_identifier (escape_identifier s) 96) with (unescape_identifier (escape_identifier s) c_btick).
  rewrite unescape_escape_identifier. cbn [string_err].
  f_equal. f_equal. f_equal. cbn [length]. rewrite app_length. cbn [length]. unfold escape_identifier, c_btick. lia.
Qed.

(* ... and the enclosed form of an environment variable, which EnvironmentVariable.String() prints *)
Lemma scan_quoted_envvar : forall fuel c m h s rest ln cl, s <> [] -> hd_error rest <> Some c_btick ->
  scan (S fuel) c m h (mkP (64 :: 37 :: quote_identifier s ++ rest) ln cl)
  = Some (mkTok (k_envvar (c_tok c)) s true 0 ln (cl + 1) None, h,
          mkP rest ln (cl + 2 + N.of_nat (length (quote_identifier s)))).
Proof.
  intros fuel c m h s rest ln cl Hs Hr. cbn [scan]. unfold scan_body, while_next. cbn [p_rest p_line p_col].
  rewrite (while_next_l_head_stop is_space 64 _ ln cl eq_refl).
  cbn [snd]. unfold next at 1. cbn [p_rest p_line p_col].
  cbn [N.eqb Pos.eqb]. cbv beta iota zeta. cbn [p_rest p_line p_col].
  rewrite ?Bool.andb_false_r. cbn [andb].
  change (is_decimal 64) with false. change (is_ident_rune c 64) with false. change (is_operator_rune 64) with false.
  cbv beta iota.
  unfold scan_variable, peek, next. cbn [p_rest p_line p_col hd_error]. cbn [N.eqb Pos.eqb]. cbv beta iota zeta.
  cbn [snd p_rest p_line p_col hd_error]. rewrite Z.eqb_refl.
  unfold quote_identifier, c_btick in *. cbn [app hd_error opt_eq opt_is N.eqb Pos.eqb andb].
  cbn [p_rest p_line p_col]. cbn [N.eqb Pos.eqb]. cbv beta iota zeta.
  unfold scan_string. cbn [snd p_rest p_line p_col].
  rewrite <- app_assoc. cbn [app].
  pose proof (scan_string_l_escaped 96 (or_intror eq_refl) s rest ln (cl + 1 + 1 + 1) Hr) as E.
  unfold escape_identifier, c_btick. rewrite E. cbv beta iota.
  change (escape_with 96 s) with (escape_identifier s).
  change (unescape_identifier (escape_identifier s) 96) with (unescape_identifier (escape_identifier s) c_btick).
  rewrite unescape_escape_identifier. cbn [string_err].
  destruct s as [|x s']; [congruence|].
  f_equal. f_equal. f_equal. cbn [length]. rewrite app_length. cbn [length]. unfold escape_identifier, c_btick. lia.
Qed.

(* ---- the decidable specification holds of the model's own streams ---------------------------------- *)
Lemma at_position_in : forall ps t, In (t_line t, t_char t) ps -> at_position ps t = true.
Proof.
  intros ps t H. unfold at_position. apply existsb_exists. exists (t_line t, t_char t).
  split; [exact H|]. cbn [fst snd]. rewrite !N.eqb_refl. reflexivity.
Qed.

Lemma at_position_in_inv : forall ps t, at_position ps t = true -> In (t_line t, t_char t) ps.
Proof.
  intros ps t H. unfold at_position in H. apply existsb_exists in H. destruct H as ([l c] & Hin & H).
  cbn [fst snd] in H. destruct (l =? t_line t) eqn:E1; [|discriminate].
  apply N.eqb_eq in E1, H. subst. exact Hin.
Qed.

Lemma scan_all_eof_last : forall fuel c m h s ts h',
  scan_all fuel c m h s = Some (ts, h') -> eof_last ts = true.
Proof.
  induction fuel as [|f IH]; intros c m h s ts h' H; [discriminate|].
  cbn [scan_all] in H.
  destruct (scan (S (length (p_rest s))) c m h s) as [[[t h1] s1]|]; [|discriminate].
  destruct (t_kind t =? k_eof)%Z eqn:Ek.
  - inversion H; subst. cbn [eof_last]. exact Ek.
  - destruct (scan_all f c m h1 s1) as [[ts1 h2]|] eqn:E1; [|discriminate]. inversion H; subst.
    pose proof (IH _ _ _ _ _ _ E1) as L. destruct ts1 as [|t1 ts1]; [discriminate|].
    change (eof_last (t :: t1 :: ts1)) with (negb (t_kind t =? k_eof)%Z && eof_last (t1 :: ts1))%bool.
    rewrite Ek, L. reflexivity.
Qed.

Lemma tokens_stream_ok : forall c m src ts n, tokens c m src = Some (ts, n) -> stream_ok src ts = true.
Proof.
  intros c m src ts n H. unfold stream_ok.
  apply Bool.andb_true_iff. split; [apply Bool.andb_true_iff; split|].
  - apply forallb_forall. intros t Ht. apply at_position_in.
    pose proof (tokens_positions _ _ _ _ _ H) as F. rewrite Forall_forall in F. apply F. exact Ht.
  - unfold tokens in H.
    destruct (scan_all (S (length src)) c m init_hst (init_pst src)) as [[ts' h]|] eqn:E; [|discriminate].
    inversion H; subst. eapply scan_all_eof_last; exact E.
  - apply Nat.leb_le. eapply tokens_progress; exact H.
Qed.

(* ---- witnesses ----------------------------------------------------------------------------------- *)
(* a small configuration with the token numbers goyacc assigned in the pinned tree *)
Definition cfg0 : cfg :=
  mkCfg (mkTokc 57346 57347 57348 57349 57351 57353 57354 57355 57356 57357 57358 57359 57360 57361
                57501 57502 57503 57496 57497 57498 57499 57500)
        [([83;69;76;69;67;84], 57362%Z); ([70;82;79;77], 57363%Z)] [] [] (57344, 166).
Definition modes0 : modes := mkModes false false.

(* without the side condition on what follows, the closing quotation mark and a following one are a
   doubled mark: 'a' immediately followed by 'b' is one literal *)
Lemma scan_quoted_string_any_rest_fails :
  ~ (forall fuel c m h s rest ln cl,
       scan (S fuel) c m h (mkP (quote_string s ++ rest) ln cl)
       = Some (mkTok (k_string (c_tok c)) s false 0 ln (cl + 1) None, h,
               mkP rest ln (cl + N.of_nat (length (quote_string s))))).
Proof.
  intros H. specialize (H O cfg0 modes0 init_hst [97] (quote_string [98]) 1 0).
  vm_compute in H. discriminate.
Qed.

(* UnescapeString with the double quotation mark as `quote` does not invert EscapeString *)
Lemma unescape_escape_any_quote_fails : ~ (forall s q, unescape_string (escape_string s) q = s).
Proof. intros H. specialize (H [97; 34] 34). vm_compute in H. discriminate. Qed.

(* a character that no case of Scan recognises carries its code point as token number, unless the code
   point is one of the numbers goyacc gave to the tokens of the grammar (a private use area): then it is
   UnknownCharacter, a number no grammar token has (repair of print-reparse:token-number-code-point) *)
Lemma default_token : forall c m h r ln cl ch,
  is_space ch = false ->
  (ch =? 63) = false -> (ch =? 58) = false -> is_decimal ch = false -> is_ident_rune c ch = false ->
  is_operator_rune ch = false -> (ch =? 64) = false -> (ch =? 36) = false -> (ch =? 47) = false ->
  (ch =? 45) = false -> (ch =? 39) = false -> (ch =? 34) = false -> (ch =? 96) = false ->
  scan_body c m h (mkP (ch :: r) ln cl)
  = BTok (mkTok (if is_token_number c ch then k_unknown_char else Z.of_N ch) [ch] false 0 ln (cl + 1) None) h (mkP r ln (cl + 1)).
Proof.
  intros c m h r ln cl ch Hsp H63 H58 Hd Hi Ho H64 H36 H47 H45 H39 H34 H96.
  assert (H13 : (ch =? 13) = false).
  { destruct (ch =? 13) eqn:E; [|reflexivity]. apply N.eqb_eq in E. subst ch. discriminate. }
  assert (H10 : (ch =? 10) = false).
  { destruct (ch =? 10) eqn:E; [|reflexivity]. apply N.eqb_eq in E. subst ch. discriminate. }
  unfold scan_body, while_next. cbn [p_rest p_line p_col].
  rewrite (while_next_l_head_stop is_space ch r ln cl Hsp). cbn [snd].
  unfold next. cbn [p_rest p_line p_col]. rewrite H13, H10.
  cbv beta iota zeta. cbn [p_rest p_line p_col].
  rewrite H63, H58, Hd, Hi, Ho, H64, H36, H47, H45, H39, H34, H96.
  rewrite ?Bool.andb_false_r. cbn [andb orb]. destruct (is_token_number c ch); reflexivity.
Qed.

(* the kind of such a token is never one of the grammar's token numbers *)
Lemma default_token_kind_not_a_token_number : forall c ch,
  let k := if is_token_number c ch then k_unknown_char else Z.of_N ch in
  (snd (c_private c) <= 1056768)%N -> (fst (c_private c) <= 57344)%N ->
  ~ (Z.of_N (fst (c_private c)) <= k < Z.of_N (fst (c_private c) + snd (c_private c)))%Z.
Proof.
  intros c ch k Hn Hlo. subst k. unfold is_token_number, k_unknown_char.
  destruct (fst (c_private c) <=? ch)%N eqn:E1; destruct (ch <? fst (c_private c) + snd (c_private c))%N eqn:E2; cbn [andb];
    try apply N.leb_le in E1; try apply N.leb_gt in E1; try apply N.ltb_lt in E2; try apply N.ltb_ge in E2; lia.
Qed.

(* U+E00B (= 57355, the number goyacc gave ENVIRONMENT_VARIABLE) alone is no longer an
   ENVIRONMENT_VARIABLE token *)
Lemma example_token_number_char :
  tokens cfg0 modes0 [57355] = Some ([mkTok k_unknown_char [57355] false 0 1 1 None; mkTok k_eof [65533] false 0 1 1 None], 0%N).
Proof. vm_compute. reflexivity. Qed.

(* non-vacuity: concrete runs of the definitions the theorems speak about *)
Lemma example_tokens :
  tokens cfg0 modes0 [83;69;76;69;67;84;32;39;97;92;39;98;39;10;45;45;120;13;10;64;118]
  = Some ([mkTok 57362 [83;69;76;69;67;84] false 0 1 1 None;
           mkTok 57347 [97;39;98] false 0 1 8 None;
           mkTok 57353 [118] false 0 3 1 None;
           mkTok (-1) [65533] false 0 3 2 None], 0).
Proof. vm_compute. reflexivity. Qed.

Lemma example_quote : quote_string [97; 39; 10; 92] = [39; 97; 92; 39; 92; 110; 92; 92; 39].
Proof. vm_compute. reflexivity. Qed.

Lemma example_positions : positions [97; 13; 10; 98; 10] = [(1, 0); (1, 1); (2, 0); (2, 1); (3, 0)].
Proof. vm_compute. reflexivity. Qed.
