(* Proofs/Ltsv.v -- lemmas about Model/Ltsv.v: the LTSV reader machine run on what the writer emits,
   refusal of unspellable values/labels, rectangular loads. *)
From Coq Require Import NArith List Lia Bool Arith.
Require Import Csvq.Model.Base Csvq.Model.Csv Csvq.Model.Ltsv Csvq.Proofs.Csv.
Import ListNotations.
Open Scope N_scope.
Local Arguments N.eqb : simpl never.
Local Arguments N.leb : simpl never.

(* ------------------------------------------------------------------------------------------------ *)
(* labels: Header.Add and Record lookup                                                             *)
(* ------------------------------------------------------------------------------------------------ *)
Lemma mem_str_in k h : mem_str k h = true <-> In k h.
Proof.
  unfold mem_str. rewrite existsb_exists. split.
  - intros (x & Hx & E). apply str_eqb_eq in E. subst. exact Hx.
  - intros H. exists k. split; [exact H | apply str_eqb_refl].
Qed.

Lemma add_keys_fresh : forall ks h, NoDup (h ++ ks) -> add_keys h ks = h ++ ks.
Proof.
  induction ks as [|k t IH]; intros h H; cbn [add_keys]; [rewrite app_nil_r; reflexivity|].
  destruct (mem_str k h) eqn:E.
  - exfalso. apply mem_str_in in E. apply NoDup_remove_2 in H. apply H. apply in_or_app. left. exact E.
  - rewrite IH; rewrite <- app_assoc; [reflexivity | exact H].
Qed.

Lemma add_keys_known : forall ks h, (forall k, In k ks -> In k h) -> add_keys h ks = h.
Proof.
  induction ks as [|k t IH]; intros h H; cbn [add_keys]; [reflexivity|].
  assert (E : mem_str k h = true) by (apply mem_str_in, H; left; reflexivity).
  rewrite E. apply IH. intros k' Hk. apply H. right. exact Hk.
Qed.

Lemma lookup_nodup : forall (l : list (str * str)) k v, NoDup (map fst l) -> In (k, v) l -> lookup k l = Some v.
Proof.
  induction l as [|[k' v'] t IH]; intros k v Hn Hin; [contradiction|].
  cbn [lookup]. cbn [map fst] in Hn. inversion Hn as [|? ? Hnotin Hn']; subst.
  destruct (str_eqb k k') eqn:E.
  - apply str_eqb_eq in E. subst k'. destruct Hin as [Hin|Hin]; [inversion Hin; reflexivity|].
    exfalso. apply Hnotin. apply in_map_iff. exists (k, v). split; [reflexivity | exact Hin].
  - destruct Hin as [Hin|Hin].
    + inversion Hin; subst. rewrite str_eqb_refl in E. discriminate.
    + apply IH; assumption.
Qed.

Lemma NoDup_map_rev {A B} (f : A -> B) l : NoDup (map f l) -> NoDup (map f (rev l)).
Proof. intros H. rewrite map_rev. apply NoDup_rev. exact H. Qed.

Definition null_if_empty (v : str) : option str := match v with [] => None | _ => Some v end.

Lemma record_values (ps : list (str * str)) : NoDup (map fst ps) ->
  map (lvalue false (rev ps)) (map fst ps) = map (fun p => null_if_empty (snd p)) ps.
Proof.
  intros Hn. rewrite map_map. apply map_ext_in. intros [k v] Hin. cbn [fst snd].
  unfold lvalue. rewrite (lookup_nodup (rev ps) k v).
  - destruct v; reflexivity.
  - apply NoDup_map_rev, Hn.
  - apply in_rev. rewrite rev_involutive. exact Hin.
Qed.

(* ------------------------------------------------------------------------------------------------ *)
(* the machine on written text                                                                      *)
(* ------------------------------------------------------------------------------------------------ *)
Notation lstepf := (lstep false).

Definition LC h R fs k v rk dt : lst := LS h R fs k v rk false dt false None.
Definition LSt h R fs k v rk cp dt pd : lst := LS h R fs k v rk cp dt pd None.

(* code points that are neither a separator nor a line break *)
Definition inner (c : N) : bool := negb ((c =? LF) || (c =? CR) || (c =? TAB) || (c =? COLON)).

Lemma label_inner c : label_ok c = true -> inner c = true.
Proof.
  unfold label_ok, inner. intros H.
  destruct (c =? LF) eqn:E1; [apply N.eqb_eq in E1; subst; discriminate H|].
  destruct (c =? CR) eqn:E2; [apply N.eqb_eq in E2; subst; discriminate H|].
  destruct (c =? TAB) eqn:E3; [apply N.eqb_eq in E3; subst; discriminate H|].
  destruct (c =? COLON) eqn:E4; [apply N.eqb_eq in E4; subst; discriminate H|].
  reflexivity.
Qed.

Lemma value_inner c : value_ok c = true -> (c =? COLON) = false -> inner c = true.
Proof.
  unfold inner. intros H ->.
  destruct (c =? LF) eqn:E1; [apply N.eqb_eq in E1; subst; discriminate H|].
  destruct (c =? CR) eqn:E2; [apply N.eqb_eq in E2; subst; discriminate H|].
  destruct (c =? TAB) eqn:E3; [apply N.eqb_eq in E3; subst; discriminate H|].
  reflexivity.
Qed.

Lemma inner_inv c : inner c = true -> (c =? LF) = false /\ (c =? CR) = false /\ (c =? TAB) = false /\ (c =? COLON) = false.
Proof.
  unfold inner. intros H. apply negb_true_iff in H.
  repeat (apply orb_false_iff in H as [H ?]). repeat split; assumption.
Qed.

Lemma lstep_clean h R fs k v rk cp dt pd b c : c <> LF ->
  lstepf (LS h R fs k v rk cp dt pd b) c = lstepf (LS h R fs k v rk false dt false b) c.
Proof.
  intros H. apply N.eqb_neq in H. unfold lstep; cbn [lcrp]. rewrite H. cbn [andb].
  unfold lend_line, lend_field, lmark, lfield_bad; cbn [lhdr lrecs lfs lkey lval lrk ldet lbad lcrp lpend].
  reflexivity.
Qed.

Lemma step_key h R fs k v dt c : inner c = true ->
  lstepf (LC h R fs k v true dt) c = LC h R fs (c :: k) v true dt.
Proof.
  intros H. apply inner_inv in H as (E1 & E2 & E3 & E4).
  unfold lstep, LC; cbn [lcrp lrk]. rewrite E1, E2, E3, E4. reflexivity.
Qed.
Lemma step_val h R fs k v dt c : inner c = true ->
  lstepf (LC h R fs k v false dt) c = LC h R fs k (c :: v) false dt.
Proof.
  intros H. apply inner_inv in H as (E1 & E2 & E3 & E4).
  unfold lstep, LC; cbn [lcrp lrk]. rewrite E1, E2, E3, E4. reflexivity.
Qed.
Lemma step_colon h R fs k v dt : lstepf (LC h R fs k v true dt) COLON = LC h R fs k v false dt.
Proof. reflexivity. Qed.

Lemma fold_key : forall s h R fs k v dt, forallb inner s = true ->
  fold_left lstepf s (LC h R fs k v true dt) = LC h R fs (rev s ++ k) v true dt.
Proof.
  induction s as [|c r IH]; intros h R fs k v dt H; [reflexivity|].
  cbn in H. apply andb_true_iff in H as [Hc Hr]. cbn [fold_left].
  rewrite step_key by exact Hc. rewrite IH by exact Hr. cbn [rev]. rewrite <- app_assoc. reflexivity.
Qed.
Lemma fold_val : forall s h R fs k v dt, forallb inner s = true ->
  fold_left lstepf s (LC h R fs k v false dt) = LC h R fs k (rev s ++ v) false dt.
Proof.
  induction s as [|c r IH]; intros h R fs k v dt H; [reflexivity|].
  cbn in H. apply andb_true_iff in H as [Hc Hr]. cbn [fold_left].
  rewrite step_val by exact Hc. rewrite IH by exact Hr. cbn [rev]. rewrite <- app_assoc. reflexivity.
Qed.

(* a pair (label, value) the reader gets back *)
Definition good_pair (p : str * str) : bool := forallb inner (fst p) && forallb inner (snd p).

Definition wpair (p : str * str) : str := fst p ++ COLON :: snd p.

Lemma fold_pair p h R fs dt rest : good_pair p = true ->
  fold_left lstepf (wpair p ++ rest) (LC h R fs [] [] true dt) =
  fold_left lstepf rest (LC h R fs (rev (fst p)) (rev (snd p)) false dt).
Proof.
  intros H. apply andb_true_iff in H as [Hk Hv]. unfold wpair.
  rewrite <- app_assoc. rewrite fold_left_app. rewrite fold_key by exact Hk.
  cbn [app fold_left]. rewrite step_colon. rewrite fold_left_app. rewrite fold_val by exact Hv.
  rewrite !app_nil_r. reflexivity.
Qed.

Lemma step_tab p h R fs dt :
  lstepf (LC h R fs (rev (fst p)) (rev (snd p)) false dt) TAB = LC h R (p :: fs) [] [] true dt.
Proof.
  unfold lstep, LC; cbn [lcrp]. change (TAB =? LF) with false. change (TAB =? CR) with false.
  change (TAB =? TAB) with true. cbn [andb]. unfold lend_field, lmark, lfield_bad;
  cbn [lhdr lrecs lfs lkey lval lrk ldet lbad]. rewrite !rev_involutive.
  destruct p as [k v]; cbn [fst snd]. destruct (rev k); reflexivity.
Qed.

Fixpoint wpairs (ps : list (str * str)) : str :=
  match ps with
  | [] => []
  | [p] => wpair p
  | p :: t => wpair p ++ TAB :: wpairs t
  end.
Fixpoint pbody (ps : list (str * str)) : list (str * str) :=
  match ps with [] => [] | [p] => [] | p :: t => p :: pbody t end.
Fixpoint plast (ps : list (str * str)) : str * str :=
  match ps with [] => ([], []) | [p] => p | _ :: t => plast t end.

Lemma pbody_last ps : ps <> [] -> ps = pbody ps ++ [plast ps].
Proof.
  induction ps as [|p t IH]; intros H; [congruence|]. destruct t as [|q t'].
  - reflexivity.
  - cbn [pbody plast app]. f_equal. apply IH. discriminate.
Qed.

Lemma fold_pairs : forall ps h R fs dt rest, ps <> [] -> forallb good_pair ps = true ->
  fold_left lstepf (wpairs ps ++ rest) (LC h R fs [] [] true dt) =
  fold_left lstepf rest (LC h R (rev (pbody ps) ++ fs) (rev (fst (plast ps))) (rev (snd (plast ps))) false dt).
Proof.
  induction ps as [|p t IH]; intros h R fs dt rest Hne Hg; [congruence|].
  cbn in Hg. apply andb_true_iff in Hg as [Hp Ht]. destruct t as [|q t'].
  - cbn [wpairs pbody plast rev app]. apply fold_pair. exact Hp.
  - change (wpairs (p :: q :: t')) with (wpair p ++ TAB :: wpairs (q :: t')).
    rewrite <- app_assoc. rewrite fold_pair by exact Hp. cbn [app fold_left].
    rewrite step_tab. rewrite IH by (discriminate || exact Ht).
    cbn [pbody plast rev]. rewrite <- app_assoc. reflexivity.
Qed.

(* ltsv_record is wpairs of the zipped labels and values *)
Lemma ltsv_record_pairs : forall hdr vals, length hdr = length vals -> ltsv_record hdr vals = wpairs (combine hdr vals).
Proof.
  induction hdr as [|h hs IH]; intros [|v vs] H; cbn in H; try discriminate; [reflexivity|].
  injection H as H. destruct hs as [|h2 hs'], vs as [|v2 vs']; cbn in H; try discriminate; [reflexivity|].
  change (ltsv_record (h :: h2 :: hs') (v :: v2 :: vs')) with (h ++ COLON :: v ++ TAB :: ltsv_record (h2 :: hs') (v2 :: vs')).
  rewrite IH by (cbn; lia).
  change (wpairs (combine (h :: h2 :: hs') (v :: v2 :: vs'))) with (wpair (h, v) ++ TAB :: wpairs (combine (h2 :: hs') (v2 :: vs'))).
  unfold wpair; cbn [fst snd]. rewrite <- app_assoc. reflexivity.
Qed.

(* a record of at least two pairs with pairwise different labels, all already known or all new *)
Definition known_or_empty (h : list str) (ks : list str) : Prop := h = [] \/ h = ks.

Lemma end_line_pairs iscr ps h R dt : (2 <= length ps)%nat -> NoDup (map fst ps) -> known_or_empty h (map fst ps) ->
  lend_line false iscr (LC h R (rev (pbody ps)) (rev (fst (plast ps))) (rev (snd (plast ps))) false dt) =
  LS (map fst ps) (map (fun p => null_if_empty (snd p)) ps :: R) [] [] [] true iscr
     (det_or dt (if iscr then LbCR else LbLF)) (iscr && is_none dt) None.
Proof.
  intros Hlen Hn Hk.
  assert (Hne : ps <> []) by (destruct ps; [cbn in Hlen; lia | discriminate]).
  unfold lend_line, LC; cbn [lfs lkey lval lhdr lrecs ldet lrk lbad].
  destruct (rev (pbody ps)) eqn:Eb.
  { exfalso. destruct ps as [|p [|q t]]; cbn in Hlen; try lia. cbn [pbody rev] in Eb.
    apply app_eq_nil in Eb as [_ Eb]. discriminate. }
  rewrite <- Eb. rewrite !rev_involutive.
  assert (Efs : (fst (plast ps), snd (plast ps)) :: rev (pbody ps) = rev ps).
  { transitivity (rev (pbody ps ++ [plast ps])).
    - rewrite rev_app_distr. cbn [rev app]. destruct (plast ps); reflexivity.
    - rewrite <- pbody_last by exact Hne. reflexivity. }
  rewrite Efs. rewrite rev_involutive.
  assert (Eh : add_keys h (map fst ps) = map fst ps).
  { destruct Hk as [-> | ->]; [apply (add_keys_fresh (map fst ps) []); exact Hn | apply add_keys_known; auto]. }
  rewrite Eh. rewrite record_values by exact Hn.
  unfold lmark, lfield_bad; cbn [lbad lkey lrk]. destruct (rev (fst (plast ps))); reflexivity.
Qed.

Definition after_pairs h R ps dt : lst :=
  LC h R (rev (pbody ps)) (rev (fst (plast ps))) (rev (snd (plast ps))) false dt.

Lemma lstep_lf_after ps h R dt :
  lstepf (after_pairs h R ps dt) LF = lend_line false false (after_pairs h R ps dt).
Proof. reflexivity. Qed.
Lemma lstep_cr_after ps h R dt :
  lstepf (after_pairs h R ps dt) CR = lend_line false true (after_pairs h R ps dt).
Proof. reflexivity. Qed.

Definition lafter_lb (lb : linebreak) (h : list str) R dt : lst :=
  match lb with
  | LbLF => LS h R [] [] [] true false (det_or dt LbLF) false None
  | LbCR => LS h R [] [] [] true true (det_or dt LbCR) (is_none dt) None
  | LbCRLF => LS h R [] [] [] true false (det_or dt LbCRLF) false None
  end.

Lemma fold_lb_pairs lb ps h R dt : (2 <= length ps)%nat -> NoDup (map fst ps) -> known_or_empty h (map fst ps) ->
  fold_left lstepf (lb_str lb) (after_pairs h R ps dt) =
  lafter_lb lb (map fst ps) (map (fun p => null_if_empty (snd p)) ps :: R) dt.
Proof.
  intros H1 H2 H3. destruct lb; cbn [lb_str fold_left lafter_lb].
  - rewrite lstep_lf_after. unfold after_pairs. rewrite end_line_pairs by assumption. reflexivity.
  - rewrite lstep_cr_after. unfold after_pairs. rewrite end_line_pairs by assumption. reflexivity.
  - rewrite lstep_cr_after. unfold after_pairs. rewrite end_line_pairs by assumption.
    unfold lstep; cbn [lcrp]. rewrite N.eqb_refl. cbn [andb]. unfold lswallow;
    cbn [lhdr lrecs lfs lkey lval lrk ldet lpend lbad]. destruct dt; reflexivity.
Qed.

Lemma wpairs_head ps : ps <> [] -> forallb good_pair ps = true -> exists c s, wpairs ps = c :: s /\ c <> LF.
Proof.
  intros Hne Hg. destruct ps as [|[k v] t]; [congruence|]. cbn in Hg. apply andb_true_iff in Hg as [Hp _].
  apply andb_true_iff in Hp as [Hk _]. cbn [fst] in Hk.
  assert (H : exists c s, wpair (k, v) = c :: s /\ c <> LF).
  { unfold wpair; cbn [fst snd]. destruct k as [|c k'].
    - eexists _, _. split; [reflexivity | discriminate].
    - cbn in Hk. apply andb_true_iff in Hk as [Hc _]. apply inner_inv in Hc as (E & _).
      eexists _, _. split; [reflexivity | apply N.eqb_neq; exact E]. }
  destruct H as (c & s & E & Hc). destruct t.
  - exists c, s. split; assumption.
  - change (wpairs ((k, v) :: p :: t)) with (wpair (k, v) ++ TAB :: wpairs (p :: t)).
    rewrite E. eexists _, _. split; [reflexivity | exact Hc].
Qed.

(* one record, from any record-start state *)
Lemma fold_lrecord ps h R rest cp dt pd : ps <> [] -> forallb good_pair ps = true ->
  fold_left lstepf (wpairs ps ++ rest) (LSt h R [] [] [] true cp dt pd) =
  fold_left lstepf rest (after_pairs h R ps dt).
Proof.
  intros Hne Hg. destruct (wpairs_head ps Hne Hg) as (c & s & Hw & Hc).
  transitivity (fold_left lstepf (wpairs ps ++ rest) (LC h R [] [] [] true dt)).
  - rewrite Hw. cbn [app fold_left]. unfold LSt, LC. rewrite lstep_clean by exact Hc. reflexivity.
  - rewrite fold_pairs by assumption. rewrite app_nil_r. reflexivity.
Qed.

Lemma lafter_lb_is_start lb h R dt : exists cp pd, lafter_lb lb h R dt = LSt h R [] [] [] true cp (det_or dt lb) pd.
Proof. destruct lb; cbn; eexists _, _; reflexivity. Qed.

(* ---- many records over one header ---- *)
Section File.
Variable hdr : list str.
Hypothesis hdr_nodup : NoDup hdr.
Hypothesis hdr_two : (2 <= length hdr)%nat.
Hypothesis hdr_inner : forallb (forallb inner) hdr = true.

Definition good_row (vals : list str) : bool :=
  Nat.eqb (length vals) (length hdr) && forallb (forallb inner) vals.

Lemma row_pairs vals : good_row vals = true ->
  let ps := combine hdr vals in
  ps <> [] /\ forallb good_pair ps = true /\ map fst ps = hdr /\ map snd ps = vals /\ (2 <= length ps)%nat.
Proof.
  intros H. apply andb_true_iff in H as [Hl Hv]. apply Nat.eqb_eq in Hl. cbn zeta.
  assert (Hlen : length (combine hdr vals) = length hdr) by (rewrite combine_length; lia).
  repeat split.
  - intro E. rewrite E in Hlen. cbn in Hlen. lia.
  - clear Hlen hdr_two hdr_nodup. revert vals Hl Hv. generalize hdr_inner. generalize hdr.
    induction hdr0 as [|h hs IH]; intros Hh [|v vs] Hl Hv; cbn in *; try reflexivity; try discriminate.
    apply andb_true_iff in Hh as [Hh1 Hh2]. apply andb_true_iff in Hv as [Hv1 Hv2].
    unfold good_pair at 1; cbn [fst snd]. rewrite Hh1, Hv1. cbn [andb]. apply IH; try assumption. lia.
  - clear -Hl. revert vals Hl. induction hdr as [|h hs IH]; intros [|v vs] Hl; cbn in *; try reflexivity; try discriminate.
    f_equal. apply IH. lia.
  - clear -Hl. revert vals Hl. induction hdr as [|h hs IH]; intros [|v vs] Hl; cbn in *; try reflexivity; try discriminate.
    f_equal. apply IH. lia.
  - lia.
Qed.

Definition row_values (vals : list str) : list (option str) := map null_if_empty vals.

Lemma row_record vals : good_row vals = true ->
  map (fun p : str * str => null_if_empty (snd p)) (combine hdr vals) = row_values vals.
Proof.
  intros H. destruct (row_pairs vals H) as (_ & _ & _ & Hs & _). unfold row_values.
  rewrite <- Hs at 2. rewrite map_map. reflexivity.
Qed.

Lemma fold_lrecord_lb vals lb h R rest cp dt pd : good_row vals = true -> known_or_empty h hdr ->
  fold_left lstepf (ltsv_record hdr vals ++ lb_str lb ++ rest) (LSt h R [] [] [] true cp dt pd) =
  fold_left lstepf rest (lafter_lb lb hdr (row_values vals :: R) dt).
Proof.
  intros Hg Hk. pose proof (row_pairs vals Hg) as (Hne & Hgp & Hf & Hs & H2). cbn zeta in *.
  assert (Hl : length hdr = length vals) by (apply andb_true_iff in Hg as [Hl _]; apply Nat.eqb_eq in Hl; lia).
  rewrite ltsv_record_pairs by exact Hl.
  rewrite fold_lrecord by assumption. rewrite fold_left_app.
  rewrite fold_lb_pairs; try assumption; rewrite ?Hf; try assumption.
  rewrite row_record by exact Hg. reflexivity.
Qed.

Fixpoint lterminated (lb : linebreak) (rows : list (list str)) : str :=
  match rows with [] => [] | r :: t => ltsv_record hdr r ++ lb_str lb ++ lterminated lb t end.

Lemma ltsv_records_snoc lb : forall rows r, ltsv_records lb hdr (rows ++ [r]) = lterminated lb rows ++ ltsv_record hdr r.
Proof.
  induction rows as [|x t IH]; intros r; [reflexivity|].
  cbn [app lterminated]. rewrite <- !app_assoc. rewrite <- IH.
  destruct (t ++ [r]) eqn:E; [destruct t; discriminate|]. reflexivity.
Qed.

Lemma fold_lterminated lb : forall rows h R rest cp dt pd, forallb good_row rows = true -> known_or_empty h hdr ->
  exists cp' pd',
  fold_left lstepf (lterminated lb rows ++ rest) (LSt h R [] [] [] true cp dt pd) =
  fold_left lstepf rest (LSt (match rows with [] => h | _ => hdr end) (rev (map row_values rows) ++ R) [] [] [] true cp'
                             (det_after dt lb rows) pd').
Proof.
  induction rows as [|r t IH]; intros h R rest cp dt pd H Hk.
  - exists cp, pd. reflexivity.
  - cbn in H. apply andb_true_iff in H as [Hr Ht].
    cbn [lterminated]. rewrite <- !app_assoc. rewrite fold_lrecord_lb by assumption.
    destruct (lafter_lb_is_start lb hdr (row_values r :: R) dt) as (cp1 & pd1 & ->).
    destruct (IH hdr (row_values r :: R) rest cp1 (det_or dt lb) pd1 Ht (or_intror eq_refl)) as (cp2 & pd2 & ->).
    exists cp2, pd2. f_equal. unfold LSt. f_equal.
    + destruct t; reflexivity.
    + cbn [map rev]. rewrite <- app_assoc. reflexivity.
    + destruct t; cbn [det_after]; [reflexivity | apply det_or_idem].
Qed.

Lemma lfinish_after vals h R dt : good_row vals = true -> known_or_empty h hdr ->
  lfinish false (after_pairs h R (combine hdr vals) dt) = inr (hdr, rev (row_values vals :: R), dt).
Proof.
  intros Hg Hk. pose proof (row_pairs vals Hg) as (Hne & Hgp & Hf & Hs & H2). cbn zeta in *.
  unfold lfinish. unfold after_pairs at 1 2 3. unfold LC at 1 2 3; cbn [lbad lcrp].
  unfold lfield_bad; cbn [lkey lrk].
  assert (E : match rev (fst (plast (combine hdr vals))) with [] => false | _ :: _ => false end = false)
    by (destruct (rev (fst (plast (combine hdr vals)))); reflexivity).
  rewrite E. unfold after_pairs. rewrite end_line_pairs; rewrite ?Hf; try assumption.
  cbn [lhdr lrecs ldet]. rewrite row_record by exact Hg. reflexivity.
Qed.

Lemma lfinish_after_lb lb R dt : lb <> LbCR ->
  lfinish false (lafter_lb lb hdr R dt) = inr (hdr, rev R, det_or dt lb).
Proof. destruct lb; intros H; [reflexivity | congruence | reflexivity]. Qed.

Theorem ltsv_read_written lb rows r tail :
  forallb good_row (rows ++ [r]) = true -> tail <> Some LbCR ->
  ltsv_read false (ltsv_records lb hdr (rows ++ [r]) ++ tail_str tail) =
  inr (hdr, map row_values (rows ++ [r]), det_file lb (length rows) tail).
Proof.
  intros Hg Ht. rewrite forallb_app in Hg. apply andb_true_iff in Hg as [Hrows Hr].
  cbn in Hr. rewrite andb_true_r in Hr.
  unfold ltsv_read. rewrite ltsv_records_snoc, <- app_assoc.
  change linit with (LSt [] [] [] [] [] true false None false).
  destruct (fold_lterminated lb rows [] [] (ltsv_record hdr r ++ tail_str tail) false None false Hrows (or_introl eq_refl))
    as (cp & pd & ->).
  rewrite app_nil_r.
  assert (Hk : known_or_empty (match rows with [] => [] | _ => hdr end) hdr) by (destruct rows; [left | right]; reflexivity).
  assert (Hdet : det_file lb (length rows) tail =
                 match tail with None => det_after None lb rows | Some l => det_or (det_after None lb rows) l end).
  { destruct rows; destruct tail; reflexivity. }
  destruct tail as [l|]; cbn [tail_str].
  - rewrite <- (app_nil_r (lb_str l)). rewrite fold_lrecord_lb by assumption. cbn [fold_left].
    rewrite lfinish_after_lb by congruence. rewrite Hdet. cbn [rev]. rewrite rev_involutive, map_app. reflexivity.
  - pose proof (row_pairs r Hr) as (Hne & Hgp & Hf & Hs & H2). cbn zeta in *.
    assert (Hl : length hdr = length r) by (apply andb_true_iff in Hr as [Hl _]; apply Nat.eqb_eq in Hl; lia).
    rewrite ltsv_record_pairs by exact Hl. rewrite fold_lrecord by assumption. cbn [fold_left].
    rewrite lfinish_after by assumption. rewrite Hdet. cbn [rev]. rewrite rev_involutive, map_app. reflexivity.
Qed.

End File.

(* ------------------------------------------------------------------------------------------------ *)
(* csvq level                                                                                       *)
(* ------------------------------------------------------------------------------------------------ *)
Definition no_colon (rows : list (list cell)) : bool :=
  forallb (forallb (fun c => forallb (fun ch => negb (ch =? COLON)) (cell_text c))) rows.

Lemma pad_to_exact {A} n (x : A) l : length l = n -> pad_to n x l = l.
Proof. intros H. unfold pad_to. rewrite H, Nat.sub_diag. cbn. apply app_nil_r. Qed.

Lemma forallb_impl {A} (f g : A -> bool) l : (forall x, f x = true -> g x = true) -> forallb f l = true -> forallb g l = true.
Proof. intros H. induction l as [|a t IH]; cbn; [reflexivity|]. intros E. apply andb_true_iff in E as [E1 E2]. rewrite H, IH; auto. Qed.

Lemma ltsv_encode_inv lb hdr rows s : ltsv_encode lb hdr rows = inr s ->
  rows <> [] /\ forallb (forallb label_ok) hdr = true /\
  forallb (forallb (fun c => forallb value_ok (cell_text c))) rows = true /\
  s = ltsv_records lb hdr (map (map cell_text) rows).
Proof.
  unfold ltsv_encode. destruct rows as [|r0 rows0]; [discriminate|].
  destruct (forallb (forallb label_ok) hdr); [|discriminate]. cbn [negb].
  destruct (forallb (forallb (fun c => forallb value_ok (cell_text c))) (r0 :: rows0)); [|discriminate].
  cbn [negb]. intros H. injection H as <-. repeat split; try reflexivity. discriminate.
Qed.

Theorem ltsv_roundtrip_general lb tail hdr rows bytes :
  NoDup hdr -> (2 <= length hdr)%nat -> Forall (fun r => length r = length hdr) rows ->
  no_colon rows = true -> tail <> Some LbCR ->
  ltsv_file lb tail hdr rows = inr bytes ->
  ltsv_load false bytes = inr (LD (ltsv_expected hdr rows) (det_file lb (length rows - 1) tail) false).
Proof.
  intros Hn H2 Hshape Hc Ht Hf.
  unfold ltsv_file in Hf. destruct (ltsv_encode lb hdr rows) as [e|s] eqn:Ee; [discriminate|].
  injection Hf as <-. apply ltsv_encode_inv in Ee as (Hrne & El & Ev & ->).
  assert (Hne : map (map cell_text) rows <> []) by (destruct rows; [congruence | discriminate]).
  destruct (split_last _ Hne) as (rs & r & Ers).
  assert (Hhi : forallb (forallb inner) hdr = true).
  { revert El. apply forallb_impl. intros h. apply forallb_impl. apply label_inner. }
  assert (Hrows : forallb (good_row hdr) (map (map cell_text) rows) = true).
  { apply forallb_forall. intros vals Hin. apply in_map_iff in Hin as (row & <- & Hrow).
    unfold good_row. rewrite map_length. rewrite Forall_forall in Hshape. rewrite (Hshape row Hrow), Nat.eqb_refl. cbn [andb].
    rewrite forallb_forall in Ev. specialize (Ev row Hrow).
    unfold no_colon in Hc. rewrite forallb_forall in Hc. specialize (Hc row Hrow).
    apply forallb_forall. intros v Hv. apply in_map_iff in Hv as (c & <- & Hcin).
    rewrite forallb_forall in Ev. specialize (Ev c Hcin). rewrite forallb_forall in Hc. specialize (Hc c Hcin).
    apply forallb_forall. intros ch Hch. rewrite forallb_forall in Ev. rewrite forallb_forall in Hc.
    apply value_inner; [apply Ev, Hch | apply negb_true_iff, Hc, Hch]. }
  unfold ltsv_load. rewrite Ers in *.
  rewrite (ltsv_read_written hdr Hn H2 Hhi lb rs r tail Hrows Ht).
  assert (Hlen : length rs = (length rows - 1)%nat).
  { assert (E : (length (map (map cell_text) rows) = length rs + 1)%nat) by (rewrite Ers, app_length; reflexivity).
    rewrite map_length in E. lia. }
  rewrite Hlen. f_equal. f_equal. unfold ltsv_expected. f_equal. rewrite <- Ers.
  rewrite !map_map. apply map_ext_in. intros row Hrow.
  rewrite pad_to_exact.
  - unfold row_values. rewrite map_map. apply map_ext. intros c. unfold null_if_empty. destruct (cell_text c); reflexivity.
  - unfold row_values. rewrite !map_length. rewrite Forall_forall in Hshape. apply Hshape, Hrow.
Qed.

(* refusal: a TAB, CR or LF in a value, or a label outside [0-9A-Za-z_.-], is an error and no byte is produced *)
Definition has_separator (rows : list (list cell)) : bool :=
  existsb (existsb (fun c => existsb (fun ch => (ch =? TAB) || (ch =? CR) || (ch =? LF)) (cell_text c))) rows.

Lemma separator_not_value ch : ((ch =? TAB) || (ch =? CR) || (ch =? LF)) = true -> value_ok ch = false.
Proof.
  intros H. apply orb_true_iff in H as [H|H]; [apply orb_true_iff in H as [H|H]|];
  apply N.eqb_eq in H; subst; reflexivity.
Qed.

Lemma ltsv_refuses_lemma lb tail hdr rows :
  has_separator rows = true \/ forallb (forallb label_ok) hdr = false ->
  exists e, ltsv_file lb tail hdr rows = inl e.
Proof.
  intros H. unfold ltsv_file, ltsv_encode. destruct rows as [|r0 rows0]; [eexists; reflexivity|].
  set (rows := r0 :: rows0) in *.
  destruct (forallb (forallb label_ok) hdr) eqn:El; cbn [negb]; [|eexists; reflexivity].
  destruct H as [H|H]; [|discriminate].
  assert (Ev : forallb (forallb (fun c => forallb value_ok (cell_text c))) rows = false).
  { unfold has_separator in H. apply existsb_exists in H as (row & Hrow & H).
    apply existsb_exists in H as (c & Hc & H). apply existsb_exists in H as (ch & Hch & H).
    apply not_true_is_false. intro E. rewrite forallb_forall in E. specialize (E row Hrow).
    rewrite forallb_forall in E. specialize (E c Hc). rewrite forallb_forall in E. specialize (E ch Hch).
    rewrite (separator_not_value ch H) in E. discriminate. }
  rewrite Ev. cbn [negb]. eexists; reflexivity.
Qed.

(* every LTSV load is rectangular *)

Definition lrect_inv (s : lst) : Prop := Forall (fun r : list (option str) => (length r <= length (lhdr s))%nat) (lrecs s).

Lemma add_keys_length : forall ks h, (length h <= length (add_keys h ks))%nat.
Proof.
  induction ks as [|k t IH]; intros h; cbn [add_keys]; [lia|].
  destruct (mem_str k h); [apply IH|]. specialize (IH (h ++ [k])). rewrite app_length in IH. cbn in IH. lia.
Qed.

Lemma lstep_inv wn s c : lrect_inv s -> lrect_inv (lstep wn s c).
Proof.
  intros H. unfold lstep.
  repeat match goal with |- context [if ?b then _ else _] => destruct b end;
  unfold lswallow, lend_line, lend_field, lrect_inv in *; cbn [lhdr lrecs]; try exact H;
  destruct (lfs s); cbn [lhdr lrecs]; try exact H;
  (constructor; [rewrite map_length; lia|]);
  (eapply Forall_impl; [|exact H]); cbn beta; intros r Hr;
  match goal with |- (_ <= length (add_keys ?h ?ks))%nat => pose proof (add_keys_length ks h) end; lia.
Qed.

Lemma lfold_inv wn inp : forall s, lrect_inv s -> lrect_inv (fold_left (lstep wn) inp s).
Proof. induction inp as [|c r IH]; intros s H; cbn [fold_left]; [exact H | apply IH, lstep_inv, H]. Qed.

Lemma ltsv_load_rect wn inp l : ltsv_load wn inp = inr l -> rectangular_table (l_table l).
Proof.
  unfold ltsv_load, ltsv_read. set (s := fold_left (lstep wn) inp linit).
  assert (Hs : lrect_inv s) by (apply lfold_inv; constructor).
  unfold lfinish. destruct (lbad s); [discriminate|]. destruct (lcrp s); [discriminate|].
  destruct (lfield_bad s); [discriminate|].
  pose proof (lstep_inv wn s LF) as Hstep.
  assert (Hend : lrect_inv (lend_line wn false s)).
  { unfold lrect_inv, lend_line in *. destruct (lfs s); cbn [lhdr lrecs]; [exact Hs|].
    constructor; [rewrite map_length; lia|]. eapply Forall_impl; [|exact Hs]. cbn beta. intros r Hr.
    match goal with |- (_ <= length (add_keys ?h ?ks))%nat => pose proof (add_keys_length ks h) end. lia. }
  intros H. inversion H; subst; clear H. unfold rectangular_table; cbn [l_table t_header t_rows].
  apply Forall_forall. intros r Hr. apply in_map_iff in Hr as (r0 & <- & Hr0).
  apply pad_to_length. apply in_rev in Hr0. unfold lrect_inv in Hend. rewrite Forall_forall in Hend. apply Hend, Hr0.
Qed.
