(* C17: NTILE in closed form.  NTILE(n) over a partition of `total` rows: with per = total / n and
   md = total mod n, the first md tiles hold per + 1 rows and the others per rows, numbered from 1;
   when n > total every row is its own tile. *)
From Coq Require Import ZArith List Bool Lia.
Require Import Csvq.Model.Base Csvq.Model.Value Csvq.Model.SortVal Csvq.Model.Query Csvq.Model.Analytic.
Require Import Csvq.Proofs.Rank.
Import ListNotations.
Open Scope Z_scope.
Local Arguments Z.add : simpl never.
Local Arguments Z.sub : simpl never.

(* rows still to be numbered: `room` more rows go into the current tile, then tiles of the sizes listed *)
Fixpoint fill (n : nat) (tile : Z) (room : nat) (later : nat -> Z) (k : nat) : list Z :=
  match n with
  | O => []
  | S n' =>
      match room with
      | S r => tile :: fill n' tile r later k
      | O => (tile + 1) :: fill n' (tile + 1) (Z.to_nat (later k) - 1) later (S k)
      end
  end.

(* size of the k-th tile still to come when md of them get an extra row *)
Definition sizes_from (per md : Z) (k : nat) : Z := if Z.of_nat k <? md then per + 1 else per.

(* the loop, from a state in which the current tile holds `count` rows and may take `room` more *)
Lemma ntile_loop_fill : forall n per md tile count room,
  1 <= per -> 0 <= md -> 0 <= count ->
  (* the current tile is one of the long ones (md > 0, room counts up to per + 1), a short one, or a long one
     that is already accounted for (count = per + 1, room = 0) *)
  ((0 < md /\ count <= per /\ Z.of_nat room = per + 1 - count) \/
   (md = 0 /\ count <= per /\ Z.of_nat room = per - count) \/
   (count = per + 1 /\ room = O)) ->
  ntile_loop n per md tile count =
  fill n tile room (sizes_from per (if (0 <? md) && (count <=? per) then md - 1 else md)) O.
Proof.
  induction n as [|n IH]; intros per md tile count room Hper Hmd Hc Hst; [reflexivity|].
  cbn [ntile_loop fill].
  destruct Hst as [(Hm & Hle & Hr)|[(Hm & Hle & Hr)|(Hcnt & Hr)]].
  - (* a long tile in progress *)
    assert (E1 : (0 <? md) = true) by (apply Z.ltb_lt; lia).
    assert (E2 : (count <=? per) = true) by (apply Z.leb_le; lia).
    rewrite E1, E2. cbn [andb].
    destruct room as [|r]; [lia|].
    destruct (Z.ltb_spec (per + 1) (count + 1)) as [L|L]; [lia|].
    destruct (Z.eqb_spec (per + 1) (count + 1)) as [E|E].
    + (* this row fills the tile *)
      f_equal.
      rewrite (IH per (md - 1) tile (count + 1) O Hper ltac:(lia) ltac:(lia)); [|right; right; split; lia].
      assert (E3 : (count + 1 <=? per) = false) by (apply Z.leb_gt; lia).
      rewrite E3, Bool.andb_false_r. assert (r = O) by lia. subst r. reflexivity.
    + f_equal.
      rewrite (IH per md tile (count + 1) r Hper Hmd ltac:(lia)); [|left; repeat split; lia].
      assert (E3 : (count + 1 <=? per) = true) by (apply Z.leb_le; lia).
      rewrite E1, E3. reflexivity.
  - (* a short tile in progress *)
    subst md. cbn [Z.ltb andb]. change (0 <? 0) with false. cbn [andb].
    destruct (Z.ltb_spec (per + 1) (count + 1)) as [L|L]; [lia|].
    destruct (Z.eqb_spec (per + 1) (count + 1)) as [E|E].
    + (* the tile is full: this row opens the next one *)
      assert (room = O) by lia. subst room. cbn [Z.ltb]. change (0 <? 0) with false.
      f_equal. unfold sizes_from at 1. change (Z.of_nat 0 <? 0) with false. cbn [Z.to_nat].
      rewrite (IH per 0 (tile + 1) 1 (Z.to_nat per - 1)%nat Hper ltac:(lia) ltac:(lia)); [|right; left; repeat split; lia].
      change (0 <? 0) with false. cbn [andb].
      (* the remaining tiles are all short: shifting the index changes nothing *)
      assert (S : forall m t rm k, fill m t rm (sizes_from per 0) k = fill m t rm (sizes_from per 0) (S k)).
      { induction m as [|m IHm]; intros t rm k; [reflexivity|]. cbn [fill]. destruct rm as [|rm'].
        - unfold sizes_from at 1 3. replace (Z.of_nat k <? 0) with false by (symmetry; apply Z.ltb_ge; lia).
          replace (Z.of_nat (S k) <? 0) with false by (symmetry; apply Z.ltb_ge; lia). f_equal. apply IHm.
        - f_equal. apply IHm. }
      apply S.
    + destruct room as [|r]; [lia|]. f_equal.
      rewrite (IH per 0 tile (count + 1) r Hper ltac:(lia) ltac:(lia)); [|right; left; repeat split; lia].
      change (0 <? 0) with false. reflexivity.
  - (* a long tile that is full: this row opens the next one *)
    subst count room.
    assert (E3 : (per + 1 <=? per) = false) by (apply Z.leb_gt; lia).
    rewrite E3, Bool.andb_false_r.
    destruct (Z.ltb_spec (per + 1) (per + 1 + 1)) as [L|L]; [|lia].
    f_equal.
    destruct (Z.ltb_spec 0 md) as [Hm|Hm].
    + rewrite (IH per md (tile + 1) 1 (Z.to_nat (per + 1) - 1)%nat Hper Hmd ltac:(lia)); [|left; repeat split; lia].
      assert (E1 : (0 <? md) = true) by (apply Z.ltb_lt; lia).
      assert (E2 : (1 <=? per) = true) by (apply Z.leb_le; lia).
      rewrite E1, E2. cbn [andb].
      replace (sizes_from per md 0) with (per + 1) by (unfold sizes_from; change (Z.of_nat 0) with 0; rewrite E1; reflexivity).
      (* the tile just opened was the first of md long ones: the others are indexed from 1 *)
      assert (S : forall m t rm k, fill m t rm (sizes_from per (md - 1)) k = fill m t rm (sizes_from per md) (S k)).
      { induction m as [|m IHm]; intros t rm k; [reflexivity|]. cbn [fill]. destruct rm as [|rm'].
        - unfold sizes_from at 1 3.
          replace (Z.of_nat (S k) <? md) with (Z.of_nat k <? md - 1)
            by (destruct (Z.ltb_spec (Z.of_nat k) (md - 1)); destruct (Z.ltb_spec (Z.of_nat (S k)) md); try reflexivity; lia).
          f_equal. apply IHm.
        - f_equal. apply IHm. }
      apply S.
    + assert (md = 0) by lia. subst md.
      rewrite (IH per 0 (tile + 1) 1 (Z.to_nat per - 1)%nat Hper ltac:(lia) ltac:(lia)); [|right; left; repeat split; lia].
      change (0 <? 0) with false. cbn [andb].
      replace (sizes_from per 0 0) with per by reflexivity.
      assert (S : forall m t rm k, fill m t rm (sizes_from per 0) k = fill m t rm (sizes_from per 0) (S k)).
      { induction m as [|m IHm]; intros t rm k; [reflexivity|]. cbn [fill]. destruct rm as [|rm'].
        - unfold sizes_from at 1 3. replace (Z.of_nat k <? 0) with false by (symmetry; apply Z.ltb_ge; lia).
          replace (Z.of_nat (S k) <? 0) with false by (symmetry; apply Z.ltb_ge; lia). f_equal. apply IHm.
        - f_equal. apply IHm. }
      apply S.
Qed.

(* ---- from the filling process to the list of tile sizes ------------------------------------------------ *)
Lemma repeat_S {A} (x : A) n : repeat x (S n) = x :: repeat x n.
Proof. reflexivity. Qed.

Lemma fill_expand : forall n tile room later k m,
  (forall j, 1 <= later j) ->
  (Z.of_nat n <= Z.of_nat room + zsum (map later (seq k m))) ->
  fill n tile room later k = firstn n (repeat tile room ++ expand_dense (map later (seq k m)) tile).
Proof.
  induction n as [|n IH]; intros tile room later k m Hl Hn; [reflexivity|].
  cbn [fill]. destruct room as [|r].
  - destruct m as [|m]; [cbn in Hn; lia|].
    cbn [seq map expand_dense repeat app].
    assert (E : Z.to_nat (later k) = S (Z.to_nat (later k) - 1)) by (specialize (Hl k); lia).
    rewrite E at 2. rewrite repeat_S. cbn [app firstn]. f_equal.
    rewrite (IH (tile + 1) (Z.to_nat (later k) - 1)%nat later (S k) m Hl); [reflexivity|].
    cbn [seq map zsum fold_right] in Hn. specialize (Hl k). unfold zsum in *. lia.
  - cbn [repeat app firstn]. f_equal. apply IH; [exact Hl|lia].
Qed.

Lemma expand_dense_length : forall sizes k, Forall (fun s => 0 <= s) sizes ->
  Z.of_nat (length (expand_dense sizes k)) = zsum sizes.
Proof.
  induction sizes as [|s sizes IH]; intros k H; [reflexivity|].
  inversion H as [|? ? Hs Hr]; subst. cbn [expand_dense zsum fold_right].
  rewrite app_length, repeat_length, Nat2Z.inj_add, (IH (k + 1) Hr). unfold zsum. lia.
Qed.

Lemma map_sizes_from per md m : 0 <= md -> (Z.to_nat md <= m)%nat ->
  map (sizes_from per md) (seq 0 m) = repeat (per + 1) (Z.to_nat md) ++ repeat per (m - Z.to_nat md).
Proof.
  intros Hmd Hm.
  assert (G : forall m0 a, map (sizes_from per md) (seq a m0) =
              repeat (per + 1) (Nat.min m0 (Z.to_nat md - a)) ++ repeat per (m0 - (Z.to_nat md - a))).
  { induction m0 as [|m0 IH]; intros a; [reflexivity|].
    cbn [seq map]. rewrite IH. unfold sizes_from at 1.
    destruct (Z.ltb_spec (Z.of_nat a) md) as [L|L].
    - replace (Nat.min (S m0) (Z.to_nat md - a)) with (S (Nat.min m0 (Z.to_nat md - S a))) by lia.
      replace (S m0 - (Z.to_nat md - a))%nat with (m0 - (Z.to_nat md - S a))%nat by lia. reflexivity.
    - replace (Nat.min (S m0) (Z.to_nat md - a)) with O by lia.
      replace (Nat.min m0 (Z.to_nat md - S a)) with O by lia.
      replace (S m0 - (Z.to_nat md - a))%nat with (S (m0 - (Z.to_nat md - S a)))%nat by lia. reflexivity. }
  rewrite G. replace (Nat.min m (Z.to_nat md - 0)) with (Z.to_nat md) by lia.
  replace (m - (Z.to_nat md - 0))%nat with (m - Z.to_nat md)%nat by lia. reflexivity.
Qed.

Lemma zsum_repeat x n : zsum (repeat x n) = Z.of_nat n * x.
Proof. induction n as [|n IH]; [reflexivity|]. cbn [repeat zsum fold_right]. unfold zsum in IH. rewrite IH. lia. Qed.

Lemma Forall_repeat_nonneg x n : 0 <= x -> Forall (fun s => 0 <= s) (repeat x n).
Proof. intros H. apply Forall_forall. intros y Hy. apply repeat_spec in Hy. lia. Qed.

(* the whole list when it has exactly n elements *)
Lemma fill_exact n tile room later k m :
  (forall j, 1 <= later j) ->
  Z.of_nat n = Z.of_nat room + zsum (map later (seq k m)) ->
  fill n tile room later k = repeat tile room ++ expand_dense (map later (seq k m)) tile.
Proof.
  intros Hl Hn. rewrite (fill_expand n tile room later k m Hl) by lia.
  apply firstn_all2. rewrite app_length, repeat_length. apply Nat2Z.inj_le.
  rewrite Nat2Z.inj_add, expand_dense_length; [lia|].
  apply Forall_forall. intros x Hx. apply in_map_iff in Hx. destruct Hx as (j & E & _). specialize (Hl j). lia.
Qed.

(* the sizes of the tiles NTILE(tiles) cuts a partition of `total` rows into *)
Definition ntile_sizes (total : nat) (tiles : Z) : list Z :=
  let t := Z.of_nat total in
  let per := Z.quot t tiles in
  let md := Z.rem t tiles in
  if per <? 1 then repeat 1 total
  else repeat (per + 1) (Z.to_nat md) ++ repeat per (Z.to_nat (tiles - md)).

Lemma sizes_from_pos per md j : 1 <= per -> 1 <= sizes_from per md j.
Proof. intros H. unfold sizes_from. destruct (Z.of_nat j <? md); lia. Qed.

Theorem ntile_closed_form total tiles : 1 <= tiles ->
  ntile total tiles = expand_dense (ntile_sizes total tiles) 0.
Proof.
  intros Ht. unfold ntile, ntile_sizes.
  set (t := Z.of_nat total).
  assert (Ht0 : 0 <= t) by (unfold t; lia).
  rewrite Z.quot_div_nonneg, Z.rem_mod_nonneg by lia.
  set (per := t / tiles). set (md := t mod tiles).
  assert (Hmd : 0 <= md < tiles) by (apply Z.mod_pos_bound; lia).
  assert (Hdm : t = tiles * per + md) by (apply Z.div_mod; lia).
  assert (Hper : 0 <= per) by (apply Z.div_pos; lia).
  destruct (Z.ltb_spec per 1) as [Hp|Hp].
  - (* more tiles than rows: one row each *)
    destruct total as [|n]; [reflexivity|].
    rewrite (ntile_loop_fill (S n) 1 0 1 0 1 ltac:(lia) ltac:(lia) ltac:(lia)); [|right; left; repeat split; lia].
    change (0 <? 0) with false. cbn [andb].
    assert (E : map (sizes_from 1 0) (seq 0 n) = repeat 1 n).
    { rewrite map_sizes_from by (cbn; lia). cbn [Z.to_nat repeat app]. f_equal. lia. }
    rewrite (fill_exact (S n) 1 1 (sizes_from 1 0) 0 n).
    + rewrite E. cbn [repeat expand_dense app]. change (Z.to_nat 1) with 1%nat. reflexivity.
    + intros j. apply sizes_from_pos. lia.
    + rewrite E, zsum_repeat. lia.
  - destruct (Z.ltb_spec 0 md) as [Hm|Hm].
    + (* md long tiles first *)
      rewrite (ntile_loop_fill total per md 1 0 (Z.to_nat (per + 1)) Hp ltac:(lia) ltac:(lia)); [|left; repeat split; lia].
      assert (E1 : (0 <? md) = true) by (apply Z.ltb_lt; lia).
      assert (E2 : (0 <=? per) = true) by (apply Z.leb_le; lia).
      rewrite E1, E2. cbn [andb].
      assert (E : map (sizes_from per (md - 1)) (seq 0 (Z.to_nat (tiles - 1)))
                  = repeat (per + 1) (Z.to_nat (md - 1)) ++ repeat per (Z.to_nat (tiles - md))).
      { rewrite map_sizes_from by lia. do 2 f_equal. lia. }
      rewrite (fill_exact total 1 (Z.to_nat (per + 1)) (sizes_from per (md - 1)) 0 (Z.to_nat (tiles - 1))).
      * rewrite E. replace (Z.to_nat md) with (S (Z.to_nat (md - 1))) by lia.
        cbn [repeat app expand_dense]. reflexivity.
      * intros j. apply sizes_from_pos. exact Hp.
      * rewrite E, zsum_app, !zsum_repeat. fold t. nia.
    + assert (md = 0) by lia.
      rewrite (ntile_loop_fill total per md 1 0 (Z.to_nat per) Hp ltac:(lia) ltac:(lia)); [|right; left; repeat split; lia].
      replace (0 <? md) with false by (symmetry; apply Z.ltb_ge; lia). cbn [andb].
      assert (E : map (sizes_from per md) (seq 0 (Z.to_nat (tiles - 1))) = repeat per (Z.to_nat (tiles - 1))).
      { rewrite map_sizes_from by lia. replace (Z.to_nat md) with O by lia. cbn [repeat app]. f_equal. lia. }
      rewrite (fill_exact total 1 (Z.to_nat per) (sizes_from per md) 0 (Z.to_nat (tiles - 1))).
      * rewrite E. replace (Z.to_nat md) with O by lia. cbn [repeat app].
        replace (Z.to_nat (tiles - md)) with (S (Z.to_nat (tiles - 1))) by lia.
        cbn [repeat expand_dense]. reflexivity.
      * intros j. apply sizes_from_pos. exact Hp.
      * rewrite E, zsum_repeat. fold t. nia.
Qed.

(* the tile sizes are what NTILE promises: they add up to the partition, differ by at most one, longer first *)
Lemma ntile_sizes_sum total tiles : 1 <= tiles -> zsum (ntile_sizes total tiles) = Z.of_nat total.
Proof.
  intros Ht. unfold ntile_sizes.
  rewrite Z.quot_div_nonneg, Z.rem_mod_nonneg by lia.
  pose proof (Z.mod_pos_bound (Z.of_nat total) tiles ltac:(lia)) as Hmd.
  pose proof (Z.div_mod (Z.of_nat total) tiles ltac:(lia)) as Hdm.
  destruct (Z.ltb_spec (Z.of_nat total / tiles) 1) as [Hp|Hp].
  - rewrite zsum_repeat. lia.
  - rewrite zsum_app, !zsum_repeat. nia.
Qed.
