(* Proofs for C07: the reference sort is a sorted permutation; OFFSET / LIMIT / WITH TIES cut
   exactly the documented prefix. *)
From Coq Require Import ZArith List Bool Lia Permutation Sorted Floats.
Require Import Csvq.Model.Base Csvq.Model.Value Csvq.Model.Key Csvq.Model.SortVal.
Import ListNotations.
Open Scope Z_scope.

Section SortFacts.
  Context {A : Type}.
  Variable ds : list (dir * nullpos).
  Notation keyed := (list sortval * A)%type.
  Definition less (x y : keyed) : bool := svs_less (fst x) (fst y) ds.

  Lemma ins_perm (x : keyed) (l : list keyed) : Permutation (ins ds x l) (x :: l).
  Proof.
    induction l as [|y l IH]; simpl; [reflexivity|].
    destruct (svs_less (fst x) (fst y) ds); [reflexivity|].
    rewrite IH. apply perm_swap.
  Qed.

  Theorem isort_perm (l : list keyed) : Permutation (isort ds l) l.
  Proof.
    unfold isort. induction l as [|x l IH]; simpl; [reflexivity|].
    rewrite ins_perm. apply perm_skip. exact IH.
  Qed.

  (* "no row precedes another that must sort before it": y never strictly before x when x comes first *)
  Definition noinv (x y : keyed) : Prop := less y x = false.

  (* the comparator is a strict weak order on the keys at hand *)
  Variable dom : keyed -> Prop.
  Hypothesis asym : forall x y, dom x -> dom y -> less x y = true -> less y x = false.
  Hypothesis negtrans : forall x y z, dom x -> dom y -> dom z -> less y x = false -> less z y = false -> less z x = false.

  Lemma ins_dom (x : keyed) (l : list keyed) : dom x -> Forall dom l -> Forall dom (ins ds x l).
  Proof.
    intros Hx Hl. induction Hl as [|y l Hy Hl IH]; simpl; [constructor; auto|].
    destruct (svs_less (fst x) (fst y) ds); constructor; auto.
  Qed.

  Lemma ins_sorted (x : keyed) (l : list keyed) : dom x -> Forall dom l -> StronglySorted noinv l -> StronglySorted noinv (ins ds x l).
  Proof.
    intros Hx Hd Hs. induction l as [|y l IH]; simpl.
    - constructor; constructor.
    - inversion Hd as [|? ? Hy Hd']; subst. inversion Hs as [|? ? Hs' Hall]; subst.
      destruct (svs_less (fst x) (fst y) ds) eqn:E.
      + constructor; [exact Hs|]. constructor.
        * unfold noinv, less. apply asym; auto.
        * apply Forall_forall. intros z Hz. unfold noinv.
          (* x < y and y <= z hence not z < x *)
          assert (Dz : dom z) by (rewrite Forall_forall in Hd'; apply Hd'; exact Hz).
          assert (L1 : less y x = false) by (apply asym; auto).
          assert (L2 : less z y = false) by (rewrite Forall_forall in Hall; apply Hall; exact Hz).
          exact (negtrans x y z Hx Hy Dz L1 L2).
      + constructor; [apply IH; auto|].
        apply Forall_forall. intros z Hz.
        assert (Hp : Permutation (ins ds x l) (x :: l)) by apply ins_perm.
        apply (Permutation_in _ Hp) in Hz. destruct Hz as [<-|Hz].
        * unfold noinv, less. exact E.
        * rewrite Forall_forall in Hall. apply Hall. exact Hz.
  Qed.

  Theorem isort_sorted (l : list keyed) : Forall dom l -> StronglySorted noinv (isort ds l).
  Proof.
    unfold isort. induction l as [|x l IH]; simpl; intros Hd; [constructor|].
    inversion Hd as [|? ? Hx Hd']; subst.
    apply ins_sorted; auto.
    clear IH. induction Hd' as [|y l Hy Hl IH]; simpl; [constructor|]. apply ins_dom; auto.
  Qed.
End SortFacts.

(* ---- OFFSET ----------------------------------------------------------------------------------- *)
Lemma offset_spec {A} (n : Z) (l : list A) :
  offset_rows n l = skipn (Z.to_nat (Z.max 0 n)) l /\
  (n <= 0 -> offset_rows n l = l) /\
  (Z.of_nat (length l) <= n -> offset_rows n l = []) /\
  firstn (Z.to_nat (Z.max 0 n)) l ++ offset_rows n l = l.
Proof.
  unfold offset_rows. repeat split.
  - intros H. replace (Z.max 0 n) with 0 by lia. reflexivity.
  - intros H. apply skipn_all2. lia.
  - apply firstn_skipn.
Qed.

(* ---- LIMIT ------------------------------------------------------------------------------------ *)
Lemma limit_rows_plain {A} n off sv (l : list A) :
  limit_rows (LimRows n) false off sv l = firstn (Z.to_nat (Z.max 0 n)) l.
Proof.
  unfold limit_rows, limit_count.
  destruct (Z.leb_spec (Z.of_nat (length l)) (Z.max 0 n)) as [H|H].
  - symmetry. apply firstn_all2. lia.
  - destruct sv; reflexivity.
Qed.

Lemma limit_rows_no_sort_values {A} k ties off (l : list A) :
  limit_rows k ties off None l = firstn (Z.to_nat (limit_count k (Z.of_nat (length l)) (Z.max 0 off))) l.
Proof.
  unfold limit_rows.
  destruct (Z.leb_spec (Z.of_nat (length l)) (limit_count k (Z.of_nat (length l)) (Z.max 0 off))) as [H|H].
  - symmetry. apply firstn_all2. lia.
  - destruct ties; reflexivity.
Qed.

(* WITH TIES adds exactly the following rows whose sort keys are equivalent to the last kept row's *)
Fixpoint take_while {B} (f : B -> bool) (l : list B) : list B :=
  match l with x :: l' => if f x then x :: take_while f l' else [] | [] => [] end.

Lemma ties_extend_spec bottom rest lim :
  ties_extend bottom rest lim = (lim + length (take_while (svs_equiv bottom) rest))%nat.
Proof.
  revert lim. induction rest as [|s rest IH]; intros lim; simpl; [lia|].
  destruct (svs_equiv bottom s); simpl; [rewrite IH; lia | lia].
Qed.

Theorem limit_with_ties_spec {A} n off svs (l : list A) bottom :
  0 < n -> n < Z.of_nat (length l) ->
  nth_error svs (Z.to_nat n - 1) = Some bottom ->
  limit_rows (LimRows n) true off (Some svs) l =
  firstn (Z.to_nat n + length (take_while (svs_equiv bottom) (skipn (Z.to_nat n) svs))) l.
Proof.
  intros Hn Hlen Hb. unfold limit_rows, limit_count.
  replace (Z.max 0 n) with n by lia.
  destruct (Z.leb_spec (Z.of_nat (length l)) n); [lia|].
  destruct (Z.eqb_spec n 0); [lia|].
  rewrite Hb. rewrite ties_extend_spec. reflexivity.
Qed.

Theorem limit_zero_with_ties {A} off svs (l : list A) : limit_rows (LimRows 0) true off (Some svs) l = [].
Proof.
  unfold limit_rows, limit_count. change (Z.max 0 0) with 0.
  destruct (Z.leb_spec (Z.of_nat (length l)) 0) as [H|H].
  - destruct l; [reflexivity | simpl in H; lia].
  - reflexivity.
Qed.

(* PERCENT: above 100 everything, below 0 nothing *)
Theorem limit_percent_bounds {A} p off sv (l : list A) :
  (PrimFloat.ltb 100 p = true -> limit_rows (LimPercent p) false off sv l = l) /\
  (PrimFloat.ltb 100 p = false -> PrimFloat.ltb p 0 = true -> limit_rows (LimPercent p) false off sv l = firstn 0 l).
Proof.
  unfold limit_rows, limit_count. split.
  - intros H. rewrite H. rewrite Z.leb_refl. reflexivity.
  - intros H1 H2. rewrite H1, H2.
    destruct (Z.leb_spec (Z.of_nat (length l)) 0) as [H|H].
    + destruct l; [reflexivity | simpl in H; lia].
    + destruct sv; reflexivity.
Qed.
