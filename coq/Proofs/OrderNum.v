(* C07: numeric key columns that mix integers and floats.  After the repair of int-float-beyond-2p53
   SortValue.Less compares an integer with a float by their exact values (compareIntegerWithFloat), so every
   numeric key - any int64, any finite float - embeds into the real numbers and the comparator is a strict
   weak order on numeric columns.  (Before the repair the integer was converted to a float first: 2^53 and
   2^53+1 both tied with the float 2^53 but not with each other.) *)
From Coq Require Import ZArith Reals Floats Lia List Bool.
From Flocq Require Import Core.Core IEEE754.BinarySingleNaN IEEE754.PrimFloat.
Require Import Csvq.Model.Base Csvq.Model.Value Csvq.Model.Key Csvq.Model.SortVal.
Require Import Csvq.Proofs.OrderSWO.
Import ListNotations.
Open Scope Z_scope.

Definition in_num (s : sortval) : Prop :=
  skey s = None /\
  (sty s = TNull \/ sty s = TInt \/ (sty s = TFloat /\ is_finite (Prim2B (sflt s)) = true)).

(* the real number a numeric key stands for *)
Definition rk (s : sortval) : R :=
  match sty s with TInt => IZR (sint s) | _ => B2R (Prim2B (sflt s)) end.
Definition num_cmp (a b : sortval) : comparison := Rcompare (rk a) (rk b).

Lemma num_cmp_ok (dom : sortval -> Prop) : cmp_ok dom num_cmp.
Proof.
  split; unfold num_cmp.
  - intros a b _ _. apply Rcompare_sym.
  - intros a b c _ _ _ E. apply Rcompare_Eq_inv in E. rewrite E. reflexivity.
  - intros a b c _ _ _ E1 E2. apply Rcompare_Lt_inv in E1. apply Rcompare_Lt_inv in E2.
    apply Rcompare_Lt. eapply Rlt_trans; eassumption.
Qed.

Lemma finite_not_nan f : is_finite (Prim2B f) = true -> is_nan f = false.
Proof.
  intros F. unfold is_nan. rewrite eqb_equiv, (Beqb_correct _ _ _ _ F F).
  rewrite Req_bool_true by reflexivity. reflexivity.
Qed.

(* float comparison of two finite floats = comparison of the reals *)
Lemma float_step fa fb : is_finite (Prim2B fa) = true -> is_finite (Prim2B fb) = true ->
  (if PrimFloat.eqb fa fb then TU else of_bool (PrimFloat.ltb fa fb))
  = match Rcompare (B2R (Prim2B fa)) (B2R (Prim2B fb)) with Lt => TT | Gt => TF | Eq => TU end.
Proof.
  intros Fa Fb. rewrite eqb_equiv, ltb_equiv, (Beqb_correct _ _ _ _ Fa Fb), (Bltb_correct _ _ _ _ Fa Fb).
  destruct (Rcompare_spec (B2R (Prim2B fa)) (B2R (Prim2B fb))) as [L|E|G].
  - rewrite Req_bool_false by (apply Rlt_not_eq; exact L). rewrite Rlt_bool_true by exact L. reflexivity.
  - rewrite Req_bool_true by exact E. reflexivity.
  - rewrite Req_bool_false by (apply Rgt_not_eq; exact G). rewrite Rlt_bool_false by (apply Rlt_le; exact G). reflexivity.
Qed.

(* the exact comparison of an integer with a finite float is the comparison of the real numbers *)
Lemma cmp_int_float_correct i f : is_finite (Prim2B f) = true ->
  cmp_int_float i f = Rcompare (IZR i) (B2R (Prim2B f)).
Proof.
  intros F. unfold cmp_int_float. rewrite <- B2SF_Prim2B.
  destruct (Prim2B f) as [s|s| |s m e Hb]; try discriminate F; cbn [B2SF B2R].
  - rewrite <- (Rcompare_IZR i 0). reflexivity.
  - unfold F2R. cbn [Fnum Fexp].
    replace (cond_Zopp s (Z.pos m)) with (if s then Z.neg m else Z.pos m) by (destruct s; reflexivity).
    set (mz := if s then Z.neg m else Z.pos m).
    destruct (Z.leb_spec 0 e) as [He|He].
    + rewrite <- IZR_Zpower by exact He. rewrite <- mult_IZR. symmetry. apply Rcompare_IZR.
    + assert (P : (0 < bpow radix2 (- e))%R) by apply bpow_gt_0.
      rewrite <- (Rcompare_mult_r (bpow radix2 (- e)) _ _ P).
      rewrite Rmult_assoc, <- bpow_plus. replace (e + - e) with 0 by lia. cbn [bpow]. rewrite Rmult_1_r.
      rewrite <- IZR_Zpower by lia. rewrite <- mult_IZR. symmetry. apply Rcompare_IZR.
Qed.

Lemma num_step a b : in_num a -> in_num b -> is_tnull a = false -> is_tnull b = false ->
  sv_less1 a b = match num_cmp a b with Lt => TT | Gt => TF | Eq => TU end.
Proof.
  intros [Ka Ha] [Kb Hb] Na Nb.
  unfold sv_less1, is_kstr, num_cmp, rk. rewrite Ka, Kb. cbn [andb].
  destruct Ha as [Ha|[Ta|(Ta & Fa)]]; [unfold is_tnull in Na; rewrite Ha in Na; discriminate| |];
  destruct Hb as [Hb|[Tb|(Tb & Fb)]]; try (unfold is_tnull in Nb; rewrite Hb in Nb; discriminate);
    rewrite Ta, Tb.
  - rewrite Rcompare_IZR. apply zcmp_step.
  - rewrite (finite_not_nan _ Fb), (cmp_int_float_correct _ _ Fb). reflexivity.
  - rewrite (finite_not_nan _ Fa), (cmp_int_float_correct _ _ Fa).
    rewrite (Rcompare_sym (B2R (Prim2B (sflt a))) (IZR (sint b))). reflexivity.
  - rewrite (finite_not_nan _ Fa), (finite_not_nan _ Fb). cbn [orb]. apply float_step; assumption.
Qed.

Lemma num_null a b : in_num a -> in_num b -> is_tnull a = true \/ is_tnull b = true -> sv_less1 a b = TU.
Proof.
  intros [Ka Ha] [Kb Hb] N. unfold sv_less1, is_kstr, is_tnull in *. rewrite Ka, Kb. cbn [andb].
  destruct N as [N|N].
  - destruct (sty a) eqn:Ta; try discriminate. destruct (sty b); reflexivity.
  - destruct (sty b) eqn:Tb; try discriminate. destruct (sty a); reflexivity.
Qed.

(* numeric columns: any integers, finite floats, NULLs *)
Definition KCNum : kclass := mkKC in_num num_cmp (num_cmp_ok _) num_step num_null.

(* ---- why the integer must not be converted to a float first ------------------------------------------- *)
(* the comparator of the shipped code on an integer and a float: through float64(integer) *)
Definition shipped_less_int_float (i : Z) (f : PrimFloat.float) : tern :=
  if PrimFloat.eqb (z2f i) f then TU else of_bool (PrimFloat.ltb (z2f i) f).

(* with it 2^53 and 2^53+1 both tie with the float 2^53 although 2^53 < 2^53+1 *)
Lemma shipped_ties_not_transitive :
  shipped_less_int_float 9007199254740993 (z2f 9007199254740992) = TU /\
  shipped_less_int_float 9007199254740992 (z2f 9007199254740992) = TU /\
  (9007199254740992 <? 9007199254740993) = true.
Proof. vm_compute. repeat split; reflexivity. Qed.

(* the exact comparison separates them *)
Lemma exact_separates :
  cmp_int_float 9007199254740993 (z2f 9007199254740992) = Gt /\
  cmp_int_float 9007199254740992 (z2f 9007199254740992) = Eq /\
  cmp_int_float 3 1.5%float = Gt /\ cmp_int_float (-2) (-1.5)%float = Lt /\
  cmp_int_float 9223372036854775807 (z2f 9223372036854775807) = Lt.
Proof. vm_compute. repeat split; reflexivity. Qed.
