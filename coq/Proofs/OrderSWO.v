(* SortValues.Less is a strict weak order on comparable key columns: all-integer, all-datetime, all
   (non-numeric) text and (Proofs/OrderNum.v) numeric columns mixing integers up to 2^53 with finite floats, with NULLs anywhere, for every direction and NULL position and any
   number of keys.  This discharges the hypotheses of C07_order_by_has_no_inversion for such keys. *)
From Coq Require Import ZArith NArith List Bool Lia Floats Sorted.
Require Import Csvq.Model.Base Csvq.Model.Value Csvq.Model.Key Csvq.Model.SortVal.
Require Import Csvq.Proofs.FloatFacts Csvq.Proofs.Key Csvq.Proofs.Order.
Import ListNotations.
Open Scope Z_scope.

(* ---- three-way comparisons ---------------------------------------------------------------------- *)
Record cmp_ok {A} (dom : A -> Prop) (cmp : A -> A -> comparison) : Prop := {
  c_anti : forall a b, dom a -> dom b -> cmp b a = CompOpp (cmp a b);
  c_eq_l : forall a b c, dom a -> dom b -> dom c -> cmp a b = Eq -> cmp a c = cmp b c;
  c_lt_trans : forall a b c, dom a -> dom b -> dom c -> cmp a b = Lt -> cmp b c = Lt -> cmp a c = Lt
}.

Lemma cmp_refl {A} dom (cmp : A -> A -> comparison) : cmp_ok dom cmp -> forall a, dom a -> cmp a a = Eq.
Proof. intros H a Ha. pose proof (c_anti dom cmp H a a Ha Ha) as E. destruct (cmp a a); simpl in E; congruence. Qed.

Lemma cmp_eq_r {A} dom (cmp : A -> A -> comparison) : cmp_ok dom cmp ->
  forall a b c, dom a -> dom b -> dom c -> cmp b c = Eq -> cmp a b = cmp a c.
Proof.
  intros H a b c Ha Hb Hc E.
  pose proof (c_eq_l dom cmp H b c a Hb Hc Ha E) as E2.
  rewrite (c_anti dom cmp H a b Ha Hb) in E2. rewrite (c_anti dom cmp H a c Ha Hc) in E2.
  destruct (cmp a b), (cmp a c); simpl in E2; congruence.
Qed.

Lemma cmp_gt_trans {A} dom (cmp : A -> A -> comparison) : cmp_ok dom cmp ->
  forall a b c, dom a -> dom b -> dom c -> cmp a b = Gt -> cmp b c = Gt -> cmp a c = Gt.
Proof.
  intros H a b c Ha Hb Hc E1 E2.
  assert (L1 : cmp b a = Lt) by (rewrite (c_anti dom cmp H a b Ha Hb), E1; reflexivity).
  assert (L2 : cmp c b = Lt) by (rewrite (c_anti dom cmp H b c Hb Hc), E2; reflexivity).
  pose proof (c_lt_trans dom cmp H c b a Hc Hb Ha L2 L1) as L3.
  rewrite (c_anti dom cmp H c a Hc Ha), L3. reflexivity.
Qed.

(* "not greater" is transitive *)
Lemma cmp_le_trans {A} dom (cmp : A -> A -> comparison) : cmp_ok dom cmp ->
  forall a b c, dom a -> dom b -> dom c -> cmp a b <> Gt -> cmp b c <> Gt -> cmp a c <> Gt.
Proof.
  intros H a b c Ha Hb Hc N1 N2.
  destruct (cmp a b) eqn:E1; [| |congruence].
  - rewrite (c_eq_l dom cmp H a b c Ha Hb Hc E1). exact N2.
  - destruct (cmp b c) eqn:E2; [| |congruence].
    + rewrite <- (cmp_eq_r dom cmp H a b c Ha Hb Hc E2). rewrite E1. discriminate.
    + rewrite (c_lt_trans dom cmp H a b c Ha Hb Hc E1 E2). discriminate.
Qed.

(* reversing a comparison (DESC) keeps it well-behaved *)
Lemma cmp_ok_opp {A} dom (cmp : A -> A -> comparison) : cmp_ok dom cmp -> cmp_ok dom (fun a b => CompOpp (cmp a b)).
Proof.
  intros H. split.
  - intros a b Ha Hb. rewrite (c_anti dom cmp H a b Ha Hb). reflexivity.
  - intros a b c Ha Hb Hc E. f_equal. apply (c_eq_l dom cmp H a b c Ha Hb Hc).
    destruct (cmp a b); simpl in E; congruence.
  - intros a b c Ha Hb Hc E1 E2.
    assert (G1 : cmp a b = Gt) by (destruct (cmp a b); simpl in E1; congruence).
    assert (G2 : cmp b c = Gt) by (destruct (cmp b c); simpl in E2; congruence).
    rewrite (cmp_gt_trans dom cmp H a b c Ha Hb Hc G1 G2). reflexivity.
Qed.

(* ---- base orders ---------------------------------------------------------------------------------- *)
Lemma Zcompare_ok {A} (f : A -> Z) : cmp_ok (fun _ => True) (fun a b => Z.compare (f a) (f b)).
Proof.
  split.
  - intros a b _ _. apply Z.compare_antisym.
  - intros a b c _ _ _ E. apply Z.compare_eq in E. rewrite E. reflexivity.
  - intros a b c _ _ _ E1 E2. rewrite Z.compare_lt_iff in *. lia.
Qed.

Lemma str_cmp_eq : forall a b, str_cmp a b = Eq -> a = b.
Proof.
  induction a as [|x a IH]; destruct b as [|y b]; simpl; intros H; try discriminate; [reflexivity|].
  destruct (N.compare_spec x y) as [E|L|G]; try discriminate. subst. f_equal. apply IH. exact H.
Qed.

Lemma str_cmp_lt_trans : forall a b c, str_cmp a b = Lt -> str_cmp b c = Lt -> str_cmp a c = Lt.
Proof.
  induction a as [|x a IH]; destruct b as [|y b]; destruct c as [|z c]; simpl; intros H1 H2; try discriminate; try reflexivity.
  destruct (N.compare_spec x y) as [E1|L1|G1]; try discriminate;
  destruct (N.compare_spec y z) as [E2|L2|G2]; try discriminate; subst.
  - rewrite N.compare_refl. apply (IH b c); assumption.
  - apply N.compare_lt_iff in L2. rewrite L2. reflexivity.
  - apply N.compare_lt_iff in L1. rewrite L1. reflexivity.
  - assert (L : (x < z)%N) by (eapply N.lt_trans; eassumption). apply N.compare_lt_iff in L. rewrite L. reflexivity.
Qed.

Lemma strcompare_ok {A} (f : A -> str) : cmp_ok (fun _ => True) (fun a b => str_cmp (f a) (f b)).
Proof.
  split.
  - intros a b _ _. apply str_cmp_swap.
  - intros a b c _ _ _ E. apply str_cmp_eq in E. rewrite E. reflexivity.
  - intros a b c _ _ _. apply str_cmp_lt_trans.
Qed.

(* ---- one key ---------------------------------------------------------------------------------------- *)
Lemma cmp_ok_weaken {A} (dom dom' : A -> Prop) cmp : (forall a, dom' a -> dom a) -> cmp_ok dom cmp -> cmp_ok dom' cmp.
Proof.
  intros W H. split.
  - intros a b Ha Hb. apply (c_anti dom cmp H); auto.
  - intros a b c Ha Hb Hc. apply (c_eq_l dom cmp H); auto.
  - intros a b c Ha Hb Hc. apply (c_lt_trans dom cmp H); auto.
Qed.

(* a class of mutually comparable sort values: which values a key column of the class may hold (NULL
   always among them), the three-way order of its non-NULL members, and the fact that SortValue.Less
   (sv_less1) decides exactly that order and cannot decide when a NULL is involved *)
Record kclass := mkKC {
  in_class : sortval -> Prop;
  base_cmp : sortval -> sortval -> comparison;
  kc_ok : cmp_ok (fun s => in_class s /\ is_tnull s = false) base_cmp;
  kc_step : forall a b, in_class a -> in_class b -> is_tnull a = false -> is_tnull b = false ->
    sv_less1 a b = match base_cmp a b with Lt => TT | Gt => TF | Eq => TU end;
  kc_null : forall a b, in_class a -> in_class b -> is_tnull a = true \/ is_tnull b = true -> sv_less1 a b = TU
}.

(* NULL or of the given type; not under --strict-equal *)
Definition typed (t : svty) (s : sortval) : Prop := skey s = None /\ (sty s = TNull \/ sty s = t).

Lemma typed_null_undecided t a b : typed t a -> typed t b -> is_tnull a = true \/ is_tnull b = true -> sv_less1 a b = TU.
Proof.
  intros [Ka Ha] [Kb Hb] N. unfold sv_less1, is_tnull, is_kstr in *. rewrite Ka, Kb. simpl.
  destruct Ha as [Ha|Ha], Hb as [Hb|Hb]; rewrite Ha, Hb in *; destruct t; simpl in *; try reflexivity;
    destruct N; discriminate.
Qed.

Lemma str_eqb_cmp a b : str_eqb a b = match str_cmp a b with Eq => true | _ => false end.
Proof.
  revert b. induction a as [|x a IH]; destruct b as [|y b]; simpl; try reflexivity.
  destruct (N.compare_spec x y) as [E|L|G].
  - subst. rewrite N.eqb_refl. apply IH.
  - apply N.lt_neq in L. apply N.eqb_neq in L. rewrite L. reflexivity.
  - apply N.lt_neq in G. apply N.neq_sym in G. apply N.eqb_neq in G. rewrite G. reflexivity.
Qed.

Lemma zcmp_step x y : (if x =? y then TU else of_bool (x <? y)) = match Z.compare x y with Lt => TT | Gt => TF | Eq => TU end.
Proof.
  destruct (Z.compare_spec x y) as [E|L|G].
  - rewrite E, Z.eqb_refl. reflexivity.
  - destruct (Z.eqb_spec x y); [lia|]. destruct (Z.ltb_spec x y); [reflexivity|lia].
  - destruct (Z.eqb_spec x y); [lia|]. destruct (Z.ltb_spec x y); [lia|reflexivity].
Qed.

Lemma typed_nonnull t s : typed t s -> is_tnull s = false -> skey s = None /\ sty s = t.
Proof. intros [K [H|H]] N; [unfold is_tnull in N; rewrite H in N; discriminate|]. split; assumption. Qed.

(* all-integer columns *)
Lemma int_step a b : typed TInt a -> typed TInt b -> is_tnull a = false -> is_tnull b = false ->
  sv_less1 a b = match Z.compare (sint a) (sint b) with Lt => TT | Gt => TF | Eq => TU end.
Proof.
  intros Ha Hb Na Nb. destruct (typed_nonnull _ _ Ha Na) as [Ka Ta], (typed_nonnull _ _ Hb Nb) as [Kb Tb].
  unfold sv_less1, is_kstr. rewrite Ka, Kb, Ta, Tb. simpl. apply zcmp_step.
Qed.
Definition KCInt : kclass :=
  mkKC (typed TInt) (fun a b => Z.compare (sint a) (sint b))
       (cmp_ok_weaken (fun _ => True) _ _ (fun _ _ => I) (Zcompare_ok sint)) int_step (typed_null_undecided TInt).

(* all-datetime columns *)
Lemma dt_step a b : typed TDt a -> typed TDt b -> is_tnull a = false -> is_tnull b = false ->
  sv_less1 a b = match Z.compare (sdt a) (sdt b) with Lt => TT | Gt => TF | Eq => TU end.
Proof.
  intros Ha Hb Na Nb. destruct (typed_nonnull _ _ Ha Na) as [Ka Ta], (typed_nonnull _ _ Hb Nb) as [Kb Tb].
  unfold sv_less1, is_kstr. rewrite Ka, Kb, Ta, Tb. simpl. apply zcmp_step.
Qed.
Definition KCDt : kclass :=
  mkKC (typed TDt) (fun a b => Z.compare (sdt a) (sdt b))
       (cmp_ok_weaken (fun _ => True) _ _ (fun _ _ => I) (Zcompare_ok sdt)) dt_step (typed_null_undecided TDt).

(* all-text columns (text that is neither numeric, datetime-like nor boolean-like) *)
Lemma str_step a b : typed TStr a -> typed TStr b -> is_tnull a = false -> is_tnull b = false ->
  sv_less1 a b = match str_cmp (stxt a) (stxt b) with Lt => TT | Gt => TF | Eq => TU end.
Proof.
  intros Ha Hb Na Nb. destruct (typed_nonnull _ _ Ha Na) as [Ka Ta], (typed_nonnull _ _ Hb Nb) as [Kb Tb].
  unfold sv_less1, is_kstr. rewrite Ka, Kb, Ta, Tb. simpl. rewrite str_eqb_cmp. unfold str_ltb.
  destruct (str_cmp (stxt a) (stxt b)); reflexivity.
Qed.
Definition KCStr : kclass :=
  mkKC (typed TStr) (fun a b => str_cmp (stxt a) (stxt b))
       (cmp_ok_weaken (fun _ => True) _ _ (fun _ _ => I) (strcompare_ok stxt)) str_step (typed_null_undecided TStr).

(* the three-way reading of one ORDER BY key: NULLs first or last, then the base order in the key's
   direction *)
Definition key_cmp (c : kclass) (dn : dir * nullpos) (a b : sortval) : comparison :=
  match is_tnull a, is_tnull b with
  | true, true => Eq
  | true, false => match snd dn with NFirst => Lt | NLast => Gt end
  | false, true => match snd dn with NFirst => Gt | NLast => Lt end
  | false, false => match fst dn with Asc => base_cmp c a b | Desc => CompOpp (base_cmp c a b) end
  end.

Lemma key_cmp_ok c dn : cmp_ok (in_class c) (key_cmp c dn).
Proof.
  assert (B : cmp_ok (fun s => in_class c s /\ is_tnull s = false)
                     (fun a b => match fst dn with Asc => base_cmp c a b | Desc => CompOpp (base_cmp c a b) end)).
  { destruct (fst dn); [apply kc_ok | apply cmp_ok_opp; apply kc_ok]. }
  split.
  - intros a b Ha Hb. unfold key_cmp. destruct (is_tnull a) eqn:Na, (is_tnull b) eqn:Nb, (snd dn); try reflexivity;
      apply (c_anti _ _ B a b (conj Ha Na) (conj Hb Nb)).
  - intros a b x Ha Hb Hx. unfold key_cmp.
    destruct (is_tnull a) eqn:Na, (is_tnull b) eqn:Nb, (is_tnull x) eqn:Nx, (snd dn); intros E; try reflexivity; try discriminate;
      apply (c_eq_l _ _ B a b x (conj Ha Na) (conj Hb Nb) (conj Hx Nx) E).
  - intros a b x Ha Hb Hx. unfold key_cmp.
    destruct (is_tnull a) eqn:Na, (is_tnull b) eqn:Nb, (is_tnull x) eqn:Nx, (snd dn); intros E1 E2; try reflexivity; try discriminate;
      apply (c_lt_trans _ _ B a b x (conj Ha Na) (conj Hb Nb) (conj Hx Nx) E1 E2).
Qed.

(* the code's per-key decision (sv_less1 + the NULL position rules of SortValues.Less) is exactly the
   three-way comparison *)
Lemma less_step_is_key_cmp c dn a b (k : bool) : in_class c a -> in_class c b ->
  match sv_less1 a b with
  | TT => match fst dn with Asc => true | Desc => false end
  | TF => match fst dn with Asc => false | Desc => true end
  | TU => if is_tnull a && negb (is_tnull b) then (match snd dn with NFirst => true | NLast => false end)
          else if negb (is_tnull a) && is_tnull b then (match snd dn with NFirst => false | NLast => true end)
          else k
  end = match key_cmp c dn a b with Lt => true | Gt => false | Eq => k end.
Proof.
  intros Ha Hb. unfold key_cmp.
  destruct (is_tnull a) eqn:Na, (is_tnull b) eqn:Nb.
  - rewrite (kc_null c a b Ha Hb (or_introl Na)). reflexivity.
  - rewrite (kc_null c a b Ha Hb (or_introl Na)). simpl. destruct (snd dn); reflexivity.
  - rewrite (kc_null c a b Ha Hb (or_intror Nb)). simpl. destruct (snd dn); reflexivity.
  - rewrite (kc_step c a b Ha Hb Na Nb). destruct (base_cmp c a b), (fst dn); reflexivity.
Qed.

(* ---- key tuples -------------------------------------------------------------------------------------- *)
Fixpoint lex_cmp (cs : list kclass) (ds : list (dir * nullpos)) (a b : list sortval) : comparison :=
  match a, b, ds, cs with
  | x :: a', y :: b', dn :: ds', c :: cs' =>
      match key_cmp c dn x y with Eq => lex_cmp cs' ds' a' b' | r => r end
  | _, _, _, _ => Eq
  end.

Fixpoint tuple_in (cs : list kclass) (a : list sortval) : Prop :=
  match cs, a with
  | [], [] => True
  | c :: cs', x :: a' => in_class c x /\ tuple_in cs' a'
  | _, _ => False
  end.

Lemma svs_less_is_lex : forall cs ds a b, tuple_in cs a -> tuple_in cs b -> length ds = length cs ->
  svs_less a b ds = match lex_cmp cs ds a b with Lt => true | _ => false end.
Proof.
  induction cs as [|c cs IH]; intros ds a b Ha Hb Hl.
  - destruct a, b; simpl in *; try contradiction. destruct ds; reflexivity.
  - destruct a as [|x a], b as [|y b]; simpl in Ha, Hb; try contradiction.
    destruct ds as [|dn ds]; [discriminate|]. destruct Ha as [Hx Ha], Hb as [Hy Hb].
    simpl in Hl. injection Hl as Hl.
    cbn [svs_less lex_cmp]. destruct dn as [d np].
    pose proof (less_step_is_key_cmp c (d, np) x y (svs_less a b ds) Hx Hy) as S. cbn [fst snd] in S.
    rewrite S. rewrite (IH ds a b Ha Hb Hl).
    destruct (key_cmp c (d, np) x y); reflexivity.
Qed.

Lemma lex_cmp_ok : forall cs ds, length ds = length cs -> cmp_ok (tuple_in cs) (lex_cmp cs ds).
Proof.
  induction cs as [|c cs IH]; intros ds Hl.
  - assert (E : forall a b, lex_cmp [] ds a b = Eq) by (intros a b; destruct a, b, ds; reflexivity).
    split; intros; rewrite ?E in *; try reflexivity; try discriminate.
  - destruct ds as [|dn ds]; [discriminate|]. simpl in Hl. injection Hl as Hl.
    specialize (IH ds Hl). pose proof (key_cmp_ok c dn) as K.
    split.
    + intros [|x a] [|y b] Ha Hb; simpl in Ha, Hb; try contradiction. destruct Ha as [Hx Ha], Hb as [Hy Hb].
      cbn [lex_cmp]. rewrite (c_anti _ _ K x y Hx Hy).
      destruct (key_cmp c dn x y); simpl; try reflexivity. apply (c_anti _ _ IH a b Ha Hb).
    + intros [|x a] [|y b] [|z e] Ha Hb He; simpl in Ha, Hb, He; try contradiction.
      destruct Ha as [Hx Ha], Hb as [Hy Hb], He as [Hz He]. cbn [lex_cmp]. intros E.
      destruct (key_cmp c dn x y) eqn:Kxy; try discriminate.
      rewrite (c_eq_l _ _ K x y z Hx Hy Hz Kxy).
      destruct (key_cmp c dn y z); try reflexivity. apply (c_eq_l _ _ IH a b e Ha Hb He E).
    + intros [|x a] [|y b] [|z e] Ha Hb He; simpl in Ha, Hb, He; try contradiction.
      destruct Ha as [Hx Ha], Hb as [Hy Hb], He as [Hz He]. cbn [lex_cmp]. intros E1 E2.
      destruct (key_cmp c dn x y) eqn:Kxy; try discriminate.
      * rewrite (c_eq_l _ _ K x y z Hx Hy Hz Kxy).
        destruct (key_cmp c dn y z) eqn:Kyz; try discriminate; try reflexivity.
        apply (c_lt_trans _ _ IH a b e Ha Hb He E1 E2).
      * destruct (key_cmp c dn y z) eqn:Kyz; try discriminate.
        -- rewrite <- (cmp_eq_r _ _ K x y z Hx Hy Hz Kyz). rewrite Kxy. reflexivity.
        -- rewrite (c_lt_trans _ _ K x y z Hx Hy Hz Kxy Kyz). reflexivity.
Qed.

(* ---- the comparator is a strict weak order on comparable keys -------------------------------------- *)
Theorem svs_less_asym cs ds a b : length ds = length cs -> tuple_in cs a -> tuple_in cs b ->
  svs_less a b ds = true -> svs_less b a ds = false.
Proof.
  intros Hl Ha Hb. rewrite (svs_less_is_lex cs ds a b Ha Hb Hl), (svs_less_is_lex cs ds b a Hb Ha Hl).
  rewrite (c_anti _ _ (lex_cmp_ok cs ds Hl) a b Ha Hb). destruct (lex_cmp cs ds a b); simpl; congruence.
Qed.

Theorem svs_less_negtrans cs ds x y z : length ds = length cs -> tuple_in cs x -> tuple_in cs y -> tuple_in cs z ->
  svs_less y x ds = false -> svs_less z y ds = false -> svs_less z x ds = false.
Proof.
  intros Hl Hx Hy Hz.
  rewrite (svs_less_is_lex cs ds y x Hy Hx Hl), (svs_less_is_lex cs ds z y Hz Hy Hl), (svs_less_is_lex cs ds z x Hz Hx Hl).
  pose proof (lex_cmp_ok cs ds Hl) as L.
  intros N1 N2.
  assert (G1 : lex_cmp cs ds x y <> Gt).
  { rewrite (c_anti _ _ L y x Hy Hx). destruct (lex_cmp cs ds y x); simpl; congruence. }
  assert (G2 : lex_cmp cs ds y z <> Gt).
  { rewrite (c_anti _ _ L z y Hz Hy). destruct (lex_cmp cs ds z y); simpl; congruence. }
  pose proof (cmp_le_trans _ _ L x y z Hx Hy Hz G1 G2) as G3.
  rewrite (c_anti _ _ L x z Hx Hz). destruct (lex_cmp cs ds x z); simpl; congruence.
Qed.

(* ORDER BY over comparable key columns leaves no inversion: no row precedes another that must sort
   before it -- for any number of rows and keys, every direction and NULL position *)
Theorem order_by_sorted_on_comparable_keys {A} cs ds (l : list (list sortval * A)) :
  length ds = length cs -> Forall (fun ka => tuple_in cs (fst ka)) l ->
  StronglySorted (noinv ds) (isort ds l).
Proof.
  intros Hl Hd.
  apply (isort_sorted ds (fun ka => tuple_in cs (fst ka))).
  - intros x y Hx Hy. unfold less. apply (svs_less_asym cs ds); assumption.
  - intros x y z Hx Hy Hz. unfold less. apply (svs_less_negtrans cs ds); assumption.
  - exact Hd.
Qed.
