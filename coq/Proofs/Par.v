(* Proofs/Par.v -- lemmas about the work-splitting arithmetic and the merge patterns of Model/Par.v
   (stated for every record count, every number of goroutines and every schedule). *)
From Coq Require Import ZArith List Bool Lia Permutation Arith Sorted.
Require Import Csvq.Model.Par.
Import ListNotations.

(* ================================================================================================ *)
(* record_range                                                                                      *)
(* ================================================================================================ *)
Section Ranges.
Open Scope nat_scope.

Lemma record_range_nat : forall len n i : nat, 1 <= n -> i < n ->
  let c := len / n in
  record_range (Z.of_nat len) (Z.of_nat n) (Z.of_nat i) =
    if len <=? i * c then (0%Z, 0%Z)
    else if i =? n - 1 then (Z.of_nat (i * c), Z.of_nat len)
    else (Z.of_nat (i * c), Z.of_nat ((i + 1) * c)).
Proof.
  intros len n i Hn Hi c. unfold record_range. cbv zeta.
  rewrite <- !Nat2Z.inj_div. fold c.
  rewrite <- !Nat2Z.inj_mul.
  destruct (len <=? i * c) eqn:E1.
  - apply Nat.leb_le in E1.
    replace (Z.of_nat len <=? Z.of_nat (i * c))%Z with true; [reflexivity|].
    symmetry. apply Z.leb_le. lia.
  - apply Nat.leb_gt in E1.
    replace (Z.of_nat len <=? Z.of_nat (i * c))%Z with false
      by (symmetry; apply Z.leb_gt; lia).
    destruct (i =? n - 1) eqn:E2.
    + apply Nat.eqb_eq in E2.
      replace (Z.of_nat i =? Z.of_nat n - 1)%Z with true by (symmetry; apply Z.eqb_eq; lia).
      reflexivity.
    + apply Nat.eqb_neq in E2.
      replace (Z.of_nat i =? Z.of_nat n - 1)%Z with false by (symmetry; apply Z.eqb_neq; lia).
      f_equal. lia.
Qed.

Lemma div_bounds : forall len n, 1 <= n -> (len / n) * n <= len /\ len < (len / n) * n + n.
Proof.
  intros len n Hn.
  pose proof (Nat.div_mod len n ltac:(lia)) as Hdm.
  pose proof (Nat.mod_upper_bound len n ltac:(lia)) as Hm.
  nia.
Qed.

(* fewer records than goroutines: calc = 0 and only the last goroutine gets [0,len) *)
Lemma range_small : forall len n i, 1 <= n -> len < n -> i < n ->
  range len n i = if i =? n - 1 then seq 0 len else [].
Proof.
  intros len n i Hn Hlt Hi. unfold range.
  rewrite (record_range_nat len n i Hn Hi). cbv zeta.
  rewrite (Nat.div_small len n Hlt). rewrite Nat.mul_0_r.
  destruct (len <=? 0) eqn:E1.
  - apply Nat.leb_le in E1. assert (len = 0) by lia. subst len. cbn.
    destruct (i =? n - 1); reflexivity.
  - destruct (i =? n - 1) eqn:E2; cbn [fst snd].
    + change (Z.of_nat 0) with 0%Z. rewrite Z.sub_0_r, Nat2Z.id. reflexivity.
    + rewrite Nat.mul_0_r. reflexivity.
Qed.

Lemma range_big : forall len n i, 1 <= n -> n <= len -> i < n ->
  let c := len / n in
  range len n i = if i =? n - 1 then seq (i * c) (len - i * c) else seq (i * c) c.
Proof.
  intros len n i Hn Hle Hi c. unfold range.
  rewrite (record_range_nat len n i Hn Hi). cbv zeta. fold c.
  destruct (div_bounds len n Hn) as [Hlo Hhi]. fold c in Hlo, Hhi.
  assert (Hc : 1 <= c) by (unfold c; apply Nat.div_str_pos; lia).
  assert (Hic : i * c < len) by nia.
  replace (len <=? i * c) with false by (symmetry; apply Nat.leb_gt; exact Hic).
  destruct (i =? n - 1) eqn:E2; cbn [fst snd]; rewrite Nat2Z.id.
  - f_equal. lia.
  - f_equal. lia.
Qed.

Lemma concat_nils : forall (A : Type) (l : list (list A)), (forall x, In x l -> x = []) -> concat l = [].
Proof.
  induction l as [|h t IH]; intros H; [reflexivity|].
  cbn. rewrite (H h (or_introl eq_refl)). apply IH. intros x Hx. apply H. right. exact Hx.
Qed.

Lemma concat_blocks : forall c m, concat (map (fun i => seq (i * c) c) (seq 0 m)) = seq 0 (m * c).
Proof.
  intros c m. induction m as [|m IH]; [reflexivity|].
  rewrite seq_S, map_app, concat_app, IH. cbn [map concat Nat.add]. rewrite app_nil_r.
  replace (S m * c) with (m * c + c) by lia. rewrite seq_app. reflexivity.
Qed.

(* the ranges of the n goroutines, taken in goroutine order, are exactly 0, 1, ..., len-1 *)
Lemma ranges_partition : forall len n, 1 <= n -> concat (map (range len n) (seq 0 n)) = seq 0 len.
Proof.
  intros len n Hn. destruct n as [|m]; [lia|].
  rewrite seq_S, map_app, concat_app. cbn [map concat Nat.add]. rewrite app_nil_r.
  destruct (Nat.lt_ge_cases len (S m)) as [Hlt|Hge].
  - (* calc = 0 *)
    rewrite concat_nils.
    + rewrite (range_small len (S m) m) by lia.
      replace (m =? S m - 1) with true by (symmetry; apply Nat.eqb_eq; lia). reflexivity.
    + intros x Hx. apply in_map_iff in Hx. destruct Hx as [i [Hi Hin]]. apply in_seq in Hin.
      subst x. rewrite (range_small len (S m) i) by lia.
      replace (i =? S m - 1) with false by (symmetry; apply Nat.eqb_neq; lia). reflexivity.
  - set (c := len / S m).
    rewrite (map_ext_in _ (fun i => seq (i * c) c)).
    + rewrite concat_blocks.
      rewrite (range_big len (S m) m) by lia. fold c.
      replace (m =? S m - 1) with true by (symmetry; apply Nat.eqb_eq; lia).
      destruct (div_bounds len (S m) ltac:(lia)) as [Hlo _]. fold c in Hlo.
      replace len with (m * c + (len - m * c)) at 2 by nia.
      rewrite seq_app. reflexivity.
    + intros i Hin. apply in_seq in Hin.
      rewrite (range_big len (S m) i) by lia. fold c.
      replace (i =? S m - 1) with false by (symmetry; apply Nat.eqb_neq; lia). reflexivity.
Qed.

(* consequences stated separately: contiguous, ordered, pairwise disjoint, nothing lost *)
Lemma range_is_seq : forall len n i, exists s l, range len n i = seq s l.
Proof. intros. unfold range. eauto. Qed.

Lemma in_concat_map : forall (A B : Type) (f : A -> list B) l y,
  In y (concat (map f l)) <-> exists x, In x l /\ In y (f x).
Proof.
  intros A B f l y. rewrite in_concat. split.
  - intros [z [Hz Hy]]. apply in_map_iff in Hz. destruct Hz as [x [Hx Hin]]. subst z. eauto.
  - intros [x [Hx Hy]]. exists (f x). split; [apply in_map; exact Hx|exact Hy].
Qed.

Lemma ranges_cover : forall len n k, 1 <= n -> k < len -> exists i, i < n /\ In k (range len n i).
Proof.
  intros len n k Hn Hk.
  assert (H : In k (concat (map (range len n) (seq 0 n)))).
  { rewrite ranges_partition by exact Hn. apply in_seq. lia. }
  apply in_concat_map in H. destruct H as [i [Hi Hin]]. apply in_seq in Hi. exists i. split; [lia|exact Hin].
Qed.

Lemma ranges_within : forall len n i k, 1 <= n -> i < n -> In k (range len n i) -> k < len.
Proof.
  intros len n i k Hn Hi Hin.
  assert (H : In k (concat (map (range len n) (seq 0 n)))).
  { apply in_concat_map. exists i. split; [apply in_seq; lia|exact Hin]. }
  rewrite ranges_partition in H by exact Hn. apply in_seq in H. lia.
Qed.

Lemma NoDup_concat_disjoint : forall (A : Type) (l1 l2 : list A), NoDup (l1 ++ l2) ->
  forall x, In x l1 -> In x l2 -> False.
Proof.
  intros A l1. induction l1 as [|h t IH]; intros l2 Hnd x H1 H2; [destruct H1|].
  cbn in Hnd. inversion Hnd as [|? ? Hnotin Hnd']; subst.
  destruct H1 as [->|H1].
  - apply Hnotin. apply in_or_app. right. exact H2.
  - eapply IH; eauto.
Qed.

Lemma NoDup_app_r : forall (A : Type) (l1 l2 : list A), NoDup (l1 ++ l2) -> NoDup l2.
Proof.
  intros A l1. induction l1 as [|h t IH]; intros l2 H; [exact H|].
  cbn in H. inversion H; subst. apply IH. assumption.
Qed.

Lemma NoDup_concat_pairwise : forall (A : Type) (ls : list (list A)) i j x,
  NoDup (concat ls) -> i < j -> In x (nth i ls []) -> In x (nth j ls []) -> False.
Proof.
  intros A ls. induction ls as [|h t IH]; intros i j x Hnd Hij Hi Hj.
  - destruct i; destruct Hi.
  - cbn in Hnd. destruct j as [|j]; [lia|]. destruct i as [|i].
    + cbn in Hi, Hj. eapply NoDup_concat_disjoint; [exact Hnd|exact Hi|].
      apply in_concat. exists (nth j t []). split; [|exact Hj].
      destruct (Nat.lt_ge_cases j (length t)) as [Hl|Hl]; [apply nth_In; exact Hl|].
      rewrite nth_overflow in Hj by exact Hl. destruct Hj.
    + cbn in Hi, Hj. apply NoDup_app_r in Hnd. apply (IH i j x Hnd); [lia|exact Hi|exact Hj].
Qed.

Lemma nth_map_seq : forall (A : Type) (f : nat -> A) n i d, i < n -> nth i (map f (seq 0 n)) d = f i.
Proof.
  intros A f n i d Hi. rewrite (nth_indep _ d (f 0)) by (rewrite map_length, seq_length; exact Hi).
  rewrite map_nth. rewrite seq_nth by exact Hi. reflexivity.
Qed.

Lemma ranges_disjoint : forall len n i j k, 1 <= n -> i < n -> j < n -> i <> j ->
  In k (range len n i) -> In k (range len n j) -> False.
Proof.
  intros len n i j k Hn Hi Hj Hne Hki Hkj.
  assert (Hnd : NoDup (concat (map (range len n) (seq 0 n)))).
  { rewrite ranges_partition by exact Hn. apply seq_NoDup. }
  destruct (Nat.lt_gt_cases i j) as [Hc _]. destruct (Hc Hne) as [Hlt|Hlt].
  - eapply (NoDup_concat_pairwise _ _ i j k Hnd Hlt); rewrite nth_map_seq by lia; assumption.
  - eapply (NoDup_concat_pairwise _ _ j i k Hnd Hlt); rewrite nth_map_seq by lia; assumption.
Qed.

(* every index is owned by exactly one goroutine *)
Lemma ranges_owner_unique : forall len n k, 1 <= n -> k < len ->
  exists i, i < n /\ In k (range len n i) /\ forall j, j < n -> In k (range len n j) -> j = i.
Proof.
  intros len n k Hn Hk. destruct (ranges_cover len n k Hn Hk) as [i [Hi Hin]].
  exists i. split; [exact Hi|]. split; [exact Hin|].
  intros j Hj Hjn. destruct (Nat.eq_dec j i) as [|Hne]; [assumption|].
  exfalso. eapply (ranges_disjoint len n j i k); eauto.
Qed.

(* ordered: a smaller goroutine number owns smaller indices *)
Lemma concat_sorted_blocks : forall (ls : list (list nat)) i j x y,
  StronglySorted lt (concat ls) -> i < j -> In x (nth i ls []) -> In y (nth j ls []) -> x < y.
Proof.
  induction ls as [|h t IH]; intros i j x y Hs Hij Hx Hy.
  - destruct i; destruct Hx.
  - cbn in Hs. destruct j as [|j]; [lia|]. destruct i as [|i]; cbn in Hx, Hy.
    + assert (Hy' : In y (concat t)).
      { apply in_concat. exists (nth j t []). split; [|exact Hy].
        destruct (Nat.lt_ge_cases j (length t)) as [Hl|Hl]; [apply nth_In; exact Hl|].
        rewrite nth_overflow in Hy by exact Hl. destruct Hy. }
      clear IH Hy. induction h as [|a h IHh]; [destruct Hx|].
      cbn in Hs. inversion Hs as [|? ? Hs' Hall]; subst. destruct Hx as [->|Hx].
      * rewrite Forall_forall in Hall. apply Hall. apply in_or_app. right. exact Hy'.
      * apply IHh; assumption.
    + apply (IH i j x y); try assumption; try lia.
      clear -Hs. induction h as [|a h IHh]; [exact Hs|]. cbn in Hs. inversion Hs; subst. apply IHh. assumption.
Qed.

Lemma seq_strongly_sorted : forall len s, StronglySorted lt (seq s len).
Proof.
  induction len as [|len IH]; intros s; cbn; constructor.
  - apply IH.
  - apply Forall_forall. intros x Hx. apply in_seq in Hx. lia.
Qed.

Lemma ranges_ordered : forall len n i j x y, 1 <= n -> i < j -> j < n ->
  In x (range len n i) -> In y (range len n j) -> x < y.
Proof.
  intros len n i j x y Hn Hij Hj Hx Hy.
  assert (Hs : StronglySorted lt (concat (map (range len n) (seq 0 n)))).
  { rewrite ranges_partition by exact Hn. apply seq_strongly_sorted. }
  eapply (concat_sorted_blocks _ i j x y Hs Hij); rewrite nth_map_seq by lia; assumption.
Qed.

End Ranges.

(* ================================================================================================ *)
(* AssignRoutineNumber                                                                               *)
(* ================================================================================================ *)
Section Number.
Open Scope Z_scope.

Lemma gtz_ge1 : forall i, 1 <= greater_than_zero i.
Proof. intros i. unfold greater_than_zero. destruct (i <? 1) eqn:E; [lia|apply Z.ltb_ge in E; lia]. Qed.
Lemma zmin_spec : forall a b, zmin a b = Z.min a b.
Proof. intros a b. unfold zmin. destruct (a <? b) eqn:E; [apply Z.ltb_lt in E|apply Z.ltb_ge in E]; lia. Qed.

Lemma number_bounds : forall len min cpu running, 1 <= cpu ->
  let n := fst (assign_number len min cpu running) in
  let min' := if min <? 1 then minimum_required_per_cpu_core else min in
  1 <= n <= cpu /\ n <= Z.max 1 (len / min') /\ n <= Z.max 1 (cpu - running)
  /\ snd (assign_number len min cpu running) = running + n - 1.
Proof.
  intros len min cpu running Hcpu. unfold assign_number. cbv zeta. cbn [fst snd].
  set (m := if min <? 1 then minimum_required_per_cpu_core else min).
  rewrite !zmin_spec.
  pose proof (gtz_ge1 (len / m)) as H1.
  pose proof (gtz_ge1 (Z.min cpu (greater_than_zero (len / m)) - running)) as H2.
  assert (H3 : greater_than_zero (len / m) = Z.max 1 (len / m)).
  { unfold greater_than_zero. destruct (len / m <? 1) eqn:E; [apply Z.ltb_lt in E|apply Z.ltb_ge in E]; lia. }
  assert (H4 : forall x, greater_than_zero x = Z.max 1 x).
  { intros x. unfold greater_than_zero. destruct (x <? 1) eqn:E; [apply Z.ltb_lt in E|apply Z.ltb_ge in E]; lia. }
  clear H1 H2 H3. rewrite !H4. generalize (len / m). intros q. repeat split; lia.
Qed.

(* one goroutine whenever there are fewer records than 2 * minimum, or one cpu, or the budget is used up *)
Lemma number_one : forall len min cpu running, 1 <= cpu ->
  (cpu = 1 \/ len / (if min <? 1 then minimum_required_per_cpu_core else min) <= 1 \/ cpu <= running + 1 ) ->
  fst (assign_number len min cpu running) = 1.
Proof.
  intros len min cpu running Hcpu H.
  pose proof (number_bounds len min cpu running Hcpu) as Hb. cbv zeta in Hb.
  destruct Hb as [Hb1 [Hb2 [Hb3 _]]]. lia.
Qed.

(* the shared counter stays non-negative and never exceeds cpu - 1 *)
Lemma running_invariant : forall len min cpu running, 1 <= cpu -> 0 <= running <= cpu - 1 ->
  0 <= snd (assign_number len min cpu running) <= cpu - 1.
Proof.
  intros len min cpu running Hcpu Hr.
  pose proof (number_bounds len min cpu running Hcpu) as Hb. cbv zeta in Hb.
  destruct Hb as [Hb1 [Hb2 [Hb3 Hb4]]]. rewrite Hb4. lia.
Qed.

Lemma done_all_spec : forall calls g r, 0 <= g -> g <= r -> (Z.to_nat g <= calls)%nat ->
  done_all calls g r = (0, r - g).
Proof.
  induction calls as [|c IH]; intros g r Hg Hgr Hc.
  - cbn. assert (g = 0) by lia. subst g. f_equal. lia.
  - cbn [done_all]. destruct (0 <? g) eqn:E.
    + apply Z.ltb_lt in E. unfold release.
      replace (0 <? r) with true by (symmetry; apply Z.ltb_lt; lia).
      rewrite IH by lia. f_equal. lia.
    + apply Z.ltb_ge in E. assert (g = 0) by lia. subst g.
      rewrite IH by lia. reflexivity.
Qed.

(* after all goroutines of a task manager called Done, the shared counter is back where it was *)
Lemma count_restored : forall len min cpu running, 1 <= cpu -> 0 <= running ->
  let a := assign_number len min cpu running in
  finish (fst a) (snd a) = running.
Proof.
  intros len min cpu running Hcpu Hr a.
  pose proof (number_bounds len min cpu running Hcpu) as Hb. cbv zeta in Hb. fold a in Hb.
  destruct Hb as [Hb1 [_ [_ Hb4]]]. unfold finish.
  destruct (1 <? fst a) eqn:E.
  - rewrite done_all_spec by lia. cbn. lia.
  - apply Z.ltb_ge in E. lia.
Qed.

End Number.

Open Scope nat_scope.

(* ================================================================================================ *)
(* schedules                                                                                         *)
(* ================================================================================================ *)
Lemma interleaving_perm : forall (A : Type) (ls : list (list A)) r,
  interleaving ls r -> Permutation (concat ls) r.
Proof.
  intros A ls r H. induction H as [ls Hall | ls1 x l ls2 r H IH].
  - rewrite concat_nils; [constructor|]. rewrite Forall_forall in Hall. exact Hall.
  - rewrite concat_app in *. cbn [concat] in *.
    rewrite <- app_comm_cons.
    etransitivity; [apply Permutation_sym; apply Permutation_middle|].
    constructor. exact IH.
Qed.

Lemma pop_nth_split : forall (A : Type) (ls : list (list A)) w x ls',
  pop_nth ls w = Some (x, ls') ->
  exists ls1 l ls2, ls = ls1 ++ (x :: l) :: ls2 /\ ls' = ls1 ++ l :: ls2.
Proof.
  intros A ls. induction ls as [|h t IH]; intros w x ls' H; [discriminate|].
  destruct w as [|w].
  - destruct h as [|y l]; [discriminate|]. cbn in H. inversion H; subst.
    exists [], l, t. split; reflexivity.
  - cbn in H. destruct h as [|y l0].
    + destruct (pop_nth t w) as [[x' rest']|] eqn:E; [|discriminate]. inversion H; subst.
      destruct (IH _ _ _ E) as [ls1 [l [ls2 [H1 H2]]]]. subst.
      exists ([] :: ls1), l, ls2. split; reflexivity.
    + destruct (pop_nth t w) as [[x' rest']|] eqn:E; [|discriminate]. inversion H; subst.
      destruct (IH _ _ _ E) as [ls1 [l [ls2 [H1 H2]]]]. subst.
      exists ((y :: l0) :: ls1), l, ls2. split; reflexivity.
Qed.

(* every worker-number schedule that runs to completion denotes an interleaving *)
Lemma run_schedule_sound : forall (A : Type) sched (ls : list (list A)) r,
  run_schedule ls sched = Some r -> interleaving ls r.
Proof.
  intros A sched. induction sched as [|w sched IH]; intros ls r H.
  - cbn in H. destruct (forallb _ ls) eqn:E; [|discriminate]. inversion H; subst.
    apply il_done. apply Forall_forall. intros l Hl. rewrite forallb_forall in E.
    specialize (E l Hl). destruct l; [reflexivity|discriminate].
  - cbn in H. destruct (pop_nth ls w) as [[x ls']|] eqn:E; [|discriminate].
    destruct (run_schedule ls' sched) as [r'|] eqn:E2; [|discriminate]. inversion H; subst.
    destruct (pop_nth_split _ _ _ _ _ E) as [ls1 [l [ls2 [H1 H2]]]]. subst.
    apply il_step. apply IH. exact E2.
Qed.

(* the sequential order (worker 0 completely, then worker 1, ...) is one of the schedules *)
Lemma interleaving_nil_heads : forall (A : Type) (k : nat) (ls : list (list A)) r,
  interleaving ls r -> interleaving (repeat [] k ++ ls) r.
Proof.
  intros A k ls r H. induction H as [ls Hall | ls1 x l ls2 r H IH].
  - apply il_done. apply Forall_app. split; [|exact Hall].
    apply Forall_forall. intros l Hl. apply repeat_spec in Hl. exact Hl.
  - rewrite app_assoc. apply il_step. rewrite <- app_assoc. exact IH.
Qed.

Lemma interleaving_concat : forall (A : Type) (ls : list (list A)), interleaving ls (concat ls).
Proof.
  intros A ls.
  assert (G : forall k (ls : list (list A)), interleaving (repeat [] k ++ ls) (concat ls)).
  { intros k ls0. revert k. induction ls0 as [|h t IH]; intros k.
    - cbn. apply il_done. apply Forall_app. split; [|constructor].
      apply Forall_forall. intros l Hl. apply repeat_spec in Hl. exact Hl.
    - cbn [concat]. induction h as [|x h IHh].
      + cbn [app]. replace (repeat [] k ++ [] :: t) with (repeat (@nil A) (S k) ++ t).
        * apply IH.
        * replace (S k) with (k + 1)%nat by lia. rewrite repeat_app. rewrite <- app_assoc. reflexivity.
      + cbn [app]. apply il_step. exact IHh. }
  apply (G 0%nat).
Qed.

(* ================================================================================================ *)
(* merge pattern 1: slots                                                                            *)
(* ================================================================================================ *)
Lemma set_nth_length : forall (A : Type) k (v : A) arr, length (set_nth k v arr) = length arr.
Proof. intros A k v arr. revert k. induction arr as [|h t IH]; intros [|k]; cbn; auto. Qed.

Lemma apply_writes_length : forall (A : Type) (ws : list (nat * A)) arr, length (apply_writes ws arr) = length arr.
Proof.
  intros A ws. unfold apply_writes. induction ws as [|w ws IH]; intros arr; [reflexivity|].
  cbn. rewrite IH. apply set_nth_length.
Qed.

Lemma set_nth_nth : forall (A : Type) k (v : A) arr j d,
  nth j (set_nth k v arr) d = if (Nat.eqb j k && Nat.ltb k (length arr))%bool then v else nth j arr d.
Proof.
  intros A k v arr. revert k. induction arr as [|h t IH]; intros k j d.
  - cbn [length]. replace (Nat.ltb k 0) with false by (symmetry; apply Nat.ltb_ge; lia).
    rewrite andb_false_r. destruct k; reflexivity.
  - destruct k as [|k]; destruct j as [|j]; cbn [set_nth nth length]; try reflexivity.
    rewrite IH. reflexivity.
Qed.

(* when every write stores f(index), the slice ends up holding f at every written index *)
Lemma apply_writes_nth : forall (A : Type) (f : nat -> A) (ws : list (nat * A)) arr j d,
  (forall w, In w ws -> snd w = f (fst w)) ->
  nth j (apply_writes ws arr) d =
    if (existsb (fun w => Nat.eqb (fst w) j) ws && Nat.ltb j (length arr))%bool then f j else nth j arr d.
Proof.
  intros A f ws. unfold apply_writes. induction ws as [|w ws IH]; intros arr j d Hf; [reflexivity|].
  cbn [fold_left existsb]. rewrite IH by (intros w' Hw'; apply Hf; right; exact Hw').
  rewrite set_nth_length, set_nth_nth.
  rewrite (Nat.eqb_sym j (fst w)).
  destruct (existsb (fun w0 => fst w0 =? j) ws) eqn:E1;
  destruct (fst w =? j) eqn:E2; destruct (j <? length arr) eqn:E3; cbn [orb andb]; try reflexivity.
  - apply Nat.eqb_eq in E2. rewrite E2. rewrite E3. reflexivity.
  - apply Nat.eqb_eq in E2. rewrite E2. rewrite E3. rewrite <- E2. apply Hf. left. reflexivity.
  - apply Nat.eqb_eq in E2. rewrite E2. rewrite E3. reflexivity.
Qed.

Lemma slot_writes_values : forall (A : Type) (f : nat -> A) len n ws w,
  Permutation (concat (all_slot_writes f len n)) ws -> In w ws -> snd w = f (fst w).
Proof.
  intros A f len n ws w Hp Hin. apply Permutation_sym in Hp.
  apply (Permutation_in _ Hp) in Hin. unfold all_slot_writes in Hin.
  apply in_concat_map in Hin. destruct Hin as [i [_ Hin]]. unfold slot_writes in Hin.
  apply in_map_iff in Hin. destruct Hin as [k [Hk _]]. subst w. reflexivity.
Qed.

Lemma concat_map_map : forall (A B : Type) (g : A -> B) (ls : list (list A)),
  concat (map (map g) ls) = map g (concat ls).
Proof. intros. symmetry. apply concat_map. Qed.

Lemma slot_writes_concat : forall (A : Type) (f : nat -> A) len n, (1 <= n)%nat ->
  concat (all_slot_writes f len n) = map (fun k => (k, f k)) (seq 0 len).
Proof.
  intros A f len n Hn. unfold all_slot_writes, slot_writes.
  rewrite <- (map_map (range len n) (map (fun k => (k, f k)))).
  rewrite concat_map_map. rewrite ranges_partition by exact Hn. reflexivity.
Qed.

(* Whatever the schedule, filling a pre-sized slice by index ranges gives the sequential map. *)
Lemma slots_eq_seq : forall (A : Type) (f : nat -> A) (init : list A) len n sched, (1 <= n)%nat ->
  length init = len -> interleaving (all_slot_writes f len n) sched ->
  apply_writes sched init = seq_map f len.
Proof.
  intros A f init len n sched Hn Hlen Hil.
  apply interleaving_perm in Hil.
  destruct init as [|d0 init'] eqn:Einit.
  - cbn in Hlen. subst len. unfold seq_map. cbn.
    assert (L : length (apply_writes sched (@nil A)) = 0%nat) by (rewrite apply_writes_length; reflexivity).
    destruct (apply_writes sched []); [reflexivity|discriminate].
  - rewrite <- Einit in *. clear Einit init'.
    apply (nth_ext _ _ d0 d0).
    + rewrite apply_writes_length. unfold seq_map. rewrite map_length, seq_length. exact Hlen.
    + intros j Hj. rewrite apply_writes_length in Hj.
      rewrite (apply_writes_nth A f) by (intros w Hw; eapply slot_writes_values; eauto).
      replace (Nat.ltb j (length init)) with true by (symmetry; apply Nat.ltb_lt; exact Hj).
      rewrite andb_true_r.
      assert (Hex : existsb (fun w => fst w =? j) sched = true).
      { apply existsb_exists. exists (j, f j). split; [|cbn; apply Nat.eqb_refl].
        apply (Permutation_in _ Hil). rewrite slot_writes_concat by exact Hn.
        apply in_map_iff. exists j. split; [reflexivity|]. apply in_seq. lia. }
      rewrite Hex. unfold seq_map.
      rewrite (nth_indep _ d0 (f 0%nat)) by (rewrite map_length, seq_length; lia).
      rewrite map_nth. rewrite seq_nth by lia. reflexivity.
Qed.

(* ================================================================================================ *)
(* merge pattern 2: per-worker lists in worker order                                                 *)
(* ================================================================================================ *)
Lemma flat_map_concat_map : forall (A B : Type) (g : A -> list B) (ls : list (list A)),
  concat (map (flat_map g) ls) = flat_map g (concat ls).
Proof.
  intros A B g ls. induction ls as [|h t IH]; [reflexivity|].
  cbn. rewrite IH. rewrite flat_map_app. reflexivity.
Qed.

Lemma concat_eq_seq : forall (A : Type) (g : nat -> list A) len n, (1 <= n)%nat ->
  par_concat g len n = seq_flat g len.
Proof.
  intros A g len n Hn. unfold par_concat, worker_list, seq_flat.
  rewrite <- (map_map (range len n) (flat_map g)).
  rewrite flat_map_concat_map. rewrite ranges_partition by exact Hn. reflexivity.
Qed.

(* the same with the slots of recordsList written by the workers in any order *)
Lemma concat_slots_eq_seq : forall (A : Type) (g : nat -> list A) len n sched (init : list (list A)), (1 <= n)%nat ->
  length init = n ->
  Permutation (map (fun i => (i, worker_list g len n i)) (seq 0 n)) sched ->
  concat (apply_writes sched init) = seq_flat g len.
Proof.
  intros A g len n sched init Hn Hlen Hp.
  assert (Hw : apply_writes sched init = map (worker_list g len n) (seq 0 n)).
  { apply (nth_ext _ _ [] []).
    - rewrite apply_writes_length, map_length, seq_length. exact Hlen.
    - intros j Hj. rewrite apply_writes_length in Hj.
      rewrite (apply_writes_nth _ (worker_list g len n)).
      + replace (Nat.ltb j (length init)) with true by (symmetry; apply Nat.ltb_lt; exact Hj).
        rewrite andb_true_r.
        assert (Hex : existsb (fun w => fst w =? j) sched = true).
        { apply existsb_exists. exists (j, worker_list g len n j). split; [|cbn; apply Nat.eqb_refl].
          apply (Permutation_in _ Hp). apply in_map_iff. exists j. split; [reflexivity|apply in_seq; lia]. }
        rewrite Hex. rewrite nth_map_seq by lia. reflexivity.
      + intros w Hw. apply Permutation_sym in Hp. apply (Permutation_in _ Hp) in Hw.
        apply in_map_iff in Hw. destruct Hw as [i [Hi _]]. subst w. reflexivity. }
  rewrite Hw. apply concat_eq_seq. exact Hn.
Qed.

(* filter as an instance: a worker keeps the indices whose row passes *)
Lemma flat_map_filter : forall (p : nat -> bool) l,
  flat_map (fun k => if p k then [k] else []) l = filter p l.
Proof. intros p l. induction l as [|h t IH]; [reflexivity|]. cbn. destruct (p h); cbn; rewrite IH; reflexivity. Qed.

Lemma filter_eq_seq : forall (p : nat -> bool) len n, (1 <= n)%nat ->
  par_concat (fun k => if p k then [k] else []) len n = filter p (seq 0 len).
Proof. intros p len n Hn. rewrite concat_eq_seq by exact Hn. unfold seq_flat. apply flat_map_filter. Qed.

(* ================================================================================================ *)
(* merge pattern 3: arrival order                                                                    *)
(* ================================================================================================ *)
Section Arrival.
  Context {K : Type} (keqb : K -> K -> bool).
  Hypothesis keqb_spec : forall a b, keqb a b = true <-> a = b.

  Lemma mem_In : forall k l, mem keqb k l = true <-> In k l.
  Proof.
    intros k l. unfold mem. rewrite existsb_exists. split.
    - intros [x [Hx He]]. apply keqb_spec in He. subst. exact Hx.
    - intros H. exists k. split; [exact H|]. apply keqb_spec. reflexivity.
  Qed.

  Lemma dedup_from_In : forall l seen k, In k (dedup_from keqb seen l) <-> In k l /\ ~ In k seen.
  Proof.
    induction l as [|h t IH]; intros seen k; cbn.
    - tauto.
    - destruct (mem keqb h seen) eqn:E.
      + apply mem_In in E. rewrite IH. split.
        * intros [H1 H2]. tauto.
        * intros [[->|H1] H2]; [contradiction|tauto].
      + assert (Hn : ~ In h seen) by (intros H; apply mem_In in H; congruence).
        cbn. rewrite IH. cbn. split.
        * intros [->|[H1 H2]]; [tauto|]. split; [tauto|]. intros H3. apply H2. right. exact H3.
        * intros [[->|H1] H2]; [tauto|].
          destruct (keqb h k) eqn:E2; [apply keqb_spec in E2; tauto|].
          right. split; [exact H1|]. intros [->|H3]; [|contradiction].
          assert (keqb k k = true) by (apply keqb_spec; reflexivity). congruence.
  Qed.

  Lemma dedup_In : forall l k, In k (dedup keqb l) <-> In k l.
  Proof. intros l k. unfold dedup. rewrite dedup_from_In. cbn. tauto. Qed.

  Lemma dedup_from_NoDup : forall l seen, NoDup (dedup_from keqb seen l).
  Proof.
    induction l as [|h t IH]; intros seen; cbn; [constructor|].
    destruct (mem keqb h seen); [apply IH|].
    constructor; [|apply IH]. intros H. apply dedup_from_In in H. destruct H as [_ H]. apply H. left. reflexivity.
  Qed.

  Lemma dedup_NoDup : forall l, NoDup (dedup keqb l).
  Proof. intros l. apply dedup_from_NoDup. Qed.

  (* the keys found do not depend on the schedule as a SET (and each appears once) ... *)
  Lemma arrival_keys_set : forall (key : nat -> K) len n arrivals k, (1 <= n)%nat ->
    interleaving (all_worker_keys keqb key len n) arrivals ->
    (In k (group_keys_of keqb arrivals) <-> In k (group_keys_seq keqb key len)).
  Proof.
    intros key len n arrivals k Hn Hil. apply interleaving_perm in Hil.
    unfold group_keys_of, group_keys_seq. rewrite !dedup_In.
    split.
    - intros H. apply Permutation_sym in Hil. apply (Permutation_in _ Hil) in H.
      unfold all_worker_keys in H. apply in_concat_map in H. destruct H as [i [Hi H]].
      unfold worker_keys in H. rewrite dedup_In in H. apply in_map_iff in H. destruct H as [r [Hr Hin]].
      apply in_seq in Hi. apply in_map_iff. exists r. split; [exact Hr|].
      apply in_seq. pose proof (ranges_within len n i r Hn ltac:(lia) Hin). lia.
    - intros H. apply in_map_iff in H. destruct H as [r [Hr Hin]]. apply in_seq in Hin.
      destruct (ranges_cover len n r Hn ltac:(lia)) as [i [Hi Hri]].
      apply (Permutation_in _ Hil). unfold all_worker_keys. apply in_concat_map.
      exists i. split; [apply in_seq; lia|]. unfold worker_keys. rewrite dedup_In.
      apply in_map_iff. exists r. split; assumption.
  Qed.

  Lemma NoDup_perm_of_same_set : forall (l1 l2 : list K), NoDup l1 -> NoDup l2 ->
    (forall k, In k l1 <-> In k l2) -> Permutation l1 l2.
  Proof. intros l1 l2 H1 H2 H. apply NoDup_Permutation; assumption. Qed.

  (* ... so two schedules produce the same groups up to their ORDER *)
  Lemma arrival_keys_perm : forall (key : nat -> K) len n a1 a2, (1 <= n)%nat ->
    interleaving (all_worker_keys keqb key len n) a1 ->
    interleaving (all_worker_keys keqb key len n) a2 ->
    Permutation (group_keys_of keqb a1) (group_keys_of keqb a2).
  Proof.
    intros key len n a1 a2 Hn H1 H2. apply NoDup_Permutation; try apply dedup_NoDup.
    intros k. rewrite (arrival_keys_set key len n a1 k Hn H1), (arrival_keys_set key len n a2 k Hn H2). tauto.
  Qed.

  Lemma dedup_from_idem : forall l seen,
    dedup_from keqb seen (dedup_from keqb seen l) = dedup_from keqb seen l.
  Proof.
    induction l as [|h t IH]; intros seen; cbn; [reflexivity|].
    destruct (mem keqb h seen) eqn:E; [apply IH|].
    cbn. rewrite E. rewrite IH. reflexivity.
  Qed.

  (* with one goroutine the arrival order is the sequential discovery order *)
  Lemma arrival_keys_one : forall (key : nat -> K) len arrivals,
    interleaving (all_worker_keys keqb key len 1) arrivals ->
    group_keys_of keqb arrivals = group_keys_seq keqb key len.
  Proof.
    intros key len arrivals Hil. unfold all_worker_keys in Hil. cbn [seq map] in Hil.
    assert (Hr : range len 1 0 = seq 0 len).
    { pose proof (ranges_partition len 1 ltac:(lia)) as Hp. cbn [seq map concat] in Hp.
      rewrite app_nil_r in Hp. exact Hp. }
    unfold worker_keys in Hil. rewrite Hr in Hil.
    assert (G : forall (l r : list K), interleaving [l] r -> r = l).
    { clear. intros l r H. remember [l] as ls eqn:E. revert l E.
      induction H as [ls Hall | ls1 x l0 ls2 r H IH]; intros l E.
      - subst ls. inversion Hall; subst. reflexivity.
      - destruct ls1 as [|a ls1].
        + cbn in E. inversion E; subst. f_equal. apply IH. reflexivity.
        + cbn in E. inversion E as [[Ea Eb]]. destruct ls1; discriminate. }
    apply G in Hil. subst arrivals. unfold group_keys_of, group_keys_seq, dedup. apply dedup_from_idem.
  Qed.

  (* the members of every group do not depend on n (they are merged in goroutine order) *)
  Lemma group_members_eq_seq : forall (key : nat -> K) len n k, (1 <= n)%nat ->
    group_members keqb key len n k = group_members_seq keqb key len k.
  Proof.
    intros key len n k Hn. unfold group_members, group_members_seq.
    apply (filter_eq_seq (fun r => keqb (key r) k)). exact Hn.
  Qed.
End Arrival.

(* ================================================================================================ *)
(* merge pattern 4: map iteration order                                                              *)
(* ================================================================================================ *)
Lemma filter_perm : forall (A : Type) (p : A -> bool) l1 l2, Permutation l1 l2 -> Permutation (filter p l1) (filter p l2).
Proof.
  intros A p l1 l2 H. induction H; cbn.
  - constructor.
  - destruct (p x); [constructor|]; assumption.
  - destruct (p x), (p y); try constructor; apply Permutation_refl.
  - etransitivity; eassumption.
Qed.

(* REPLACE inserts the same rows whatever the iteration order, but in that order *)
Lemma replace_inserts_perm : forall replaced m order, Permutation (seq 0 m) order ->
  Permutation (unmatched replaced m) (replace_inserts replaced order).
Proof. intros replaced m order H. unfold unmatched, replace_inserts. apply filter_perm. exact H. Qed.

(* ================================================================================================ *)
(* independence of --cpu                                                                             *)
(* ================================================================================================ *)
Lemma assigned_number_pos : forall len min cpu running, (1 <= cpu)%Z ->
  1 <= Z.to_nat (fst (assign_number len min cpu running)).
Proof.
  intros len min cpu running Hcpu.
  pose proof (number_bounds len min cpu running Hcpu) as Hb. cbv zeta in Hb. lia.
Qed.

(* Whatever --cpu says, whatever the shared goroutine budget is at that moment, and whatever the
   schedule: slot-addressed results and worker-ordered concatenations are the sequential ones. *)
Lemma cpu_independent : forall (A B : Type) (f : nat -> A) (g : nat -> list B) (len : nat)
    min1 min2 cpu1 cpu2 run1 run2 (init : list A) s1 s2,
  (1 <= cpu1)%Z -> (1 <= cpu2)%Z -> length init = len ->
  let n1 := Z.to_nat (fst (assign_number (Z.of_nat len) min1 cpu1 run1)) in
  let n2 := Z.to_nat (fst (assign_number (Z.of_nat len) min2 cpu2 run2)) in
  interleaving (all_slot_writes f len n1) s1 ->
  interleaving (all_slot_writes f len n2) s2 ->
  apply_writes s1 init = seq_map f len /\ apply_writes s2 init = seq_map f len /\
  par_concat g len n1 = seq_flat g len /\ par_concat g len n2 = seq_flat g len.
Proof.
  intros A B f g len min1 min2 cpu1 cpu2 run1 run2 init s1 s2 H1 H2 Hlen n1 n2 Hs1 Hs2.
  pose proof (assigned_number_pos (Z.of_nat len) min1 cpu1 run1 H1) as Hn1. fold n1 in Hn1.
  pose proof (assigned_number_pos (Z.of_nat len) min2 cpu2 run2 H2) as Hn2. fold n2 in Hn2.
  repeat split.
  - apply (slots_eq_seq A f init len n1 s1 Hn1 Hlen Hs1).
  - apply (slots_eq_seq A f init len n2 s2 Hn2 Hlen Hs2).
  - apply concat_eq_seq; exact Hn1.
  - apply concat_eq_seq; exact Hn2.
Qed.

Lemma nat_eqb_spec : forall a b : nat, Nat.eqb a b = true <-> a = b.
Proof. intros a b. apply Nat.eqb_eq. Qed.

(* ================================================================================================ *)
(* the repair proposed for F-C12-1: order the group keys by their first record                       *)
(* ================================================================================================ *)
(* position of the first occurrence of k in l (length l when absent) *)
Fixpoint first_pos (k : nat) (l : list nat) : nat :=
  match l with
  | [] => 0
  | h :: t => if Nat.eqb h k then 0 else S (first_pos k t)
  end.

Lemma sorted_perm_unique : forall (A : Type) (R : A -> A -> Prop),
  (forall x y, R x y -> R y x -> False) ->
  forall l1 l2, StronglySorted R l1 -> StronglySorted R l2 -> Permutation l1 l2 -> l1 = l2.
Proof.
  intros A R Hasym. induction l1 as [|a t1 IH]; intros l2 H1 H2 Hp.
  - apply Permutation_nil in Hp. subst. reflexivity.
  - destruct l2 as [|b t2]; [apply Permutation_sym, Permutation_nil in Hp; discriminate|].
    inversion H1 as [|? ? Hs1 Hall1]; subst. inversion H2 as [|? ? Hs2 Hall2]; subst.
    rewrite Forall_forall in Hall1, Hall2.
    assert (Hab : a = b).
    { assert (Ha : In a (b :: t2)) by (apply (Permutation_in _ Hp); left; reflexivity).
      assert (Hb : In b (a :: t1)) by (apply (Permutation_in _ (Permutation_sym Hp)); left; reflexivity).
      destruct Ha as [Ha|Ha]; [auto|]. destruct Hb as [Hb|Hb]; [auto|].
      exfalso. apply (Hasym a b); [apply Hall1; exact Hb|apply Hall2; exact Ha]. }
    subst b. f_equal. apply IH; try assumption. eapply Permutation_cons_inv; eauto.
Qed.

Lemma dedup_from_sorted_by_first : forall l seen,
  StronglySorted (fun x y => first_pos x l < first_pos y l) (dedup_from Nat.eqb seen l).
Proof.
  induction l as [|h t IH]; intros seen; cbn [dedup_from]; [constructor|].
  assert (Hshift : forall seen', (forall x, In x (dedup_from Nat.eqb seen' t) -> x <> h) ->
    StronglySorted (fun x y => first_pos x (h :: t) < first_pos y (h :: t)) (dedup_from Nat.eqb seen' t)).
  { intros seen' Hneq. specialize (IH seen').
    induction IH as [|a l' Hs IHs Hall]; [constructor|].
    constructor.
    - apply IHs. intros x Hx. apply Hneq. right. exact Hx.
    - rewrite Forall_forall in *. intros y Hy. cbn [first_pos].
      replace (Nat.eqb h a) with false by (symmetry; apply Nat.eqb_neq; intros E; apply (Hneq a (or_introl eq_refl)); auto).
      replace (Nat.eqb h y) with false by (symmetry; apply Nat.eqb_neq; intros E; apply (Hneq y (or_intror Hy)); auto).
      specialize (Hall y Hy). lia. }
  destruct (mem Nat.eqb h seen) eqn:E.
  - apply Hshift. intros x Hx Hxh. subst x.
    apply (dedup_from_In Nat.eqb nat_eqb_spec) in Hx. destruct Hx as [_ Hx]. apply Hx.
    apply (mem_In Nat.eqb nat_eqb_spec). exact E.
  - constructor.
    + apply Hshift. intros x Hx Hxh. subst x.
      apply (dedup_from_In Nat.eqb nat_eqb_spec) in Hx. destruct Hx as [_ Hx]. apply Hx. left. reflexivity.
    + apply Forall_forall. intros y Hy. cbn [first_pos]. rewrite Nat.eqb_refl.
      assert (y <> h).
      { intros ->. apply (dedup_from_In Nat.eqb nat_eqb_spec) in Hy. destruct Hy as [_ Hy]. apply Hy. left. reflexivity. }
      replace (Nat.eqb h y) with false by (symmetry; apply Nat.eqb_neq; auto). lia.
Qed.

(* Whatever order the keys arrived in: once they are sorted by the index of their first record
   (sort.Slice by firstRecord in the proposed patch) the group list is the one-goroutine list. *)
Lemma group_keys_sorted_eq_seq : forall (key : nat -> nat) len n arrivals l, 1 <= n ->
  interleaving (all_worker_keys Nat.eqb key len n) arrivals ->
  Permutation l (group_keys_of Nat.eqb arrivals) ->
  StronglySorted (fun x y => first_pos x (map key (seq 0 len)) < first_pos y (map key (seq 0 len))) l ->
  l = group_keys_seq Nat.eqb key len.
Proof.
  intros key len n arrivals l Hn Hil Hp Hs.
  apply (sorted_perm_unique _ (fun x y => first_pos x (map key (seq 0 len)) < first_pos y (map key (seq 0 len)))).
  - intros x y H1 H2. lia.
  - exact Hs.
  - unfold group_keys_seq, dedup. apply dedup_from_sorted_by_first.
  - etransitivity; [exact Hp|].
    apply NoDup_Permutation; try (apply dedup_NoDup; apply nat_eqb_spec).
    intros k. apply (arrival_keys_set Nat.eqb nat_eqb_spec key len n arrivals k Hn Hil).
Qed.
