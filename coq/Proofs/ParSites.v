(* Proofs/ParSites.v -- the hand-written site summaries of Model/ParSites.v: race freedom for every
   record count / goroutine number / row count, and the refutations. *)
From Coq Require Import List Bool String Arith Lia Relations.
Require Import Csvq.Model.Par Csvq.Model.Access Csvq.Model.ParSites Csvq.Proofs.Par Csvq.Proofs.Access.
Import ListNotations.
Open Scope nat_scope.

Lemma idx_avoids : forall m p k l, avoids_tm (mkAcc m (Idx p k) l).
Proof. intros. unfold avoids_tm, tm_err. cbn. repeat split; discriminate. Qed.

Lemma no_epilogue_local : forall body, epilogue_local body (fun _ => []).
Proof. intros body. split; intros; contradiction. Qed.

(* ---- CrossJoin ---------------------------------------------------------------------------------- *)
Lemma crossjoin_in : forall m k a, In a (crossjoin_body m k) ->
  a = mkAcc Rd (Idx "view.RecordSet" k) [] \/ exists i, i < m /\ a = mkAcc Wr (Idx "records" (k * m + i)) [].
Proof.
  intros m k a [<-|H]; [left; reflexivity|]. right. apply in_map_iff in H. destruct H as [i [<- Hi]].
  apply in_seq in Hi. exists i. split; [lia|reflexivity].
Qed.

Lemma crossjoin_record_local : forall m, record_local (crossjoin_body m).
Proof.
  intros m k1 k2 a1 a2 Hne H1 H2 Hc.
  pose proof (conflict_loc _ _ Hc) as Hl.
  apply crossjoin_in in H1. apply crossjoin_in in H2.
  destruct H1 as [->|[i1 [Hi1 ->]]], H2 as [->|[i2 [Hi2 ->]]]; cbn in Hl; try discriminate.
  - revert Hc. apply reads_no_conflict; reflexivity.
  - inversion Hl as [E]. apply Hne.
    assert (k1 = (k1 * m + i1) / m) by (apply Nat.div_unique with i1; lia).
    assert (k2 = (k2 * m + i2) / m) by (apply Nat.div_unique with i2; lia).
    congruence.
Qed.

Theorem site_crossjoin_drf : forall cap pre post m len n, 1 <= n ->
  race_free cap (tm_exec pre post (crossjoin_body m) (fun _ => []) (fun _ => false) len n).
Proof.
  intros cap pre post m len n Hn. apply tm_drf; auto.
  - apply crossjoin_record_local.
  - apply no_epilogue_local.
  - intros k a H. apply crossjoin_in in H. destruct H as [->|[i [_ ->]]]; apply idx_avoids.
  - intros i a [].
Qed.

(* ---- Analyze ------------------------------------------------------------------------------------ *)
Lemma partition_members : forall key nrec p r, In r (partition key nrec p) ->
  nth_error (partition_keys key nrec) p = Some (key r).
Proof.
  intros key nrec p r H. unfold partition in H.
  destruct (nth_error (partition_keys key nrec) p) as [kp|] eqn:E; [|destruct H].
  unfold group_members_seq in H. apply filter_In in H. destruct H as [_ H].
  apply Nat.eqb_eq in H. rewrite H. reflexivity.
Qed.

(* the partitions are pairwise disjoint: a record has one key, and a key has one position *)
Lemma partitions_disjoint : forall key nrec p1 p2 r, p1 <> p2 ->
  In r (partition key nrec p1) -> In r (partition key nrec p2) -> False.
Proof.
  intros key nrec p1 p2 r Hne H1 H2.
  apply partition_members in H1. apply partition_members in H2.
  assert (Hnd : NoDup (partition_keys key nrec)).
  { unfold partition_keys, group_keys_seq. apply dedup_NoDup. apply nat_eqb_spec. }
  apply Hne. eapply (proj1 (NoDup_nth_error _) Hnd); [apply nth_error_Some; congruence|congruence].
Qed.

Lemma analyze_in : forall key nrec p a, In a (analyze_body key nrec p) ->
  exists r m, In r (partition key nrec p) /\ a = mkAcc m (Idx "view.RecordSet" r) [].
Proof.
  intros key nrec p a H. unfold analyze_body in H. apply in_flat_map in H.
  destruct H as [r [Hr [<-|[<-|[]]]]]; eauto.
Qed.

Lemma analyze_record_local : forall key nrec, record_local (analyze_body key nrec).
Proof.
  intros key nrec p1 p2 a1 a2 Hne H1 H2 Hc. apply conflict_loc in Hc.
  apply analyze_in in H1. apply analyze_in in H2.
  destruct H1 as [r1 [m1 [Hr1 ->]]]. destruct H2 as [r2 [m2 [Hr2 ->]]].
  cbn in Hc. inversion Hc; subst r2. eapply partitions_disjoint; eauto.
Qed.

(* the goroutines split the partition list (len = number of partitions) *)
Theorem site_analyze_drf : forall cap pre post key nrec len n, 1 <= n ->
  race_free cap (tm_exec pre post (analyze_body key nrec) (fun _ => []) (fun _ => false) len n).
Proof.
  intros cap pre post key nrec len n Hn. apply tm_drf; auto.
  - apply analyze_record_local.
  - apply no_epilogue_local.
  - intros k a H. apply analyze_in in H. destruct H as [r [m [_ ->]]]. apply idx_avoids.
  - intros i a [].
Qed.

(* ---- LATERAL ------------------------------------------------------------------------------------ *)
Lemma lateral_in : forall k a, In a (lateral_body k) ->
  a = mkAcc Wr (Idx "resultSetList" k) [] \/ (k = 0 /\ a = mkAcc Wr (Var "hfields") []).
Proof.
  intros k a [<-|H]; [left; reflexivity|]. right. destruct (Nat.eqb k 0) eqn:E; [|destruct H].
  apply Nat.eqb_eq in E. destruct H as [<-|[]]. auto.
Qed.

Lemma lateral_record_local : record_local lateral_body.
Proof.
  intros k1 k2 a1 a2 Hne H1 H2 Hc. apply conflict_loc in Hc.
  apply lateral_in in H1. apply lateral_in in H2.
  destruct H1 as [->|[E1 ->]], H2 as [->|[E2 ->]]; cbn in Hc; try discriminate.
  - inversion Hc. contradiction.
  - lia.
Qed.

Theorem site_lateral_drf : forall cap pre post len n, 1 <= n ->
  race_free cap (tm_exec pre post lateral_body (fun _ => []) (fun _ => false) len n).
Proof.
  intros cap pre post len n Hn. apply tm_drf; auto.
  - apply lateral_record_local.
  - apply no_epilogue_local.
  - intros k a H. apply lateral_in in H. destruct H as [->|[_ ->]]; [apply idx_avoids|].
    unfold avoids_tm, tm_err. cbn. repeat split; discriminate.
  - intros i a [].
Qed.

(* ---- the shared cache of outer records ----------------------------------------------------------- *)
(* F-C13-4: two goroutines of the inner query, one of which does not find the outer field in the
   cache: its Add races with the other's Get *)
Theorem outer_cache_race : forall cap pre post misses len n i j k kj,
  i <> j -> i < n -> j < n -> In k (range len n i) -> In kj (range len n j) -> misses k = true ->
  race cap (tm_exec pre post (outer_cache_body misses) (fun _ => []) (fun _ => false) len n).
Proof.
  intros cap pre post misses len n i j k kj Hne Hi Hj Hk Hkj Hm.
  unfold tm_exec, tm_exec_with, tm_workers.
  apply (fj_race pre (tm_post hl_current ++ post) _ cap i j (mkAcc Wr (Var "outer.cache") []) (mkAcc Rd (Var "outer.cache") []) Hne).
  - rewrite nth_range_workers by exact Hi. apply in_or_app. left. apply in_flat_map.
    exists k. split; [exact Hk|]. unfold tm_iter, outer_cache_body. rewrite Hm. cbn. auto.
  - rewrite nth_range_workers by exact Hj. apply in_or_app. left. apply in_flat_map.
    exists kj. split; [exact Hkj|]. unfold tm_iter, outer_cache_body. cbn. auto.
  - reflexivity.
Qed.

(* once the cache is warm (nobody misses) the goroutines only read it *)
Theorem outer_cache_warm_drf : forall cap pre post len n, 1 <= n ->
  race_free cap (tm_exec pre post (outer_cache_body (fun _ => false)) (fun _ => []) (fun _ => false) len n).
Proof.
  intros cap pre post len n Hn. apply tm_drf; auto.
  - intros k1 k2 a1 a2 _ [<-|[]] [<-|[]]. apply reads_no_conflict; reflexivity.
  - apply no_epilogue_local.
  - intros k a [<-|[]]. unfold avoids_tm, tm_err. cbn. repeat split; discriminate.
  - intros i a [].
Qed.

(* ---- loaders ------------------------------------------------------------------------------------ *)
Lemma consumer_accs : forall pc m a, In (SAcc a) (consumer Never pc m) ->
  a_loc a = Var "recordSet" \/ a = mkAcc Rd (Var "err") [].
Proof.
  intros pc m a H. unfold consumer in H. apply in_app_or in H. destruct H as [H|H].
  - apply in_flat_map in H. destruct H as [k [_ H]]. cbn in H.
    destruct H as [H|[H|[H|[]]]]; try discriminate; inversion H; subst; left; reflexivity.
  - cbn in H. destruct H as [H|[H|[H|[]]]]; try discriminate. inversion H. right. reflexivity.
Qed.

Lemma producer_accs : forall pc m a, In (SAcc a) (producer Never pc m false) -> a = mkAcc Rd (Var "err") [].
Proof.
  intros pc m a H. unfold producer in H. apply in_app_or in H. destruct H as [H|H].
  - apply in_flat_map in H. destruct H as [k [_ H]]. cbn in H. destruct H as [H|[]]. discriminate.
  - cbn in H. destruct H as [H|[H|[]]]; try discriminate. inversion H. reflexivity.
Qed.

(* apart from pos -- and as long as the reader reports no error and the context is not cancelled -- the
   two loader goroutines share nothing they both touch with a write, for every number of rows *)
Theorem site_loader_drf_except_pos : forall cap m, race_free cap (loader_exec false m false).
Proof.
  intros cap m. unfold loader_exec, loader_exec_gen. apply fjs_race_free.
  intros i j a b Hne Ha Hb Hc.
  destruct i as [|[|i]], j as [|[|j]]; cbn [nth] in Ha, Hb; try lia;
    try (destruct i; destruct Ha); try (destruct j; destruct Hb).
  - apply consumer_accs in Ha. apply producer_accs in Hb. subst b.
    destruct Ha as [Ha| ->].
    + apply conflict_loc in Hc. rewrite Ha in Hc. discriminate.
    + revert Hc. apply reads_no_conflict; reflexivity.
  - apply producer_accs in Ha. apply consumer_accs in Hb. subst a.
    destruct Hb as [Hb| ->].
    + apply conflict_loc in Hc. rewrite Hb in Hc. discriminate.
    + revert Hc. apply reads_no_conflict; reflexivity.
Qed.

(* F-C13-2: two rows suffice: the consumer reads pos while handling row 0 (thread 1, step 1), the
   producer updates pos for row 1 (thread 2, step 4); no channel operation orders them *)
Theorem loader_pos_race : race loader_cap (loader_exec true 2 false).
Proof. apply (race_witness_sound loader_cap _ (1, 1) (2, 4)). vm_compute. reflexivity. Qed.

(* scaled-down instances (capacity 2), decided by computing happens-before: the code as it stands
   races; reading pos only once `cap` rows have arrived does not; the error slot is ordered by
   close(rowch) when the reader fails *)
Lemma loader_small_current_races : race small_cap (loader_exec_gen EveryRow 2 4 false).
Proof. apply (race_witness_sound small_cap _ (1, 1) (2, 4)). vm_compute. reflexivity. Qed.
Lemma loader_small_fixed_race_free : race_free small_cap (loader_exec_gen AtCap 2 4 false).
Proof. apply race_freeb_sound. vm_compute. reflexivity. Qed.
Lemma loader_small_error_path_race_free : race_free small_cap (loader_exec_gen AtCap 2 3 true).
Proof. apply race_freeb_sound. vm_compute. reflexivity. Qed.

(* ---- the cache of outer records after d44f076: one per goroutine ---------------------------------- *)
Theorem site_outer_cache_drf : forall cap pre post misses len n,
  race_free cap (fj_exec pre post (outer_cache_workers misses len n)).
Proof.
  intros cap pre post misses len n. apply fj_race_free.
  intros i j a b Hne Ha Hb Hc. apply conflict_loc in Hc.
  assert (G : forall i a, In a (nth i (outer_cache_workers misses len n) []) -> a_loc a = Idx "outer.cache" i).
  { clear. intros i a H. unfold outer_cache_workers in H.
    destruct (Nat.lt_ge_cases i n) as [Hi|Hi].
    - rewrite (nth_map_seq _ _ n i [] Hi) in H. apply in_flat_map in H. destruct H as [k [_ H]].
      destruct H as [<-|H]; [reflexivity|]. destruct (misses k); [|destruct H]. destruct H as [<-|[]]. reflexivity.
    - rewrite nth_overflow in H by (rewrite map_length, seq_length; exact Hi). destruct H. }
  rewrite (G i a Ha), (G j b Hb) in Hc. inversion Hc. contradiction.
Qed.

(* ---- signal goroutine -------------------------------------------------------------------------- *)
(* F-C13-3: the handler goroutine writes signalReceived when a signal arrives; commandAction reads
   it after fn returned, with nothing in between that orders the two *)
Theorem signal_race : race signal_cap signal_exec.
Proof. apply (race_witness_sound signal_cap _ (0, 2) (1, 1)). vm_compute. reflexivity. Qed.

(* with hooks/fix_signal_received_mutex.patch both accesses hold signalMutex *)
Theorem signal_fixed_race_free : race_free signal_cap signal_exec_fixed.
Proof. apply race_freeb_sound. vm_compute. reflexivity. Qed.
