(* Proofs about Model/Pool.v (C14): the pooled semantics simulates the pool-free one for every
   pool policy on disciplined instruction sequences; the per-call-site facts imply the discipline;
   a tree that is not written is evaluated identically the second time. *)
From Coq Require Import NArith List Bool Lia.
Require Import Csvq.Model.Pool.
Import ListNotations.
Open Scope N_scope.

Lemma upd_same {A} (f : N -> A) x a : upd f x a x = a.
Proof. unfold upd. rewrite N.eqb_refl. reflexivity. Qed.

Lemma upd_other {A} (f : N -> A) x a y : y <> x -> upd f x a y = f y.
Proof. intros H. unfold upd. destruct (N.eqb_spec y x); [contradiction|reflexivity]. Qed.

(* ---- the pool ---------------------------------------------------------------------------------- *)
Lemma mem_In l p : mem l p = true <-> In l p.
Proof.
  unfold mem. rewrite existsb_exists. split.
  - intros [x [Hin Heq]]. apply N.eqb_eq in Heq. subst. exact Hin.
  - intros Hin. exists l. split; [exact Hin|apply N.eqb_refl].
Qed.

Lemma remove1_In a l p : In a (remove1 l p) -> In a p.
Proof.
  induction p as [|h t IH]; simpl; [tauto|].
  destruct (N.eqb_spec h l); simpl; intros H; [right; exact H|].
  destruct H as [H|H]; [left; exact H|right; apply IH; exact H].
Qed.

Lemma remove1_NoDup l p : NoDup p -> NoDup (remove1 l p).
Proof.
  induction 1 as [|h t Hn Hd IH]; simpl; [constructor|].
  destruct (N.eqb_spec h l); [exact Hd|].
  constructor; [|exact IH]. intros Hin. apply Hn. eapply remove1_In. exact Hin.
Qed.

Lemma remove1_notin l p : NoDup p -> ~ In l (remove1 l p).
Proof.
  induction 1 as [|h t Hn Hd IH]; simpl; [tauto|].
  destruct (N.eqb_spec h l) as [->|Hne]; [exact Hn|].
  simpl. intros [H|H]; [contradiction|apply IH; exact H].
Qed.

Lemma filter_NoDup {A} (f : A -> bool) l : NoDup l -> NoDup (filter f l).
Proof.
  induction 1 as [|h t Hn Hd IH]; simpl; [constructor|].
  destruct (f h); [|exact IH].
  constructor; [|exact IH]. intros Hin. apply filter_In in Hin. apply Hn. tauto.
Qed.

Lemma pool_get_spec pol t pool next l pool' next' :
  NoDup pool -> (forall a, In a pool -> a < next) ->
  pool_get pol t pool next = (l, pool', next') ->
  (In l pool \/ l = next) /\ NoDup pool' /\ ~ In l pool' /\ (forall a, In a pool' -> In a pool)
  /\ next <= next' /\ l < next' /\ (forall a, In a pool' -> a < next').
Proof.
  intros Hnd Hb. unfold pool_get.
  set (q := filter (pol_keep pol t) pool).
  assert (Hq : forall a, In a q -> In a pool) by (intros a Ha; apply filter_In in Ha; tauto).
  assert (Hqn : NoDup q) by (apply filter_NoDup; exact Hnd).
  assert (Hfresh : ~ In next q) by (intros Hin; apply Hq in Hin; apply Hb in Hin; lia).
  destruct (pol_choose pol t q) as [c|].
  - destruct (mem c q) eqn:Hm.
    + apply mem_In in Hm. intros E. inversion E; subst. clear E.
      refine (conj _ (conj _ (conj _ (conj _ (conj _ (conj _ _)))))).
      * left. apply Hq. exact Hm.
      * apply remove1_NoDup. exact Hqn.
      * apply remove1_notin. exact Hqn.
      * intros a Ha. apply Hq. eapply remove1_In. exact Ha.
      * lia.
      * apply Hb. apply Hq. exact Hm.
      * intros a Ha. apply Hb. apply Hq. eapply remove1_In. exact Ha.
    + intros E. inversion E; subst. clear E.
      refine (conj _ (conj _ (conj _ (conj _ (conj _ (conj _ _)))))); try assumption; try lia;
        try (right; reflexivity).
      intros a Ha. apply Hq in Ha. apply Hb in Ha. lia.
  - intros E. inversion E; subst. clear E.
    refine (conj _ (conj _ (conj _ (conj _ (conj _ (conj _ _)))))); try assumption; try lia;
      try (right; reflexivity).
    intros a Ha. apply Hq in Ha. apply Hb in Ha. lia.
Qed.

Section Proofs.
  Variable cell : Type.
  Variable opsem : N -> cell -> cell -> cell.

  Notation instr := (instr cell).
  Notation vexp := (vexp cell).
  Notation pstate := (pstate cell).
  Notation vstate := (vstate cell).
  Notation run_p := (run_p opsem).
  Notation run_v := (run_v opsem).
  Notation step_p := (step_p opsem).
  Notation step_v := (step_v opsem).

  (* ---- the simulation invariant ------------------------------------------------------------- *)
  Definition live_ok (sp : pstate) (x : ref) (v : option cell) : Prop :=
    match v with
    | Some c => exists l, p_env sp x = Some l /\ p_heap sp l = Some c /\ ~ In l (p_pool sp) /\ l < p_next sp
    | None => p_env sp x = None
    end.

  Record sim (se : ref -> status) (sp : pstate) (sv : vstate) : Prop := mkSim {
    sim_live : forall x, se x <> Dead -> live_ok sp x (v_env sv x);
    sim_uniq : forall x l, se x = Owned -> p_env sp x = Some l ->
               forall y, y <> x -> se y <> Dead -> p_env sp y <> Some l;
    sim_nodup : NoDup (p_pool sp);
    sim_bound : forall l, In l (p_pool sp) -> l < p_next sp;
    sim_outs : p_outs sp = v_outs sv }.

  Lemma alive_not_dead st : alive st = true <-> st <> Dead.
  Proof. destruct st; simpl; split; intros H; try reflexivity; try discriminate; try congruence. Qed.

  Lemma deref_live se sp sv x : sim se sp sv -> se x <> Dead -> deref sp x = v_env sv x.
  Proof.
    intros S Hx. pose proof (sim_live _ _ _ S x Hx) as L. unfold live_ok in L. unfold deref.
    destruct (v_env sv x) as [c|].
    - destruct L as [l [He [Hh _]]]. rewrite He. exact Hh.
    - rewrite L. reflexivity.
  Qed.

  Lemma eval_sim se sp sv e : sim se sp sv -> exp_ok cell se e = true ->
    eval_p cell opsem sp e = eval_v cell opsem (v_env sv) e.
  Proof.
    intros S. unfold eval_p. induction e as [c|x|f a IHa b IHb]; simpl; intros H.
    - reflexivity.
    - apply (deref_live se); [exact S|]. apply alive_not_dead. exact H.
    - apply andb_true_iff in H. destruct H as [Ha Hb]. rewrite (IHa Ha), (IHb Hb). reflexivity.
  Qed.

  Definition related (se : ref -> status) (op : option pstate) (ov : option vstate) : Prop :=
    match op, ov with
    | Some sp, Some sv => sim se sp sv
    | None, None => True
    | _, _ => False
    end.

  Lemma step_sim pol se sp sv i :
    sim se sp sv -> step_ok se i = true -> related (trans se i) (step_p pol sp i) (step_v sv i).
  Proof.
    intros S Hok. destruct i as [x e|d x|e|x]; simpl in Hok; simpl.
    - (* INew *)
      rewrite (eval_sim se sp sv e S Hok).
      destruct (eval_v cell opsem (v_env sv) e) as [v|]; [|exact I].
      destruct (pool_get pol (p_clock sp) (p_pool sp) (p_next sp)) as [[l pool'] next'] eqn:G.
      destruct (pool_get_spec _ _ _ _ _ _ _ (sim_nodup _ _ _ S) (sim_bound _ _ _ S) G)
        as [Hl [Hnd [Hnot [Hsub [Hle [Hlt Hb]]]]]].
      assert (Hfar : forall y l0 c, se y <> Dead -> p_env sp y = Some l0 -> v_env sv y = Some c -> l0 <> l).
      { intros y l0 c Hy He Hv. pose proof (sim_live _ _ _ S y Hy) as L. rewrite Hv in L.
        destruct L as [l1 [He1 [_ [Hn1 Hlt1]]]]. rewrite He in He1. inversion He1; subst l1.
        intros ->. destruct Hl as [Hl|Hl]; [contradiction|lia]. }
      simpl. constructor; simpl.
      + intros y Hy. destruct (N.eqb_spec y x) as [->|Hne].
        * rewrite upd_same. simpl. exists l. simpl. rewrite ?upd_same. repeat split; assumption.
        * rewrite upd_other in Hy by exact Hne. rewrite (upd_other (v_env sv)) by exact Hne.
          pose proof (sim_live _ _ _ S y Hy) as L. unfold live_ok in *.
          destruct (v_env sv y) as [c|] eqn:Hv.
          -- destruct L as [l0 [He [Hh [Hn0 Hlt0]]]]. exists l0. simpl.
             rewrite (upd_other (p_env sp)) by exact Hne.
             assert (l0 <> l) by (eapply Hfar; eassumption).
             rewrite upd_other by assumption.
             repeat split; try assumption.
             ++ intros Hin. apply Hn0. apply Hsub. exact Hin.
             ++ lia.
          -- simpl. rewrite upd_other by exact Hne. exact L.
      + intros z lz Hz Hez y Hyz Hy.
        destruct (N.eqb_spec z x) as [->|Hzx].
        * rewrite upd_same in Hez. inversion Hez; subst lz.
          rewrite upd_other in Hy by exact Hyz. rewrite upd_other by exact Hyz.
          intros Hey. pose proof (sim_live _ _ _ S y Hy) as L. unfold live_ok in L.
          destruct (v_env sv y) as [c|] eqn:Hv.
          -- exact (Hfar y l c Hy Hey Hv eq_refl).
          -- rewrite L in Hey. discriminate.
        * rewrite upd_other in Hz by exact Hzx. rewrite upd_other in Hez by exact Hzx.
          destruct (N.eqb_spec y x) as [->|Hyx].
          -- rewrite upd_same. intros E. inversion E; subst lz.
             assert (Hzl : se z <> Dead) by (rewrite Hz; discriminate).
             pose proof (sim_live _ _ _ S z Hzl) as L. unfold live_ok in L.
             destruct (v_env sv z) as [c|] eqn:Hv.
             ++ exact (Hfar z l c Hzl Hez Hv eq_refl).
             ++ rewrite L in Hez. discriminate.
          -- rewrite upd_other in Hy by exact Hyx. rewrite upd_other by exact Hyx.
             exact (sim_uniq _ _ _ S z lz Hz Hez y Hyz Hy).
      + exact Hnd.
      + exact Hb.
      + exact (sim_outs _ _ _ S).
    - (* IMove *)
      apply alive_not_dead in Hok.
      pose proof (sim_live _ _ _ S x Hok) as L. unfold live_ok in L.
      destruct (v_env sv x) as [c|] eqn:Hv.
      + destruct L as [l [He [Hh [Hn Hlt]]]]. rewrite He, Hh. simpl.
        assert (Hlive : forall y, upd (upd se x Shared) d Shared y <> Dead -> y <> d -> se y <> Dead).
        { intros y Hy Hyd. rewrite upd_other in Hy by exact Hyd.
          destruct (N.eqb_spec y x) as [->|Hyx]; [exact Hok|]. rewrite upd_other in Hy by exact Hyx. exact Hy. }
        constructor; simpl.
        * intros y Hy. destruct (N.eqb_spec y d) as [->|Hyd].
          -- rewrite upd_same. simpl. exists l. simpl. rewrite upd_same. repeat split; assumption.
          -- rewrite (upd_other (v_env sv)) by exact Hyd.
             pose proof (sim_live _ _ _ S y (Hlive y Hy Hyd)) as Ly. unfold live_ok in *. simpl.
             rewrite (upd_other (p_env sp)) by exact Hyd. exact Ly.
        * intros z lz Hz Hez y Hyz Hy.
          assert (Hzd : z <> d) by (intros ->; rewrite upd_same in Hz; discriminate).
          rewrite upd_other in Hz by exact Hzd.
          assert (Hzx : z <> x) by (intros ->; rewrite upd_same in Hz; discriminate).
          rewrite upd_other in Hz by exact Hzx.
          rewrite upd_other in Hez by exact Hzd.
          destruct (N.eqb_spec y d) as [->|Hyd].
          -- rewrite upd_same. intros E. inversion E; subst lz.
             exact (sim_uniq _ _ _ S z l Hz Hez x (fun E' => Hzx (eq_sym E')) Hok He).
          -- rewrite upd_other by exact Hyd.
             exact (sim_uniq _ _ _ S z lz Hz Hez y Hyz (Hlive y Hy Hyd)).
        * exact (sim_nodup _ _ _ S).
        * exact (sim_bound _ _ _ S).
        * exact (sim_outs _ _ _ S).
      + rewrite L. exact I.
    - (* IOut *)
      rewrite (eval_sim se sp sv e S Hok).
      destruct (eval_v cell opsem (v_env sv) e) as [v|]; [|exact I].
      simpl. constructor; simpl; try (apply S).
      rewrite (sim_outs _ _ _ S). reflexivity.
    - (* IDiscard *)
      destruct (se x) eqn:Hx; try discriminate.
      assert (Hxl : se x <> Dead) by (rewrite Hx; discriminate).
      pose proof (sim_live _ _ _ S x Hxl) as L. unfold live_ok in L.
      assert (Hlive : forall y, upd se x Dead y <> Dead -> y <> x /\ se y <> Dead).
      { intros y Hy. destruct (N.eqb_spec y x) as [->|Hyx]; [rewrite upd_same in Hy; congruence|].
        rewrite upd_other in Hy by exact Hyx. split; assumption. }
      assert (Huniq : forall z lz, upd se x Dead z = Owned -> p_env sp z = Some lz ->
                      forall y, y <> z -> upd se x Dead y <> Dead -> p_env sp y <> Some lz).
      { intros z lz Hz Hez y Hyz Hy.
        assert (Hzx : z <> x) by (intros ->; rewrite upd_same in Hz; discriminate).
        rewrite upd_other in Hz by exact Hzx.
        destruct (Hlive y Hy) as [_ Hyl]. exact (sim_uniq _ _ _ S z lz Hz Hez y Hyz Hyl). }
      destruct (p_env sp x) as [l|] eqn:He.
      + destruct (v_env sv x) as [c|] eqn:Hv; [|discriminate].
        destruct L as [l' [He' [Hh [Hn Hlt]]]]. inversion He'; subst l'. clear He'.
        simpl. constructor; simpl.
        * intros y Hy. destruct (Hlive y Hy) as [Hyx Hyl].
          pose proof (sim_live _ _ _ S y Hyl) as Ly. unfold live_ok in *.
          destruct (v_env sv y) as [cy|]; [|exact Ly].
          destruct Ly as [ly [Hey [Hhy [Hny Hlty]]]]. exists ly. repeat split; try assumption.
          simpl. intros [E|Hin]; [|contradiction]. subst ly.
          exact (sim_uniq _ _ _ S x l Hx He y Hyx Hyl Hey).
        * exact Huniq.
        * constructor; [exact Hn|exact (sim_nodup _ _ _ S)].
        * intros a [<-|Ha]; [exact Hlt|exact (sim_bound _ _ _ S a Ha)].
        * exact (sim_outs _ _ _ S).
      + simpl. constructor; simpl.
        * intros y Hy. destruct (Hlive y Hy) as [_ Hyl]. exact (sim_live _ _ _ S y Hyl).
        * exact Huniq.
        * exact (sim_nodup _ _ _ S).
        * exact (sim_bound _ _ _ S).
        * exact (sim_outs _ _ _ S).
  Qed.

  Lemma run_sim pol prog : forall se sp sv,
    sim se sp sv -> check_prog se prog = true ->
    related (fold_left (trans (cell:=cell)) prog se) (run_p pol prog sp) (run_v prog sv).
  Proof.
    induction prog as [|i rest IH]; intros se sp sv S Hc; simpl.
    - exact S.
    - simpl in Hc. apply andb_true_iff in Hc. destruct Hc as [Hi Hr].
      pose proof (step_sim pol se sp sv i S Hi) as R. unfold related in R.
      destruct (step_p pol sp i) as [sp'|], (step_v sv i) as [sv'|]; try contradiction.
      + apply IH; assumption.
      + exact I.
  Qed.

  (* ---- well-formed pooled states and their pool-free reading -------------------------------- *)
  Definition wf_p (sp : pstate) : Prop :=
    (forall x l, p_env sp x = Some l -> p_heap sp l <> None /\ ~ In l (p_pool sp) /\ l < p_next sp)
    /\ NoDup (p_pool sp) /\ (forall l, In l (p_pool sp) -> l < p_next sp).

  Lemma sim_init sp : wf_p sp -> sim all_shared sp (abs sp).
  Proof.
    intros [Hb [Hnd Hp]]. constructor; simpl.
    - intros x _. unfold live_ok, deref. destruct (p_env sp x) as [l|] eqn:He; [|reflexivity].
      destruct (Hb x l He) as [Hh [Hn Hlt]].
      destruct (p_heap sp l) as [c|] eqn:Hc; [|congruence].
      exists l. repeat split; assumption.
    - intros x l Hx. discriminate.
    - exact Hnd.
    - exact Hp.
    - reflexivity.
  Qed.

  Lemma mk_init_wf (vals : list cell) : wf_p (mk_init vals).
  Proof using.
    clear opsem. unfold wf_p, mk_init. simpl. split; [|split; [constructor|intros l []]].
    intros x l H. destruct (N.ltb_spec x (N.of_nat (length vals))) as [Hlt|Hge]; [|discriminate].
    inversion H; subst l. split; [|split; [tauto|exact Hlt]].
    apply nth_error_Some. lia.
  Qed.

  Definition final_status (prog : list instr) : ref -> status := fold_left (trans (cell:=cell)) prog all_shared.

  (* pool_transparent, general form: from any related pair of states *)
  Lemma pool_simulation pol prog sp :
    wf_p sp -> disciplined prog = true ->
    related (final_status prog) (run_p pol prog sp) (run_v prog (abs sp)).
  Proof. intros W D. apply run_sim; [apply sim_init; exact W|exact D]. Qed.

  Definition same_observations (prog : list instr) (op : option pstate) (ov : option vstate) : Prop :=
    match op, ov with
    | Some sp, Some sv => p_outs sp = v_outs sv /\ forall x, final_status prog x <> Dead -> deref sp x = v_env sv x
    | None, None => True
    | _, _ => False
    end.

  Lemma pool_transparent pol prog sp :
    wf_p sp -> disciplined prog = true ->
    same_observations prog (run_p pol prog sp) (run_v prog (abs sp)).
  Proof.
    intros W D. pose proof (pool_simulation pol prog sp W D) as R. unfold related in R. unfold same_observations.
    destruct (run_p pol prog sp) as [sp'|], (run_v prog (abs sp)) as [sv'|]; try contradiction; [|exact I].
    split; [exact (sim_outs _ _ _ R)|]. intros x Hx. eapply deref_live; eassumption.
  Qed.

  (* two policies cannot be told apart *)
  Lemma policy_irrelevant pol1 pol2 prog sp :
    wf_p sp -> disciplined prog = true ->
    match run_p pol1 prog sp, run_p pol2 prog sp with
    | Some a, Some b => p_outs a = p_outs b /\ forall x, final_status prog x <> Dead -> deref a x = deref b x
    | None, None => True
    | _, _ => False
    end.
  Proof.
    intros W D.
    pose proof (pool_transparent pol1 prog sp W D) as A. pose proof (pool_transparent pol2 prog sp W D) as B.
    unfold same_observations in *.
    destruct (run_p pol1 prog sp), (run_p pol2 prog sp), (run_v prog (abs sp)); try contradiction; try exact I.
    destruct A as [A1 A2], B as [B1 B2]. split; [congruence|]. intros x Hx. rewrite A2, B2 by exact Hx. reflexivity.
  Qed.

  (* ---- what evaluation does not assign keeps its value --------------------------------------- *)
  Lemma step_v_keeps s i s' x : step_v s i = Some s' -> writes i x = false -> v_env s' x = v_env s x.
  Proof.
    destruct i as [y e|d y|e|y]; simpl; intros H Hw.
    - destruct (eval_v cell opsem (v_env s) e); inversion H; subst; simpl.
      apply upd_other. intros ->. rewrite N.eqb_refl in Hw. discriminate.
    - destruct (v_env s y); inversion H; subst; simpl.
      apply upd_other. intros ->. rewrite N.eqb_refl in Hw. discriminate.
    - destruct (eval_v cell opsem (v_env s) e); inversion H; subst; reflexivity.
    - inversion H; subst; reflexivity.
  Qed.

  Lemma run_v_keeps prog x : forall s s', run_v prog s = Some s' -> none_of writes x prog = true -> v_env s' x = v_env s x.
  Proof.
    induction prog as [|i rest IH]; simpl; intros s s' H Hn.
    - inversion H; subst; reflexivity.
    - apply andb_true_iff in Hn. destruct Hn as [Hi Hr]. apply negb_true_iff in Hi.
      destruct (step_v s i) as [s1|] eqn:E; [|discriminate].
      rewrite (IH s1 s' H Hr). eapply step_v_keeps; eassumption.
  Qed.

  Lemma status_kept prog x : forall se, check_prog se prog = true -> none_of writes x prog = true ->
    se x = Shared -> fold_left (trans (cell:=cell)) prog se x = Shared.
  Proof.
    induction prog as [|i rest IH]; simpl; intros se Hc Hn Hx; [exact Hx|].
    apply andb_true_iff in Hc. destruct Hc as [Hi Hr].
    apply andb_true_iff in Hn. destruct Hn as [Hw Hn]. apply negb_true_iff in Hw.
    apply IH; try assumption.
    destruct i as [y e|d y|e|y]; simpl in *.
    - rewrite upd_other; [exact Hx|]. intros ->. rewrite N.eqb_refl in Hw. discriminate.
    - rewrite upd_other; [|intros ->; rewrite N.eqb_refl in Hw; discriminate].
      destruct (N.eqb_spec x y) as [->|Hne]; [apply upd_same|rewrite upd_other by exact Hne; exact Hx].
    - exact Hx.
    - destruct (N.eqb_spec x y) as [->|Hne]; [rewrite Hx in Hi; discriminate|].
      rewrite upd_other by exact Hne. exact Hx.
  Qed.

  Lemma roots_preserved pol prog sp sp' x :
    wf_p sp -> disciplined prog = true -> none_of writes x prog = true ->
    run_p pol prog sp = Some sp' -> deref sp' x = deref sp x.
  Proof.
    intros W D Hn R. pose proof (pool_transparent pol prog sp W D) as T. unfold same_observations in T.
    rewrite R in T. destruct (run_v prog (abs sp)) as [sv'|] eqn:V; [|contradiction].
    destruct T as [_ T]. rewrite T.
    - rewrite (run_v_keeps prog x _ _ V Hn). reflexivity.
    - unfold final_status. rewrite (status_kept prog x all_shared D Hn eq_refl). discriminate.
  Qed.

  Lemma check_prog_app (p q : list instr) : forall se, check_prog se (p ++ q) = check_prog se p && check_prog (fold_left (trans (cell:=cell)) p se) q.
  Proof.
    induction p as [|i rest IH]; simpl; intros se; [reflexivity|].
    rewrite IH. rewrite andb_assoc. reflexivity.
  Qed.

  Lemma disciplined_prefix (p q : list instr) : disciplined (p ++ q) = true -> disciplined p = true.
  Proof. unfold disciplined. rewrite check_prog_app. intros H. apply andb_true_iff in H. tauto. Qed.

  Lemma none_of_app f x (p q : list instr) : none_of (cell:=cell) f x (p ++ q) = none_of f x p && none_of f x q.
  Proof. unfold none_of. apply forallb_app. Qed.

  (* at EVERY point of the evaluation, a ref the program does not assign reads as initially *)
  Lemma reads_see_initial pol pre post sp sp1 x :
    wf_p sp -> disciplined (pre ++ post) = true -> none_of writes x (pre ++ post) = true ->
    run_p pol pre sp = Some sp1 -> deref sp1 x = deref sp x.
  Proof.
    intros W D Hn R. rewrite none_of_app in Hn. apply andb_true_iff in Hn.
    destruct Hn as [Hn _]. apply (roots_preserved pol pre sp sp1 x W (disciplined_prefix pre post D) Hn R).
  Qed.

  (* ---- the pool-free semantics is a function of the values it can read ----------------------- *)
  Definition veq (a b : vstate) : Prop := (forall x, v_env a x = v_env b x) /\ v_outs a = v_outs b.

  Lemma eval_v_ext f g e : (forall x, f x = g x) -> eval_v cell opsem f e = eval_v cell opsem g e.
  Proof. intros H. induction e as [c|x|o a IHa b IHb]; simpl; [reflexivity|apply H|rewrite IHa, IHb; reflexivity]. Qed.

  Lemma upd_ext {A} (f g : N -> A) x a : (forall y, f y = g y) -> forall y, upd f x a y = upd g x a y.
  Proof. intros H y. unfold upd. destruct (N.eqb y x); [reflexivity|apply H]. Qed.

  Lemma step_v_ext a b i : veq a b ->
    match step_v a i, step_v b i with Some a', Some b' => veq a' b' | None, None => True | _, _ => False end.
  Proof.
    intros [He Ho]. destruct i as [x e|d x|e|x]; simpl.
    - rewrite (eval_v_ext _ _ e He). destruct (eval_v cell opsem (v_env b) e); [|exact I].
      split; simpl; [apply upd_ext; exact He|exact Ho].
    - rewrite He. destruct (v_env b x); [|exact I]. split; simpl; [apply upd_ext; exact He|exact Ho].
    - rewrite (eval_v_ext _ _ e He). destruct (eval_v cell opsem (v_env b) e); [|exact I].
      split; simpl; [exact He|rewrite Ho; reflexivity].
    - split; assumption.
  Qed.

  Lemma run_v_ext prog : forall a b, veq a b ->
    match run_v prog a, run_v prog b with Some a', Some b' => veq a' b' | None, None => True | _, _ => False end.
  Proof.
    induction prog as [|i rest IH]; simpl; intros a b H; [exact H|].
    pose proof (step_v_ext a b i H) as S.
    destruct (step_v a i), (step_v b i); try contradiction; [apply IH; exact S|exact I].
  Qed.

  (* ---- ast_immutable -------------------------------------------------------------------------- *)
  (* a statement (prog) is evaluated in sp giving sp1; later it is evaluated again in a state sp2
     in which the syntax tree (the refs in ast) is whatever the first evaluation LEFT BEHIND and all
     other refs read as they did before the first evaluation.  If no step assigns a ref of the tree,
     the second evaluation does not get stuck and produces the same outputs -- for any two pool
     policies, whatever the pool contains by then. *)
  Lemma ast_immutable ast prog pol1 pol2 sp sp1 sp2 :
    disciplined prog = true ->
    (forall k, In k ast -> none_of writes k prog = true) ->
    wf_p sp -> run_p pol1 prog sp = Some sp1 ->
    wf_p sp2 ->
    (forall k, In k ast -> deref sp2 k = deref sp1 k) ->
    (forall k, ~ In k ast -> deref sp2 k = deref sp k) ->
    p_outs sp2 = p_outs sp ->
    exists sp3, run_p pol2 prog sp2 = Some sp3 /\ p_outs sp3 = p_outs sp1
                /\ forall k, In k ast -> deref sp3 k = deref sp k.
  Proof.
    intros D Hast W R W2 Hin Hout Ho.
    assert (Hall : forall k, deref sp2 k = deref sp k).
    { intros k. destruct (in_dec N.eq_dec k ast) as [Hk|Hk].
      - rewrite (Hin k Hk). eapply roots_preserved; try eassumption. apply Hast. exact Hk.
      - apply Hout. exact Hk. }
    assert (E : veq (abs sp2) (abs sp)) by (split; simpl; assumption).
    pose proof (run_v_ext prog _ _ E) as X.
    pose proof (pool_transparent pol1 prog sp W D) as T1. pose proof (pool_transparent pol2 prog sp2 W2 D) as T2.
    unfold same_observations in *. rewrite R in T1.
    destruct (run_v prog (abs sp)) as [v1|] eqn:V1; [|contradiction].
    destruct (run_v prog (abs sp2)) as [v2|] eqn:V2; [|contradiction].
    destruct (run_p pol2 prog sp2) as [sp3|] eqn:R2; [|contradiction].
    exists sp3. destruct T1 as [O1 _], T2 as [O2 _], X as [_ Xo].
    split; [reflexivity|]. split; [congruence|].
    intros k Hk. rewrite (roots_preserved pol2 prog sp2 sp3 k W2 D (Hast k Hk) R2). apply Hall.
  Qed.

  (* ---- discipline_sound: the per-call-site facts imply the discipline ------------------------- *)
  (* what the facts of site s say about a trace `prog` in which the Discard at that site is executed
     on ref x at the position splitting prog into l1 ++ IDiscard x :: l3 *)
  Definition conforms (cs : list ctor) (prog : list instr) (s : site) (x : ref) (l1 l3 : list instr) : Prop :=
    prog = l1 ++ IDiscard x :: l3 /\
    (defs_fresh cs s = true \/ s_allow s = true ->
       exists l0 e l2, l1 = l0 ++ INew x e :: l2 /\ none_of defines x l2 = true) /\
    (s_escapes s = false \/ s_allow s = true -> none_of escapes x prog = true) /\
    (s_use_after s = false \/ s_allow s = true -> none_of mentions x l3 = true).

  Definition discards_described (prog : list instr) : Prop :=
    forall x l1 l3, prog = l1 ++ IDiscard x :: l3 ->
      (exists l0 e l2, l1 = l0 ++ INew x e :: l2 /\ none_of defines x l2 = true)
      /\ none_of escapes x prog = true /\ none_of mentions x l3 = true.

  Lemma dead_has_discard pre x : forall se, fold_left (trans (cell:=cell)) pre se x = Dead -> se x <> Dead ->
    exists a b, pre = a ++ IDiscard x :: b.
  Proof.
    induction pre as [|i rest IH]; simpl; intros se H Hx; [contradiction|].
    destruct (trans se i x) eqn:T.
    - destruct (IH _ H) as [a [b E]]; [rewrite T; discriminate|]. exists (i :: a), b. rewrite E. reflexivity.
    - destruct (IH _ H) as [a [b E]]; [rewrite T; discriminate|]. exists (i :: a), b. rewrite E. reflexivity.
    - destruct i as [y e|d y|e|y]; simpl in T.
      + destruct (N.eqb_spec x y) as [->|Hne]; [rewrite upd_same in T; discriminate|rewrite upd_other in T by exact Hne; contradiction].
      + destruct (N.eqb_spec x d) as [->|Hd]; [rewrite upd_same in T; discriminate|].
        rewrite upd_other in T by exact Hd.
        destruct (N.eqb_spec x y) as [->|Hy]; [rewrite upd_same in T; discriminate|rewrite upd_other in T by exact Hy; contradiction].
      + contradiction.
      + destruct (N.eqb_spec x y) as [->|Hne]; [exists [], rest; reflexivity|rewrite upd_other in T by exact Hne; contradiction].
  Qed.

  Lemma trans_preserve se (i : instr) x : defines i x = false -> escapes i x = false ->
    (forall y, i = IDiscard y -> y <> x) -> trans se i x = se x.
  Proof.
    destruct i as [y e|d y|e|y]; simpl; intros Hd He Hn.
    - apply upd_other. intros ->. rewrite N.eqb_refl in Hd. discriminate.
    - rewrite upd_other; [|intros ->; rewrite N.eqb_refl in Hd; discriminate].
      apply upd_other. intros ->. rewrite N.eqb_refl in He. discriminate.
    - reflexivity.
    - apply upd_other. intros ->. exact (Hn y eq_refl eq_refl).
  Qed.

  Lemma exp_ok_of se e : (forall x, exp_reads cell e x = true -> se x <> Dead) -> exp_ok cell se e = true.
  Proof.
    induction e as [c|y|f a IHa b IHb]; simpl; intros H.
    - reflexivity.
    - apply alive_not_dead. apply H. apply N.eqb_refl.
    - rewrite IHa, IHb; [reflexivity| |]; intros x Hx; apply H; rewrite Hx; [apply orb_true_r|reflexivity].
  Qed.

  Lemma described_disciplined prog : discards_described prog -> disciplined prog = true.
  Proof.
    intros H.
    assert (G : forall post pre, prog = pre ++ post ->
                check_prog (fold_left (trans (cell:=cell)) pre all_shared) post = true).
    { induction post as [|i post IH]; intros pre E; [reflexivity|].
      simpl. apply andb_true_iff. split.
      - (* the step is allowed *)
        assert (Hread : forall x, reads i x = true -> fold_left (trans (cell:=cell)) pre all_shared x <> Dead).
        { intros x Hr Hd.
          destruct (dead_has_discard pre x all_shared Hd) as [a [b Eab]]; [discriminate|].
          destruct (H x a (b ++ i :: post)) as [_ [_ Hm]].
          { rewrite E, Eab. rewrite <- app_assoc. reflexivity. }
          rewrite none_of_app in Hm. apply andb_true_iff in Hm. destruct Hm as [_ Hm].
          simpl in Hm. apply andb_true_iff in Hm. destruct Hm as [Hm _].
          apply negb_true_iff in Hm. unfold mentions in Hm. rewrite Hr in Hm. rewrite orb_true_r in Hm. discriminate. }
        destruct i as [y e|d y|e|y]; simpl.
        + apply exp_ok_of. intros x Hx. apply Hread. exact Hx.
        + apply alive_not_dead. apply Hread. simpl. apply N.eqb_refl.
        + apply exp_ok_of. intros x Hx. apply Hread. exact Hx.
        + destruct (H y pre post E) as [[l0 [e [l2 [E1 Hnd]]]] [Hesc _]].
          rewrite E1. rewrite fold_left_app. simpl.
          assert (P : forall l se, (forall j, In j l -> defines j y = false /\ escapes j y = false /\ (forall z, j = IDiscard z -> z <> y)) ->
                      fold_left (trans (cell:=cell)) l se y = se y).
          { induction l as [|j l IHl]; intros se Hl; [reflexivity|]. simpl.
            rewrite IHl; [|intros j' Hj'; apply Hl; right; exact Hj'].
            destruct (Hl j (or_introl eq_refl)) as [A [B C]]. apply trans_preserve; assumption. }
          rewrite P; [rewrite upd_same; reflexivity|].
          intros j Hj. repeat split.
          * unfold none_of in Hnd. rewrite forallb_forall in Hnd. apply negb_true_iff. apply Hnd. exact Hj.
          * unfold none_of in Hesc. rewrite forallb_forall in Hesc. apply negb_true_iff. apply Hesc.
            rewrite E, E1. apply in_or_app. left. apply in_or_app. right. right. exact Hj.
          * intros z -> ->.
            destruct (in_split _ _ Hj) as [l2a [l2b E2]].
            destruct (H y (l0 ++ INew y e :: l2a) (l2b ++ IDiscard y :: post)) as [_ [_ Hm]].
            { rewrite E, E1, E2. rewrite <- !app_assoc. simpl. rewrite <- app_assoc. reflexivity. }
            rewrite none_of_app in Hm. apply andb_true_iff in Hm. destruct Hm as [_ Hm].
            simpl in Hm. apply andb_true_iff in Hm. destruct Hm as [Hm _].
            apply negb_true_iff in Hm. unfold mentions in Hm. simpl in Hm. rewrite N.eqb_refl in Hm.
            discriminate.
      - (* the rest *)
        replace (trans (fold_left (trans (cell:=cell)) pre all_shared) i) with (fold_left (trans (cell:=cell)) (pre ++ [i]) all_shared)
          by (rewrite fold_left_app; reflexivity).
        apply IH. rewrite E. rewrite <- app_assoc. reflexivity. }
    exact (G prog [] eq_refl).
  Qed.

  Lemma site_holds_cases cs s : site_holds cs s = true ->
    (defs_fresh cs s = true \/ s_allow s = true) /\ (s_escapes s = false \/ s_allow s = true)
    /\ (s_use_after s = false \/ s_allow s = true).
  Proof.
    unfold site_holds, site_ok. intros H. apply orb_true_iff in H. destruct H as [H|H].
    - repeat (apply andb_true_iff in H; destruct H as [H ?]).
      repeat split; left; try assumption; apply negb_true_iff; assumption.
    - repeat split; right; exact H.
  Qed.

  Lemma discipline_sound cs sites prog :
    forallb (site_holds cs) sites = true ->
    (forall x l1 l3, prog = l1 ++ IDiscard x :: l3 -> exists s, In s sites /\ conforms cs prog s x l1 l3) ->
    disciplined prog = true.
  Proof.
    intros Hall Hc. apply described_disciplined. intros x l1 l3 E.
    destruct (Hc x l1 l3 E) as [s [Hs [_ [Ha [Hb Hd]]]]].
    rewrite forallb_forall in Hall. destruct (site_holds_cases cs s (Hall s Hs)) as [A [B C]].
    repeat split; [apply Ha; exact A|apply Hb; exact B|apply Hd; exact C].
  Qed.

  (* ---- end to end: facts => transparency ------------------------------------------------------ *)
  Lemma facts_give_transparency cs sites prog pol sp :
    forallb (site_holds cs) sites = true ->
    (forall x l1 l3, prog = l1 ++ IDiscard x :: l3 -> exists s, In s sites /\ conforms cs prog s x l1 l3) ->
    wf_p sp ->
    same_observations prog (run_p pol prog sp) (run_v prog (abs sp)).
  Proof. intros A B W. apply pool_transparent; [exact W|eapply discipline_sound; eassumption]. Qed.

  (* no IStore-like instruction on a tree ref when the write fact base has no shared write: the
     statement about the fact base is only this -- a trace generated from a function body can assign
     a tree ref only at a listed write site *)
  Lemma writes_sound (ws : list awrite) ast (prog : list instr) :
    forallb awrite_ok ws = true ->
    (forall i k, In i prog -> In k ast -> writes i k = true -> exists w, In w ws /\ aw_class w = AWShared) ->
    forall k, In k ast -> none_of writes k prog = true.
  Proof.
    intros Hall Hgen k Hk. unfold none_of. apply forallb_forall. intros i Hi.
    destruct (writes i k) eqn:Hw; [|reflexivity].
    destruct (Hgen i k Hi Hk Hw) as [w [Hin Hcl]].
    rewrite forallb_forall in Hall. specialize (Hall w Hin). unfold awrite_ok in Hall. rewrite Hcl in Hall. discriminate.
  Qed.
End Proofs.
