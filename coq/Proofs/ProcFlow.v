(* ProcFlow.v -- the flow-value interpreter (Model/Proc.v) computes exactly the continuation semantics of
   Model/ProcSpec.v, on every scope machine, for every answer type, at every fuel. *)
From Coq Require Import Floats Lia.
Require Import Csvq.Model.Base Csvq.Model.Value Csvq.Model.Compare Csvq.Model.Arith Csvq.Model.Proc Csvq.Model.ProcSpec.
Open Scope Z_scope.

#[local] Arguments push : simpl never.
#[local] Arguments pop : simpl never.
#[local] Arguments upd : simpl never.
#[local] Arguments emit : simpl never.
#[local] Arguments clear_top : simpl never.
#[local] Arguments declare_var : simpl never.
#[local] Arguments set_var : simpl never.
#[local] Arguments get_var : simpl never.
#[local] Arguments get_func : simpl never.
#[local] Arguments set_vars : simpl never.
#[local] Arguments declare_nulls : simpl never.
#[local] Arguments do_fetch : simpl never.
#[local] Arguments basic_pre : simpl never.
#[local] Arguments basic_post : simpl never.
#[local] Arguments basic_expr : simpl never.
#[local] Arguments eval_cur_open : simpl never.
#[local] Arguments eval_cur_count : simpl never.
#[local] Arguments eval_temp_count : simpl never.
#[local] Arguments args_len_ok : simpl never.
#[local] Arguments ternary_of : simpl never.
#[local] Arguments calculate : simpl never.
#[local] Arguments compare_op : simpl never.
#[local] Arguments op_eq : simpl never.
#[local] Arguments lift_res : simpl never.
#[local] Arguments is_null : simpl never.

Section Flow.
  Variable M : machine.
  Variable A : Type.
  Notation st := (gst M).
  Notation konts := (konts M A).
  Notation econts := (econts M A).

  Definition ldispatch (r : lres * st) (k : list val -> st -> A) (ke : perr -> st -> A) (kf : st -> A) : A :=
    match r with (LVals vs, s) => k vs s | (LErr e, s) => ke e s | (LOOF, s) => kf s end.
  Definition bdispatch (r : option eres * st) (kok : st -> A) (kfail : eres -> st -> A) : A :=
    match r with (None, s) => kok s | (Some x, s) => kfail x s end.

  Definition F_eval n := forall e (E : econts) s, keval M A n e E s = edispatch M A (eval M n e s) E.
  Definition F_eval_list n := forall es k ke kf s, keval_list M A n es k ke kf s = ldispatch (eval_list M n es s) k ke kf.
  Definition F_call n := forall fd vs (E : econts) s, kcall M A n fd vs E s = edispatch M A (call M n fd vs s) E.
  Definition F_bind n := forall ps vs kok kfail s, kbind M A n ps vs kok kfail s = bdispatch (bind_params M n ps vs s) kok kfail.
  Definition F_exec n := forall t (K : konts) s, kexec M A n t K s = dispatch M A (exec M n t s) K.
  Definition F_exec_list n := forall ts (K : konts) s, kexec_list M A n ts K s = dispatch M A (exec_list M n ts s) K.
  Definition F_child n := forall ts (K : konts) s, kchild M A n ts K s = dispatch M A (exec_child M n ts s) K.
  Definition F_if n := forall brs els (K : konts) s, kif M A n brs els K s = dispatch M A (exec_if M n brs els s) K.
  Definition F_case n := forall vv ws els (K : konts) s, kcase M A n vv ws els K s = dispatch M A (exec_case M n vv ws els s) K.
  Definition F_while n := forall c body (K : konts) s, kwhile M A n c body K s = dispatch M A (while_loop M n c body s) K.
  Definition F_whilein n := forall d vars cur body (K : konts) s,
    kwhilein M A n d vars cur body K s = dispatch M A (whilein_loop M n d vars cur body s) K.
  Definition F_all n := F_eval n /\ F_eval_list n /\ F_call n /\ F_bind n /\ F_exec n /\ F_exec_list n /\ F_child n /\
                        F_if n /\ F_case n /\ F_while n /\ F_whilein n.

  Lemma dispatch_closing : forall o s (K : konts), dispatch M A (o, s) (closing M A K) = dispatch M A (o, pop M s) K.
  Proof. intros o s K. destruct o; reflexivity. Qed.

  Ltac dm :=
    match goal with
    | |- context [match ?x with _ => _ end] =>
        lazymatch x with
        | context [match _ with _ => _ end] => fail
        | _ => destruct x
        end
    end.

  Lemma flow_all : forall n, F_all n.
  Proof.
    induction n as [|n IH].
    { unfold F_all; repeat apply conj; intro; intros; reflexivity. }
    destruct IH as (IHe & IHl & IHc & IHb & IHx & IHxl & IHch & IHif & IHcase & IHw & IHwi).
    Ltac rw IHe IHl IHc IHb IHx IHxl IHch IHif IHcase IHw IHwi :=
      repeat first [ rewrite IHe | rewrite IHl | rewrite IHc | rewrite IHb | rewrite IHx | rewrite IHxl | rewrite IHch
                   | rewrite IHif | rewrite IHcase | rewrite IHw | rewrite IHwi ].
    Ltac solve_flow IHe IHl IHc IHb IHx IHxl IHch IHif IHcase IHw IHwi :=
      repeat (rw IHe IHl IHc IHb IHx IHxl IHch IHif IHcase IHw IHwi;
              unfold edispatch, ldispatch, bdispatch, dispatch, give, finish, fin_basic; simpl;
              try reflexivity; try dm; simpl; try reflexivity).
    assert (Heval : F_eval (S n)).
    { intros e E s. destruct e; simpl; solve_flow IHe IHl IHc IHb IHx IHxl IHch IHif IHcase IHw IHwi. }
    assert (Hlist : F_eval_list (S n)).
    { intros es k ke kf s. destruct es; simpl; solve_flow IHe IHl IHc IHb IHx IHxl IHch IHif IHcase IHw IHwi. }
    assert (Hcall : F_call (S n)).
    { intros fd vs E s. simpl. solve_flow IHe IHl IHc IHb IHx IHxl IHch IHif IHcase IHw IHwi. }
    assert (Hbind : F_bind (S n)).
    { intros ps vs kok kfail s. destruct ps as [|[x d] ps]; simpl; solve_flow IHe IHl IHc IHb IHx IHxl IHch IHif IHcase IHw IHwi. }
    assert (Hexec : F_exec (S n)).
    { intros t K s. destruct t; simpl; unfold exec_basic; solve_flow IHe IHl IHc IHb IHx IHxl IHch IHif IHcase IHw IHwi. }
    assert (Hxl : F_exec_list (S n)).
    { intros ts K s. destruct ts; simpl; solve_flow IHe IHl IHc IHb IHx IHxl IHch IHif IHcase IHw IHwi. }
    assert (Hch : F_child (S n)).
    { intros ts K s. simpl. solve_flow IHe IHl IHc IHb IHx IHxl IHch IHif IHcase IHw IHwi. }
    assert (Hif : F_if (S n)).
    { intros brs els K s. destruct brs as [|[c ts] brs]; simpl; solve_flow IHe IHl IHc IHb IHx IHxl IHch IHif IHcase IHw IHwi. }
    assert (Hcase : F_case (S n)).
    { intros vv ws els K s. destruct ws as [|[c ts] ws]; simpl; solve_flow IHe IHl IHc IHb IHx IHxl IHch IHif IHcase IHw IHwi. }
    assert (Hw : F_while (S n)).
    { intros c body K s. simpl. solve_flow IHe IHl IHc IHb IHx IHxl IHch IHif IHcase IHw IHwi. }
    assert (Hwi : F_whilein (S n)).
    { intros d vars cur body K s. destruct d; simpl; solve_flow IHe IHl IHc IHb IHx IHxl IHch IHif IHcase IHw IHwi. }
    unfold F_all; repeat apply conj; assumption.
  Qed.
End Flow.
