(* ProcKeep.v -- what a block or a call can do to the bindings of one variable name x in the blocks
   below it (stack machine).  Two readings of one induction:
     md = false ("no write"): code that never assigns, fetches into or disposes @x leaves every
                              outer binding of @x as it was  -- an outer variable changes only if it
                              is assigned;
     md = true  ("shadow"):   while some block at level k binds @x and nothing disposes @x, every
                              binding of @x below level k is untouched, whatever is assigned. *)
From Coq Require Import Floats Lia.
Require Import Csvq.Model.Base Csvq.Model.Value Csvq.Model.Compare Csvq.Model.Arith Csvq.Model.Proc.
Require Import Csvq.Proofs.ProcLocal.
Open Scope Z_scope.

#[local] Arguments view : simpl never.
#[local] Arguments frames : simpl never.

Section Safe.
  Variable md : bool.
  Variable x : str.

  Fixpoint safe_e (e : pexpr) : bool :=
    match e with
    | PAssign y a => (md || negb (str_eqb y x)) && safe_e a
    | PArith _ a b | PCmp _ a b | PAnd a b | POr a b => safe_e a && safe_e b
    | PNot a => safe_e a
    | PCall _ args => forallb safe_e args
    | _ => true
    end.
  Definition safe_oe (o : option pexpr) : bool := match o with Some e => safe_e e | None => true end.
  Definition safe_params (ps : list (str * option pexpr)) : bool := forallb (fun p => safe_oe (snd p)) ps.

  Fixpoint safe_s (t : stmt) : bool :=
    match t with
    | SVar _ o => safe_oe o
    | SExpr e | SPrint e | SInsert _ e | SReturn e => safe_e e
    | SDisposeVar y => negb (str_eqb y x)
    | SFetch _ vars => md || negb (mem_str x vars)
    | SFunc _ params body => safe_params params && forallb safe_s body
    | SIf brs els =>
        forallb (fun b => let '(c, ts) := b in safe_e c && forallb safe_s ts) brs && forallb safe_s els
    | SCase v ws els =>
        safe_oe v && forallb (fun b => let '(c, ts) := b in safe_e c && forallb safe_s ts) ws && forallb safe_s els
    | SWhile c body => safe_e c && forallb safe_s body
    | SWhileIn _ vars _ body => (md || negb (mem_str x vars)) && forallb safe_s body
    | _ => true
    end.
  Definition safe_fd (fd : fdef) : bool := safe_params (fst fd) && forallb safe_s (snd fd).
  Definition cell_safe (c : cell) : Prop := forall f fd, In (f, fd) (c_funcs c) -> safe_fd fd = true.
  Definition store_safe (fs : list cell) : Prop := Forall cell_safe fs.
End Safe.

(* ---- list facts ------------------------------------------------------------------------------------ *)
Lemma skipn_list_upd_lt : forall A (f : A -> A) m i (l : list A), (i < m)%nat -> skipn m (list_upd i f l) = skipn m l.
Proof.
  intros A f. induction m as [|m IH]; intros i l H; [lia|].
  destruct l as [|a l]; destruct i as [|i]; simpl; auto. apply IH. lia.
Qed.
Lemma skipn_list_upd_map : forall A B (g : A -> B) (f : A -> A), (forall a, g (f a) = g a) ->
  forall m i (l : list A), map g (skipn m (list_upd i f l)) = map g (skipn m l).
Proof.
  intros A B g f Hg. induction m as [|m IH]; intros i l.
  - simpl. revert i. induction l as [|a l IHl]; intros [|i]; simpl; auto; f_equal; auto.
  - destruct l as [|a l]; destruct i as [|i]; simpl; auto.
Qed.
Lemma nth_error_list_upd : forall A (f : A -> A) i j (l : list A),
  nth_error (list_upd i f l) j = if Nat.eqb i j then option_map f (nth_error l j) else nth_error l j.
Proof.
  intros A f i j l. revert i j. induction l as [|a l IH]; intros i j.
  - destruct i, j; simpl; auto; destruct (Nat.eqb i j); reflexivity.
  - destruct i as [|i], j as [|j]; simpl; auto.
Qed.
Lemma find_frame_first : forall p fs j c, nth_error fs j = Some c -> p c = true ->
  exists i, find_frame p fs = Some i /\ (i <= j)%nat.
Proof.
  intros p. induction fs as [|a fs IH]; intros j c Hn Hp; [destruct j; discriminate|].
  simpl. destruct (p a) eqn:E; [exists O; split; auto; lia|].
  destruct j as [|j]; simpl in Hn; [inversion Hn; subst; congruence|].
  destruct (IH j c Hn Hp) as (i & Hi & Hle). rewrite Hi. exists (S i). split; auto. lia.
Qed.
Lemma find_frame_some : forall p fs i, find_frame p fs = Some i -> (i < length fs)%nat.
Proof.
  intros p. induction fs as [|a fs IH]; intros i H; simpl in H; [discriminate|].
  destruct (p a); [inversion H; simpl; lia|].
  destruct (find_frame p fs) as [j|]; [|discriminate]. inversion H; subst. specialize (IH j eq_refl). simpl. lia.
Qed.

Lemma Forall_list_upd : forall A (P : A -> Prop) (f : A -> A), (forall a, P a -> P (f a)) ->
  forall i l, Forall P l -> Forall P (list_upd i f l).
Proof.
  intros A P f Hf i l H. revert i. induction H as [|a l Ha Hl IH]; intros [|i]; simpl; constructor; auto.
Qed.

Lemma alookup_In : forall A (K : str) (l : list (str * A)) v, alookup K l = Some v -> exists k', In (k', v) l.
Proof.
  induction l as [|[k' v'] l IH]; simpl; intros v H; [discriminate|].
  destruct (str_eqb K k'); [inversion H; subst; exists k'; left; reflexivity|].
  destruct (IH v H) as (k2 & Hin). exists k2. right. exact Hin.
Qed.

Section KeepX.
  Variable md : bool.
  Variable x : str.
  Variable k : nat.       (* the protected blocks: the k outermost ones (levels 0 .. k-1) *)

  Definition xb (c : cell) : option val := alookup x (c_vars c).
  Definition bot (fs : list cell) : list cell := skipn (length fs - k) fs.
  (* the block at level k exists and binds @x *)
  Definition binds (fs : list cell) : Prop :=
    (k < length fs)%nat /\ exists c, nth_error fs (length fs - 1 - k) = Some c /\ has_var x c = true.
  Definition G (fs : list cell) : Prop := if md then binds fs else True.
  Definition Pre (s : pst) : Prop := G (frames s) /\ store_safe md x (frames s).
  Definition Good (s s' : pst) : Prop :=
    length (frames s') = length (frames s) /\ map xb (bot (frames s')) = map xb (bot (frames s)) /\ Pre s'.
  Definition Inv (s s' : pst) : Prop := Pre s -> Good s s'.

  Lemma Inv_refl : forall s, Inv s s.
  Proof. intros s H. repeat split; auto; apply H. Qed.
  Lemma Inv_trans : forall a b c, Inv a b -> Inv b c -> Inv a c.
  Proof.
    intros a b c H1 H2 Ha. destruct (H1 Ha) as (L1 & K1 & P1). destruct (H2 P1) as (L2 & K2 & P2).
    repeat split; try apply P2; congruence.
  Qed.

  Lemma has_var_xb : forall c, has_var x c = match xb c with Some _ => true | None => false end.
  Proof. reflexivity. Qed.

  (* an update that does not change the binding of @x in the cell it touches *)
  Lemma upd_inv_pres : forall i f s,
    (forall c, xb (f c) = xb c) -> (forall c, cell_safe md x c -> cell_safe md x (f c)) -> Inv s (upd pureM i f s).
  Proof.
    intros i f s Hx Hs [HG HS]. unfold Good, Pre. rewrite len_upd, frames_upd. repeat split; auto.
    - unfold bot. rewrite length_list_upd. apply skipn_list_upd_map. exact Hx.
    - unfold G in *. destruct md; auto. destruct HG as (Hk & c & Hn & Hc). split; [rewrite length_list_upd; exact Hk|].
      rewrite length_list_upd, nth_error_list_upd, Hn.
      destruct (Nat.eqb i (length (frames s) - 1 - k)); simpl; eexists; split; eauto.
      rewrite has_var_xb, Hx, <- has_var_xb. exact Hc.
    - apply Forall_list_upd; assumption.
  Qed.

  (* an update of a block above the protected ones that keeps @x bound where it was bound *)
  Lemma upd_inv_mono : forall i f s,
    (i + k < length (frames s))%nat -> (forall c, has_var x c = true -> has_var x (f c) = true) ->
    (forall c, cell_safe md x c -> cell_safe md x (f c)) -> Inv s (upd pureM i f s).
  Proof.
    intros i f s Hi Hx Hs [HG HS]. unfold Good, Pre. rewrite len_upd, frames_upd. repeat split; auto.
    - unfold bot. rewrite length_list_upd. f_equal. apply skipn_list_upd_lt. lia.
    - unfold G in *. destruct md; auto. destruct HG as (Hk & c & Hn & Hc). split; [rewrite length_list_upd; exact Hk|].
      rewrite length_list_upd, nth_error_list_upd, Hn.
      destruct (Nat.eqb i (length (frames s) - 1 - k)); simpl; eexists; split; eauto.
    - apply Forall_list_upd; assumption.
  Qed.

  (* an update of a block strictly above level k: anything may happen to its variables *)
  Lemma upd_inv_above : forall i f s,
    (i + k + 1 < length (frames s))%nat -> (forall c, cell_safe md x c -> cell_safe md x (f c)) -> Inv s (upd pureM i f s).
  Proof.
    intros i f s Hi Hs [HG HS]. unfold Good, Pre. rewrite len_upd, frames_upd. repeat split; auto.
    - unfold bot. rewrite length_list_upd. f_equal. apply skipn_list_upd_lt. lia.
    - unfold G in *. destruct md; auto. destruct HG as (Hk & c & Hn & Hc). split; [rewrite length_list_upd; exact Hk|].
      rewrite length_list_upd, nth_error_list_upd, Hn.
      destruct (Nat.eqb i (length (frames s) - 1 - k)) eqn:E; [apply Nat.eqb_eq in E; lia|]. eexists; split; eauto.
    - apply Forall_list_upd; assumption.
  Qed.

  (* how far above level k an arbitrary update (ClearCurrentBlock) must be: in shadow mode the block at
     level k itself must be spared, in no-write mode only the protected blocks *)
  Definition sl : nat := if md then 1%nat else 0%nat.
  Lemma sl_le : (sl <= 1)%nat.
  Proof. unfold sl. destruct md; lia. Qed.
  Lemma upd_inv_free : forall i f s,
    (i + k + sl < length (frames s))%nat -> (forall c, cell_safe md x c -> cell_safe md x (f c)) -> Inv s (upd pureM i f s).
  Proof.
    intros i f s Hi Hs.
    assert (Hcase : md = true \/ md = false) by (destruct md; auto).
    destruct Hcase as [E|E]; unfold sl in Hi; rewrite E in Hi.
    - apply upd_inv_above; [lia|exact Hs].
    - intros [HG HS]. unfold Good, Pre. rewrite len_upd, frames_upd. repeat split; auto.
      + unfold bot. rewrite length_list_upd. f_equal. apply skipn_list_upd_lt. lia.
      + unfold G. rewrite E. exact I.
      + apply Forall_list_upd; assumption.
  Qed.

  Lemma emit_inv : forall v s, Inv s (emit pureM v s).
  Proof. intros v s H. repeat split; auto; apply H. Qed.

  Lemma cell_safe_empty : cell_safe md x empty_cell.
  Proof. intros f fd []. Qed.

  Lemma bot_cons : forall c fs, (k <= length fs)%nat -> bot (c :: fs) = bot fs.
  Proof. intros c fs H. unfold bot. simpl length. replace (S (length fs) - k)%nat with (S (length fs - k)) by lia. reflexivity. Qed.

  (* push ; body ; pop *)
  Lemma bracket_inv : forall s s1, (k <= length (frames s))%nat ->
    length (frames s1) = S (length (frames s)) -> Inv (push pureM s) s1 -> Inv s (pop pureM s1).
  Proof.
    intros s s1 Hk Hl Hi [HG HS].
    assert (Hp : Pre (push pureM s)).
    { split; rewrite frames_push; [|constructor; auto using cell_safe_empty].
      unfold G in *. destruct md; auto. destruct HG as (Hk' & c & Hn & Hc). split; [simpl; lia|].
      exists c. split; auto. simpl length. replace (S (length (frames s)) - 1 - k)%nat with (S (length (frames s) - 1 - k)) by lia. exact Hn. }
    destruct (Hi Hp) as (L1 & K1 & [G1 S1]). rewrite frames_push in K1.
    destruct (frames s1) as [|c1 rest] eqn:E1; [simpl in Hl; discriminate|]. simpl in Hl.
    assert (Hr : length rest = length (frames s)) by lia.
    unfold Good, Pre. rewrite frames_pop, E1. simpl tl. repeat split; auto.
    - rewrite bot_cons in K1 by lia. rewrite bot_cons in K1 by lia. exact K1.
    - unfold G in *. destruct md; auto. destruct HG as (Hk' & _). destruct G1 as (_ & c & Hn & Hc). split; [lia|].
      exists c. split; auto. simpl length in Hn. replace (S (length rest) - 1 - k)%nat with (S (length rest - 1 - k)) in Hn by lia. exact Hn.
    - inversion S1; assumption.
  Qed.

  (* ---- cell updates used by the interpreter ---------------------------------------------------- *)
  Lemma safe_with_vars : forall g c, cell_safe md x c -> cell_safe md x (with_vars g c).
  Proof. intros g c H. exact H. Qed.
  Lemma safe_with_curs : forall g c, cell_safe md x c -> cell_safe md x (with_curs g c).
  Proof. intros g c H. exact H. Qed.
  Lemma safe_with_temps : forall g c, cell_safe md x c -> cell_safe md x (with_temps g c).
  Proof. intros g c H. exact H. Qed.
  Lemma safe_with_funcs_cons : forall F fd c, safe_fd md x fd = true -> cell_safe md x c -> cell_safe md x (with_funcs (cons (F, fd)) c).
  Proof. intros F fd c Hfd H f fd' [E|Hin]; [inversion E; subst; exact Hfd|eapply H; eauto]. Qed.
  Lemma In_aremove : forall A (F : str) (l : list (str * A)) p, In p (aremove F l) -> In p l.
  Proof.
    induction l as [|[k' v] l IH]; simpl; intros p H; auto.
    destruct (str_eqb F k'); [right; exact H|]. destruct H as [H|H]; [left; exact H|right; apply IH; exact H].
  Qed.
  Lemma safe_with_funcs_aremove : forall F c, cell_safe md x c -> cell_safe md x (with_funcs (aremove F) c).
  Proof. intros F c H f fd Hin. eapply H. eapply In_aremove. exact Hin. Qed.
  Lemma safe_clear : forall c, cell_safe md x c -> cell_safe md x ((fun _ => empty_cell) c).
  Proof. intros. apply cell_safe_empty. Qed.

  Lemma xb_aset_other : forall y v c, str_eqb y x = false -> xb (with_vars (aset y v) c) = xb c.
  Proof. intros y v c H. unfold xb; simpl. rewrite alookup_aset. rewrite str_eqb_sym, H. reflexivity. Qed.
  Lemma xb_aremove_other : forall y c, str_eqb y x = false -> xb (with_vars (aremove y) c) = xb c.
  Proof. intros y c H. unfold xb; simpl. apply alookup_aremove_other. rewrite str_eqb_sym. exact H. Qed.
  Lemma has_var_cons : forall y v c, has_var x c = true -> has_var x (with_vars (cons (y, v)) c) = true.
  Proof. intros y v c H. unfold has_var, ahas in *; simpl. destruct (str_eqb x y); auto. Qed.
  Lemma has_var_aset : forall y v c, has_var x c = true -> has_var x (with_vars (aset y v) c) = true.
  Proof. intros y v c H. unfold has_var in *; simpl. rewrite ahas_aset. exact H. Qed.

  (* ---- primitives ------------------------------------------------------------------------------- *)
  Lemma declare_var_inv : forall y v s o s', (k < length (frames s))%nat -> declare_var pureM y v s = (o, s') -> Inv s s'.
  Proof.
    unfold declare_var. intros y v s o s' Hk H. destruct (has_var y (top_cell (view pureM s))); inversion H; subst.
    - apply Inv_refl.
    - apply upd_inv_mono; [lia|apply has_var_cons|apply safe_with_vars].
  Qed.
  Lemma declare_nulls_inv : forall ys s o s', (k < length (frames s))%nat -> declare_nulls pureM ys s = (o, s') -> Inv s s'.
  Proof.
    induction ys as [|y ys IH]; intros s o s' Hk H; simpl in H.
    - inversion H; subst. apply Inv_refl.
    - destruct (declare_var pureM y VNull s) as [[e|] s1] eqn:E.
      + inversion H; subst. eapply declare_var_inv; eauto.
      + eapply Inv_trans; [eapply declare_var_inv; eauto|]. eapply IH; eauto. erewrite len_declare_var; eauto.
  Qed.
  Lemma set_var_inv : forall y v s o s', (md = true \/ str_eqb y x = false) -> set_var pureM y v s = (o, s') -> Inv s s'.
  Proof.
    unfold set_var. intros y v s o s' Hc H.
    destruct (find_frame (has_var y) (view pureM s)) as [i|] eqn:E; inversion H; subst; [|apply Inv_refl].
    destruct (str_eqb y x) eqn:Eyx.
    - destruct Hc as [Hmd|Hc]; [|discriminate]. apply str_eqb_eq in Eyx. subst y.
      intros Hpre. pose proof Hpre as [HG _]. unfold G in HG. rewrite Hmd in HG. destruct HG as (Hk & c & Hn & Hcx).
      destruct (find_frame_first (has_var x) _ _ _ Hn Hcx) as (i' & Hi' & Hle).
      change (view pureM s) with (frames s) in E. rewrite E in Hi'. inversion Hi'; subst i'.
      apply upd_inv_mono; [lia|apply has_var_aset|apply safe_with_vars|exact Hpre].
    - apply upd_inv_pres; [intros; apply xb_aset_other; exact Eyx|apply safe_with_vars].
  Qed.
  Lemma set_vars_inv : forall ys vs s o s', (md = true \/ mem_str x ys = false) -> set_vars pureM ys vs s = (o, s') -> Inv s s'.
  Proof.
    induction ys as [|y ys IH]; intros vs s o s' Hc H; simpl in H.
    - inversion H; subst. apply Inv_refl.
    - destruct vs as [|v vs]; [inversion H; subst; apply Inv_refl|].
      assert (Hy : md = true \/ str_eqb y x = false).
      { destruct Hc as [Hc|Hc]; [left; exact Hc|right]. simpl in Hc. apply Bool.orb_false_elim in Hc. rewrite str_eqb_sym. apply Hc. }
      assert (Hys : md = true \/ mem_str x ys = false).
      { destruct Hc as [Hc|Hc]; [left; exact Hc|right]. simpl in Hc. apply Bool.orb_false_elim in Hc. apply Hc. }
      destruct (set_var pureM y v s) as [[e|] s1] eqn:E.
      + inversion H; subst. eapply set_var_inv; eauto.
      + eapply Inv_trans; [eapply set_var_inv; eauto|eapply IH; eauto].
  Qed.
  Lemma do_fetch_inv : forall c vars s r s', (md = true \/ mem_str x vars = false) -> do_fetch pureM c vars s = (r, s') -> Inv s s'.
  Proof.
    unfold do_fetch. intros c vars s r s' Hc H.
    destruct (find_frame (has_cur (ascii_upper c)) (view pureM s)) as [i|]; [|inversion H; subst; apply Inv_refl].
    destruct (alookup (ascii_upper c) (c_curs (nth i (view pureM s) empty_cell))) as [cu|]; [|inversion H; subst; apply Inv_refl].
    destruct (negb (cu_open cu)); [inversion H; subst; apply Inv_refl|].
    destruct (cu_idx cu + 1 <? 0); [inversion H; subst; apply upd_inv_pres; [reflexivity|apply safe_with_curs]|].
    destruct (Z.of_nat (length (cu_rows cu)) <=? cu_idx cu + 1); [inversion H; subst; apply upd_inv_pres; [reflexivity|apply safe_with_curs]|].
    destruct (negb (Nat.eqb (length vars) 1)); [inversion H; subst; apply upd_inv_pres; [reflexivity|apply safe_with_curs]|].
    match type of H with context [set_vars pureM ?a ?b ?c] => destruct (set_vars pureM a b c) as [[e|] s2] eqn:E end;
      inversion H; subst; (eapply Inv_trans; [|eapply set_vars_inv; eauto]; apply upd_inv_pres; [reflexivity|apply safe_with_curs]).
  Qed.

  Lemma get_func_safe : forall f s fd, store_safe md x (frames s) -> get_func pureM f s = Some fd -> safe_fd md x fd = true.
  Proof.
    unfold get_func. intros f s fd HS. change (view pureM s) with (frames s). induction HS as [|c l Hc Hl IH]; simpl; [discriminate|].
    destruct (alookup (ascii_upper f) (c_funcs c)) as [fd'|] eqn:E; intros H.
    - inversion H; subst. destruct (alookup_In _ _ _ _ E) as (k' & Hin). eapply Hc. exact Hin.
    - apply IH. exact H.
  Qed.

  Lemma or_of_orb : forall b vars, (b || negb (mem_str x vars) = true)%bool -> b = true \/ mem_str x vars = false.
  Proof. intros b vars H. destruct b; [left; reflexivity|right]. simpl in H. destruct (mem_str x vars); [discriminate|reflexivity]. Qed.

  Lemma basic_post_inv : forall t v s o s', (k < length (frames s))%nat -> safe_s md x t = true ->
    basic_post pureM t v s = (o, s') -> Inv s s'.
  Proof.
    intros t v s o s' Hk Hs H. destruct t; simpl in H, Hs;
      try (inversion H; subst; apply Inv_refl; fail);
      try (eapply declare_var_inv; eauto; fail).
    - (* DISPOSE @y *)
      destruct (find_frame (has_var x0) (view pureM s)); inversion H; subst; [|apply Inv_refl].
      apply upd_inv_pres; [intros; apply xb_aremove_other|apply safe_with_vars].
      destruct (str_eqb x0 x); [discriminate|reflexivity].
    - inversion H; subst. apply emit_inv.
    - (* function declaration *)
      destruct (has_func (ascii_upper f) (top_cell (view pureM s))); [inversion H; subst; apply Inv_refl|].
      destruct (dup_names (map fst params)); inversion H; subst; [apply Inv_refl|].
      apply upd_inv_pres; [reflexivity|intros; apply safe_with_funcs_cons; auto].
    - destruct (find_frame (has_func (ascii_upper f)) (view pureM s)); inversion H; subst; [|apply Inv_refl].
      apply upd_inv_pres; [reflexivity|apply safe_with_funcs_aremove].
    - destruct (has_cur (ascii_upper c) (top_cell (view pureM s))); inversion H; subst; [apply Inv_refl|].
      apply upd_inv_pres; [reflexivity|apply safe_with_curs].
    - destruct (find_frame (has_cur (ascii_upper c)) (view pureM s)) as [i|]; [|inversion H; subst; apply Inv_refl].
      destruct (alookup (ascii_upper c) (c_curs (nth i (view pureM s) empty_cell))) as [cu|]; [|inversion H; subst; apply Inv_refl].
      destruct (cu_open cu); inversion H; subst; [apply Inv_refl|]. apply upd_inv_pres; [reflexivity|apply safe_with_curs].
    - destruct (find_frame (has_cur (ascii_upper c)) (view pureM s)) as [i|]; [|inversion H; subst; apply Inv_refl].
      destruct (alookup (ascii_upper c) (c_curs (nth i (view pureM s) empty_cell))) as [cu|]; inversion H; subst; [|apply Inv_refl].
      apply upd_inv_pres; [reflexivity|apply safe_with_curs].
    - destruct (do_fetch pureM c vars s) as [[| |e] s1] eqn:E; inversion H; subst; eapply do_fetch_inv; eauto using or_of_orb.
    - destruct (find_frame (has_cur (ascii_upper c)) (view pureM s)); inversion H; subst; [|apply Inv_refl].
      apply upd_inv_pres; [reflexivity|apply safe_with_curs].
    - destruct (find_frame (has_temp (ascii_upper t)) (view pureM s)); inversion H; subst; [apply Inv_refl|].
      apply upd_inv_pres; [reflexivity|apply safe_with_temps].
    - destruct (find_frame (has_temp (ascii_upper t)) (view pureM s)) as [i|]; [|inversion H; subst; apply Inv_refl].
      destruct (alookup (ascii_upper t) (c_temps (nth i (view pureM s) empty_cell))); inversion H; subst; [|apply Inv_refl].
      apply upd_inv_pres; [reflexivity|apply safe_with_temps].
    - destruct (find_frame (has_temp (ascii_upper t)) (view pureM s)); inversion H; subst; [|apply Inv_refl].
      apply upd_inv_pres; [reflexivity|apply safe_with_temps].
  Qed.

  Lemma basic_expr_safe : forall t e, safe_s md x t = true -> basic_expr t = Some e -> safe_e md x e = true.
  Proof. intros t e Hs H. destruct t; simpl in *; try discriminate; try (inversion H; subst; exact Hs). destruct init; inversion H; subst. exact Hs. Qed.

  Lemma exec_basic_inv : forall ev,
    (forall e s r s', ev e s = (r, s') -> length (frames s') = length (frames s)) ->
    (forall e s r s', (k <= length (frames s))%nat -> safe_e md x e = true -> ev e s = (r, s') -> Inv s s') ->
    forall t s o s', (k < length (frames s))%nat -> safe_s md x t = true -> exec_basic pureM ev t s = (o, s') -> Inv s s'.
  Proof.
    intros ev Hlen Hev t s o s' Hk Hs H. unfold exec_basic in H.
    destruct (basic_pre pureM t s); [inversion H; subst; apply Inv_refl|].
    destruct (basic_expr t) as [e|] eqn:Ee.
    - pose proof (basic_expr_safe _ _ Hs Ee) as Hse.
      destruct (ev e s) as [[v|er|] s1] eqn:E; try (inversion H; subst; eapply Hev; eauto; lia).
      eapply Inv_trans; [eapply Hev; eauto; lia|].
      pose proof (Hlen _ _ _ _ E) as Hl.
      destruct (basic_post pureM t v s1) as [[er|] s2] eqn:E2; simpl in H; inversion H; subst; eapply basic_post_inv; eauto; lia.
    - destruct (basic_post pureM t VNull s) as [[er|] s2] eqn:E2; simpl in H; inversion H; subst; eapply basic_post_inv; eauto.
  Qed.
End KeepX.
#[local] Arguments push : simpl never.
#[local] Arguments pop : simpl never.
#[local] Arguments upd : simpl never.
#[local] Arguments emit : simpl never.
#[local] Arguments clear_top : simpl never.
#[local] Arguments declare_var : simpl never.
#[local] Arguments set_var : simpl never.
#[local] Arguments get_var : simpl never.
#[local] Arguments get_func : simpl never.
#[local] Arguments set_vars : simpl never.
#[local] Arguments declare_nulls : simpl never.
#[local] Arguments do_fetch : simpl never.
#[local] Arguments exec_basic : simpl never.
#[local] Arguments eval_cur_open : simpl never.
#[local] Arguments eval_cur_count : simpl never.
#[local] Arguments eval_temp_count : simpl never.
#[local] Arguments args_len_ok : simpl never.
#[local] Arguments ternary_of : simpl never.
#[local] Arguments calculate : simpl never.
#[local] Arguments compare_op : simpl never.
#[local] Arguments op_eq : simpl never.


Section KeepInterp.
  Variable md : bool.
  Variable x : str.
  Variable k : nat.
  Notation Inv := (Inv md x k).
  Notation safe_e := (safe_e md x).
  Notation safe_s := (safe_s md x).
  Notation sl := (sl md).
  Definition safe_br (b : pexpr * list stmt) : bool := let '(c, ts) := b in safe_e c && forallb safe_s ts.

  Definition K_eval n := forall e s r s', (k <= length (frames s))%nat -> safe_e e = true -> eval pureM n e s = (r, s') -> Inv s s'.
  Definition K_eval_list n := forall es s r s', (k <= length (frames s))%nat -> forallb safe_e es = true -> eval_list pureM n es s = (r, s') -> Inv s s'.
  Definition K_call n := forall fd vs s r s', (k <= length (frames s))%nat -> safe_fd md x fd = true -> call pureM n fd vs s = (r, s') -> Inv s s'.
  Definition K_bind n := forall ps vs s r s', (k < length (frames s))%nat -> safe_params md x ps = true -> bind_params pureM n ps vs s = (r, s') -> Inv s s'.
  Definition K_exec n := forall t s r s', (k < length (frames s))%nat -> safe_s t = true -> exec pureM n t s = (r, s') -> Inv s s'.
  Definition K_exec_list n := forall ts s r s', (k < length (frames s))%nat -> forallb safe_s ts = true -> exec_list pureM n ts s = (r, s') -> Inv s s'.
  Definition K_child n := forall ts s r s', (k <= length (frames s))%nat -> forallb safe_s ts = true -> exec_child pureM n ts s = (r, s') -> Inv s s'.
  Definition K_if n := forall brs els s r s', (k <= length (frames s))%nat -> forallb safe_br brs = true -> forallb safe_s els = true ->
    exec_if pureM n brs els s = (r, s') -> Inv s s'.
  Definition K_case n := forall vv ws els s r s', (k <= length (frames s))%nat -> forallb safe_br ws = true -> forallb safe_s els = true ->
    exec_case pureM n vv ws els s = (r, s') -> Inv s s'.
  Definition K_while n := forall c body s r s', (k + sl < length (frames s))%nat -> safe_e c = true -> forallb safe_s body = true ->
    while_loop pureM n c body s = (r, s') -> Inv s s'.
  Definition K_whilein n := forall d vars cur body s r s', (k + sl < length (frames s))%nat ->
    (md || negb (mem_str x vars))%bool = true -> forallb safe_s body = true ->
    whilein_loop pureM n d vars cur body s = (r, s') -> Inv s s'.
  Definition K_all n := K_eval n /\ K_eval_list n /\ K_call n /\ K_bind n /\ K_exec n /\ K_exec_list n /\ K_child n /\
                        K_if n /\ K_case n /\ K_while n /\ K_whilein n.

  Lemma or_of_orb_v : forall b y, (b || negb (str_eqb y x))%bool = true -> b = true \/ str_eqb y x = false.
  Proof. intros b y H. destruct b; [left; reflexivity|right]. simpl in H. destruct (str_eqb y x); [discriminate|reflexivity]. Qed.

  Lemma clear_inv : forall s, (k + sl < length (frames s))%nat -> Inv s (clear_top pureM s).
  Proof. intros s H. apply upd_inv_free; [lia|apply safe_clear]. Qed.

  Ltac lens := pose proof (sl_le md); rewrite ?len_push, ?len_clear, ?len_upd, ?len_emit in *; lia.
  Ltac splitb H := repeat (rewrite Bool.andb_true_iff in H); repeat match goal with H' : _ /\ _ |- _ => destruct H' end.

  (* length facts of every sub-computation in the context *)
  Ltac lenfacts :=
    repeat match goal with
           | H : eval pureM ?n _ ?a = (_, ?b) |- _ => lazymatch goal with _ : length (frames b) = length (frames a) |- _ => fail | _ => pose proof (len_eval n _ _ _ _ H) end
           | H : eval_list pureM ?n _ ?a = (_, ?b) |- _ => lazymatch goal with _ : length (frames b) = length (frames a) |- _ => fail | _ => pose proof (len_eval_list n _ _ _ _ H) end
           | H : call pureM ?n _ _ ?a = (_, ?b) |- _ => lazymatch goal with _ : length (frames b) = length (frames a) |- _ => fail | _ => pose proof (len_call n _ _ _ _ _ H) end
           | H : bind_params pureM ?n _ _ ?a = (_, ?b) |- _ => lazymatch goal with _ : length (frames b) = length (frames a) |- _ => fail | _ => pose proof (len_bind n _ _ _ _ _ H) end
           | H : exec pureM ?n _ ?a = (_, ?b) |- _ => lazymatch goal with _ : length (frames b) = length (frames a) |- _ => fail | _ => pose proof (len_exec n _ _ _ _ H) end
           | H : exec_list pureM ?n _ ?a = (_, ?b) |- _ => lazymatch goal with _ : length (frames b) = length (frames a) |- _ => fail | _ => pose proof (len_exec_list n _ _ _ _ H) end
           | H : exec_child pureM ?n _ ?a = (_, ?b) |- _ => lazymatch goal with _ : length (frames b) = length (frames a) |- _ => fail | _ => pose proof (len_child n _ _ _ _ H) end
           | H : exec_if pureM ?n _ _ ?a = (_, ?b) |- _ => lazymatch goal with _ : length (frames b) = length (frames a) |- _ => fail | _ => pose proof (len_if n _ _ _ _ _ H) end
           | H : exec_case pureM ?n _ _ _ ?a = (_, ?b) |- _ => lazymatch goal with _ : length (frames b) = length (frames a) |- _ => fail | _ => pose proof (len_case n _ _ _ _ _ _ H) end
           | H : while_loop pureM ?n _ _ ?a = (_, ?b) |- _ => lazymatch goal with _ : length (frames b) = length (frames a) |- _ => fail | _ => pose proof (len_while n _ _ _ _ _ H) end
           | H : whilein_loop pureM ?n _ _ _ _ ?a = (_, ?b) |- _ => lazymatch goal with _ : length (frames b) = length (frames a) |- _ => fail | _ => pose proof (len_whilein n _ _ _ _ _ _ _ H) end
           | H : set_var pureM _ _ ?a = (_, ?b) |- _ => lazymatch goal with _ : length (frames b) = length (frames a) |- _ => fail | _ => pose proof (len_set_var _ _ _ _ _ H) end
           | H : declare_var pureM _ _ ?a = (_, ?b) |- _ => lazymatch goal with _ : length (frames b) = length (frames a) |- _ => fail | _ => pose proof (len_declare_var _ _ _ _ _ H) end
           | H : declare_nulls pureM _ ?a = (_, ?b) |- _ => lazymatch goal with _ : length (frames b) = length (frames a) |- _ => fail | _ => pose proof (len_declare_nulls _ _ _ _ H) end
           | H : do_fetch pureM _ _ ?a = (_, ?b) |- _ => lazymatch goal with _ : length (frames b) = length (frames a) |- _ => fail | _ => pose proof (len_do_fetch _ _ _ _ _ H) end
           end.

  (* follow a chain of facts from the start state of the goal *)
  Ltac go :=
    first
      [ assumption
      | apply Inv_refl
      | match goal with H : Inv ?a ?b |- Inv ?a _ => apply (Inv_trans _ _ _ _ _ _ H); clear H; go end
      | match goal with |- Inv ?a (emit pureM _ ?b) => apply (Inv_trans _ _ _ _ b _); [go|apply emit_inv] end
      | match goal with |- Inv ?a (pop pureM ?b) => apply bracket_inv; [lens|lens|go] end
      | match goal with |- Inv ?a _ =>
          match goal with H : Inv (clear_top pureM a) _ |- _ => apply (Inv_trans _ _ _ _ _ _ (clear_inv a ltac:(lens))); go end
        end ].

  Lemma keep_all : forall n, K_all n.
  Proof.
    induction n as [|n IH].
    { unfold K_all; repeat apply conj; intro; intros; simpl in *;
        match goal with H : (_, _) = (_, _) |- _ => inversion H; subst end; apply Inv_refl. }
    destruct IH as (IHe & IHl & IHc & IHb & IHx & IHxl & IHch & IHif & IHcase & IHw & IHwi).
    Ltac facts IHe IHl IHc IHb IHx IHxl IHch IHif IHcase IHw IHwi :=
      lenfacts;
      repeat match goal with
             | H : eval pureM _ _ _ = _ |- _ => apply IHe in H; [|lens|assumption]
             | H : eval_list pureM _ _ _ = _ |- _ => apply IHl in H; [|lens|assumption]
             | H : call pureM _ _ _ _ = _ |- _ => apply IHc in H; [|lens|assumption]
             | H : bind_params pureM _ _ _ _ = _ |- _ => apply IHb in H; [|lens|assumption]
             | H : exec pureM _ _ _ = _ |- _ => apply IHx in H; [|lens|assumption]
             | H : exec_list pureM _ _ _ = _ |- _ => apply IHxl in H; [|lens|assumption]
             | H : exec_child pureM _ _ _ = _ |- _ => apply IHch in H; [|lens|assumption]
             | H : exec_if pureM _ _ _ _ = _ |- _ => apply IHif in H; [|lens|assumption|assumption]
             | H : exec_case pureM _ _ _ _ _ = _ |- _ => apply IHcase in H; [|lens|assumption|assumption]
             | H : while_loop pureM _ _ _ _ = _ |- _ => apply IHw in H; [|lens|assumption|assumption]
             | H : whilein_loop pureM _ _ _ _ _ _ = _ |- _ => apply IHwi in H; [|lens|assumption|assumption]
             | H : set_var pureM _ _ _ = _ |- _ => apply (set_var_inv md x k) in H; [|apply or_of_orb_v; assumption]
             | H : do_fetch pureM _ _ _ = _ |- _ => apply (do_fetch_inv md x k) in H; [|apply or_of_orb; assumption]
             | H : declare_var pureM _ _ _ = _ |- _ => apply (declare_var_inv md x k) in H; [|lens]
             | H : declare_nulls pureM _ _ = _ |- _ => apply (declare_nulls_inv md x k) in H; [|lens]
             end.
    assert (Heval : K_eval (S n)).
    { intros e s r s' Hk Hs H. destruct e; simpl in H, Hs; splitb Hs; brk H; try (inv H).
      all: try (facts IHe IHl IHc IHb IHx IHxl IHch IHif IHcase IHw IHwi; go).
      intros Hpre. pose proof (get_func_safe md x f s f0 (proj2 Hpre) Heqo) as Hfd. revert Hpre. change (Inv s s').
      facts IHe IHl IHc IHb IHx IHxl IHch IHif IHcase IHw IHwi; go. }
    assert (Hlist : K_eval_list (S n)).
    { intros es s r s' Hk Hs H. destruct es; simpl in H, Hs; splitb Hs; brk H; try (inv H).
      all: try (facts IHe IHl IHc IHb IHx IHxl IHch IHif IHcase IHw IHwi; go). }
    assert (Hcall : K_call (S n)).
    { intros fd vs s r s' Hk Hs H. unfold safe_fd in Hs. simpl in H. splitb Hs. brk H; inv H.
      all: try (facts IHe IHl IHc IHb IHx IHxl IHch IHif IHcase IHw IHwi; go). }
    assert (Hbind : K_bind (S n)).
    { intros ps vs s r s' Hk Hs H. destruct ps as [|[y d] ps]; simpl in H, Hs; splitb Hs; brk H; try (inv H).
      all: try (facts IHe IHl IHc IHb IHx IHxl IHch IHif IHcase IHw IHwi; go). }
    assert (Hexec : K_exec (S n)).
    { intros t s r s' Hk Hs H. destruct t; simpl in H;
        try (eapply exec_basic_inv; [| |exact Hk|exact Hs|exact H]; [intros; eapply len_eval; eauto|intros; eapply IHe; eauto]; fail);
        simpl in Hs; splitb Hs; brk H; try (inv H).
      all: try (facts IHe IHl IHc IHb IHx IHxl IHch IHif IHcase IHw IHwi; go).
 }
    assert (Hxl : K_exec_list (S n)).
    { intros ts s r s' Hk Hs H. destruct ts; simpl in H, Hs; splitb Hs; brk H; try (inv H).
      all: try (facts IHe IHl IHc IHb IHx IHxl IHch IHif IHcase IHw IHwi; go). }
    assert (Hch : K_child (S n)).
    { intros ts s r s' Hk Hs H. simpl in H. brk H; inv H.
      all: try (facts IHe IHl IHc IHb IHx IHxl IHch IHif IHcase IHw IHwi; go). }
    assert (Hif : K_if (S n)).
    { intros brs els s r s' Hk Hs Hels H. destruct brs as [|[c ts] brs]; simpl in H, Hs; splitb Hs; brk H; try (inv H).
      all: try (facts IHe IHl IHc IHb IHx IHxl IHch IHif IHcase IHw IHwi; go). }
    assert (Hcase : K_case (S n)).
    { intros vv ws els s r s' Hk Hs Hels H. destruct ws as [|[c ts] ws]; simpl in H, Hs; splitb Hs; brk H; try (inv H).
      all: try (facts IHe IHl IHc IHb IHx IHxl IHch IHif IHcase IHw IHwi; go). }
    assert (Hw : K_while (S n)).
    { intros c body s r s' Hk Hc Hb H. simpl in H. brk H; try (inv H).
      all: try (facts IHe IHl IHc IHb IHx IHxl IHch IHif IHcase IHw IHwi; go). }
    assert (Hwi : K_whilein (S n)).
    { intros d vars cur body s r s' Hk Hv Hb H. destruct d; simpl in H; brk H; try (inv H).
      all: try (facts IHe IHl IHc IHb IHx IHxl IHch IHif IHcase IHw IHwi; go).
 }
    unfold K_all; repeat apply conj; assumption.
  Qed.
End KeepInterp.
