(* ProcLocal.v -- locality of blocks and calls on the stack machine (pureM): the number of blocks is
   restored, nothing is ever declared in an outer block, an outer binding changes only through an
   assignment that resolves to it, a shadowed binding is untouched. *)
From Coq Require Import Floats Lia.
Require Import Csvq.Model.Base Csvq.Model.Value Csvq.Model.Compare Csvq.Model.Arith Csvq.Model.Proc.
Open Scope Z_scope.

Notation pst := (gst pureM).
Definition frames (s : pst) : list cell := ms s.

(* ---- association lists ------------------------------------------------------------------------- *)
Lemma str_eqb_refl : forall a, str_eqb a a = true.
Proof. induction a; simpl; auto. rewrite N.eqb_refl. assumption. Qed.
Lemma str_eqb_eq : forall a b, str_eqb a b = true <-> a = b.
Proof.
  induction a as [|x a IH]; destruct b as [|y b]; simpl; split; intros H; try discriminate; auto.
  - apply andb_prop in H. destruct H as [H1 H2]. apply N.eqb_eq in H1. apply IH in H2. subst. reflexivity.
  - inversion H; subst. rewrite N.eqb_refl. apply IH. reflexivity.
Qed.
Lemma str_eqb_sym : forall a b, str_eqb a b = str_eqb b a.
Proof.
  intros a b. destruct (str_eqb a b) eqn:E1, (str_eqb b a) eqn:E2; auto.
  - apply str_eqb_eq in E1. subst. rewrite str_eqb_refl in E2. discriminate.
  - apply str_eqb_eq in E2. subst. rewrite str_eqb_refl in E1. discriminate.
Qed.

Section Alist.
  Context {A : Type}.
  Implicit Types l : list (str * A).
  Lemma alookup_aset : forall k x v l, alookup k (aset x v l) =
    if str_eqb k x then (match alookup x l with Some _ => Some v | None => None end) else alookup k l.
  Proof.
    induction l as [|[k' v'] l IH]; simpl.
    - destruct (str_eqb k x); reflexivity.
    - destruct (str_eqb x k') eqn:E; simpl.
      + apply str_eqb_eq in E. subst k'. destruct (str_eqb k x); reflexivity.
      + destruct (str_eqb k k') eqn:E2.
        * apply str_eqb_eq in E2. subst k'. rewrite str_eqb_sym, E. reflexivity.
        * exact IH.
  Qed.
  Lemma ahas_aset : forall k x v l, ahas k (aset x v l) = ahas k l.
  Proof.
    intros. unfold ahas. rewrite alookup_aset. destruct (str_eqb k x) eqn:E; [|reflexivity].
    apply str_eqb_eq in E. subst. destruct (alookup x l); reflexivity.
  Qed.
  Lemma alookup_aremove_other : forall k x l, str_eqb k x = false -> alookup k (aremove x l) = alookup k l.
  Proof.
    induction l as [|[k' v'] l IH]; intros Hne; simpl; auto.
    destruct (str_eqb x k') eqn:E; simpl.
    - apply str_eqb_eq in E. subst k'. rewrite Hne. reflexivity.
    - destruct (str_eqb k k'); auto.
  Qed.
  Lemma ahas_aremove : forall k x l, ahas k (aremove x l) = true -> ahas k l = true.
  Proof.
    unfold ahas. induction l as [|[k' v'] l IH]; simpl; auto.
    destruct (str_eqb x k') eqn:E; simpl.
    - destruct (str_eqb k k'); auto.
    - destruct (str_eqb k k'); auto.
  Qed.
End Alist.

(* ---- domains ------------------------------------------------------------------------------------- *)
Definition keys_sub {A} (l' l : list (str * A)) : Prop := forall k, ahas k l' = true -> ahas k l = true.
Definition cell_sub (c' c : cell) : Prop :=
  keys_sub (c_vars c') (c_vars c) /\ keys_sub (c_curs c') (c_curs c) /\
  keys_sub (c_temps c') (c_temps c) /\ keys_sub (c_funcs c') (c_funcs c).
(* every block of s' declares no more names than the corresponding block of s *)
Definition full_sub (s s' : pst) : Prop := Forall2 cell_sub (frames s') (frames s).
(* the same below the innermost block *)
Definition tail_sub (s s' : pst) : Prop :=
  length (frames s') = length (frames s) /\ Forall2 cell_sub (tl (frames s')) (tl (frames s)).

Lemma keys_sub_refl : forall A (l : list (str * A)), keys_sub l l.
Proof. intros A l k H. exact H. Qed.
Lemma keys_sub_trans : forall A (a b c : list (str * A)), keys_sub a b -> keys_sub b c -> keys_sub a c.
Proof. intros A a b c H1 H2 k H. auto. Qed.
Lemma cell_sub_refl : forall c, cell_sub c c.
Proof. intros c. repeat split; apply keys_sub_refl. Qed.
Lemma cell_sub_trans : forall a b c, cell_sub a b -> cell_sub b c -> cell_sub a c.
Proof. intros a b c (A1&A2&A3&A4) (B1&B2&B3&B4). repeat split; eapply keys_sub_trans; eauto. Qed.
Lemma F2_refl : forall l, Forall2 cell_sub l l.
Proof. induction l; constructor; auto using cell_sub_refl. Qed.
Lemma F2_trans : forall a b c, Forall2 cell_sub a b -> Forall2 cell_sub b c -> Forall2 cell_sub a c.
Proof.
  intros a b c H. revert c. induction H; intros c Hc; inversion Hc; subst; constructor; eauto using cell_sub_trans.
Qed.
Lemma F2_len : forall a b, Forall2 cell_sub a b -> length a = length b.
Proof. intros a b H. induction H; simpl; auto. Qed.
Lemma F2_tl : forall a b, Forall2 cell_sub a b -> Forall2 cell_sub (tl a) (tl b).
Proof. intros a b H. destruct H; simpl; auto. Qed.

Lemma full_refl : forall s, full_sub s s.
Proof. intros. apply F2_refl. Qed.
Lemma full_trans : forall a b c, full_sub a b -> full_sub b c -> full_sub a c.
Proof. unfold full_sub. intros a b c H1 H2. eapply F2_trans; eauto. Qed.
Lemma tail_refl : forall s, tail_sub s s.
Proof. intros. split; auto. apply F2_refl. Qed.
Lemma tail_trans : forall a b c, tail_sub a b -> tail_sub b c -> tail_sub a c.
Proof. unfold tail_sub. intros a b c [L1 H1] [L2 H2]. split; [congruence|]. eapply F2_trans; eauto. Qed.
Lemma full_tail : forall a b, full_sub a b -> tail_sub a b.
Proof. unfold full_sub, tail_sub. intros a b H. split; [apply F2_len; auto|apply F2_tl; auto]. Qed.
(* push ; (something that keeps the blocks below the new one) ; pop *)
Lemma bracket_full : forall s s1, tail_sub (push pureM s) s1 -> full_sub s (pop pureM s1).
Proof. unfold tail_sub, full_sub, frames. intros s s1 [_ H]. simpl in *. exact H. Qed.
Lemma emit_full : forall v s, full_sub s (emit pureM v s).
Proof. intros. apply F2_refl. Qed.

Lemma list_upd_sub : forall f, (forall c, cell_sub (f c) c) -> forall i l, Forall2 cell_sub (list_upd i f l) l.
Proof.
  intros f Hf i l. revert i. induction l as [|c l IH]; intros [|i]; simpl; constructor; auto using cell_sub_refl, F2_refl.
Qed.
Lemma upd_full : forall i f s, (forall c, cell_sub (f c) c) -> full_sub s (upd pureM i f s).
Proof. intros. unfold full_sub, frames. simpl. apply list_upd_sub. assumption. Qed.
Lemma upd0_tail : forall f s, tail_sub s (upd pureM O f s).
Proof.
  intros f s. unfold tail_sub, frames. simpl. destruct (ms s) as [|c l]; simpl; split; auto using F2_refl.
Qed.

Lemma sub_vars_aset : forall x v c, cell_sub (with_vars (aset x v) c) c.
Proof. intros. repeat split; simpl; try apply keys_sub_refl. intros k H. rewrite ahas_aset in H. exact H. Qed.
Lemma sub_vars_aremove : forall x c, cell_sub (with_vars (aremove x) c) c.
Proof. intros. repeat split; simpl; try apply keys_sub_refl. intros k H. eapply ahas_aremove; eauto. Qed.
Lemma sub_curs_aset : forall x v c, cell_sub (with_curs (aset x v) c) c.
Proof. intros. repeat split; simpl; try apply keys_sub_refl. intros k H. rewrite ahas_aset in H. exact H. Qed.
Lemma sub_curs_aremove : forall x c, cell_sub (with_curs (aremove x) c) c.
Proof. intros. repeat split; simpl; try apply keys_sub_refl. intros k H. eapply ahas_aremove; eauto. Qed.
Lemma sub_temps_aset : forall x v c, cell_sub (with_temps (aset x v) c) c.
Proof. intros. repeat split; simpl; try apply keys_sub_refl. intros k H. rewrite ahas_aset in H. exact H. Qed.
Lemma sub_temps_aremove : forall x c, cell_sub (with_temps (aremove x) c) c.
Proof. intros. repeat split; simpl; try apply keys_sub_refl. intros k H. eapply ahas_aremove; eauto. Qed.
Lemma sub_funcs_aremove : forall x c, cell_sub (with_funcs (aremove x) c) c.
Proof. intros. repeat split; simpl; try apply keys_sub_refl. intros k H. eapply ahas_aremove; eauto. Qed.
#[local] Hint Resolve full_refl tail_refl full_tail upd_full upd0_tail emit_full sub_vars_aset sub_vars_aremove sub_curs_aset
  sub_curs_aremove sub_temps_aset sub_temps_aremove sub_funcs_aremove : loc.

(* ---- primitives ------------------------------------------------------------------------------------ *)
Lemma declare_var_tail : forall x v s o s', declare_var pureM x v s = (o, s') -> tail_sub s s'.
Proof.
  unfold declare_var. intros x v s o s' H. destruct (has_var x (top_cell (view pureM s))); inversion H; subst; auto with loc.
Qed.
Lemma set_var_full : forall x v s o s', set_var pureM x v s = (o, s') -> full_sub s s'.
Proof.
  unfold set_var. intros x v s o s' H. destruct (find_frame (has_var x) (view pureM s)); inversion H; subst; auto with loc.
Qed.
Lemma set_vars_full : forall xs vs s o s', set_vars pureM xs vs s = (o, s') -> full_sub s s'.
Proof.
  induction xs as [|x xs IH]; intros vs s o s' H; simpl in H.
  - inversion H; subst; auto with loc.
  - destruct vs as [|v vs]; [inversion H; subst; auto with loc|].
    destruct (set_var pureM x v s) as [[e|] s1] eqn:E.
    + inversion H; subst. eapply set_var_full; eauto.
    + eapply full_trans; [eapply set_var_full; eauto|eapply IH; eauto].
Qed.
Lemma declare_nulls_tail : forall xs s o s', declare_nulls pureM xs s = (o, s') -> tail_sub s s'.
Proof.
  induction xs as [|x xs IH]; intros s o s' H; simpl in H.
  - inversion H; subst; auto with loc.
  - destruct (declare_var pureM x VNull s) as [[e|] s1] eqn:E.
    + inversion H; subst. eapply declare_var_tail; eauto.
    + eapply tail_trans; [eapply declare_var_tail; eauto|eapply IH; eauto].
Qed.
Lemma do_fetch_full : forall c vars s r s', do_fetch pureM c vars s = (r, s') -> full_sub s s'.
Proof.
  unfold do_fetch. intros c vars s r s' H.
  destruct (find_frame (has_cur (ascii_upper c)) (view pureM s)) as [i|]; [|inversion H; subst; auto with loc].
  destruct (alookup (ascii_upper c) (c_curs (nth i (view pureM s) empty_cell))) as [cu|]; [|inversion H; subst; auto with loc].
  destruct (negb (cu_open cu)); [inversion H; subst; auto with loc|].
  destruct (cu_idx cu + 1 <? 0); [inversion H; subst; auto with loc|].
  destruct (Z.of_nat (length (cu_rows cu)) <=? cu_idx cu + 1); [inversion H; subst; auto with loc|].
  destruct (negb (Nat.eqb (length vars) 1)); [inversion H; subst; auto with loc|].
  match type of H with context [set_vars pureM ?a ?b ?c] => destruct (set_vars pureM a b c) as [[e|] s2] eqn:E end;
    inversion H; subst; (eapply full_trans; [|eapply set_vars_full; eauto]); auto with loc.
Qed.

Lemma basic_post_tail : forall t v s o s', basic_post pureM t v s = (o, s') -> tail_sub s s'.
Proof.
  intros t v s o s' H. destruct t; simpl in H; try (inversion H; subst; auto with loc; fail);
    try (eapply declare_var_tail; eauto; fail);
    repeat match type of H with
           | context [match ?x with _ => _ end] => destruct x eqn:?
           | context [if ?x then _ else _] => destruct x eqn:?
           end; inversion H; subst; auto with loc.
  all: try (apply full_tail; eapply do_fetch_full; eauto).
Qed.

Lemma exec_basic_tail : forall ev,
  (forall e s r s', ev e s = (r, s') -> full_sub s s') ->
  forall t s o s', exec_basic pureM ev t s = (o, s') -> tail_sub s s'.
Proof.
  intros ev Hev t s o s' H. unfold exec_basic in H.
  destruct (basic_pre pureM t s); [inversion H; subst; auto with loc|].
  destruct (basic_expr t) as [e|].
  - destruct (ev e s) as [[v|er|] s1] eqn:E; try (inversion H; subst; apply full_tail; eapply Hev; eauto; fail).
    eapply tail_trans; [apply full_tail; eapply Hev; eauto|].
    destruct (basic_post pureM t v s1) as [[er|] s2] eqn:E2; simpl in H; inversion H; subst; eapply basic_post_tail; eauto.
  - destruct (basic_post pureM t VNull s) as [[er|] s2] eqn:E2; simpl in H; inversion H; subst; eapply basic_post_tail; eauto.
Qed.

(* ---- the interpreter ------------------------------------------------------------------------------- *)
Definition L_eval n := forall e s r s', eval pureM n e s = (r, s') -> full_sub s s'.
Definition L_eval_list n := forall es s r s', eval_list pureM n es s = (r, s') -> full_sub s s'.
Definition L_call n := forall fd vs s r s', call pureM n fd vs s = (r, s') -> full_sub s s'.
Definition L_bind n := forall ps vs s r s', bind_params pureM n ps vs s = (r, s') -> tail_sub s s'.
Definition L_exec n := forall t s r s', exec pureM n t s = (r, s') -> tail_sub s s'.
Definition L_exec_list n := forall ts s r s', exec_list pureM n ts s = (r, s') -> tail_sub s s'.
Definition L_child n := forall ts s r s', exec_child pureM n ts s = (r, s') -> full_sub s s'.
Definition L_if n := forall brs els s r s', exec_if pureM n brs els s = (r, s') -> full_sub s s'.
Definition L_case n := forall vv ws els s r s', exec_case pureM n vv ws els s = (r, s') -> full_sub s s'.
Definition L_while n := forall c body s r s', while_loop pureM n c body s = (r, s') -> tail_sub s s'.
Definition L_whilein n := forall d vars cur body s r s', whilein_loop pureM n d vars cur body s = (r, s') -> tail_sub s s'.
Definition L_all n := L_eval n /\ L_eval_list n /\ L_call n /\ L_bind n /\ L_exec n /\ L_exec_list n /\ L_child n /\
                      L_if n /\ L_case n /\ L_while n /\ L_whilein n.

#[local] Arguments push : simpl never.
#[local] Arguments pop : simpl never.
#[local] Arguments upd : simpl never.
#[local] Arguments emit : simpl never.
#[local] Arguments clear_top : simpl never.
#[local] Arguments declare_var : simpl never.
#[local] Arguments set_var : simpl never.
#[local] Arguments get_var : simpl never.
#[local] Arguments get_func : simpl never.
#[local] Arguments set_vars : simpl never.
#[local] Arguments declare_nulls : simpl never.
#[local] Arguments do_fetch : simpl never.
#[local] Arguments exec_basic : simpl never.
#[local] Arguments eval_cur_open : simpl never.
#[local] Arguments eval_cur_count : simpl never.
#[local] Arguments eval_temp_count : simpl never.
#[local] Arguments args_len_ok : simpl never.
#[local] Arguments ternary_of : simpl never.
#[local] Arguments calculate : simpl never.
#[local] Arguments compare_op : simpl never.
#[local] Arguments op_eq : simpl never.

Ltac brk H :=
  repeat match type of H with
         | context [match ?x with _ => _ end] => destruct x eqn:?
         | context [if ?x then _ else _] => destruct x eqn:?
         end.
Ltac inv H := inversion H; subst; clear H.

Lemma clear_top_tail : forall s, tail_sub s (clear_top pureM s).
Proof. intros. apply upd0_tail. Qed.

(* follow a chain of locality facts from the start state of the goal *)
Ltac go :=
  first
    [ assumption
    | apply full_refl
    | apply tail_refl
    | match goal with H : full_sub ?a ?b |- full_sub ?a _ => apply (full_trans _ _ _ H); clear H; go end
    | match goal with H : full_sub ?a ?b |- tail_sub ?a _ => apply (tail_trans _ _ _ (full_tail _ _ H)); clear H; go end
    | match goal with H : tail_sub ?a ?b |- tail_sub ?a _ => apply (tail_trans _ _ _ H); clear H; go end
    | match goal with |- full_sub ?a (emit pureM _ ?b) => apply (full_trans _ b _); [go|apply emit_full] end
    | match goal with |- full_sub _ (pop pureM _) => apply bracket_full; go end
    | match goal with |- tail_sub _ (pop pureM _) => apply full_tail; apply bracket_full; go end
    | match goal with |- tail_sub ?a _ =>
        match a with context [clear_top pureM ?s] => fail 1 | _ => idtac end;
        match goal with H : tail_sub (clear_top pureM a) _ |- _ => apply (tail_trans _ _ _ (clear_top_tail a)); go
                      | H : full_sub (clear_top pureM a) _ |- _ => apply (tail_trans _ _ _ (clear_top_tail a)); go end
      end ].

Lemma local_all : forall n, L_all n.
Proof.
  induction n as [|n IH].
  { unfold L_all; repeat apply conj; intro; intros; simpl in *; match goal with H : (_, _) = (_, _) |- _ => inv H end; auto with loc. }
  destruct IH as (IHe & IHl & IHc & IHb & IHx & IHxl & IHch & IHif & IHcase & IHw & IHwi).
  (* turn every equation about a sub-computation into its locality fact *)
  Ltac facts IHe IHl IHc IHb IHx IHxl IHch IHif IHcase IHw IHwi :=
    repeat match goal with
           | H : eval pureM _ _ _ = _ |- _ => apply IHe in H
           | H : eval_list pureM _ _ _ = _ |- _ => apply IHl in H
           | H : call pureM _ _ _ _ = _ |- _ => apply IHc in H
           | H : bind_params pureM _ _ _ _ = _ |- _ => apply IHb in H
           | H : exec pureM _ _ _ = _ |- _ => apply IHx in H
           | H : exec_list pureM _ _ _ = _ |- _ => apply IHxl in H
           | H : exec_child pureM _ _ _ = _ |- _ => apply IHch in H
           | H : exec_if pureM _ _ _ _ = _ |- _ => apply IHif in H
           | H : exec_case pureM _ _ _ _ _ = _ |- _ => apply IHcase in H
           | H : while_loop pureM _ _ _ _ = _ |- _ => apply IHw in H
           | H : whilein_loop pureM _ _ _ _ _ _ = _ |- _ => apply IHwi in H
           | H : set_var pureM _ _ _ = _ |- _ => apply set_var_full in H
           | H : declare_var pureM _ _ _ = _ |- _ => apply declare_var_tail in H
           | H : declare_nulls pureM _ _ = _ |- _ => apply declare_nulls_tail in H
           | H : do_fetch pureM _ _ _ = _ |- _ => apply do_fetch_full in H
           end.
  assert (Heval : L_eval (S n)).
  { intros e s r s' H. destruct e; simpl in H; brk H; try (inv H); facts IHe IHl IHc IHb IHx IHxl IHch IHif IHcase IHw IHwi; try go. }
  assert (Hlist : L_eval_list (S n)).
  { intros es s r s' H. destruct es; simpl in H; brk H; try (inv H); facts IHe IHl IHc IHb IHx IHxl IHch IHif IHcase IHw IHwi; try go. }
  assert (Hcall : L_call (S n)).
  { intros fd vs s r s' H. simpl in H. brk H; inv H; facts IHe IHl IHc IHb IHx IHxl IHch IHif IHcase IHw IHwi; try go. }
  assert (Hbind : L_bind (S n)).
  { intros ps vs s r s' H. destruct ps as [|[x d] ps]; simpl in H; brk H; try (inv H); facts IHe IHl IHc IHb IHx IHxl IHch IHif IHcase IHw IHwi; try go. }
  assert (Hexec : L_exec (S n)).
  { intros t s r s' H. destruct t; simpl in H;
      try (eapply exec_basic_tail; [|exact H]; intros; eapply IHe; eauto; fail);
      brk H; try (inv H); facts IHe IHl IHc IHb IHx IHxl IHch IHif IHcase IHw IHwi; try go. }
  assert (Hxl : L_exec_list (S n)).
  { intros ts s r s' H. destruct ts; simpl in H; brk H; try (inv H); facts IHe IHl IHc IHb IHx IHxl IHch IHif IHcase IHw IHwi; try go. }
  assert (Hch : L_child (S n)).
  { intros ts s r s' H. simpl in H. brk H; inv H; facts IHe IHl IHc IHb IHx IHxl IHch IHif IHcase IHw IHwi; try go. }
  assert (Hif : L_if (S n)).
  { intros brs els s r s' H. destruct brs as [|[c ts] brs]; simpl in H; brk H; try (inv H); facts IHe IHl IHc IHb IHx IHxl IHch IHif IHcase IHw IHwi; try go. }
  assert (Hcase : L_case (S n)).
  { intros vv ws els s r s' H. destruct ws as [|[c ts] ws]; simpl in H; brk H; try (inv H); facts IHe IHl IHc IHb IHx IHxl IHch IHif IHcase IHw IHwi; try go. }
  assert (Hw : L_while (S n)).
  { intros c body s r s' H. simpl in H. brk H; try (inv H); facts IHe IHl IHc IHb IHx IHxl IHch IHif IHcase IHw IHwi; try go. }
  assert (Hwi : L_whilein (S n)).
  { intros d vars cur body s r s' H. destruct d; simpl in H; brk H; try (inv H); facts IHe IHl IHc IHb IHx IHxl IHch IHif IHcase IHw IHwi; try go. }
  unfold L_all; repeat apply conj; assumption.
Qed.

(* lengths, for side conditions *)
Lemma frames_push : forall s, frames (push pureM s) = empty_cell :: frames s.
Proof. reflexivity. Qed.
Lemma frames_pop : forall s, frames (pop pureM s) = tl (frames s).
Proof. reflexivity. Qed.
Lemma frames_upd : forall i f s, frames (upd pureM i f s) = list_upd i f (frames s).
Proof. reflexivity. Qed.
Lemma frames_emit : forall v s, frames (emit pureM v s) = frames s.
Proof. reflexivity. Qed.
Lemma frames_clear : forall s, frames (clear_top pureM s) = list_upd O (fun _ => empty_cell) (frames s).
Proof. reflexivity. Qed.
Lemma length_list_upd : forall A i (f : A -> A) l, length (list_upd i f l) = length l.
Proof. intros A i f l. revert i. induction l; intros [|i]; simpl; auto. Qed.
Lemma len_push : forall s, length (frames (push pureM s)) = S (length (frames s)).
Proof. reflexivity. Qed.
Lemma len_clear : forall s, length (frames (clear_top pureM s)) = length (frames s).
Proof. intros. rewrite frames_clear. apply length_list_upd. Qed.
Lemma len_upd : forall i f s, length (frames (upd pureM i f s)) = length (frames s).
Proof. intros. rewrite frames_upd. apply length_list_upd. Qed.
Lemma len_emit : forall v s, length (frames (emit pureM v s)) = length (frames s).
Proof. reflexivity. Qed.
Lemma len_pop : forall s, length (frames (pop pureM s)) = (length (frames s) - 1)%nat.
Proof. intros. rewrite frames_pop. destruct (frames s); simpl; lia. Qed.
Lemma len_full : forall s s', full_sub s s' -> length (frames s') = length (frames s).
Proof. intros s s' H. apply F2_len. exact H. Qed.
Lemma len_tail : forall s s', tail_sub s s' -> length (frames s') = length (frames s).
Proof. intros s s' [H _]. exact H. Qed.

Section LenFacts.
  Variable n : nat.
  Let L := local_all n.
  Lemma len_eval : forall e s r s', eval pureM n e s = (r, s') -> length (frames s') = length (frames s).
  Proof. intros. apply len_full. destruct L as (H1&_). eapply H1; eauto. Qed.
  Lemma len_eval_list : forall es s r s', eval_list pureM n es s = (r, s') -> length (frames s') = length (frames s).
  Proof. intros. apply len_full. destruct L as (_&H1&_). eapply H1; eauto. Qed.
  Lemma len_call : forall fd vs s r s', call pureM n fd vs s = (r, s') -> length (frames s') = length (frames s).
  Proof. intros. apply len_full. destruct L as (_&_&H1&_). eapply H1; eauto. Qed.
  Lemma len_bind : forall ps vs s r s', bind_params pureM n ps vs s = (r, s') -> length (frames s') = length (frames s).
  Proof. intros. apply len_tail. destruct L as (_&_&_&H1&_). eapply H1; eauto. Qed.
  Lemma len_exec : forall t s r s', exec pureM n t s = (r, s') -> length (frames s') = length (frames s).
  Proof. intros. apply len_tail. destruct L as (_&_&_&_&H1&_). eapply H1; eauto. Qed.
  Lemma len_exec_list : forall ts s r s', exec_list pureM n ts s = (r, s') -> length (frames s') = length (frames s).
  Proof. intros. apply len_tail. destruct L as (_&_&_&_&_&H1&_). eapply H1; eauto. Qed.
  Lemma len_child : forall ts s r s', exec_child pureM n ts s = (r, s') -> length (frames s') = length (frames s).
  Proof. intros. apply len_full. destruct L as (_&_&_&_&_&_&H1&_). eapply H1; eauto. Qed.
  Lemma len_if : forall brs els s r s', exec_if pureM n brs els s = (r, s') -> length (frames s') = length (frames s).
  Proof. intros. apply len_full. destruct L as (_&_&_&_&_&_&_&H1&_). eapply H1; eauto. Qed.
  Lemma len_case : forall vv ws els s r s', exec_case pureM n vv ws els s = (r, s') -> length (frames s') = length (frames s).
  Proof. intros. apply len_full. destruct L as (_&_&_&_&_&_&_&_&H1&_). eapply H1; eauto. Qed.
  Lemma len_while : forall c body s r s', while_loop pureM n c body s = (r, s') -> length (frames s') = length (frames s).
  Proof. intros. apply len_tail. destruct L as (_&_&_&_&_&_&_&_&_&H1&_). eapply H1; eauto. Qed.
  Lemma len_whilein : forall d vars cur body s r s', whilein_loop pureM n d vars cur body s = (r, s') -> length (frames s') = length (frames s).
  Proof. intros. apply len_tail. destruct L as (_&_&_&_&_&_&_&_&_&_&H1). eapply H1; eauto. Qed.
End LenFacts.
Lemma len_set_var : forall y v s o s', set_var pureM y v s = (o, s') -> length (frames s') = length (frames s).
Proof. intros. apply len_full. eapply set_var_full; eauto. Qed.
Lemma len_declare_var : forall y v s o s', declare_var pureM y v s = (o, s') -> length (frames s') = length (frames s).
Proof. intros. apply len_tail. eapply declare_var_tail; eauto. Qed.
Lemma len_declare_nulls : forall ys s o s', declare_nulls pureM ys s = (o, s') -> length (frames s') = length (frames s).
Proof. intros. apply len_tail. eapply declare_nulls_tail; eauto. Qed.
Lemma len_do_fetch : forall c vars s o s', do_fetch pureM c vars s = (o, s') -> length (frames s') = length (frames s).
Proof. intros. apply len_full. eapply do_fetch_full; eauto. Qed.
