(* ProcPure.v -- invocations that write nothing but their own parameters and locals leave the caller's
   chain and the output exactly as they were (stack machine).  This is the class of functions whose
   concurrent invocations (one per row of a query) have a defined result: every row sees the same
   calling scope. *)
From Coq Require Import Floats Lia.
Require Import Csvq.Model.Base Csvq.Model.Value Csvq.Model.Compare Csvq.Model.Arith Csvq.Model.Proc.
Require Import Csvq.Proofs.ProcLocal Csvq.Proofs.ProcKeep.
Open Scope Z_scope.

#[local] Arguments view : simpl never.
#[local] Arguments frames : simpl never.

(* ---- the syntactic class ------------------------------------------------------------------------------ *)
(* X = the names the code may assign (the parameters of the function it belongs to) *)
Fixpoint pure_e (X : list str) (e : pexpr) : bool :=
  match e with
  | PAssign y a => mem_str y X && pure_e X a
  | PArith _ a b | PCmp _ a b | PAnd a b | POr a b => pure_e X a && pure_e X b
  | PNot a => pure_e X a
  | PCall _ args => forallb (pure_e X) args
  | _ => true
  end.
Definition pure_oe (X : list str) (o : option pexpr) : bool := match o with Some e => pure_e X e | None => true end.
(* defaults of a pure function are literals *)
Definition lit_default (p : str * option pexpr) : bool :=
  match snd p with None | Some (PLit _) => true | _ => false end.

Fixpoint pure_s (X : list str) (t : stmt) : bool :=
  match t with
  | SVar _ o => pure_oe X o
  | SExpr e | SReturn e => pure_e X e
  | SFunc _ params body => forallb lit_default params && forallb (pure_s (map fst params)) body
  | SCursor _ _ | STemp _ _ => true                     (* declared in the invocation's own blocks *)
  | SIf brs els =>
      forallb (fun b => let '(c, ts) := b in pure_e X c && forallb (pure_s X) ts) brs && forallb (pure_s X) els
  | SCase v ws els =>
      pure_oe X v && forallb (fun b => let '(c, ts) := b in pure_e X c && forallb (pure_s X) ts) ws && forallb (pure_s X) els
  | SWhile c body => pure_e X c && forallb (pure_s X) body
  | SBreak | SContinue | SExit _ => true
  | SPrint _ | SDisposeVar _ | SDisposeFunc _ | SOpen _ | SClose _ | SFetch _ _ | SDisposeCursor _
  | SInsert _ _ | SDisposeTemp _ | SWhileIn _ _ _ _ => false
  end.
Definition pure_fd (fd : fdef) : bool := forallb lit_default (fst fd) && forallb (pure_s (map fst (fst fd))) (snd fd).
Definition cell_pure (c : cell) : Prop := forall f fd, In (f, fd) (c_funcs c) -> pure_fd fd = true.
Definition store_pure (fs : list cell) : Prop := Forall cell_pure fs.
Definition pure_br (X : list str) (b : pexpr * list stmt) : bool := let '(c, ts) := b in pure_e X c && forallb (pure_s X) ts.

Section PureX.
  Variable X : list str.
  Variable k : nat.     (* the invocation's own block is at level k; the caller's chain = levels 0 .. k-1 *)

  Definition pbot (fs : list cell) : list cell := skipn (length fs - k) fs.
  Definition bindsX (fs : list cell) : Prop :=
    (k < length fs)%nat /\ exists c, nth_error fs (length fs - 1 - k) = Some c /\ forall y, mem_str y X = true -> has_var y c = true.
  Definition PPre (s : pst) : Prop := bindsX (frames s) /\ store_pure (frames s).
  Definition PGood (s s' : pst) : Prop :=
    length (frames s') = length (frames s) /\ pbot (frames s') = pbot (frames s) /\ out s' = out s /\ PPre s'.
  Definition PInv (s s' : pst) : Prop := PPre s -> PGood s s'.

  Lemma PInv_refl : forall s, PInv s s.
  Proof. intros s H. repeat split; auto; apply H. Qed.
  Lemma PInv_trans : forall a b c, PInv a b -> PInv b c -> PInv a c.
  Proof.
    intros a b c H1 H2 Ha. destruct (H1 Ha) as (L1 & K1 & O1 & P1). destruct (H2 P1) as (L2 & K2 & O2 & P2).
    repeat split; try apply P2; congruence.
  Qed.
  Lemma PInv_same : forall s s', frames s' = frames s -> out s' = out s -> PInv s s'.
  Proof. intros s s' Hf Ho [HB HS]. unfold PGood, PPre. rewrite Hf. repeat split; auto; apply HB. Qed.

  (* an update of a block at or above level k that keeps bound what is bound *)
  Lemma pupd_mono : forall i f s,
    (i + k < length (frames s))%nat -> (forall y c, has_var y c = true -> has_var y (f c) = true) ->
    (forall c, cell_pure c -> cell_pure (f c)) -> PInv s (upd pureM i f s).
  Proof.
    intros i f s Hi Hx Hs [HB HS]. unfold PGood, PPre. rewrite len_upd, frames_upd. repeat split; auto.
    - unfold pbot. rewrite length_list_upd. apply skipn_list_upd_lt. lia.
    - rewrite length_list_upd. apply HB.
    - destruct HB as (Hk & c & Hn & Hc). rewrite length_list_upd, nth_error_list_upd, Hn.
      destruct (Nat.eqb i (length (frames s) - 1 - k)); simpl; eexists; split; eauto.
    - apply Forall_list_upd; assumption.
  Qed.
  (* an update strictly above level k: anything *)
  Lemma pupd_above : forall i f s,
    (i + k + 1 < length (frames s))%nat -> (forall c, cell_pure c -> cell_pure (f c)) -> PInv s (upd pureM i f s).
  Proof.
    intros i f s Hi Hs [HB HS]. unfold PGood, PPre. rewrite len_upd, frames_upd. repeat split; auto.
    - unfold pbot. rewrite length_list_upd. apply skipn_list_upd_lt. lia.
    - rewrite length_list_upd. apply HB.
    - destruct HB as (Hk & c & Hn & Hc). rewrite length_list_upd, nth_error_list_upd, Hn.
      destruct (Nat.eqb i (length (frames s) - 1 - k)) eqn:E; [apply Nat.eqb_eq in E; lia|]. eexists; split; eauto.
    - apply Forall_list_upd; assumption.
  Qed.

  Lemma cell_pure_empty : cell_pure empty_cell.
  Proof. intros f fd []. Qed.
  Lemma pbot_cons : forall c fs, (k <= length fs)%nat -> pbot (c :: fs) = pbot fs.
  Proof. intros c fs H. unfold pbot. simpl length. replace (S (length fs) - k)%nat with (S (length fs - k)) by lia. reflexivity. Qed.

  Lemma pbracket : forall s s1, (k < length (frames s))%nat ->
    length (frames s1) = S (length (frames s)) -> PInv (push pureM s) s1 -> PInv s (pop pureM s1).
  Proof.
    intros s s1 Hk Hl Hi [HB HS].
    assert (Hp : PPre (push pureM s)).
    { split; rewrite frames_push; [|constructor; auto using cell_pure_empty].
      destruct HB as (Hk' & c & Hn & Hc). split; [simpl; lia|].
      exists c. split; auto. simpl length. replace (S (length (frames s)) - 1 - k)%nat with (S (length (frames s) - 1 - k)) by lia. exact Hn. }
    destruct (Hi Hp) as (L1 & K1 & O1 & [B1 S1]). rewrite frames_push in K1.
    destruct (frames s1) as [|c1 rest] eqn:E1; [simpl in Hl; discriminate|]. simpl in Hl.
    assert (Hr : length rest = length (frames s)) by lia.
    unfold PGood, PPre. rewrite frames_pop, E1. simpl tl. repeat split; auto.
    - rewrite pbot_cons in K1 by lia. rewrite pbot_cons in K1 by lia. exact K1.
    - lia.
    - destruct B1 as (_ & c & Hn & Hc). exists c. split; auto. simpl length in Hn.
      replace (S (length rest) - 1 - k)%nat with (S (length rest - 1 - k)) in Hn by lia. exact Hn.
    - inversion S1; assumption.
  Qed.

  Lemma hv_cons : forall y z v c, has_var y c = true -> has_var y (with_vars (cons (z, v)) c) = true.
  Proof. intros y z v c H. unfold has_var, ahas in *; simpl. destruct (str_eqb y z); auto. Qed.
  Lemma hv_aset : forall y z v c, has_var y c = true -> has_var y (with_vars (aset z v) c) = true.
  Proof. intros y z v c H. unfold has_var in *; simpl. rewrite ahas_aset. exact H. Qed.
  Lemma cp_with_vars : forall g c, cell_pure c -> cell_pure (with_vars g c).
  Proof. intros g c H. exact H. Qed.
  Lemma cp_with_curs : forall g c, cell_pure c -> cell_pure (with_curs g c).
  Proof. intros g c H. exact H. Qed.
  Lemma cp_with_temps : forall g c, cell_pure c -> cell_pure (with_temps g c).
  Proof. intros g c H. exact H. Qed.
  Lemma cp_with_funcs_cons : forall F fd c, pure_fd fd = true -> cell_pure c -> cell_pure (with_funcs (cons (F, fd)) c).
  Proof. intros F fd c Hfd H f fd' [E|Hin]; [inversion E; subst; exact Hfd|eapply H; eauto]. Qed.

  Lemma pdeclare_var : forall y v s o s', (k < length (frames s))%nat -> declare_var pureM y v s = (o, s') -> PInv s s'.
  Proof.
    unfold declare_var. intros y v s o s' Hk H. destruct (has_var y (top_cell (view pureM s))); inversion H; subst.
    - apply PInv_refl.
    - apply pupd_mono; [lia|intros; apply hv_cons; assumption|apply cp_with_vars].
  Qed.

  (* an assignment to one of the X resolves at or above level k *)
  Lemma pset_var : forall y v s o s', mem_str y X = true -> set_var pureM y v s = (o, s') -> PInv s s'.
  Proof.
    unfold set_var. intros y v s o s' Hy H.
    destruct (find_frame (has_var y) (view pureM s)) as [i|] eqn:E; inversion H; subst; [|apply PInv_refl].
    intros Hpre. pose proof Hpre as [(Hk & c & Hn & Hc) _].
    destruct (find_frame_first (has_var y) _ _ _ Hn (Hc y Hy)) as (i' & Hi' & Hle).
    change (view pureM s) with (frames s) in E. rewrite E in Hi'. inversion Hi'; subst i'.
    apply pupd_mono; [lia|intros; apply hv_aset; assumption|apply cp_with_vars|exact Hpre].
  Qed.

  Lemma get_func_pure : forall f s fd, store_pure (frames s) -> get_func pureM f s = Some fd -> pure_fd fd = true.
  Proof.
    unfold get_func. intros f s fd HS. change (view pureM s) with (frames s). induction HS as [|c l Hc Hl IH]; simpl; [discriminate|].
    destruct (alookup (ascii_upper f) (c_funcs c)) as [fd'|] eqn:E; intros H.
    - inversion H; subst. destruct (alookup_In _ _ _ _ E) as (k' & Hin). eapply Hc. exact Hin.
    - apply IH. exact H.
  Qed.

  Lemma pbasic_post : forall t v s o s', (k < length (frames s))%nat -> pure_s X t = true ->
    basic_post pureM t v s = (o, s') -> PInv s s'.
  Proof.
    intros t v s o s' Hk Hs H. destruct t; simpl in H, Hs; try discriminate;
      try (inversion H; subst; apply PInv_refl; fail);
      try (eapply pdeclare_var; eauto; fail).
    - (* function declaration *)
      destruct (has_func (ascii_upper f) (top_cell (view pureM s))); [inversion H; subst; apply PInv_refl|].
      destruct (dup_names (map fst params)); inversion H; subst; [apply PInv_refl|].
      apply pupd_mono; [lia|intros y c Hc; exact Hc|intros; apply cp_with_funcs_cons; auto].
    - destruct (has_cur (ascii_upper c) (top_cell (view pureM s))); inversion H; subst; [apply PInv_refl|].
      apply pupd_mono; [lia|intros y c0 Hc; exact Hc|apply cp_with_curs].
    - destruct (find_frame (has_temp (ascii_upper t)) (view pureM s)); inversion H; subst; [apply PInv_refl|].
      apply pupd_mono; [lia|intros y c0 Hc; exact Hc|apply cp_with_temps].
  Qed.

  Lemma pbasic_expr : forall t e, pure_s X t = true -> basic_expr t = Some e -> pure_e X e = true.
  Proof. intros t e Hs H. destruct t; simpl in *; try discriminate; try (inversion H; subst; exact Hs). destruct init; inversion H; subst. exact Hs. Qed.
  Lemma pbasic_pre : forall t s, pure_s X t = true -> basic_pre pureM t s = None.
  Proof. intros t s Hs. destruct t; simpl in *; try reflexivity; discriminate. Qed.

  Lemma pexec_basic : forall ev,
    (forall e s r s', ev e s = (r, s') -> length (frames s') = length (frames s)) ->
    (forall e s r s', pure_e X e = true -> ev e s = (r, s') -> PInv s s') ->
    forall t s o s', (k < length (frames s))%nat -> pure_s X t = true -> exec_basic pureM ev t s = (o, s') -> PInv s s'.
  Proof.
    intros ev Hlen Hev t s o s' Hk Hs H. unfold exec_basic in H. rewrite (pbasic_pre t s Hs) in H.
    destruct (basic_expr t) as [e|] eqn:Ee.
    - pose proof (pbasic_expr _ _ Hs Ee) as Hse.
      destruct (ev e s) as [[v|er|] s1] eqn:E; try solve [inversion H; subst; eapply Hev; eauto].
      eapply PInv_trans; [eapply Hev; eauto|].
      pose proof (Hlen _ _ _ _ E) as Hl.
      destruct (basic_post pureM t v s1) as [[er|] s2] eqn:E2; simpl in H; inversion H; subst; eapply pbasic_post; eauto; lia.
    - destruct (basic_post pureM t VNull s) as [[er|] s2] eqn:E2; simpl in H; inversion H; subst; eapply pbasic_post; eauto.
  Qed.

  Lemma pclear : forall s, (k + 1 < length (frames s))%nat -> PInv s (clear_top pureM s).
  Proof. intros s H. apply pupd_above; [lia|intros; apply cell_pure_empty]. Qed.
End PureX.

Lemma eval_lit_cases : forall n v s r0 s0, eval pureM n (PLit v) s = (r0, s0) -> s0 = s /\ (r0 = EVal v \/ r0 = EOOF).
Proof. intros n v s r0 s0 H. destruct n; simpl in H; inversion H; subst; auto. Qed.

(* ---- binding the parameters of a pure function (arguments and literal defaults) ---------------------------- *)
Lemma bind_lit : forall n ps vs s r s' top rest,
  forallb lit_default ps = true -> frames s = top :: rest -> bind_params pureM n ps vs s = (r, s') ->
  exists l, frames s' = with_vars (fun l0 => l ++ l0) top :: rest /\ out s' = out s /\
            (r = None -> forall y, mem_str y (map fst ps) = true -> ahas y (l ++ c_vars top) = true).
Proof.
  induction n as [|n IH]; intros ps vs s r s' top rest Hd Hf H; simpl in H.
  { inversion H; subst. exists []. rewrite Hf. destruct top. repeat split; auto. discriminate. }
  destruct ps as [|[x d] ps].
  { inversion H; subst. exists []. rewrite Hf. destruct top. repeat split; auto. intros _ y Hy. discriminate. }
  simpl in Hd. apply andb_prop in Hd. destruct Hd as [Hd1 Hd2].
  assert (Hstep : forall v s0, frames s0 = top :: rest -> out s0 = out s ->
            forall vs', match declare_var pureM x v s0 with (None, s1) => bind_params pureM n ps vs' s1 | (Some er, s1) => (Some (EErr er), s1) end = (r, s') ->
            exists l, frames s' = with_vars (fun l0 => l ++ l0) top :: rest /\ out s' = out s /\
                      (r = None -> forall y, mem_str y (map fst ((x, d) :: ps)) = true -> ahas y (l ++ c_vars top) = true)).
  { intros v s0 Hf0 Ho0 vs' H0. unfold declare_var in H0. change (view pureM s0) with (frames s0) in H0. rewrite Hf0 in H0. simpl top_cell in H0.
    destruct (has_var x top) eqn:Ex.
    - inversion H0; subst. exists []. rewrite Hf0. destruct top. repeat split; auto. discriminate.
    - assert (Hf1 : frames (upd pureM 0 (with_vars (cons (x, v))) s0) = with_vars (cons (x, v)) top :: rest) by (rewrite frames_upd, Hf0; reflexivity).
      destruct (IH ps vs' _ r s' _ rest Hd2 Hf1 H0) as (l & Hfl & Hol & Hb).
      exists (l ++ [(x, v)]). split; [rewrite Hfl; destruct top; unfold with_vars; simpl; rewrite <- app_assoc; reflexivity|].
      split; [rewrite Hol; exact Ho0|].
      intros Hr y Hy. specialize (Hb Hr). rewrite <- app_assoc. simpl. simpl in Hy.
      apply Bool.orb_true_iff in Hy. destruct Hy as [Hy|Hy].
      + apply str_eqb_eq in Hy. subst y. clear - top. unfold ahas. induction l as [|[k' v'] l IHl]; simpl.
        * rewrite str_eqb_refl. reflexivity.
        * destruct (str_eqb x k'); auto.
      + specialize (Hb y Hy). simpl in Hb. exact Hb. }
  destruct vs as [|v vs].
  - unfold lit_default in Hd1. simpl in Hd1. destruct d as [de|]; [|inversion H; subst; exists []; rewrite Hf; destruct top; repeat split; auto; discriminate].
    destruct de; try discriminate.
    destruct (eval pureM n (PLit v) s) as [r0 s0] eqn:Ee. destruct (eval_lit_cases _ _ _ _ _ Ee) as [-> [-> | ->]].
    + eapply Hstep; eauto.
    + inversion H; subst. exists []. rewrite Hf. destruct top. repeat split; auto. discriminate.
  - eapply Hstep; eauto.
Qed.
#[local] Arguments push : simpl never.
#[local] Arguments pop : simpl never.
#[local] Arguments upd : simpl never.
#[local] Arguments emit : simpl never.
#[local] Arguments clear_top : simpl never.
#[local] Arguments declare_var : simpl never.
#[local] Arguments set_var : simpl never.
#[local] Arguments get_var : simpl never.
#[local] Arguments get_func : simpl never.
#[local] Arguments set_vars : simpl never.
#[local] Arguments declare_nulls : simpl never.
#[local] Arguments do_fetch : simpl never.
#[local] Arguments exec_basic : simpl never.
#[local] Arguments eval_cur_open : simpl never.
#[local] Arguments eval_cur_count : simpl never.
#[local] Arguments eval_temp_count : simpl never.
#[local] Arguments args_len_ok : simpl never.
#[local] Arguments ternary_of : simpl never.
#[local] Arguments calculate : simpl never.
#[local] Arguments compare_op : simpl never.
#[local] Arguments op_eq : simpl never.


Definition Q_call n := forall fd vs s r s', pure_fd fd = true -> store_pure (frames s) ->
  call pureM n fd vs s = (r, s') -> frames s' = frames s /\ out s' = out s.
Definition Q_eval n := forall X k e s r s', pure_e X e = true -> eval pureM n e s = (r, s') -> PInv X k s s'.
Definition Q_eval_list n := forall X k es s r s', forallb (pure_e X) es = true -> eval_list pureM n es s = (r, s') -> PInv X k s s'.
Definition Q_exec n := forall X k t s r s', (k < length (frames s))%nat -> pure_s X t = true -> exec pureM n t s = (r, s') -> PInv X k s s'.
Definition Q_exec_list n := forall X k ts s r s', (k < length (frames s))%nat -> forallb (pure_s X) ts = true ->
  exec_list pureM n ts s = (r, s') -> PInv X k s s'.
Definition Q_child n := forall X k ts s r s', (k < length (frames s))%nat -> forallb (pure_s X) ts = true ->
  exec_child pureM n ts s = (r, s') -> PInv X k s s'.
Definition Q_if n := forall X k brs els s r s', (k < length (frames s))%nat -> forallb (pure_br X) brs = true -> forallb (pure_s X) els = true ->
  exec_if pureM n brs els s = (r, s') -> PInv X k s s'.
Definition Q_case n := forall X k vv ws els s r s', (k < length (frames s))%nat -> forallb (pure_br X) ws = true -> forallb (pure_s X) els = true ->
  exec_case pureM n vv ws els s = (r, s') -> PInv X k s s'.
Definition Q_while n := forall X k c body s r s', (k + 1 < length (frames s))%nat -> pure_e X c = true -> forallb (pure_s X) body = true ->
  while_loop pureM n c body s = (r, s') -> PInv X k s s'.
Definition Q_all n := Q_call n /\ Q_eval n /\ Q_eval_list n /\ Q_exec n /\ Q_exec_list n /\ Q_child n /\ Q_if n /\ Q_case n /\ Q_while n.

Ltac plens := rewrite ?len_push, ?len_clear, ?len_upd, ?len_emit in *; lia.
Ltac psplitb H := repeat (rewrite Bool.andb_true_iff in H); repeat match goal with H' : _ /\ _ |- _ => destruct H' end.
Ltac plenfacts :=
  repeat match goal with
         | H : eval pureM ?n _ ?a = (_, ?b) |- _ => lazymatch goal with _ : length (frames b) = length (frames a) |- _ => fail | _ => pose proof (len_eval n _ _ _ _ H) end
         | H : eval_list pureM ?n _ ?a = (_, ?b) |- _ => lazymatch goal with _ : length (frames b) = length (frames a) |- _ => fail | _ => pose proof (len_eval_list n _ _ _ _ H) end
         | H : exec pureM ?n _ ?a = (_, ?b) |- _ => lazymatch goal with _ : length (frames b) = length (frames a) |- _ => fail | _ => pose proof (len_exec n _ _ _ _ H) end
         | H : exec_list pureM ?n _ ?a = (_, ?b) |- _ => lazymatch goal with _ : length (frames b) = length (frames a) |- _ => fail | _ => pose proof (len_exec_list n _ _ _ _ H) end
         | H : exec_child pureM ?n _ ?a = (_, ?b) |- _ => lazymatch goal with _ : length (frames b) = length (frames a) |- _ => fail | _ => pose proof (len_child n _ _ _ _ H) end
         | H : exec_if pureM ?n _ _ ?a = (_, ?b) |- _ => lazymatch goal with _ : length (frames b) = length (frames a) |- _ => fail | _ => pose proof (len_if n _ _ _ _ _ H) end
         | H : exec_case pureM ?n _ _ _ ?a = (_, ?b) |- _ => lazymatch goal with _ : length (frames b) = length (frames a) |- _ => fail | _ => pose proof (len_case n _ _ _ _ _ _ H) end
         | H : while_loop pureM ?n _ _ ?a = (_, ?b) |- _ => lazymatch goal with _ : length (frames b) = length (frames a) |- _ => fail | _ => pose proof (len_while n _ _ _ _ _ H) end
         | H : set_var pureM _ _ ?a = (_, ?b) |- _ => lazymatch goal with _ : length (frames b) = length (frames a) |- _ => fail | _ => pose proof (len_set_var _ _ _ _ _ H) end
         end.
Ltac pgo X k :=
  first
    [ assumption
    | apply PInv_refl
    | match goal with H : PInv X k ?a ?b |- PInv X k ?a _ => apply (PInv_trans X k _ _ _ H); clear H; pgo X k end
    | match goal with |- PInv X k ?a (pop pureM ?b) => apply pbracket; [plens|plens|pgo X k] end
    | match goal with |- PInv X k ?a _ =>
        match goal with H : PInv X k (clear_top pureM a) _ |- _ => apply (PInv_trans X k _ _ _ (pclear X k a ltac:(plens))); pgo X k end
      end ].

Lemma pure_all : forall n, Q_all n.
Proof.
  induction n as [|n IH].
  { unfold Q_all; repeat apply conj; intro; intros; simpl in *;
      match goal with H : (_, _) = (_, _) |- _ => inversion H; subst end; try apply PInv_refl; auto. }
  destruct IH as (IHc & IHe & IHl & IHx & IHxl & IHch & IHif & IHcase & IHw).
  Ltac pfacts X k IHe IHl IHx IHxl IHch IHif IHcase IHw :=
    plenfacts;
    repeat match goal with
           | H : eval pureM _ _ _ = _ |- _ => apply (IHe X k) in H; [|assumption]
           | H : eval_list pureM _ _ _ = _ |- _ => apply (IHl X k) in H; [|assumption]
           | H : exec pureM _ _ _ = _ |- _ => apply (IHx X k) in H; [|plens|assumption]
           | H : exec_list pureM _ _ _ = _ |- _ => apply (IHxl X k) in H; [|plens|assumption]
           | H : exec_child pureM _ _ _ = _ |- _ => apply (IHch X k) in H; [|plens|assumption]
           | H : exec_if pureM _ _ _ _ = _ |- _ => apply (IHif X k) in H; [|plens|assumption|assumption]
           | H : exec_case pureM _ _ _ _ _ = _ |- _ => apply (IHcase X k) in H; [|plens|assumption|assumption]
           | H : while_loop pureM _ _ _ _ = _ |- _ => apply (IHw X k) in H; [|plens|assumption|assumption]
           | H : set_var pureM _ _ _ = _ |- _ => apply (pset_var X k) in H; [|assumption]
           end.
  assert (Hcall : Q_call (S n)).
  { intros fd vs s r s' Hfd Hst H. unfold pure_fd in Hfd. apply andb_prop in Hfd. destruct Hfd as [Hd Hb]. simpl in H.
    destruct (bind_params pureM n (fst fd) vs (push pureM s)) as [[e|] s1] eqn:Eb.
    - inversion H; subst. destruct (bind_lit _ _ _ _ _ _ empty_cell (frames s) Hd (frames_push s) Eb) as (l & Hf & Ho & _).
      rewrite frames_pop, Hf. split; [reflexivity|]. unfold pop; simpl. rewrite Ho. reflexivity.
    - destruct (bind_lit _ _ _ _ _ _ empty_cell (frames s) Hd (frames_push s) Eb) as (l & Hf & Ho & Hbind).
      destruct (exec_list pureM n (snd fd) s1) as [o s2] eqn:Ex. inversion H; subst.
      pose proof (len_exec_list n _ _ _ _ Ex) as Hl.
      assert (Hpre : PPre (map fst (fst fd)) (length (frames s)) s1).
      { split.
        - rewrite Hf. split; [simpl; lia|]. eexists. simpl length. replace (S (length (frames s)) - 1 - length (frames s))%nat with O by lia.
          split; [reflexivity|]. intros y Hy. apply (Hbind eq_refl y Hy).
        - rewrite Hf. constructor; [intros f0 fd0 []|exact Hst]. }
      destruct (IHxl (map fst (fst fd)) (length (frames s)) (snd fd) s1 o s2 ltac:(rewrite Hf; simpl; lia) Hb Ex Hpre) as (L2 & K2 & O2 & _).
      rewrite frames_pop. unfold pbot in K2. rewrite L2 in K2. rewrite Hf in K2. simpl length in K2.
      replace (S (length (frames s)) - length (frames s))%nat with 1%nat in K2 by lia.
      destruct (frames s2) as [|c2 r2]; simpl in K2 |- *; [rewrite Hf in L2; simpl in L2; discriminate|].
      split; [exact K2|]. unfold pop; simpl. rewrite O2, Ho. reflexivity. }
  assert (Heval : Q_eval (S n)).
  { intros X k e s r s' Hs H. destruct e; simpl in H, Hs; psplitb Hs; brk H; try (inv H).
    all: try (pfacts X k IHe IHl IHx IHxl IHch IHif IHcase IHw; pgo X k).
    (* call *)
    intros Hpre. pose proof (get_func_pure f s f0 (proj2 Hpre) Heqo) as Hfd. revert Hpre. change (PInv X k s s').
    pose proof (len_eval_list n _ _ _ _ Heqp) as Hl1.
    apply (IHl X k) in Heqp; [|assumption].
    apply (PInv_trans X k _ _ _ Heqp). intros Hpre1.
    destruct (IHc f0 vs g r s' Hfd (proj2 Hpre1) H1) as [Hf Ho]. apply PInv_same; auto. }
  assert (Hlist : Q_eval_list (S n)).
  { intros X k es s r s' Hs H. destruct es; simpl in H, Hs; psplitb Hs; brk H; try (inv H).
    all: try (pfacts X k IHe IHl IHx IHxl IHch IHif IHcase IHw; pgo X k). }
  assert (Hexec : Q_exec (S n)).
  { intros X k t s r s' Hk Hs H. destruct t; simpl in H;
      try (eapply pexec_basic; [| |exact Hk|exact Hs|exact H]; [intros; eapply len_eval; eauto|intros; eapply IHe; eauto]; fail);
      simpl in Hs; try discriminate; psplitb Hs; brk H; try (inv H).
    all: try (pfacts X k IHe IHl IHx IHxl IHch IHif IHcase IHw; pgo X k). }
  assert (Hxl : Q_exec_list (S n)).
  { intros X k ts s r s' Hk Hs H. destruct ts; simpl in H, Hs; psplitb Hs; brk H; try (inv H).
    all: try (pfacts X k IHe IHl IHx IHxl IHch IHif IHcase IHw; pgo X k). }
  assert (Hch : Q_child (S n)).
  { intros X k ts s r s' Hk Hs H. simpl in H. brk H; inv H.
    all: try (pfacts X k IHe IHl IHx IHxl IHch IHif IHcase IHw; pgo X k). }
  assert (Hif : Q_if (S n)).
  { intros X k brs els s r s' Hk Hs Hels H. destruct brs as [|[c ts] brs]; simpl in H, Hs; psplitb Hs; brk H; try (inv H).
    all: try (pfacts X k IHe IHl IHx IHxl IHch IHif IHcase IHw; pgo X k). }
  assert (Hcase : Q_case (S n)).
  { intros X k vv ws els s r s' Hk Hs Hels H. destruct ws as [|[c ts] ws]; simpl in H, Hs; psplitb Hs; brk H; try (inv H).
    all: try (pfacts X k IHe IHl IHx IHxl IHch IHif IHcase IHw; pgo X k). }
  assert (Hw : Q_while (S n)).
  { intros X k c body s r s' Hk Hc Hb H. simpl in H. brk H; try (inv H).
    all: try (pfacts X k IHe IHl IHx IHxl IHch IHif IHcase IHw; pgo X k). }
  unfold Q_all; repeat apply conj; assumption.
Qed.

(* ---- consequences ---------------------------------------------------------------------------------------- *)
Theorem pure_call_leaves_scope : forall n fd vs s r s', pure_fd fd = true -> store_pure (frames s) ->
  call pureM n fd vs s = (r, s') -> frames s' = frames s /\ out s' = out s.
Proof. intros n. destruct (pure_all n) as (H & _). exact H. Qed.

Lemma pst_eq : forall s s' : pst, frames s' = frames s -> out s' = out s -> s' = s.
Proof. intros [m o] [m' o'] Hf Ho. unfold frames in Hf. simpl in *. subst. reflexivity. Qed.

Lemma eval_list_lits : forall n vs s r s', eval_list pureM n (map PLit vs) s = (r, s') -> s' = s.
Proof.
  induction n as [|n IH]; intros vs s r s' H; simpl in H; [inversion H; reflexivity|].
  destruct vs as [|v vs]; simpl in H; [inversion H; reflexivity|].
  destruct (eval pureM n (PLit v) s) as [r0 s0] eqn:E. destruct (eval_lit_cases _ _ _ _ _ E) as [-> [-> | ->]].
  - destruct (eval_list pureM n (map PLit vs) s) as [r1 s1] eqn:E1. apply IH in E1. subst.
    destruct r1; inversion H; reflexivity.
  - inversion H; reflexivity.
Qed.

Theorem pure_call_state : forall n f vs s r s', store_pure (frames s) ->
  eval pureM n (PCall f (map PLit vs)) s = (r, s') -> s' = s.
Proof.
  intros n f vs s r s' Hst H. destruct n as [|n]; simpl in H; [inversion H; reflexivity|].
  destruct (get_func pureM f s) as [fd|] eqn:Eg; [|inversion H; reflexivity].
  destruct (negb (args_len_ok (fst fd) (length (map PLit vs)))); [inversion H; reflexivity|].
  destruct (eval_list pureM n (map PLit vs) s) as [r1 s1] eqn:E1. apply eval_list_lits in E1. subst s1.
  destruct r1; try (inversion H; reflexivity).
  destruct (pure_call_leaves_scope n fd vs0 s r s' (get_func_pure f s fd Hst Eg) Hst H) as [Hf Ho].
  apply pst_eq; assumption.
Qed.

(* the rows of a query evaluated one after the other, each seeing what the previous ones left *)
Fixpoint seq_rows (M : machine) (n : nat) (f : str) (rows : list val) (s : gst M) : list eres :=
  match rows with
  | [] => []
  | r :: rs => let (x, s1) := eval M n (PCall f [PLit r]) s in x :: seq_rows M n f rs s1
  end.

Theorem pure_rows_sequential : forall n f rows s, store_pure (frames s) ->
  seq_rows pureM n f rows s = call_on_rows pureM n f rows s.
Proof.
  intros n f rows s Hst. induction rows as [|r rs IH]; simpl; [reflexivity|].
  destruct (eval pureM n (PCall f [PLit r]) s) as [x s1] eqn:E.
  pose proof (pure_call_state n f [r] s x s1 Hst E) as ->. simpl. rewrite IH. reflexivity.
Qed.
