(* ProcSim.v -- the interpreter of Model/Proc.v behaves the same on any two scope machines related by
   a simulation relation; the pooled-heap machine (under its invariant) simulates the stack machine.
   Consequences: the pool discipline (pool_inv), freshness of every block handed out, and the fact
   that results do not depend on which pooled object sync.Pool returns. *)
From Coq Require Import Floats Lia.
Require Import Csvq.Model.Base Csvq.Model.Value Csvq.Model.Compare Csvq.Model.Arith Csvq.Model.Proc.
Open Scope Z_scope.

Section Sim.
  Variables M1 M2 : machine.
  Variable R : mst M1 -> mst M2 -> Prop.
  Hypothesis R_view : forall a b, R a b -> m_view M1 a = m_view M2 b.
  Hypothesis R_push : forall a b, R a b -> R (m_push M1 a) (m_push M2 b).
  Hypothesis R_pop : forall a b, R a b -> R (m_pop M1 a) (m_pop M2 b).
  Hypothesis R_upd : forall i f a b, R a b -> R (m_upd M1 i f a) (m_upd M2 i f b).

  Definition Rs (s1 : gst M1) (s2 : gst M2) : Prop := R (ms s1) (ms s2) /\ out s1 = out s2.
  Definition sim2 {X} (r1 : X * gst M1) (r2 : X * gst M2) : Prop := fst r1 = fst r2 /\ Rs (snd r1) (snd r2).

  Lemma Rs_view : forall s1 s2, Rs s1 s2 -> view M1 s1 = view M2 s2.
  Proof. intros s1 s2 [H _]. apply R_view. exact H. Qed.
  Lemma Rs_push : forall s1 s2, Rs s1 s2 -> Rs (push M1 s1) (push M2 s2).
  Proof. intros s1 s2 [H E]. split; simpl; auto. Qed.
  Lemma Rs_pop : forall s1 s2, Rs s1 s2 -> Rs (pop M1 s1) (pop M2 s2).
  Proof. intros s1 s2 [H E]. split; simpl; auto. Qed.
  Lemma Rs_upd : forall i f s1 s2, Rs s1 s2 -> Rs (upd M1 i f s1) (upd M2 i f s2).
  Proof. intros i f s1 s2 [H E]. split; simpl; auto. Qed.
  Lemma Rs_emit : forall v s1 s2, Rs s1 s2 -> Rs (emit M1 v s1) (emit M2 v s2).
  Proof. intros v s1 s2 [H E]. split; simpl; auto. f_equal. exact E. Qed.
  Lemma Rs_clear : forall s1 s2, Rs s1 s2 -> Rs (clear_top M1 s1) (clear_top M2 s2).
  Proof. intros. apply Rs_upd. assumption. Qed.
  Hint Resolve Rs_push Rs_pop Rs_upd Rs_emit Rs_clear : sim.

  Lemma sim2_intro : forall X (x : X) s1 s2, Rs s1 s2 -> sim2 (x, s1) (x, s2).
  Proof. intros. split; auto. Qed.
  Hint Resolve sim2_intro : sim.

  (* ---- primitives ---------------------------------------------------------------------------- *)
  Lemma declare_var_sim : forall x v s1 s2, Rs s1 s2 -> sim2 (declare_var M1 x v s1) (declare_var M2 x v s2).
  Proof.
    intros x v s1 s2 H. unfold declare_var. rewrite (Rs_view _ _ H).
    destruct (has_var x (top_cell (view M2 s2))); auto with sim.
  Qed.
  Lemma set_var_sim : forall x v s1 s2, Rs s1 s2 -> sim2 (set_var M1 x v s1) (set_var M2 x v s2).
  Proof.
    intros x v s1 s2 H. unfold set_var. rewrite (Rs_view _ _ H).
    destruct (find_frame (has_var x) (view M2 s2)); auto with sim.
  Qed.
  Lemma get_var_sim : forall x s1 s2, Rs s1 s2 -> get_var M1 x s1 = get_var M2 x s2.
  Proof. intros x s1 s2 H. unfold get_var. rewrite (Rs_view _ _ H). reflexivity. Qed.
  Lemma get_func_sim : forall f s1 s2, Rs s1 s2 -> get_func M1 f s1 = get_func M2 f s2.
  Proof. intros f s1 s2 H. unfold get_func. rewrite (Rs_view _ _ H). reflexivity. Qed.

  Lemma set_vars_sim : forall xs vs s1 s2, Rs s1 s2 -> sim2 (set_vars M1 xs vs s1) (set_vars M2 xs vs s2).
  Proof.
    induction xs as [|x xs IH]; intros vs s1 s2 H; simpl; auto with sim.
    destruct vs as [|v vs]; auto with sim.
    pose proof (set_var_sim x v s1 s2 H) as Hs.
    destruct (set_var M1 x v s1) as [o1 t1], (set_var M2 x v s2) as [o2 t2].
    destruct Hs as [E Ht]; simpl in E, Ht; subst o2.
    destruct o1; auto with sim.
  Qed.
  Lemma declare_nulls_sim : forall xs s1 s2, Rs s1 s2 -> sim2 (declare_nulls M1 xs s1) (declare_nulls M2 xs s2).
  Proof.
    induction xs as [|x xs IH]; intros s1 s2 H; simpl; auto with sim.
    pose proof (declare_var_sim x VNull s1 s2 H) as Hs.
    destruct (declare_var M1 x VNull s1) as [o1 t1], (declare_var M2 x VNull s2) as [o2 t2].
    destruct Hs as [E Ht]; simpl in E, Ht; subst o2.
    destruct o1; auto with sim.
  Qed.

  Lemma do_fetch_sim : forall c vars s1 s2, Rs s1 s2 -> sim2 (do_fetch M1 c vars s1) (do_fetch M2 c vars s2).
  Proof.
    intros c vars s1 s2 H. unfold do_fetch. rewrite (Rs_view _ _ H).
    destruct (find_frame (has_cur (ascii_upper c)) (view M2 s2)) as [i|]; auto with sim.
    destruct (alookup (ascii_upper c) (c_curs (nth i (view M2 s2) empty_cell))) as [cu|]; auto with sim.
    destruct (negb (cu_open cu)); auto with sim.
    destruct (cu_idx cu + 1 <? 0); auto with sim.
    destruct (Z.of_nat (length (cu_rows cu)) <=? cu_idx cu + 1); auto with sim.
    destruct (negb (Nat.eqb (length vars) 1)); auto with sim.
    match goal with |- sim2 (match set_vars M1 ?xs ?vs ?a with _ => _ end) (match set_vars M2 _ _ ?b with _ => _ end) =>
      assert (Hs : sim2 (set_vars M1 xs vs a) (set_vars M2 xs vs b)) by (apply set_vars_sim; auto with sim);
      destruct (set_vars M1 xs vs a) as [o1 t1], (set_vars M2 xs vs b) as [o2 t2] end.
    destruct Hs as [E Ht]; simpl in E, Ht; subst o2.
    destruct o1; auto with sim.
  Qed.

  Lemma basic_pre_sim : forall t s1 s2, Rs s1 s2 -> basic_pre M1 t s1 = basic_pre M2 t s2.
  Proof. intros t s1 s2 H. destruct t; simpl; auto. rewrite (Rs_view _ _ H). reflexivity. Qed.

  Lemma basic_post_sim : forall t v s1 s2, Rs s1 s2 -> sim2 (basic_post M1 t v s1) (basic_post M2 t v s2).
  Proof.
    intros t v s1 s2 H.
    destruct t; simpl; auto with sim; try (apply declare_var_sim; assumption); rewrite ?(Rs_view _ _ H);
      repeat match goal with
             | |- sim2 (match ?x with _ => _ end) (match ?x with _ => _ end) => destruct x
             | |- sim2 (if ?x then _ else _) (if ?x then _ else _) => destruct x
             end; auto with sim.
    (* SFetch *)
    pose proof (do_fetch_sim c vars s1 s2 H) as Hs.
    destruct (do_fetch M1 c vars s1) as [o1 t1], (do_fetch M2 c vars s2) as [o2 t2].
    destruct Hs as [E Ht]; simpl in E, Ht; subst o2. destruct o1; auto with sim.
  Qed.

  Lemma fin_basic_sim : forall r1 r2, sim2 r1 r2 -> sim2 (fin_basic M1 r1) (fin_basic M2 r2).
  Proof.
    intros [o1 t1] [o2 t2] [E Ht]; simpl in E, Ht; subst o2. destruct o1; simpl; auto with sim.
  Qed.

  Lemma exec_basic_sim : forall ev1 ev2,
    (forall e s1 s2, Rs s1 s2 -> sim2 (ev1 e s1) (ev2 e s2)) ->
    forall t s1 s2, Rs s1 s2 -> sim2 (exec_basic M1 ev1 t s1) (exec_basic M2 ev2 t s2).
  Proof.
    intros ev1 ev2 Hev t s1 s2 H. unfold exec_basic.
    rewrite (basic_pre_sim t s1 s2 H). destruct (basic_pre M2 t s2); auto with sim.
    destruct (basic_expr t) as [e|].
    - pose proof (Hev e s1 s2 H) as Hs.
      destruct (ev1 e s1) as [r1 t1], (ev2 e s2) as [r2 t2].
      destruct Hs as [E Ht]; simpl in E, Ht; subst r2.
      destruct r1; auto with sim. apply fin_basic_sim. apply basic_post_sim. assumption.
    - apply fin_basic_sim. apply basic_post_sim. assumption.
  Qed.

  Lemma eval_reads_sim : forall s1 s2, Rs s1 s2 ->
    (forall neg c, eval_cur_open M1 neg c s1 = eval_cur_open M2 neg c s2) /\
    (forall c, eval_cur_count M1 c s1 = eval_cur_count M2 c s2) /\
    (forall t, eval_temp_count M1 t s1 = eval_temp_count M2 t s2).
  Proof.
    intros s1 s2 H. unfold eval_cur_open, eval_cur_count, eval_temp_count. rewrite (Rs_view _ _ H). auto.
  Qed.

  (* ---- the interpreter ----------------------------------------------------------------------- *)
  Definition P_eval n := forall e s1 s2, Rs s1 s2 -> sim2 (eval M1 n e s1) (eval M2 n e s2).
  Definition P_eval_list n := forall es s1 s2, Rs s1 s2 -> sim2 (eval_list M1 n es s1) (eval_list M2 n es s2).
  Definition P_call n := forall fd vs s1 s2, Rs s1 s2 -> sim2 (call M1 n fd vs s1) (call M2 n fd vs s2).
  Definition P_bind n := forall ps vs s1 s2, Rs s1 s2 -> sim2 (bind_params M1 n ps vs s1) (bind_params M2 n ps vs s2).
  Definition P_exec n := forall t s1 s2, Rs s1 s2 -> sim2 (exec M1 n t s1) (exec M2 n t s2).
  Definition P_exec_list n := forall ts s1 s2, Rs s1 s2 -> sim2 (exec_list M1 n ts s1) (exec_list M2 n ts s2).
  Definition P_child n := forall ts s1 s2, Rs s1 s2 -> sim2 (exec_child M1 n ts s1) (exec_child M2 n ts s2).
  Definition P_if n := forall brs els s1 s2, Rs s1 s2 -> sim2 (exec_if M1 n brs els s1) (exec_if M2 n brs els s2).
  Definition P_case n := forall vv ws els s1 s2, Rs s1 s2 -> sim2 (exec_case M1 n vv ws els s1) (exec_case M2 n vv ws els s2).
  Definition P_while n := forall c body s1 s2, Rs s1 s2 -> sim2 (while_loop M1 n c body s1) (while_loop M2 n c body s2).
  Definition P_whilein n := forall d vars cur body s1 s2, Rs s1 s2 ->
    sim2 (whilein_loop M1 n d vars cur body s1) (whilein_loop M2 n d vars cur body s2).
  Definition P_all n := P_eval n /\ P_eval_list n /\ P_call n /\ P_bind n /\ P_exec n /\ P_exec_list n /\ P_child n /\
                        P_if n /\ P_case n /\ P_while n /\ P_whilein n.

  (* destruct a pair of corresponding sub-computations using a simulation fact about them *)
  Ltac split_sim H :=
    match type of H with
    | sim2 ?a ?b =>
        let r1 := fresh "r" in let t1 := fresh "t" in let r2 := fresh "r" in let t2 := fresh "t" in
        let E := fresh "E" in let Ht := fresh "Ht" in
        destruct a as [r1 t1]; destruct b as [r2 t2]; destruct H as [E Ht]; simpl in E, Ht; subst r2
    end.

  Lemma sim_all : forall n, P_all n.
  Proof.
    induction n as [|n IH].
    { unfold P_all; repeat apply conj; intro; intros; simpl; auto with sim. }
    destruct IH as (IHe & IHl & IHc & IHb & IHx & IHxl & IHch & IHif & IHcase & IHw & IHwi).
    assert (Heval : P_eval (S n)).
    { intros e s1 s2 H. destruct e; simpl; auto with sim.
      - rewrite (get_var_sim x s1 s2 H). destruct (get_var M2 x s2); auto with sim.
      - pose proof (IHe e s1 s2 H) as Hs. split_sim Hs. destruct r; auto with sim.
        pose proof (set_var_sim x v t t0 Ht) as Hs. split_sim Hs. destruct r; auto with sim.
      - pose proof (IHe e1 s1 s2 H) as Hs. split_sim Hs. destruct r; auto with sim.
        destruct (is_null v); auto with sim.
        pose proof (IHe e2 t t0 Ht) as Hs. split_sim Hs. destruct r; auto with sim.
      - pose proof (IHe e1 s1 s2 H) as Hs. split_sim Hs. destruct r; auto with sim.
        destruct (is_null v); auto with sim.
        pose proof (IHe e2 t t0 Ht) as Hs. split_sim Hs. destruct r; auto with sim.
      - pose proof (IHe e1 s1 s2 H) as Hs. split_sim Hs. destruct r; auto with sim.
        destruct (ternary_of v); auto with sim;
          pose proof (IHe e2 t t0 Ht) as Hs; split_sim Hs; destruct r; auto with sim.
      - pose proof (IHe e1 s1 s2 H) as Hs. split_sim Hs. destruct r; auto with sim.
        destruct (ternary_of v); auto with sim;
          pose proof (IHe e2 t t0 Ht) as Hs; split_sim Hs; destruct r; auto with sim.
      - pose proof (IHe e s1 s2 H) as Hs. split_sim Hs. destruct r; auto with sim.
      - rewrite (get_func_sim f s1 s2 H). destruct (get_func M2 f s2) as [fd|]; auto with sim.
        destruct (negb (args_len_ok (fst fd) (length args))); auto with sim.
        pose proof (IHl args s1 s2 H) as Hs. split_sim Hs. destruct r; auto with sim.
      - destruct (eval_reads_sim s1 s2 H) as (E & _ & _). rewrite E. auto with sim.
      - destruct (eval_reads_sim s1 s2 H) as (_ & E & _). rewrite E. auto with sim.
      - destruct (eval_reads_sim s1 s2 H) as (_ & _ & E). rewrite E. auto with sim. }
    assert (Hlist : P_eval_list (S n)).
    { intros es s1 s2 H. destruct es as [|e es]; simpl; auto with sim.
      pose proof (IHe e s1 s2 H) as Hs. split_sim Hs. destruct r; auto with sim.
      pose proof (IHl es t t0 Ht) as Hs. split_sim Hs. destruct r; auto with sim. }
    assert (Hcall : P_call (S n)).
    { intros fd vs s1 s2 H. simpl.
      pose proof (IHb (fst fd) vs (push M1 s1) (push M2 s2) (Rs_push _ _ H)) as Hs. split_sim Hs.
      destruct r; auto with sim.
      pose proof (IHxl (snd fd) t t0 Ht) as Hs. split_sim Hs. auto with sim. }
    assert (Hbind : P_bind (S n)).
    { intros ps vs s1 s2 H. destruct ps as [|[x d] ps]; simpl; auto with sim.
      destruct vs as [|v vs].
      - destruct d as [de|]; auto with sim.
        pose proof (IHe de s1 s2 H) as Hs. split_sim Hs. destruct r; auto with sim.
        pose proof (declare_var_sim x v t t0 Ht) as Hs. split_sim Hs. destruct r; auto with sim.
      - pose proof (declare_var_sim x v s1 s2 H) as Hs. split_sim Hs. destruct r; auto with sim. }
    assert (Hexec : P_exec (S n)).
    { intros t s1 s2 H. destruct t; simpl; auto with sim; try (apply exec_basic_sim; [exact IHe | exact H]).
      - destruct v as [ve|]; auto with sim.
        pose proof (IHe ve s1 s2 H) as Hs. split_sim Hs. destruct r; auto with sim.
      - pose proof (IHw c body (push M1 s1) (push M2 s2) (Rs_push _ _ H)) as Hs. split_sim Hs. auto with sim.
      - pose proof (IHwi decl vars cur body (push M1 s1) (push M2 s2) (Rs_push _ _ H)) as Hs. split_sim Hs. auto with sim.
      - pose proof (IHe e s1 s2 H) as Hs. split_sim Hs. destruct r; auto with sim.
      - destruct (0 <? code); auto with sim. }
    assert (Hxl : P_exec_list (S n)).
    { intros ts s1 s2 H. destruct ts as [|t ts]; simpl; auto with sim.
      pose proof (IHx t s1 s2 H) as Hs. split_sim Hs. destruct r; auto with sim. }
    assert (Hch : P_child (S n)).
    { intros ts s1 s2 H. simpl.
      pose proof (IHxl ts (push M1 s1) (push M2 s2) (Rs_push _ _ H)) as Hs. split_sim Hs. auto with sim. }
    assert (Hif : P_if (S n)).
    { intros brs els s1 s2 H. destruct brs as [|[c ts] brs]; simpl.
      - destruct els; auto with sim.
      - pose proof (IHe c s1 s2 H) as Hs. split_sim Hs. destruct r; auto with sim.
        destruct (ternary_of v); auto with sim. }
    assert (Hcase : P_case (S n)).
    { intros vv ws els s1 s2 H. destruct ws as [|[c ts] ws]; simpl.
      - destruct els; auto with sim.
      - pose proof (IHe c s1 s2 H) as Hs. split_sim Hs. destruct r; auto with sim.
        destruct (match vv with Some x => op_eq x v | None => ternary_of v end); auto with sim. }
    assert (Hw : P_while (S n)).
    { intros c body s1 s2 H. simpl.
      pose proof (IHe c _ _ (Rs_clear _ _ H)) as Hs. split_sim Hs. destruct r; auto with sim.
      destruct (ternary_of v); auto with sim.
      pose proof (IHxl body t t0 Ht) as Hs. split_sim Hs. destruct r; auto with sim. }
    assert (Hwi : P_whilein (S n)).
    { intros d vars cur body s1 s2 H. simpl.
      assert (Hd : sim2 (if d then declare_nulls M1 vars (clear_top M1 s1) else (None, clear_top M1 s1))
                        (if d then declare_nulls M2 vars (clear_top M2 s2) else (None, clear_top M2 s2))).
      { destruct d; [apply declare_nulls_sim|]; auto with sim. }
      split_sim Hd. destruct r; auto with sim.
      pose proof (do_fetch_sim cur vars t t0 Ht) as Hs. split_sim Hs. destruct r; auto with sim.
      pose proof (IHxl body t1 t2 Ht0) as Hs. split_sim Hs. destruct r; auto with sim. }
    unfold P_all; repeat apply conj; assumption.
  Qed.
End Sim.

(* ================================================================================================
   The pooled-heap machine under its invariant simulates the stack machine.
   ================================================================================================ *)
From Coq Require Import Permutation.

(* replay of the Get/Put log (newest first) on the stack of live objects: a Get must hand out an
   object that is not live, a Put must release the innermost live object *)
Fixpoint mem_N (x : N) (l : list N) : bool :=
  match l with [] => false | y :: l' => N.eqb x y || mem_N x l' end.
Fixpoint log_stack (log : list hevent) : option (list N) :=
  match log with
  | [] => Some []
  | HGet id :: r =>
      match log_stack r with
      | Some live => if mem_N id live then None else Some (id :: live)
      | None => None
      end
  | HPut id :: r =>
      match log_stack r with
      | Some (x :: live) => if N.eqb x id then Some live else None
      | _ => None
      end
  end.
Fixpoint count_get (log : list hevent) : nat :=
  match log with [] => O | HGet _ :: r => S (count_get r) | HPut _ :: r => count_get r end.
Fixpoint count_put (log : list hevent) : nat :=
  match log with [] => O | HPut _ :: r => S (count_put r) | HGet _ :: r => count_put r end.

Lemma log_stack_counts : forall log live, log_stack log = Some live ->
  count_get log = (count_put log + length live)%nat.
Proof.
  induction log as [|e r IH]; intros live H; simpl in *.
  - inversion H; reflexivity.
  - destruct e as [id|id].
    + destruct (log_stack r) as [l|]; [|discriminate]. destruct (mem_N id l); [discriminate|].
      inversion H; subst. simpl. rewrite (IH l eq_refl). lia.
    + destruct (log_stack r) as [[|x l]|]; try discriminate. destruct (N.eqb x id); [|discriminate].
      inversion H; subst. rewrite (IH (x :: live) eq_refl). simpl. lia.
Qed.

Lemma mem_N_In : forall x l, mem_N x l = true <-> In x l.
Proof.
  induction l as [|y l IH]; simpl; [split; [discriminate|tauto]|].
  rewrite Bool.orb_true_iff, IH, N.eqb_eq. split; intros [H|H]; auto.
Qed.
Lemma mem_N_false : forall x l, ~ In x l -> mem_N x l = false.
Proof. intros x l H. destruct (mem_N x l) eqn:E; auto. apply mem_N_In in E. contradiction. Qed.

Lemma hget_hset : forall id c h j, hget j (hset id c h) = if N.eqb j id then c else hget j h.
Proof.
  induction h as [|[k c'] h IH]; intros j; simpl.
  - destruct (N.eqb j id); reflexivity.
  - destruct (N.eqb id k) eqn:E; simpl.
    + apply N.eqb_eq in E; subst k. destruct (N.eqb j id); reflexivity.
    + destruct (N.eqb j k) eqn:E2.
      * apply N.eqb_eq in E2; subst k. rewrite N.eqb_sym in E. rewrite E. reflexivity.
      * apply IH.
Qed.

Lemma map_hget_hset_notin : forall id c h l, ~ In id l ->
  map (fun j => hget j (hset id c h)) l = map (fun j => hget j h) l.
Proof.
  intros id c h l Hn. apply map_ext_in. intros j Hj. rewrite hget_hset.
  destruct (N.eqb j id) eqn:E; [|reflexivity]. apply N.eqb_eq in E; subst. contradiction.
Qed.

Lemma list_upd_oob : forall A (f : A -> A) l i, nth_error l i = None -> list_upd i f l = l.
Proof.
  induction l as [|x l IH]; intros i H; destruct i; simpl in *; try reflexivity; try discriminate.
  rewrite IH; auto.
Qed.

Lemma map_hget_upd : forall h f chain i id, NoDup chain -> nth_error chain i = Some id ->
  map (fun j => hget j (hset id (f (hget id h)) h)) chain = list_upd i f (map (fun j => hget j h) chain).
Proof.
  intros h f. induction chain as [|x chain IH]; intros i id Hnd Hn; destruct i; simpl in *; try discriminate.
  - inversion Hn; subst x. inversion Hnd; subst. rewrite hget_hset, N.eqb_refl. f_equal.
    apply map_hget_hset_notin. assumption.
  - inversion Hnd; subst. rewrite hget_hset.
    destruct (N.eqb x id) eqn:E.
    + apply N.eqb_eq in E; subst x. exfalso. apply H1. eapply nth_error_In; eauto.
    + f_equal. apply IH; auto.
Qed.

Lemma take_nth_spec : forall A i (l : list A) x r, take_nth i l = Some (x, r) ->
  exists l1 l2, l = l1 ++ x :: l2 /\ r = l1 ++ l2.
Proof.
  induction i as [|i IH]; intros l x r H; destruct l as [|y l]; simpl in H; try discriminate.
  - inversion H; subst. exists [], r. auto.
  - destruct (take_nth i l) as [[z r']|] eqn:E; [|discriminate]. inversion H; subst.
    destruct (IH _ _ _ E) as (l1 & l2 & -> & ->). exists (y :: l1), l2. auto.
Qed.

Lemma nodup_app_l : forall A (a b : list A), NoDup (a ++ b) -> NoDup a.
Proof.
  induction a as [|x a IH]; intros b H; simpl in *; [constructor|].
  inversion H; subst. constructor; [|eapply IH; eauto].
  intros Hin. apply H2. apply in_or_app; left; assumption.
Qed.
Lemma nodup_app_disj : forall A (a b : list A) x, NoDup (a ++ b) -> In x a -> In x b -> False.
Proof.
  induction a as [|y a IH]; intros b x H Ha Hb; simpl in *; [contradiction|].
  inversion H; subst. destruct Ha as [->|Ha]; [|eapply IH; eauto].
  apply H2. apply in_or_app; right; assumption.
Qed.

Section HeapInv.
  Variable policy : list N -> option nat.

  Record hinv (h : hstate) : Prop := mkHinv {
    inv_nodup : NoDup (h_chain h ++ h_pool h);                       (* live objects pairwise distinct, disjoint from the pool *)
    inv_bound : forall id, In id (h_chain h ++ h_pool h) -> (id < h_next h)%N;
    inv_clean : forall id, In id (h_pool h) -> hget id (h_heap h) = empty_cell;   (* a pooled object is cleared *)
    inv_log : log_stack (h_log h) = Some (h_chain h) }.              (* every Get fresh, every Put innermost *)

  Definition Rhp (h : hstate) (p : list cell) : Prop := hinv h /\ h_view h = p.

  Lemma hinv_init : hinv h_init.
  Proof.
    constructor; simpl.
    - repeat constructor. intros [].
    - intros id [H|[]]. subst. reflexivity.
    - intros id [].
    - reflexivity.
  Qed.

  Lemma hinv_alloc : forall h, hinv h -> hinv (h_alloc h) /\ h_view (h_alloc h) = empty_cell :: h_view h.
  Proof.
    intros h [Hnd Hb Hc Hl].
    assert (Hfresh : ~ In (h_next h) (h_chain h ++ h_pool h)).
    { intros Hin. apply Hb in Hin. lia. }
    split; [constructor|]; unfold h_alloc; simpl.
    - constructor; assumption.
    - intros id [H|H]; [subst; lia|]. apply Hb in H. lia.
    - intros id Hin. rewrite hget_hset. destruct (N.eqb id (h_next h)) eqn:E; [reflexivity|]. apply Hc; assumption.
    - rewrite Hl. rewrite mem_N_false; [reflexivity|]. intros Hin. apply Hfresh. apply in_or_app. left; assumption.
    - unfold h_view; simpl. rewrite hget_hset, N.eqb_refl. f_equal.
      apply map_hget_hset_notin. intros Hin. apply Hfresh. apply in_or_app. left; assumption.
  Qed.

  Lemma hinv_push : forall h, hinv h -> hinv (h_push policy h) /\ h_view (h_push policy h) = empty_cell :: h_view h.
  Proof.
    intros h Hi. unfold h_push.
    destruct (policy (h_pool h)) as [i|]; [|apply hinv_alloc; assumption].
    destruct (take_nth i (h_pool h)) as [[id rest]|] eqn:E; [|apply hinv_alloc; assumption].
    destruct (take_nth_spec _ _ _ _ _ E) as (l1 & l2 & Hp & Hr).
    destruct Hi as [Hnd Hb Hc Hl].
    assert (Hperm : Permutation (h_chain h ++ h_pool h) (id :: h_chain h ++ rest)).
    { rewrite Hp, Hr. rewrite !app_assoc. symmetry. apply Permutation_middle. }
    assert (Hnd' : NoDup (id :: h_chain h ++ rest)) by (eapply Permutation_NoDup; eauto).
    split; [constructor|]; simpl.
    - exact Hnd'.
    - intros j Hj. apply Hb. eapply Permutation_in; [symmetry; exact Hperm|exact Hj].
    - intros j Hj. apply Hc. rewrite Hp. rewrite Hr in Hj. apply in_app_or in Hj. apply in_or_app.
      destruct Hj; [left|right; right]; assumption.
    - rewrite Hl. inversion Hnd'; subst. rewrite mem_N_false; [reflexivity|].
      intros Hin. apply H1. apply in_or_app; left; assumption.
    - unfold h_view; simpl. f_equal. apply Hc. rewrite Hp. apply in_or_app. right; left; reflexivity.
  Qed.

  Lemma hinv_pop : forall h, hinv h -> hinv (h_pop h) /\ h_view (h_pop h) = tl (h_view h).
  Proof.
    intros h Hi. unfold h_pop. destruct (h_chain h) as [|id rest] eqn:Ec.
    - split; [assumption|]. unfold h_view. rewrite Ec. reflexivity.
    - destruct Hi as [Hnd Hb Hc Hl]. rewrite Ec in *. simpl in Hnd.
      assert (Hperm : Permutation (id :: rest ++ h_pool h) (rest ++ id :: h_pool h)) by apply Permutation_middle.
      inversion Hnd; subst.
      split; [constructor|]; simpl.
      + eapply Permutation_NoDup; eauto.
      + intros j Hj. apply Hb. eapply Permutation_in; [symmetry; exact Hperm|exact Hj].
      + intros j [Hj|Hj]; rewrite hget_hset.
        * subst. rewrite N.eqb_refl. reflexivity.
        * destruct (N.eqb j id) eqn:E; [reflexivity|]. apply Hc; assumption.
      + rewrite Hl. rewrite N.eqb_refl. reflexivity.
      + unfold h_view; simpl. rewrite Ec. simpl. apply map_hget_hset_notin.
        intros Hin. apply H1. apply in_or_app; left; assumption.
  Qed.

  Lemma hinv_upd : forall i f h, hinv h -> hinv (h_upd i f h) /\ h_view (h_upd i f h) = list_upd i f (h_view h).
  Proof.
    intros i f h Hi. unfold h_upd. destruct (nth_error (h_chain h) i) as [id|] eqn:En.
    - destruct Hi as [Hnd Hb Hc Hl].
      split; [constructor|]; simpl; auto.
      + intros j Hj. rewrite hget_hset. destruct (N.eqb j id) eqn:E; [|apply Hc; assumption].
        apply N.eqb_eq in E; subst j. exfalso.
        apply nth_error_In in En. eapply nodup_app_disj; eauto.
      + unfold h_view; simpl. apply map_hget_upd; auto. eapply nodup_app_l; eauto.
    - split; [assumption|]. rewrite list_upd_oob; [reflexivity|].
      unfold h_view. rewrite nth_error_map, En. reflexivity.
  Qed.
End HeapInv.

Section HeapSim.
  Variable policy : list N -> option nat.
  Notation HM := (heapM policy).

  Lemma Rhp_view : forall a b, Rhp a b -> m_view HM a = m_view pureM b.
  Proof. intros a b [_ H]. exact H. Qed.
  Lemma Rhp_push : forall a b, Rhp a b -> Rhp (m_push HM a) (m_push pureM b).
  Proof. intros a b [Hi Hv]. destruct (hinv_push policy a Hi) as [Hi' Hv']. split; [exact Hi'|]. simpl. rewrite Hv', Hv. reflexivity. Qed.
  Lemma Rhp_pop : forall a b, Rhp a b -> Rhp (m_pop HM a) (m_pop pureM b).
  Proof. intros a b [Hi Hv]. destruct (hinv_pop a Hi) as [Hi' Hv']. split; [exact Hi'|]. simpl. rewrite Hv', Hv. reflexivity. Qed.
  Lemma Rhp_upd : forall i f a b, Rhp a b -> Rhp (m_upd HM i f a) (m_upd pureM i f b).
  Proof. intros i f a b [Hi Hv]. destruct (hinv_upd i f a Hi) as [Hi' Hv']. split; [exact Hi'|]. simpl. rewrite Hv', Hv. reflexivity. Qed.

  Definition heap_sim (n : nat) := sim_all HM pureM Rhp Rhp_view Rhp_push Rhp_pop Rhp_upd n.

  (* the heap state a pure state abstracts *)
  Definition abs (s : gst HM) : gst pureM := mkG (M := pureM) (h_view (ms s)) (out s).
  Lemma Rs_abs : forall s : gst HM, hinv (ms s) -> Rs HM pureM Rhp s (abs s).
  Proof. intros s H. split; simpl; [split; [exact H|reflexivity]|reflexivity]. Qed.

  (* what the simulation says about one computation: same result, invariant kept, same view, same output *)
  Definition agrees {X} (r1 : X * gst HM) (r2 : X * gst pureM) : Prop :=
    fst r1 = fst r2 /\ hinv (ms (snd r1)) /\ abs (snd r1) = snd r2.
  Lemma sim2_agrees : forall X (r1 : X * gst HM) (r2 : X * gst pureM), sim2 HM pureM Rhp r1 r2 -> agrees r1 r2.
  Proof.
    intros X [x1 s1] [x2 [m2 o2]] [E [[Hi Hv] Ho]]. cbn [fst snd ms out] in *.
    split; [exact E|]. split; [exact Hi|]. unfold abs. cbn [snd]. rewrite Hv, Ho. reflexivity.
  Qed.

  Theorem heap_exec_list : forall n ts (s : gst HM), hinv (ms s) -> agrees (exec_list HM n ts s) (exec_list pureM n ts (abs s)).
  Proof. intros n ts s H. apply sim2_agrees. destruct (heap_sim n) as (_&_&_&_&_&Hx&_). apply Hx. apply Rs_abs; exact H. Qed.
  Theorem heap_exec : forall n t (s : gst HM), hinv (ms s) -> agrees (exec HM n t s) (exec pureM n t (abs s)).
  Proof. intros n t s H. apply sim2_agrees. destruct (heap_sim n) as (_&_&_&_&Hx&_). apply Hx. apply Rs_abs; exact H. Qed.
  Theorem heap_eval : forall n e (s : gst HM), hinv (ms s) -> agrees (eval HM n e s) (eval pureM n e (abs s)).
  Proof. intros n e s H. apply sim2_agrees. destruct (heap_sim n) as (Hx&_). apply Hx. apply Rs_abs; exact H. Qed.
  Theorem heap_call : forall n fd vs (s : gst HM), hinv (ms s) -> agrees (call HM n fd vs s) (call pureM n fd vs (abs s)).
  Proof. intros n fd vs s H. apply sim2_agrees. destruct (heap_sim n) as (_&_&Hx&_). apply Hx. apply Rs_abs; exact H. Qed.
End HeapSim.

(* whole programs: whatever object the pool hands out, the run is the run of the stack machine *)
Definition run_with (policy : list N -> option nat) (n : nat) (prog : list stmt) :=
  exec_list (heapM policy) n prog (mkG (M := heapM policy) h_init []).

Theorem run_any_policy : forall policy n prog,
  fst (run_with policy n prog) = fst (run_pure n prog) /\
  out (snd (run_with policy n prog)) = out (snd (run_pure n prog)) /\
  hinv (ms (snd (run_with policy n prog))) /\
  h_view (ms (snd (run_with policy n prog))) = ms (snd (run_pure n prog)).
Proof.
  intros policy n prog.
  pose proof (heap_exec_list policy n prog (mkG (M := heapM policy) h_init []) hinv_init) as (E & Hi & Ha).
  change (exec_list (heapM policy) n prog (mkG (M := heapM policy) h_init [])) with (run_with policy n prog) in *.
  change (exec_list pureM n prog (abs policy (mkG (M := heapM policy) h_init []))) with (run_pure n prog) in *.
  split; [exact E|]. split; [rewrite <- Ha; reflexivity|]. split; [exact Hi|]. rewrite <- Ha. reflexivity.
Qed.

Theorem policy_irrelevant : forall p1 p2 n prog,
  fst (run_with p1 n prog) = fst (run_with p2 n prog) /\
  out (snd (run_with p1 n prog)) = out (snd (run_with p2 n prog)) /\
  h_view (ms (snd (run_with p1 n prog))) = h_view (ms (snd (run_with p2 n prog))).
Proof.
  intros p1 p2 n prog.
  destruct (run_any_policy p1 n prog) as (E1 & O1 & _ & V1).
  destruct (run_any_policy p2 n prog) as (E2 & O2 & _ & V2).
  repeat split; congruence.
Qed.

Lemma run_heap_is_run_with : forall n prog, run_heap n prog = run_with lifo n prog.
Proof. reflexivity. Qed.
