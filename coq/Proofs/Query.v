(* Proofs for C03 (and the C04 link): WHERE keeps exactly the rows whose condition is TRUE, in order;
   the join functions equal their list-comprehension definitions; GROUP BY groups partition the rows. *)
From Coq Require Import ZArith List Bool Lia Permutation Floats.
Require Import Csvq.Model.Base Csvq.Model.Value Csvq.Model.Compare Csvq.Model.Arith Csvq.Model.Expr
               Csvq.Model.Key Csvq.Model.SortVal Csvq.Model.Query.
Require Import Csvq.Proofs.Key.
Import ListNotations.

(* ---- WHERE ------------------------------------------------------------------------------------ *)
(* when the condition evaluates on every row, the result is the order-preserving filter *)
Lemma filter_rows_spec cond rows (v : row -> val) :
  (forall r, In r rows -> eval r cond = Ok (v r)) ->
  filter_rows cond rows = Ok (filter (fun r => is_true (v r)) rows).
Proof.
  induction rows as [|r rows IH]; intros H; simpl; [reflexivity|].
  rewrite (H r (or_introl eq_refl)). simpl. rewrite IH by (intros r' Hr'; apply H; right; exact Hr'). simpl.
  destruct (is_true (v r)); reflexivity.
Qed.

(* an error anywhere is an error of the whole clause (never a partial result) *)
Lemma filter_rows_error cond rows r e : In r rows -> eval r cond = Err e -> exists e', filter_rows cond rows = Err e'.
Proof.
  induction rows as [|r0 rows IH]; intros Hin He; [contradiction|]. simpl.
  destruct Hin as [->|Hin].
  - rewrite He. simpl. eexists; reflexivity.
  - destruct (eval r0 cond) as [v0|e0]; simpl; [|eexists; reflexivity].
    destruct (IH Hin He) as [e' ->]. simpl. eexists; reflexivity.
Qed.

Lemma filter_rows_ok_inv cond rows out :
  filter_rows cond rows = Ok out ->
  exists v, (forall r, In r rows -> eval r cond = Ok (v r)) /\ out = filter (fun r => is_true (v r)) rows.
Proof.
  intros H.
  assert (G : forall r, In r rows -> exists x, eval r cond = Ok x).
  { intros r Hr. destruct (eval r cond) as [x|e] eqn:E; [eexists; reflexivity|].
    destruct (filter_rows_error cond rows r e Hr E) as [e' He']. congruence. }
  exists (fun r => match eval r cond with Ok x => x | Err _ => VNull end). split.
  - intros r Hr. destruct (G r Hr) as [x Hx]. rewrite Hx. reflexivity.
  - rewrite (filter_rows_spec cond rows (fun r => match eval r cond with Ok x => x | Err _ => VNull end)) in H.
    + inversion H. reflexivity.
    + intros r Hr. destruct (G r Hr) as [x Hx]. rewrite Hx. reflexivity.
Qed.

(* ---- joins ------------------------------------------------------------------------------------ *)
Section JoinSpec.
  Variable p : row -> bool.           (* "the ON condition is TRUE on the merged row" *)

  Definition matches_of (l : row) (rs : list row) : list row := map (app l) (filter (fun r => p (l ++ r)) rs).
  Definition inner_spec (ls rs : list row) : list row := flat_map (fun l => matches_of l rs) ls.
  Definition left_spec (rw : nat) (ls rs : list row) : list row :=
    flat_map (fun l => match matches_of l rs with [] => [l ++ nulls rw] | m => m end) ls.
  Definition matches_to (ls : list row) (r : row) : list row := map (fun l => l ++ r) (filter (fun l => p (l ++ r)) ls).
  Definition right_spec (lw : nat) (ls rs : list row) : list row :=
    flat_map (fun r => match matches_to ls r with [] => [nulls lw ++ r] | m => m end) rs.
  Definition unmatched_spec (lw : nat) (ls rs : list row) : list row :=
    map (app (nulls lw)) (filter (fun r => forallb (fun l => negb (p (l ++ r))) ls) rs).
  Definition full_spec (lw rw : nat) (ls rs : list row) : list row := left_spec rw ls rs ++ unmatched_spec lw ls rs.

  Variable cond : expr.
  Variable v : row -> val.
  Hypothesis p_is_cond : forall x, p x = is_true (v x).

  Lemma match_right_spec l rs :
    (forall r, In r rs -> eval (l ++ r) cond = Ok (v (l ++ r))) ->
    match_right (Some cond) l rs = Ok (matches_of l rs).
  Proof.
    unfold matches_of. induction rs as [|r rs IH]; intros H; simpl; [reflexivity|].
    rewrite (H r (or_introl eq_refl)). simpl. rewrite IH by (intros r' Hr'; apply H; right; exact Hr'). simpl.
    rewrite p_is_cond. destruct (is_true (v (l ++ r))); reflexivity.
  Qed.

  Lemma match_left_spec ls r :
    (forall l, In l ls -> eval (l ++ r) cond = Ok (v (l ++ r))) ->
    match_left (Some cond) ls r = Ok (matches_to ls r).
  Proof.
    unfold matches_to. induction ls as [|l ls IH]; intros H; simpl; [reflexivity|].
    rewrite (H l (or_introl eq_refl)). simpl. rewrite IH by (intros l' Hl'; apply H; right; exact Hl'). simpl.
    rewrite p_is_cond. destruct (is_true (v (l ++ r))); reflexivity.
  Qed.

  Definition total_on (ls rs : list row) : Prop :=
    forall l r, In l ls -> In r rs -> eval (l ++ r) cond = Ok (v (l ++ r)).

  Lemma inner_join_spec ls rs : total_on ls rs -> inner_join (Some cond) ls rs = Ok (inner_spec ls rs).
  Proof.
    unfold inner_spec. induction ls as [|l ls IH]; intros H; simpl; [reflexivity|].
    rewrite match_right_spec by (intros r Hr; apply H; [left; reflexivity | exact Hr]). simpl.
    rewrite IH by (intros l' r' Hl' Hr'; apply H; [right; exact Hl' | exact Hr']). reflexivity.
  Qed.

  Lemma left_join_spec rw ls rs : total_on ls rs -> left_join (Some cond) rw ls rs = Ok (left_spec rw ls rs).
  Proof.
    unfold left_spec. induction ls as [|l ls IH]; intros H; simpl; [reflexivity|].
    rewrite match_right_spec by (intros r Hr; apply H; [left; reflexivity | exact Hr]). simpl.
    rewrite IH by (intros l' r' Hl' Hr'; apply H; [right; exact Hl' | exact Hr']). simpl.
    destruct (matches_of l rs); reflexivity.
  Qed.

  Lemma right_join_spec lw ls rs : total_on ls rs -> right_join (Some cond) lw ls rs = Ok (right_spec lw ls rs).
  Proof.
    unfold right_spec. induction rs as [|r rs IH]; intros H; simpl; [reflexivity|].
    rewrite match_left_spec by (intros l Hl; apply H; [exact Hl | left; reflexivity]). simpl.
    rewrite IH by (intros l' r' Hl' Hr'; apply H; [exact Hl' | right; exact Hr']). simpl.
    destruct (matches_to ls r); reflexivity.
  Qed.

  Lemma matches_to_nil ls r : matches_to ls r = [] <-> forallb (fun l => negb (p (l ++ r))) ls = true.
  Proof.
    unfold matches_to. induction ls as [|l ls IH]; simpl; [tauto|].
    destruct (p (l ++ r)); simpl; [split; discriminate | exact IH].
  Qed.

  Lemma unmatched_right_spec lw ls rs : total_on ls rs -> unmatched_right (Some cond) lw ls rs = Ok (unmatched_spec lw ls rs).
  Proof.
    unfold unmatched_spec. induction rs as [|r rs IH]; intros H; simpl; [reflexivity|].
    rewrite match_left_spec by (intros l Hl; apply H; [exact Hl | left; reflexivity]). simpl.
    rewrite IH by (intros l' r' Hl' Hr'; apply H; [exact Hl' | right; exact Hr']). simpl.
    destruct (forallb (fun l => negb (p (l ++ r))) ls) eqn:E.
    - apply matches_to_nil in E. rewrite E. reflexivity.
    - destruct (matches_to ls r) eqn:M; [|reflexivity].
      apply matches_to_nil in M. congruence.
  Qed.

  Theorem join_rows_spec k lw rw ls rs : total_on ls rs ->
    join_rows k (Some cond) lw rw ls rs =
    Ok (match k with
        | JCross => flat_map (fun l => map (app l) rs) ls
        | JInner => inner_spec ls rs
        | JLeft => left_spec rw ls rs
        | JRight => right_spec lw ls rs
        | JFull => full_spec lw rw ls rs
        end).
  Proof.
    intros H. destruct k; simpl.
    - clear H. induction ls as [|l ls IH]; simpl; [reflexivity|].
      assert (E : match_right None l rs = Ok (map (app l) rs)).
      { clear IH. induction rs as [|r rs IHr]; simpl; [reflexivity|]. rewrite IHr. reflexivity. }
      rewrite E. simpl. rewrite IH. reflexivity.
    - apply inner_join_spec; exact H.
    - apply left_join_spec; exact H.
    - apply right_join_spec; exact H.
    - rewrite left_join_spec by exact H. simpl. rewrite unmatched_right_spec by exact H. reflexivity.
  Qed.

  (* what the specifications contain *)
  Lemma in_inner_spec x ls rs :
    In x (inner_spec ls rs) <-> exists l r, In l ls /\ In r rs /\ p (l ++ r) = true /\ x = l ++ r.
  Proof.
    unfold inner_spec, matches_of. rewrite in_flat_map. split.
    - intros [l [Hl Hx]]. apply in_map_iff in Hx. destruct Hx as [r [<- Hr]]. apply filter_In in Hr.
      exists l, r. tauto.
    - intros [l [r [Hl [Hr [Hp ->]]]]]. exists l. split; [exact Hl|]. apply in_map. apply filter_In. auto.
  Qed.

  Lemma in_left_spec x rw ls rs :
    In x (left_spec rw ls rs) <->
    In x (inner_spec ls rs) \/ exists l, In l ls /\ (forall r, In r rs -> p (l ++ r) = false) /\ x = l ++ nulls rw.
  Proof.
    unfold left_spec. rewrite in_flat_map. split.
    - intros [l [Hl Hx]]. destruct (matches_of l rs) as [|m ms] eqn:M.
      + right. destruct Hx as [<-|[]]. exists l. repeat split; auto.
        intros r Hr. destruct (p (l ++ r)) eqn:P; [|reflexivity].
        assert (In (l ++ r) (matches_of l rs)) by (unfold matches_of; apply in_map; apply filter_In; auto).
        rewrite M in H. contradiction.
      + left. unfold inner_spec. apply in_flat_map. exists l. split; [exact Hl|]. rewrite M. exact Hx.
    - intros [H|[l [Hl [Hn ->]]]].
      + unfold inner_spec in H. apply in_flat_map in H. destruct H as [l [Hl Hx]]. exists l. split; [exact Hl|].
        destruct (matches_of l rs); [contradiction | exact Hx].
      + exists l. split; [exact Hl|].
        assert (E : matches_of l rs = []).
        { unfold matches_of. rewrite (filter_none (fun r => p (l ++ r)) rs Hn). reflexivity. }
        rewrite E. left. reflexivity.
  Qed.

  (* an unmatched left row is padded exactly once *)
  Lemma left_spec_pads_once rw l rs :
    (forall r, In r rs -> p (l ++ r) = false) -> left_spec rw [l] rs = [l ++ nulls rw].
  Proof.
    intros Hn. unfold left_spec. simpl.
    assert (E : matches_of l rs = []).
    { unfold matches_of. rewrite (filter_none (fun r => p (l ++ r)) rs Hn). reflexivity. }
    rewrite E. reflexivity.
  Qed.

  Lemma in_unmatched_spec x lw ls rs :
    In x (unmatched_spec lw ls rs) <-> exists r, In r rs /\ (forall l, In l ls -> p (l ++ r) = false) /\ x = nulls lw ++ r.
  Proof.
    unfold unmatched_spec. rewrite in_map_iff. split.
    - intros [r [<- Hr]]. apply filter_In in Hr. destruct Hr as [Hr Hf]. exists r. repeat split; auto.
      intros l Hl. rewrite forallb_forall in Hf. specialize (Hf l Hl). apply negb_true_iff in Hf. exact Hf.
    - intros [r [Hr [Hn ->]]]. exists r. split; [reflexivity|]. apply filter_In. split; [exact Hr|].
      apply forallb_forall. intros l Hl. rewrite (Hn l Hl). reflexivity.
  Qed.
End JoinSpec.

(* a join over many left rows is the concatenation of the joins of its parts (used for the
   goroutine ranges: C12) *)
Lemma inner_spec_app p a b rs : inner_spec p (a ++ b) rs = inner_spec p a rs ++ inner_spec p b rs.
Proof. unfold inner_spec. apply flat_map_app. Qed.
Lemma left_spec_app p rw a b rs : left_spec p rw (a ++ b) rs = left_spec p rw a rs ++ left_spec p rw b rs.
Proof. unfold left_spec. apply flat_map_app. Qed.

(* ---- GROUP BY: the groups partition the rows --------------------------------------------------- *)
Lemma mapM_length {A B} (f : A -> res B) l out : mapM f l = Ok out -> length out = length l.
Proof.
  revert out. induction l as [|x l IH]; simpl; intros out H; [inversion H; reflexivity|].
  destruct (f x); simpl in H; [|discriminate]. destruct (mapM f l); simpl in H; [|discriminate].
  inversion H. simpl. f_equal. apply IH. reflexivity.
Qed.

Lemma pick_seq {A} (l : list A) : flat_map (fun i => match nth_error l i with Some x => [x] | None => [] end) (seq 0 (length l)) = l.
Proof.
  assert (G : forall (pre : list A) l, flat_map (fun i => match nth_error (pre ++ l) i with Some x => [x] | None => [] end) (seq (length pre) (length l)) = l).
  { intros pre l0. revert pre. induction l0 as [|x l0 IH]; intros pre; simpl; [reflexivity|].
    rewrite nth_error_app2 by lia. rewrite Nat.sub_diag. simpl. f_equal.
    specialize (IH (pre ++ [x])). rewrite <- app_assoc in IH. simpl in IH.
    rewrite app_length in IH. simpl in IH. rewrite Nat.add_1_r in IH. exact IH. }
  apply (G [] l).
Qed.

Lemma combine_seq_fst {A} (l : list A) : forall n, map fst (combine (seq n (length l)) l) = seq n (length l).
Proof. induction l as [|x l IH]; intros n; simpl; [reflexivity|]. rewrite IH. reflexivity. Qed.

Theorem group_rows_partition strict keys rows gs :
  group_rows strict keys rows = Ok gs -> Permutation (concat gs) rows.
Proof.
  unfold group_rows.
  destruct (mapM (fun r => do vs <- mapM (eval r) keys; Ok (row_key strict vs)) rows) as [ks|] eqn:E; simpl; [|discriminate].
  intros H. inversion H. subst gs. clear H.
  rewrite <- flat_map_concat_map.
  assert (Hlen : length ks = length rows) by (eapply mapM_length; exact E).
  assert (P : Permutation (concat (group_keys ks)) (seq 0 (length rows))).
  { unfold group_keys. rewrite <- Hlen.
    assert (F : map fst (indexed ks) = seq 0 (length ks)) by (unfold indexed; apply combine_seq_fst).
    rewrite <- F. apply group_partition. }
  assert (Q : forall (f : nat -> list row) (ll : list (list nat)), flat_map (fun idxs => flat_map f idxs) ll = flat_map f (concat ll)).
  { intros f ll. induction ll as [|a ll IH]; simpl; [reflexivity|]. rewrite flat_map_app, IH. reflexivity. }
  rewrite Q. eapply Permutation_trans; [apply Permutation_flat_map; exact P|].
  rewrite pick_seq. reflexivity.
Qed.

(* the rows an aggregate of a GROUP BY query is given are the rows at the positions of its bucket *)
Lemma group_rows_by_positions strict keys rows :
  group_rows strict keys rows = (do idx <- bucket_idx strict keys rows; Ok (map (pick rows) idx)).
Proof.
  unfold group_rows, bucket_idx.
  destruct (mapM (fun r => do vs <- mapM (eval r) keys; Ok (row_key strict vs)) rows); reflexivity.
Qed.

(* ---- the SELECT pipeline without grouping, ordering and limits --------------------------------------------- *)
Lemma existsb_agg_sexpr es : existsb item_is_agg (map SExpr es) = false.
Proof. induction es as [|e es IH]; [reflexivity|exact IH]. Qed.

Lemma mapM_eval_items strict r es :
  mapM (eval_item strict [r]) (map SExpr es) = mapM (eval r) es.
Proof.
  induction es as [|e es IH]; [reflexivity|]. cbn [map mapM eval_item hd]. rewrite IH. reflexivity.
Qed.

Lemma mapM_ext {A B} (f g : A -> res B) l : (forall x, f x = g x) -> mapM f l = mapM g l.
Proof. intros H. induction l as [|x l IH]; [reflexivity|]. cbn [mapM]. rewrite H, IH. reflexivity. Qed.

Lemma mapM_pair_snd {A B} (f : A -> res B) l :
  (do outs <- mapM (fun r => do o <- f r; Ok (r, o)) l; Ok (map snd outs)) = mapM f l.
Proof.
  induction l as [|x l IH]; [reflexivity|]. cbn [mapM].
  destruct (f x) as [o|e]; cbn [bind]; [|reflexivity].
  destruct (mapM (fun r => do o <- f r; Ok (r, o)) l) as [outs|e] eqn:E; cbn [bind] in IH |- *.
  - destruct (mapM f l) as [ys|e']; cbn [bind]; [|discriminate]. inversion IH. reflexivity.
  - destruct (mapM f l) as [ys|e']; cbn [bind]; [discriminate|]. inversion IH. reflexivity.
Qed.

(* SELECT e1, .., en FROM src [WHERE c]: the rows of the source, filtered by the condition, each replaced by the
   values of the select list - in the order of the source, nothing added, nothing dropped *)
Theorem select_pipeline strict src wh es :
  eval_query strict (Q (BSelect src wh None None (map SExpr es) false) [] None None) =
  (do rows <- eval_source strict src;
   do kept <- (match wh with None => Ok rows | Some c => filter_rows c rows end);
   mapM (fun r => mapM (eval r) es) kept).
Proof.
  change (eval_query strict (Q (BSelect src wh None None (map SExpr es) false) [] None None))
    with (do rows <- eval_body strict (BSelect src wh None None (map SExpr es) false); apply_order_limit strict [] None None rows).
  change (eval_body strict (BSelect src wh None None (map SExpr es) false))
    with (do rows <- eval_source strict src;
          do rows1 <- (match wh with None => Ok rows | Some c => filter_rows c rows end);
          do outs <- (if existsb item_is_agg (map SExpr es)
                      then do o <- mapM (eval_item strict rows1) (map SExpr es); Ok [(hd [] rows1, o)]
                      else mapM (fun r => do o <- mapM (eval_item strict [r]) (map SExpr es); Ok (r, o)) rows1);
          Ok outs).
  rewrite existsb_agg_sexpr.
  destruct (eval_source strict src) as [rows|e]; cbn [bind]; [|reflexivity].
  destruct (match wh with None => Ok rows | Some c => filter_rows c rows end) as [kept|e]; cbn [bind]; [|reflexivity].
  rewrite (mapM_ext _ (fun r => do o <- mapM (eval r) es; Ok (r, o))) by (intros r; rewrite mapM_eval_items; reflexivity).
  rewrite <- (mapM_pair_snd (fun r => mapM (eval r) es) kept).
  destruct (mapM (fun r => do o <- mapM (eval r) es; Ok (r, o)) kept) as [outs|e]; cbn [bind]; [|reflexivity].
  unfold apply_order_limit. cbn. unfold offset_rows. cbn. reflexivity.
Qed.

(* SELECT items FROM src [WHERE c] GROUP BY keys: one row per bucket, in the order of the buckets, holding the
   items evaluated over the rows of that bucket *)
Theorem group_by_pipeline strict src wh keys items :
  eval_query strict (Q (BSelect src wh (Some keys) None items false) [] None None) =
  (do rows <- eval_source strict src;
   do kept <- (match wh with None => Ok rows | Some c => filter_rows c rows end);
   do gs <- group_rows strict keys kept;
   mapM (fun g => mapM (eval_item strict g) items) gs).
Proof.
  change (eval_query strict (Q (BSelect src wh (Some keys) None items false) [] None None))
    with (do rows <- eval_body strict (BSelect src wh (Some keys) None items false); apply_order_limit strict [] None None rows).
  change (eval_body strict (BSelect src wh (Some keys) None items false))
    with (do rows <- eval_source strict src;
          do rows1 <- (match wh with None => Ok rows | Some c => filter_rows c rows end);
          do outs <- (do gs <- group_rows strict keys rows1;
                      do gs1 <- Ok gs;
                      mapM (fun g => do o <- mapM (eval_item strict g) items; Ok (hd [] g, o)) gs1);
          Ok outs).
  destruct (eval_source strict src) as [rows|e]; cbn [bind]; [|reflexivity].
  destruct (match wh with None => Ok rows | Some c => filter_rows c rows end) as [kept|e]; cbn [bind]; [|reflexivity].
  destruct (group_rows strict keys kept) as [gs|e]; cbn [bind]; [|reflexivity].
  assert (E : forall (l : list (list row)),
     (do outs <- mapM (fun g => do o <- mapM (eval_item strict g) items; Ok (hd [] g, o)) l; Ok (map snd outs))
     = mapM (fun g => mapM (eval_item strict g) items) l).
  { induction l as [|g l IH]; [reflexivity|]. cbn [mapM].
    destruct (mapM (eval_item strict g) items) as [o|e]; cbn [bind]; [|reflexivity].
    destruct (mapM (fun g0 => do o0 <- mapM (eval_item strict g0) items; Ok (hd [] g0, o0)) l) as [outs|e]; cbn [bind] in IH |- *.
    - destruct (mapM (fun g0 => mapM (eval_item strict g0) items) l); cbn [bind]; [|discriminate]. inversion IH. reflexivity.
    - destruct (mapM (fun g0 => mapM (eval_item strict g0) items) l); cbn [bind]; [discriminate|]. inversion IH. reflexivity. }
  rewrite <- E.
  destruct (mapM (fun g => do o <- mapM (eval_item strict g) items; Ok (hd [] g, o)) gs) as [outs|e]; cbn [bind]; [|reflexivity].
  unfold apply_order_limit. cbn. unfold offset_rows. cbn. reflexivity.
Qed.
