(* C17: closed forms of RANK / DENSE_RANK in terms of the peer groups the partition is cut into;
   CUME_DIST and PERCENT_RANK are defined from the same groups (Model.Analytic.run_sizes) *)
From Coq Require Import ZArith List Bool Lia.
Require Import Csvq.Model.Base Csvq.Model.Value Csvq.Model.SortVal Csvq.Model.Query Csvq.Model.Analytic.
Import ListNotations.
Open Scope Z_scope.
Local Arguments Z.add : simpl never.
Local Arguments Z.sub : simpl never.

Definition zsum (l : list Z) : Z := fold_right Z.add 0 l.

(* every member of the k-th group (0-based), which starts after `before` rows, gets before+1 / k+1 *)
Fixpoint expand_rank (sizes : list Z) (before : Z) : list Z :=
  match sizes with [] => [] | s :: r => repeat (before + 1) (Z.to_nat s) ++ expand_rank r (before + s) end.
Fixpoint expand_dense (sizes : list Z) (k : Z) : list Z :=
  match sizes with [] => [] | s :: r => repeat (k + 1) (Z.to_nat s) ++ expand_dense r (k + 1) end.

Lemma zsum_app a b : zsum (a ++ b) = zsum a + zsum b.
Proof. induction a as [|x a IH]; simpl; [lia|]. rewrite IH. lia. Qed.

Lemma zsum_rev x : zsum (rev x) = zsum x.
Proof. induction x as [|y x IHx]; [reflexivity|]. cbn [rev]. rewrite zsum_app, IHx. simpl. lia. Qed.

Lemma expand_rank_app a b st : expand_rank (a ++ b) st = expand_rank a st ++ expand_rank b (st + zsum a).
Proof.
  revert st. induction a as [|x a IH]; intros st; simpl.
  - f_equal. lia.
  - rewrite IH, <- app_assoc. do 3 f_equal. lia.
Qed.
Lemma expand_dense_app a b k : expand_dense (a ++ b) k = expand_dense a k ++ expand_dense b (k + Z.of_nat (length a)).
Proof.
  revert k. induction a as [|x a IH]; intros k; simpl.
  - f_equal. lia.
  - rewrite IH, <- app_assoc. do 3 f_equal. lia.
Qed.

Lemma repeat_snoc {A} (x : A) n : repeat x (S n) = repeat x n ++ [x].
Proof. induction n as [|n IH]; simpl; [reflexivity|]. f_equal. exact IH. Qed.

Lemma to_nat_succ a : 0 < a -> Z.to_nat (a + 1) = S (Z.to_nat a).
Proof. intros H. rewrite Z2Nat.inj_add by lia. simpl. lia. Qed.

(* the state of the three loops after the same prefix of the partition: acc = sizes of the groups so far,
   newest first *)
Definition consistent (acc : list Z) (number rank dense : Z) (cur : option (list sortval)) : Prop :=
  Forall (fun a => 0 < a) acc /\ number = zsum acc /\
  match acc with
  | [] => rank = 0 /\ dense = 0 /\ cur = None
  | a :: acc' => rank = zsum acc' + 1 /\ dense = Z.of_nat (length acc)
  end.

Lemma loops_agree : forall l acc number rank dense cur,
  consistent acc number rank dense cur ->
  expand_rank (rev acc) 0 ++ rank_loop l number rank cur = expand_rank (run_sizes l cur acc) 0 /\
  expand_dense (rev acc) 0 ++ dense_loop l dense cur = expand_dense (run_sizes l cur acc) 0.
Proof.
  induction l as [|[r sv] l IH]; intros acc number rank dense cur (Hpos & Hnum & Hst).
  - simpl. rewrite !app_nil_r. split; reflexivity.
  - cbn [rank_loop dense_loop run_sizes].
    destruct (sv_equiv_opt sv cur) eqn:E.
    + destruct acc as [|a acc'].
      { destruct Hst as (_ & _ & Hc). subst cur. destruct sv; discriminate. }
      destruct Hst as (Hr & Hd). inversion Hpos as [|? ? Ha Hpos']; subst.
      assert (C : consistent ((a + 1) :: acc') (zsum (a :: acc') + 1) (zsum acc' + 1) (Z.of_nat (length (a :: acc'))) cur).
      { split; [constructor; [lia|exact Hpos']|]. split; [simpl; lia|]. split; [reflexivity|simpl length; lia]. }
      destruct (IH _ _ _ _ _ C) as [IH1 IH2]. split.
      * rewrite <- IH1. cbn [rev]. rewrite !expand_rank_app. cbn [expand_rank]. rewrite !app_nil_r.
        rewrite to_nat_succ by exact Ha. rewrite repeat_snoc, <- !app_assoc. rewrite zsum_rev. cbn [app].
        replace (0 + zsum acc' + 1) with (zsum acc' + 1) by lia. reflexivity.
      * rewrite <- IH2. cbn [rev]. rewrite !expand_dense_app. cbn [expand_dense]. rewrite !app_nil_r.
        rewrite to_nat_succ by exact Ha. rewrite repeat_snoc, <- !app_assoc. cbn [app].
        rewrite rev_length. cbn [length]. do 3 f_equal. lia.
    + set (cur' := match sv with Some _ => sv | None => cur end).
      assert (C : consistent (1 :: acc) (number + 1) (number + 1) (dense + 1) cur').
      { split; [constructor; [lia|exact Hpos]|]. split; [simpl; lia|]. split; [lia|].
        destruct acc as [|a acc']; [destruct Hst as (_ & Hd & _); subst; reflexivity|].
        destruct Hst as (_ & Hd). subst dense. cbn [length]. lia. }
      destruct (IH _ _ _ _ _ C) as [IH1 IH2]. split.
      * rewrite <- IH1. cbn [rev]. rewrite expand_rank_app. cbn [expand_rank]. rewrite app_nil_r.
        change (Z.to_nat 1) with 1%nat. cbn [repeat]. rewrite <- app_assoc. cbn [app].
        rewrite zsum_rev. subst number. replace (0 + zsum acc + 1) with (zsum acc + 1) by lia. reflexivity.
      * rewrite <- IH2. cbn [rev]. rewrite expand_dense_app. cbn [expand_dense]. rewrite app_nil_r.
        change (Z.to_nat 1) with 1%nat. cbn [repeat]. rewrite <- app_assoc. cbn [app].
        rewrite rev_length. do 3 f_equal.
        destruct acc as [|a acc']; [destruct Hst as (_ & Hd & _); subst; reflexivity|].
        destruct Hst as (_ & Hd). subst dense. lia.
Qed.

(* RANK: every member of a peer group gets 1 + the number of rows before the group;
   DENSE_RANK: the number of the group *)
Theorem rank_closed_form (p : list pmember) :
  rank_loop p 0 0 None = expand_rank (run_sizes p None []) 0.
Proof.
  destruct (loops_agree p [] 0 0 0 None) as [H _]; [|exact H].
  split; [constructor|]. split; [reflexivity|]. repeat split.
Qed.
Theorem dense_rank_closed_form (p : list pmember) :
  dense_loop p 0 None = expand_dense (run_sizes p None []) 0.
Proof.
  destruct (loops_agree p [] 0 0 0 None) as [_ H]; [|exact H].
  split; [constructor|]. split; [reflexivity|]. repeat split.
Qed.

(* the groups cover the partition: positive sizes that add up to its length *)
Lemma run_sizes_sum : forall l cur acc, Forall (fun a => 0 < a) acc -> (acc = [] -> cur = None) ->
  Forall (fun a => 0 < a) (run_sizes l cur acc) /\ zsum (run_sizes l cur acc) = zsum acc + Z.of_nat (length l).
Proof.
  induction l as [|[r sv] l IH]; intros cur acc Hpos Hc.
  - simpl. split; [apply Forall_rev; exact Hpos|].
    rewrite zsum_rev. lia.
  - cbn [run_sizes]. destruct (sv_equiv_opt sv cur) eqn:E.
    + destruct acc as [|a acc']; [rewrite (Hc eq_refl) in E; destruct sv; discriminate|].
      inversion Hpos as [|? ? Ha Hpos']; subst.
      destruct (IH cur ((a + 1) :: acc')) as [H1 H2]; [constructor; [lia|exact Hpos']|discriminate|].
      split; [exact H1|]. rewrite H2. cbn [length]. simpl. lia.
    + destruct (IH (match sv with Some _ => sv | None => cur end) (1 :: acc)) as [H1 H2]; [constructor; [lia|exact Hpos]|discriminate|].
      split; [exact H1|]. rewrite H2. cbn [length]. simpl. lia.
Qed.

Theorem peer_groups_cover (p : list pmember) :
  Forall (fun a => 0 < a) (run_sizes p None []) /\ zsum (run_sizes p None []) = Z.of_nat (length p).
Proof. destruct (run_sizes_sum p None []) as [H1 H2]; [constructor|reflexivity|]. split; [exact H1|]. rewrite H2. reflexivity. Qed.

(* without sort values (no ORDER BY in the window) every row is its own group: RANK = ROW_NUMBER *)
Lemma run_sizes_unsorted : forall (rows : list row) acc,
  run_sizes (map (fun r => (r, None)) rows) None acc = rev acc ++ repeat 1 (length rows).
Proof.
  induction rows as [|r rows IH]; intros acc; simpl; [rewrite app_nil_r; reflexivity|].
  rewrite IH. simpl. rewrite <- app_assoc. reflexivity.
Qed.
