(* Subq.v -- sub-queries inside expressions, stated through the LATERAL join the model has (the form in which the
   harness hands EXISTS / IN / scalar sub-queries to the model): a derived table that returns one row holding a
   count n(o) for every left row o, joined on "count > 0" resp. "count = 0", keeps exactly the left rows whose
   count is positive resp. zero, in order, each with its count. *)
From Coq Require Import ZArith List Bool Lia.
Require Import Csvq.Model.Base Csvq.Model.Value Csvq.Model.Compare Csvq.Model.Expr Csvq.Model.Query.
Require Import Csvq.Proofs.Query Csvq.Proofs.Lateral.
Import ListNotations.
Open Scope Z_scope.

Lemma cmp_count_gt (o : row) (c : Z) :
  eval (o ++ [VInt c]) (ECmp OpGt (ECol (length o)) (ELit (VInt 0))) = Ok (VTern (if 0 <? c then TT else TF)).
Proof.
  cbn [eval]. rewrite nth_error_app2 by lia. rewrite Nat.sub_diag. cbn [nth_error bind is_null].
  unfold compare_op, op_gt, compare_combinedly. cbn.
  unfold compare_int.
  destruct (c =? 0) eqn:E0; destruct (c <? 0) eqn:E1; destruct (0 <? c) eqn:E2; cbn; try reflexivity;
    try apply Z.eqb_eq in E0; try apply Z.eqb_neq in E0; try apply Z.ltb_lt in E1; try apply Z.ltb_ge in E1;
    try apply Z.ltb_lt in E2; try apply Z.ltb_ge in E2; lia.
Qed.

Lemma cmp_count_eq (o : row) (c : Z) :
  eval (o ++ [VInt c]) (ECmp OpEq (ECol (length o)) (ELit (VInt 0))) = Ok (VTern (if c =? 0 then TT else TF)).
Proof.
  cbn [eval]. rewrite nth_error_app2 by lia. rewrite Nat.sub_diag. cbn [nth_error bind is_null].
  unfold compare_op, op_eq, compare_combinedly. cbn.
  unfold compare_int.
  destruct (c =? 0) eqn:E0; destruct (c <? 0) eqn:E1; cbn; reflexivity.
Qed.

(* [NOT] EXISTS / [NOT] IN as the harness states them: rel = OpGt keeps the rows with a positive count,
   rel = OpEq those with count zero *)
Theorem lateral_count_filter (positive : bool) (n : row -> Z) lw (ls : list row) :
  Forall (fun o => length o = lw) ls ->
  lateral_rows JInner (Some (ECmp (if positive then OpGt else OpEq) (ECol lw) (ELit (VInt 0)))) lw 1
               (fun o => Ok [[VInt (n o)]]) ls
  = Ok (map (fun o => o ++ [VInt (n o)])
            (filter (fun o => if positive then 0 <? n o else n o =? 0) ls)).
Proof.
  induction 1 as [|o ls Ho HF IH]; [reflexivity|].
  cbn [lateral_rows bind]. rewrite IH. clear IH.
  cbn [join_rows inner_join match_right bind].
  subst lw. destruct positive.
  - rewrite cmp_count_gt. cbn [bind]. cbn [filter].
    destruct (0 <? n o); cbn; reflexivity.
  - rewrite cmp_count_eq. cbn [bind]. cbn [filter].
    destruct (n o =? 0); cbn; reflexivity.
Qed.

(* a scalar sub-query that yields exactly one value (an aggregate): CROSS JOIN LATERAL appends that value to every
   row, and keeps number and order of the rows *)
Theorem lateral_scalar_column (f : row -> val) lw (ls : list row) :
  lateral_rows JCross None lw 1 (fun o => Ok [[f o]]) ls = Ok (map (fun o => o ++ [f o]) ls).
Proof.
  induction ls as [|o ls IH]; [reflexivity|].
  cbn [lateral_rows bind]. rewrite IH. reflexivity.
Qed.
