(* Proofs/Txn.v -- lemmas about the transaction model (Model/Txn.v) and its specification
   (Model/TxnSpec.v): the simulation between the cache model and the pending-writes machine,
   from which C01 follows; the single-table tracking lemma, from which C20 follows; the
   failed-statement lemmas of C08. *)
From Coq Require Import Lia.
Require Import Csvq.Model.Base Csvq.Model.Value Csvq.Model.Txn Csvq.Model.TxnSpec.

Local Arguments memb : simpl never.
Local Arguments N.eqb : simpl never.

(* ---- small facts ------------------------------------------------------------------------------ *)
Lemma upd_same : forall A (m : key -> option A) k v, upd m k v k = v.
Proof. intros. unfold upd. now rewrite N.eqb_refl. Qed.

Lemma upd_other : forall A (m : key -> option A) k v k', k' <> k -> upd m k v k' = m k'.
Proof. intros. unfold upd. destruct (N.eqb_spec k' k); [contradiction | reflexivity]. Qed.

Lemma memb_cons : forall k a l, memb k (a :: l) = N.eqb k a || memb k l.
Proof. reflexivity. Qed.

Lemma memb_app : forall k l1 l2, memb k (l1 ++ l2) = memb k l1 || memb k l2.
Proof. intros. unfold memb. apply existsb_app. Qed.

Lemma memb_In : forall k l, memb k l = true <-> In k l.
Proof.
  intros k l. unfold memb. rewrite existsb_exists. split.
  - intros [x [Hin Heq]]. apply N.eqb_eq in Heq. now subst.
  - intros Hin. exists k. split; [assumption | apply N.eqb_refl].
Qed.

Lemma lookup_In : forall A k (l : list (key * A)), is_some (lookup k l) = memb k (map fst l).
Proof.
  intros A k l. induction l as [|[k' v] l IH]; [reflexivity|].
  cbn [lookup map fst]. rewrite memb_cons. destruct (N.eqb k k'); [reflexivity | exact IH].
Qed.

Lemma cent_eta : forall e, mkCE (ce_tab e) (ce_fu e) (ce_new e) = e.
Proof. now intros []. Qed.

Lemma render_val_idem : forall v, render_val (render_val v) = render_val v.
Proof. now intros []. Qed.

Lemma render_tab_idem : forall t, render_tab (render_tab t) = render_tab t.
Proof.
  intros t. unfold render_tab. rewrite map_map. apply map_ext. intros r.
  rewrite map_map. apply map_ext. exact render_val_idem.
Qed.

Ltac keq k k' := destruct (N.eqb_spec k k') as [?Heq|?Hne]; [subst k|].

(* marks *)
Lemma marked_mark_updated : forall p s q, marked (mark_updated p s) q = N.eqb q p || marked s q.
Proof.
  intros p s q. unfold mark_updated. destruct (marked s p) eqn:Hm.
  - keq q p; [now rewrite Hm | reflexivity].
  - unfold marked, set_updated. cbn [created updated]. rewrite memb_cons.
    destruct (N.eqb q p), (memb q (created s)); reflexivity.
Qed.

Lemma marked_mark_created : forall p s q, marked (mark_created p s) q = N.eqb q p || marked s q.
Proof.
  intros p s q. unfold mark_created. destruct (marked s p) eqn:Hm.
  - keq q p; [now rewrite Hm | reflexivity].
  - unfold marked, set_created. cbn [created updated]. rewrite memb_cons.
    destruct (N.eqb q p); reflexivity.
Qed.

(* ---- the simulation relation --------------------------------------------------------------------
   s : the cache model;  x : the pending-writes machine *)
Record R (s : st) (x : sp) : Prop := mkR {
  R_disk : forall p, disk s p = if memb p (pcre x) then Some [] else sd x p;
  R_pcre_none : forall p, memb p (pcre x) = true -> sd x p = None;
  R_lock : forall p, locked s p = memb p (held x);
  R_new : forall p e, cache s p = Some e -> ce_new e = memb p (pcre x);
  R_created : forall p, memb p (created s) = memb p (pcre x);
  R_mark : forall p, marked s p = is_some (lookup p (pend x));
  R_pend : forall p t, lookup p (pend x) = Some t ->
                       exists e, cache s p = Some e /\ ce_tab e = t /\ ce_fu e = true;
  R_pcre_pend : forall p, memb p (pcre x) = true -> is_some (lookup p (pend x)) = true;
  R_cache_disk : forall p e, cache s p = Some e -> disk s p <> None;
  R_clean : forall p e, cache s p = Some e -> ce_fu e = true -> marked s p = false ->
                        disk s p = Some (ce_tab e);
  R_wlog : forall p, In p (wlog s) <-> In p (swr x);
  (* temporary tables *)
  R_trp : forall n, option_map te_rp (temps s n) = stv x n;
  R_tmark : forall n, memb n (tupdated s) = is_some (lookup n (tpend x));
  R_ttab : forall n e, temps s n = Some e ->
                       te_tab e = match lookup n (tpend x) with Some t => t | None => te_rp e end;
  R_tpend_ex : forall n, is_some (lookup n (tpend x)) = true -> temps s n <> None
}.

Lemma R_init : forall d0, R (init d0) (sp_init d0).
Proof.
  intros d0. constructor; cbn; intros; try reflexivity; try discriminate; try tauto.
Qed.

Lemma R_exists_now : forall s x p, R s x -> exists_now x p = is_some (disk s p).
Proof.
  intros s x p HR. unfold exists_now. rewrite (R_disk _ _ HR).
  destruct (memb p (pcre x)) eqn:Hc.
  - rewrite (R_pcre_none _ _ HR _ Hc). reflexivity.
  - now rewrite Bool.orb_false_r.
Qed.

Lemma R_pcre_cache : forall s x p, R s x -> memb p (pcre x) = true ->
  exists e, cache s p = Some e /\ ce_fu e = true.
Proof.
  intros s x p HR Hc. pose proof (R_pcre_pend _ _ HR _ Hc) as Hp.
  destruct (lookup p (pend x)) as [t|] eqn:Hl; [|discriminate].
  destruct (R_pend _ _ HR _ _ Hl) as [e [He [_ Hfu]]]. eauto.
Qed.

(* a file without cache entry is neither created nor pending *)
Lemma R_nocache : forall s x p, R s x -> cache s p = None ->
  memb p (pcre x) = false /\ lookup p (pend x) = None /\ memb p (held x) = false.
Proof.
  intros s x p HR Hc. repeat split.
  - destruct (memb p (pcre x)) eqn:Hm; [|reflexivity].
    destruct (R_pcre_cache _ _ _ HR Hm) as [e [He _]]. congruence.
  - destruct (lookup p (pend x)) as [t|] eqn:Hl; [|reflexivity].
    destruct (R_pend _ _ HR _ _ Hl) as [e [He _]]. congruence.
  - rewrite <- (R_lock _ _ HR). unfold locked. now rewrite Hc.
Qed.

(* a copy loaded by a plain SELECT is neither created nor pending *)
Lemma R_plain : forall s x p e, R s x -> cache s p = Some e -> ce_fu e = false ->
  memb p (pcre x) = false /\ lookup p (pend x) = None /\ memb p (held x) = false.
Proof.
  intros s x p e HR Hc Hfu. repeat split.
  - destruct (memb p (pcre x)) eqn:Hm; [|reflexivity].
    destruct (R_pcre_cache _ _ _ HR Hm) as [e' [He' Hfu']]. congruence.
  - destruct (lookup p (pend x)) as [t|] eqn:Hl; [|reflexivity].
    destruct (R_pend _ _ HR _ _ Hl) as [e' [He' [_ Hfu']]]. congruence.
  - rewrite <- (R_lock _ _ HR). unfold locked. now rewrite Hc.
Qed.

(* ---- plain load -------------------------------------------------------------------------------- *)
Lemma R_load_read : forall s x p, R s x -> R (load_read p s) x.
Proof.
  intros s x p HR. unfold load_read.
  destruct (cache s p) as [e|] eqn:Hc; [exact HR|].
  destruct (disk s p) as [t|] eqn:Hd; [|exact HR].
  destruct (R_nocache _ _ _ HR Hc) as [Hpc [Hpd Hh]].
  destruct HR. constructor; cbn; auto.
  - intros q. unfold locked. cbn. keq q p.
    + rewrite upd_same. cbn. now rewrite Hh.
    + rewrite upd_other by assumption. apply R_lock0.
  - intros q e. keq q p.
    + rewrite upd_same. intros [= <-]. cbn. now rewrite Hpc.
    + rewrite upd_other by assumption. apply R_new0.
  - intros q t' Hl. keq q p; [congruence|].
    rewrite upd_other by assumption. now apply R_pend0.
  - intros q e. keq q p.
    + intros _. congruence.
    + rewrite upd_other by assumption. apply R_cache_disk0.
  - intros q e. keq q p.
    + rewrite upd_same. intros [= <-]. cbn. discriminate.
    + rewrite upd_other by assumption. apply R_clean0.
Qed.

(* ---- load for update --------------------------------------------------------------------------- *)
Lemma R_load_fu : forall s x p, R s x -> R (load_fu p s) (hold p x).
Proof.
  intros s x p HR. unfold load_fu, hold. rewrite (R_exists_now _ _ p HR).
  destruct (cache s p) as [e|] eqn:Hc.
  - (* cached *)
    assert (Hdn : disk s p <> None) by (eapply R_cache_disk; eauto).
    destruct (disk s p) as [t|] eqn:Hd; [|contradiction]. cbn [is_some].
    destruct (ce_fu e) eqn:Hfu.
    + (* already held *)
      assert (Hh : memb p (held x) = true).
      { rewrite <- (R_lock _ _ HR). unfold locked. now rewrite Hc. }
      destruct HR. constructor; cbn; auto.
      intros q. rewrite memb_cons. keq q p; [now rewrite R_lock0, Hh | apply R_lock0].
    + (* disposed and loaded again under the lock *)
      destruct (R_plain _ _ _ _ HR Hc Hfu) as [Hpc [Hpd Hh]].
      destruct HR. constructor; cbn; auto.
      * intros q. unfold locked. cbn. rewrite memb_cons. keq q p.
        -- now rewrite upd_same.
        -- rewrite upd_other by assumption. apply R_lock0.
      * intros q e'. keq q p.
        -- rewrite upd_same. intros [= <-]. cbn. now rewrite Hpc.
        -- rewrite upd_other by assumption. apply R_new0.
      * intros q t' Hl. keq q p; [congruence|].
        rewrite upd_other by assumption. now apply R_pend0.
      * intros q e'. keq q p.
        -- intros _. congruence.
        -- rewrite upd_other by assumption. apply R_cache_disk0.
      * intros q e'. keq q p.
        -- rewrite upd_same. intros [= <-]. cbn. intros _ _. exact Hd.
        -- rewrite upd_other by assumption. apply R_clean0.
  - (* not cached *)
    destruct (disk s p) as [t|] eqn:Hd; cbn [is_some]; [|exact HR].
    destruct (R_nocache _ _ _ HR Hc) as [Hpc [Hpd Hh]].
    destruct HR. constructor; cbn; auto.
    + intros q. unfold locked. cbn. rewrite memb_cons. keq q p.
      * now rewrite upd_same.
      * rewrite upd_other by assumption. apply R_lock0.
    + intros q e'. keq q p.
      * rewrite upd_same. intros [= <-]. cbn. now rewrite Hpc.
      * rewrite upd_other by assumption. apply R_new0.
    + intros q t' Hl. keq q p; [congruence|].
      rewrite upd_other by assumption. now apply R_pend0.
    + intros q e'. keq q p.
      * intros _. congruence.
      * rewrite upd_other by assumption. apply R_cache_disk0.
    + intros q e'. keq q p.
      * rewrite upd_same. intros [= <-]. cbn. intros _ _. exact Hd.
      * rewrite upd_other by assumption. apply R_clean0.
Qed.

(* after a load for update of an existing file the entry is there and held *)
Lemma load_fu_entry : forall s p t, (forall e, cache s p = Some e -> disk s p <> None) ->
  disk s p = Some t ->
  exists e, cache (load_fu p s) p = Some e /\ ce_fu e = true /\ disk (load_fu p s) = disk s.
Proof.
  intros s p t Hcd Hd. unfold load_fu.
  destruct (cache s p) as [e|] eqn:Hc.
  - destruct (ce_fu e) eqn:Hfu.
    + exists e. auto.
    + rewrite Hd. cbn. rewrite upd_same. eexists. split; [reflexivity|]. auto.
  - rewrite Hd. cbn. rewrite upd_same. eexists. split; [reflexivity|]. auto.
Qed.

Lemma R_fold_load_fu : forall touched s x, R s x ->
  R (fold_left (fun s' p => load_fu p s') touched s) (fold_left (fun x' p => hold p x') touched x).
Proof.
  induction touched as [|p r IH]; intros s x HR; [exact HR|].
  cbn. apply IH. now apply R_load_fu.
Qed.

(* ---- projections of the marking functions ------------------------------------------------------- *)
Lemma memb_nil : forall k, memb k [] = false.
Proof. reflexivity. Qed.

Lemma mark_updated_proj : forall p s,
  disk (mark_updated p s) = disk s /\ cache (mark_updated p s) = cache s /\
  created (mark_updated p s) = created s /\ temps (mark_updated p s) = temps s /\
  tupdated (mark_updated p s) = tupdated s /\ wlog (mark_updated p s) = wlog s.
Proof. intros. unfold mark_updated. destruct (marked s p); cbn; auto 10. Qed.

Lemma mark_created_proj : forall p s,
  disk (mark_created p s) = disk s /\ cache (mark_created p s) = cache s /\
  temps (mark_created p s) = temps s /\
  tupdated (mark_created p s) = tupdated s /\ wlog (mark_created p s) = wlog s.
Proof. intros. unfold mark_created. destruct (marked s p); cbn; auto 10. Qed.

Lemma mark_tupdated_proj : forall n s,
  disk (mark_tupdated n s) = disk s /\ cache (mark_tupdated n s) = cache s /\
  created (mark_tupdated n s) = created s /\ updated (mark_tupdated n s) = updated s /\
  temps (mark_tupdated n s) = temps s /\ wlog (mark_tupdated n s) = wlog s.
Proof. intros. unfold mark_tupdated. destruct (memb n (tupdated s)); cbn; auto 10. Qed.

Lemma tupdated_mark_tupdated : forall n s q,
  memb q (tupdated (mark_tupdated n s)) = N.eqb q n || memb q (tupdated s).
Proof.
  intros n s q. unfold mark_tupdated. destruct (memb n (tupdated s)) eqn:Hm.
  - keq q n; [now rewrite Hm | reflexivity].
  - cbn. now rewrite memb_cons.
Qed.

Lemma created_mark_created : forall p s q, marked s p = false ->
  memb q (created (mark_created p s)) = N.eqb q p || memb q (created s).
Proof. intros p s q Hm. unfold mark_created. rewrite Hm. cbn. now rewrite memb_cons. Qed.

(* ---- states that agree pointwise ------------------------------------------------------------------ *)
Definition st_eqv (s s' : st) : Prop :=
  (forall p, disk s p = disk s' p) /\ (forall p, cache s p = cache s' p) /\
  created s = created s' /\ updated s = updated s' /\
  (forall n, temps s n = temps s' n) /\ tupdated s = tupdated s' /\ wlog s = wlog s'.

Lemma R_eqv : forall s s' x, R s x -> st_eqv s s' -> R s' x.
Proof.
  intros s s' x HR (Hd & Hc & Hcr & Hup & Ht & Htu & Hw).
  assert (Hm : forall p, marked s' p = marked s p) by (intros; unfold marked; now rewrite Hcr, Hup).
  assert (Hl : forall p, locked s' p = locked s p) by (intros; unfold locked; now rewrite Hc).
  destruct HR. constructor; intros.
  - rewrite <- Hd. auto.
  - auto.
  - rewrite Hl. auto.
  - rewrite <- Hc in H. auto.
  - rewrite <- Hcr. auto.
  - rewrite Hm. auto.
  - rewrite <- Hc. auto.
  - auto.
  - rewrite <- Hc in H. rewrite <- Hd. eauto.
  - rewrite <- Hc in H. rewrite Hm in H1. rewrite <- Hd. eauto.
  - rewrite <- Hw. auto.
  - rewrite <- Ht. auto.
  - rewrite <- Htu. auto.
  - rewrite <- Ht in H. auto.
  - rewrite <- Ht. auto.
Qed.

(* ---- publishing a changed table -------------------------------------------------------------------- *)
Lemma R_publish_marked : forall s x p e t, R s x -> cache s p = Some e -> ce_fu e = true ->
  R (mark_updated p (set_cache s (upd (cache s) p (Some (mkCE t (ce_fu e) (ce_new e))))))
    (mkSp (sd x) ((p, t) :: pend x) (pcre x) (held x) (stv x) (tpend x) (swr x)).
Proof.
  intros s x p e t HR Hc Hfu.
  set (s2 := set_cache s (upd (cache s) p (Some (mkCE t (ce_fu e) (ce_new e))))).
  destruct (mark_updated_proj p s2) as (Pd & Pc & Pcr & Pt & Ptu & Pw).
  assert (Hm2 : forall q, marked s2 q = marked s q) by reflexivity.
  constructor; cbn [sd pend pcre held stv tpend swr].
  - intros q. rewrite Pd. apply (R_disk _ _ HR).
  - apply (R_pcre_none _ _ HR).
  - intros q. unfold locked. rewrite Pc. cbn. keq q p.
    + rewrite upd_same. cbn. rewrite Hfu. rewrite <- (R_lock _ _ HR). unfold locked. now rewrite Hc, Hfu.
    + rewrite upd_other by assumption. apply (R_lock _ _ HR).
  - intros q e'. rewrite Pc. cbn. keq q p.
    + rewrite upd_same. intros [= <-]. cbn. now apply (R_new _ _ HR).
    + rewrite upd_other by assumption. apply (R_new _ _ HR).
  - intros q. rewrite Pcr. apply (R_created _ _ HR).
  - intros q. rewrite marked_mark_updated, Hm2. cbn [lookup]. keq q p.
    + reflexivity.
    + cbn. apply (R_mark _ _ HR).
  - intros q t'. cbn [lookup]. rewrite Pc. cbn. keq q p.
    + intros [= <-]. rewrite upd_same. eexists. split; [reflexivity|]. cbn. auto.
    + rewrite upd_other by assumption. apply (R_pend _ _ HR).
  - intros q Hq. cbn [lookup]. keq q p; [reflexivity|]. now apply (R_pcre_pend _ _ HR).
  - intros q e'. rewrite Pc, Pd. cbn. keq q p.
    + intros _. eapply (R_cache_disk _ _ HR); eauto.
    + rewrite upd_other by assumption. apply (R_cache_disk _ _ HR).
  - intros q e'. rewrite Pc, Pd, marked_mark_updated, Hm2. cbn. keq q p.
    + intros _ _ H. discriminate H.
    + rewrite upd_other by assumption. cbn. apply (R_clean _ _ HR).
  - intros q. rewrite Pw. apply (R_wlog _ _ HR).
  - intros n. rewrite Pt. apply (R_trp _ _ HR).
  - intros n. rewrite Ptu. apply (R_tmark _ _ HR).
  - intros n e'. rewrite Pt. apply (R_ttab _ _ HR).
  - intros n. rewrite Pt. apply (R_tpend_ex _ _ HR).
Qed.

(* ---- one step of the simulation ----------------------------------------------------------------------- *)
Lemma R_change : forall s x p mk t, R s x -> wf1 (SChange p mk t) s ->
  R (exec (SChange p mk t) s) (spec_step (SChange p mk t) x).
Proof.
  intros s x p mk t HR Hwf. cbn [exec spec_step]. rewrite (R_exists_now _ _ p HR).
  destruct (disk s p) as [t0|] eqn:Hd; cbn [is_some].
  - pose proof (R_load_fu s x p HR) as HR1.
    destruct (load_fu_entry s p t0 (fun e He => R_cache_disk _ _ HR p e He) Hd) as [e [He [Hfu Hdk]]].
    rewrite He. destruct mk.
    + apply R_publish_marked; assumption.
    + (* 0 affected rows: the table is the loaded one *)
      cbn in Hwf. unfold visible in Hwf. rewrite He in Hwf.
      destruct Hwf as [Hv | Hv]; [|discriminate]. injection Hv as Hv.
      eapply R_eqv; [exact HR1|].
      unfold st_eqv. cbn. repeat split; auto.
      intros q. keq q p.
      * rewrite upd_same, He. f_equal. rewrite <- Hv. symmetry. apply cent_eta.
      * now rewrite upd_other.
  - assert (Hc : cache s p = None).
    { destruct (cache s p) as [e|] eqn:Hc; [|reflexivity].
      exfalso. eapply (R_cache_disk _ _ HR); eauto. }
    unfold load_fu. rewrite Hc, Hd, Hc. exact HR.
Qed.

Lemma R_create : forall s x p t, R s x -> R (exec (SCreate p t) s) (spec_step (SCreate p t) x).
Proof.
  intros s x p t HR. cbn [exec spec_step]. rewrite (R_exists_now _ _ p HR).
  destruct (disk s p) as [t0|] eqn:Hd; cbn [is_some]; [exact HR|].
  assert (Hc : cache s p = None).
  { destruct (cache s p) as [e|] eqn:Hc; [|reflexivity].
    exfalso. eapply (R_cache_disk _ _ HR); eauto. }
  destruct (R_nocache _ _ _ HR Hc) as [Hpc [Hpd Hh]].
  assert (Hm : marked s p = false) by (rewrite (R_mark _ _ HR), Hpd; reflexivity).
  assert (Hsd : sd x p = None) by (pose proof (R_disk _ _ HR p) as H; rewrite Hpc, Hd in H; auto).
  set (s2 := set_cache (set_disk s (upd (disk s) p (Some []))) (upd (cache s) p (Some (mkCE t true true)))).
  destruct (mark_created_proj p s2) as (Pd & Pc & Pt & Ptu & Pw).
  assert (Hm2 : forall q, marked s2 q = marked s q) by reflexivity.
  constructor; cbn [sd pend pcre held stv tpend swr].
  - intros q. rewrite Pd. cbn. rewrite memb_cons. keq q p.
    + now rewrite upd_same.
    + rewrite upd_other by assumption. cbn. apply (R_disk _ _ HR).
  - intros q. rewrite memb_cons. keq q p; [auto|]. cbn. apply (R_pcre_none _ _ HR).
  - intros q. unfold locked. rewrite Pc. cbn. rewrite memb_cons. keq q p.
    + now rewrite upd_same.
    + rewrite upd_other by assumption. apply (R_lock _ _ HR).
  - intros q e'. rewrite Pc. cbn. rewrite memb_cons. keq q p.
    + rewrite upd_same. now intros [= <-].
    + rewrite upd_other by assumption. apply (R_new _ _ HR).
  - intros q. rewrite created_mark_created by (rewrite Hm2; exact Hm). rewrite memb_cons.
    f_equal. apply (R_created _ _ HR).
  - intros q. rewrite marked_mark_created, Hm2. cbn [lookup]. keq q p; [reflexivity|].
    cbn. apply (R_mark _ _ HR).
  - intros q t'. cbn [lookup]. rewrite Pc. cbn. keq q p.
    + intros [= <-]. rewrite upd_same. eexists. split; [reflexivity|]. cbn. auto.
    + rewrite upd_other by assumption. apply (R_pend _ _ HR).
  - intros q. rewrite memb_cons. cbn [lookup]. keq q p; [reflexivity|]. cbn. apply (R_pcre_pend _ _ HR).
  - intros q e'. rewrite Pc, Pd. cbn. keq q p.
    + rewrite !upd_same. intros _. discriminate.
    + rewrite !upd_other by assumption. apply (R_cache_disk _ _ HR).
  - intros q e'. rewrite Pc, Pd, marked_mark_created, Hm2. cbn. keq q p.
    + intros _ _ H. discriminate H.
    + rewrite !upd_other by assumption. cbn. apply (R_clean _ _ HR).
  - intros q. rewrite Pw. apply (R_wlog _ _ HR).
  - intros n. rewrite Pt. apply (R_trp _ _ HR).
  - intros n. rewrite Ptu. apply (R_tmark _ _ HR).
  - intros n e'. rewrite Pt. apply (R_ttab _ _ HR).
  - intros n. rewrite Pt. apply (R_tpend_ex _ _ HR).
Qed.

Lemma R_declare : forall s x n t, R s x ->
  R (exec (SDeclareTemp n t) s) (spec_step (SDeclareTemp n t) x).
Proof.
  intros s x n t HR. cbn [exec spec_step]. pose proof (R_trp _ _ HR n) as Hrp.
  destruct (temps s n) as [e|] eqn:Ht; cbn in Hrp; rewrite <- Hrp; [exact HR|].
  assert (Hl : lookup n (tpend x) = None).
  { destruct (lookup n (tpend x)) eqn:Hl; [|reflexivity].
    exfalso. apply (R_tpend_ex _ _ HR n); [now rewrite Hl | exact Ht]. }
  destruct HR. constructor; cbn; auto.
  - intros q. keq q n; [now rewrite !upd_same | now rewrite !upd_other].
  - intros q e'. keq q n.
    + rewrite upd_same. intros [= <-]. cbn. now rewrite Hl.
    + rewrite upd_other by assumption. apply R_ttab0.
  - intros q Hq. keq q n; [rewrite upd_same; discriminate | rewrite upd_other by assumption; auto].
Qed.

Lemma R_change_temp : forall s x n mk t, R s x -> wf1 (SChangeTemp n mk t) s ->
  R (exec (SChangeTemp n mk t) s) (spec_step (SChangeTemp n mk t) x).
Proof.
  intros s x n mk t HR Hwf. cbn [exec spec_step]. pose proof (R_trp _ _ HR n) as Hrp.
  destruct (temps s n) as [e|] eqn:Ht; cbn in Hrp; rewrite <- Hrp; [|exact HR].
  destruct mk.
  - set (s1 := set_temps s (upd (temps s) n (Some (mkTE t (te_rp e))))).
    destruct (mark_tupdated_proj n s1) as (Pd & Pc & Pcr & Pup & Pt & Pw).
    assert (Hmk : forall q, marked (mark_tupdated n s1) q = marked s q).
    { intros q. unfold marked. now rewrite Pcr, Pup. }
    assert (Hlk : forall q, locked (mark_tupdated n s1) q = locked s q).
    { intros q. unfold locked. now rewrite Pc. }
    constructor; cbn [sd pend pcre held stv tpend swr].
    + intros q. rewrite Pd. apply (R_disk _ _ HR).
    + apply (R_pcre_none _ _ HR).
    + intros q. rewrite Hlk. apply (R_lock _ _ HR).
    + intros q e'. rewrite Pc. apply (R_new _ _ HR).
    + intros q. rewrite Pcr. apply (R_created _ _ HR).
    + intros q. rewrite Hmk. apply (R_mark _ _ HR).
    + intros q t'. rewrite Pc. apply (R_pend _ _ HR).
    + apply (R_pcre_pend _ _ HR).
    + intros q e'. rewrite Pc, Pd. apply (R_cache_disk _ _ HR).
    + intros q e'. rewrite Pc, Pd, Hmk. apply (R_clean _ _ HR).
    + intros q. rewrite Pw. apply (R_wlog _ _ HR).
    + intros q. rewrite Pt. cbn. keq q n.
      * rewrite upd_same. cbn. now rewrite <- (R_trp _ _ HR n), Ht.
      * rewrite upd_other by assumption. apply (R_trp _ _ HR).
    + intros q. rewrite tupdated_mark_tupdated. cbn [lookup]. keq q n; [reflexivity|].
      cbn. apply (R_tmark _ _ HR).
    + intros q e'. rewrite Pt. cbn. cbn [lookup]. keq q n.
      * rewrite upd_same. now intros [= <-].
      * rewrite upd_other by assumption. apply (R_ttab _ _ HR).
    + intros q. rewrite Pt. cbn. cbn [lookup]. keq q n.
      * rewrite upd_same. discriminate.
      * rewrite upd_other by assumption. apply (R_tpend_ex _ _ HR).
  - cbn in Hwf. unfold tvisible in Hwf. rewrite Ht in Hwf. cbn in Hwf.
    destruct Hwf as [Hv | Hv]; [|discriminate]. injection Hv as Hv.
    eapply R_eqv; [exact HR|]. unfold st_eqv. cbn. repeat split; auto.
    intros q. keq q n.
    + rewrite upd_same, Ht. f_equal. rewrite <- Hv. now destruct e.
    + now rewrite upd_other.
Qed.

Lemma In_marked : forall s p, In p (created s ++ updated s) <-> marked s p = true.
Proof.
  intros s p. unfold marked. rewrite in_app_iff, Bool.orb_true_iff, !memb_In. tauto.
Qed.

Lemma R_commit : forall s x, R s x -> R (do_commit s) (spec_step SCommit x).
Proof.
  intros s x HR. unfold do_commit. cbn [spec_step].
  constructor; cbn [disk cache created updated temps tupdated wlog sd pend pcre held stv tpend swr];
    try (intros; discriminate); try (intros; reflexivity).
  - intros p. rewrite memb_nil. unfold release_disk, commit_files, apply_pend. cbn.
    pose proof (R_mark _ _ HR p) as Hm.
    destruct (lookup p (pend x)) as [t|] eqn:Hl; cbn in Hm; rewrite Hm.
    + destruct (R_pend _ _ HR _ _ Hl) as [e [He [Ht _]]]. rewrite He, Ht.
      now rewrite Bool.andb_false_r.
    + assert (Hpc : memb p (pcre x) = false).
      { destruct (memb p (pcre x)) eqn:Hpc; [|reflexivity].
        pose proof (R_pcre_pend _ _ HR _ Hpc) as H. now rewrite Hl in H. }
      pose proof (R_disk _ _ HR p) as Hd. rewrite Hpc in Hd.
      destruct (cache s p) as [e|] eqn:Hc; [|exact Hd].
      rewrite (R_new _ _ HR _ _ Hc), Hpc. exact Hd.
  - intros p. rewrite (in_app_iff (wlog s)), (in_app_iff (swr x)), In_marked,
      (R_wlog _ _ HR), (R_mark _ _ HR), lookup_In, memb_In.
    tauto.
  - intros n. unfold store_temps, apply_tpend. pose proof (R_trp _ _ HR n) as Hrp.
    destruct (temps s n) as [e|] eqn:Ht; cbn in Hrp; rewrite <- Hrp; [|reflexivity].
    rewrite (R_tmark _ _ HR). pose proof (R_ttab _ _ HR _ _ Ht) as Htt.
    destruct (lookup n (tpend x)) as [t|]; cbn; now rewrite ?Htt.
  - intros n e'. unfold store_temps. destruct (temps s n) as [e|] eqn:Ht; [|discriminate].
    pose proof (R_ttab _ _ HR _ _ Ht) as Htt. rewrite (R_tmark _ _ HR).
    destruct (lookup n (tpend x)) as [t|]; cbn; intros [= <-]; [reflexivity | exact Htt].
Qed.

Lemma R_rollback : forall s x, R s x -> R (do_rollback s) (spec_step SRollback x).
Proof.
  intros s x HR. unfold do_rollback. cbn [spec_step].
  constructor; cbn [disk cache created updated temps tupdated wlog sd pend pcre held stv tpend swr];
    try (intros; discriminate); try (intros; reflexivity).
  - intros p. rewrite memb_nil. unfold release_disk. cbn. pose proof (R_disk _ _ HR p) as Hd.
    destruct (cache s p) as [e|] eqn:Hc.
    + rewrite (R_new _ _ HR _ _ Hc), Bool.andb_true_r.
      destruct (memb p (pcre x)) eqn:Hpc; [symmetry; now apply (R_pcre_none _ _ HR) | exact Hd].
    + destruct (R_nocache _ _ _ HR Hc) as [Hpc _]. now rewrite Hpc in Hd.
  - apply (R_wlog _ _ HR).
  - intros n. unfold restore_temps. pose proof (R_trp _ _ HR n) as Hrp.
    destruct (temps s n) as [e|] eqn:Ht; cbn in Hrp; rewrite <- Hrp; [|reflexivity].
    destruct (memb n (tupdated s)); reflexivity.
  - intros n e'. unfold restore_temps. destruct (temps s n) as [e|] eqn:Ht; [|discriminate].
    pose proof (R_ttab _ _ HR _ _ Ht) as Htt. rewrite (R_tmark _ _ HR).
    destruct (lookup n (tpend x)) as [t|]; cbn; intros [= <-]; [reflexivity | exact Htt].
Qed.

Lemma R_ext : forall s x p t, R s x -> R (exec (ExtCommit p t) s) (spec_step (ExtCommit p t) x).
Proof.
  intros s x p t HR. cbn [exec spec_step]. rewrite (R_lock _ _ HR).
  destruct (memb p (held x)) eqn:Hh; [exact HR|].
  assert (Hpc : memb p (pcre x) = false).
  { destruct (memb p (pcre x)) eqn:Hpc; [|reflexivity].
    destruct (R_pcre_cache _ _ _ HR Hpc) as [e [He Hfu]].
    pose proof (R_lock _ _ HR p) as Hl. unfold locked in Hl. rewrite He, Hfu, Hh in Hl. discriminate. }
  pose proof (R_disk _ _ HR p) as Hd. rewrite Hpc in Hd. rewrite Hd.
  destruct (sd x p) as [t0|] eqn:Hsd; [|exact HR].
  assert (Hlk : forall q, locked (set_disk s (upd (disk s) p (Some (render_tab t)))) q = locked s q) by reflexivity.
  constructor; cbn [sd pend pcre held stv tpend swr]; try apply HR.
  - intros q. cbn. keq q p.
    + now rewrite !upd_same, Hpc.
    + rewrite !upd_other by assumption. apply (R_disk _ _ HR).
  - intros q Hq. keq q p; [congruence|]. rewrite upd_other by assumption. now apply (R_pcre_none _ _ HR).
  - intros q e. cbn. keq q p.
    + rewrite upd_same. discriminate.
    + rewrite upd_other by assumption. apply (R_cache_disk _ _ HR).
  - intros q e. cbn. keq q p.
    + intros He Hfu _. pose proof (R_lock _ _ HR p) as Hl. unfold locked in Hl.
      rewrite He, Hfu, Hh in Hl. discriminate.
    + rewrite upd_other by assumption. apply (R_clean _ _ HR).
Qed.

Lemma R_step : forall o s x, R s x -> wf1 o s -> R (exec o s) (spec_step o x).
Proof.
  intros o s x HR Hwf. destruct o.
  - apply R_load_read; assumption.
  - apply R_load_fu; assumption.
  - apply R_change; assumption.
  - apply R_create; assumption.
  - apply R_declare; assumption.
  - apply R_change_temp; assumption.
  - cbn [exec spec_step]. apply R_fold_load_fu; assumption.
  - apply R_commit; assumption.
  - apply R_rollback; assumption.
  - apply R_ext; assumption.
Qed.

Lemma R_steps : forall ops s x, R s x -> ops_wf ops s -> R (execs ops s) (spec_steps ops x).
Proof.
  induction ops as [|o r IH]; intros s x HR Hwf; [exact HR|].
  destruct Hwf as [H1 Hr]. cbn. apply IH; [now apply R_step | exact Hr].
Qed.

Lemma R_reach : forall d0 ops, ops_wf ops (init d0) ->
  R (execs ops (init d0)) (spec_steps ops (sp_init d0)).
Proof. intros. apply R_steps; [apply R_init | assumption]. Qed.

(* ---- C01 -------------------------------------------------------------------------------------------- *)
Definition spec_finish (m : mode) (x : sp) : sp :=
  match m with
  | Normal => spec_step SRollback (spec_step SCommit x)
  | _ => spec_step SRollback x
  end.

Lemma R_finish : forall m s x, R s x -> R (finish m s) (spec_finish m x).
Proof.
  intros m s x HR. destruct m; cbn [finish spec_finish];
    repeat (first [apply R_rollback | apply R_commit]); exact HR.
Qed.

Lemma spec_finish_sd : forall m x, sd (spec_finish m x) = sd (spec_end m x).
Proof. now intros []. Qed.
Lemma spec_finish_swr : forall m x, swr (spec_finish m x) = swr (spec_end m x).
Proof. now intros []. Qed.
Lemma spec_finish_stv : forall m x, stv (spec_finish m x) = stv (spec_end m x).
Proof. now intros []. Qed.
Lemma spec_finish_clear : forall m x, pcre (spec_finish m x) = [] /\ tpend (spec_finish m x) = [].
Proof. now intros []. Qed.

Lemma R_run : forall d0 ops m, ops_wf ops (init d0) ->
  R (run d0 ops m) (spec_finish m (spec_steps ops (sp_init d0))).
Proof. intros. unfold run. apply R_finish. now apply R_reach. Qed.

Lemma txn_all_or_nothing : forall d0 ops m, ops_wf ops (init d0) ->
  forall p, disk (run d0 ops m) p = spec_disk d0 ops m p.
Proof.
  intros d0 ops m Hwf p. pose proof (R_run d0 ops m Hwf) as HR.
  rewrite (R_disk _ _ HR). destruct (spec_finish_clear m (spec_steps ops (sp_init d0))) as [Hc _].
  rewrite Hc, memb_nil, spec_finish_sd. reflexivity.
Qed.

Lemma written_iff : forall d0 ops m, ops_wf ops (init d0) ->
  forall p, In p (wlog (run d0 ops m)) <-> In p (spec_written d0 ops m).
Proof.
  intros d0 ops m Hwf p. pose proof (R_run d0 ops m Hwf) as HR.
  rewrite (R_wlog _ _ HR), spec_finish_swr. reflexivity.
Qed.

(* what the pending-writes machine ever writes comes from a marked statement *)
Definition changes_marked (p : key) (o : op) : bool :=
  match o with
  | SChange q true _ | SCreate q _ => N.eqb q p
  | _ => false
  end.

Lemma hold_pend : forall p x, pend (hold p x) = pend x /\ swr (hold p x) = swr x.
Proof. intros. unfold hold. destruct (exists_now x p); auto. Qed.

Lemma fold_hold_pend : forall l x,
  pend (fold_left (fun x' p => hold p x') l x) = pend x /\
  swr (fold_left (fun x' p => hold p x') l x) = swr x.
Proof.
  induction l as [|p r IH]; intros x; [auto|]. cbn. destruct (IH (hold p x)) as [H1 H2].
  destruct (hold_pend p x) as [H3 H4]. rewrite H1, H2. auto.
Qed.

Lemma spec_step_writes : forall o x p,
  (In p (swr (spec_step o x)) \/ In p (map fst (pend (spec_step o x)))) ->
  (In p (swr x) \/ In p (map fst (pend x))) \/ changes_marked p o = true.
Proof.
  intros o x p. destruct o; cbn [spec_step changes_marked]; try tauto.
  - destruct (hold_pend p0 x) as [H1 H2]. rewrite H1, H2. tauto.
  - destruct (exists_now x p0); [|tauto]. destruct (hold_pend p0 x) as [H1 H2].
    destruct mk; cbn; rewrite ?H1, ?H2; [|tauto].
    intros [H | [H | H]]; auto. subst. right. apply N.eqb_refl.
  - destruct (exists_now x p0); [tauto|]. cbn.
    intros [H | [H | H]]; auto. subst. right. apply N.eqb_refl.
  - destruct (stv x n); cbn; tauto.
  - destruct (stv x n); [destruct mk|]; cbn; tauto.
  - destruct (fold_hold_pend touched x) as [H1 H2]. rewrite H1, H2. tauto.
  - cbn. rewrite in_app_iff. tauto.
  - cbn. tauto.
  - destruct (memb p0 (held x)); [tauto|]. destruct (sd x p0); cbn; tauto.
Qed.

Lemma spec_steps_writes : forall ops x p,
  (In p (swr (spec_steps ops x)) \/ In p (map fst (pend (spec_steps ops x)))) ->
  (In p (swr x) \/ In p (map fst (pend x))) \/ existsb (changes_marked p) ops = true.
Proof.
  induction ops as [|o r IH]; intros x p H; [auto|].
  cbn in H. apply IH in H. cbn [existsb]. rewrite Bool.orb_true_iff.
  destruct H as [H | H]; [|tauto].
  apply spec_step_writes in H. tauto.
Qed.

Lemma spec_written_sound : forall d0 ops m p,
  In p (spec_written d0 ops m) -> existsb (changes_marked p) ops = true.
Proof.
  intros d0 ops m p H. unfold spec_written in H.
  assert (H' : In p (swr (spec_steps ops (sp_init d0))) \/ In p (map fst (pend (spec_steps ops (sp_init d0))))).
  { destruct m; cbn in H; rewrite ?in_app_iff in H; tauto. }
  apply spec_steps_writes in H'. cbn in H'. tauto.
Qed.

Lemma untouched_files_not_written : forall d0 ops m, ops_wf ops (init d0) ->
  forall p, In p (wlog (run d0 ops m)) -> existsb (changes_marked p) ops = true.
Proof.
  intros d0 ops m Hwf p H. eapply spec_written_sound. apply (written_iff d0 ops m Hwf). exact H.
Qed.

Lemma temps_restored : forall d0 ops m, ops_wf ops (init d0) ->
  forall n, tvisible (run d0 ops m) n = spec_temps d0 ops m n.
Proof.
  intros d0 ops m Hwf n. pose proof (R_run d0 ops m Hwf) as HR.
  unfold spec_temps. rewrite <- spec_finish_stv, <- (R_trp _ _ HR). unfold tvisible.
  destruct (temps (run d0 ops m) n) as [e|] eqn:Ht; [|reflexivity]. cbn. f_equal.
  rewrite (R_ttab _ _ HR _ _ Ht).
  destruct (spec_finish_clear m (spec_steps ops (sp_init d0))) as [_ Hc]. now rewrite Hc.
Qed.

Lemma created_since_commit_absent : forall d0 ops m, ops_wf ops (init d0) -> m <> Normal ->
  forall p, memb p (created (execs ops (init d0))) = true -> disk (run d0 ops m) p = None.
Proof.
  intros d0 ops m Hwf Hm p Hc. pose proof (R_reach d0 ops Hwf) as HR.
  rewrite (R_created _ _ HR) in Hc.
  assert (Hd : disk (do_rollback (execs ops (init d0))) p = None).
  { pose proof (R_rollback _ _ HR) as HR'. rewrite (R_disk _ _ HR'). cbn. rewrite memb_nil.
    now apply (R_pcre_none _ _ HR). }
  unfold run. destruct m; [contradiction | exact Hd | exact Hd | exact Hd].
Qed.

(* the invariant behind it: whatever differs from the file, and whatever was created, is registered *)
Lemma dirty_tracked : forall d0 ops, ops_wf ops (init d0) ->
  let s := execs ops (init d0) in
  forall p e, cache s p = Some e ->
    (ce_fu e = true -> disk s p <> Some (ce_tab e) -> marked s p = true) /\
    (ce_new e = true -> memb p (created s) = true) /\
    (marked s p = true -> ce_fu e = true).
Proof.
  intros d0 ops Hwf s p e Hc. pose proof (R_reach d0 ops Hwf) as HR. fold s in HR. repeat split.
  - intros Hfu Hne. destruct (marked s p) eqn:Hm; [reflexivity|].
    exfalso. apply Hne. eapply (R_clean _ _ HR); eauto.
  - intros Hn. rewrite (R_created _ _ HR), <- (R_new _ _ HR _ _ Hc). exact Hn.
  - intros Hm. rewrite (R_mark _ _ HR) in Hm.
    destruct (lookup p (pend (spec_steps ops (sp_init d0)))) as [t|] eqn:Hl; [|discriminate].
    destruct (R_pend _ _ HR _ _ Hl) as [e' [He' [_ Hfu]]]. congruence.
Qed.

(* a normal end leaves every table the transaction held for update (so: every table it changed
   or created) on disk as the text of what the transaction last saw *)
Lemma normal_end_last_seen : forall d0 ops, ops_wf ops (init d0) ->
  let s := execs ops (init d0) in
  forall p e, cache s p = Some e -> ce_fu e = true ->
    option_map render_tab (disk (run d0 ops Normal) p) = Some (render_tab (ce_tab e)).
Proof.
  intros d0 ops Hwf s p e Hc Hfu. pose proof (R_reach d0 ops Hwf) as HR. fold s in HR.
  rewrite (txn_all_or_nothing d0 ops Normal Hwf). unfold spec_disk. cbn [spec_end spec_step sd].
  unfold apply_pend. fold (spec_steps ops (sp_init d0)).
  set (x := spec_steps ops (sp_init d0)) in *.
  destruct (lookup p (pend x)) as [t|] eqn:Hl.
  - destruct (R_pend _ _ HR _ _ Hl) as [e' [He' [Ht _]]].
    assert (e' = e) by congruence. subst e'. cbn. now rewrite Ht, render_tab_idem.
  - assert (Hm : marked s p = false) by (rewrite (R_mark _ _ HR), Hl; reflexivity).
    pose proof (R_clean _ _ HR _ _ Hc Hfu Hm) as Hd.
    assert (Hpc : memb p (pcre x) = false).
    { destruct (memb p (pcre x)) eqn:Hpc; [|reflexivity].
      pose proof (R_pcre_pend _ _ HR _ Hpc) as H. now rewrite Hl in H. }
    rewrite (R_disk _ _ HR), Hpc in Hd. now rewrite Hd.
Qed.

(* ---- C20: one table, any interleaving --------------------------------------------------------------- *)
(* what the model knows about table p: the cached view, how it is held, the file *)
Definition knows (s : st) (p : key) (x : tab * bool * tab) : Prop :=
  let '(v, fu, d) := x in
  exists e, cache s p = Some e /\ ce_tab e = v /\ ce_fu e = fu /\ disk s p = Some d.

Lemma load_fu_other : forall p q s, q <> p ->
  cache (load_fu p s) q = cache s q /\ disk (load_fu p s) q = disk s q.
Proof.
  intros p q s Hne. unfold load_fu.
  destruct (cache s p) as [e|]; [destruct (ce_fu e)|]; try destruct (disk s p); cbn;
    rewrite ?upd_other by assumption; auto.
Qed.

Lemma load_fu_knows : forall p s v fu d, knows s p (v, fu, d) ->
  knows (load_fu p s) p (if fu then (v, true, d) else (d, true, d)).
Proof.
  intros p s v fu d [e [Hc [Hv [Hfu Hd]]]]. unfold load_fu. rewrite Hc, Hfu. destruct fu.
  - exists e. auto.
  - rewrite Hd. cbn. rewrite upd_same. eexists. split; [reflexivity|]. cbn. auto.
Qed.

Lemma fold_load_fu_knows : forall p touched s x, knows s p x ->
  knows (fold_left (fun s' q => load_fu q s') touched s) p
        (if memb p touched then (let '(v, fu, d) := x in if fu then (v, true, d) else (d, true, d)) else x).
Proof.
  intros p touched. induction touched as [|q r IH]; intros s x Hk; [exact Hk|].
  cbn [fold_left]. rewrite memb_cons. destruct x as [[v fu] d]. keq p q.
  - cbn [orb]. pose proof (load_fu_knows _ _ _ _ _ Hk) as Hk1.
    specialize (IH _ _ Hk1). destruct (memb q r); destruct fu; exact IH.
  - assert (Hk1 : knows (load_fu q s) p (v, fu, d)).
    { destruct Hk as [e [Hc [Hv [Hfu Hd]]]]. destruct (load_fu_other q p s Hne) as [H1 H2].
      exists e. rewrite H1, H2. auto. }
    specialize (IH _ _ Hk1). cbn [orb]. exact IH.
Qed.

Lemma tstep_knows : forall p o s x, knows s p x -> is_end o = false ->
  knows (exec o s) p (tstep p o x).
Proof.
  intros p o s [[v fu] d] Hk Hend. pose proof Hk as [e [Hc [Hv [Hfu Hd]]]].
  destruct o; cbn [exec tstep]; try discriminate.
  - (* SRead *) unfold load_read. keq p0 p.
    + rewrite Hc. exact Hk.
    + destruct (cache s p0); [exact Hk|]. destruct (disk s p0); [|exact Hk].
      exists e. cbn. rewrite upd_other by auto. auto.
  - (* SReadFU *) keq p0 p.
    + apply load_fu_knows. exact Hk.
    + destruct (load_fu_other p0 p s (not_eq_sym Hne)) as [H1 H2]. exists e. rewrite H1, H2. auto.
  - (* SChange *) keq p0 p.
    + pose proof (load_fu_knows _ _ _ _ _ Hk) as Hk1.
      assert (Hk2 : exists e1, cache (load_fu p s) p = Some e1 /\ disk (load_fu p s) p = Some d).
      { destruct fu; destruct Hk1 as [e1 [H1 [_ [_ H2]]]]; eauto. }
      destruct Hk2 as [e1 [H1 H2]]. rewrite H1.
      assert (Hfu1 : ce_fu e1 = true).
      { destruct fu; destruct Hk1 as [e2 [H3 [_ [H4 _]]]]; congruence. }
      set (s2 := set_cache (load_fu p s) (upd (cache (load_fu p s)) p (Some (mkCE t (ce_fu e1) (ce_new e1))))).
      assert (Hs2 : knows s2 p (t, true, d)).
      { eexists. unfold s2. cbn. rewrite upd_same. split; [reflexivity|]. cbn. auto. }
      destruct mk; [|exact Hs2].
      destruct (mark_updated_proj p s2) as (Pd & Pc & _).
      destruct Hs2 as [e2 He2]. exists e2. rewrite Pc, Pd. exact He2.
    + destruct (load_fu_other p0 p s (not_eq_sym Hne)) as [H1 H2].
      assert (Hk1 : knows (load_fu p0 s) p (v, fu, d)) by (exists e; rewrite H1, H2; auto).
      destruct (cache (load_fu p0 s) p0) as [e1|]; [|exact Hk1].
      set (s2 := set_cache (load_fu p0 s) (upd (cache (load_fu p0 s)) p0 (Some (mkCE t (ce_fu e1) (ce_new e1))))).
      assert (Hs2 : knows s2 p (v, fu, d)).
      { exists e. unfold s2. cbn. rewrite upd_other by auto. rewrite H1, H2. auto. }
      destruct mk; [|exact Hs2].
      destruct (mark_updated_proj p0 s2) as (Pd & Pc & _).
      destruct Hs2 as [e2 He2]. exists e2. rewrite Pc, Pd. exact He2.
  - (* SCreate *) destruct (disk s p0) as [t0|] eqn:Hd0; [exact Hk|].
    assert (Hne : p <> p0) by (intros ->; congruence).
    set (s2 := set_cache (set_disk s (upd (disk s) p0 (Some []))) (upd (cache s) p0 (Some (mkCE t true true)))).
    destruct (mark_created_proj p0 s2) as (Pd & Pc & _).
    exists e. rewrite Pc, Pd. unfold s2. cbn. rewrite !upd_other by auto. auto.
  - (* SDeclareTemp *) destruct (temps s n); [exact Hk|]. exists e. cbn. auto.
  - (* SChangeTemp *) destruct (temps s n) as [e0|]; [|exact Hk].
    set (s1 := set_temps s (upd (temps s) n (Some (mkTE t (te_rp e0))))).
    assert (Hs1 : knows s1 p (v, fu, d)) by (exists e; cbn; auto).
    destruct mk; [|exact Hs1].
    destruct (mark_tupdated_proj n s1) as (Pd & Pc & _).
    destruct Hs1 as [e2 He2]. exists e2. rewrite Pc, Pd. exact He2.
  - (* SFail *) pose proof (fold_load_fu_knows p touched s (v, fu, d) Hk) as H.
    destruct (memb p touched); exact H.
  - (* ExtCommit *) keq p0 p.
    + unfold locked. rewrite Hc, Hfu. destruct fu; [exact Hk|]. rewrite Hd.
      exists e. cbn. rewrite upd_same. auto.
    + destruct (locked s p0); [exact Hk|]. destruct (disk s p0); [|exact Hk].
      exists e. cbn. rewrite upd_other by auto. auto.
Qed.

Lemma track_knows : forall p mid s x, knows s p x -> no_end mid = true ->
  knows (execs mid s) p (track_st p x mid).
Proof.
  intros p mid. induction mid as [|o r IH]; intros s x Hk Hn; [exact Hk|].
  cbn in Hn. apply Bool.andb_true_iff in Hn as [Ho Hr]. apply Bool.negb_true_iff in Ho.
  cbn. apply IH; [|exact Hr]. now apply tstep_knows.
Qed.

Lemma repeatable_read : forall mid s p e d, cache s p = Some e -> disk s p = Some d ->
  no_end mid = true ->
  visible (execs mid s) p = Some (track p (ce_tab e) (ce_fu e) d mid).
Proof.
  intros mid s p e d Hc Hd Hn.
  assert (Hk : knows s p (ce_tab e, ce_fu e, d)) by (exists e; auto).
  pose proof (track_knows p mid s _ Hk Hn) as H. unfold track.
  destruct (track_st p (ce_tab e, ce_fu e, d) mid) as [[v fu] d'].
  destruct H as [e' [Hc' [Hv' _]]]. unfold visible. rewrite Hc'. cbn. now rewrite Hv'.
Qed.

(* special cases that need no reference to `track` *)
Lemma track_st_untouched : forall p mid v d, forallb (fun o => negb (touches_fu p o)) mid = true ->
  exists d', track_st p (v, false, d) mid = (v, false, d').
Proof.
  intros p mid. induction mid as [|o r IH]; intros v d H; [exists d; reflexivity|].
  cbn in H. apply Bool.andb_true_iff in H as [Ho Hr]. apply Bool.negb_true_iff in Ho.
  cbn [track_st fold_left].
  assert (Hs : exists d1, tstep p o (v, false, d) = (v, false, d1)).
  { destruct o; cbn [tstep touches_fu] in *; eauto.
    - rewrite Ho. eauto.
    - rewrite Ho. eauto.
    - rewrite Ho. eauto.
    - destruct (N.eqb p0 p); eauto. }
  destruct Hs as [d1 Hs]. rewrite Hs. apply IH. exact Hr.
Qed.

Lemma track_st_locked : forall p mid v d, forallb (fun o => negb (changes p o)) mid = true ->
  track_st p (v, true, d) mid = (v, true, d).
Proof.
  intros p mid. induction mid as [|o r IH]; intros v d H; [reflexivity|].
  cbn in H. apply Bool.andb_true_iff in H as [Ho Hr]. apply Bool.negb_true_iff in Ho.
  cbn [track_st fold_left].
  assert (Hs : tstep p o (v, true, d) = (v, true, d)).
  { destruct o; cbn [tstep changes] in *; try reflexivity.
    - destruct (N.eqb p0 p); reflexivity.
    - now rewrite Ho.
    - destruct (memb p touched); reflexivity.
    - destruct (N.eqb p0 p); reflexivity. }
  rewrite Hs. apply IH. exact Hr.
Qed.

(* loaded by a plain SELECT and never accessed for update since: the same data, whatever other
   processes commit *)
Lemma rr_plain : forall mid s p e d, cache s p = Some e -> disk s p = Some d -> ce_fu e = false ->
  no_end mid = true -> forallb (fun o => negb (touches_fu p o)) mid = true ->
  visible (execs mid s) p = Some (ce_tab e).
Proof.
  intros mid s p e d Hc Hd Hfu Hn Hu. rewrite (repeatable_read mid s p e d Hc Hd Hn).
  unfold track. rewrite Hfu. destruct (track_st_untouched p mid (ce_tab e) d Hu) as [d' H].
  now rewrite H.
Qed.

(* held for update: the same data until the transaction changes it itself *)
Lemma rr_locked : forall mid s p e d, cache s p = Some e -> disk s p = Some d -> ce_fu e = true ->
  no_end mid = true -> forallb (fun o => negb (changes p o)) mid = true ->
  visible (execs mid s) p = Some (ce_tab e).
Proof.
  intros mid s p e d Hc Hd Hfu Hn Hu. rewrite (repeatable_read mid s p e d Hc Hd Hn).
  unfold track. rewrite Hfu, (track_st_locked p mid (ce_tab e) d Hu). reflexivity.
Qed.

(* its own latest change is what it sees *)
Lemma rr_own_change : forall mid1 mid2 s p mk t e d, cache s p = Some e -> disk s p = Some d ->
  no_end mid1 = true -> no_end mid2 = true ->
  forallb (fun o => negb (changes p o)) mid2 = true ->
  visible (execs (mid1 ++ SChange p mk t :: mid2) s) p = Some t.
Proof.
  intros mid1 mid2 s p mk t e d Hc Hd Hn1 Hn2 Hu.
  assert (Hn : no_end (mid1 ++ SChange p mk t :: mid2) = true).
  { unfold no_end. rewrite forallb_app. cbn. unfold no_end in Hn1, Hn2. now rewrite Hn1, Hn2. }
  rewrite (repeatable_read _ s p e d Hc Hd Hn). unfold track, track_st.
  rewrite fold_left_app. cbn [fold_left].
  destruct (fold_left (fun x' o => tstep p o x') mid1 (ce_tab e, ce_fu e, d)) as [[v1 fu1] d1].
  cbn [tstep]. rewrite N.eqb_refl.
  pose proof (track_st_locked p mid2 t d1 Hu) as H. unfold track_st in H. now rewrite H.
Qed.

(* after COMMIT / ROLLBACK nothing is cached: the next read returns the current file, whatever
   other processes committed in between *)
Definition is_ext (o : op) : bool := match o with ExtCommit _ _ => true | _ => false end.

Lemma ext_keeps_cache : forall exts s, forallb is_ext exts = true ->
  cache (execs exts s) = cache s.
Proof.
  induction exts as [|o r IH]; intros s H; [reflexivity|].
  cbn in H. apply Bool.andb_true_iff in H as [Ho Hr]. cbn. rewrite IH by exact Hr.
  destruct o; try discriminate. cbn. destruct (locked s p); [reflexivity|].
  destruct (disk s p); reflexivity.
Qed.

Lemma fresh_after_end : forall o s exts p, is_end o = true -> forallb is_ext exts = true ->
  visible (exec (SRead p) (execs exts (exec o s))) p = disk (execs exts (exec o s)) p /\
  disk (exec (SRead p) (execs exts (exec o s))) p = disk (execs exts (exec o s)) p.
Proof.
  intros o s exts p Ho He.
  assert (Hc : cache (execs exts (exec o s)) p = None).
  { rewrite ext_keeps_cache by exact He. destruct o; try discriminate; reflexivity. }
  cbn [exec]. unfold load_read, visible. rewrite Hc.
  destruct (disk (execs exts (exec o s)) p) as [t|] eqn:Hd.
  - cbn. rewrite upd_same. auto.
  - rewrite Hc. auto.
Qed.

Lemma ext_commit_excluded_while_locked : forall s p t, locked s p = true ->
  exec (ExtCommit p t) s = s.
Proof. intros s p t H. cbn. now rewrite H. Qed.

(* ---- C08 at the transaction level ---------------------------------------------------------------------- *)
(* every copy loaded by a plain SELECT still equals its file (no other process committed to it
   since it was loaded) *)
Definition fresh (s : st) : Prop :=
  forall p e, cache s p = Some e -> ce_fu e = false -> disk s p = Some (ce_tab e).

Lemma load_fu_fu : forall p s e, cache (load_fu p s) p = Some e -> ce_fu e = true.
Proof.
  intros p s e. unfold load_fu. destruct (cache s p) as [e0|] eqn:Hc.
  - destruct (ce_fu e0) eqn:Hfu.
    + rewrite Hc. now intros [= <-].
    + destruct (disk s p); cbn; rewrite upd_same; [now intros [= <-] | discriminate].
  - destruct (disk s p); cbn; [rewrite upd_same; now intros [= <-] | rewrite Hc; discriminate].
Qed.

Lemma load_fu_same : forall p s,
  disk (load_fu p s) = disk s /\ created (load_fu p s) = created s /\ updated (load_fu p s) = updated s /\
  temps (load_fu p s) = temps s /\ tupdated (load_fu p s) = tupdated s /\ wlog (load_fu p s) = wlog s.
Proof.
  intros p s. unfold load_fu. destruct (cache s p) as [e|]; [destruct (ce_fu e)|];
    try destruct (disk s p); cbn; auto 10.
Qed.

Lemma load_fu_noop : forall p s, fresh s ->
  (forall q, visible (load_fu p s) q = visible s q) /\ fresh (load_fu p s).
Proof.
  intros p s Hf. split.
  - intros q. unfold visible. destruct (load_fu_same p s) as [Hd _]. rewrite Hd.
    destruct (N.eqb_spec q p) as [->|Hne].
    + unfold load_fu. destruct (cache s p) as [e|] eqn:Hc.
      * destruct (ce_fu e) eqn:Hfu; [now rewrite Hc|].
        rewrite (Hf _ _ Hc Hfu). cbn. now rewrite upd_same.
      * destruct (disk s p) eqn:Hd0; cbn; [now rewrite upd_same | now rewrite Hc].
    + destruct (load_fu_other p q s Hne) as [H1 _]. now rewrite H1.
  - intros q e Hc Hfu. destruct (load_fu_same p s) as [Hd _]. rewrite Hd.
    destruct (N.eqb_spec q p) as [->|Hne].
    + rewrite (load_fu_fu _ _ _ Hc) in Hfu. discriminate.
    + destruct (load_fu_other p q s Hne) as [H1 _]. rewrite H1 in Hc. now apply Hf.
Qed.

(* a statement that fails is a no-op on everything the following statements can see, and on what
   a COMMIT / ROLLBACK would do *)
Lemma failed_stmt_noop_fresh : forall touched s, fresh s ->
  let s' := exec (SFail touched) s in
  (forall p, visible s' p = visible s p) /\ (forall n, tvisible s' n = tvisible s n) /\
  disk s' = disk s /\ created s' = created s /\ updated s' = updated s /\ tupdated s' = tupdated s /\
  fresh s'.
Proof.
  induction touched as [|p r IH]; intros s Hf; cbn.
  - repeat split; auto.
  - destruct (load_fu_noop p s Hf) as [Hv Hf1]. destruct (load_fu_same p s) as (Hd & Hc & Hu & Ht & Htu & _).
    destruct (IH (load_fu p s) Hf1) as (A1 & A2 & A3 & A4 & A5 & A6 & A7). cbn in *.
    repeat split.
    + intros q. now rewrite A1, Hv.
    + intros n. rewrite A2. unfold tvisible. now rewrite Ht.
    + congruence.
    + congruence.
    + congruence.
    + congruence.
    + exact A7.
Qed.

(* freshness holds along every run in which no other process commits *)
Lemma fresh_step : forall o s, fresh s -> is_ext o = false -> fresh (exec o s).
Proof.
  intros o s Hf He. destruct o; try discriminate; cbn [exec].
  - unfold load_read. destruct (cache s p) as [e|] eqn:Hc; [exact Hf|].
    destruct (disk s p) as [t|] eqn:Hd; [|exact Hf].
    intros q e Hq Hfu. cbn in *. destruct (N.eqb_spec q p) as [->|Hne].
    + rewrite upd_same in Hq. injection Hq as <-. exact Hd.
    + rewrite upd_other in Hq by assumption. now apply Hf.
  - apply (load_fu_noop p s Hf).
  - destruct (load_fu_noop p s Hf) as [_ Hf1]. destruct (cache (load_fu p s) p) as [e|] eqn:Hc; [|exact Hf1].
    pose proof (load_fu_fu _ _ _ Hc) as Hfu.
    assert (H2 : fresh (set_cache (load_fu p s) (upd (cache (load_fu p s)) p (Some (mkCE t (ce_fu e) (ce_new e)))))).
    { intros q e' Hq Hfu'. cbn in *. destruct (N.eqb_spec q p) as [->|Hne].
      - rewrite upd_same in Hq. injection Hq as <-. cbn in Hfu'. congruence.
      - rewrite upd_other in Hq by assumption. now apply Hf1. }
    destruct mk; [|exact H2].
    intros q e' Hq Hfu'. destruct (mark_updated_proj p (set_cache (load_fu p s) (upd (cache (load_fu p s)) p (Some (mkCE t (ce_fu e) (ce_new e)))))) as (Pd & Pc & _).
    rewrite Pc in Hq. rewrite Pd. now apply H2.
  - destruct (disk s p) as [t0|] eqn:Hd; [exact Hf|].
    set (s2 := set_cache (set_disk s (upd (disk s) p (Some []))) (upd (cache s) p (Some (mkCE t true true)))).
    destruct (mark_created_proj p s2) as (Pd & Pc & _).
    intros q e Hq Hfu. rewrite Pc in Hq. rewrite Pd. unfold s2 in *. cbn in *.
    destruct (N.eqb_spec q p) as [->|Hne].
    + rewrite upd_same in Hq. injection Hq as <-. discriminate.
    + rewrite upd_other in Hq by assumption. rewrite upd_other by assumption. now apply Hf.
  - destruct (temps s n); exact Hf.
  - destruct (temps s n) as [e0|]; [|exact Hf]. destruct mk; [|exact Hf].
    destruct (mark_tupdated_proj n (set_temps s (upd (temps s) n (Some (mkTE t (te_rp e0)))))) as (Pd & Pc & _).
    intros q e Hq Hfu. rewrite Pc in Hq. rewrite Pd. now apply Hf.
  - apply (failed_stmt_noop_fresh touched s Hf).
Qed.

Lemma fresh_reach : forall ops s, fresh s -> forallb (fun o => negb (is_ext o)) ops = true ->
  fresh (execs ops s).
Proof.
  induction ops as [|o r IH]; intros s Hf H; [exact Hf|].
  cbn in H. apply Bool.andb_true_iff in H as [Ho Hr]. apply Bool.negb_true_iff in Ho.
  cbn. apply IH; [now apply fresh_step | exact Hr].
Qed.

Lemma fresh_init : forall d0, fresh (init d0).
Proof. intros d0 p e H. discriminate. Qed.

(* with C01: a later COMMIT writes exactly what it would have written without the failed statement *)
Lemma hold_same : forall p x, sd (hold p x) = sd x /\ pend (hold p x) = pend x /\ pcre (hold p x) = pcre x.
Proof. intros. unfold hold. destruct (exists_now x p); auto. Qed.

Lemma fold_hold_same : forall l x,
  sd (fold_left (fun x' p => hold p x') l x) = sd x /\
  pend (fold_left (fun x' p => hold p x') l x) = pend x.
Proof.
  induction l as [|p r IH]; intros x; [auto|]. cbn. destruct (IH (hold p x)) as [H1 H2].
  destruct (hold_same p x) as (H3 & H4 & _). rewrite H1, H2. auto.
Qed.

Lemma commit_disk : forall s x, R s x -> forall p, disk (do_commit s) p = apply_pend (pend x) (sd x) p.
Proof.
  intros s x HR p. pose proof (R_commit _ _ HR) as HR'. rewrite (R_disk _ _ HR'). cbn. now rewrite memb_nil.
Qed.

Lemma failed_stmt_not_committed : forall d0 ops touched, ops_wf ops (init d0) ->
  let s := execs ops (init d0) in
  forall p, disk (exec SCommit (exec (SFail touched) s)) p = disk (exec SCommit s) p.
Proof.
  intros d0 ops touched Hwf s p. pose proof (R_reach d0 ops Hwf) as HR. fold s in HR.
  pose proof (R_step (SFail touched) _ _ HR I) as HR1. cbn [exec].
  rewrite (commit_disk _ _ HR1), (commit_disk _ _ HR). cbn [spec_step].
  destruct (fold_hold_same touched (spec_steps ops (sp_init d0))) as [H1 H2]. now rewrite H1, H2.
Qed.

Lemma execs_app : forall a b s, execs (a ++ b) s = execs b (execs a s).
Proof. intros. unfold execs. apply fold_left_app. Qed.

(* the same statement over histories: a table first loaded after `pre`, read again after `mid` *)
Lemma repeatable_read_history : forall d0 pre mid p e, ops_wf pre (init d0) ->
  cache (execs pre (init d0)) p = Some e -> no_end mid = true ->
  exists d, disk (execs pre (init d0)) p = Some d /\
            visible (execs (pre ++ mid) (init d0)) p = Some (track p (ce_tab e) (ce_fu e) d mid).
Proof.
  intros d0 pre mid p e Hwf Hc Hn. pose proof (R_reach d0 pre Hwf) as HR.
  destruct (disk (execs pre (init d0)) p) as [d|] eqn:Hd.
  - exists d. split; [reflexivity|]. rewrite execs_app. now apply repeatable_read.
  - exfalso. eapply (R_cache_disk _ _ HR); eauto.
Qed.
