(* C03: USING / NATURAL joins.  src_using is the join on the equality of the named columns followed by a
   row-wise merge: every row of that join, in order, becomes merge_row (one merged column per name, then the
   other columns of both operands); the number and the order of rows are those of the join. *)
From Coq Require Import ZArith List Bool Lia.
Require Import Csvq.Model.Base Csvq.Model.Value Csvq.Model.Compare Csvq.Model.Arith Csvq.Model.Expr Csvq.Model.Key
               Csvq.Model.SortVal Csvq.Model.Query Csvq.Model.Using.
Import ListNotations.
Local Open Scope nat_scope.

Lemma eval_col row i : i < length row -> eval row (ECol i) = Ok (nth i row VNull).
Proof.
  intros H. cbn [eval]. destruct (nth_error row i) as [v|] eqn:E.
  - rewrite (nth_error_nth row i VNull E). reflexivity.
  - apply nth_error_None in E. lia.
Qed.

Lemma is_op_null v : is_op v VNull = of_bool (is_null v).
Proof. reflexivity. Qed.

(* the merged column: the included side unless it is NULL *)
Lemma eval_merged_col k nl p row : fst (inc_alt k nl p) < length row -> snd (inc_alt k nl p) < length row ->
  eval row (merged_col k nl p) =
  Ok (let v := nth (fst (inc_alt k nl p)) row VNull in if is_null v then nth (snd (inc_alt k nl p)) row VNull else v).
Proof.
  intros Hi Ha. unfold merged_col. destruct (inc_alt k nl p) as [inc alt]. cbn [fst snd] in *.
  destruct (nth_error row inc) as [vi|] eqn:Ei; [|apply nth_error_None in Ei; lia].
  destruct (nth_error row alt) as [va|] eqn:Ea; [|apply nth_error_None in Ea; lia].
  rewrite (nth_error_nth row inc VNull Ei), (nth_error_nth row alt VNull Ea).
  cbn [eval]. rewrite Ei. cbn [bind]. rewrite is_op_null.
  destruct (is_null vi); cbn [of_bool ternary_of]; [rewrite Ea|]; reflexivity.
Qed.

Definition pairs_ok (nl nr : nat) (pairs : list (nat * nat)) : Prop :=
  Forall (fun p => fst p < nl /\ snd p < nr) pairs.

Lemma inc_alt_bound k nl nr p : fst p < nl -> snd p < nr ->
  fst (inc_alt k nl p) < nl + nr /\ snd (inc_alt k nl p) < nl + nr.
Proof. intros H1 H2. unfold inc_alt. destruct (is_right k); cbn [fst snd]; lia. Qed.

Lemma mapM_map_ok {A B} (f : A -> res B) (g : A -> B) l : (forall x, In x l -> f x = Ok (g x)) -> mapM f l = Ok (map g l).
Proof.
  induction l as [|x l IH]; intros H; [reflexivity|]. cbn [mapM map].
  rewrite (H x (or_introl eq_refl)). cbn [bind]. rewrite IH by (intros y Hy; apply H; right; exact Hy). reflexivity.
Qed.

Lemma mapM_app_ok {A B} (f : A -> res B) l1 l2 o1 o2 : mapM f l1 = Ok o1 -> mapM f l2 = Ok o2 -> mapM f (l1 ++ l2) = Ok (o1 ++ o2).
Proof.
  revert o1. induction l1 as [|x l1 IH]; intros o1 H1 H2; cbn [mapM app] in *.
  - inversion H1. exact H2.
  - destruct (f x) as [y|e]; cbn [bind] in *; [|discriminate].
    destruct (mapM f l1) as [ys|e]; cbn [bind] in *; [|discriminate].
    inversion H1. rewrite (IH ys eq_refl H2). reflexivity.
Qed.

(* one joined row of full width is turned into merge_row *)
Lemma eval_using_items strict k nl nr pairs row : pairs_ok nl nr pairs -> length row = nl + nr ->
  mapM (eval_item strict [row]) (using_items k nl nr pairs) = Ok (merge_row k nl nr pairs row).
Proof.
  intros Hp Hl. unfold using_items, merge_row. apply mapM_app_ok.
  - rewrite mapM_map_ok with (g := fun it => match it with SExpr e => match eval row e with Ok v => v | Err _ => VNull end | _ => VNull end).
    + f_equal. rewrite map_map. apply map_ext_in. intros p Hin.
      pose proof (proj1 (Forall_forall _ _) Hp p Hin) as [H1 H2].
      destruct (inc_alt_bound k nl nr p H1 H2) as [B1 B2].
      rewrite eval_merged_col by (rewrite Hl; assumption). destruct (inc_alt k nl p). reflexivity.
    + intros it Hit. apply in_map_iff in Hit. destruct Hit as (p & E & Hin). subst it. cbn [eval_item hd].
      pose proof (proj1 (Forall_forall _ _) Hp p Hin) as [H1 H2].
      destruct (inc_alt_bound k nl nr p H1 H2) as [B1 B2].
      rewrite eval_merged_col by (rewrite Hl; assumption). reflexivity.
  - rewrite mapM_map_ok with (g := fun it => match it with SExpr (ECol i) => nth i row VNull | _ => VNull end).
    + rewrite map_map. reflexivity.
    + intros it Hit. apply in_map_iff in Hit. destruct Hit as (i & E & Hi). subst it. cbn [eval_item hd].
      apply eval_col. unfold using_rest in Hi. apply filter_In in Hi. destruct Hi as [Hi _]. apply in_seq in Hi. lia.
Qed.

Lemma using_items_no_agg k nl nr pairs : existsb item_is_agg (using_items k nl nr pairs) = false.
Proof.
  unfold using_items. rewrite existsb_app.
  assert (A : forall (l : list expr), existsb item_is_agg (map SExpr l) = false).
  { induction l as [|e l IH]; [reflexivity|]. cbn. exact IH. }
  rewrite <- (map_map (merged_col k nl) SExpr), <- (map_map ECol SExpr), !A. reflexivity.
Qed.

Lemma eval_source_sub strict q : eval_source strict (SrcSub q) = eval_query strict q.
Proof. reflexivity. Qed.
Lemma eval_query_plain strict b : eval_query strict (Q b [] None None) = do rows <- eval_body strict b; Ok (map snd rows).
Proof.
  change (eval_query strict (Q b [] None None)) with (do rows <- eval_body strict b; apply_order_limit strict [] None None rows).
  destruct (eval_body strict b) as [rows|e]; [|reflexivity]. cbn [bind].
  unfold apply_order_limit. cbn [bind]. reflexivity.
Qed.
Lemma eval_body_projection strict src items : existsb item_is_agg items = false ->
  eval_body strict (BSelect src None None None items false) =
  do rows <- eval_source strict src;
  mapM (fun r0 => do o <- mapM (eval_item strict [r0]) items; Ok (r0, o)) rows.
Proof.
  intros H.
  change (eval_body strict (BSelect src None None None items false)) with
    (do rows <- eval_source strict src;
     do rows1 <- Ok rows;
     do outs <- (if existsb item_is_agg items then do o <- mapM (eval_item strict rows1) items; Ok [(hd [] rows1, o)]
                 else mapM (fun r0 => do o <- mapM (eval_item strict [r0]) items; Ok (r0, o)) rows1);
     Ok outs).
  destruct (eval_source strict src) as [rows|e]; [|reflexivity]. cbn [bind].
  rewrite H. destruct (mapM _ rows); reflexivity.
Qed.

(* USING: every row of the join on the equalities, in the join's order, merged; nothing else *)
Theorem using_join_spec strict k l r pairs rows :
  let nl := src_width l in let nr := src_width r in
  pairs_ok nl nr pairs ->
  eval_source strict (SrcJoin k l r (using_cond nl pairs)) = Ok rows ->
  Forall (fun row => length row = nl + nr) rows ->
  eval_source strict (src_using k l r pairs) = Ok (map (merge_row k nl nr pairs) rows).
Proof.
  intros nl nr Hp Hj Hw. unfold src_using. fold nl nr.
  rewrite eval_source_sub, eval_query_plain, (eval_body_projection strict _ _ (using_items_no_agg k nl nr pairs)).
  rewrite Hj. cbn [bind].
  assert (M : mapM (fun r0 => do o <- mapM (eval_item strict [r0]) (using_items k nl nr pairs); Ok (r0, o)) rows
              = Ok (map (fun r0 => (r0, merge_row k nl nr pairs r0)) rows)).
  { apply mapM_map_ok. intros r0 Hin. cbv beta. unfold row in *. rewrite (eval_using_items strict k nl nr pairs r0 Hp); [reflexivity|].
    exact (proj1 (Forall_forall _ _) Hw r0 Hin). }
  rewrite M. cbn [bind]. rewrite map_map. reflexivity.
Qed.
