(* C01 -- A transaction reaches the files all-or-nothing, according to how it ended.
   Statements only; every proof is `exact` of a lemma in Proofs/Txn.v.

   Model: Model/Txn.v -- the table cache (view, ForUpdate, opened-for-create), the uncommitted maps
   Created / Updated, temporary tables with restore points, COMMIT / ROLLBACK / ReleaseResources,
   the four ways a run ends.  A statement is an abstract effect ("the table now is t", "the
   statement failed after loading these tables"), observed on the implementation.
   Specification: Model/TxnSpec.v -- a pending-writes machine without cache or uncommitted maps.
   The correspondence check (Harness/H01.v, harness/c01.go) steps this model through library runs
   and compares Txn.run and TxnSpec.spec_disk with what the real csvq binary leaves behind. *)
Require Import Csvq.Model.Base Csvq.Model.Value Csvq.Model.Txn Csvq.Model.TxnSpec.
Require Import Csvq.Proofs.Txn.

(* ops_wf: a statement the processor does not mark (0 affected rows) left its table as it was --
   a fact about the statement layer, checked on every observed statement (check kind 8) *)

(* ---- the files after ANY procedure and ANY way of ending are those of the committed prefixes -- *)
Theorem C01_all_or_nothing : forall d0 ops m, ops_wf ops (init d0) ->
  forall p, disk (run d0 ops m) p = spec_disk d0 ops m p.
Proof. exact txn_all_or_nothing. Qed.
Print Assumptions C01_all_or_nothing.

(* read off the specification: an abnormal end (error, EXIT, interrupt) gives the files as at the
   most recent COMMIT; a normal end commits what is pending *)
Theorem C01_abnormal_end_is_last_commit : forall d0 ops, ops_wf ops (init d0) ->
  forall p, disk (run d0 ops Error) p = sd (spec_steps ops (sp_init d0)) p /\
            disk (run d0 ops Exit) p = sd (spec_steps ops (sp_init d0)) p /\
            disk (run d0 ops Interrupt) p = sd (spec_steps ops (sp_init d0)) p.
Proof. intros d0 ops H p. repeat split; rewrite (txn_all_or_nothing d0 ops _ H p); reflexivity. Qed.
Print Assumptions C01_abnormal_end_is_last_commit.

Theorem C01_normal_end_last_seen : forall d0 ops, ops_wf ops (init d0) ->
  let s := execs ops (init d0) in
  forall p e, cache s p = Some e -> ce_fu e = true ->
    option_map render_tab (disk (run d0 ops Normal) p) = Some (render_tab (ce_tab e)).
Proof. exact normal_end_last_seen. Qed.
Print Assumptions C01_normal_end_last_seen.

(* ---- what is written: exactly the files of the committed, marked statements -------------------- *)
Theorem C01_written_iff : forall d0 ops m, ops_wf ops (init d0) ->
  forall p, In p (wlog (run d0 ops m)) <-> In p (spec_written d0 ops m).
Proof. exact written_iff. Qed.
Print Assumptions C01_written_iff.

Theorem C01_untouched_files_not_written : forall d0 ops m, ops_wf ops (init d0) ->
  forall p, In p (wlog (run d0 ops m)) -> existsb (changes_marked p) ops = true.
Proof. exact untouched_files_not_written. Qed.
Print Assumptions C01_untouched_files_not_written.

(* ---- temporary tables; created files -------------------------------------------------------------- *)
Theorem C01_temps_restored : forall d0 ops m, ops_wf ops (init d0) ->
  forall n, tvisible (run d0 ops m) n = spec_temps d0 ops m n.
Proof. exact temps_restored. Qed.
Print Assumptions C01_temps_restored.

Theorem C01_created_since_commit_absent : forall d0 ops m, ops_wf ops (init d0) -> m <> Normal ->
  forall p, memb p (created (execs ops (init d0))) = true -> disk (run d0 ops m) p = None.
Proof. exact created_since_commit_absent. Qed.
Print Assumptions C01_created_since_commit_absent.

(* ---- the invariant: whatever differs from its file, and whatever was created, is registered ------- *)
Theorem C01_dirty_tracked : forall d0 ops, ops_wf ops (init d0) ->
  let s := execs ops (init d0) in
  forall p e, cache s p = Some e ->
    (ce_fu e = true -> disk s p <> Some (ce_tab e) -> marked s p = true) /\
    (ce_new e = true -> memb p (created s) = true) /\
    (marked s p = true -> ce_fu e = true).
Proof. exact dirty_tracked. Qed.
Print Assumptions C01_dirty_tracked.

(* ---- non-vacuity: a history with an unmarked statement, a created file, a temporary table, two
   commits and a rollback is well-formed, and ends as the theorems say ----------------------------- *)
Definition ex_t0 : tab := [[VInt 0]; [VInt 1]].
Definition ex_t1 : tab := [[VInt 0]; [VInt 1]; [VInt 2]].
Definition ex_t2 : tab := [[VInt 0]].
Definition ex_d0 : key -> option tab := fun k => if N.eqb k 0%N then Some (render_tab ex_t0) else None.
Definition ex_ops : list op :=
  [SRead 0%N; SChange 0%N true ex_t1; SChange 0%N false ex_t1; SCreate 1%N ex_t2; SDeclareTemp 0%N ex_t2;
   SChangeTemp 0%N true ex_t0; SCommit; SChange 0%N true ex_t2; SChange 1%N true ex_t1;
   SChangeTemp 0%N true ex_t1; SFail [0%N]].

Example C01_example_wf : ops_wf ex_ops (init ex_d0).
Proof. cbn. repeat split; auto. Qed.

Example C01_example_error : 
  disk (run ex_d0 ex_ops Error) 0%N = Some (render_tab ex_t1) /\
  disk (run ex_d0 ex_ops Error) 1%N = Some (render_tab ex_t2) /\
  tvisible (run ex_d0 ex_ops Error) 0%N = Some ex_t0 /\
  wlog (run ex_d0 ex_ops Error) = [1%N; 0%N].
Proof. vm_compute. repeat split; reflexivity. Qed.

Example C01_example_normal :
  disk (run ex_d0 ex_ops Normal) 0%N = Some (render_tab ex_t2) /\
  disk (run ex_d0 ex_ops Normal) 1%N = Some (render_tab ex_t1) /\
  tvisible (run ex_d0 ex_ops Normal) 0%N = Some ex_t1.
Proof. vm_compute. repeat split; reflexivity. Qed.

(* created and rolled back: the file is gone *)
Example C01_example_created_absent :
  disk (run ex_d0 [SCreate 1%N ex_t2; SChange 1%N true ex_t1] Exit) 1%N = None /\
  memb 1%N (created (execs [SCreate 1%N ex_t2; SChange 1%N true ex_t1] (init ex_d0))) = true.
Proof. vm_compute. split; reflexivity. Qed.

(* ---- FINDING: an interrupt that reaches a COMMIT ---------------------------------------------------
   The property wants: after an interrupt the files are as at the most recent COMMIT -- or, when
   the interrupt comes too late, fully committed.  The faithful model of a COMMIT under a cancelled
   context (Txn.run_cancelled_commit: encodeCSV stops at record 0 and returns nil) does neither. *)
Definition C01_interrupt_at_commit_all_or_nothing : Prop :=
  forall d0 ops, ops_wf ops (init d0) ->
    (forall p, disk (run_cancelled_commit d0 ops) p = spec_disk d0 ops Normal p) \/
    (forall p, disk (run_cancelled_commit d0 ops) p = spec_disk d0 ops Interrupt p).

Theorem C01_interrupt_at_commit_refuted : ~ C01_interrupt_at_commit_all_or_nothing.
Proof.
  intros H. destruct (H ex_d0 [SChange 0%N true ex_t1]) as [H0 | H0].
  - cbn. auto.
  - specialize (H0 0%N). vm_compute in H0. discriminate H0.
  - specialize (H0 0%N). vm_compute in H0. discriminate H0.
Qed.
Print Assumptions C01_interrupt_at_commit_refuted.

(* what remains true: an interrupt that is noticed before the COMMIT (the next statement's
   cancellation check, or a statement failing on it) leaves the files as at the last COMMIT *)
Theorem C01_interrupt_partial : forall d0 ops, ops_wf ops (init d0) ->
  forall p, disk (run d0 ops Interrupt) p = spec_disk d0 ops Interrupt p.
Proof. intros d0 ops H. exact (txn_all_or_nothing d0 ops Interrupt H). Qed.
Print Assumptions C01_interrupt_partial.
