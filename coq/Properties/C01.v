(* placeholder *)
Require Import Csvq.Model.Base.
