(* C02 -- What is written to a table file or result stream reads back as the same table
   (and C19's csv_load_rectangular / ltsv_load_rectangular, which are about the same reader models).
   Statements only; every proof is `exact` of a lemma in Proofs/{Csv,Ltsv,C02}.v.  The model these
   theorems speak about (Model/{Csv,Ltsv}.v: go-text's csv/ltsv writers and readers under csvq's
   encodeCSV/encodeLTSV and loadViewFromCSVFile/loadViewFromLTSVFile) is run against query.EncodeView and
   the CSV(...)/LTSV(...) table objects on every check (Harness/H02.v).

   The full statements (Proofs/C02.v):
     csv_roundtrip r    every well-shaped table written with any delimiter other than the double quote, CR,
                        LF, any line break, enclose-all, without-header, with/without the appended line
                        break loads back as expected_table (r = false: the writer as it is; r = true: the
                        variant in which encodeCSV also quotes texts containing CR/LF)
     csv_no_shift r     ... or the load fails: never a different table
     dialect_preserved  a file re-written at COMMIT is detected with the delimiter, encoding, header convention
                        and line break it had (when the file shows a line break at all)
     ltsv_roundtrip     the same for LTSV                                                              *)
From Coq Require Import NArith List Bool.
Require Import Csvq.Model.Base Csvq.Model.Csv Csvq.Model.Ltsv.
Require Import Csvq.Proofs.Csv Csvq.Proofs.Ltsv Csvq.Proofs.C02.
Import ListNotations.
Open Scope N_scope.

(* ================================================================ CSV / TSV round trip ======= *)
(* refuted on the code as it is: F-C02-1 (a text with CR/LF is written bare: x LF y | z is read as two
   records and refused), F-C02-3 (a one-column table with a NULL/empty cell loses the row -- for both
   writers), and CR directly before the end of input (what --line-break CR appends) is unreadable *)
Theorem C02_csv_roundtrip_refuted : ~ csv_roundtrip false.
Proof. exact csv_roundtrip_false_refuted. Qed.
Print Assumptions C02_csv_roundtrip_refuted.

Theorem C02_csv_roundtrip_single_column_refuted : forall repaired, ~ csv_roundtrip repaired.
Proof. exact csv_roundtrip_blank_refuted. Qed.

Theorem C02_csv_roundtrip_cr_tail_refuted : forall repaired, ~ csv_roundtrip repaired.
Proof. exact csv_roundtrip_cr_tail_refuted. Qed.

(* the strongest true restriction, for both writers: every record handed to go-text is `spellable`
   (not empty, not a single empty text, and every text that is written bare has no CR/LF) and the appended
   line break is not CR.  Conclusion: the exact table, the detected line break, for ALL tables/cell texts,
   delimiters, line breaks, enclose-all/without-header settings *)
Theorem C02_csv_roundtrip_partial :
  forall o tail hdr rows letter bytes,
    delim_ok (o_delim o) -> well_shaped hdr rows -> spellable o hdr rows = true -> tail <> Some LbCR ->
    csv_file o tail hdr rows = Some bytes ->
    csv_load (ropts_of o) letter bytes =
      inr (LD (expected_table o hdr rows) (detected_written o tail rows) (enclosed_all (o_delim o) letter bytes)).
Proof. exact csv_roundtrip_partial_lemma. Qed.
Print Assumptions C02_csv_roundtrip_partial.

(* the repaired writer needs no hypothesis on the cell texts any more: only blank records
   (one column, empty text) and the final CR remain, both limits of the dependency's reader *)
Theorem C02_csv_roundtrip_repaired :
  forall o tail hdr rows letter bytes,
    o_repaired o = true ->
    delim_ok (o_delim o) -> well_shaped hdr rows -> no_blank_records o hdr rows = true -> tail <> Some LbCR ->
    csv_file o tail hdr rows = Some bytes ->
    csv_load (ropts_of o) letter bytes =
      inr (LD (expected_table o hdr rows) (detected_written o tail rows) (enclosed_all (o_delim o) letter bytes)).
Proof. exact csv_roundtrip_repaired_lemma. Qed.
Print Assumptions C02_csv_roundtrip_repaired.

Theorem C02_multicolumn_never_blank :
  forall o hdr rows, well_shaped hdr rows -> (2 <= length hdr)%nat -> no_blank_records o hdr rows = true.
Proof. exact no_blank_multicolumn. Qed.

(* the hypotheses are satisfiable by a non-trivial table: quotes, delimiter, CR LF inside a quoted cell,
   NULL next to the empty text, leading/trailing blanks, TSV, enclose-all, CRLF *)
Example C02_partial_nonvacuous :
  let o := WO 9 LbCRLF false false false in
  let hdr := [[97]; [98; 34; 99]] in
  let rows := [[CText [32; 120; 9; 13; 10; 121; 32]; CNull]; [CText []; CPlain [52; 50]]] in
  spellable o hdr rows = true /\
  csv_file o (Some LbCRLF) hdr rows =
    Some [97; 9; 34; 98; 34; 34; 99; 34; 13; 10;   34; 32; 120; 9; 13; 10; 121; 32; 34; 9; 13; 10;   9; 52; 50; 13; 10] /\
  expected_table o hdr rows = TB hdr [[Some [32; 120; 9; 13; 10; 121; 32]; None]; [None; Some [52; 50]]].
Proof. vm_compute. repeat split. Qed.

Example C02_repaired_nonvacuous :
  let o := WO 44 LbLF true false true in
  no_blank_records o [[97]] [[CText [120; 10; 121]]; [CText [122]]] = true /\
  csv_file o None [[97]] [[CText [120; 10; 121]]; [CText [122]]] = Some [34; 97; 34; 10; 34; 120; 10; 121; 34; 10; 34; 122; 34].
Proof. vm_compute. split; reflexivity. Qed.

(* ================================================================ no shift ==================== *)
Theorem C02_csv_no_shift_refuted : ~ csv_no_shift false.
Proof. exact csv_no_shift_false_refuted. Qed.
Print Assumptions C02_csv_no_shift_refuted.

Theorem C02_csv_no_shift_single_column_refuted : forall repaired, ~ csv_no_shift repaired.
Proof. exact csv_no_shift_blank_refuted. Qed.

(* with the repaired writer and at least two columns the statement holds outright: the load is the
   expected table or (only when CR was appended) an error *)
Theorem C02_csv_no_shift_repaired_multicolumn :
  forall delim lb enclose noheader tail hdr rows letter bytes,
    let o := WO delim lb enclose noheader true in
    delim_ok delim -> well_shaped hdr rows -> (2 <= length hdr)%nat ->
    csv_file o tail hdr rows = Some bytes ->
    match csv_load (ropts_of o) letter bytes with
    | inl _ => True
    | inr l => l_table l = expected_table o hdr rows
    end.
Proof. exact csv_no_shift_repaired_multicolumn_lemma. Qed.
Print Assumptions C02_csv_no_shift_repaired_multicolumn.

(* for the code as it is: damage never travels backwards.  Whatever text follows well-spelled records
   (each ended by the line break) -- for instance a record with an unspellable cell -- the reader
   returns exactly these records first, or fails *)
Theorem C02_csv_no_shift_partial :
  forall delim lb (good : list (list wfield)) rest recs' dt,
    delim_ok delim -> forallb (good_record delim) good = true ->
    tokenize delim (wterminated delim lb good ++ rest) = inr (recs', dt) ->
    map (map (field_value false)) (firstn (length good) recs') = map (map (readback delim)) good.
Proof. exact csv_no_shift_prefix_lemma. Qed.
Print Assumptions C02_csv_no_shift_partial.

(* ================================================================ rectangular loads (C19) ===== *)
(* for EVERY input text, every delimiter and every combination of no-header / without-null /
   allow-uneven-fields, and every reading of unicode.IsLetter: an error, or a table all of whose
   records have the header's length *)
Theorem C19_csv_load_rectangular :
  forall o letter inp l, csv_load o letter inp = inr l -> rectangular_table (l_table l).
Proof. exact csv_load_rect. Qed.
Print Assumptions C19_csv_load_rectangular.

Theorem C19_ltsv_load_rectangular :
  forall wn inp l, ltsv_load wn inp = inr l -> rectangular_table (l_table l).
Proof. exact ltsv_load_rect. Qed.
Print Assumptions C19_ltsv_load_rectangular.

(* both outcomes occur, also with uneven records *)
Example C19_rectangular_nonvacuous :
  (exists l, csv_load (RO 44 false false true) (fun _ => false) [97; 10; 49; 44; 50; 44; 51; 10; 52] = inr l /\
             l_table l = TB [[97]; [95; 95; 64; 50; 95; 95]; [95; 95; 64; 51; 95; 95]]
                            [[Some [49]; Some [50]; Some [51]]; [Some [52]; None; None]]) /\
  csv_load (RO 44 false false false) (fun _ => false) [97; 10; 49; 44; 50] = inl EFieldCount.
Proof. split; [eexists; split; vm_compute; reflexivity | vm_compute; reflexivity]. Qed.

(* ================================================================ dialect ===================== *)
(* COMMIT appends the file's own line break (ec68d2d): a re-written file is detected with the delimiter,
   encoding, header convention and line break it had -- whenever the convention is observable (the file
   contains a line break, or the session's default is the file's) *)
Theorem C02_dialect_preserved : dialect_preserved.
Proof. exact dialect_preserved_lemma. Qed.
Print Assumptions C02_dialect_preserved.

(* the code before ec68d2d (the session's line break appended) did not have the property: a CRLF file left
   with one line and re-written under --line-break LF was an LF file afterwards *)
Theorem C02_dialect_session_tail_refuted : ~ dialect_preserved_for tail_of_session.
Proof. exact dialect_session_tail_refuted. Qed.
Print Assumptions C02_dialect_session_tail_refuted.

(* the observability hypothesis is satisfiable and needed *)
Example C02_dialect_unobservable :
  let o := WO 44 LbCRLF false false false in
  exists l, csv_file o (ending_line_break true (tail_of_file o LbLF)) [[97]; [98]] [] = Some [97; 44; 98] /\
            csv_load (ropts_of o) (fun _ => false) [97; 44; 98] = inr l /\
            ~ same_dialect o 0 (dialect_after o LbLF 0 false l).
Proof. exact dialect_unobservable_example. Qed.

(* ================================================================ LTSV ======================== *)
(* refuted: F-C02-2 (every colon of a value after the first is dropped by the reader: 12:30 -> 1230), and
   one-column tables come back empty (a line with one field is skipped like a blank line) *)
Theorem C02_ltsv_roundtrip_refuted : ~ ltsv_roundtrip.
Proof. exact ltsv_roundtrip_refuted. Qed.
Print Assumptions C02_ltsv_roundtrip_refuted.

Theorem C02_ltsv_roundtrip_single_column_refuted : ~ ltsv_roundtrip.
Proof. exact ltsv_single_column_refuted. Qed.

Theorem C02_ltsv_roundtrip_partial :
  forall lb tail hdr rows bytes,
    NoDup hdr -> (2 <= length hdr)%nat -> Forall (fun r : list cell => length r = length hdr) rows ->
    no_colon rows = true -> tail <> Some LbCR ->
    ltsv_file lb tail hdr rows = inr bytes ->
    ltsv_load false bytes = inr (LD (ltsv_expected hdr rows) (det_file lb (length rows - 1) tail) false).
Proof. exact ltsv_roundtrip_partial_lemma. Qed.
Print Assumptions C02_ltsv_roundtrip_partial.

(* a value containing TAB, CR or LF, or a label outside [0-9A-Za-z_.-], is refused: the result carries
   no byte at all *)
Theorem C02_ltsv_refuses :
  forall lb tail hdr rows,
    has_separator rows = true \/ forallb (forallb label_ok) hdr = false ->
    exists e, ltsv_file lb tail hdr rows = inl e.
Proof. exact ltsv_refuses_lemma. Qed.
Print Assumptions C02_ltsv_refuses.

Example C02_ltsv_nonvacuous :
  ltsv_file LbLF (Some LbLF) [[107; 49]; [107; 50]] [[CText [120; 32; 34]; CNull]; [CPlain [55]; CText [233]]]
    = inr [107; 49; 58; 120; 32; 34; 9; 107; 50; 58; 10; 107; 49; 58; 55; 9; 107; 50; 58; 233; 10] /\
  no_colon [[CText [120; 32; 34]; CNull]; [CPlain [55]; CText [233]]] = true /\
  ltsv_file LbLF None [[107; 49]; [107; 50]] [[CText [120; 9]; CNull]] = inl LBadValue /\
  ltsv_file LbLF None [[107; 32]; [107; 50]] [[CText [120]; CNull]] = inl LBadLabel.
Proof. vm_compute. repeat split. Qed.
