(* C03 -- SELECT filters, projects and joins exactly as relational semantics prescribe.
   Statements only.  Model: Model/Query.v, run against parser.Parse + query.Select on every check. *)
From Coq Require Import ZArith List Bool Floats.
Require Import Csvq.Model.Base Csvq.Model.Value Csvq.Model.Expr Csvq.Model.Query.
Require Import Csvq.Proofs.Key Csvq.Proofs.Query.
Import ListNotations.

(* WHERE: a row is kept iff its condition is TRUE; the result is the order-preserving sublist, so
   multiplicities are kept and a single source keeps its row order *)
Theorem C03_where_keeps_exactly_true_rows : forall cond rows out,
  filter_rows cond rows = Ok out ->
  exists v, (forall r, In r rows -> eval r cond = Ok (v r)) /\ out = filter (fun r => is_true (v r)) rows.
Proof. exact filter_rows_ok_inv. Qed.
Print Assumptions C03_where_keeps_exactly_true_rows.

Theorem C03_where_error_is_total : forall cond rows r e,
  In r rows -> eval r cond = Err e -> exists e', filter_rows cond rows = Err e'.
Proof. exact filter_rows_error. Qed.

(* the whole statement SELECT e1, .., en FROM src [WHERE c] (no grouping, ordering, limit): the rows of the source
   (a table, a derived table, a CTE, any tree of joins), filtered by the condition, each replaced by the values of
   the select list - in the order of the source, nothing added, nothing dropped, an error anywhere is the error
   of the statement.  With one table as the source this is "a query over a single source keeps that source's
   row order". *)
Theorem C03_select_is_source_then_filter_then_projection : forall strict src wh es,
  eval_query strict (Q (BSelect src wh None None (map SExpr es) false) [] None None) =
  (do rows <- eval_source strict src;
   do kept <- (match wh with None => Ok rows | Some c => filter_rows c rows end);
   mapM (fun r => mapM (eval r) es) kept).
Proof. exact select_pipeline. Qed.
Print Assumptions C03_select_is_source_then_filter_then_projection.

(* the five join kinds equal their definitions as list comprehensions (whenever the ON condition
   evaluates on every pair): INNER = all pairs with a TRUE condition; LEFT / RIGHT = those, and each
   row without partner once, padded with NULLs; FULL = LEFT plus the unmatched right rows *)
Theorem C03_joins_equal_their_definition : forall (p : row -> bool) cond (v : row -> val),
  (forall x, p x = is_true (v x)) ->
  forall k lw rw ls rs,
  (forall l r, In l ls -> In r rs -> eval (l ++ r) cond = Ok (v (l ++ r))) ->
  join_rows k (Some cond) lw rw ls rs =
  Ok (match k with
      | JCross => flat_map (fun l => map (app l) rs) ls
      | JInner => inner_spec p ls rs
      | JLeft => left_spec p rw ls rs
      | JRight => right_spec p lw ls rs
      | JFull => full_spec p lw rw ls rs
      end).
Proof. intros p cond v Hp k lw rw ls rs H. exact (join_rows_spec p cond v Hp k lw rw ls rs H). Qed.
Print Assumptions C03_joins_equal_their_definition.

Theorem C03_inner_join_rows : forall p x ls rs,
  In x (inner_spec p ls rs) <-> exists l r, In l ls /\ In r rs /\ p (l ++ r) = true /\ x = l ++ r.
Proof. exact in_inner_spec. Qed.

(* outer joins pad exactly the unmatched rows with NULLs, and nothing else is added *)
Theorem C03_left_join_rows : forall p x rw ls rs,
  In x (left_spec p rw ls rs) <->
  In x (inner_spec p ls rs) \/ exists l, In l ls /\ (forall r, In r rs -> p (l ++ r) = false) /\ x = l ++ nulls rw.
Proof. exact in_left_spec. Qed.

Theorem C03_unmatched_left_row_padded_once : forall p rw l rs,
  (forall r, In r rs -> p (l ++ r) = false) -> left_spec p rw [l] rs = [l ++ nulls rw].
Proof. exact left_spec_pads_once. Qed.

Theorem C03_full_join_adds_unmatched_right_rows : forall p x lw ls rs,
  In x (unmatched_spec p lw ls rs) <-> exists r, In r rs /\ (forall l, In l ls -> p (l ++ r) = false) /\ x = nulls lw ++ r.
Proof. exact in_unmatched_spec. Qed.

(* a join is compositional in its left input: evaluating it per contiguous range of left rows and
   concatenating in range order gives the same rows (this is what the worker goroutines do) *)
Theorem C03_join_by_ranges : forall p rw a b rs,
  inner_spec p (a ++ b) rs = inner_spec p a rs ++ inner_spec p b rs /\
  left_spec p rw (a ++ b) rs = left_spec p rw a rs ++ left_spec p rw b rs.
Proof. intros. split; [apply inner_spec_app | apply left_spec_app]. Qed.
Print Assumptions C03_join_by_ranges.

Example C03_left_join_example :
  join_rows JLeft (Some (ECmp Compare.OpEq (ECol 0) (ECol 1))) 1 1 [[VInt 1]; [VInt 2]] [[VInt 2]; [VInt 2]]
  = Ok [[VInt 1; VNull]; [VInt 2; VInt 2]; [VInt 2; VInt 2]].
Proof. vm_compute. reflexivity. Qed.

(* ---- USING / NATURAL joins ------------------------------------------------------------------------------ *)
(* src_using (Model/Using.v) states the documented meaning inside the model: the join on the equality of the
   named columns, then, row by row and in the join's order, one merged column per name (the left operand's
   value - the right operand's for RIGHT joins - or the other side's where that is NULL) followed by all
   other columns of both operands.  Number and order of the rows are those of the join, to which the
   join theorems above apply. *)
Require Import Csvq.Model.Using Csvq.Proofs.Using.
Theorem C03_using_join_merges_the_named_columns_once : forall strict k l r pairs rows,
  let nl := src_width l in let nr := src_width r in
  pairs_ok nl nr pairs ->
  eval_source strict (SrcJoin k l r (using_cond nl pairs)) = Ok rows ->
  Forall (fun row => length row = (nl + nr)%nat) rows ->
  eval_source strict (src_using k l r pairs) = Ok (map (merge_row k nl nr pairs) rows).
Proof. exact using_join_spec. Qed.
Print Assumptions C03_using_join_merges_the_named_columns_once.

Example C03_using_example :
  eval_source false (src_using JLeft (SrcTable 2 [[VInt 1; VInt 10]; [VNull; VInt 20]])
                                     (SrcTable 2 [[VInt 1; VInt 7]]) [(0, 0)%nat])
  = Ok [[VInt 1; VInt 10; VInt 7]; [VNull; VInt 20; VNull]].
Proof. vm_compute. reflexivity. Qed.

(* ---- LATERAL joins -------------------------------------------------------------------------------------- *)
(* The derived table of a LATERAL join may refer to the columns of the left operand: it is a function `sub`
   of the left row.  The rows of the join are, per left row and in the order of the left rows, the
   CROSS / INNER / LEFT join of that single row with the derived table evaluated for it - so every theorem
   about the join kinds above applies row by row - and nothing else; RIGHT and FULL are rejected. *)
Require Import Csvq.Proofs.Lateral.
Theorem C03_lateral_join_rows : forall strict k l rw sub cond out,
  eval_source strict (SrcLateral k l rw sub cond) = Ok out <->
  lateral_kind k = true /\
  exists ls parts,
    eval_source strict l = Ok ls /\
    Forall2 (fun o part => exists rs, eval_query strict (sub o) = Ok rs /\
                                      join_rows k cond (src_width l) rw [o] rs = Ok part) ls parts /\
    out = concat parts.
Proof. exact lateral_source_spec. Qed.
Print Assumptions C03_lateral_join_rows.

(* a derived table that does not use the left row: LATERAL is the ordinary join *)
Theorem C03_lateral_without_reference_is_the_plain_join : forall k cond lw rw rs ls,
  lateral_kind k = true ->
  lateral_rows k cond lw rw (fun _ => Ok rs) ls = join_rows k cond lw rw ls rs.
Proof. exact lateral_rows_const. Qed.

Theorem C03_lateral_error_is_total : forall k cond lw rw sub ls l e,
  In l ls -> sub l = Err e -> exists e', lateral_rows k cond lw rw sub ls = Err e'.
Proof. exact lateral_rows_error. Qed.

Theorem C03_lateral_right_full_rejected : forall strict k l rw sub cond,
  lateral_kind k = false -> forall out, eval_source strict (SrcLateral k l rw sub cond) <> Ok out.
Proof. exact lateral_right_full_rejected. Qed.

Example C03_lateral_example :
  eval_source false
    (SrcLateral JLeft (SrcTable 1 [[VInt 1]; [VInt 2]; [VInt 3]]) 1
       (fun o => Q (BSelect (SrcJoin JCross (SrcTable 1 [o]) (SrcTable 1 [[VInt 2]; [VInt 3]; [VInt 3]]) None)
                            (Some (ECmp Compare.OpEq (ECol 0) (ECol 1))) None None [SExpr (ECol 1)] false) [] None None)
       None)
  = Ok [[VInt 1; VNull]; [VInt 2; VInt 2]; [VInt 3; VInt 3]; [VInt 3; VInt 3]].
Proof. vm_compute. reflexivity. Qed.

(* ---- recursive common table expressions ------------------------------------------------------------------ *)
(* WITH RECURSIVE t AS (base UNION [ALL] step): `step` is the recursive query as a function of the rows the
   temporary view holds.  The result is the base rows followed by the rows of every iteration - each computed
   from the rows of the iteration before, up to the first empty one - combined by UNION ALL (everything, in
   that order) or UNION (the first row of every key); more iterations than --limit-recursion allows are an
   error, never a shortened result. *)
Theorem C03_recursive_cte_rows : forall strict all w base step limit out,
  eval_source strict (SrcRec all w base step limit) = Ok out <->
  exists b ws,
    eval_query strict base = Ok b /\
    chain (fun work => eval_query strict (step work)) b ws /\
    (length ws < limit)%nat /\
    out = combine_rows strict all (b ++ concat ws).
Proof. exact rec_source_spec. Qed.
Print Assumptions C03_recursive_cte_rows.

Theorem C03_recursive_cte_iterations_are_determined : forall step w ws1 ws2,
  chain step w ws1 -> chain step w ws2 -> ws1 = ws2.
Proof. intros step w ws1 ws2 H1 H2. exact (chain_functional step w ws1 H1 ws2 H2). Qed.

Theorem C03_recursive_cte_limit_is_an_error : forall strict all step fuel acc work ws,
  chain step work ws -> (fuel <= length ws)%nat -> rec_loop strict all step fuel acc work = Err (EOther 97).
Proof. exact rec_loop_limit. Qed.

Theorem C03_recursive_union_keeps_one_row_per_key : forall strict l,
  ForallOrdPairs (fun a b => Key.keys_eqb (Key.row_key strict a) (Key.row_key strict b) = false) (combine_rows strict false l) /\
  (forall x, In x (combine_rows strict false l) -> In x l) /\
  (forall x, In x l -> exists y, In y (combine_rows strict false l) /\ Key.keys_eqb (Key.row_key strict x) (Key.row_key strict y) = true).
Proof. exact rec_union_has_one_row_per_key. Qed.
Print Assumptions C03_recursive_union_keeps_one_row_per_key.

Theorem C03_recursive_union_all_keeps_everything : forall strict l, combine_rows strict true l = l.
Proof. reflexivity. Qed.

(* 1, 2, 3 by UNION ALL; the duplicates of the base query disappear under UNION also when the first
   iteration is already empty *)
Example C03_recursive_example :
  eval_source false
    (SrcRec true 1 (Q (BSelect (SrcTable 1 [[VInt 1]]) None None None [SExpr (ECol 0)] false) [] None None)
       (fun work => Q (BSelect (SrcTable 1 work) (Some (ECmp Compare.OpLt (ECol 0) (ELit (VInt 3)))) None None
                               [SExpr (EArith Arith.APlus (ECol 0) (ELit (VInt 1)))] false) [] None None) 10)
  = Ok [[VInt 1]; [VInt 2]; [VInt 3]] /\
  eval_source false
    (SrcRec false 1 (Q (BSelect (SrcTable 1 [[VInt 1]; [VInt 1]; [VInt 2]]) None None None [SExpr (ECol 0)] false) [] None None)
       (fun work => Q (BSelect (SrcTable 1 work) (Some (ELit (VTern TF))) None None [SExpr (ECol 0)] false) [] None None) 10)
  = Ok [[VInt 1]; [VInt 2]].
Proof. vm_compute. split; reflexivity. Qed.

(* the same as a relational statement: an INNER / LEFT JOIN LATERAL holds exactly the pairs of a left row and a
   row of the derived table evaluated for that left row on which the ON condition is TRUE, and (LEFT) every left
   row without such a partner, padded with NULLs *)
Theorem C03_lateral_join_membership : forall (p : row -> bool) cond (v : row -> val),
  (forall x, p x = is_true (v x)) ->
  forall k lw rw (sub : row -> res (list row)) ls out,
  k = JInner \/ k = JLeft ->
  (forall l rs r, In l ls -> sub l = Ok rs -> In r rs -> eval (l ++ r) cond = Ok (v (l ++ r))) ->
  lateral_rows k (Some cond) lw rw sub ls = Ok out ->
  forall x, In x out <->
    (exists l rs r, In l ls /\ sub l = Ok rs /\ In r rs /\ p (l ++ r) = true /\ x = l ++ r) \/
    (k = JLeft /\ exists l rs, In l ls /\ sub l = Ok rs /\ (forall r, In r rs -> p (l ++ r) = false) /\ x = l ++ nulls rw).
Proof. exact lateral_rows_membership. Qed.
Print Assumptions C03_lateral_join_membership.

(* ---- sub-queries inside expressions ------------------------------------------------------------------------ *)
(* Sub-queries are not expressions of the model.  The harness states [NOT] EXISTS (..), x [NOT] IN (SELECT ..) in a
   WHERE clause and an aggregate sub-query in a select list through the LATERAL join: the sub-query, evaluated for
   every row o of the source, returns one row holding a count n(o) (of its rows / of its rows that compare TRUE /
   not FALSE with x) resp. the aggregate's value, and is joined on "count > 0" / "count = 0" / not at all.  What
   that form means is proved here: exactly the rows with a positive (zero) count survive, in order; a one-value
   sub-query adds its value to every row. *)
Require Import Csvq.Proofs.Subq.
Theorem C03_exists_and_in_subqueries_as_lateral_counts : forall (positive : bool) (n : row -> Z) lw (ls : list row),
  Forall (fun o => length o = lw) ls ->
  lateral_rows JInner (Some (ECmp (if positive then Compare.OpGt else Compare.OpEq) (ECol lw) (ELit (VInt 0)))) lw 1
               (fun o => Ok [[VInt (n o)]]) ls
  = Ok (map (fun o => o ++ [VInt (n o)])
            (filter (fun o => if positive then (0 <? n o)%Z else (n o =? 0)%Z) ls)).
Proof. exact lateral_count_filter. Qed.
Print Assumptions C03_exists_and_in_subqueries_as_lateral_counts.

Theorem C03_scalar_subquery_as_lateral_column : forall (f : row -> val) lw (ls : list row),
  lateral_rows JCross None lw 1 (fun o => Ok [[f o]]) ls = Ok (map (fun o => o ++ [f o]) ls).
Proof. exact lateral_scalar_column. Qed.
