(* C04 -- DISTINCT, GROUP BY, set operators and aggregates bucket rows by value equality.
   Statements only.  Model: Model/Key.v (normal forms, the key codec of utils.go after the escaping
   repair, buckets) and Model/Query.v (GROUP BY / aggregates / DISTINCT / set operators), both run
   against query.SerializeComparisonKeys and parser.Parse + query.Select on every check. *)
From Coq Require Import ZArith NArith List Bool Floats Permutation.
Require Import Csvq.Model.Base Csvq.Model.Value Csvq.Model.Key Csvq.Model.Query.
Require Import Csvq.Proofs.FloatFacts Csvq.Proofs.Key Csvq.Proofs.Query.
Import ListNotations.

(* the serialized key is injective on tuples of equal length: two rows get the same key string iff
   they are equal column by column in normal form -- for every formatting function of floats that
   avoids ':' and '\' and is injective up to the identification of NaNs (strconv.FormatFloat: trusted) *)
Theorem C04_key_injective :
  forall ffmt : float -> str,
  (forall f, safe (ffmt f) = true) ->
  (forall f g, ffmt f = ffmt g <-> float_same f g = true) ->
  forall a b, length a = length b -> (ser_keys ffmt a = ser_keys ffmt b <-> keys_eqb a b = true).
Proof. exact key_injective. Qed.
Print Assumptions C04_key_injective.

(* the codec as it was before the repair (no escaping of the separator) is NOT injective: F-C04-1 *)
Theorem C04_unescaped_codec_refuted :
  exists a b, length a = length b /\ ser_keys_raw a = ser_keys_raw b /\ keys_eqb a b = false.
Proof. exact raw_codec_collides. Qed.

(* equality of normal forms is an equivalence relation *)
Theorem C04_key_equality_is_equivalence :
  (forall k, keys_eqb k k = true) /\ (forall a b, keys_eqb a b = keys_eqb b a) /\
  (forall a b c, keys_eqb a b = true -> keys_eqb b c = true -> keys_eqb a c = true).
Proof. split; [exact keys_eqb_refl | split; [exact keys_eqb_sym | exact keys_eqb_trans]]. Qed.
Print Assumptions C04_key_equality_is_equivalence.

(* GROUP BY: the buckets are a partition of the rows, none is empty *)
Theorem C04_group_partition : forall l : list (nat * list kform),
  Permutation (concat (group l)) (map fst l) /\ (forall b, In b (group l) -> b <> []).
Proof. intros l. split; [apply group_partition | apply group_no_empty_bucket]. Qed.
Print Assumptions C04_group_partition.

(* two rows share a bucket iff their keys are equal: no two different rows share a bucket and no
   bucket is split *)
Theorem C04_same_bucket_iff : forall (l : list (nat * list kform)) i k j k',
  NoDup (map fst l) -> In (i, k) l -> In (j, k') l ->
  ((exists b, In b (group l) /\ In i b /\ In j b) <-> keys_eqb k k' = true).
Proof. exact same_bucket_iff. Qed.
Print Assumptions C04_same_bucket_iff.

(* the same for the rows of a query: the groups GROUP BY hands to the aggregates are a partition
   of the filtered rows -- every aggregate is computed over exactly the rows of its bucket *)
Theorem C04_group_rows_partition : forall strict keys rows gs,
  group_rows strict keys rows = Ok gs -> Permutation (concat gs) rows.
Proof. exact group_rows_partition. Qed.
Print Assumptions C04_group_rows_partition.

(* DISTINCT / UNION keep exactly one row of every bucket *)
Theorem C04_distinct_spec : forall ks : list (list kform),
  ForallOrdPairs (fun a b => keys_eqb a b = false) (map snd (dist (indexed ks) [])) /\
  (forall j k, In (j, k) (indexed ks) -> exists r, In r (dist (indexed ks) []) /\ keys_eqb k (snd r) = true) /\
  (forall r, In r (dist (indexed ks) []) -> In r (indexed ks)).
Proof. exact distinct_spec. Qed.
Print Assumptions C04_distinct_spec.

(* EXCEPT / INTERSECT [ALL]: a left row is kept only if its key is absent from / present in the right
   side; with ALL every such row is kept, without ALL one row per key *)
Theorem C04_setop_spec : forall kr all l rk acc,
  (forall i, In i (Key.setop kr all l rk acc) -> exists k, In (i, k) l /\ seen k rk = kr /\ (all = false -> seen k acc = false)) /\
  (forall i k, In (i, k) l -> seen k rk = kr -> In i (Key.setop kr true l rk acc)) /\
  (forall i k, In (i, k) l -> seen k rk = kr ->
     seen k acc = true \/ exists j k', In (j, k') l /\ In j (Key.setop kr false l rk acc) /\ keys_eqb k k' = true).
Proof.
  intros kr all l rk acc. split; [apply setop_sound | split; [apply setop_complete_all | apply setop_complete_distinct]].
Qed.
Print Assumptions C04_setop_spec.

(* non-vacuity: the witnesses of the repaired defect now get different keys, values equal across
   types share a bucket, and NULL and UNKNOWN go together *)
Example C04_examples :
  let s1 := mkS [120;58;91;83;93;121]%N [120;58;91;83;93;121]%N [88;58;91;83;93;89]%N None None None None in
  let s2 := mkS [122]%N [122]%N [90]%N None None None None in
  let s3 := mkS [120]%N [120]%N [88]%N None None None None in
  let s4 := mkS [121;58;91;83;93;122]%N [121;58;91;83;93;122]%N [89;58;91;83;93;90]%N None None None None in
  keys_eqb (row_key false [VStr s1; VStr s2]) (row_key false [VStr s3; VStr s4]) = false /\
  str_eqb (ser_keys (fun _ => []) (row_key false [VStr s1; VStr s2])) (ser_keys (fun _ => []) (row_key false [VStr s3; VStr s4])) = false /\
  keys_eqb (row_key false [VInt 1]) (row_key false [VBool true]) = true /\
  keys_eqb (row_key true [VInt 1]) (row_key true [VBool true]) = false /\
  keys_eqb (row_key false [VNull]) (row_key false [VTern TU]) = true /\
  group_keys [[KInt 1]; [KInt 2]; [KInt 1]; [KNull]] = [[0; 2]; [1]; [3]]%nat.
Proof. vm_compute. repeat split. Qed.

(* the rows handed to the aggregates of a bucket - whatever the aggregate: COUNT .. MAX, MEDIAN, STDEV / VAR, LISTAGG,
   JSON_AGG, a user-defined one - are the rows at the positions of that bucket, in row order; the positions are
   what the correspondence observes through LISTAGG of a row number *)
Theorem C04_aggregates_get_the_rows_of_their_bucket : forall strict keys rows,
  group_rows strict keys rows = (do idx <- bucket_idx strict keys rows; Ok (map (pick rows) idx)).
Proof. exact group_rows_by_positions. Qed.
Print Assumptions C04_aggregates_get_the_rows_of_their_bucket.

(* the whole statement SELECT items FROM src [WHERE c] GROUP BY keys: the rows of the source, filtered, split into
   the buckets of the keys (theorems above), and one output row per bucket, in the order of the buckets, whose
   items - key columns and aggregates of any kind - are evaluated over exactly the rows of that bucket *)
Theorem C04_group_by_is_source_filter_buckets_items : forall strict src wh keys items,
  eval_query strict (Q (BSelect src wh (Some keys) None items false) [] None None) =
  (do rows <- eval_source strict src;
   do kept <- (match wh with None => Ok rows | Some c => filter_rows c rows end);
   do gs <- group_rows strict keys kept;
   mapM (fun g => mapM (eval_item strict g) items) gs).
Proof. exact group_by_pipeline. Qed.
Print Assumptions C04_group_by_is_source_filter_buckets_items.

(* HAVING: the statement SELECT items FROM src [WHERE c] GROUP BY keys HAVING h is the GROUP BY statement with the
   buckets on which h - over the aggregates and key columns of the bucket itself - is not TRUE taken out; the
   remaining buckets keep their order and their rows *)
Require Import Csvq.Proofs.Lateral Csvq.Proofs.Having.
Require Import Csvq.Model.Expr.
Theorem C04_having_is_group_by_then_filter_of_buckets : forall strict src wh keys his h items,
  eval_query strict (Q (BSelect src wh (Some keys) (Some (his, h)) items false) [] None None) =
  (do rows <- eval_source strict src;
   do kept <- (match wh with None => Ok rows | Some c => filter_rows c rows end);
   do gs <- group_rows strict keys kept;
   do gs1 <- filter_groups strict his h gs;
   mapM (fun g => mapM (eval_item strict g) items) gs1).
Proof. exact having_pipeline. Qed.
Print Assumptions C04_having_is_group_by_then_filter_of_buckets.

(* ... and "taken out" is the order-preserving filter by the value of h on the bucket; there is a result exactly
   when h has a value on every bucket (an error on any bucket is an error of the statement, never a partial result) *)
Theorem C04_having_keeps_exactly_the_true_buckets : forall strict his h gs out,
  filter_groups strict his h gs = Ok out <->
  exists v, (forall g, In g gs -> having_value strict his h g = Ok (v g)) /\ out = filter (fun g => is_true (v g)) gs.
Proof. exact filter_groups_ok_iff. Qed.
Print Assumptions C04_having_keeps_exactly_the_true_buckets.

Theorem C04_having_membership : forall strict his h gs out g,
  filter_groups strict his h gs = Ok out ->
  (In g out <-> In g gs /\ exists x, having_value strict his h g = Ok x /\ is_true x = true).
Proof. exact filter_groups_membership. Qed.
Print Assumptions C04_having_membership.

Theorem C04_having_true_everywhere_is_group_by : forall strict his h gs,
  (forall g, In g gs -> exists x, having_value strict his h g = Ok x /\ is_true x = true) ->
  filter_groups strict his h gs = Ok gs.
Proof. exact filter_groups_all_true. Qed.
Print Assumptions C04_having_true_everywhere_is_group_by.

(* SELECT DISTINCT .. GROUP BY .. HAVING: DISTINCT is applied to the rows that HAVING left *)
Theorem C04_distinct_after_having : forall strict src wh keys his h items,
  eval_query strict (Q (BSelect src wh (Some keys) (Some (his, h)) items true) [] None None) =
  (do rows <- eval_query strict (Q (BSelect src wh (Some keys) (Some (his, h)) items false) [] None None);
   Ok (dedup_by (row_key strict) rows [])).
Proof. exact distinct_having_pipeline. Qed.
Print Assumptions C04_distinct_after_having.

Theorem C04_having_true_nowhere_is_empty : forall strict his h gs,
  (forall g, In g gs -> exists x, having_value strict his h g = Ok x /\ is_true x = false) ->
  filter_groups strict his h gs = Ok [].
Proof. exact filter_groups_none_true. Qed.
Print Assumptions C04_having_true_nowhere_is_empty.

(* non-vacuity: k = 1 (two rows), k = 2 (one row), k = NULL (one row); HAVING COUNT( * ) > 1 keeps the first bucket,
   HAVING k IS NULL the last one, HAVING SUM(v) > 'x' (UNKNOWN on every bucket) none *)
Example C04_having_example :
  let t := SrcTable 2 [[VInt 1; VInt 10]; [VInt 2; VInt 20]; [VInt 1; VInt 30]; [VNull; VInt 40]] in
  eval_query false (Q (BSelect t None (Some [ECol 0]) (Some ([SCountStar], ECmp Compare.OpGt (ECol 0) (ELit (VInt 1))))
                         [SExpr (ECol 0); SAgg AgMax false (ECol 1)] false) [] None None) = Ok [[VInt 1; VInt 30]] /\
  eval_query false (Q (BSelect t None (Some [ECol 0]) (Some ([SExpr (ECol 0)], EIs false (ECol 0) (ELit VNull)))
                         [SExpr (ECol 0); SCountStar] false) [] None None) = Ok [[VNull; VInt 1]].
Proof. split; vm_compute; reflexivity. Qed.

(* SELECT DISTINCT over a grouped view: the rows of the GROUP BY query, and of these the first one of every key -
   so selecting only some of the keys does not bring a key back more than once *)
Require Import Csvq.Proofs.Lateral.
Theorem C04_distinct_over_group_by : forall strict src wh keys items,
  eval_query strict (Q (BSelect src wh (Some keys) None items true) [] None None) =
  (do rows <- eval_query strict (Q (BSelect src wh (Some keys) None items false) [] None None);
   Ok (dedup_by (row_key strict) rows [])).
Proof. exact distinct_group_by_pipeline. Qed.
Print Assumptions C04_distinct_over_group_by.

(* what "the first one of every key" means: no two kept rows have equal keys, every kept row is a row, every row
   has a kept row with an equal key *)
Theorem C04_first_row_of_every_key : forall strict (l : list row),
  ForallOrdPairs (fun a b => keys_eqb (row_key strict a) (row_key strict b) = false) (dedup_by (row_key strict) l []) /\
  (forall x, In x (dedup_by (row_key strict) l []) -> In x l) /\
  (forall x, In x l -> exists y, In y (dedup_by (row_key strict) l []) /\ keys_eqb (row_key strict x) (row_key strict y) = true).
Proof. exact rec_union_has_one_row_per_key. Qed.
