(* C05 -- INSERT/UPDATE/DELETE/REPLACE/ALTER change exactly what they say and report it.
   Statements only.  Model: Model/Dml.v, run against parser.Parse + Processor.ExecuteStatement
   (reported count and SELECT * after every statement of generated histories) on every check. *)
From Coq Require Import ZArith List Bool Floats.
Require Import Csvq.Model.Base Csvq.Model.Value Csvq.Model.Expr Csvq.Model.Query Csvq.Model.Dml.
Require Import Csvq.Proofs.Query Csvq.Proofs.Dml.
Import ListNotations.
Open Scope Z_scope.

(* INSERT appends the given rows in the given order; the old rows and the width are untouched; the
   count is the number of rows given *)
Theorem C05_insert_appends : forall strict t fields values t' n,
  exec strict t (SInsert fields values) = Ok (t', n) ->
  exists vss, eval_values fields values = Ok vss /\
              twidth t' = twidth t /\
              trows t' = trows t ++ map (build_row (twidth t) fields) vss /\
              n = Z.of_nat (length values).
Proof. exact insert_spec. Qed.
Print Assumptions C05_insert_appends.

(* ... where a listed column gets the value given for it and every other column NULL *)
Theorem C05_inserted_row_cells : forall w fields vals j, (j < w)%nat ->
  length (build_row w fields vals) = w /\
  nth j (build_row w fields vals) VNull =
  match index_of j fields 0 with Some p => nth p vals VNull | None => VNull end.
Proof. intros w fields vals j H. split; [apply build_row_length | apply build_row_nth; exact H]. Qed.

(* UPDATE keeps the number and order of rows; a row whose condition is not TRUE is unchanged; a row
   whose condition is TRUE keeps its length and every column not named in the SET list; the count is
   the number of rows whose condition is TRUE *)
Theorem C05_update_rewrites_only_named_columns_of_matching_rows : forall sets wh rows rows' n,
  update_rows sets wh rows = Ok (rows', n) ->
  length rows' = length rows /\
  n = Z.of_nat (length (filter (fun r => match wh with None => true | Some c => match eval r c with Ok v => is_true v | Err _ => false end end) rows)) /\
  forall k r r', nth_error rows k = Some r -> nth_error rows' k = Some r' ->
     (match wh with None => true | Some c => match eval r c with Ok v => is_true v | Err _ => false end end = false -> r' = r) /\
     length r' = length r /\ (forall j, ~ In j (map fst sets) -> nth j r' VNull = nth j r VNull).
Proof. exact update_rows_spec. Qed.
Print Assumptions C05_update_rewrites_only_named_columns_of_matching_rows.

(* DELETE keeps exactly the rows whose condition is not TRUE, in order, and counts the others *)
Theorem C05_delete_removes_only_matching_rows : forall wh rows rows' n,
  delete_rows wh rows = Ok (rows', n) ->
  rows' = filter (fun r => negb (hit_of wh r)) rows /\ n = Z.of_nat (length (filter (hit_of wh) rows)).
Proof. exact delete_rows_spec. Qed.
Print Assumptions C05_delete_removes_only_matching_rows.

(* ADD COLUMN: taking the new columns out again gives the old row (other cells and their order are
   untouched); DROP with an empty list is the identity *)
Theorem C05_add_columns_frame : forall pos (xs l : list val), (pos <= length l)%nat ->
  remove_at pos (length xs) (insert_at pos xs l) = l /\ length (insert_at pos xs l) = (length l + length xs)%nat.
Proof. intros pos xs l H. split; [apply remove_insert_at; exact H | apply insert_at_length; exact H]. Qed.

Theorem C05_drop_columns_keeps_other_cells : forall idxs r,
  drop_cols idxs r = map snd (filter (fun ic => negb (existsb (Nat.eqb (fst ic)) idxs)) (combine (seq 0 (length r)) r)).
Proof. exact drop_cols_spec. Qed.

(* RENAME changes no cell *)
Theorem C05_rename_changes_no_cell : forall strict t i, exec strict t (SRename i) = Ok (t, 1).
Proof. reflexivity. Qed.

(* sequences of statements compose; a failing statement changes nothing *)
Theorem C05_history_composes : forall strict t a b,
  run_history strict t (a ++ b) = run_history strict (run_history strict t a) b.
Proof. exact run_history_app. Qed.
Theorem C05_failed_statement_changes_nothing : forall strict t s e, exec strict t s = Err e -> step strict t s = t.
Proof. exact step_failure_noop. Qed.
Print Assumptions C05_history_composes.

(* REPLACE after the repair of F-C05-1: matched rows are updated in place, unmatched given rows are
   appended in the order given *)
Example C05_replace_example :
  exec false (mkT 2 [[VInt 1; VInt 10]; [VInt 2; VInt 20]])
       (SReplace [0; 1]%nat [0]%nat [[ELit (VInt 9); ELit (VInt 90)]; [ELit (VInt 2); ELit (VInt 21)]; [ELit (VInt 8); ELit (VInt 80)]])
  = Ok (mkT 2 [[VInt 1; VInt 10]; [VInt 2; VInt 21]; [VInt 9; VInt 90]; [VInt 8; VInt 80]], 3).
Proof. vm_compute. reflexivity. Qed.

(* REPLACE, for every table and every list of given rows: the existing rows stay where they are and
   change at most in the listed non-key columns; the given rows that matched nothing are appended in
   the order they were given *)
Theorem C05_replace_keeps_rows_in_place_and_appends_unmatched : forall strict w fields keys news rows,
  let out := fst (replace_rows strict w fields keys news rows) in
  let upd := filter (fun f => negb (existsb (Nat.eqb f) keys)) fields in
  exists kept app,
    out = kept ++ app /\ length kept = length rows /\
    (forall i r r', nth_error rows i = Some r -> nth_error kept i = Some r' ->
        length r' = length r /\ forall j, ~ In j upd -> nth j r' VNull = nth j r VNull) /\
    (exists sel : list (nat * row),
        app = map snd sel /\
        sel = filter (fun jn => negb (existsb (Nat.eqb (fst jn))
                 (flat_map (fun h => match h with Some j => [j] | None => [] end)
                           (map (fun r => first_match (key_of strict keys r) (map (key_of strict keys) news) 0) rows))))
                     (combine (seq 0 (length news)) news)).
Proof. exact replace_rows_spec. Qed.
Print Assumptions C05_replace_keeps_rows_in_place_and_appends_unmatched.

(* ---- multi-table DELETE / UPDATE over two joined tables (Proofs/DmlMulti.v) ------------------------------- *)
Require Import Csvq.Proofs.DmlMulti.
(* the joined rows that count are exactly the pairs on which ON and WHERE are TRUE *)
Theorem C05_multi_table_kept_pairs : forall on wh ps cs hs, join_hits on wh ps cs = Ok hs ->
  forall i j, In (i, j) hs <-> exists p c, nth_error ps i = Some p /\ nth_error cs j = Some c /\ takes_part on wh p c.
Proof. exact join_hits_spec. Qed.

(* DELETE p[, c] FROM p JOIN c ..: each target table loses exactly the rows that take part in a kept joined row
   (the others stay, in order; the count is their number); a table that is not a target is untouched *)
Theorem C05_multi_table_delete : forall tp tc on wh ps cs ps' np cs' nc,
  delete_join tp tc on wh ps cs = Ok ((ps', np), (cs', nc)) ->
  (if tp then exists idx, (forall i, In i idx <-> p_takes_part on wh ps cs i) /\ NoDup idx /\
                          ps' = remove_idx idx ps /\ np = Z.of_nat (length idx)
   else ps' = ps /\ np = 0%Z) /\
  (if tc then exists idx, (forall j, In j idx <-> c_takes_part on wh ps cs j) /\ NoDup idx /\
                          cs' = remove_idx idx cs /\ nc = Z.of_nat (length idx)
   else cs' = cs /\ nc = 0%Z).
Proof. exact delete_join_spec. Qed.
Print Assumptions C05_multi_table_delete.

(* the same over LEFT / RIGHT / FULL joins, where a joined row can lack a record of one table: a row leaves a
   target table iff its position occurs in a joined row that ON and WHERE keep - the joined rows being those
   of the join of C03 over the rows extended by their position, so that a NULL-padded side names no record *)
Theorem C05_multi_table_delete_any_join : forall k tp tc lw rw on wh ps cs ps' np cs' nc,
  delete_join_k k tp tc lw rw on wh ps cs = Ok ((ps', np), (cs', nc)) ->
  exists kept,
    kept_join_rows k lw rw on wh ps cs = Ok kept /\
    (if tp then exists idx, (forall i, In i idx <-> occurs_at lw kept i) /\ NoDup idx /\
                            ps' = remove_idx idx ps /\ np = Z.of_nat (length idx)
     else ps' = ps /\ np = 0%Z) /\
    (if tc then exists idx, (forall j, In j idx <-> occurs_at (S lw + rw) kept j) /\ NoDup idx /\
                            cs' = remove_idx idx cs /\ nc = Z.of_nat (length idx)
     else cs' = cs /\ nc = 0%Z).
Proof. exact delete_join_k_spec. Qed.
Print Assumptions C05_multi_table_delete_any_join.

Theorem C05_position_column_holds_the_position : forall (rows : list row) i r,
  nth_error rows i = Some r -> nth_error (with_idx rows) i = Some (r ++ [VInt (Z.of_nat i)]).
Proof. exact with_idx_nth. Qed.

(* p = (1),(2); c = (2): the LEFT JOIN keeps (1,NULL) and (2,2); deleting from both removes both rows of p
   and the one row of c *)
Example C05_multi_table_delete_left_join_example :
  delete_join_k JLeft true true 1 1 (Some (ECmp Compare.OpEq (ECol 0) (ECol 2))) None [[VInt 1]; [VInt 2]] [[VInt 2]]
  = Ok (([], 2%Z), ([], 1%Z)).
Proof. vm_compute. reflexivity. Qed.

(* UPDATE p SET .. FROM p JOIN c ..: number and order of p's rows are kept; a row that takes part in no kept
   joined row is unchanged; c is never written *)
Theorem C05_multi_table_update_frame : forall sets on wh ps cs ps' n,
  update_join sets on wh ps cs = Ok (ps', n) ->
  length ps' = length ps /\ (forall i, ~ p_takes_part on wh ps cs i -> nth i ps' [] = nth i ps []).
Proof. exact update_join_frame. Qed.
Print Assumptions C05_multi_table_update_frame.

(* ... and the values: the kept joined rows hit pairwise different rows of p (a row hit twice is the error of an
   ambiguous update), each hit row becomes the p-columns of its joined row after the SET items were applied to
   that joined row as it was before the statement, and the count is the number of kept joined rows *)
Theorem C05_multi_table_update_values : forall sets on wh ps cs ps' n,
  update_join sets on wh ps cs = Ok (ps', n) ->
  exists hs, join_hits on wh ps cs = Ok hs /\ NoDup (map fst hs) /\ n = Z.of_nat (length hs) /\
    forall i j, In (i, j) hs ->
      exists r', update_row sets (nth i ps [] ++ nth j cs []) = Ok r' /\
                 nth i ps' [] = firstn (length (nth i ps [])) r'.
Proof. exact update_join_values. Qed.
Print Assumptions C05_multi_table_update_values.
