(* C06 -- Comparison, ternary logic, arithmetic and casting follow the documented rules.
   Statements only; every proof is `exact` of a lemma in Proofs/C06.v.  The model these theorems
   speak about (Model/{Value,Compare,Arith,Expr}.v) is run against value.Compare, query.Calculate
   and parser.Parse + query.Evaluate by the correspondence check on every run. *)
From Coq Require Import ZArith Floats List.
Require Import Csvq.Model.Base Csvq.Model.Value Csvq.Model.Compare Csvq.Model.Arith Csvq.Model.Expr.
Require Import Csvq.Proofs.FloatFacts Csvq.Proofs.C06.
Import ListNotations.
Open Scope Z_scope.

(* ---- mutual consistency of the six operators, for ALL pairs of values ------------------- *)
Theorem C06_lt_iff_gt_swapped : forall a b, op_lt a b = op_gt b a.
Proof. exact lt_gt_swap. Qed.
Print Assumptions C06_lt_iff_gt_swapped.

Theorem C06_le_iff_ge_swapped : forall a b, op_le a b = op_ge b a.
Proof. exact le_ge_swap. Qed.
Print Assumptions C06_le_iff_ge_swapped.

Theorem C06_ne_is_not_eq : forall a b, op_ne a b = tnot (op_eq a b).
Proof. exact ne_is_not_eq. Qed.
Print Assumptions C06_ne_is_not_eq.

Theorem C06_eq_symmetric : forall a b, op_eq a b = op_eq b a.
Proof. exact eq_sym. Qed.
Print Assumptions C06_eq_symmetric.

Theorem C06_le_is_lt_or_eq : forall a b, ordered a b -> op_le a b = tor (op_lt a b) (op_eq a b).
Proof. exact le_is_lt_or_eq. Qed.
Print Assumptions C06_le_is_lt_or_eq.

Theorem C06_ge_is_gt_or_eq : forall a b, ordered a b -> op_ge a b = tor (op_gt a b) (op_eq a b).
Proof. exact ge_is_gt_or_eq. Qed.

Theorem C06_ordered_trichotomy : forall a b, ordered a b ->
  (op_lt a b = TT /\ op_eq a b = TF /\ op_gt a b = TF) \/
  (op_lt a b = TF /\ op_eq a b = TT /\ op_gt a b = TF) \/
  (op_lt a b = TF /\ op_eq a b = TF /\ op_gt a b = TT).
Proof. exact ordered_trichotomy. Qed.

(* the guard is satisfiable and needed: numbers are ordered; a pair of booleans and a NaN are not,
   and for them the unguarded law is false (= is decided while <= is UNKNOWN) *)
Example C06_ordered_nonvacuous : ordered (VInt 1) (VFloat 1.5) /\ op_le (VInt 1) (VFloat 1.5) = TT.
Proof. vm_compute. split; reflexivity. Qed.
Example C06_bools_not_ordered :
  ~ ordered (VBool true) (VBool true) /\
  op_le (VBool true) (VBool true) <> tor (op_lt (VBool true) (VBool true)) (op_eq (VBool true) (VBool true)).
Proof. vm_compute. split; intros H; discriminate. Qed.
Example C06_nan_not_ordered : ~ ordered (VFloat nan) (VFloat 1) /\ op_eq (VFloat nan) (VFloat nan) = TF.
Proof. vm_compute. split; [intros H; discriminate | reflexivity]. Qed.

Theorem C06_null_is_unknown : forall op a, compare_op op a VNull = TU /\ (op <> OpIdent -> compare_op op VNull a = TU).
Proof. intros op a. split; [apply null_unknown_r | intros H; apply null_unknown_l; exact H]. Qed.
Print Assumptions C06_null_is_unknown.

Theorem C06_incommensurable_is_unknown : forall op a b, op <> OpIdent -> compare_combinedly a b = CIncomm -> compare_op op a b = TU.
Proof. exact incomm_unknown. Qed.

(* ---- Kleene logic -------------------------------------------------------------------------- *)
Theorem C06_kleene_tables : forall a b,
  tnum (tand a b) = Z.min (tnum a) (tnum b) /\ tnum (tor a b) = Z.max (tnum a) (tnum b) /\ tnum (tnot a) = - tnum a.
Proof. intros a b. split; [apply tand_is_min | split; [apply tor_is_max | apply tnot_is_neg]]. Qed.
Print Assumptions C06_kleene_tables.

Theorem C06_and_or_not_are_kleene : forall row a b x y,
  eval row a = Ok x -> eval row b = Ok y ->
  eval row (EAnd a b) = Ok (VTern (tand (ternary_of x) (ternary_of y))) /\
  eval row (EOr a b) = Ok (VTern (tor (ternary_of x) (ternary_of y))) /\
  eval row (ENot a) = Ok (VTern (tnot (ternary_of x))).
Proof.
  intros row a b x y Ha Hb. split; [exact (eval_and_kleene row a b x y Ha Hb) |
  split; [exact (eval_or_kleene row a b x y Ha Hb) | exact (eval_not_kleene row a x Ha)]].
Qed.
Print Assumptions C06_and_or_not_are_kleene.

(* ---- documented expansions ------------------------------------------------------------------ *)
Theorem C06_between_expansion : forall row a lo hi x l h,
  eval row a = Ok x -> eval row lo = Ok l -> eval row hi = Ok h ->
  eval row (EBetween false a lo hi) = eval row (EAnd (ECmp OpGe a lo) (ECmp OpLe a hi)) /\
  eval row (EBetween true a lo hi) = Ok (VTern (tnot (tand (op_ge x l) (op_le x h)))).
Proof.
  intros row a lo hi x l h Ha Hl Hh. split.
  - exact (between_as_expr row a lo hi x l h Ha Hl Hh).
  - exact (between_expansion row true a lo hi x l h Ha Hl Hh).
Qed.
Print Assumptions C06_between_expansion.

Theorem C06_in_is_eq_any : forall row a l,
  eval row (EIn false a l) = eval row (EAny OpEq a l) /\ eval row (EIn true a l) = eval row (EAll OpNe a l).
Proof. intros. split; reflexivity. Qed.

Theorem C06_not_in_negates_in : forall x l, all_op OpNe x l = tnot (any_op OpEq x l).
Proof. exact not_in_is_not_in. Qed.

Theorem C06_any_rule : forall op v l,
  (any_op op v l = TT <-> exists x, In x l /\ compare_op op v x = TT) /\
  (any_op op v l = TF <-> forall x, In x l -> compare_op op v x = TF).
Proof. exact any_rule. Qed.
Print Assumptions C06_any_rule.

Theorem C06_all_rule : forall op v l,
  (all_op op v l = TF <-> exists x, In x l /\ compare_op op v x = TF) /\
  (all_op op v l = TT <-> forall x, In x l -> compare_op op v x = TT).
Proof. exact all_rule. Qed.
Print Assumptions C06_all_rule.

Theorem C06_is_rule : forall p t,
  is_op p VNull = of_bool (is_null p) /\ is_op p (VTern t) = of_bool (tern_eqb (ternary_of p) t).
Proof. intros. split; reflexivity. Qed.

Theorem C06_case_rule : forall row vv ws els,
  eval row (ECase (option_map ELit vv) (map (fun cr => (ELit (fst cr), ELit (snd cr))) ws) (option_map ELit els))
  = Ok (case_spec vv ws els).
Proof. exact case_rule_literals. Qed.
Print Assumptions C06_case_rule.

(* ---- arithmetic ---------------------------------------------------------------------------- *)
Theorem C06_calc_null_iff_not_numeric : forall a b op,
  calculate a b op = Ok VNull <->
  (to_int_strict a = None \/ to_int_strict b = None) /\ (to_float a = None \/ to_float b = None).
Proof. exact calc_null_iff. Qed.
Print Assumptions C06_calc_null_iff_not_numeric.

Theorem C06_calc_integer_iff_both_integers : forall a b op,
  (forall z, calculate a b op = Ok (VInt z) -> integral a /\ integral b) /\
  (integral a -> integral b ->
     (exists z, calculate a b op = Ok (VInt z)) \/ (calculate a b op = Err EDivZero /\ (op = ADiv \/ op = AMod))).
Proof. intros a b op. split; [intros z; apply calc_int_iff | apply calc_both_int]. Qed.
Print Assumptions C06_calc_integer_iff_both_integers.

Theorem C06_calc_float_otherwise : forall a b op,
  numeric a -> numeric b -> ~ (integral a /\ integral b) -> exists f, calculate a b op = Ok (VFloat f).
Proof. exact calc_float_otherwise. Qed.

Theorem C06_integer_division_by_zero_is_error : forall a b op,
  integral a -> to_int_strict b = Some 0 -> (op = ADiv \/ op = AMod) -> calculate a b op = Err EDivZero.
Proof. exact int_div_zero_is_error. Qed.

Theorem C06_only_error_is_division_by_zero : forall a b op e,
  calculate a b op = Err e -> e = EDivZero /\ to_int_strict b = Some 0.
Proof. exact calc_error_only_div_zero. Qed.

Theorem C06_integer_mod_sign_and_magnitude : forall a b r,
  in_int64 a = true -> in_int64 b = true -> calc_int a b AMod = Ok (VInt r) ->
  Z.abs r < Z.abs b /\ (r = 0 \/ (r < 0 <-> a < 0)) /\ a = b * Z.quot a b + r.
Proof. exact int_mod_sign_magnitude. Qed.
Print Assumptions C06_integer_mod_sign_and_magnitude.

Theorem C06_integer_arithmetic_exact_when_in_range : forall a b,
  (in_int64 (a + b) = true -> calc_int a b APlus = Ok (VInt (a + b))) /\
  (in_int64 (a - b) = true -> calc_int a b AMinus = Ok (VInt (a - b))) /\
  (in_int64 (a * b) = true -> calc_int a b AMul = Ok (VInt (a * b))).
Proof. exact int_arith_exact. Qed.

(* float % on the witnesses of the repaired defect F-C06-1 (math.Remainder gave -1 for 5.0 % 3) *)
Example C06_float_mod_witness :
  calculate (VFloat 5) (VInt 3) AMod = Ok (VFloat 2) /\ calculate (VFloat (-5)) (VInt 3) AMod = Ok (VFloat (-2)) /\
  calculate (VInt 5) (VInt 3) AMod = Ok (VInt 2).
Proof. vm_compute. repeat split. Qed.

Require Import Csvq.Proofs.FloatInt.
From Coq Require Import Lia.
From Coq Require Reals.
From Flocq Require IEEE754.BinarySingleNaN IEEE754.PrimFloat.
Import Rdefinitions Raxioms.
(* float and integer arithmetic agree on integral operands: for |a|, |b|, |a op b| < 2^53 the float
   path (on float64(a), float64(b)) yields a finite float whose real value is exactly the integer
   path's result a op b, for op in + - *   (binary64 through Flocq; the axioms listed are the
   standard library's real-number axioms) *)
Theorem C06_float_and_integer_arithmetic_agree : forall a b,
  Z.abs a < 2 ^ 53 -> Z.abs b < 2 ^ 53 ->
  (Z.abs (a + b) < 2 ^ 53 ->
     calculate (VInt a) (VInt b) APlus = Ok (VInt (a + b)) /\
     exists f, calculate (VFloat (z2f a)) (VFloat (z2f b)) APlus = Ok (VFloat f) /\
               BinarySingleNaN.B2R (PrimFloat.Prim2B f) = IZR (a + b) /\ BinarySingleNaN.is_finite (PrimFloat.Prim2B f) = true) /\
  (Z.abs (a - b) < 2 ^ 53 ->
     calculate (VInt a) (VInt b) AMinus = Ok (VInt (a - b)) /\
     exists f, calculate (VFloat (z2f a)) (VFloat (z2f b)) AMinus = Ok (VFloat f) /\
               BinarySingleNaN.B2R (PrimFloat.Prim2B f) = IZR (a - b) /\ BinarySingleNaN.is_finite (PrimFloat.Prim2B f) = true) /\
  (Z.abs (a * b) < 2 ^ 53 ->
     calculate (VInt a) (VInt b) AMul = Ok (VInt (a * b)) /\
     exists f, calculate (VFloat (z2f a)) (VFloat (z2f b)) AMul = Ok (VFloat f) /\
               BinarySingleNaN.B2R (PrimFloat.Prim2B f) = IZR (a * b) /\ BinarySingleNaN.is_finite (PrimFloat.Prim2B f) = true).
Proof.
  intros a b Ha Hb.
  assert (W : forall z, Z.abs z < 2 ^ 53 -> wrap64 z = z).
  { intros z Hz. apply wrap64_id. unfold in_int64, min_int64, max_int64, two63.
    apply andb_true_intro. split; apply Z.leb_le; lia. }
  split; [|split]; intros Hr; (split; [unfold calculate; cbn [to_int_strict]; unfold calc_int; rewrite (W _ Hr); reflexivity|]);
    eexists; (split; [reflexivity|]).
  - exact (plus_agree a b Ha Hb Hr).
  - exact (minus_agree a b Ha Hb Hr).
  - exact (mult_agree a b Ha Hb Hr).
Qed.
Print Assumptions C06_float_and_integer_arithmetic_agree.

