(* C07 -- ORDER BY, LIMIT, OFFSET return a correctly sorted, correctly cut permutation.
   Statements only.  Model: Model/SortVal.v (sort values and comparator of sort_value.go, LIMIT /
   OFFSET of view.go after the repairs F-C07-1,2,3,5) and Model/Query.v. *)
From Coq Require Import ZArith List Bool Floats Permutation Sorted.
Require Import Csvq.Model.Base Csvq.Model.Value Csvq.Model.Key Csvq.Model.SortVal.
Require Import Csvq.Proofs.Order Csvq.Proofs.OrderSWO.
Import ListNotations.
Open Scope Z_scope.

(* the sorted output is a permutation of the input, for every comparator and key list *)
Theorem C07_order_by_is_permutation : forall (A : Type) ds (l : list (list sortval * A)),
  Permutation (isort ds l) l.
Proof. intros A ds l. exact (isort_perm ds l). Qed.
Print Assumptions C07_order_by_is_permutation.

(* ... in which no row precedes another that must sort before it -- wherever the comparator is a
   strict weak order on the keys at hand (asymmetric, incomparability transitive) *)
Theorem C07_order_by_has_no_inversion : forall (A : Type) ds (dom : list sortval * A -> Prop),
  (forall x y, dom x -> dom y -> less ds x y = true -> less ds y x = false) ->
  (forall x y z, dom x -> dom y -> dom z -> less ds y x = false -> less ds z y = false -> less ds z x = false) ->
  forall l, Forall dom l -> StronglySorted (noinv ds) (isort ds l).
Proof. intros A ds dom Ha Ht l Hl. exact (isort_sorted ds dom Ha Ht l Hl). Qed.
Print Assumptions C07_order_by_has_no_inversion.

(* the comparator IS a strict weak order on comparable key columns -- all-integer, all-datetime or
   all (non-numeric) text columns with NULLs anywhere -- for every direction, NULL position and any
   number of keys; so ORDER BY over such keys leaves no inversion (hypotheses discharged) *)
Theorem C07_comparator_strict_weak_order_on_comparable_keys : forall cs ds x y z,
  length ds = length cs -> tuple_in cs x -> tuple_in cs y -> tuple_in cs z ->
  (svs_less x y ds = true -> svs_less y x ds = false) /\
  (svs_less y x ds = false -> svs_less z y ds = false -> svs_less z x ds = false).
Proof.
  intros cs ds x y z Hl Hx Hy Hz. split.
  - exact (svs_less_asym cs ds x y Hl Hx Hy).
  - exact (svs_less_negtrans cs ds x y z Hl Hx Hy Hz).
Qed.
Print Assumptions C07_comparator_strict_weak_order_on_comparable_keys.

Theorem C07_order_by_no_inversion_on_comparable_keys : forall (A : Type) cs ds (l : list (list sortval * A)),
  length ds = length cs -> Forall (fun ka => tuple_in cs (fst ka)) l ->
  StronglySorted (noinv ds) (isort ds l).
Proof. intros A cs ds l Hl Hd. exact (order_by_sorted_on_comparable_keys cs ds l Hl Hd). Qed.
Print Assumptions C07_order_by_no_inversion_on_comparable_keys.

(* the class hypotheses are met by the sort values of integer-like / text cells and NULL *)
Example C07_comparable_keys_nonvacuous :
  tuple_in [KCInt; KCStr]
    [new_sort_value false (VInt 3); new_sort_value false (VStr (mkS [97]%N [97]%N [65]%N None None None None))] /\
  tuple_in [KCInt; KCStr] [new_sort_value false VNull; new_sort_value false VNull].
Proof. vm_compute. repeat split; auto. Qed.

Theorem C07_offset_drops_exactly_the_first_n : forall (A : Type) (n : Z) (l : list A),
  offset_rows n l = skipn (Z.to_nat (Z.max 0 n)) l /\
  (n <= 0 -> offset_rows n l = l) /\
  (Z.of_nat (length l) <= n -> offset_rows n l = []) /\
  firstn (Z.to_nat (Z.max 0 n)) l ++ offset_rows n l = l.
Proof. intros A n l. exact (offset_spec n l). Qed.
Print Assumptions C07_offset_drops_exactly_the_first_n.

Theorem C07_limit_keeps_exactly_the_first_n : forall (A : Type) n off sv (l : list A),
  limit_rows (LimRows n) false off sv l = firstn (Z.to_nat (Z.max 0 n)) l.
Proof. intros A n off sv l. exact (limit_rows_plain n off sv l). Qed.

Theorem C07_with_ties_adds_exactly_the_ties : forall (A : Type) n off svs (l : list A) bottom,
  0 < n -> n < Z.of_nat (length l) ->
  nth_error svs (Z.to_nat n - 1) = Some bottom ->
  limit_rows (LimRows n) true off (Some svs) l =
  firstn (Z.to_nat n + length (take_while (svs_equiv bottom) (skipn (Z.to_nat n) svs))) l.
Proof. intros A n off svs l bottom H1 H2 H3. exact (limit_with_ties_spec n off svs l bottom H1 H2 H3). Qed.
Print Assumptions C07_with_ties_adds_exactly_the_ties.

Theorem C07_limit_zero_with_ties_is_empty : forall (A : Type) off svs (l : list A),
  limit_rows (LimRows 0) true off (Some svs) l = [].
Proof. intros A off svs l. exact (limit_zero_with_ties off svs l). Qed.

Theorem C07_percent_bounds : forall (A : Type) p off sv (l : list A),
  (PrimFloat.ltb 100 p = true -> limit_rows (LimPercent p) false off sv l = l) /\
  (PrimFloat.ltb 100 p = false -> PrimFloat.ltb p 0 = true -> limit_rows (LimPercent p) false off sv l = firstn 0 l).
Proof. intros A p off sv l. exact (limit_percent_bounds p off sv l). Qed.
Print Assumptions C07_percent_bounds.

(* PERCENT is taken of the pre-offset row count: 10 rows left after OFFSET 10 of 20, 25 percent = 5 *)
Example C07_percent_counts_pre_offset_rows : limit_count (LimPercent 25) 10 10 = 5.
Proof. vm_compute. reflexivity. Qed.
Example C07_percent_rounds_up : limit_count (LimPercent 33.3) 10 0 = 4.
Proof. vm_compute. reflexivity. Qed.

(* the repaired comparator: an integer and a float of equal value are undecided, so that the next
   key is looked at (F-C07-5) *)
Example C07_int_float_equal_is_undecided :
  sv_less1 (new_sort_value false (VInt 1)) (new_sort_value false (VFloat 1)) = TU /\
  sv_less1 (new_sort_value false (VFloat 1)) (new_sort_value false (VInt 1)) = TU.
Proof. vm_compute. split; reflexivity. Qed.

(* ---- numeric key columns mixing integers and floats ----------------------------------------------------- *)
(* The class list `cs` of the two theorems above also ranges over KCNum (Proofs/OrderNum.v): NULLs, ANY
   integers and finite floats.  SortValue.Less compares an integer with a float by their exact values
   (compareIntegerWithFloat, the repair of finding int-float-beyond-2p53), which is the order of the reals: *)
Require Import Csvq.Proofs.OrderNum.
Theorem C07_integer_float_comparison_is_exact : forall i f,
  Flocq.IEEE754.BinarySingleNaN.is_finite (Flocq.IEEE754.PrimFloat.Prim2B f) = true ->
  cmp_int_float i f = Flocq.Core.Raux.Rcompare (Coq.Reals.Rdefinitions.IZR i) (Flocq.IEEE754.BinarySingleNaN.B2R (Flocq.IEEE754.PrimFloat.Prim2B f)).
Proof. exact cmp_int_float_correct. Qed.
Print Assumptions C07_integer_float_comparison_is_exact.

Example C07_numeric_keys_nonvacuous :
  tuple_in [KCNum; KCNum] [new_sort_value false (VInt 9007199254740993); new_sort_value false (VFloat 2.5%float)] /\
  tuple_in [KCNum; KCNum] [new_sort_value false (VFloat 9007199254740992%float); new_sort_value false VNull].
Proof.
  repeat split; try reflexivity; cbn.
  - right. left. reflexivity.
  - right. right. split; vm_compute; reflexivity.
  - right. right. split; vm_compute; reflexivity.
  - left. reflexivity.
Qed.

(* why the repair was needed: the shipped code converted the integer to a float first; then 2^53 and 2^53+1
   both tie with the float 2^53 although 2^53 < 2^53+1, so ORDER BY could leave 2^53 after 2^53+1
   (replay: rows 9007199254740993, 9007199254740992.0, 9007199254740992 in this order, ORDER BY that column) *)
Theorem C07_shipped_integer_float_ties_not_transitive :
  shipped_less_int_float 9007199254740993 (z2f 9007199254740992) = TU /\
  shipped_less_int_float 9007199254740992 (z2f 9007199254740992) = TU /\
  (9007199254740992 <? 9007199254740993)%Z = true.
Proof. exact shipped_ties_not_transitive. Qed.
