(* C08 -- A statement that fails leaves every table exactly as it was before it ran.
   Statements only; proofs are `exact` of lemmas in Proofs/CopyPublish.v and Proofs/Txn.v.

   Two levels.
   (1) Model/CopyPublish.v: the aliasing the Go code relies on -- a heap of record arrays and
       cells; View.Copy allocates fresh record arrays and shares the cells; the statement writes
       into the copy; the map entry is swapped only at the end.
   (2) Model/Txn.v: a failed statement as the abstract effect SFail (it may have loaded tables for
       update before the error), inside the transaction model of C01.
   The Go aliasing that (1) abstracts is tied to the code only by the correspondence check
   (Harness/H08.v, harness/c08.go: fault matrix, all visible tables read after every step). *)
Require Import Csvq.Model.Base Csvq.Model.Value Csvq.Model.Txn Csvq.Model.TxnSpec Csvq.Model.CopyPublish.
Require Import Csvq.Proofs.Txn Csvq.Proofs.CopyPublish.

(* ---- (1) copy / publish -------------------------------------------------------------------------- *)
(* no sequence of writes on a copy -- complete, or cut short by a failure after any number of
   rows -- changes what ANY published view dereferences to *)
Theorem C08_copy_isolates : forall h m name v h1 w ps h2 ow,
  heap_ok h m -> m name = Some v -> view_copy h v = (h1, w) -> run_prims ps h1 w = (h2, ow) ->
  forall n' v', m n' = Some v' -> deref h2 v' = deref h v'.
Proof. exact copy_isolates. Qed.
Print Assumptions C08_copy_isolates.

(* a whole statement: on failure nothing is published and every view shows what it showed; on
   success only its own table changes; the heap stays well-formed, so this holds along any
   sequence of statements *)
Theorem C08_statement_spec : forall h m name ps h2 m2 ok,
  heap_ok h m -> exec_stmt view_copy name ps (h, m) = (h2, m2, ok) ->
  heap_ok h2 m2 /\
  (forall n' v', m n' = Some v' -> (ok = false \/ n' <> name) -> m2 n' = Some v' /\ deref h2 v' = deref h v') /\
  (ok = false -> forall n', m2 n' = m n').
Proof. exact exec_stmt_spec. Qed.
Print Assumptions C08_statement_spec.

(* the copy shows the same table as the original (so the statement starts from the right data) *)
Theorem C08_copy_shows_original : forall h v h1 w, view_below (next h) h v -> view_copy h v = (h1, w) ->
  deref h1 w = deref h v.
Proof. intros h v h1 w Hv Hc. exact (proj2 (proj2 (view_copy_spec h v h1 w Hv Hc))). Qed.
Print Assumptions C08_copy_shows_original.

(* non-vacuity, and why RecordSet.Copy must copy the records: an UPDATE that fails at its second
   row.  With View.Copy the published table is untouched; with a copy that shares the record
   arrays the first row stays modified although the statement failed. *)
Definition ex_heap : heap :=
  mkHeap (fun l => if N.eqb l 0 then VInt 10 else if N.eqb l 1 then VInt 20 else VNull)
         (fun l => if N.eqb l 2 then [0%N] else if N.eqb l 3 then [1%N] else [])
         4%N.
Definition ex_view : view := mkView [VInt 0] [2%N; 3%N].
Definition ex_map : vmap := fun n => if N.eqb n 0 then Some ex_view else None.
Definition ex_update : list prim := [PSetCell 0 0 (VInt 99); PFail].

Example C08_example_heap_ok : heap_ok ex_heap ex_map.
Proof.
  intros n v. unfold ex_map. destruct (N.eqb n 0); [|discriminate]. intros [= <-].
  unfold view_ok. cbn. repeat constructor.
Qed.

Example C08_example_failed_update :
  let '(h2, m2, ok) := exec_stmt view_copy 0%N ex_update (ex_heap, ex_map) in
  ok = false /\ option_map (deref h2) (m2 0%N) = Some [[VInt 0]; [VInt 10]; [VInt 20]].
Proof. vm_compute. split; reflexivity. Qed.

Example C08_example_shallow_copy_leaks :
  let '(h2, m2, ok) := exec_stmt shallow_copy 0%N ex_update (ex_heap, ex_map) in
  ok = false /\ option_map (deref h2) (m2 0%N) = Some [[VInt 0]; [VInt 99]; [VInt 20]].
Proof. vm_compute. split; reflexivity. Qed.

(* ---- (2) in the transaction ---------------------------------------------------------------------- *)
(* The full statement -- whatever happened before, also commits of other processes -- is FALSE of
   the faithful model: a failing statement that had to load its table for update replaces a copy
   loaded by a plain SELECT with the current file (the documented exception of C20). *)
Definition C08_failed_stmt_noop : Prop :=
  forall d0 ops touched, ops_wf ops (init d0) ->
    forall p, visible (exec (SFail touched) (execs ops (init d0))) p = visible (execs ops (init d0)) p.

Definition ex_d0 : key -> option tab := fun k => if N.eqb k 0 then Some [[VNull]] else None.

Theorem C08_failed_stmt_noop_refuted : ~ C08_failed_stmt_noop.
Proof.
  intros H. specialize (H ex_d0 [SRead 0%N; ExtCommit 0%N [[VNull]; [VNull]]] [0%N]).
  assert (Hwf : ops_wf [SRead 0%N; ExtCommit 0%N [[VNull]; [VNull]]] (init ex_d0)) by (cbn; auto).
  specialize (H Hwf 0%N). vm_compute in H. discriminate H.
Qed.
Print Assumptions C08_failed_stmt_noop_refuted.

(* The strongest true restriction: as long as no other process committed to a table this
   transaction loaded by a plain SELECT (in particular: in every history without commits of other
   processes), a failed statement changes NOTHING the following statements can see -- no file
   table, no temporary table -- nor the files, nor what a COMMIT / ROLLBACK will do. *)
Theorem C08_failed_stmt_noop_partial : forall touched s, fresh s ->
  let s' := exec (SFail touched) s in
  (forall p, visible s' p = visible s p) /\ (forall n, tvisible s' n = tvisible s n) /\
  disk s' = disk s /\ created s' = created s /\ updated s' = updated s /\ tupdated s' = tupdated s /\
  fresh s'.
Proof. exact failed_stmt_noop_fresh. Qed.
Print Assumptions C08_failed_stmt_noop_partial.

Theorem C08_fresh_without_foreign_commits : forall d0 ops,
  forallb (fun o => negb (is_ext o)) ops = true -> fresh (execs ops (init d0)).
Proof. intros d0 ops H. exact (fresh_reach ops (init d0) (fresh_init d0) H). Qed.
Print Assumptions C08_fresh_without_foreign_commits.

(* with C01: a later COMMIT writes what it would have written without the failed statement --
   in every history, also with commits of other processes *)
Theorem C08_failed_stmt_not_committed : forall d0 ops touched, ops_wf ops (init d0) ->
  let s := execs ops (init d0) in
  forall p, disk (exec SCommit (exec (SFail touched) s)) p = disk (exec SCommit s) p.
Proof. exact failed_stmt_not_committed. Qed.
Print Assumptions C08_failed_stmt_not_committed.

Example C08_example_fresh : 
  fresh (execs [SRead 0%N; SChange 0%N true [[VNull]; [VInt 1]]; SFail [0%N]] (init ex_d0)) /\
  visible (execs [SRead 0%N; SChange 0%N true [[VNull]; [VInt 1]]; SFail [0%N]] (init ex_d0)) 0%N
    = Some [[VNull]; [VInt 1]].
Proof. split; [apply C08_fresh_without_foreign_commits; reflexivity | reflexivity]. Qed.
