(* C09 -- Concurrent csvq processes never write a table together or lose an update.
   Statements only; every proof is `exact` of a lemma in Proofs/C09.v.  All theorems quantify over
   ANY number of processes (process ids are `nat`, `roles c : nat -> role` is arbitrary), ANY initial
   counter and ANY schedule `es : list event` (steps of individual processes at the granularity of
   one file-system operation, and the moments at which wait timeouts elapse).  The model they speak
   about, Model.Lock.step, is the function the correspondence check (Harness/H09.v) replays against
   the real lib/file + lib/query code driven through the same schedules. *)
From Coq Require Import Arith List Bool.
Require Import Csvq.Model.Lock Csvq.Proofs.C09.
Import ListNotations.

(* ---- lock_inv: what the control files mean, in every reachable state ------------------------------
   at most one process owns the lock file, and it is the one recorded as its creator; a process that
   holds the table for update owns the lock file and no read-lock file exists; the read-lock files
   are exactly those of the processes that are reading; the temp file exists only under its
   creator's lock file; the table file is missing only while the lock owner is between the Remove
   and the Rename of its COMMIT. *)
Theorem C09_lock_inv : forall c n0 es, lock_inv (run c es (init n0)).
Proof. exact (fun c n0 es => lock_inv_of_Inv c n0 _ (inv_reach c n0 es)). Qed.
Print Assumptions C09_lock_inv.

(* While one process holds a table for update no other process holds it for update or reads it. *)
Theorem C09_mutual_exclusion : forall c n0 es i j,
  let s := run c es (init n0) in
  writer_holds (pcs s i) = true -> j <> i ->
  writer_holds (pcs s j) = false /\ reader_holds (pcs s j) = false.
Proof. exact (fun c n0 es i j => mutual_exclusion_of_Inv c n0 _ i j (inv_reach c n0 es)). Qed.
Print Assumptions C09_mutual_exclusion.

(* While a process is reading, no event makes any process a holder-for-update that was not one. *)
Theorem C09_no_writer_starts_during_read : forall c n0 es e i j,
  let s := run c es (init n0) in
  reader_holds (pcs s j) = true ->
  writer_holds (pcs (step c e s) i) = true -> writer_holds (pcs s i) = true.
Proof. exact (fun c n0 es e i j => no_writer_starts_of_Inv c n0 _ e i j (inv_reach c n0 es)). Qed.
Print Assumptions C09_no_writer_starts_during_read.

(* Read-modify-write transactions are serialised and every committed change survives: the commits
   form a chain (each read what the previous one wrote, the first the initial value, each wrote
   +1), the table holds n0 + the number of commits, the committed processes are exactly those in
   the log, each once, and the commit order is the order in which they acquired the lock. *)
Theorem C09_serialised : forall c n0 es, serialised n0 (run c es (init n0)).
Proof. exact (fun c n0 es => serialised_of_Inv c n0 _ (inv_reach c n0 es)). Qed.
Print Assumptions C09_serialised.

(* ... so n committed increments yield +n, counted over any duplicate-free list of process ids that
   contains the committed ones *)
Theorem C09_committed_count : forall c n0 es ps,
  let s := run c es (init n0) in
  NoDup ps -> (forall i, outs s i = OCommitted -> In i ps) ->
  dval s = n0 + length (filter (fun i => is_committed (outs s i)) ps).
Proof. exact (fun c n0 es ps => committed_count_of_Inv c n0 _ ps (inv_reach c n0 es)). Qed.
Print Assumptions C09_committed_count.

(* when every process is through (or never started) the table exists and no control file is left *)
Theorem C09_quiescent_clean : forall c n0 es,
  let s := run c es (init n0) in
  (forall i, idle (pcs s i) = true) ->
  lockf s = None /\ rls s = [] /\ tempf s = None /\ dex s = true.
Proof. exact (fun c n0 es => quiescent_clean_of_Inv c n0 _ (inv_reach c n0 es)). Qed.
Print Assumptions C09_quiescent_clean.

(* ---- timeout_changes_nothing ------------------------------------------------------------------------
   A process that is through without having committed (lock timeout, "file does not exist", read,
   rollback) holds no control file, is not in the commit log, and none of its own events -- wherever
   in the schedule -- changed the table file (existence or content). *)
Theorem C09_timeout_changes_nothing : forall c n0 es1 e es2 i,
  let a := run c es1 (init n0) in
  let s := run c (es1 ++ e :: es2) (init n0) in
  pcs s i = Done -> outs s i <> OCommitted -> (e = Step i \/ e = Expire i) ->
  dex (step c e a) = dex a /\ dval (step c e a) = dval a.
Proof. exact no_commit_no_change. Qed.
Print Assumptions C09_timeout_changes_nothing.

Theorem C09_done_holds_nothing : forall c n0 es i,
  let s := run c es (init n0) in
  pcs s i = Done ->
  lockf s <> Some i /\ ~ In i (rls s) /\ tempf s <> Some i /\
  (outs s i <> OCommitted -> touched s i = false /\ ~ In i (map fst (log s))).
Proof.
  exact (fun c n0 es i Hd =>
    match done_holds_nothing_of_Inv c n0 _ i (inv_reach c n0 es) Hd with
    | conj a (conj b d) => conj a (conj b (conj d (untouched_of_Inv c n0 _ i (inv_reach c n0 es) Hd)))
    end).
Qed.
Print Assumptions C09_done_holds_nothing.

(* a lock-timeout failure is only ever decided after that process's wait timeout has elapsed *)
Theorem C09_timeout_needs_expiry : forall c n0 es i,
  outs (run c es (init n0)) i = OTimeout -> expd (run c es (init n0)) i = true.
Proof. exact timeout_needs_expiry. Qed.
Print Assumptions C09_timeout_needs_expiry.

(* ---- "fails with a lock-timeout error" -- and with nothing else ------------------------------------
   The property text lets a process that cannot get access fail only with the lock timeout: no
   "file does not exist", no I/O error from the open after a granted lock.  For the COMMIT that
   renames over the table (/repo since fix 4dfbb28, `atomic c = true`) this holds: *)
Definition C09_only_lock_timeouts (c : cfg) : Prop :=
  forall n0 es i, outs (run c es (init n0)) i <> ONotExist /\ outs (run c es (init n0)) i <> OIOErr.

Theorem C09_only_lock_timeouts_rename_over : forall c, atomic c = true -> C09_only_lock_timeouts c.
Proof.
  exact (fun c Ha n0 es i => conj (atomic_never_notexist c n0 es i Ha) (never_ioerr_of_Inv c n0 _ i (inv_reach c n0 es))).
Qed.
Print Assumptions C09_only_lock_timeouts_rename_over.

(* The faithful model of the tree before that fix (COMMIT = Remove, then Rename) violates it: a
   transaction that starts inside another one's Remove/Rename window fails with "file does not
   exist" (finding commit-remove-rename-window, DESIGN F-C10-1). *)

Definition all_writers : cfg := mkCfg (fun _ => RoleW) false.
Definition window_witness : list event := repeat (Step 0) 9 ++ [Step 1].

Theorem C09_only_lock_timeouts_refuted : ~ C09_only_lock_timeouts all_writers.
Proof.
  intros H. destruct (H 5 window_witness 1) as [H1 _]. apply H1. vm_compute. reflexivity.
Qed.
Print Assumptions C09_only_lock_timeouts_refuted.

(* what is true of both variants: (1) with the COMMIT that renames over the table the statement
   holds; (2) an I/O error from the open after a granted lock never happens in either variant;
   (3) in the pinned variant "file does not exist" is decided only by a step taken while ANOTHER
   process sits between Remove and Rename -- and by C09_timeout_changes_nothing that process
   changes nothing and no update is lost (C09_serialised holds unconditionally). *)
Theorem C09_only_lock_timeouts_partial :
  (forall c, atomic c = true -> C09_only_lock_timeouts c) /\
  (forall c n0 es i, outs (run c es (init n0)) i <> OIOErr) /\
  (forall c n0 es e i,
     let s := run c es (init n0) in
     outs s i <> ONotExist -> outs (step c e s) i = ONotExist ->
     e = Step i /\ atomic c = false /\ exists j, j <> i /\ pcs s j = WRename).
Proof.
  exact (conj (fun c Ha n0 es i => conj (atomic_never_notexist c n0 es i Ha) (never_ioerr_of_Inv c n0 _ i (inv_reach c n0 es)))
        (conj (fun c n0 es i => never_ioerr_of_Inv c n0 _ i (inv_reach c n0 es))
              (fun c n0 es e i => notexist_step c n0 e _ i (inv_reach c n0 es)))).
Qed.
Print Assumptions C09_only_lock_timeouts_partial.

(* ---- the hypotheses are satisfiable; the states spoken about are reached --------------------------- *)
Definition rw_cfg : cfg := mkCfg (role_of [RoleW; RoleR; RoleW]) false.
Definition steps (i n : nat) : list event := repeat (Step i) n.

(* two writers one after the other: both commit, +2, in acquisition order *)
Example C09_ex_two_commits :
  let s := run rw_cfg (steps 0 13 ++ steps 2 13) (init 5) in
  dval s = 7 /\ obs_out s 0 = OCommitted /\ obs_out s 2 = OCommitted /\ map fst (log s) = [0; 2] /\ acq s = [0; 2] /\
  log s = [(0, (5, 6)); (2, (6, 7))].
Proof. vm_compute. repeat split; reflexivity. Qed.

(* interleaved: writer 0 holds (5 steps), reader 1 and writer 2 try, wait, and get through after 0
   is done -- a holder-for-update exists and excludes the others *)
Example C09_ex_writer_holds :
  let s := run rw_cfg (steps 0 5 ++ steps 1 3 ++ steps 2 3) (init 5) in
  writer_holds (pcs s 0) = true /\ pcs s 1 = RWait /\ pcs s 2 = WWait.
Proof. vm_compute. repeat split; reflexivity. Qed.

(* the writer passes its first check, then a reader gets its read lock (7 steps: it is about to
   open); the writer creates the lock file, finds the read lock in its re-check and backs off *)
Example C09_ex_reader_blocks_writer :
  let s := run rw_cfg (steps 0 3 ++ steps 1 7 ++ steps 0 2) (init 5) in
  reader_holds (pcs s 1) = true /\ pcs s 0 = WBackChk /\ lockf s = Some 0 /\ rls s = [1].
Proof. vm_compute. repeat split; reflexivity. Qed.

(* the waiting writer's timeout elapses: it gives up with the lock-timeout outcome, the table is
   unchanged, the other transaction commits *)
Example C09_ex_timeout :
  let s := run rw_cfg (steps 0 5 ++ steps 2 3 ++ [Expire 2; Step 2] ++ steps 0 8) (init 5) in
  obs_out s 2 = OTimeout /\ obs_out s 0 = OCommitted /\ dval s = 6 /\ lockf s = None /\ touched s 2 = false.
Proof. vm_compute. repeat split; reflexivity. Qed.

(* the timeout can elapse while the process owns the lock file (granted, not yet opened): it
   releases it again *)
Example C09_ex_timeout_while_owning :
  let s1 := run rw_cfg (steps 0 5 ++ [Expire 0]) (init 5) in
  let s2 := run rw_cfg (steps 0 5 ++ [Expire 0] ++ steps 0 3) (init 5) in
  pcs s1 0 = WOpen /\ lockf s1 = Some 0 /\ obs_out s2 0 = OTimeout /\ lockf s2 = None /\ dval s2 = 5.
Proof. vm_compute. repeat split; reflexivity. Qed.

(* SELECT then UPDATE in one transaction re-locks and re-loads: the increment of the other
   transaction that committed in between is not lost *)
Example C09_ex_read_then_update :
  let c := mkCfg (role_of [RoleRW; RoleW]) false in
  let s := run c (steps 0 10 ++ steps 1 13 ++ steps 0 12) (init 5) in
  seen s 0 = 5 /\ obs_out s 0 = OCommitted /\ obs_out s 1 = OCommitted /\ dval s = 7.
Proof. vm_compute. repeat split; reflexivity. Qed.

(* the window of the refutation, and its absence in the repaired variant *)
Example C09_ex_window :
  let s := run all_writers window_witness (init 5) in
  pcs s 0 = WRename /\ dex s = false /\ obs_out s 1 = ONotExist.
Proof. vm_compute. repeat split; reflexivity. Qed.
Example C09_ex_no_window_when_atomic :
  let s := run (mkCfg (fun _ => RoleW) true) (steps 0 7 ++ [Step 1]) (init 5) in
  pcs s 0 = WRename /\ dex s = true /\ pcs s 1 = WExists.
Proof. vm_compute. repeat split; reflexivity. Qed.
