(* C10 -- A crash at any instant of COMMIT leaves each existing table complete: old or new.
   Statements only; every proof is `exact` of a lemma in Proofs/C10.v.

   The model (Model/Fs.v, Model/Commit.v): the directory is a finite map path -> bytes; COMMIT of a
   transaction with created tables [cr], updated tables [up] and tables held for update but never
   changed [idle] is the list [commit_ops rename_over cr up idle] of system calls, in the order
   Transaction.Commit / Handler.commit issue them; a crash is any prefix [firstn k].  The
   correspondence check (harness/c10.go, Harness/H10.v) requires on every run that this list equals
   the strace trace of the real binary, that the directory found after SIGKILL at each system
   call equals [run s0 (firstn k ops)], and evaluates [old_or_new] on the directory found.

   [rename_over = false] is the code as it is today (os.Remove(path); os.Rename(temp, path)),
   [rename_over = true] the repaired commit (rename over the file). *)
Require Import Csvq.Model.Base Csvq.Model.Fs Csvq.Model.Commit.
Require Import Csvq.Proofs.FsFacts Csvq.Proofs.C10.

(* ---- crash_old_or_new ---------------------------------------------------------------------------
   for every crash point k and every table t that existed when COMMIT started and was not created
   by the transaction itself: t exists with its complete old or its complete new contents *)
Definition C10_crash_old_or_new_statement (rename_over : bool) : Prop :=
  forall (cr up : list tchange) (idle : list N) (s0 : fs) (k : nat) (t : N),
    commit_ready s0 cr up idle = true -> ~ In t (map tid cr) ->
    forall old, lookup s0 (data t) = Some old ->
      let s := run s0 (firstn k (commit_ops rename_over cr up idle)) in
      lookup s (data t) = Some old
      \/ exists u, In u up /\ tid u = t /\ lookup s (data t) = Some (tbody u ++ ttail u).

(* REFUTED on the current tree (finding commit-remove-rename-window, F-C10-1): one updated table,
   killed after unlinkat(t) and before renameat(._t.temp, t): the table does not exist *)
Theorem C10_crash_old_or_new_refuted : ~ C10_crash_old_or_new_statement false.
Proof. exact crash_old_or_new_refuted. Qed.
Print Assumptions C10_crash_old_or_new_refuted.

(* what does hold today: old, new, or missing with the complete new contents in ._t.temp *)
Theorem C10_crash_old_or_new_partial :
  forall cr up idle s0 k t,
    commit_ready s0 cr up idle = true -> ~ In t (map tid cr) ->
    forall old, lookup s0 (data t) = Some old ->
      let s := run s0 (firstn k (commit_ops false cr up idle)) in
      lookup s (data t) = Some old
      \/ (exists u, In u up /\ tid u = t /\ lookup s (data t) = Some (tbody u ++ ttail u))
      \/ (exists u, In u up /\ tid u = t /\ lookup s (data t) = None /\ lookup s (tempp t) = Some (tbody u ++ ttail u)).
Proof. exact crash_old_new_or_temp. Qed.
Print Assumptions C10_crash_old_or_new_partial.

(* the full statement for the repaired commit (rename over the file, no remove) *)
Theorem C10_crash_old_or_new_repaired : C10_crash_old_or_new_statement true.
Proof. exact crash_old_or_new_rename_over. Qed.
Print Assumptions C10_crash_old_or_new_repaired.

(* whatever the variant: a table the transaction does not write is byte-identical at every crash
   point, and nothing appears or disappears among the files of tables outside the transaction *)
Theorem C10_unwritten_unchanged : forall rename_over cr up idle s0 k t,
  commit_ready s0 cr up idle = true -> ~ In t (map tid cr) -> ~ In t (map tid up) ->
  lookup (run s0 (firstn k (commit_ops rename_over cr up idle))) (data t) = lookup s0 (data t).
Proof. exact crash_unwritten_unchanged. Qed.
Print Assumptions C10_unwritten_unchanged.

Theorem C10_foreign_untouched : forall rename_over cr up idle s0 k t kd,
  ~ In t (map tid cr) -> ~ In t (map tid up) -> ~ In t idle ->
  lookup (run s0 (firstn k (commit_ops rename_over cr up idle))) (kd, t) = lookup s0 (kd, t).
Proof. exact crash_foreign_untouched. Qed.
Print Assumptions C10_foreign_untouched.

(* ---- recoverable ---------------------------------------------------------------------------------
   after deleting the hidden control files (names starting with a dot), as the manual instructs, no control file is left
   and every pre-existing table is there, old or new *)
Definition C10_recoverable_statement (rename_over : bool) : Prop :=
  forall cr up idle s0 k,
    commit_ready s0 cr up idle = true ->
    let s := delete_control_files (run s0 (firstn k (commit_ops rename_over cr up idle))) in
    (forall p, is_control p = true -> lookup s p = None)
    /\ (forall t, ~ In t (map tid cr) -> forall old, lookup s0 (data t) = Some old ->
          lookup s (data t) = Some old
          \/ exists u, In u up /\ tid u = t /\ lookup s (data t) = Some (tbody u ++ ttail u)).

(* REFUTED today: in the window the only copy is ._t.temp, which the instruction deletes *)
Theorem C10_recoverable_refuted : ~ C10_recoverable_statement false.
Proof. exact recoverable_refuted. Qed.
Print Assumptions C10_recoverable_refuted.

Theorem C10_recoverable_partial : forall cr up idle s0 k,
  commit_ready s0 cr up idle = true ->
  let s := run s0 (firstn k (commit_ops false cr up idle)) in
  (forall p, is_control p = true -> lookup (delete_control_files s) p = None)
  /\ (forall t, ~ In t (map tid cr) -> forall old, lookup s0 (data t) = Some old ->
        lookup (delete_control_files s) (data t) = lookup s (data t)
        /\ (lookup s (data t) = None ->
            exists u, In u up /\ tid u = t /\ lookup s (tempp t) = Some (tbody u ++ ttail u))).
Proof. exact recoverable_partial. Qed.
Print Assumptions C10_recoverable_partial.

Theorem C10_recoverable_repaired : C10_recoverable_statement true.
Proof. exact recoverable_rename_over. Qed.
Print Assumptions C10_recoverable_repaired.

(* ---- the complete commit (k = everything) ----------------------------------------------------------- *)
Theorem C10_commit_complete : forall rename_over cr up idle s0 u,
  commit_ready s0 cr up idle = true -> In u up ->
  let s := run s0 (commit_ops rename_over cr up idle) in
  lookup s (data (tid u)) = Some (tbody u ++ ttail u) /\ lookup s (tempp (tid u)) = None /\ lookup s (lockp (tid u)) = None.
Proof. exact commit_complete_updated. Qed.
Print Assumptions C10_commit_complete.

(* ---- the decidable checker the harness evaluates on the directories it finds ------------------------- *)
Theorem C10_old_or_new_checker : forall cr up s0 s,
  old_or_new cr up s0 s = true <->
  (forall t, ~ In t (map tid cr) -> forall old, lookup s0 (data t) = Some old ->
     lookup s (data t) = Some old
     \/ exists u, In u up /\ tid u = t /\ lookup s (data t) = Some (tbody u ++ ttail u)).
Proof. exact old_or_new_spec. Qed.
Print Assumptions C10_old_or_new_checker.

(* ---- the hypotheses are satisfiable: two updated, one created, one idle, one foreign table ------------ *)
Definition ex_s0 : fs :=
  [ (data 1, [107; 10; 49; 10]); (lockp 1, []); (tempp 1, []);
    (data 2, [107; 10; 50; 10]); (lockp 2, []); (tempp 2, []);
    (data 3, []); (lockp 3, []);
    (data 4, [120; 10]); (lockp 4, []); (tempp 4, []);
    (data 5, [121; 10]) ]%N.
Definition ex_cr := [mkT 3 [97; 44; 98] [13; 10]]%N.      (* created: the session's line break (CRLF) *)
Definition ex_up := [mkT 2 [107; 10; 57] [10]; mkT 1 [107] [10]]%N.   (* updated: each file's own (LF) *)
Definition ex_idle := [4]%N.

Example C10_ready_nonvacuous : commit_ready ex_s0 ex_cr ex_up ex_idle = true.
Proof. vm_compute. reflexivity. Qed.

(* every call of the list succeeds from a ready state (nothing is true because a call silently fails) *)
Example C10_all_calls_enabled :
  all_enabled ex_s0 (commit_ops false ex_cr ex_up ex_idle) = true
  /\ all_enabled ex_s0 (commit_ops true ex_cr ex_up ex_idle) = true
  /\ length (commit_ops false ex_cr ex_up ex_idle) = 29%nat.
Proof. vm_compute. repeat split; reflexivity. Qed.

(* the window, on this example: prefix 15 ends just after unlinkat of table 2 *)
Example C10_window_example :
  old_or_new ex_cr ex_up ex_s0 (run ex_s0 (firstn 15 (commit_ops false ex_cr ex_up ex_idle))) = false
  /\ old_new_or_temp ex_cr ex_up ex_s0 (run ex_s0 (firstn 15 (commit_ops false ex_cr ex_up ex_idle))) = true
  /\ forallb (fun k => old_or_new ex_cr ex_up ex_s0 (run ex_s0 (firstn k (commit_ops true ex_cr ex_up ex_idle))))
             (seq 0 40) = true.
Proof. vm_compute. repeat split; reflexivity. Qed.
