(* C11 -- No surviving run leaves lock/temp/half-created files; reads modify nothing.
   Statements only; every proof is `exact` of a lemma in Proofs/C11.v.

   The model (Model/Cleanup.v on top of Model/Fs.v and Model/Commit.v): one csvq process as a state
   machine over the directory [p_fs], the FileContainer [p_cont] (handlers with the resources they
   hold), the cached read-only views, the tables written by completed COMMITs [p_done] and the
   system calls issued so far [p_tr].  A run = any list of actions (load for reading, load for
   update with or without a change, CREATE TABLE, COMMIT, ROLLBACK, a failing statement, EXIT), each
   with an optional failure point standing for cancellation by SIGINT/SIGTERM/SIGQUIT, wait timeout,
   I/O or parse error; failures caused by the directory itself (missing or existing table, a
   competing holder's .lock / .rlock / .temp) are computed.  [run_process] = the program, the
   final auto-COMMIT if nothing failed, then the deferred AutoRollback + forced release of
   lib/cli/app.go.  The theorems quantify over ALL initial directories (with any competing
   holders' control files in them), ALL programs, ALL failure points and ALL map orders.

   The correspondence check (harness/c11.go, Harness/H11.v) requires on every run that the real
   binary's strace trace equals [p_tr] and the directory found equals [p_fs], for each kind of
   ending. *)
Require Import Csvq.Model.Base Csvq.Model.Fs Csvq.Model.Commit Csvq.Model.Cleanup.
Require Import Csvq.Proofs.FsFacts Csvq.Proofs.C10 Csvq.Proofs.C11.

(* the one hypothesis: the random read-lock name this process draws is not in use
   (RLockFilePath retries until it finds an unused name) *)
Definition C11_fresh (s0 : fs) : Prop := forall t, lookup s0 (rlockp t) = None.

(* ---- tracked -------------------------------------------------------------------------------------------
   at every statement boundary of every run: a path whose binding differs from the initial directory
   is a file some live handler of the container is responsible for (refs: its lock, temp, rlock, and
   the table file itself when the handler created it), or a table written by a completed COMMIT *)
Theorem C11_tracked : forall g s0 prog, C11_fresh s0 ->
  let s := fst (run_actions g (init s0) prog) in
  forall p, lookup (p_fs s) p <> lookup s0 p ->
    In p (flat_map refs (p_cont s))
    \/ exists t c, p = data t /\ In (t, c) (p_done s) /\ lookup (p_fs s) p = Some c.
Proof. exact tracked. Qed.
Print Assumptions C11_tracked.

(* the invariant behind it, with what it says about the handlers themselves *)
Theorem C11_handler_invariant : forall g s0 prog, C11_fresh s0 ->
  let s := fst (run_actions g (init s0) prog) in
  NoDup (map h_tbl (p_cont s))
  /\ (forall p, In p (flat_map refs (p_cont s)) -> lookup s0 p = None /\ exists_b (p_fs s) p = true)
  /\ (forall h, In h (p_cont s) -> exists_b (p_fs s) (data (h_tbl h)) = true).
Proof. exact handler_invariant. Qed.
Print Assumptions C11_handler_invariant.

(* ---- cleanup_complete ------------------------------------------------------------------------------------
   after the deferred release -- for every program, every ending (normal end, failing statement, EXIT,
   timeout, cancellation at any failure point, also inside COMMIT), every order of map iteration:
   the container is empty, EVERY control-file path is bound exactly as before the run (none of the
   run's own is left, no competing holder's file was touched), and every table file is as before
   unless a completed COMMIT wrote it (so: no created table of an uncommitted transaction) *)
Theorem C11_cleanup_complete : forall g s0 prog fin ord, C11_fresh s0 ->
  let s := run_process g s0 prog fin ord in
  p_cont s = []
  /\ (forall p, is_control p = true -> lookup (p_fs s) p = lookup s0 p)
  /\ (forall t, lookup (p_fs s) (data t) = lookup s0 (data t)
                \/ exists c, In (t, c) (p_done s) /\ lookup (p_fs s) (data t) = Some c).
Proof. exact cleanup_complete. Qed.
Print Assumptions C11_cleanup_complete.

(* ---- read_only_untouched ---------------------------------------------------------------------------------
   a program of reading statements (loads for reading, failing SELECTs, EXIT), ended in any way: no
   system call of the run can change a data file, and the whole directory is as before *)
Theorem C11_read_only_untouched : forall g s0 prog fin ord, C11_fresh s0 ->
  forallb is_reading prog = true -> is_commit fin = true ->
  let s := run_process g s0 prog fin ord in
  forallb (fun o => negb (mutates_data o)) (p_tr s) = true
  /\ (forall p, lookup (p_fs s) p = lookup s0 p).
Proof. exact read_only_untouched. Qed.
Print Assumptions C11_read_only_untouched.

(* ---- the decidable checker the harness evaluates on the directories it finds ---------------------------------
   (sound for every pair of directories; complete for maps without duplicate keys, which snapshots are) *)
Theorem C11_no_leftovers_checker_sound : forall s0 s, no_leftovers s0 s = true ->
  forall p, is_control p = true -> lookup s p = lookup s0 p.
Proof. exact no_leftovers_sound. Qed.
Print Assumptions C11_no_leftovers_checker_sound.

Theorem C11_no_leftovers_checker_complete : forall s0 s, NoDup (map fst s0) -> NoDup (map fst s) ->
  (forall p, is_control p = true -> lookup s p = lookup s0 p) -> no_leftovers s0 s = true.
Proof. exact no_leftovers_complete. Qed.
Print Assumptions C11_no_leftovers_checker_complete.

(* ---- non-vacuity: concrete runs --------------------------------------------------------------------------- *)
Definition ex_dir : fs :=
  [ (data 1, [107; 10; 49; 10]); (data 2, [107; 10; 50; 10]); (data 3, [107; 10; 51; 10]);
    (lockp 3, []); ((KRLock 7, 2), []) ]%N.         (* competing holders: a writer on 3, a reader on 2 *)
Definition ex_cfg := mkCfg false.

Example C11_fresh_nonvacuous : C11_fresh ex_dir.
Proof. intros t. unfold ex_dir, lookup, rlockp, path_eqb. simpl. destruct (N.eqb 1 t), (N.eqb 2 t), (N.eqb 3 t); reflexivity. Qed.

(* UPDATE t1; CREATE TABLE n (11); SELECT t1 (cached); then a statement fails: everything is rolled
   back -- 13 calls, the created table is gone, t1 keeps its bytes, the competitors' files remain *)
Example C11_error_run :
  let s := run_process ex_cfg ex_dir [AUpdate 1 (Some ([107; 10; 57], [10])%N) None; ACreate 11 ([97], [10])%N None; ARead 1 None; AError]
                       (ACommit [] [] [] None) [] in
  length (p_tr s) = 13%nat /\ fs_eqb (p_fs s) ex_dir = true /\ p_done s = [] /\ no_leftovers ex_dir (p_fs s) = true.
Proof. vm_compute. repeat split; reflexivity. Qed.

(* the same program ending normally commits both tables and leaves no control file of its own *)
Example C11_success_run :
  let s := run_process ex_cfg ex_dir [AUpdate 1 (Some ([107; 10; 57], [10])%N) None; ACreate 11 ([97], [10])%N None; ARead 1 None]
                       (ACommit [] [] [] None) [] in
  lookup (p_fs s) (data 1) = Some [107; 10; 57; 10]%N /\ lookup (p_fs s) (data 11) = Some [97; 10]%N
  /\ no_leftovers ex_dir (p_fs s) = true /\ length (p_tr s) = 19%nat.
Proof. vm_compute. repeat split; reflexivity. Qed.

(* the writer's lock on table 3 makes UPDATE t3 time out: no call at all; the reader's lock on table 2
   does not stop a read of table 2 but stops an update; cancellation between lock and temp file *)
Example C11_competing_holders :
  p_tr (run_process ex_cfg ex_dir [AUpdate 3 None None] (ACommit [] [] [] None) []) = []
  /\ length (p_tr (run_process ex_cfg ex_dir [ARead 2 None] (ACommit [] [] [] None) [])) = 7%nat
  /\ p_tr (run_process ex_cfg ex_dir [AUpdate 2 None None] (ACommit [] [] [] None) []) = []
  /\ p_tr (run_process ex_cfg ex_dir [AUpdate 1 None (Some 2%nat)] (ACommit [] [] [] None) [])
     = [OCreate (lockp 1); OClose (data 1); OClose (lockp 1); ORemove (lockp 1)].
Proof. vm_compute. repeat split; reflexivity. Qed.

(* the final COMMIT fails after 4 calls of its writing phase (created table written, temp file of
   table 1 truncated; a failing write, or cancellation): nothing is committed, nothing is left *)
Example C11_cancelled_commit :
  let s := run_process ex_cfg ex_dir [AUpdate 1 (Some ([107], [10])%N) None; ACreate 11 ([97], [10])%N None]
                       (ACommit [] [] [] (Some 4%nat)) [] in
  fs_eqb (p_fs s) ex_dir = true /\ p_done s = [] /\ existsb (fun o => op_eqb o (OTrunc (tempp 1))) (p_tr s) = true.
Proof. vm_compute. repeat split; reflexivity. Qed.

(* the retry loop of the read lock (.lock made, .rlock cannot be made, .lock removed, n times) followed by
   the wait timeout: six calls, nothing left *)
Example C11_rlock_retries :
  let s := run_process ex_cfg ex_dir [ARetryRead 1 2; ARead 1 (Some 0%nat)] (ACommit [] [] [] None) [] in
  length (p_tr s) = 6%nat /\ fs_eqb (p_fs s) ex_dir = true.
Proof. vm_compute. repeat split; reflexivity. Qed.

