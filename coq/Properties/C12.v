(* C12 -- Results are a function of the inputs: independent of --cpu, scheduling and run.
   Statements only; every proof is `exact` of a lemma in Proofs/Par.v (or a vm_compute witness for
   the refutations).  The model these theorems speak about (Model/Par.v: assign_number,
   record_range, the merge patterns) is compared with GoroutineManager.AssignRoutineNumber,
   GoroutineTaskManager.RecordRange and CalcMinimumRequired by the correspondence check, and the
   use of the patterns by the call sites is tied by end-to-end determinism runs of the binary. *)
From Coq Require Import ZArith List Bool Permutation Lia Sorted.
Require Import Csvq.Model.Par Csvq.Proofs.Par Csvq.Harness.H12 Csvq.Proofs.C12.
Import ListNotations.
Open Scope nat_scope.

(* ---- how the records are split: for EVERY record count and EVERY number of goroutines -------- *)
Theorem C12_ranges_partition : forall len n, 1 <= n ->
  concat (map (range len n) (seq 0 n)) = seq 0 len.
Proof. exact ranges_partition. Qed.
Print Assumptions C12_ranges_partition.

Theorem C12_ranges_disjoint : forall len n i j k, 1 <= n -> i < n -> j < n -> i <> j ->
  In k (range len n i) -> In k (range len n j) -> False.
Proof. exact ranges_disjoint. Qed.
Print Assumptions C12_ranges_disjoint.

Theorem C12_ranges_owner_unique : forall len n k, 1 <= n -> k < len ->
  exists i, i < n /\ In k (range len n i) /\ forall j, j < n -> In k (range len n j) -> j = i.
Proof. exact ranges_owner_unique. Qed.

Theorem C12_ranges_ordered : forall len n i j x y, 1 <= n -> i < j -> j < n ->
  In x (range len n i) -> In y (range len n j) -> x < y.
Proof. exact ranges_ordered. Qed.

Theorem C12_ranges_within : forall len n i k, 1 <= n -> i < n -> In k (range len n i) -> k < len.
Proof. exact ranges_within. Qed.

(* the quirk of the code: with fewer records than goroutines only the LAST goroutine works *)
Theorem C12_range_small : forall len n i, 1 <= n -> len < n -> i < n ->
  range len n i = if i =? n - 1 then seq 0 len else [].
Proof. exact range_small. Qed.

(* the decidable checker the correspondence runs on the ranges RecordRange actually returned
   (Harness/H12.v r_spec_ok) accepts only partitions: Number ranges enumerating 0..recordLen-1 once *)
Theorem C12_range_checker_sound : forall c, r_spec_ok c = true ->
  Z.of_nat (length (robs c)) = (2 * rn c)%Z /\ (0 <= rlen c)%Z /\ covered (robs c) = zseq 0 (Z.to_nat (rlen c)).
Proof. exact r_spec_ok_sound. Qed.
Example C12_range_checker_accepts_model : r_spec_ok (mkR 0 10 4 (model_ranges 10 4)) = true
  /\ r_spec_ok (mkR 0 3 4 (model_ranges 3 4)) = true /\ r_spec_ok (mkR 0 10 2 [0; 5; 6; 10]%Z) = false.
Proof. vm_compute. repeat split; reflexivity. Qed.

Example C12_ranges_example : ranges 10 4 = [[0;1]; [2;3]; [4;5]; [6;7;8;9]] /\ ranges 3 4 = [[]; []; []; [0;1;2]].
Proof. vm_compute. split; reflexivity. Qed.

(* ---- how many goroutines ------------------------------------------------------------------------ *)
Theorem C12_number_bounds : forall len min cpu running, (1 <= cpu)%Z ->
  let n := fst (assign_number len min cpu running) in
  let min' := if (min <? 1)%Z then minimum_required_per_cpu_core else min in
  (1 <= n <= cpu)%Z /\ (n <= Z.max 1 (len / min'))%Z /\ (n <= Z.max 1 (cpu - running))%Z
  /\ snd (assign_number len min cpu running) = (running + n - 1)%Z.
Proof. exact number_bounds. Qed.
Print Assumptions C12_number_bounds.

Theorem C12_running_invariant : forall len min cpu running, (1 <= cpu)%Z -> (0 <= running <= cpu - 1)%Z ->
  (0 <= snd (assign_number len min cpu running) <= cpu - 1)%Z.
Proof. exact running_invariant. Qed.

Theorem C12_count_restored : forall len min cpu running, (1 <= cpu)%Z -> (0 <= running)%Z ->
  let a := assign_number len min cpu running in finish (fst a) (snd a) = running.
Proof. exact count_restored. Qed.

Example C12_number_examples :
  fst (assign_number 159 (-1) 8 0) = 1%Z /\ fst (assign_number 160 (-1) 8 0) = 2%Z /\
  fst (assign_number 2000 (-1) 8 0) = 8%Z /\ fst (assign_number 2000 (-1) 8 5) = 3%Z /\
  fst (assign_number 2000 (-1) 8 20) = 1%Z /\ fst (assign_number 2000 150 16 0) = 13%Z.
Proof. vm_compute. repeat split; reflexivity. Qed.

(* ---- merge patterns: equal to the sequential result for every n and every schedule ------------- *)
Theorem C12_slots_eq_seq : forall (A : Type) (f : nat -> A) (init : list A) len n sched, 1 <= n ->
  length init = len -> interleaving (all_slot_writes f len n) sched ->
  apply_writes sched init = seq_map f len.
Proof. exact slots_eq_seq. Qed.
Print Assumptions C12_slots_eq_seq.

Theorem C12_concat_eq_seq : forall (A : Type) (g : nat -> list A) len n, 1 <= n ->
  par_concat g len n = seq_flat g len.
Proof. exact concat_eq_seq. Qed.
Print Assumptions C12_concat_eq_seq.

Theorem C12_concat_slots_eq_seq : forall (A : Type) (g : nat -> list A) len n sched (init : list (list A)), 1 <= n ->
  length init = n ->
  Permutation (map (fun i => (i, worker_list g len n i)) (seq 0 n)) sched ->
  concat (apply_writes sched init) = seq_flat g len.
Proof. exact concat_slots_eq_seq. Qed.

Theorem C12_filter_eq_seq : forall (p : nat -> bool) len n, 1 <= n ->
  par_concat (fun k => if p k then [k] else []) len n = filter p (seq 0 len).
Proof. exact filter_eq_seq. Qed.

Theorem C12_cpu_independent : forall (A B : Type) (f : nat -> A) (g : nat -> list B) (len : nat)
    min1 min2 cpu1 cpu2 run1 run2 (init : list A) s1 s2,
  (1 <= cpu1)%Z -> (1 <= cpu2)%Z -> length init = len ->
  let n1 := Z.to_nat (fst (assign_number (Z.of_nat len) min1 cpu1 run1)) in
  let n2 := Z.to_nat (fst (assign_number (Z.of_nat len) min2 cpu2 run2)) in
  interleaving (all_slot_writes f len n1) s1 ->
  interleaving (all_slot_writes f len n2) s2 ->
  apply_writes s1 init = seq_map f len /\ apply_writes s2 init = seq_map f len /\
  par_concat g len n1 = seq_flat g len /\ par_concat g len n2 = seq_flat g len.
Proof. exact cpu_independent. Qed.
Print Assumptions C12_cpu_independent.

(* the schedules quantified over exist: the sequential one always, and e.g. strict alternation *)
Theorem C12_schedules_exist : forall (A : Type) (ls : list (list A)), interleaving ls (concat ls).
Proof. exact interleaving_concat. Qed.
Theorem C12_run_schedule_sound : forall (A : Type) sched (ls : list (list A)) r,
  run_schedule ls sched = Some r -> interleaving ls r.
Proof. exact run_schedule_sound. Qed.

Example C12_slots_nonvacuous :
  exists sched, interleaving (all_slot_writes (fun k => k * k) 6 3) sched /\
                sched = [(4, 16); (0, 0); (2, 4); (5, 25); (1, 1); (3, 9)] /\
                apply_writes sched (repeat 0 6) = [0; 1; 4; 9; 16; 25].
Proof.
  eexists. split; [apply (run_schedule_sound _ [2; 0; 1; 2; 0; 1]); vm_compute; reflexivity|].
  split; reflexivity.
Qed.

(* ---- GROUP BY: the group list is appended in ARRIVAL order (view.go:165-176) -- F-C12-1 ----- *)
(* full statement: the order of the groups does not depend on the schedule *)
Definition arrival_merge_schedule_independent : Prop :=
  forall (key : nat -> nat) len n a1 a2, 1 <= n ->
    interleaving (all_worker_keys Nat.eqb key len n) a1 ->
    interleaving (all_worker_keys Nat.eqb key len n) a2 ->
    group_keys_of Nat.eqb a1 = group_keys_of Nat.eqb a2.

(* 160 records, --cpu 2 (two goroutines of 80 records), key = record / 80: goroutine 0 finds key 0,
   goroutine 1 finds key 1; whoever takes the mutex first decides the order of the result *)
Theorem C12_arrival_merge_schedule_dependent_refuted : ~ arrival_merge_schedule_independent.
Proof.
  intros H.
  specialize (H (fun r => r / 80) 160 2 [0; 1] [1; 0] ltac:(lia)).
  assert (H1 : interleaving (all_worker_keys Nat.eqb (fun r => r / 80) 160 2) [0; 1])
    by (apply (run_schedule_sound _ [0; 1]); vm_compute; reflexivity).
  assert (H2 : interleaving (all_worker_keys Nat.eqb (fun r => r / 80) 160 2) [1; 0])
    by (apply (run_schedule_sound _ [1; 0]); vm_compute; reflexivity).
  specialize (H H1 H2). vm_compute in H. discriminate.
Qed.
Print Assumptions C12_arrival_merge_schedule_dependent_refuted.

(* the same witness against --cpu independence: one goroutine yields 0,1 - two may yield 1,0 *)
Definition group_order_cpu_independent : Prop :=
  forall (key : nat -> nat) len n a, 1 <= n ->
    interleaving (all_worker_keys Nat.eqb key len n) a ->
    group_keys_of Nat.eqb a = group_keys_seq Nat.eqb key len.
Theorem C12_group_order_cpu_dependent_refuted : ~ group_order_cpu_independent.
Proof.
  intros H.
  specialize (H (fun r => r / 80) 160 2 [1; 0] ltac:(lia)).
  assert (H2 : interleaving (all_worker_keys Nat.eqb (fun r => r / 80) 160 2) [1; 0])
    by (apply (run_schedule_sound _ [1; 0]); vm_compute; reflexivity).
  specialize (H H2). vm_compute in H. discriminate.
Qed.
Example C12_witness_is_reachable : fst (assign_number 160 (-1) 2 0) = 2%Z.
Proof. reflexivity. Qed.

(* what IS true of the code as it stands: same groups (each once), same members in the same
   order, sequential order with one goroutine *)
Theorem C12_arrival_keys_partial : forall (key : nat -> nat) len n a1 a2, 1 <= n ->
  interleaving (all_worker_keys Nat.eqb key len n) a1 ->
  interleaving (all_worker_keys Nat.eqb key len n) a2 ->
  Permutation (group_keys_of Nat.eqb a1) (group_keys_of Nat.eqb a2).
Proof. exact (arrival_keys_perm Nat.eqb nat_eqb_spec). Qed.
Print Assumptions C12_arrival_keys_partial.

Theorem C12_arrival_keys_set : forall (key : nat -> nat) len n arrivals k, 1 <= n ->
  interleaving (all_worker_keys Nat.eqb key len n) arrivals ->
  (In k (group_keys_of Nat.eqb arrivals) <-> In k (group_keys_seq Nat.eqb key len)).
Proof. exact (arrival_keys_set Nat.eqb nat_eqb_spec). Qed.

Theorem C12_arrival_keys_one_goroutine : forall (key : nat -> nat) len arrivals,
  interleaving (all_worker_keys Nat.eqb key len 1) arrivals ->
  group_keys_of Nat.eqb arrivals = group_keys_seq Nat.eqb key len.
Proof. exact (arrival_keys_one Nat.eqb). Qed.

Theorem C12_group_members_eq_seq : forall (key : nat -> nat) len n k, 1 <= n ->
  group_members Nat.eqb key len n k = group_members_seq Nat.eqb key len k.
Proof. exact (group_members_eq_seq Nat.eqb). Qed.

(* the repair proposed in hooks/fix_group_key_order.patch: after the goroutines are done, sort the
   keys by the index of their first record.  Whatever the arrival order was, the result is then the
   one-goroutine list (sort.Slice is trusted to return a sorted permutation). *)
Theorem C12_group_keys_sorted_by_first_record : forall (key : nat -> nat) len n arrivals l, 1 <= n ->
  interleaving (all_worker_keys Nat.eqb key len n) arrivals ->
  Permutation l (group_keys_of Nat.eqb arrivals) ->
  StronglySorted (fun x y => first_pos x (map key (seq 0 len)) < first_pos y (map key (seq 0 len))) l ->
  l = group_keys_seq Nat.eqb key len.
Proof. exact group_keys_sorted_eq_seq. Qed.
Print Assumptions C12_group_keys_sorted_by_first_record.
Example C12_group_keys_sorted_example :
  let key := fun r => (r + 2) / 80 in
  group_keys_seq Nat.eqb key 160 = [0; 1; 2] /\ first_pos 1 (map key (seq 0 160)) = 78 /\ first_pos 2 (map key (seq 0 160)) = 158.
Proof. vm_compute. repeat split; reflexivity. Qed.

(* ---- REPLACE (repaired in /repo by 0ce9e2a): unmatched rows are appended in the order given ------- *)
(* view.go replace() now keeps the matched flags in a slice and ranges over it in index order *)
Theorem C12_replace_order : forall replaced m, replace_inserts replaced (seq 0 m) = unmatched replaced m.
Proof. intros. reflexivity. Qed.
(* why the repair was needed (F-C05-1): ranging over a Go map visits the indices in an arbitrary
   order, and the appended rows came in that order *)
Definition map_order_independent : Prop :=
  forall replaced m o1 o2, Permutation (seq 0 m) o1 -> Permutation (seq 0 m) o2 ->
    replace_inserts replaced o1 = replace_inserts replaced o2.
Theorem C12_map_order_dependent_refuted : ~ map_order_independent.
Proof.
  intros H. specialize (H (fun _ => false) 2 [0; 1] [1; 0] (Permutation_refl _) (perm_swap 1 0 [])).
  vm_compute in H. discriminate.
Qed.
Theorem C12_map_order_partial : forall replaced m order, Permutation (seq 0 m) order ->
  Permutation (unmatched replaced m) (replace_inserts replaced order).
Proof. exact replace_inserts_perm. Qed.
Print Assumptions C12_map_order_partial.
