(* C13 -- Parallel query evaluation and loading are free of data races.
   Statements only; proofs are `exact` of lemmas in Proofs/Access.v and Proofs/ParSites.v (or
   vm_compute for the finite fact base and the refutation witnesses).

   What is proved: race freedom -- in a model of the Go memory model's happens-before (program
   order, go statement, WaitGroup.Wait, channel send/receive/close, mutex locksets) -- of the access
   SUMMARIES of csvq's parallel sites, for every record count, every number of goroutines and every
   interleaving.  The summaries are tied to the code (i) by a fact base re-extracted from the
   sources on every run (Harness/H13.v expected_sites = gen/C13/Sites.v) and (ii) by race-detector
   runs of every site.  Three sites are refuted. *)
From Coq Require Import List Bool String Arith Relations.
Require Import Csvq.Model.Par Csvq.Model.Access Csvq.Model.ParSites.
Require Import Csvq.Proofs.Par Csvq.Proofs.Access Csvq.Proofs.ParSites Csvq.Harness.H13.
Import ListNotations.
Open Scope nat_scope.

(* ---- fork/join: races are exactly the conflicting pairs of two different workers ------------- *)
Theorem C13_fork_join_race_free : forall pre post workers cap,
  (forall i j a b, i <> j -> In a (nth i workers []) -> In b (nth j workers []) -> ~ conflict a b) ->
  race_free cap (fj_exec pre post workers).
Proof. exact fj_race_free. Qed.
Print Assumptions C13_fork_join_race_free.

Theorem C13_fork_join_race : forall pre post workers cap i j a b, i <> j ->
  In a (nth i workers []) -> In b (nth j workers []) -> conflict a b -> race cap (fj_exec pre post workers).
Proof. exact fj_race. Qed.
Print Assumptions C13_fork_join_race.

(* workers may talk over channels: that only adds happens-before edges *)
Theorem C13_fork_join_channels_race_free : forall pre post (ws : list (list step)) cap,
  (forall i j a b, i <> j -> In (SAcc a) (nth i ws []) -> In (SAcc b) (nth j ws []) -> ~ conflict a b) ->
  race_free cap (fjs_exec pre post ws).
Proof. exact fjs_race_free. Qed.

(* ---- workers splitting the records by RecordRange --------------------------------------------- *)
Theorem C13_drf_by_ranges : forall cap pre post body epi len n, 1 <= n ->
  record_local body -> epilogue_local body epi ->
  race_free cap (fj_exec pre post (range_workers body epi len n)).
Proof. exact drf_by_ranges. Qed.
Print Assumptions C13_drf_by_ranges.

(* "write only Idx a i for i in the own range, read only what nobody writes" is such a body *)
Theorem C13_own_index_discipline : forall body, writes_own_index body -> reads_unwritten body -> record_local body.
Proof. exact own_index_record_local. Qed.

Theorem C13_drf_mutex : forall a b m, In m (a_locks a) -> In m (a_locks b) -> ~ conflict a b.
Proof. exact drf_mutex. Qed.

Example C13_drf_by_ranges_nonvacuous :
  let body := fun k => [mkAcc Rd (Idx "view.RecordSet" k) []; mkAcc Wr (Idx "results" k) []] in
  writes_own_index body /\ reads_unwritten body /\
  range_workers body (fun _ => []) 5 2 =
    [ [mkAcc Rd (Idx "view.RecordSet" 0) []; mkAcc Wr (Idx "results" 0) []; mkAcc Rd (Idx "view.RecordSet" 1) []; mkAcc Wr (Idx "results" 1) []];
      [mkAcc Rd (Idx "view.RecordSet" 2) []; mkAcc Wr (Idx "results" 2) []; mkAcc Rd (Idx "view.RecordSet" 3) []; mkAcc Wr (Idx "results" 3) [];
       mkAcc Rd (Idx "view.RecordSet" 4) []; mkAcc Wr (Idx "results" 4) []] ].
Proof.
  cbv zeta. split; [|split].
  - intros k a [<-|[<-|[]]] H; [discriminate|]. eexists. reflexivity.
  - intros k k' a a' [<-|[<-|[]]] Hm [<-|[<-|[]]] Hm' Hl; try discriminate.
  - vm_compute. reflexivity.
Qed.

(* ---- the task manager: error-free runs ------------------------------------------------------- *)
Theorem C13_task_manager_drf : forall cap pre post body epi fails len n, 1 <= n ->
  (forall k, fails k = false) ->
  record_local body -> epilogue_local body epi ->
  (forall k a, In a (body k) -> avoids_tm a) -> (forall i a, In a (epi i) -> avoids_tm a) ->
  race_free cap (tm_exec pre post body epi fails len n).
Proof. exact tm_drf. Qed.
Print Assumptions C13_task_manager_drf.

(* ---- F-C13-1: the error slot --------------------------------------------------------------------- *)
(* full statement: task-manager sites are race free whatever the records do *)
Definition task_manager_always_race_free : Prop :=
  forall cap pre post body epi fails len n, 1 <= n -> record_local body -> epilogue_local body epi ->
    (forall k a, In a (body k) -> avoids_tm a) -> (forall i a, In a (epi i) -> avoids_tm a) ->
    race_free cap (tm_exec pre post body epi fails len n).

Theorem C13_haserror_race : forall cap pre post body epi fails len n i j k kj,
  i <> j -> i < n -> j < n -> In k (range len n i) -> In kj (range len n j) -> fails k = true ->
  race cap (tm_exec pre post body epi fails len n).
Proof. exact tm_error_race. Qed.
Print Assumptions C13_haserror_race.

(* witness: 160 records, 2 goroutines, record 0 raises an error *)
Theorem C13_task_manager_always_race_free_refuted : ~ task_manager_always_race_free.
Proof.
  intros H.
  apply (H no_cap [] [] (fun _ => []) (fun _ => []) (fun k => Nat.eqb k 0) 160 2 (le_S _ _ (le_n 1))).
  - intros k1 k2 a1 a2 _ [].
  - split; intros; contradiction.
  - intros k a [].
  - intros i a [].
  - apply (tm_error_race no_cap [] [] _ _ _ 160 2 0 1 0 80); auto.
    + vm_compute. auto.
    + vm_compute. auto 100.
Qed.
(* the partial statement that holds is C13_task_manager_drf (no record raises an error); with
   hooks/fix_haserror_lock.patch (HasError reads the slot under grTaskMutex) the full statement holds: *)
Theorem C13_task_manager_locked_drf : forall cap pre post body epi fails len n, 1 <= n ->
  record_local body -> epilogue_local body epi ->
  (forall k a, In a (body k) -> avoids_tm a) -> (forall i a, In a (epi i) -> avoids_tm a) ->
  race_free cap (tm_exec_with hl_locked pre post body epi fails len n).
Proof. exact tm_drf_locked. Qed.
Print Assumptions C13_task_manager_locked_drf.

(* ---- the syntactic discipline on the extracted fact base ---------------------------------------- *)
Theorem C13_discipline_sound : forall s, site_ok s = true ->
  forall cap pre post fails len n, 1 <= n -> (forall k, fails k = false) ->
  race_free cap (site_exec s pre post fails len n).
Proof. exact discipline_sound. Qed.
Print Assumptions C13_discipline_sound.

Theorem C13_discipline_sound_locked : forall s, site_ok s = true ->
  forall cap pre post fails len n, 1 <= n ->
  race_free cap (site_exec_with hl_locked s pre post fails len n).
Proof. intros s H cap pre post fails len n Hn. apply discipline_sound_gen; auto. right. cbn. auto. Qed.

(* every site of the fact base is covered: by the discipline, by a hand summary, or it is a method
   of the task manager / the post-Wait side of a go statement (finite check) *)
Theorem C13_expected_sites_classified : forallb classified (expected_sites ++ expected_alternatives) = true.
Proof. vm_compute. reflexivity. Qed.

Theorem C13_sites_drf : forall s, In s expected_sites ->
  (String.eqb (s_kind s) "go" || String.eqb (s_kind s) "run" || String.eqb (s_kind s) "evalseq")%bool = true ->
  is_exception (s_key s) = false ->
  forall cap pre post len n, 1 <= n -> race_free cap (site_exec s pre post (fun _ => false) len n).
Proof.
  intros s Hin Hk Hex cap pre post len n Hn. apply discipline_sound; auto.
  pose proof C13_expected_sites_classified as H. rewrite forallb_forall in H.
  specialize (H s (in_or_app _ _ s (or_introl Hin))).
  unfold classified in H. rewrite Hex in H. cbn [orb] in H.
  destruct (String.eqb (s_kind s) "method") eqn:E1.
  { apply String.eqb_eq in E1. rewrite E1 in Hk. discriminate. }
  destruct (String.eqb (s_kind s) "parent") eqn:E2.
  { apply String.eqb_eq in E2. rewrite E2 in Hk. discriminate. }
  cbn in H. rewrite Hk in H. exact H.
Qed.

(* the sites named in DESIGN.md, one by one (the general statement above covers all of them) *)
Ltac site_drf := intros; apply discipline_sound; [vm_compute; reflexivity|assumption|auto].
Theorem site_filter_drf : forall cap pre post len n, 1 <= n ->
  race_free cap (site_exec (site_by_key "lib/query/view.go:View.filter:evalseq#0") pre post (fun _ => false) len n).
Proof. site_drf. Qed.
Theorem site_eval_column_drf : forall cap pre post len n, 1 <= n ->
  race_free cap (site_exec (site_by_key "lib/query/view.go:View.evalColumn:evalseq#0") pre post (fun _ => false) len n).
Proof. site_drf. Qed.
Theorem site_group_drf : forall cap pre post len n, 1 <= n ->
  race_free cap (site_exec (site_by_key "lib/query/view.go:View.group:go#0") pre post (fun _ => false) len n).
Proof. site_drf. Qed.
Theorem site_group_records_drf : forall cap pre post len n, 1 <= n ->
  race_free cap (site_exec (site_by_key "lib/query/view.go:View.group:run#0") pre post (fun _ => false) len n).
Proof. site_drf. Qed.
Theorem site_comparison_keys_drf : forall cap pre post len n, 1 <= n ->
  race_free cap (site_exec (site_by_key "lib/query/view.go:View.GenerateComparisonKeys:run#0") pre post (fun _ => false) len n).
Proof. site_drf. Qed.
Theorem site_order_by_drf : forall cap pre post len n, 1 <= n ->
  race_free cap (site_exec (site_by_key "lib/query/view.go:View.OrderBy:run#0") pre post (fun _ => false) len n).
Proof. site_drf. Qed.
Theorem site_fix_drf : forall cap pre post len n, 1 <= n ->
  race_free cap (site_exec (site_by_key "lib/query/view.go:View.Fix:run#0") pre post (fun _ => false) len n).
Proof. site_drf. Qed.
Theorem site_extend_capacity_drf : forall cap pre post len n, 1 <= n ->
  race_free cap (site_exec (site_by_key "lib/query/view.go:View.ExtendRecordCapacity:run#0") pre post (fun _ => false) len n).
Proof. site_drf. Qed.
Theorem site_replace_drf : forall cap pre post len n, 1 <= n ->
  race_free cap (site_exec (site_by_key "lib/query/view.go:View.replace:run#2") pre post (fun _ => false) len n).
Proof. site_drf. Qed.
Theorem site_inner_join_drf : forall cap pre post len n, 1 <= n ->
  race_free cap (site_exec (site_by_key "lib/query/join.go:InnerJoin:go#0") pre post (fun _ => false) len n).
Proof. site_drf. Qed.
Theorem site_outer_join_drf : forall cap pre post len n, 1 <= n ->
  race_free cap (site_exec (site_by_key "lib/query/join.go:OuterJoin:go#0") pre post (fun _ => false) len n).
Proof. site_drf. Qed.
Theorem site_analyze_keys_drf : forall cap pre post len n, 1 <= n ->
  race_free cap (site_exec (site_by_key "lib/query/analytic_function.go:Analyze:run#0") pre post (fun _ => false) len n).
Proof. site_drf. Qed.
Theorem site_ltsv_padding_drf : forall cap pre post len n, 1 <= n ->
  race_free cap (site_exec (site_by_key "lib/query/load_view.go:loadViewFromLTSVFile:run#0") pre post (fun _ => false) len n).
Proof. site_drf. Qed.
Theorem site_jsonl_convert_drf : forall cap pre post len n, 1 <= n ->
  race_free cap (site_exec (site_by_key "lib/query/load_view.go:loadViewFromJsonLinesFile:run#0") pre post (fun _ => false) len n).
Proof. site_drf. Qed.
Example site_by_key_finds : s_key (site_by_key "lib/query/view.go:View.group:go#0") = "lib/query/view.go:View.group:go#0"%string
  /\ List.length (s_facts (site_by_key "lib/query/view.go:View.group:go#0")) = 5.
Proof. vm_compute. split; reflexivity. Qed.

(* ---- hand-summarised sites ----------------------------------------------------------------------- *)
Theorem site_cross_join_drf : forall cap pre post m len n, 1 <= n ->
  race_free cap (tm_exec pre post (crossjoin_body m) (fun _ => []) (fun _ => false) len n).
Proof. exact site_crossjoin_drf. Qed.
Print Assumptions site_cross_join_drf.

Theorem site_analyze_partitions_drf : forall cap pre post key nrec len n, 1 <= n ->
  race_free cap (tm_exec pre post (analyze_body key nrec) (fun _ => []) (fun _ => false) len n).
Proof. exact site_analyze_drf. Qed.
Theorem C13_partitions_disjoint : forall key nrec p1 p2 r, p1 <> p2 ->
  In r (partition key nrec p1) -> In r (partition key nrec p2) -> False.
Proof. exact partitions_disjoint. Qed.
Example C13_partition_example :
  let key := fun r => r mod 3 in
  partition_keys key 7 = [0; 1; 2] /\ partition key 7 0 = [0; 3; 6] /\ partition key 7 2 = [2; 5].
Proof. vm_compute. repeat split; reflexivity. Qed.

Theorem site_lateral_join_drf : forall cap pre post len n, 1 <= n ->
  race_free cap (tm_exec pre post lateral_body (fun _ => []) (fun _ => false) len n).
Proof. exact site_lateral_drf. Qed.

(* ---- F-C13-4 (repaired in /repo by d44f076): the field-index cache of outer records ---------------- *)
(* the code now gives every goroutine its own cache for the outer records: race free whatever misses *)
Theorem site_outer_cache_per_goroutine_drf : forall cap pre post misses len n,
  race_free cap (fj_exec pre post (outer_cache_workers misses len n)).
Proof. exact site_outer_cache_drf. Qed.
Print Assumptions site_outer_cache_per_goroutine_drf.
(* why the repair was needed: with ONE cache shared by the goroutines (the code before d44f076) a
   goroutine that does not find the outer field races with every other one *)
Theorem C13_shared_outer_cache_race : forall cap pre post misses len n i j k kj,
  i <> j -> i < n -> j < n -> In k (range len n i) -> In kj (range len n j) -> misses k = true ->
  race cap (tm_exec pre post (outer_cache_body misses) (fun _ => []) (fun _ => false) len n).
Proof. exact outer_cache_race. Qed.

(* ---- F-C13-2: the loaders ---------------------------------------------------------------------------- *)
Definition loader_race_free : Prop := forall m fails, race_free loader_cap (loader_exec true m fails).
Theorem C13_loader_pos_race_refuted : ~ loader_race_free.
Proof. intros H. exact (H 2 false loader_pos_race). Qed.
Print Assumptions C13_loader_pos_race_refuted.
(* partial: without the progress counter pos (reader reports no error), for every number of rows *)
Theorem C13_loader_partial : forall cap m, race_free cap (loader_exec false m false).
Proof. exact site_loader_drf_except_pos. Qed.
Print Assumptions C13_loader_partial.
(* scaled-down instances (buffer and prepared capacity 2 instead of 300), decided by computing the
   happens-before relation: the code as it stands races, the repaired order of the tests
   (hooks/fix_loader_pos_read_after_handover.patch) does not, and the error slot is ordered by close *)
Example C13_loader_small_current_races : race small_cap (loader_exec_gen EveryRow 2 4 false).
Proof. exact loader_small_current_races. Qed.
Example C13_loader_small_fixed_race_free : race_free small_cap (loader_exec_gen AtCap 2 4 false).
Proof. exact loader_small_fixed_race_free. Qed.
Example C13_loader_small_error_path_race_free : race_free small_cap (loader_exec_gen AtCap 2 3 true).
Proof. exact loader_small_error_path_race_free. Qed.

(* ---- F-C13-3: the signal goroutine -------------------------------------------------------------------- *)
Definition signal_race_free : Prop := race_free signal_cap signal_exec.
Theorem C13_signal_race_refuted : ~ signal_race_free.
Proof. intros H. exact (H signal_race). Qed.
Print Assumptions C13_signal_race_refuted.
(* with hooks/fix_signal_received_mutex.patch *)
Theorem C13_signal_fixed_race_free : race_free signal_cap signal_exec_fixed.
Proof. exact signal_fixed_race_free. Qed.
