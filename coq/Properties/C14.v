(* C14 -- Evaluation never changes what it only reads: pooled values, shared syntax trees.
   Statements only; every proof is `exact` of a lemma in Proofs/Pool.v.  The model (Model/Pool.v) is
   the heap of pooled cells of lib/value/pool.go under an ARBITRARY sync.Pool policy, and a machine
   of pointer moves / allocations / discards that abstracts what lib/query does with value.Primary
   pointers.  The tie to the code is (1) the fact base gen/C14/Sites.v that /verif/translator
   re-extracts from /repo on every run (every value.Discard call site, every constructor of
   lib/value, every write through a lib/parser value) and that Harness/H14.v checks with the very
   predicates used below (site_holds, awrite_ok), and (2) differential runs of the implementation
   with the pool active and with a poisoning Discard. *)
From Coq Require Import NArith List Bool.
Require Import Csvq.Model.Pool Csvq.Proofs.Pool Csvq.Harness.H14.
Import ListNotations.
Open Scope N_scope.

(* ---- pool_transparent ---------------------------------------------------------------------------
   For EVERY pool policy (which objects the pool keeps, which one Get returns, at every step), every
   disciplined instruction sequence and every well-formed initial state: the pooled run gets stuck
   iff the pool-free run does, produces the same outputs, and every ref that is not dead reads the
   same value as in the pool-free semantics. *)
Theorem C14_pool_transparent :
  forall (cell : Type) (opsem : N -> cell -> cell -> cell) (pol : policy) (prog : list (instr cell)) (sp : pstate cell),
    wf_p cell sp -> disciplined prog = true ->
    same_observations cell prog (run_p opsem pol prog sp) (run_v opsem prog (abs sp)).
Proof. exact pool_transparent. Qed.
Print Assumptions C14_pool_transparent.

(* ... hence no two policies (LIFO re-use, never re-use = the poisoning build, a pool emptied by the
   garbage collector at arbitrary moments, ...) can be told apart *)
Theorem C14_policy_irrelevant :
  forall (cell : Type) (opsem : N -> cell -> cell -> cell) (pol1 pol2 : policy) (prog : list (instr cell)) (sp : pstate cell),
    wf_p cell sp -> disciplined prog = true ->
    match run_p opsem pol1 prog sp, run_p opsem pol2 prog sp with
    | Some a, Some b => p_outs a = p_outs b /\ forall x, final_status cell prog x <> Dead -> deref a x = deref b x
    | None, None => True
    | _, _ => False
    end.
Proof. exact policy_irrelevant. Qed.
Print Assumptions C14_policy_irrelevant.

(* what must NOT change: at every point of the evaluation (every prefix), a ref the program never
   assigns -- a literal of the tree, a table cell, a variable, a cursor row, a cached view -- reads
   exactly as it did initially, whatever the pool re-issued in between *)
Theorem C14_reads_see_initial :
  forall (cell : Type) (opsem : N -> cell -> cell -> cell) (pol : policy) (pre post : list (instr cell))
         (sp sp1 : pstate cell) (x : ref),
    wf_p cell sp -> disciplined (pre ++ post) = true -> none_of writes x (pre ++ post) = true ->
    run_p opsem pol pre sp = Some sp1 -> deref sp1 x = deref sp x.
Proof. exact reads_see_initial. Qed.
Print Assumptions C14_reads_see_initial.

(* ---- discipline_sound ---------------------------------------------------------------------------
   `conforms cs prog s x l1 l3` says what the translator's facts about call site s MEAN for a trace
   in which that Discard executes on ref x (prog = l1 ++ IDiscard x :: l3): a fresh origin means the
   last definition of x is an allocation; "does not escape" means no pointer copy out of x;
   "no use after" means nothing after the call mentions x.  If the Boolean check that the harness
   evaluates on the regenerated fact base is true and every Discard of the trace comes from a listed
   site, the trace is disciplined. *)
Theorem C14_discipline_sound :
  forall (cell : Type) (cs : list ctor) (sites : list site) (prog : list (instr cell)),
    forallb (site_holds cs) sites = true ->
    (forall x l1 l3, prog = l1 ++ IDiscard x :: l3 -> exists s, In s sites /\ conforms cell cs prog s x l1 l3) ->
    disciplined prog = true.
Proof. exact discipline_sound. Qed.
Print Assumptions C14_discipline_sound.

Theorem C14_facts_give_transparency :
  forall (cell : Type) (opsem : N -> cell -> cell -> cell) (cs : list ctor) (sites : list site)
         (prog : list (instr cell)) (pol : policy) (sp : pstate cell),
    forallb (site_holds cs) sites = true ->
    (forall x l1 l3, prog = l1 ++ IDiscard x :: l3 -> exists s, In s sites /\ conforms cell cs prog s x l1 l3) ->
    wf_p cell sp ->
    same_observations cell prog (run_p opsem pol prog sp) (run_v opsem prog (abs sp)).
Proof. exact facts_give_transparency. Qed.
Print Assumptions C14_facts_give_transparency.

(* ---- ast_immutable ------------------------------------------------------------------------------
   prog = one statement; ast = the refs that make up its syntax tree.  The statement is evaluated in
   sp (giving sp1) and later again in ANY well-formed state sp2 -- other pool contents, other policy --
   whose tree is what the first evaluation left behind and whose other refs read as before the first
   evaluation.  If no step assigns a ref of the tree: the second evaluation succeeds, yields the same
   outputs, and the tree still reads as it did at the very beginning. *)
Theorem C14_ast_immutable :
  forall (cell : Type) (opsem : N -> cell -> cell -> cell) (ast : list ref) (prog : list (instr cell))
         (pol1 pol2 : policy) (sp sp1 sp2 : pstate cell),
    disciplined prog = true ->
    (forall k, In k ast -> none_of writes k prog = true) ->
    wf_p cell sp -> run_p opsem pol1 prog sp = Some sp1 ->
    wf_p cell sp2 ->
    (forall k, In k ast -> deref sp2 k = deref sp1 k) ->
    (forall k, ~ In k ast -> deref sp2 k = deref sp k) ->
    p_outs sp2 = p_outs sp ->
    exists sp3, run_p opsem pol2 prog sp2 = Some sp3 /\ p_outs sp3 = p_outs sp1
                /\ forall k, In k ast -> deref sp3 k = deref sp k.
Proof. exact ast_immutable. Qed.
Print Assumptions C14_ast_immutable.

(* the write fact base: a trace can assign a tree ref only at a listed shared-write site, so an
   all-ok list gives the hypothesis of C14_ast_immutable *)
Theorem C14_writes_sound :
  forall (cell : Type) (ws : list awrite) (ast : list ref) (prog : list (instr cell)),
    forallb awrite_ok ws = true ->
    (forall i k, In i prog -> In k ast -> writes i k = true -> exists w, In w ws /\ aw_class w = AWShared) ->
    forall k, In k ast -> none_of writes k prog = true.
Proof. exact writes_sound. Qed.
Print Assumptions C14_writes_sound.

(* =================================================================================================
   Refutations: both hypotheses are needed, and the second one is FALSE of csvq today (F-C14-1)
   ================================================================================================= *)
Definition demo_sem (f a b : N) : N := a + b.

(* without the discipline the property is false: a root is discarded while still referenced, the
   next allocation re-uses its cell, and a later read of the root sees the new value *)
Definition pool_transparent_unconditional : Prop :=
  forall (pol : policy) (prog : list (instr N)) (sp : pstate N),
    wf_p N sp -> same_observations N prog (run_p demo_sem pol prog sp) (run_v demo_sem prog (abs sp)).

Definition premature_discard : list (instr N) :=
  [IMove 5 0; IDiscard 5; INew 6 (EConst 99); IOut (ERead 0)].

Theorem C14_pool_transparent_unconditional_refuted : ~ pool_transparent_unconditional.
Proof.
  intros H. specialize (H pol_lifo premature_discard (mk_init [42]) (mk_init_wf N [42])).
  vm_compute in H. destruct H as [H _]. discriminate H.
Qed.
Print Assumptions C14_pool_transparent_unconditional_refuted.

Example C14_premature_discard_rejected : disciplined premature_discard = false.
Proof. vm_compute. reflexivity. Qed.

(* F-C14-1 (analytic_function.go:71-73): Analyze computes the field identifier of COUNT( * ) OVER (),
   then overwrites Args[0] -- an element of the slice shared with the select list -- with the
   literal 1; whoever formats the same node afterwards sees COUNT(1) OVER ().  As a machine program
   over the tree ref 0 (= fn.Args[0], initially 42 standing for `*`): *)
Definition analyze_count_star : list (instr N) :=
  [ IOut (ERead 0);                (* fieldIdentifier := FormatFieldIdentifier(fn)  -- reads Args[0] *)
    INew 7 (EConst 1);             (* parser.NewIntegerValue(1) *)
    IMove 0 7 ].                   (* fn.Args[0] = ...   : a write through the shared slice *)

Definition ast_immutable_unconditional : Prop :=
  forall (ast : list ref) (prog : list (instr N)) (pol1 pol2 : policy) (sp sp1 sp2 : pstate N),
    disciplined prog = true ->
    wf_p N sp -> run_p demo_sem pol1 prog sp = Some sp1 ->
    wf_p N sp2 ->
    (forall k, In k ast -> deref sp2 k = deref sp1 k) ->
    (forall k, ~ In k ast -> deref sp2 k = deref sp k) ->
    p_outs sp2 = p_outs sp ->
    exists sp3, run_p demo_sem pol2 prog sp2 = Some sp3 /\ p_outs sp3 = p_outs sp1.

Theorem C14_ast_immutable_unconditional_refuted : ~ ast_immutable_unconditional.
Proof.
  intros H.
  (* first evaluation from the tree [42]; the second one starts from the tree it left behind: [1] *)
  destruct (H [0] analyze_count_star pol_lifo pol_lifo (mk_init [42])
              (match run_p demo_sem pol_lifo analyze_count_star (mk_init [42]) with Some s => s | None => mk_init [] end)
              (mk_init [1])) as [sp3 [R O]].
  - vm_compute. reflexivity.
  - apply mk_init_wf.
  - vm_compute. reflexivity.
  - apply mk_init_wf.
  - intros k [<-|[]]. vm_compute. reflexivity.
  - intros k Hk. unfold deref, mk_init; simpl.
    destruct (N.ltb_spec k 1) as [Hlt|Hge]; [|reflexivity].
    exfalso. apply Hk. left. destruct k; [reflexivity|]. exfalso. destruct p; discriminate Hlt.
  - reflexivity.
  - vm_compute in R. inversion R; subst sp3. vm_compute in O. discriminate O.
Qed.
Print Assumptions C14_ast_immutable_unconditional_refuted.

(* the strongest true restriction is C14_ast_immutable above (hypothesis: no step assigns a tree
   ref); named here for the driver's refuted/partial convention *)
Theorem C14_ast_immutable_partial :
  forall (ast : list ref) (prog : list (instr N)) (pol1 pol2 : policy) (sp sp1 sp2 : pstate N),
    disciplined prog = true ->
    (forall k, In k ast -> none_of writes k prog = true) ->
    wf_p N sp -> run_p demo_sem pol1 prog sp = Some sp1 ->
    wf_p N sp2 ->
    (forall k, In k ast -> deref sp2 k = deref sp1 k) ->
    (forall k, ~ In k ast -> deref sp2 k = deref sp k) ->
    p_outs sp2 = p_outs sp ->
    exists sp3, run_p demo_sem pol2 prog sp2 = Some sp3 /\ p_outs sp3 = p_outs sp1
                /\ forall k, In k ast -> deref sp3 k = deref sp k.
Proof. exact (ast_immutable N demo_sem). Qed.

(* the offending program is disciplined (the pool is not the problem) but assigns the tree *)
Example C14_analyze_count_star_writes_tree :
  disciplined analyze_count_star = true /\ none_of writes 0 analyze_count_star = false.
Proof. vm_compute. split; reflexivity. Qed.

(* =================================================================================================
   Non-vacuity: the hypotheses are met by the shapes the code actually has
   ================================================================================================= *)
(* the shape of the 121 plain call sites (H14.demo_prog): disciplined, runs to completion, and the
   pool really re-issues the discarded cell (LIFO allocates 3 cells, never-reuse allocates 4) while
   the outputs are the same *)
Example C14_demo_disciplined : disciplined demo_prog = true.
Proof. vm_compute. reflexivity. Qed.

Example C14_demo_reuse_is_real :
  (match run_p demo_op pol_lifo demo_prog (mk_init [42; 7]) with Some s => Some (p_next s, p_outs s) | None => None end) = Some (4, [47; 7; 42]) /\
  (match run_p demo_op pol_never demo_prog (mk_init [42; 7]) with Some s => Some (p_next s, p_outs s) | None => None end) = Some (5, [47; 7; 42]) /\
  (match run_v demo_op demo_prog (abs (mk_init [42; 7])) with Some s => Some (v_outs s) | None => None end) = Some [47; 7; 42].
Proof. vm_compute. repeat split; reflexivity. Qed.

Example C14_wf_satisfiable : wf_p N (mk_init [42; 7]).
Proof. exact (mk_init_wf N [42; 7]). Qed.

(* the facts of a plain site (fresh origin through a constructor chain, no escape, no use after) pass
   the check; each single defect makes it fail; an allowlisted site passes by its justification only *)
Definition demo_ctors : list ctor :=
  [mkCtor 1 [RPoolGet]; mkCtor 2 [RSingleton]; mkCtor 3 [RCtor 1; RCtor 1; RCtor 2]; mkCtor 4 [RCtor 1; ROther]].
Example C14_site_ok_examples :
  site_ok demo_ctors (mkSite 1 ShIdent [DCtor 3] false false false) = true /\
  site_ok demo_ctors (mkSite 2 ShIdent [DNil; DCtor 3; DCtor 1] false false false) = true /\
  site_ok demo_ctors (mkSite 3 ShIdent [DCtor 4] false false false) = false /\     (* constructor may return its argument *)
  site_ok demo_ctors (mkSite 4 ShIdent [DCtor 3; DOther] false false false) = false /\ (* also assigned from elsewhere *)
  site_ok demo_ctors (mkSite 5 ShIdent [DCtor 3] true false false) = false /\      (* stored / passed on *)
  site_ok demo_ctors (mkSite 6 ShIdent [DCtor 3] false true false) = false /\      (* used after the call *)
  site_ok demo_ctors (mkSite 7 ShOther [DCtor 3] false false false) = false /\     (* not a plain variable *)
  site_holds demo_ctors (mkSite 8 ShOther [DOther] true false true) = true.
Proof. vm_compute. repeat split; reflexivity. Qed.

(* the hypotheses of discipline_sound are satisfiable: demo_prog conforms to a two-site fact base *)
Example C14_discipline_sound_nonvacuous :
  let sites := [mkSite 1 ShIdent [DCtor 3] false false false; mkSite 2 ShIdent [DCtor 3] false false false] in
  forallb (site_holds demo_ctors) sites = true /\
  conforms N demo_ctors demo_prog (mkSite 1 ShIdent [DCtor 3] false false false) 11
    [IMove 10 0; INew 11 (ERead 10); INew 12 (EOp 0 (ERead 11) (EConst 5))]
    [INew 13 (ERead 1); IOut (ERead 12); IOut (ERead 13); IOut (ERead 0); IDiscard 13; IMove 1 12].
Proof.
  split; [vm_compute; reflexivity|].
  split; [reflexivity|]. split; [|split].
  - intros _. exists [IMove 10 0], (ERead 10), [INew 12 (EOp 0 (ERead 11) (EConst 5))]. split; reflexivity.
  - intros _. vm_compute. reflexivity.
  - intros _. vm_compute. reflexivity.
Qed.

(* the model-side sanity value the harness prints on every run *)
Example C14_demo_ok : demo_ok = true.
Proof. vm_compute. reflexivity. Qed.
