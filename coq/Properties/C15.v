(* C15 -- Blocks and function calls give declarations a local lifetime and safe shadowing.
   Statements only; every proof is `exact` of a lemma in Proofs/{C15,ProcSim,ProcLocal,ProcKeep,ProcFlow}.v.

   The model these theorems speak about is Model/Proc.v: ONE interpreter (eval / call / exec / ... with
   the Processor's flow values) over an abstract scope machine, instantiated by
     pureM           -- a stack of block contents, and
     heapM policy    -- what the Go code does: BlockScope objects taken from / returned to a pool; `policy`
                        is the unspecified choice sync.Pool.Get makes (the theorems hold for every policy).
   The correspondence check runs parser.Parse + Processor.Execute, the csvq binary and query.Select
   (cpu 4) against `run_heap` = heapM with a LIFO pool, on every run.
   All theorems quantify over ALL programs / statements / states; fuel `n` is arbitrary and an
   out-of-fuel run is the distinguished outcome OOOF / EOOF, never a normal value. *)
From Coq Require Import ZArith NArith List Floats Lia.
Require Import Csvq.Model.Base Csvq.Model.Value Csvq.Model.Compare Csvq.Model.Arith Csvq.Model.Proc Csvq.Model.ProcSpec.
Require Import Csvq.Proofs.ProcSim Csvq.Proofs.ProcLocal Csvq.Proofs.ProcKeep Csvq.Proofs.ProcFlow Csvq.Proofs.ProcPure Csvq.Proofs.C15.
Import ListNotations.
Open Scope Z_scope.

(* ==== 1. block_local: what a block or an invocation leaves behind ===================================== *)
(* After IF / CASE / WHILE / WHILE IN (any nesting inside, any outcome incl. errors, BREAK, RETURN, EXIT):
   the same number of blocks as before, and in EVERY surviving block -- the enclosing one included --
   no variable, cursor, temporary table or function that was not there before: whatever the block
   declared is gone.  (Names can only disappear, through DISPOSE, which walks outward.) *)
Theorem C15_block_local : forall n t s r s', is_block t = true -> exec pureM n t s = (r, s') ->
  length (frames s') = length (frames s) /\ Forall2 cell_sub (frames s') (frames s).
Proof. exact block_local. Qed.
Print Assumptions C15_block_local.

(* the same for a function invocation (recursive ones included: `call` is the general case) *)
Theorem C15_call_local : forall n fd vs s r s', call pureM n fd vs s = (r, s') ->
  length (frames s') = length (frames s) /\ Forall2 cell_sub (frames s') (frames s).
Proof. exact call_local. Qed.
Print Assumptions C15_call_local.

(* any statement list: declarations go to the innermost block only *)
Theorem C15_declarations_only_in_current_block : forall n ts s r s', exec_list pureM n ts s = (r, s') ->
  length (frames s') = length (frames s) /\ Forall2 cell_sub (tl (frames s')) (tl (frames s)).
Proof. exact program_local. Qed.

(* An outer variable's value changes only if it is assigned: a block whose code -- and the code of every
   function in scope -- never assigns / fetches into / disposes @x leaves every binding of @x as it was. *)
Theorem C15_unassigned_unchanged : forall x n t s r s', is_block t = true ->
  safe_s false x t = true -> store_safe false x (frames s) -> exec pureM n t s = (r, s') ->
  map (xb x) (frames s') = map (xb x) (frames s).
Proof. exact unassigned_unchanged. Qed.
Print Assumptions C15_unassigned_unchanged.

Theorem C15_unassigned_unchanged_by_call : forall x n fd vs s r s',
  safe_fd false x fd = true -> store_safe false x (frames s) -> call pureM n fd vs s = (r, s') ->
  map (xb x) (frames s') = map (xb x) (frames s).
Proof. exact unassigned_unchanged_call. Qed.

(* ... and an assignment goes to the innermost block that binds the name ("not shadowed there"), to that
   one only, and stays there (persists: C15_block_local keeps that block).  No binding: an error, no change. *)
Theorem C15_assignment_resolves_innermost : forall x v s o s', set_var pureM x v s = (o, s') ->
  match o with
  | None => exists i c, nth_error (frames s) i = Some c /\ has_var x c = true /\
                        (forall j c', (j < i)%nat -> nth_error (frames s) j = Some c' -> has_var x c' = false) /\
                        frames s' = list_upd i (with_vars (aset x v)) (frames s) /\ out s' = out s
  | Some e => e = XUndeclVar /\ s' = s /\ find_frame (has_var x) (frames s) = None
  end.
Proof. exact assignment_resolves_innermost. Qed.
Print Assumptions C15_assignment_resolves_innermost.

(* ==== 2. shadow_preserves_outer ============================================================================ *)
(* While the innermost block binds @x (it re-declared it) and nothing disposes @x, the statements may assign
   @x, open nested blocks, call functions that assign @x (they see the shadowing binding: dynamic scope),
   recurse -- every outer binding of @x keeps its value, at any depth. *)
Theorem C15_shadow_preserves_outer : forall x n ts s r s' top rest,
  frames s = top :: rest -> has_var x top = true ->
  forallb (safe_s true x) ts = true -> store_safe true x (frames s) ->
  exec_list pureM n ts s = (r, s') ->
  exists top' rest', frames s' = top' :: rest' /\ length rest' = length rest /\
                     map (xb x) rest' = map (xb x) rest /\ has_var x top' = true.
Proof. exact shadow_preserves_outer. Qed.
Print Assumptions C15_shadow_preserves_outer.

(* re-declaring in a new block is allowed for variables, cursors and functions ... *)
Definition shadowing_allowed (d : stmt) : Prop :=
  forall (s : pst) v, fst (basic_post pureM d v (push pureM s)) = None.
Definition shadowing_all_kinds : Prop :=
  (forall x i, shadowing_allowed (SVar x i)) /\ (forall c rows, shadowing_allowed (SCursor c rows)) /\
  (forall f ps body, dup_names (map fst ps) = false -> shadowing_allowed (SFunc f ps body)) /\
  (forall t rows, shadowing_allowed (STemp t rows)).
(* ... but NOT for temporary tables: DeclareView looks at every block (finding temp-table-no-shadow) *)
Theorem C15_shadowing_all_kinds_refuted : ~ shadowing_all_kinds.
Proof.
  intros (_ & _ & _ & H).
  specialize (H [116%N] [] (mkG (M := pureM) [mkCell [] [] [([84%N], [VInt 1])] []] []) VNull).
  vm_compute in H. discriminate.
Qed.
Theorem C15_shadowing_partial :
  (forall x i, shadowing_allowed (SVar x i)) /\ (forall c rows, shadowing_allowed (SCursor c rows)) /\
  (forall f ps body, dup_names (map fst ps) = false -> shadowing_allowed (SFunc f ps body)).
Proof.
  repeat split; intros; intros s v; cbn; try rewrite H; reflexivity.
Qed.

(* ==== 3. call_frame_fresh ==================================================================================== *)
(* Every invocation (the statement is about `call` at an arbitrary state, so about recursive invocations
   too) runs its body in a NEW innermost block that holds exactly its parameters -- no cursor, table or
   function -- on top of the CALLER's chain as it is at call time (dynamic scoping, as coded); when it
   returns the block is closed.  (With defaults the missing parameters are evaluated in that block.) *)
Theorem C15_call_frame_fresh : forall n ps body vs s r s',
  length vs = length ps -> call pureM (S n) (ps, body) vs s = (r, s') ->
  (exists s1, bind_params pureM n ps vs (push pureM s) = (None, s1) /\
              frames s1 = mkCell (rev (combine (map fst ps) vs)) [] [] [] :: frames s /\ out s1 = out s /\
              exists o s2, exec_list pureM n body s1 = (o, s2) /\ r = call_result o /\ s' = pop pureM s2)
  \/ (exists e s1, bind_params pureM n ps vs (push pureM s) = (Some e, s1) /\ r = e /\ s' = pop pureM s1).
Proof. exact call_frame_fresh_stack. Qed.
Print Assumptions C15_call_frame_fresh.

(* on the pooled heap: the object CreateChild receives is none of the live ones and is empty *)
Theorem C15_call_frame_is_a_fresh_object : forall policy h, hinv h ->
  exists id, h_chain (h_push policy h) = id :: h_chain h /\ ~ In id (h_chain h) /\
             hget id (h_heap (h_push policy h)) = empty_cell /\ hinv (h_push policy h).
Proof. exact call_frame_fresh_heap. Qed.

(* concurrent invocations: two children of the same parent chain that are alive together (two goroutines
   evaluating two rows) are different objects, whatever the pool does *)
Theorem C15_concurrent_invocations_get_distinct_objects : forall p1 p2 h, hinv h ->
  let h1 := h_push p1 h in
  let h2 := h_push p2 (mkH (h_heap h1) (h_chain h) (h_pool h1) (h_next h1) (h_log h1)) in
  forall id1 id2, h_chain h1 = id1 :: h_chain h -> h_chain h2 = id2 :: h_chain h -> id1 <> id2.
Proof. exact sibling_frames_distinct. Qed.
Print Assumptions C15_concurrent_invocations_get_distinct_objects.

(* ... and what an invocation computes depends on the caller's chain only, not on the state of the pool *)
Theorem C15_invocation_independent_of_pool : forall p1 p2 n e (s1 : gst (heapM p1)) (s2 : gst (heapM p2)),
  hinv (ms s1) -> hinv (ms s2) -> h_view (ms s1) = h_view (ms s2) -> out s1 = out s2 ->
  fst (eval (heapM p1) n e s1) = fst (eval (heapM p2) n e s2) /\
  h_view (ms (snd (eval (heapM p1) n e s1))) = h_view (ms (snd (eval (heapM p2) n e s2))) /\
  out (snd (eval (heapM p1) n e s1)) = out (snd (eval (heapM p2) n e s2)).
Proof. exact invocation_independent_of_pool. Qed.

(* An invocation of a function that writes nothing but its own parameters and locals (pure_fd: assignments
   only to its parameters, literal defaults, no PRINT / DISPOSE / cursor or table updates; the functions it
   can reach are of the same kind) leaves the caller's chain and the output EXACTLY as they were ... *)
Theorem C15_pure_invocation_leaves_scope : forall n fd vs s r s', pure_fd fd = true -> store_pure (frames s) ->
  call pureM n fd vs s = (r, s') -> frames s' = frames s /\ out s' = out s.
Proof. exact pure_call_leaves_scope. Qed.
Print Assumptions C15_pure_invocation_leaves_scope.

(* ... so for such functions the rows of a query can be evaluated in any order, one after the other or each
   alone from the calling scope (Model.Proc.call_on_rows, what the harness compares with cpu 4): every row
   gets the same result -- on the pooled heap, for every pool policy *)
Theorem C15_concurrent_rows_independent : forall policy n f rows (s : gst (heapM policy)),
  hinv (ms s) -> store_pure (h_view (ms s)) ->
  seq_rows (heapM policy) n f rows s = call_on_rows (heapM policy) n f rows s.
Proof. exact heap_rows_sequential. Qed.
Print Assumptions C15_concurrent_rows_independent.

(* ==== 4. flow_spec ============================================================================================ *)
(* Model/ProcSpec.v gives the control statements their documented meaning as jumps (continuations; no
   flow value is ever returned or tested there): BREAK -> after the innermost loop, CONTINUE -> its next
   test, RETURN v -> the caller with v, EXIT -> the end of the run, each closing the blocks it leaves.
   The Processor's encoding with flow values computes exactly that: for every machine, answer type,
   continuations, program, state and fuel. *)
Theorem C15_flow_spec : forall (M : machine) (A : Type) n ts (K : konts M A) s,
  kexec_list M A n ts K s = dispatch M A (exec_list M n ts s) K.
Proof. exact flow_spec. Qed.
Print Assumptions C15_flow_spec.

Theorem C15_flow_spec_call : forall (M : machine) (A : Type) n fd vs (E : econts M A) s,
  kcall M A n fd vs E s = edispatch M A (call M n fd vs s) E.
Proof. exact flow_spec_call. Qed.

(* ==== 5. pool_inv =============================================================================================== *)
(* hinv: live objects pairwise distinct and disjoint from the pool, every pooled object cleared, and the
   Get/Put log replays as a stack discipline (each Get hands out a non-live object, each Put releases the
   innermost live one).  Kept by every statement on every exit path (errors, BREAK, RETURN, EXIT), for
   every pool policy; the chain is as long as before and creates and releases balance. *)
Theorem C15_pool_inv : forall policy n t (s : gst (heapM policy)), hinv (ms s) ->
  let s' := snd (exec (heapM policy) n t s) in
  hinv (ms s') /\ length (h_chain (ms s')) = length (h_chain (ms s)) /\
  (count_get (h_log (ms s')) + count_put (h_log (ms s)) = count_get (h_log (ms s)) + count_put (h_log (ms s')))%nat.
Proof. exact pool_inv_stmt. Qed.
Print Assumptions C15_pool_inv.

(* a whole run: one live block at the end (the root), one release per create *)
Theorem C15_pool_balanced : forall policy n prog,
  let s' := snd (run_with policy n prog) in
  hinv (ms s') /\ length (h_chain (ms s')) = 1%nat /\ count_get (h_log (ms s')) = S (count_put (h_log (ms s'))).
Proof. exact pool_inv_program. Qed.

(* the pooled-heap machine is a refinement of the stack machine: same outcome, same PRINT lines, same
   visible scope, whatever object the pool hands out *)
Theorem C15_heap_refines_stack : forall policy n prog,
  fst (run_with policy n prog) = fst (run_pure n prog) /\
  out (snd (run_with policy n prog)) = out (snd (run_pure n prog)) /\
  hinv (ms (snd (run_with policy n prog))) /\
  h_view (ms (snd (run_with policy n prog))) = ms (snd (run_pure n prog)).
Proof. exact run_any_policy. Qed.
Print Assumptions C15_heap_refines_stack.

(* the invariant is not vacuous: it holds initially, and it is what excludes aliasing -- without it
   (an object that is both live and pooled, i.e. a block released while still in use) an inner
   declaration lands in the outer block *)
Example C15_hinv_initial : hinv h_init.
Proof. exact hinv_init. Qed.
Example C15_double_release_aliases :
  let bad := mkH [(0%N, empty_cell)] [0%N] [0%N] 1%N [HGet 0%N] in      (* object 0 live AND pooled *)
  let s := exec_list (heapM lifo) 50 [SVar [97%N] (Some (PLit (VInt 1))); SIf [(PLit (VTern TT), [SVar [97%N] None])] []]
                     (mkG (M := heapM lifo) bad []) in
  fst s = OErr XRedeclVar.
Proof. vm_compute. reflexivity. Qed.

(* ==== examples: the hypotheses are satisfiable and the quirks are the coded ones ============================= *)
Definition a_ : str := [97%N].  Definition b_ : str := [98%N].  Definition f_ : str := [102%N].
Definition n_ : str := [110%N]. Definition i_ : str := [105%N].
Definition lit z := PLit (VInt z).
Definition outs (p : list stmt) := let (o, s) := run_heap 400 p in (o, rev (out s)).

(* shadowing + dynamic scope: f assigns @a; called inside the block it hits the block's @a, outside the global *)
Example C15_ex_shadow :
  outs [SVar a_ (Some (lit 1));
        SFunc f_ [] [SExpr (PAssign a_ (PArith APlus (PVar a_) (lit 10))); SReturn (PVar a_)];
        SIf [(PLit (VTern TT), [SVar a_ (Some (lit 2)); SExpr (PCall f_ []); SPrint (PVar a_)])] [];
        SPrint (PVar a_); SExpr (PCall f_ []); SPrint (PVar a_)]
  = (ONormal, [VInt 12; VInt 1; VInt 11]).
Proof. vm_compute. reflexivity. Qed.
Example C15_ex_shadow_hyps :   (* the hypotheses of C15_shadow_preserves_outer hold for that block body *)
  forallb (safe_s true a_) [SExpr (PCall f_ []); SPrint (PVar a_)] = true /\
  safe_fd true a_ ([], [SExpr (PAssign a_ (PArith APlus (PVar a_) (lit 10))); SReturn (PVar a_)]) = true.
Proof. vm_compute. split; reflexivity. Qed.

(* BREAK leaves exactly the innermost loop; CONTINUE re-tests it; the loop block is cleared every iteration *)
Example C15_ex_loops :
  outs [SVar i_ (Some (lit 0)); SVar b_ (Some (lit 0));
        SWhile (PCmp OpLt (PVar i_) (lit 3))
          [SExpr (PAssign i_ (PArith APlus (PVar i_) (lit 1)));
           SVar a_ (Some (lit 0));                                   (* no redeclaration error: block cleared *)
           SWhile (PLit (VTern TT))
             [SExpr (PAssign a_ (PArith APlus (PVar a_) (lit 1)));
              SIf [(PCmp OpEq (PVar a_) (lit 1), [SContinue])] [];
              SExpr (PAssign b_ (PArith APlus (PVar b_) (lit 1)));
              SIf [(PCmp OpGe (PVar a_) (lit 3), [SBreak])] []];
           SPrint (PVar a_)];
        SPrint (PVar b_)]
  = (ONormal, [VInt 3; VInt 3; VInt 3; VInt 6]).
Proof. vm_compute. reflexivity. Qed.

(* RETURN from inside a loop inside a block leaves the function with the value; recursion: every invocation
   has its own @n; EXIT n>0 is an error with that code, EXIT 0 ends the run silently *)
Example C15_ex_recursion :
  outs [SFunc f_ [(n_, None)]
          [SVar a_ (Some (PVar n_));
           SWhile (PLit (VTern TT)) [SIf [(PCmp OpLe (PVar n_) (lit 1), [SReturn (lit 1)])] [SBreak]];
           SVar b_ (Some (PCall f_ [PArith AMinus (PVar n_) (lit 1)]));
           SReturn (PArith AMul (PVar a_) (PVar b_))];                 (* @a, @n still this invocation's *)
        SPrint (PCall f_ [lit 5]); SExit 0; SPrint (lit 7)]
  = (OExit, [VInt 120]).
Proof. vm_compute. reflexivity. Qed.
Example C15_ex_exit_code :
  exit_code (fst (run_heap 100 [SIf [(PLit (VTern TT), [SExit 3])] []; SPrint (lit 7)])) = 3.
Proof. vm_compute. reflexivity. Qed.

(* the hypotheses of the two theorems about pure invocations are satisfiable: a recursive function with a
   loop on its parameters and a shadowing local *)
Example C15_ex_pure :
  pure_fd ([(n_, None); (i_, Some (lit 0))],
           [SVar a_ (Some (PVar n_));
            SWhile (PCmp OpLt (PVar i_) (lit 3)) [SExpr (PAssign i_ (PArith APlus (PVar i_) (lit 1))); SVar a_ (Some (lit 0))];
            SIf [(PCmp OpGt (PVar n_) (lit 1), [SReturn (PArith AMul (PVar n_) (PCall f_ [PArith AMinus (PVar n_) (lit 1)]))])] [];
            SReturn (lit 1)]) = true.
Proof. vm_compute. reflexivity. Qed.

(* the grammar's contexts: RETURN outside a function, BREAK outside a loop, EXIT inside a function are rejected *)
Example C15_ex_contexts :
  wf_stmt 20 false false (SReturn (lit 1)) = false /\ wf_stmt 20 false false SBreak = false /\
  wf_stmt 20 false false (SFunc f_ [] [SExit 0]) = false /\
  wf_stmt 20 false false (SFunc f_ [] [SWhile (lit 1) [SIf [(lit 1, [SBreak])] [SReturn (lit 1)]]]) = true.
Proof. vm_compute. repeat split; reflexivity. Qed.

(* the pool really recycles: 3 sequential blocks use one pooled object; nested ones use distinct objects *)
Example C15_ex_pool_reuse :
  let blk := SIf [(PLit (VTern TT), [SVar a_ None])] [] in
  let s := snd (run_heap 100 [blk; blk; blk; SIf [(PLit (VTern TT), [blk])] []]) in
  (h_chain (ms s), h_pool (ms s), h_next (ms s), count_get (h_log (ms s)), count_put (h_log (ms s)))
  = ([0%N], [1%N; 2%N], 3%N, 6%nat, 5%nat).
Proof. vm_compute. reflexivity. Qed.
