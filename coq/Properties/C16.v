(* C16 -- A cursor walks a snapshot of its query taken at OPEN, with exact positioning.
   Statements only; every proof is `exact` of a lemma in Proofs/C16.v (the `_refuted` witness and the
   Examples are evaluated here).  The model these theorems speak about (Model/Cursor.v: step, run,
   cur_fetch ...) is the one Harness/H16.v replays, statement by statement, against histories
   executed on the implementation.

   Unless said otherwise the theorems hold for BOTH arithmetics of the pointer ([add] is a
   parameter): [add64] -- Go's wrapping int addition, the code as it is -- and [Z.add], the
   specification.  Only [fetch_spec] distinguishes them. *)
From Coq Require Import ZArith NArith List Lia.
Require Import Csvq.Model.Base Csvq.Model.Value Csvq.Model.Cursor.
Require Import Csvq.Proofs.C16.
Import ListNotations.
Open Scope Z_scope.

(* ---- fetch_spec: refinement to "a pointer clamped to [-1, len]" ------------------------------ *)
(* FETCH on an open cursor with view v, for an arbitrary position kind, number (any integer,
   negative, zero, len, huge) and pointer: the new pointer is clamp(target); view, source and kind of
   the cursor are unchanged; "fetched" is set; a record is handed out iff the target is a row index,
   and it is that row of the view. *)
Definition fetch_spec_for (add : Z -> Z -> Z) : Prop :=
  forall k n c v c' out,
    c_view c = Some v -> cur_fetch add k n c = Some (c', out) ->
    let t := target Z.add k n (c_idx c) (zlen v) in
    c_idx c' = clamp (zlen v) t /\ c_view c' = Some v /\ c_fetched c' = true /\
    c_src c' = c_src c /\ c_pseudo c' = c_pseudo c /\
    out = (if in_range (zlen v) t then nth_error v (Z.to_nat t) else None) /\
    (in_range (zlen v) t = true -> exists r, out = Some r /\ In r v).

(* the specification machine (what check kind 2 compares the implementation with) *)
Theorem C16_fetch_spec : fetch_spec_for Z.add.
Proof. exact (cur_fetch_clamp Z.add). Qed.
Print Assumptions C16_fetch_spec.

(* FINDING relative-overflow: the code adds in int; FETCH RELATIVE 9223372036854775807 from pointer 1
   wraps around and lands BEFORE the first row instead of after the last one *)
Theorem C16_fetch_spec_refuted : ~ fetch_spec_for add64.
Proof.
  intros H.
  specialize (H KRel max_int64 (mkCur (QDirect 1) (Some [[VNull]; [VNull]; [VNull]]) 1 true false)
                [[VNull]; [VNull]; [VNull]]
                (mkCur (QDirect 1) (Some [[VNull]; [VNull]; [VNull]]) (-1) true false) None
                eq_refl eq_refl).
  vm_compute in H. destruct H as [H _]. discriminate H.
Qed.
Print Assumptions C16_fetch_spec_refuted.

(* ... and that is the only way: whenever pointer + number stays inside int64 the code meets the
   specification (all other position kinds never overflow) *)
Theorem C16_fetch_spec_partial : forall k n c v c' out,
  c_view c = Some v -> (k = KRel -> in_int64 (c_idx c + n) = true) ->
  cur_fetch add64 k n c = Some (c', out) ->
  let t := target Z.add k n (c_idx c) (zlen v) in
  c_idx c' = clamp (zlen v) t /\ c_view c' = Some v /\ c_fetched c' = true /\
  c_src c' = c_src c /\ c_pseudo c' = c_pseudo c /\
  out = (if in_range (zlen v) t then nth_error v (Z.to_nat t) else None) /\
  (in_range (zlen v) t = true -> exists r, out = Some r /\ In r v).
Proof. exact fetch_spec_partial. Qed.
Print Assumptions C16_fetch_spec_partial.

Theorem C16_fetch_spec_small_numbers : forall k n c v c' out,
  c_view c = Some v -> cur_inv c -> zlen v < 4611686018427387904 ->
  -4611686018427387904 <= n <= 4611686018427387904 ->
  cur_fetch add64 k n c = Some (c', out) ->
  let t := target Z.add k n (c_idx c) (zlen v) in
  c_idx c' = clamp (zlen v) t /\ c_view c' = Some v /\ c_fetched c' = true /\
  c_src c' = c_src c /\ c_pseudo c' = c_pseudo c /\
  out = (if in_range (zlen v) t then nth_error v (Z.to_nat t) else None) /\
  (in_range (zlen v) t = true -> exists r, out = Some r /\ In r v).
Proof. exact fetch_spec_small. Qed.

(* FETCH on an open cursor always answers (possibly with no record), on a closed one never *)
Theorem C16_fetch_defined_iff_open : forall add k n c,
  (forall v, c_view c = Some v -> exists c' out, cur_fetch add k n c = Some (c', out)) /\
  (c_view c = None -> cur_fetch add k n c = None).
Proof. intros add k n c. split; [intros v; exact (cur_fetch_open add k n c v) | exact (cur_fetch_closed add k n c)]. Qed.

(* hypotheses are satisfiable: a 3-row view, every kind of position, in and out of range *)
Example C16_fetch_examples :
  let v := [[VInt 10]; [VInt 20]; [VInt 30]] in
  let c := mkCur (QDirect 1) (Some v) (-1) false false in
  let f k n c := match cur_fetch add64 k n c with Some (c', out) => (c_idx c', out) | None => (-99, None) end in
  f KNext 0 c = (0, Some [VInt 10]) /\ f KLast 0 c = (2, Some [VInt 30]) /\ f KPrior 0 c = (-1, None) /\
  f KAbs 3 c = (3, None) /\ f KAbs (-5) c = (-1, None) /\ f KAbs max_int64 c = (3, None) /\
  f KRel 2 c = (1, Some [VInt 20]) /\ f KRel min_int64 (mkCur (QDirect 1) (Some v) 2 true false) = (-1, None) /\
  f KRel max_int64 (mkCur (QDirect 1) (Some v) 1 true false) = (-1, None) (* the finding *) /\
  f KFirst 0 (mkCur (QDirect 1) (Some []) (-1) false false) = (0, None).
Proof. vm_compute. repeat split; reflexivity. Qed.

(* ---- invariant: -1 <= pointer <= len in every reachable state ---------------------------------- *)
Theorem C16_pointer_invariant : forall add fuel d vs p ops m c cur v,
  In m (blocks (run add fuel (init_state d vs p) ops)) -> In (c, cur) m -> c_view cur = Some v ->
  -1 <= c_idx cur <= zlen v.
Proof. exact pointer_invariant. Qed.
Print Assumptions C16_pointer_invariant.

Theorem C16_invariant_step : forall add fuel st o, st_inv st -> st_inv (fst (step add fuel st o)).
Proof. exact step_inv. Qed.

Theorem C16_visible_pointer_invariant : forall add fuel d vs p ops c cur v,
  bl_find c (blocks (run add fuel (init_state d vs p) ops)) = Some cur -> c_view cur = Some v ->
  -1 <= c_idx cur <= zlen v.
Proof. exact visible_pointer_invariant. Qed.

(* ---- snapshot ----------------------------------------------------------------------------------- *)
(* [keeps c] = statements that do not (re)declare, open, close or dispose c and do not enter or leave
   a block; [keeps_op (keeps c)] additionally allows entering a block and WHILE loops whose bodies
   keep c.  Data changes (SChange, with ANY effect on ANY query result), fetches from c and from other
   cursors, status expressions, OPEN/CLOSE/DISPOSE/DECLARE of other cursors are all allowed.

   After a successful OPEN c the cursor holds the result r its query had at that moment; after any
   such history it still holds exactly r. *)
Theorem C16_snapshot : forall add fuel st c arg st1 res mid,
  step add fuel st (OSimple (SOpen c arg)) = (st1, res) -> r_err res = None ->
  Forall (keeps_op (keeps c)) mid ->
  exists cur0 q r cur',
    bl_find c (blocks st) = Some cur0 /\ resolve st (c_src cur0) arg = inr q /\ db_get q (db st) = Some r /\
    bl_find c (blocks (run add fuel st1 mid)) = Some cur' /\ c_view cur' = Some r.
Proof. exact snapshot. Qed.
Print Assumptions C16_snapshot.

(* ... and every record a later FETCH hands out is a row of r: never a row of a changed table *)
Theorem C16_snapshot_rows : forall add fuel st c arg st1 res mid p into st2 res2 rw,
  step add fuel st (OSimple (SOpen c arg)) = (st1, res) -> r_err res = None ->
  Forall (keeps_op (keeps c)) mid ->
  step add fuel (run add fuel st1 mid) (OSimple (SFetch c p into)) = (st2, res2) -> r_row res2 = Some rw ->
  exists cur0 q r,
    bl_find c (blocks st) = Some cur0 /\ resolve st (c_src cur0) arg = inr q /\ db_get q (db st) = Some r /\
    In rw r.
Proof. exact snapshot_rows. Qed.
Print Assumptions C16_snapshot_rows.

(* the record is the one the target addresses in the view, and the view stays *)
Theorem C16_fetch_from_view : forall add st c cur r p into,
  bl_find c (blocks st) = Some cur -> c_view cur = Some r ->
  let '(st', res) := step_simple add st (SFetch c p into) in
  (exists cur', bl_find c (blocks st') = Some cur' /\ c_view cur' = Some r) /\
  (forall rw, r_row res = Some rw ->
     exists k n, pos_eval p = Some (k, n) /\
       let t := target add k n (c_idx cur) (zlen r) in
       in_range (zlen r) t = true /\ nth_error r (Z.to_nat t) = Some rw /\ In rw r).
Proof. exact fetch_from_view. Qed.

(* what the model assumes about data-changing statements, made explicit: they reach no cursor and no
   variable (the correspondence checks exactly this against INSERT/UPDATE/DELETE/ROLLBACK/COMMIT) *)
Theorem C16_change_touches_no_cursor : forall add st u,
  let '(st', res) := step_simple add st (SChange u) in
  blocks st' = blocks st /\ vars st' = vars st /\ prep st' = prep st /\ r_err res = None.
Proof. exact change_touches_no_cursor. Qed.

(* OPEN takes the CURRENT result: a change before OPEN is seen, the same change after OPEN is not *)
Example C16_snapshot_example :
  let old := [[VInt 1]; [VInt 2]] in let new := [[VInt 7]] in
  let st0 := init_state [(1%N, Some old)] [VNull] [] in
  let ops_after := [OSimple (SDeclare 1 (QDirect 1)); OSimple (SOpen 1 0); OSimple (SChange [(1%N, Some new)]);
                    OSimple (SFetch 1 PNext [0%nat])] in
  let ops_before := [OSimple (SDeclare 1 (QDirect 1)); OSimple (SChange [(1%N, Some new)]); OSimple (SOpen 1 0);
                     OSimple (SFetch 1 PNext [0%nat])] in
  vars (run add64 10 st0 ops_after) = [VInt 1] /\ vars (run add64 10 st0 ops_before) = [VInt 7] /\
  Forall (keeps_op (keeps 1%N)) [OSimple (SChange [(1%N, Some new)]); OSimple SPush;
                                 OWhile 1 [0%nat] [SChange [(1%N, None)]; SFetch 2 PLast []]].
Proof. vm_compute. repeat split; repeat constructor; discriminate. Qed.

(* ---- WHILE .. IN visits every row exactly once, in order ---------------------------------------- *)
(* From a freshly opened cursor (pointer -1) with view r, loop variables distinct and declared, as
   many variables as columns, a body that does not touch c (no statement naming c except status
   expressions; anything on other cursors; any data change) and has no BREAK, enough fuel:
   - the model never runs out of fuel;
   - the rows logged at the start of the iterations are always a prefix of r (in order, no
     repetition, nothing else);
   - if the loop ends without error they are exactly r -- len iterations -- and the pointer is len;
   - the only errors are errors of the body. *)
Theorem C16_while_in_visits_all : forall add fuel st c cur r into body,
  bl_find c (blocks st) = Some cur -> c_view cur = Some r -> c_idx cur = -1 ->
  NoDup into -> Forall (fun i => (i < length (vars st))%nat) into ->
  Forall (fun rw => length rw = length into) r ->
  Forall (fun s => untouched c s /\ s <> SBreak) body ->
  (S (length r) < fuel)%nat ->
  let '(st', res) := step add fuel st (OWhile c into body) in
  r_err res <> Some EFuel /\
  (exists k, r_log res = firstn k r) /\
  (r_err res = None -> r_log res = r /\
     exists cur', bl_find c (blocks st') = Some cur' /\ c_view cur' = Some r /\ c_idx cur' = zlen r) /\
  ((forall st0 e0, snd (run_body add body st0) <> FError e0) -> r_err res = None).
Proof. exact while_fresh. Qed.
Print Assumptions C16_while_in_visits_all.

(* from any pointer position: exactly the rows after the pointer *)
Theorem C16_while_in_visits_rest : forall add c into body r nv,
  NoDup into -> Forall (fun i => (i < nv)%nat) into ->
  Forall (fun rw => length rw = length into) r ->
  Forall (fun s => untouched c s /\ s <> SBreak) body ->
  forall fuel st cur,
  bl_find c (blocks st) = Some cur -> c_view cur = Some r -> cur_inv cur -> length (vars st) = nv ->
  (Z.to_nat (zlen r - c_idx cur) < fuel)%nat ->
  let '(st', res) := step add fuel st (OWhile c into body) in
  r_err res <> Some EFuel /\
  (exists k, r_log res = firstn k (skipn (Z.to_nat (c_idx cur + 1)) r)) /\
  (r_err res = None ->
     r_log res = skipn (Z.to_nat (c_idx cur + 1)) r /\
     exists cur', bl_find c (blocks st') = Some cur' /\ c_view cur' = Some r /\ c_idx cur' = zlen r) /\
  ((forall st0 e0, snd (run_body add body st0) <> FError e0) -> r_err res = None).
Proof. exact while_visits. Qed.

(* a body that only changes data (deletes the very table the cursor reads, say): all rows, no error *)
Theorem C16_while_in_under_changes : forall add fuel st c cur r into body,
  bl_find c (blocks st) = Some cur -> c_view cur = Some r -> c_idx cur = -1 ->
  NoDup into -> Forall (fun i => (i < length (vars st))%nat) into ->
  Forall (fun rw => length rw = length into) r ->
  Forall (fun s => exists u, s = SChange u) body ->
  (S (length r) < fuel)%nat ->
  let '(st', res) := step add fuel st (OWhile c into body) in
  r_err res = None /\ r_log res = r /\
  exists cur', bl_find c (blocks st') = Some cur' /\ c_view cur' = Some r /\ c_idx cur' = zlen r.
Proof. exact while_fresh_changes. Qed.
Print Assumptions C16_while_in_under_changes.

Example C16_while_example :
  let r := [[VInt 1; VInt 10]; [VInt 2; VInt 20]; [VInt 3; VInt 30]] in
  let st := fst (step add64 9 (fst (step add64 9 (init_state [(1%N, Some r)] [VNull; VNull] [])
                 (OSimple (SDeclare 1 (QDirect 1))))) (OSimple (SOpen 1 0))) in
  r_log (snd (step add64 9 st (OWhile 1 [0%nat; 1%nat] [SChange [(1%N, Some [])]]))) = r /\
  (* a body that moves the loop's own cursor skips rows: the hypothesis "untouched" is needed *)
  r_log (snd (step add64 9 st (OWhile 1 [0%nat; 1%nat] [SFetch 1 PNext [0%nat; 1%nat]]))) = [[VInt 1; VInt 10]; [VInt 3; VInt 30]] /\
  (* out of fuel is a distinguished outcome *)
  r_err (snd (step add64 2 st (OWhile 1 [0%nat; 1%nat] []))) = Some EFuel.
Proof. vm_compute. repeat split; reflexivity. Qed.

(* ---- status expressions agree with the position -------------------------------------------------- *)
Theorem C16_status_agrees : forall add st c cur v neg,
  bl_find c (blocks st) = Some cur -> c_view cur = Some v ->
  step_simple add st (SCount c) = (st, val_res (VInt (zlen v))) /\
  step_simple add st (SIsOpen c neg) = (st, tern_res neg TT) /\
  step_simple add st (SInRange c neg) =
    (st, tern_res neg (if c_fetched cur then of_bool ((-1 <? c_idx cur) && (c_idx cur <? zlen v)) else TU)).
Proof.
  intros add st c cur v neg Hf Hv. split; [exact (status_count add st c cur v Hf Hv)|]. split.
  - rewrite (status_is_open add st c cur neg Hf), Hv. reflexivity.
  - exact (status_in_range add st c cur v neg Hf Hv).
Qed.
Print Assumptions C16_status_agrees.

Theorem C16_is_open_false_when_closed : forall add st c cur neg,
  bl_find c (blocks st) = Some cur -> c_view cur = None ->
  step_simple add st (SIsOpen c neg) = (st, tern_res neg TF).
Proof. intros add st c cur neg Hf Hv. rewrite (status_is_open add st c cur neg Hf), Hv. reflexivity. Qed.

(* UNKNOWN before any fetch: after OPEN and any history that does not touch c *)
Theorem C16_in_range_unknown_before_fetch : forall add fuel st c arg st1 res mid neg,
  step add fuel st (OSimple (SOpen c arg)) = (st1, res) -> r_err res = None ->
  Forall (keeps_op (untouched c)) mid ->
  let st2 := run add fuel st1 mid in
  step add fuel st2 (OSimple (SInRange c neg)) = (st2, tern_res neg TU).
Proof. exact in_range_unknown_before_fetch. Qed.

(* decided after a fetch (whatever it delivered), through any history that keeps c *)
Theorem C16_in_range_after_fetch : forall add fuel st c p into st1 res mid neg,
  step add fuel st (OSimple (SFetch c p into)) = (st1, res) -> r_err res = None ->
  Forall (keeps_op (keeps c)) mid ->
  let st2 := run add fuel st1 mid in
  exists cur v, bl_find c (blocks st2) = Some cur /\ c_view cur = Some v /\
    step add fuel st2 (OSimple (SInRange c neg)) =
      (st2, tern_res neg (of_bool ((-1 <? c_idx cur) && (c_idx cur <? zlen v)))).
Proof. exact in_range_after_fetch. Qed.
Print Assumptions C16_in_range_after_fetch.

(* ---- errors: closed / open twice / undeclared; the state (variables included) is untouched ------- *)
Theorem C16_errors_undeclared : forall add fuel st c,
  bl_find c (blocks st) = None ->
  (forall arg, step add fuel st (OSimple (SOpen c arg)) = (st, err_res EUndeclared)) /\
  step add fuel st (OSimple (SClose c)) = (st, err_res EUndeclared) /\
  step add fuel st (OSimple (SDispose c)) = (st, err_res EUndeclared) /\
  (forall p into, pos_eval p <> None -> step add fuel st (OSimple (SFetch c p into)) = (st, err_res EUndeclared)) /\
  (forall p into, pos_eval p = None -> step add fuel st (OSimple (SFetch c p into)) = (st, err_res EFetchPos)) /\
  (forall neg, step add fuel st (OSimple (SIsOpen c neg)) = (st, err_res EUndeclared)) /\
  (forall neg, step add fuel st (OSimple (SInRange c neg)) = (st, err_res EUndeclared)) /\
  step add fuel st (OSimple (SCount c)) = (st, err_res EUndeclared) /\
  (forall into body, step add (S fuel) st (OWhile c into body) = (st, mkRes (Some EUndeclared) None None [])).
Proof.
  intros add fuel st c Hf. cbn [step].
  repeat split; intros; try (apply (undeclared_simple add st c); [exact Hf | cbn; auto]).
  - apply fetch_bad_position; assumption.
  - apply undeclared_while; exact Hf.
Qed.
Print Assumptions C16_errors_undeclared.

Theorem C16_errors_closed : forall add fuel st c cur,
  bl_find c (blocks st) = Some cur -> c_view cur = None ->
  (forall p into, pos_eval p <> None -> step add fuel st (OSimple (SFetch c p into)) = (st, err_res EClosed)) /\
  (forall p into, pos_eval p = None -> step add fuel st (OSimple (SFetch c p into)) = (st, err_res EFetchPos)) /\
  (forall neg, step add fuel st (OSimple (SInRange c neg)) = (st, err_res EClosed)) /\
  step add fuel st (OSimple (SCount c)) = (st, err_res EClosed) /\
  (forall into body, step add (S fuel) st (OWhile c into body) = (st, mkRes (Some EClosed) None None [])).
Proof.
  intros add fuel st c cur Hf Hv. cbn [step].
  repeat split; intros; try (apply (closed_simple add st c cur); [exact Hf | exact Hv | cbn; auto]).
  - apply fetch_bad_position; assumption.
  - apply (closed_while add fuel st c cur); assumption.
Qed.
Print Assumptions C16_errors_closed.

Theorem C16_errors_open_twice : forall add st c cur v arg,
  bl_find c (blocks st) = Some cur -> c_view cur = Some v -> c_pseudo cur = false ->
  step_simple add st (SOpen c arg) = (st, err_res EAlreadyOpen).
Proof. exact open_twice. Qed.

(* a failed OPEN changes nothing: the cursor stays closed, no other cursor, variable or table is touched *)
Theorem C16_failed_open_changes_nothing : forall add st c arg st1 res,
  step_simple add st (SOpen c arg) = (st1, res) -> r_err res <> None -> st1 = st.
Proof. exact failed_open_changes_nothing. Qed.
Print Assumptions C16_failed_open_changes_nothing.

Theorem C16_errors_redeclared : forall add st c m bs x src,
  blocks st = m :: bs -> cm_find c m = Some x -> step_simple add st (SDeclare c src) = (st, err_res ERedeclared).
Proof. exact redeclared. Qed.

Theorem C16_errors_pseudo : forall add st c cur s,
  bl_find c (blocks st) = Some cur -> c_pseudo cur = true ->
  match s with SOpen d _ | SClose d | SDispose d => d = c | _ => False end ->
  step_simple add st s = (st, err_res EPseudo).
Proof. exact pseudo_refused. Qed.

(* CLOSE really closes: after it, the cursor the name resolves to is closed, whatever it held *)
Example C16_errors_example :
  let st := run add64 9 (init_state [(1%N, Some [[VInt 1]])] [VNull] [])
              [OSimple (SDeclare 1 (QDirect 1)); OSimple (SOpen 1 0); OSimple (SFetch 1 PNext [0%nat]); OSimple (SClose 1)] in
  snd (step add64 9 st (OSimple (SFetch 1 PFirst [0%nat]))) = err_res EClosed /\
  snd (step add64 9 st (OSimple (SCount 1))) = err_res EClosed /\
  snd (step add64 9 st (OSimple (SFetch 2 PFirst [0%nat]))) = err_res EUndeclared /\
  snd (step add64 9 st (OSimple (SFetch 1 (PAbs VNull) [0%nat]))) = err_res EFetchPos /\
  snd (step add64 9 (fst (step add64 9 st (OSimple (SOpen 1 0)))) (OSimple (SOpen 1 0))) = err_res EAlreadyOpen /\
  vars st = [VInt 1].
Proof. vm_compute. repeat split; reflexivity. Qed.
