(* C17 -- Analytic functions equal their per-partition, per-frame definition.
   Statements only.  Model: Model/Analytic.v (Analyze, WindowFrameSet and the functions of
   analytic_function.go), run against parser.Parse + query.Select on every check. *)
From Coq Require Import ZArith List Bool Floats Permutation.
Require Import Csvq.Model.Base Csvq.Model.Value Csvq.Model.Expr Csvq.Model.Key Csvq.Model.SortVal
               Csvq.Model.Query Csvq.Model.Analytic.
Require Import Csvq.Proofs.Analytic Csvq.Proofs.Rank Csvq.Proofs.Ntile.
Import ListNotations.
Open Scope Z_scope.

(* other columns and the number of rows are unaffected: the output rows are a permutation of the
   input rows, each extended by exactly one value -- for every function, clause and table *)
Theorem C17_rows_and_columns_preserved : forall strict f ac rows out,
  analyze strict f ac rows = Ok out ->
  Permutation (map (fun r => removelast r) out) rows /\ length out = length rows.
Proof. exact analyze_preserves_rows. Qed.
Print Assumptions C17_rows_and_columns_preserved.

(* the window frame of a row: exactly the partition members at positions max(low,0)..min(high,n-1) *)
Theorem C17_frame_is_the_position_range : forall (A : Type) (l : list A) low high,
  let lo := Z.max low 0 in let hi := Z.min high (Z.of_nat (length l) - 1) in
  length (frame_slice l low high) = Z.to_nat (Z.max 0 (hi - lo + 1)) /\
  forall k, (Z.of_nat k <= hi - lo) -> nth_error (frame_slice l low high) k = nth_error l (Z.to_nat lo + k).
Proof. intros A l low high. exact (frame_slice_spec l low high). Qed.
Print Assumptions C17_frame_is_the_position_range.

Theorem C17_unordered_or_unbounded_frame_is_the_partition : forall (A : Type) (l : list A) fs c,
  frame_of false fs c (Z.of_nat (length l)) = (0, Z.of_nat (length l) - 1) /\
  frame_of true (Some (FUnbPreceding, Some FUnbFollowing)) c (Z.of_nat (length l)) = (0, Z.of_nat (length l) - 1) /\
  frame_slice l 0 (Z.of_nat (length l) - 1) = l.
Proof. intros A l fs c. split; [reflexivity | split; [reflexivity | apply frame_slice_whole]]. Qed.

Theorem C17_row_number : forall strict ac ho p,
  analyze_partition strict ARowNumber ac ho p = Ok (map (fun c => VInt (c + 1)) (zseq 0 (length p))) /\
  forall k, (k < length p)%nat -> nth k (map (fun c => VInt (c + 1)) (zseq 0 (length p))) VNull = VInt (Z.of_nat k + 1).
Proof. exact row_number_spec. Qed.

(* FIRST_VALUE (n = 1) / NTH_VALUE: the n-th value of the frame -- the n-th non-NULL one under IGNORE
   NULLS -- and NULL when the frame holds fewer (after the repair of F-C17-2) *)
Theorem C17_nth_value : forall vals ign n, 1 <= n ->
  nth_in_frame vals ign n 0 =
  nth (Z.to_nat (n - 1)) (if ign then filter (fun v => negb (is_null v)) vals else vals) VNull.
Proof. exact nth_value_spec. Qed.
Print Assumptions C17_nth_value.

(* LAG: the value offset rows back inside the partition, else the default *)
Theorem C17_lag : forall vals i offset d, 0 <= i < Z.of_nat (length vals) ->
  lag_at vals i offset false d =
  if (0 <=? i - offset) && (i - offset <=? i) then nth (Z.to_nat (i - offset)) vals VNull else d.
Proof. exact lag_spec. Qed.
Print Assumptions C17_lag.

(* aggregates with OVER: the aggregate of exactly the frame's values *)
Theorem C17_windowed_aggregate : forall strict g dist e ac ho p vals,
  mapM (fun r => eval r e) (map fst p) = Ok vals ->
  analyze_partition strict (AAgg g dist e) ac ho p =
  Ok (map (fun c => let '(lo, hi) := frame_of ho (a_frame ac) c (Z.of_nat (length p)) in
                    let fr := frame_slice vals lo hi in
                    apply_agg g (if dist then distinguish strict fr else fr)) (zseq 0 (length p))).
Proof. exact windowed_aggregate_spec. Qed.
Print Assumptions C17_windowed_aggregate.

(* LAST_VALUE: "the last value of the row's frame" is FALSE of the code for asymmetric frames (the
   frames are taken on the reversed partition): with ROWS BETWEEN 1 PRECEDING AND CURRENT ROW the first
   of three rows gets the SECOND row's value.  Known finding F-C17-1. *)
Definition last_value_is_last_of_frame : Prop :=
  forall (vals : list val) (fs : frame_spec) p,
    length p = length vals ->
    mapM (fun r => eval r (ECol 0)) (map fst p) = Ok vals ->
    analyze_partition false (ALastValue (ECol 0) false) (mkAC [] [] fs) true p =
    Ok (map (fun c => let '(lo, hi) := frame_of true fs c (Z.of_nat (length p)) in
                      nth_in_frame (rev (frame_slice vals lo hi)) false 1 0) (zseq 0 (length p))).

Theorem C17_last_value_frame_refuted : ~ last_value_is_last_of_frame.
Proof.
  intros H.
  specialize (H [VInt 10; VInt 20; VInt 30] (Some (FPreceding 1, Some FCurrent))
                [([VInt 10], None); ([VInt 20], None); ([VInt 30], None)] eq_refl eq_refl).
  vm_compute in H. discriminate H.
Qed.

(* what does hold: on the whole partition (no ORDER BY, or UNBOUNDED .. UNBOUNDED) and on frames that
   are symmetric around the current row, e.g. 1 PRECEDING .. 1 FOLLOWING *)
Example C17_last_value_whole_partition :
  analyze_partition false (ALastValue (ECol 0) false) (mkAC [] [] None) false
    [([VInt 10], None); ([VInt 20], None); ([VInt 30], None)] = Ok [VInt 30; VInt 30; VInt 30].
Proof. vm_compute. reflexivity. Qed.
Example C17_last_value_symmetric_frame :
  analyze_partition false (ALastValue (ECol 0) false) (mkAC [] [] (Some (FPreceding 1, Some (FFollowing 1)))) true
    [([VInt 10], None); ([VInt 20], None); ([VInt 30], None)] = Ok [VInt 20; VInt 30; VInt 30].
Proof. vm_compute. reflexivity. Qed.

(* RANK and DENSE_RANK in closed form over the peer groups of the partition (the maximal runs of members
   whose sort values are equivalent to those of the run's first member; run_sizes are their sizes, from
   which the model also computes CUME_DIST and PERCENT_RANK): every member of a group gets
   1 + the number of rows before the group (RANK) / the number of the group (DENSE_RANK); the groups
   have positive sizes that add up to the partition *)
Theorem C17_rank_is_one_plus_rows_before_the_peer_group : forall strict ac ho (p : list pmember),
  analyze_partition strict ARank ac ho p = Ok (map VInt (expand_rank (run_sizes p None []) 0)).
Proof. intros. cbn [analyze_partition]. rewrite rank_closed_form. reflexivity. Qed.
Print Assumptions C17_rank_is_one_plus_rows_before_the_peer_group.

Theorem C17_dense_rank_is_the_number_of_the_peer_group : forall strict ac ho (p : list pmember),
  analyze_partition strict ADenseRank ac ho p = Ok (map VInt (expand_dense (run_sizes p None []) 0)).
Proof. intros. cbn [analyze_partition]. rewrite dense_rank_closed_form. reflexivity. Qed.
Print Assumptions C17_dense_rank_is_the_number_of_the_peer_group.

Theorem C17_peer_groups_cover_the_partition : forall p : list pmember,
  Forall (fun a => 0 < a) (run_sizes p None []) /\ zsum (run_sizes p None []) = Z.of_nat (length p).
Proof. exact peer_groups_cover. Qed.

Example C17_rank_example :
  let sv k := Some [new_sort_value false (VInt k)] in
  analyze_partition false ARank (mkAC [] [] None) true
    [([VInt 1], sv 1); ([VInt 1], sv 1); ([VInt 2], sv 2); ([VInt 3], sv 3); ([VInt 3], sv 3)]
  = Ok [VInt 1; VInt 1; VInt 3; VInt 4; VInt 4].
Proof. vm_compute. reflexivity. Qed.

(* NTILE(n) in closed form, for every partition size and every n >= 1: with per = rows / n and md = rows mod n
   the first md tiles hold per + 1 rows and the remaining n - md tiles per rows, numbered 1, 2, ... in partition
   order; with more tiles than rows every row is its own tile.  The sizes add up to the partition. *)
Theorem C17_ntile_closed_form : forall strict ac ho (p : list pmember) n,
  1 <= n ->
  analyze_partition strict (ANtile (ELit (VInt n))) ac ho p = Ok (map VInt (expand_dense (ntile_sizes (length p) n) 0)).
Proof.
  intros strict ac ho p n Hn. cbn [analyze_partition]. cbn.
  destruct (Z.ltb_spec n 1) as [L|L]; [exfalso; apply (Z.lt_irrefl 1); eapply Z.le_lt_trans; eassumption|].
  rewrite (ntile_closed_form (length p) n Hn). reflexivity.
Qed.
Print Assumptions C17_ntile_closed_form.

Theorem C17_ntile_sizes_cover_the_partition : forall total tiles, 1 <= tiles ->
  zsum (ntile_sizes total tiles) = Z.of_nat total.
Proof. exact ntile_sizes_sum. Qed.

Example C17_ntile_example : ntile 7 3 = [1; 1; 1; 2; 2; 3; 3] /\ ntile 2 5 = [1; 2] /\ ntile_sizes 7 3 = [3; 2; 2].
Proof. vm_compute. repeat split; reflexivity. Qed.
