(* C18 -- The parser is total; printed queries re-parse to the same query.
   Statements only; every proof is `exact` of a lemma in Proofs/Escape.v or Proofs/Lex.v.

   What is a theorem here: the hand-written scanner (lib/parser/scanner.go, Model/Lex.v) and the
   literal escaping used by every String() method (lib/option/utils.go, Model/Escape.v), for ALL
   texts: the scanner terminates, every token consumes input, every reported position is a position
   of the text, and every literal / quoted identifier that String() prints is scanned back to
   itself.  What is NOT a theorem: the LALR grammar (parser.y) is not modelled; totality of
   parser.Parse and print / re-parse / print identity of whole statements are checked
   differentially by the harness on every run (harness/c18_diff.go).

   The model these theorems speak about is run against parser.Scanner.Scan and option.Escape* /
   Unescape* / Quote* by the correspondence check (Harness/H18.v) on every run. *)
From Coq Require Import ZArith NArith List.
Require Import Csvq.Model.Base Csvq.Model.Escape Csvq.Model.Lex.
Require Import Csvq.Proofs.Escape Csvq.Proofs.Lex.
Import ListNotations.
Open Scope N_scope.

(* ---- literal escaping: UnescapeString inverts EscapeString, for all texts -------------------- *)
Theorem C18_unescape_escape_string : forall s, unescape_string (escape_string s) c_squote = s.
Proof. exact unescape_escape_string. Qed.
Print Assumptions C18_unescape_escape_string.

Theorem C18_unescape_escape_identifier : forall s, unescape_identifier (escape_identifier s) c_btick = s.
Proof. exact unescape_escape_identifier. Qed.
Print Assumptions C18_unescape_escape_identifier.

(* the quotation mark matters: the statement for an arbitrary `quote` argument is false (the double
   quotation mark is not escaped by EscapeString but is special to UnescapeString called with it as quote); csvq
   only ever prints with the single quotation mark / the back quote, which is the case proved above *)
Definition unescape_escape_any_quote : Prop := forall s q, unescape_string (escape_string s) q = s.
Theorem C18_unescape_escape_any_quote_refuted : ~ unescape_escape_any_quote.
Proof. exact unescape_escape_any_quote_fails. Qed.
Print Assumptions C18_unescape_escape_any_quote_refuted.

(* ---- what String() prints for a literal is scanned back to the same literal ------------------ *)
(* for every text s, every configuration, both quoting modes, prepared-statement mode on and off, any
   scanner position and whatever follows (except the same quotation mark again): one call of Scan
   on QuoteString(s) ++ rest yields the STRING token with literal s, not quoted, no error, at the
   position of the opening mark, and leaves exactly rest *)
Theorem C18_scan_quoted_string : forall fuel c m h s rest ln cl, hd_error rest <> Some c_squote ->
  scan (S fuel) c m h (mkP (quote_string s ++ rest) ln cl)
  = Some (mkTok (k_string (c_tok c)) s false 0 ln (cl + 1) None, h,
          mkP rest ln (cl + N.of_nat (length (quote_string s)))).
Proof. exact scan_quoted_string. Qed.
Print Assumptions C18_scan_quoted_string.

Theorem C18_scan_quoted_identifier : forall fuel c m h s rest ln cl, hd_error rest <> Some c_btick ->
  scan (S fuel) c m h (mkP (quote_identifier s ++ rest) ln cl)
  = Some (mkTok (k_identifier (c_tok c)) s true 0 ln (cl + 1) None, h,
          mkP rest ln (cl + N.of_nat (length (quote_identifier s)))).
Proof. exact scan_quoted_identifier. Qed.
Print Assumptions C18_scan_quoted_identifier.

(* EnvironmentVariable.String() for an enclosed name: @% followed by QuoteIdentifier(name) *)
Theorem C18_scan_quoted_envvar : forall fuel c m h s rest ln cl, s <> [] -> hd_error rest <> Some c_btick ->
  scan (S fuel) c m h (mkP (64 :: 37 :: quote_identifier s ++ rest) ln cl)
  = Some (mkTok (k_envvar (c_tok c)) s true 0 ln (cl + 1) None, h,
          mkP rest ln (cl + 2 + N.of_nat (length (quote_identifier s)))).
Proof. exact scan_quoted_envvar. Qed.
Print Assumptions C18_scan_quoted_envvar.

(* the side condition is needed (a following quotation mark doubles the closing one) and satisfiable *)
Definition scan_quoted_string_any_rest : Prop :=
  forall fuel c m h s rest ln cl,
    scan (S fuel) c m h (mkP (quote_string s ++ rest) ln cl)
    = Some (mkTok (k_string (c_tok c)) s false 0 ln (cl + 1) None, h,
            mkP rest ln (cl + N.of_nat (length (quote_string s)))).
Theorem C18_scan_quoted_string_any_rest_refuted : ~ scan_quoted_string_any_rest.
Proof. exact scan_quoted_string_any_rest_fails. Qed.
Example C18_side_condition_satisfiable : hd_error [32; 44] <> Some c_squote /\ hd_error (@nil N) <> Some c_squote.
Proof. split; discriminate. Qed.

(* ---- the scanner is total --------------------------------------------------------------------- *)
(* `tokens` runs Scan with fuel = length of the remaining input + 1 until the EOF token; it never
   runs out of fuel, whatever the text, the mode, the keyword table and the Unicode tables *)
Theorem C18_scan_total : forall c m src, tokens c m src <> None.
Proof. exact tokens_total. Qed.
Print Assumptions C18_scan_total.

Theorem C18_scan_total_one : forall fuel c m h s, (length (p_rest s) < fuel)%nat -> scan fuel c m h s <> None.
Proof. exact scan_enough_fuel. Qed.

Theorem C18_scan_all_total : forall fuel c m h s, (length (p_rest s) < fuel)%nat -> scan_all fuel c m h s <> None.
Proof. exact scan_all_enough_fuel. Qed.

(* ---- progress: every token but EOF consumes at least one code point ---------------------------- *)
Theorem C18_scan_progress : forall fuel c m h s t h' s',
  scan fuel c m h s = Some (t, h', s') ->
  (t_kind t = k_eof /\ p_rest s' = []) \/ (length (p_rest s') < length (p_rest s))%nat.
Proof. exact scan_progress_one. Qed.
Print Assumptions C18_scan_progress.

Theorem C18_token_count : forall c m src ts n, tokens c m src = Some (ts, n) ->
  (length ts <= S (length src))%nat.
Proof. exact tokens_progress. Qed.
Print Assumptions C18_token_count.

(* ---- positions: line/char of every token, hence of every lexical error (errors are reported at
   the token they belong to) and of the EOF token, is a position of the text ---------------------- *)
Theorem C18_scan_positions : forall c m src ts n, tokens c m src = Some (ts, n) ->
  Forall (fun t => In (t_line t, t_char t) (positions src)) ts.
Proof. exact tokens_positions. Qed.
Print Assumptions C18_scan_positions.

(* the numeric reading: lines count from 1, and line breaks passed + chars on the current line never
   exceed the length of the text *)
Theorem C18_positions_numeric : forall src p, In p (positions src) ->
  1 <= fst p /\ (fst p - 1) + snd p <= N.of_nat (length src).
Proof. exact positions_numeric. Qed.
Print Assumptions C18_positions_numeric.

(* the decidable checker the harness evaluates on parser.Scanner's own streams (positions inside the
   text, EOF last and only last, token count) holds of every stream of the model *)
Theorem C18_stream_ok : forall c m src ts n, tokens c m src = Some (ts, n) -> stream_ok src ts = true.
Proof. exact tokens_stream_ok. Qed.
Print Assumptions C18_stream_ok.

(* ---- stray characters: code points that equal goyacc token numbers ------------------------------- *)
(* a rune no case of Scan recognises is returned with token number = code point, except that a code point
   in the range of the grammar's own token numbers (a private use area) becomes UnknownCharacter
   (finding print-reparse:token-number-code-point, repaired in /repo: before, U+E00B alone was an
   ENVIRONMENT_VARIABLE token) *)
Theorem C18_default_token : forall c m h r ln cl ch,
  is_space ch = false ->
  (ch =? 63) = false -> (ch =? 58) = false -> is_decimal ch = false -> is_ident_rune c ch = false ->
  is_operator_rune ch = false -> (ch =? 64) = false -> (ch =? 36) = false -> (ch =? 47) = false ->
  (ch =? 45) = false -> (ch =? 39) = false -> (ch =? 34) = false -> (ch =? 96) = false ->
  scan_body c m h (mkP (ch :: r) ln cl)
  = BTok (mkTok (if is_token_number c ch then k_unknown_char else Z.of_N ch) [ch] false 0 ln (cl + 1) None) h (mkP r ln (cl + 1)).
Proof. exact default_token. Qed.

(* ... and that kind is never a number of a grammar token *)
Theorem C18_default_token_kind_not_a_token_number : forall c ch,
  let k := if is_token_number c ch then k_unknown_char else Z.of_N ch in
  (snd (c_private c) <= 1056768)%N -> (fst (c_private c) <= 57344)%N ->
  ~ (Z.of_N (fst (c_private c)) <= k < Z.of_N (fst (c_private c) + snd (c_private c)))%Z.
Proof. exact default_token_kind_not_a_token_number. Qed.
Print Assumptions C18_default_token_kind_not_a_token_number.

Example C18_example_token_number_char :
  tokens cfg0 modes0 [57355] = Some ([mkTok k_unknown_char [57355] false 0 1 1 None; mkTok k_eof [65533] false 0 1 1 None], 0%N).
Proof. exact example_token_number_char. Qed.

(* ---- non-vacuity ----------------------------------------------------------------------------------- *)
(* SELECT 'a\'b' <LF> --x <CR><LF> @v  : keyword, string with an escaped mark, line comment, CR LF, variable *)
Example C18_example_tokens :
  tokens cfg0 modes0 [83;69;76;69;67;84;32;39;97;92;39;98;39;10;45;45;120;13;10;64;118]
  = Some ([mkTok 57362 [83;69;76;69;67;84] false 0 1 1 None;
           mkTok 57347 [97;39;98] false 0 1 8 None;
           mkTok 57353 [118] false 0 3 1 None;
           mkTok (-1) [65533] false 0 3 2 None], 0).
Proof. exact example_tokens. Qed.

Example C18_example_quote : quote_string [97; 39; 10; 92] = [39; 97; 92; 39; 92; 110; 92; 92; 39].
Proof. exact example_quote. Qed.

Example C18_example_positions : positions [97; 13; 10; 98; 10] = [(1, 0); (1, 1); (2, 0); (2, 1); (3, 0)].
Proof. exact example_positions. Qed.
