(** * C19 -- csvq never fails internally: the error -> exit status part

    What is PROVED here: for the executable model of csvq's error classes (Model/ExitCode.v: one
    constructor per `New…` error constructor of lib/query/error.go, 119 static ones + the three whose code
    is chosen at run time + "foreign" Go errors, and cli.Exit's mapping in lib/cli/app.go) every error
    ends the process with a status of the manual's "Return Code" table, and status 0 means success or an
    explicit request of the program.  The domain of static classes is finite ([static_classes_bound]:
    119); statements over it are decided over the enumeration and lifted with [forallb_forall]
    (Proofs/C19.v); EXIT n / TRIGGER ERROR n / signal n are treated for all integers n.

    What ties it to the code: translator/c19 re-extracts the table (constructor, struct type, code,
    number), the ReturnCode constants and the shape of cli.Exit from the current source on every check and
    the shard compares it with [model_table] by vm_compute; programs that reach ~50 of the classes are
    run through the library and through the real binary and the observed number/Code()/status compared
    with [process_status].

    Second part (module FixedLength below): the fixed-length loader with explicit delimiter positions on
    UTF-8 text (Model/Fixed.v, mirroring go-text/fixedlen's parseRecord and loadViewFromFixedLengthTextFile):
    fixed_load_rectangular, progress and termination; tied to the code by comparing SELECT * FROM FIXED(…)
    of the real binary with the model cell by cell.  The CSV / LTSV shape theorems (csv_load_rect,
    ltsv_load_rect) live in the codec development (Proofs/Csv.v, Proofs/Ltsv.v; stated in Properties/C02.v).

    What is NOT proved: that the Go code never panics ("Fatal Error"), never hangs and loads only
    rectangular tables.  That part of C19 is explored (loader fuzzing, boundary sweeps, file-system
    conditions, the nil-error translator obligation) -- see lib/props_c19.py.  [fatal_error_code_is_not_special]
    records why the exit status alone cannot reveal an internal failure. *)
From Coq Require Import ZArith NArith List Bool.
Import ListNotations.
From Csvq.Model Require Import ExitCode.
From Csvq.Proofs Require Import C19.
Require Csvq.Model.Fixed Csvq.Proofs.Fixed.
Local Open Scope Z_scope.

(** the bound of the finite enumeration *)
Theorem static_classes_bound : length static_classes = 119%nat.
Proof. exact static_classes_length. Qed.
Print Assumptions static_classes_bound.

(** the enumeration is complete: every static class sits in it at its own index *)
Theorem static_classes_enumerated :
  forall e, is_static e = true -> nth_error static_classes (class_index e) = Some e.
Proof. exact static_classes_complete. Qed.
Print Assumptions static_classes_enumerated.

(** exit_code_total: every error class -- all 119 static ones, EXIT n, TRIGGER ERROR [n], signal n for every
    integer n, and foreign errors -- maps to the code the manual documents for it *)
Theorem exit_code_total : forall e, code_documented e (exit_code e).
Proof. exact exit_code_documented_all. Qed.
Print Assumptions exit_code_total.

(** exit_code_documented: the static classes use only 1, 2, 4, 8, 16, 32, 64, namely the value of their
    ReturnCode… category constant *)
Theorem exit_code_documented :
  forall e, is_static e = true ->
    In (exit_code e) documented_codes /\ exists c, category_of e = Some c /\ exit_code e = category_code c.
Proof. exact exit_code_static_category. Qed.
Print Assumptions exit_code_documented.

(** code 0 only when the program says so *)
Theorem exit_code_zero_only_on_request :
  forall e, wf_class e -> exit_code e = 0 -> e = E_ForcedExit 0 \/ e = E_UserTriggeredError (Some 0).
Proof. exact exit_code_zero. Qed.
Print Assumptions exit_code_zero_only_on_request.

(** the status seen by the parent process *)
Theorem status_in_range : forall o, 0 <= process_status o < 256.
Proof. exact process_status_range. Qed.
Print Assumptions status_in_range.

(** status 0 = success, or the program asked for a multiple of 256 (quirk: `EXIT 256`, `TRIGGER ERROR 0`
    end with status 0) *)
Theorem status_zero_only_success_or_request :
  forall o, wf_outcome o -> process_status o = 0 ->
    o = Success \/
    exists c, (o = Failed (E_ForcedExit c) \/ o = Failed (E_UserTriggeredError (Some c))) /\ c mod 256 = 0.
Proof. exact process_status_zero. Qed.
Print Assumptions status_zero_only_success_or_request.

(** every error whose code is not chosen by the program or by a signal is reported with a non-zero
    documented status, unchanged by the 8-bit truncation *)
Theorem status_of_errors_is_documented :
  forall e, is_static e = true \/ e = E_Foreign \/ e = E_UserTriggeredError None ->
    process_status (Failed e) = exit_code e /\ In (exit_code e) documented_codes.
Proof. exact process_status_static. Qed.
Print Assumptions status_of_errors_is_documented.

(** the error number fixes the code (so the harness may identify classes by number) and encodes it *)
Theorem error_number_determines_code :
  forall e1 e2, is_static e1 = true -> is_static e2 = true ->
    error_number e1 = error_number e2 -> exit_code e1 = exit_code e2.
Proof. exact number_determines_code. Qed.
Print Assumptions error_number_determines_code.

Theorem error_number_band :
  forall e n, is_static e = true -> error_number e = Some n ->
    (90000 <= n -> exit_code e = band_code n) /\ (n < 90000 -> exit_code e = 1 \/ exit_code e = 32).
Proof. exact number_band. Qed.
Print Assumptions error_number_band.

Theorem class_of_number_sound :
  forall n p e, class_of_number n p = Some e -> is_static e = true -> error_number e = Some n.
Proof. exact class_of_number_static. Qed.
Print Assumptions class_of_number_sound.

(** the pinned table the translator's extraction is compared with is the table of [exit_code]/[error_number] *)
Theorem model_table_is_exit_code :
  forall e, is_static e = true ->
    In (ctor_name e, type_name e, inl (exit_code e), inl (match error_number e with Some n => n | None => 0 end)) model_table.
Proof. exact model_table_rows. Qed.
Print Assumptions model_table_is_exit_code.

(** ** non-vacuity and quirks *)
Example hyp_static_satisfiable : is_static E_FieldNotExistError = true /\ is_static E_FatalError = true.
Proof. split; reflexivity. Qed.

Example statuses_examples :
  process_status Success = 0
  /\ process_status (Failed E_FileNotExistError) = 16
  /\ process_status (Failed E_SyntaxError) = 4
  /\ process_status (Failed E_IncorrectCommandUsageError) = 2
  /\ process_status (Failed E_FileLockTimeoutError) = 8
  /\ process_status (Failed E_ExternalCommandError) = 32
  /\ process_status (Failed (E_UserTriggeredError None)) = 64
  /\ process_status (Failed (E_SignalReceived 2)) = 130
  /\ process_status (Failed (E_ForcedExit 7)) = 7.
Proof. vm_compute. repeat split; reflexivity. Qed.

(** observed on the binary: `EXIT 300` -> 44, `EXIT 256` -> 0, `TRIGGER ERROR 0 'x'` -> 0 *)
Example status_truncation :
  process_status (Failed (E_ForcedExit 300)) = 44
  /\ process_status (Failed (E_ForcedExit 256)) = 0
  /\ process_status (Failed (E_UserTriggeredError (Some 0))) = 0.
Proof. vm_compute. repeat split; reflexivity. Qed.

(** an internal failure (recovered panic) is reported with the same code as any application error or
    foreign error: the exit status cannot reveal it -- the harness must look for the "[Fatal Error]" marker *)
Example fatal_error_code_is_not_special :
  exit_code E_FatalError = 1 /\ exit_code E_FieldNotExistError = 1 /\ exit_code E_Foreign = 1.
Proof. vm_compute. repeat split; reflexivity. Qed.

(** the full statement "an error never ends with status 0" is false of the faithful model *)
Definition error_status_nonzero : Prop := forall e, wf_class e -> process_status (Failed e) <> 0.

Theorem error_status_nonzero_refuted : ~ error_status_nonzero.
Proof.
  intro H. apply (H (E_ForcedExit 256)); [exact I | vm_compute; reflexivity].
Qed.
Print Assumptions error_status_nonzero_refuted.

(** strongest true restriction: classes whose code is not chosen by the program *)
Theorem error_status_nonzero_partial :
  forall e, is_static e = true \/ e = E_Foreign \/ e = E_UserTriggeredError None \/ (exists s, e = E_SignalReceived s /\ 1 <= s <= 64) ->
    process_status (Failed e) <> 0.
Proof. exact error_status_nonzero_static. Qed.
Print Assumptions error_status_nonzero_partial.

(** ** the fixed-length loader (explicit delimiter positions, UTF-8): Model/Fixed.v *)
Module FixedLength.
Import Csvq.Model.Fixed Csvq.Proofs.Fixed.

(** fixed_load_rectangular: for EVERY position list (valid or not), option vector and input, the model of
    go-text/fixedlen's reader + loadViewFromFixedLengthTextFile returns an error, runs for ever, or a table
    with exactly one header name and one cell per record for each delimiter position *)
Theorem fixed_load_rectangular :
  forall ps single noheader wn inp t,
    fixed_load ps single noheader wn inp = FLTable t ->
    length (t_header t) = length ps /\ rectangular t.
Proof. exact fixed_load_rect. Qed.
Print Assumptions fixed_load_rectangular.

(** every returned record consumed input -- unless single-line mode meets an empty position list *)
Theorem fixed_record_progress :
  forall ps single wn inp rec rest,
    ps <> [] \/ single = false ->
    parse_record ps single wn inp = ROk rec rest -> (length rest < length inp)%nat.
Proof. exact parse_record_progress. Qed.
Print Assumptions fixed_record_progress.

(** "loading always terminates" is false of the faithful model: 'S[]' on a non-empty input
    (finding fixed-single-line-empty-positions: the real reader allocates until it is killed) *)
Definition fixed_load_total : Prop :=
  forall ps single noheader wn inp, fixed_load ps single noheader wn inp <> FLOutOfFuel.

Theorem fixed_load_total_refuted : ~ fixed_load_total.
Proof. intro H. apply (H [] true false false [97%N]). vm_compute. reflexivity. Qed.
Print Assumptions fixed_load_total_refuted.

Theorem fixed_load_total_partial :
  forall ps single noheader wn inp,
    ps <> [] \/ single = false ->
    fixed_load ps single noheader wn inp <> FLOutOfFuel.
Proof. exact fixed_load_terminates. Qed.
Print Assumptions fixed_load_total_partial.

(** non-vacuity: "ab  cd\n1   22\n" with positions [2;6] loads as header (ab, cd), one row (1, 22) *)
Example fixed_load_example :
  fixed_load [2; 6]%Z false false false [97;98;32;32;99;100;10;49;32;32;32;50;50;10]%N
  = FLTable (mkTable [[97;98]; [99;100]]%N [[Some [49]%N; Some [50;50]%N]]).
Proof. vm_compute. reflexivity. Qed.

(** quirk kept: a lone CR at the very end of the input is an error *)
Example fixed_trailing_cr_is_error :
  fixed_load [1]%Z false true false [97; 13]%N = FLErr PE_UnreadRune.
Proof. vm_compute. reflexivity. Qed.
End FixedLength.
