(* C20 -- Within a transaction a loaded table is stable and shows its own changes.
   Statements only; proofs are `exact` of lemmas in Proofs/Txn.v.

   Model: the cache part of Model/Txn.v; other processes are the environment action
   ExtCommit p t, which may occur between ANY two steps and takes effect unless the transaction
   holds the table's lock (it loaded it for update).  TxnSpec.track states, for one table, what a
   later read returns.  The correspondence check (Harness/H20.v, harness/c20.go) runs two
   Transactions on one directory and compares every read with the model and with `track`. *)
Require Import Csvq.Model.Base Csvq.Model.Value Csvq.Model.Txn Csvq.Model.TxnSpec.
Require Import Csvq.Proofs.Txn.

(* ---- the exact statement, for ANY interleaving `mid` (own statements, failed statements, commits
   of other processes to any table, in any order) without COMMIT / ROLLBACK: a read of p returns
   `track`: the value held (v), replaced by the transaction's own changes; the file shows through
   only at the first access for update to a copy that was loaded by a plain SELECT ---------------- *)
Theorem C20_repeatable_read : forall mid s p e d, cache s p = Some e -> disk s p = Some d ->
  no_end mid = true ->
  visible (execs mid s) p = Some (track p (ce_tab e) (ce_fu e) d mid).
Proof. exact repeatable_read. Qed.
Print Assumptions C20_repeatable_read.

(* over histories: loaded by step i (= after `pre`), read at step j (= after `pre ++ mid`) *)
Theorem C20_repeatable_read_history : forall d0 pre mid p e, ops_wf pre (init d0) ->
  cache (execs pre (init d0)) p = Some e -> no_end mid = true ->
  exists d, disk (execs pre (init d0)) p = Some d /\
            visible (execs (pre ++ mid) (init d0)) p = Some (track p (ce_tab e) (ce_fu e) d mid).
Proof. exact repeatable_read_history. Qed.
Print Assumptions C20_repeatable_read_history.

(* ---- the same without `track` -------------------------------------------------------------------- *)
(* loaded by a plain SELECT, no access for update since: the same data, whatever others commit *)
Theorem C20_stable_plain : forall mid s p e d, cache s p = Some e -> disk s p = Some d -> ce_fu e = false ->
  no_end mid = true -> forallb (fun o => negb (touches_fu p o)) mid = true ->
  visible (execs mid s) p = Some (ce_tab e).
Proof. exact rr_plain. Qed.
Print Assumptions C20_stable_plain.

(* held for update: the same data until the transaction changes it itself *)
Theorem C20_stable_locked : forall mid s p e d, cache s p = Some e -> disk s p = Some d -> ce_fu e = true ->
  no_end mid = true -> forallb (fun o => negb (changes p o)) mid = true ->
  visible (execs mid s) p = Some (ce_tab e).
Proof. exact rr_locked. Qed.
Print Assumptions C20_stable_locked.

(* it sees exactly its own latest change *)
Theorem C20_own_change_visible : forall mid1 mid2 s p mk t e d, cache s p = Some e -> disk s p = Some d ->
  no_end mid1 = true -> no_end mid2 = true ->
  forallb (fun o => negb (changes p o)) mid2 = true ->
  visible (execs (mid1 ++ SChange p mk t :: mid2) s) p = Some t.
Proof. exact rr_own_change. Qed.
Print Assumptions C20_own_change_visible.

(* ---- after COMMIT / ROLLBACK the next read returns the current file -------------------------------- *)
Theorem C20_fresh_after_end : forall o s exts p, is_end o = true -> forallb is_ext exts = true ->
  visible (exec (SRead p) (execs exts (exec o s))) p = disk (execs exts (exec o s)) p /\
  disk (exec (SRead p) (execs exts (exec o s))) p = disk (execs exts (exec o s)) p.
Proof. exact fresh_after_end. Qed.
Print Assumptions C20_fresh_after_end.

(* ---- link to C09: while the lock is held no other process commits to the table -------------------- *)
Theorem C20_ext_commit_excluded_while_locked : forall s p t, locked s p = true ->
  exec (ExtCommit p t) s = s.
Proof. exact ext_commit_excluded_while_locked. Qed.
Print Assumptions C20_ext_commit_excluded_while_locked.

(* ---- non-vacuity; the documented exception is real ----------------------------------------------- *)
Definition ex_a : tab := [[VNull]; [VInt 1]].
Definition ex_b : tab := [[VNull]; [VInt 2]].
Definition ex_c : tab := [[VNull]; [VInt 3]].
Definition ex_d0 : key -> option tab := fun k => if N.eqb k 0 then Some (render_tab ex_a) else None.

(* A reads, B commits, A reads again: A still sees its first reading *)
Example C20_example_stable :
  visible (execs [SRead 0%N; ExtCommit 0%N ex_b; SRead 0%N] (init ex_d0)) 0%N = Some (render_tab ex_a) /\
  disk (execs [SRead 0%N; ExtCommit 0%N ex_b; SRead 0%N] (init ex_d0)) 0%N = Some (render_tab ex_b).
Proof. vm_compute. split; reflexivity. Qed.

(* the exception: A's first access for update after the plain read reloads the table *)
Example C20_example_exception :
  visible (execs [SRead 0%N; ExtCommit 0%N ex_b; SReadFU 0%N] (init ex_d0)) 0%N = Some (render_tab ex_b) /\
  track 0%N (render_tab ex_a) false (render_tab ex_a) [ExtCommit 0%N ex_b; SReadFU 0%N] = render_tab ex_b.
Proof. vm_compute. split; reflexivity. Qed.

(* loaded for update: B is locked out, A sees its own change, and after COMMIT the file has it *)
Example C20_example_locked :
  let ops := [SReadFU 0%N; ExtCommit 0%N ex_b; SChange 0%N true ex_c; ExtCommit 0%N ex_b; SRead 0%N] in
  visible (execs ops (init ex_d0)) 0%N = Some ex_c /\
  disk (execs ops (init ex_d0)) 0%N = Some (render_tab ex_a) /\
  disk (execs (ops ++ [SCommit; ExtCommit 0%N ex_b; SRead 0%N]) (init ex_d0)) 0%N = Some (render_tab ex_b) /\
  visible (execs (ops ++ [SCommit; ExtCommit 0%N ex_b; SRead 0%N]) (init ex_d0)) 0%N = Some (render_tab ex_b).
Proof. vm_compute. repeat split; reflexivity. Qed.
