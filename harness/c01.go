package main

// C01: a transaction reaches the files all-or-nothing, according to how it ended.
// Generated procedures (INSERT / UPDATE / DELETE / REPLACE / INSERT SELECT / CREATE TABLE / ALTER
// TABLE on CSV files and temporary tables, SELECT [FOR UPDATE], COMMIT / ROLLBACK, IF / WHILE
// nesting, and an error / EXIT / TRIGGER ERROR injected at every position) are run
//  (a) through the library, statement by statement on one Transaction, to observe each
//      statement's effect (the abstract ops of Model.Txn) and the end of the run, and
//  (b) with the REAL BINARY build/csvq in a fresh copy of the directory;
//  (c) the binary again under strace with SIGINT injected at the N-th call of a system call;
//  (d) through the library with the context cancelled right before the automatic COMMIT.

import (
	"context"
	"fmt"
	"math/rand"
	"os"
	"path/filepath"
	"sort"
	"strings"
	"sync"
	"time"
)

func init() { runners["C01"] = runC01 }

// ---- procedures as trees --------------------------------------------------------------------------
type pcond struct {
	kind string // true | false | ctr
	ctr  string
	val  int
}

func (c pcond) sql() string {
	switch c.kind {
	case "true":
		return "1 = 1"
	case "false":
		return "1 = 2"
	}
	return fmt.Sprintf("@%s = %d", c.ctr, c.val)
}
func (c pcond) eval(ctrs map[string]int) bool {
	switch c.kind {
	case "true":
		return true
	case "false":
		return false
	}
	return ctrs[c.ctr] == c.val
}

type pnode struct {
	kind  string // stmt | if | while
	sql   string
	eff   effect
	cond  pcond
	body  []*pnode
	els   []*pnode
	ctr   string
	iters int
}

func renderNodes(ns []*pnode, ind string, b *strings.Builder) {
	for _, n := range ns {
		switch n.kind {
		case "stmt":
			b.WriteString(ind + n.sql + ";\n")
		case "if":
			b.WriteString(ind + "IF " + n.cond.sql() + " THEN\n")
			renderNodes(n.body, ind+"  ", b)
			if n.els != nil {
				b.WriteString(ind + "ELSE\n")
				renderNodes(n.els, ind+"  ", b)
			}
			b.WriteString(ind + "END IF;\n")
		case "while":
			b.WriteString(fmt.Sprintf("%sVAR @%s := 0;\n%sWHILE @%s < %d DO\n", ind, n.ctr, ind, n.ctr, n.iters))
			renderNodes(n.body, ind+"  ", b)
			b.WriteString(fmt.Sprintf("%s  @%s := @%s + 1;\n%sEND WHILE;\n", ind, n.ctr, n.ctr, ind))
		}
	}
}

func cloneNodes(ns []*pnode) []*pnode {
	if ns == nil {
		return nil
	}
	out := make([]*pnode, len(ns))
	for i, n := range ns {
		c := *n
		c.body = cloneNodes(n.body)
		c.els = cloneNodes(n.els)
		out[i] = &c
	}
	return out
}

// slots: every position of every statement list; fn gets the list, the position and the
// innermost enclosing loop (nil outside loops); returning true stops the walk
func walkSlots(ns *[]*pnode, loop *pnode, fn func(list *[]*pnode, idx int, loop *pnode) bool) bool {
	for i := 0; i <= len(*ns); i++ {
		if fn(ns, i, loop) {
			return true
		}
		if i < len(*ns) {
			n := (*ns)[i]
			switch n.kind {
			case "if":
				if walkSlots(&n.body, loop, fn) {
					return true
				}
				if n.els != nil && walkSlots(&n.els, loop, fn) {
					return true
				}
			case "while":
				if walkSlots(&n.body, n, fn) {
					return true
				}
			}
		}
	}
	return false
}

func countSlots(ns []*pnode) int {
	c := 0
	walkSlots(&ns, nil, func(*[]*pnode, int, *pnode) bool { c++; return false })
	return c
}

func insertAtSlot(ns []*pnode, slot int, mk func(loop *pnode) *pnode) []*pnode {
	c := 0
	walkSlots(&ns, nil, func(list *[]*pnode, idx int, loop *pnode) bool {
		if c == slot {
			n := mk(loop)
			l := append([]*pnode{}, (*list)[:idx]...)
			l = append(l, n)
			l = append(l, (*list)[idx:]...)
			*list = l
			return true
		}
		c++
		return false
	})
	return ns
}

// ---- generator --------------------------------------------------------------------------------------
type tref struct {
	temp bool
	k    int
}

func (t tref) sql() string {
	if t.temp {
		return tempName(t.k)
	}
	return fileSQL(t.k)
}
func (t tref) key() string { return t.sql() }

type c01Track struct {
	files  map[int]bool        // files believed to exist
	extras map[string][]string // extra columns believed to exist per table
}

func (t c01Track) clone() c01Track {
	c := c01Track{files: map[int]bool{}, extras: map[string][]string{}}
	for k, v := range t.files {
		c.files[k] = v
	}
	for k, v := range t.extras {
		c.extras[k] = append([]string{}, v...)
	}
	return c
}

type c01Gen struct {
	rnd                       *rand.Rand
	cur, committed            c01Track
	temps                     map[int]bool
	nextID, nextCol, nextCtr  int
	nfiles, ntemps            int
}

func (g *c01Gen) tables() []tref {
	var ts []tref
	for k := 0; k < g.nfiles; k++ {
		if g.cur.files[k] {
			ts = append(ts, tref{false, k}, tref{false, k}) // files twice as likely
		}
	}
	for k := 0; k < g.ntemps; k++ {
		if g.temps[k] {
			ts = append(ts, tref{true, k}, tref{true, k})
		}
	}
	return ts
}

func (g *c01Gen) pick() (tref, bool) {
	ts := g.tables()
	if len(ts) == 0 {
		return tref{}, false
	}
	return ts[g.rnd.Intn(len(ts))], true
}

func (g *c01Gen) text() string {
	return []string{"ab", "cd", "x y", "Zed", "q", "n7", "hello"}[g.rnd.Intn(7)]
}

func stmtNode(sql string, e effect) *pnode { return &pnode{kind: "stmt", sql: sql, eff: e} }

func changeEff(t tref, always bool, reads ...int) effect {
	e := targetEff("change", t.temp, t.k)
	e.always = always
	e.reads = reads
	return e
}

func (g *c01Gen) stmt(depth int, inLoop bool) *pnode {
	for try := 0; try < 20; try++ {
		x := g.rnd.Intn(100)
		t, ok := g.pick()
		switch {
		case x < 16 && ok:
			g.nextID++
			return stmtNode(fmt.Sprintf("INSERT INTO %s (c1, c2, c3) VALUES (%d, %d, '%s')", t.sql(), 100+g.nextID, g.rnd.Intn(100), g.text()), changeEff(t, false))
		case x < 28 && ok:
			return stmtNode(fmt.Sprintf("UPDATE %s SET c2 = %d WHERE c1 = %d", t.sql(), g.rnd.Intn(1000), 1+g.rnd.Intn(5)), changeEff(t, false))
		case x < 33 && ok:
			return stmtNode(fmt.Sprintf("UPDATE %s SET c3 = '%s'", t.sql(), g.text()), changeEff(t, false))
		case x < 40 && ok:
			return stmtNode(fmt.Sprintf("DELETE FROM %s WHERE c1 = %d", t.sql(), 1+g.rnd.Intn(5)), changeEff(t, false))
		case x < 46 && ok:
			// one row only: REPLACE appends unmatched rows in Go map order (finding of C05/C12)
			return stmtNode(fmt.Sprintf("REPLACE INTO %s (c1, c2, c3) USING (c1) VALUES (%d, %d, '%s')", t.sql(), 1+g.rnd.Intn(6), g.rnd.Intn(1000), g.text()), changeEff(t, false))
		case x < 52 && ok:
			src, _ := g.pick()
			g.nextID += 10
			var reads []int
			if !src.temp && src != t {
				reads = []int{src.k}
			}
			return stmtNode(fmt.Sprintf("INSERT INTO %s (c1, c2, c3) SELECT c1 + %d, c2, c3 FROM %s", t.sql(), 1000*g.nextID, src.sql()), changeEff(t, false, reads...))
		case x < 57 && ok && !inLoop:
			g.nextCol++
			col := fmt.Sprintf("x%d", g.nextCol)
			g.cur.extras[t.key()] = append(g.cur.extras[t.key()], col)
			pos := []string{"", " FIRST", " LAST", " AFTER c1", " BEFORE c3"}[g.rnd.Intn(5)]
			return stmtNode(fmt.Sprintf("ALTER TABLE %s ADD (%s DEFAULT %d)%s", t.sql(), col, g.rnd.Intn(10), pos), changeEff(t, true))
		case x < 60 && ok && !inLoop && len(g.cur.extras[t.key()]) > 0:
			ex := g.cur.extras[t.key()]
			col := ex[len(ex)-1]
			g.cur.extras[t.key()] = ex[:len(ex)-1]
			return stmtNode(fmt.Sprintf("ALTER TABLE %s DROP %s", t.sql(), col), changeEff(t, true))
		case x < 62 && ok && !inLoop && len(g.cur.extras[t.key()]) > 0:
			ex := g.cur.extras[t.key()]
			g.nextCol++
			ncol := fmt.Sprintf("y%d", g.nextCol)
			col := ex[len(ex)-1]
			ex[len(ex)-1] = ncol
			return stmtNode(fmt.Sprintf("ALTER TABLE %s RENAME %s TO %s", t.sql(), col, ncol), changeEff(t, true))
		case x < 67 && !inLoop:
			var free []int
			for k := 0; k < g.nfiles; k++ {
				if !g.cur.files[k] {
					free = append(free, k)
				}
			}
			if len(free) == 0 {
				continue
			}
			k := free[g.rnd.Intn(len(free))]
			g.cur.files[k] = true
			e := effect{kind: "create", file: k, temp: -1}
			if ok && g.rnd.Intn(2) == 0 {
				if !t.temp {
					e.reads = []int{t.k}
				}
				return stmtNode(fmt.Sprintf("CREATE TABLE %s (c1, c2, c3) AS SELECT c1, c2, c3 FROM %s", fileSQL(k), t.sql()), e)
			}
			return stmtNode(fmt.Sprintf("CREATE TABLE %s (c1, c2, c3)", fileSQL(k)), e)
		case x < 74 && depth == 0:
			var free []int
			for k := 0; k < g.ntemps; k++ {
				if !g.temps[k] {
					free = append(free, k)
				}
			}
			if len(free) == 0 {
				continue
			}
			k := free[0]
			g.temps[k] = true
			e := effect{kind: "declare", file: -1, temp: k}
			if ok && !t.temp && g.rnd.Intn(2) == 0 {
				e.reads = []int{t.k}
				return stmtNode(fmt.Sprintf("DECLARE %s VIEW (c1, c2, c3) AS SELECT c1, c2, c3 FROM %s", tempName(k), t.sql()), e)
			}
			return stmtNode(fmt.Sprintf("DECLARE %s VIEW (c1, c2, c3)", tempName(k)), e)
		case x < 78 && ok && t.temp:
			return stmtNode("SELECT * FROM "+t.sql(), effect{kind: "readt", file: -1, temp: t.k})
		case x < 78 && ok && !t.temp:
			return stmtNode("SELECT * FROM "+t.sql(), effect{kind: "read", file: t.k, temp: -1})
		case x < 81 && ok && !t.temp:
			return stmtNode("SELECT * FROM "+t.sql()+" FOR UPDATE", effect{kind: "readfu", file: t.k, temp: -1})
		case x < 90:
			g.committed = g.cur.clone()
			return stmtNode("COMMIT", effect{kind: "commit", file: -1, temp: -1})
		case x < 95:
			g.cur = g.committed.clone()
			return stmtNode("ROLLBACK", effect{kind: "rollback", file: -1, temp: -1})
		}
	}
	return stmtNode("COMMIT", effect{kind: "commit", file: -1, temp: -1})
}

func (g *c01Gen) block(n int, depth int, inLoop bool) []*pnode {
	var ns []*pnode
	for i := 0; i < n; i++ {
		x := g.rnd.Intn(100)
		switch {
		case x < 8 && depth < 2:
			c := pcond{kind: []string{"true", "true", "false"}[g.rnd.Intn(3)]}
			n := &pnode{kind: "if", cond: c}
			saveCur, saveCom := g.cur.clone(), g.committed.clone()
			n.body = g.block(1+g.rnd.Intn(3), depth+1, inLoop)
			if c.kind == "false" {
				g.cur, g.committed = saveCur, saveCom
				if g.rnd.Intn(2) == 0 {
					n.els = g.block(1+g.rnd.Intn(2), depth+1, inLoop)
				}
			} else if g.rnd.Intn(3) == 0 {
				sc, sm := g.cur.clone(), g.committed.clone()
				n.els = g.block(1+g.rnd.Intn(2), depth+1, inLoop)
				g.cur, g.committed = sc, sm
			}
			ns = append(ns, n)
		case x < 15 && depth < 2:
			g.nextCtr++
			n := &pnode{kind: "while", ctr: fmt.Sprintf("c%d", g.nextCtr), iters: []int{0, 1, 2, 2, 3}[g.rnd.Intn(5)]}
			saveCur, saveCom := g.cur.clone(), g.committed.clone()
			n.body = g.block(1+g.rnd.Intn(3), depth+1, true)
			if n.iters == 0 {
				g.cur, g.committed = saveCur, saveCom
			}
			ns = append(ns, n)
		default:
			ns = append(ns, g.stmt(depth, inLoop))
		}
	}
	return ns
}

// ---- injected endings ----------------------------------------------------------------------------------
var c01Endings = []string{"div0", "unknown-table", "exit", "exit-code", "trigger-error", "trigger-error-code", "failing-update", "failing-insert", "create-existing"}

func endingNode(kind string, target int) *pnode {
	switch kind {
	case "div0":
		return stmtNode("SELECT 1 / 0", effect{kind: "fail", file: -1, temp: -1})
	case "unknown-table":
		return stmtNode("SELECT * FROM nosuch", effect{kind: "fail", file: -1, temp: -1})
	case "exit":
		return stmtNode("EXIT", effect{kind: "exit", file: -1, temp: -1})
	case "exit-code":
		return stmtNode("EXIT 3", effect{kind: "exit", file: -1, temp: -1})
	case "trigger-error":
		return stmtNode("TRIGGER ERROR", effect{kind: "exit", file: -1, temp: -1})
	case "trigger-error-code":
		return stmtNode("TRIGGER ERROR 7 'stop'", effect{kind: "exit", file: -1, temp: -1})
	case "failing-update":
		return stmtNode(fmt.Sprintf("UPDATE %s SET c2 = 1 / 0", fileSQL(target)), effect{kind: "fail", file: target, temp: -1, touched: []int{target}})
	case "failing-insert":
		return stmtNode(fmt.Sprintf("INSERT INTO %s (c1, c2, c3) VALUES (1, 2)", fileSQL(target)), effect{kind: "fail", file: target, temp: -1, touched: []int{target}})
	}
	return stmtNode(fmt.Sprintf("CREATE TABLE %s (a)", fileSQL(target)), effect{kind: "fail", file: target, temp: -1, create: true})
}

// ---- one variant = one procedure text + its runs ----------------------------------------------------
type c01Variant struct {
	tree    []*pnode
	text    string
	ending  string // "" = as generated
	slot    int
	init    map[int]initTab
	// library run
	items   string
	show    []interface{}
	notes   []string
	mode    string
	libDir  dirObs
	libTemp map[int]obsTab
	trace   int // executed leaf statements
	// binary run
	bin    RunResult
	binDir dirObs
}

const c01Files, c01Temps = 5, 2

// libRun walks the tree the way the processor would (conditions are static / loop counters are
// known), executing every leaf statement on the session
type c01Walker struct {
	r     *recorder
	ctx   context.Context
	ctrs  map[string]int
	mode  string // "" while running
	steps int
}

func (x *c01Walker) walk(ns []*pnode) {
	for _, n := range ns {
		if x.mode != "" {
			return
		}
		switch n.kind {
		case "if":
			if n.cond.eval(x.ctrs) {
				x.walk(n.body)
			} else if n.els != nil {
				x.walk(n.els)
			}
		case "while":
			for i := 0; i < n.iters && x.mode == ""; i++ {
				x.ctrs[n.ctr] = i
				x.walk(n.body)
			}
		default:
			x.steps++
			switch n.eff.kind {
			case "read":
				t, err := x.r.s.read(fileSQL(n.eff.file))
				if err != nil {
					x.r.emit("IOp (SFail [])", map[string]interface{}{"sql": n.sql, "error": err.Error()})
					x.mode = "Error"
				} else {
					x.r.emit(fmt.Sprintf("IRead %s %s", coqN(n.eff.file), x.r.w.optTabRef(t, true)), map[string]interface{}{"sql": n.sql, "result": showTab(t)})
				}
			case "readt":
				t, err := x.r.s.read(tempName(n.eff.temp))
				if err != nil {
					x.r.emit("IOp (SFail [])", map[string]interface{}{"sql": n.sql, "error": err.Error()})
					x.mode = "Error"
				} else {
					x.r.emit(fmt.Sprintf("IReadT %s %s", coqN(n.eff.temp), x.r.w.optTabRef(t, true)), map[string]interface{}{"sql": n.sql, "result": showTab(t)})
				}
			case "readfu":
				t, err := x.r.s.readForUpdate(fileSQL(n.eff.file))
				if err != nil {
					x.r.emit(fmt.Sprintf("IOp (SFail [%s])", coqN(n.eff.file)), map[string]interface{}{"sql": n.sql, "error": err.Error()})
					x.mode = "Error"
				} else {
					x.r.emit(fmt.Sprintf("IReadFU %s %s", coqN(n.eff.file), x.r.w.optTabRef(t, true)), map[string]interface{}{"sql": n.sql, "result": showTab(t)})
				}
			case "exit":
				e := n.eff
				e.kind = "none"
				err, isExit := x.r.do(x.ctx, n.sql, e)
				if err != nil {
					x.mode = "Error"
				} else if isExit {
					x.mode = "Exit"
				}
			default:
				err, isExit := x.r.do(x.ctx, n.sql, n.eff)
				if err != nil {
					x.mode = "Error"
				} else if isExit {
					x.mode = "Exit"
				}
			}
			x.r.white()
		}
	}
}

func c01LibRun(w *txnShard, v *c01Variant, cancelBeforeCommit bool) (failure string) {
	sc := newScratch()
	defer sc.Close()
	defer func() {
		if e := recover(); e != nil {
			failure = fmt.Sprint(e)
		}
	}()
	writeInit(sc.Dir, v.init)
	s := newLibSess(sc.Dir, 5)
	r := &recorder{s: s, w: w, nfiles: c01Files, ntemps: c01Temps}
	ctx, cancel := context.WithCancel(context.Background())
	defer cancel()
	x := &c01Walker{r: r, ctx: ctx, ctrs: map[string]int{}}
	x.walk(v.tree)
	if x.mode == "" {
		x.mode = "Normal"
	}
	v.mode, v.trace = x.mode, x.steps
	// the end of the run (lib/action/run.go + lib/cli/app.go)
	if x.mode == "Normal" {
		if cancelBeforeCommit {
			cancel()
		}
		if err := s.proc.AutoCommit(ctx); err != nil {
			r.notes = append(r.notes, "automatic COMMIT returned an error: "+err.Error())
		}
	}
	if err := s.proc.AutoRollback(); err != nil {
		r.notes = append(r.notes, "AutoRollback returned an error: "+err.Error())
	}
	if err := s.proc.ReleaseResourcesWithErrors(); err != nil {
		r.notes = append(r.notes, "ReleaseResourcesWithErrors: "+err.Error())
	}
	v.libTemp = map[int]obsTab{}
	for k := 0; k < c01Temps; k++ {
		if t, err := s.read(tempName(k)); err == nil {
			v.libTemp[k] = t
		}
	}
	v.libDir = observeDir(sc.Dir, v.init)
	v.items, v.show, v.notes = r.coqItems(), r.show, r.notes
	return ""
}

func c01BinRun(v *c01Variant, strace []string) (RunResult, dirObs) {
	sc := newScratch()
	defer sc.Close()
	db := filepath.Join(sc.Dir, "db")
	if err := os.Mkdir(db, 0755); err != nil {
		panic(err)
	}
	writeInit(db, v.init)
	if err := os.WriteFile(filepath.Join(sc.Dir, "prog.sql"), []byte(v.text), 0644); err != nil {
		panic(err)
	}
	argv := append(append([]string{}, strace...), csvqBinary(), "-q", "-s", "../prog.sql")
	res := runCmdDevNull(db, argv, 20*time.Second)
	return res, observeDir(db, v.init)
}

func coqTempObs(w *txnShard, m map[int]obsTab) string {
	ks := make([]int, 0, len(m))
	for k := range m {
		ks = append(ks, k)
	}
	sort.Ints(ks)
	items := make([]string, len(ks))
	for i, k := range ks {
		items[i] = fmt.Sprintf("(%s, %s)", coqN(k), w.tabRef(m[k]))
	}
	return coqList(items)
}

func coqDirFiles(w *txnShard, o dirObs) string {
	ks := make([]int, 0, len(o.Files))
	for k := range o.Files {
		ks = append(ks, k)
	}
	sort.Ints(ks)
	items := make([]string, len(ks))
	for i, k := range ks {
		items[i] = fmt.Sprintf("(%s, %s)", coqN(k), w.tabRef(o.Files[k]))
	}
	return coqList(items)
}

func c01Init(rnd *rand.Rand) map[int]initTab {
	init := map[int]initTab{}
	n := 1 + rnd.Intn(3)
	for k := 0; k < n; k++ {
		t := initTab{Header: []string{"c1", "c2", "c3"}}
		rows := rnd.Intn(5)
		for i := 1; i <= rows; i++ {
			t.Rows = append(t.Rows, strCells(fmt.Sprint(i), fmt.Sprint(10*i+k), fmt.Sprintf("r%d", i)))
		}
		if rows > 1 && rnd.Intn(3) == 0 {
			t.Rows[rnd.Intn(rows)][2] = nil
		}
		init[k] = t
	}
	return init
}

func parallel(n int, jobs []func()) {
	var wg sync.WaitGroup
	ch := make(chan func())
	for i := 0; i < n; i++ {
		wg.Add(1)
		go func() {
			defer wg.Done()
			for j := range ch {
				j()
			}
		}()
	}
	for _, j := range jobs {
		ch <- j
	}
	close(ch)
	wg.Wait()
}

func runC01(seed int64, tier string, out string) {
	rnd := rand.New(rand.NewSource(seed))
	meta := newMeta("C01", seed)
	meta.Rule = "procedures generated from a grammar: 4-12 top-level items out of INSERT VALUES / UPDATE (one row, all rows, no row) / DELETE / REPLACE (one row) / INSERT SELECT / ALTER TABLE ADD-DROP-RENAME / CREATE TABLE [AS SELECT] / DECLARE VIEW / SELECT [FOR UPDATE] / COMMIT / ROLLBACK on 1-3 initial CSV files (0-4 rows), up to 2 created files and 2 temporary tables, with IF (static condition) and WHILE (0-3 iterations) nested up to depth 2; every procedure is run as generated and with an ending (SELECT 1/0, unknown table, EXIT, EXIT 3, TRIGGER ERROR [code], a failing UPDATE / INSERT, CREATE TABLE of an existing file) inserted at its statement positions (inside loops guarded by the iteration); each variant is run statement by statement through the library AND as a whole by the csvq binary; plus SIGINT injected with strace at the N-th openat / write / flock / unlinkat / renameat, and a context cancelled right before the automatic COMMIT. Distinct = distinct (procedure text) variants whose run executed at least one data-changing statement."
	w := &txnShard{dir: out, prop: "C01", max: 1 << 30, meta: meta, caseType: "c01case", checkFn: "check_c01",
		extra:  map[string][2]string{"sigcases": {"c01sig", "check_c01sig"}},
		header: fmt.Sprintf(txnShardHeader, "Csvq.Harness.H01")}
	nProg, slotsPer, nSigProg, nCancel := 60, 7, 10, 12
	if tier == "thorough" {
		nProg, slotsPer, nSigProg, nCancel = 300, 1 << 30, 60, 150
	}
	sigPoints := []struct {
		sc string
		n  []int
	}{{"openat", []int{6, 8, 11, 15, 20}}, {"write", []int{1, 2, 4}}, {"flock", []int{2, 5, 9, 14}}, {"unlinkat", []int{1, 2, 3, 5}}, {"renameat", []int{1, 2, 3}}}
	if tier == "thorough" {
		for i := range sigPoints {
			var ns []int
			for n := 1; n <= 40; n++ {
				ns = append(ns, n)
			}
			sigPoints[i].n = ns
		}
	}
	id := 0
	distinct := map[string]bool{}
	keys, tkeys := coqKeys(seqInts(c01Files)), coqKeys(seqInts(c01Temps))
	for p := 0; p < nProg; p++ {
		init := c01Init(rnd)
		g := &c01Gen{rnd: rnd, temps: map[int]bool{}, nfiles: c01Files, ntemps: c01Temps,
			cur: c01Track{files: map[int]bool{}, extras: map[string][]string{}}}
		for k := range init {
			g.cur.files[k] = true
		}
		g.committed = g.cur.clone()
		var base []*pnode
		if rnd.Intn(2) == 0 {
			// half of the procedures start with a temporary table
			g.temps[0] = true
			e := effect{kind: "declare", file: -1, temp: 0}
			if rnd.Intn(2) == 0 {
				k0 := 0
				for k := range init {
					k0 = k
					break
				}
				_ = k0
				e.reads = []int{0}
				base = append(base, stmtNode(fmt.Sprintf("DECLARE %s VIEW (c1, c2, c3) AS SELECT c1, c2, c3 FROM %s", tempName(0), fileSQL(0)), e))
			} else {
				base = append(base, stmtNode(fmt.Sprintf("DECLARE %s VIEW (c1, c2, c3)", tempName(0)), e))
			}
		}
		base = append(base, g.block(4+rnd.Intn(9), 0, false)...)
		initKeys := make([]int, 0, len(init))
		for k := range init {
			initKeys = append(initKeys, k)
		}
		sort.Ints(initKeys)

		variants := []*c01Variant{{tree: base, init: init, slot: -1}}
		nSlots := countSlots(base)
		slots := rnd.Perm(nSlots)
		if len(slots) > slotsPer {
			slots = slots[:slotsPer]
		}
		sort.Ints(slots)
		for i, sl := range slots {
			kinds := []string{c01Endings[(p+i)%len(c01Endings)]}
			if tier == "thorough" {
				kinds = append(kinds, c01Endings[(p+i+3)%len(c01Endings)], c01Endings[(p+i+6)%len(c01Endings)])
			}
			for _, kind := range kinds {
				tree := cloneNodes(base)
				target := initKeys[rnd.Intn(len(initKeys))]
				tree = insertAtSlot(tree, sl, func(loop *pnode) *pnode {
					n := endingNode(kind, target)
					if loop != nil && loop.iters > 0 {
						return &pnode{kind: "if", cond: pcond{kind: "ctr", ctr: loop.ctr, val: rnd.Intn(loop.iters)}, body: []*pnode{n}}
					}
					return n
				})
				variants = append(variants, &c01Variant{tree: tree, init: init, ending: kind, slot: sl})
			}
		}
		var jobs []func()
		var okVariants []*c01Variant
		for _, v := range variants {
			var b strings.Builder
			renderNodes(v.tree, "", &b)
			v.text = b.String()
			if f := c01LibRun(w, v, false); f != "" {
				meta.Direct = append(meta.Direct, DirectViolation{Key: "unexpected-failure", What: "the implementation failed where the harness needs it to work (reading a table back, ...): " + f,
					Case: map[string]interface{}{"procedure": v.text}})
				continue
			}
			okVariants = append(okVariants, v)
			v := v
			jobs = append(jobs, func() { v.bin, v.binDir = c01BinRun(v, nil) })
		}
		baseOK := len(okVariants) > 0 && okVariants[0] == variants[0]
		variants = okVariants
		// ---- SIGINT under strace on the procedure as generated ----------------------------------
		type sigRun struct {
			sc     string
			n      int
			res    RunResult
			dir    dirObs
		}
		var sigs []*sigRun
		if p < nSigProg && baseOK {
			for _, sp := range sigPoints {
				for _, n := range sp.n {
					sr := &sigRun{sc: sp.sc, n: n}
					sigs = append(sigs, sr)
					jobs = append(jobs, func() {
						sr.res, sr.dir = c01BinRun(variants[0], []string{"strace", "-f", "-o", "/dev/null", "-e", "trace=" + sr.sc, "-e", fmt.Sprintf("inject=%s:signal=SIGINT:when=%d", sr.sc, sr.n)})
					})
				}
			}
		}
		parallel(16, jobs)

		for _, v := range variants {
			modeCoq := v.mode
			c := map[string]interface{}{"procedure": v.text, "ending_inserted": v.ending, "ended": v.mode, "library_run": v.show,
				"library_directory_after": v.libDir.show(), "binary_directory_after": v.binDir.show(), "binary_exit_code": v.bin.Code, "binary_stderr": tail(v.bin.Stderr, 300)}
			if len(v.notes) > 0 {
				c["harness_notes"] = v.notes
			}
			if v.bin.TimedOut {
				c["binary_timed_out"] = true
			}
			meta.Cases[fmt.Sprint(id)] = c
			extra := len(v.binDir.Extra) + len(v.binDir.Bad)
			w.add(fmt.Sprintf("mkC01 %s %s %s %s\n  %s\n  %s %s %s %s\n  %s %s %s %s", coqN(id), keys, tkeys, coqD0Ref(w, init), v.items, modeCoq,
				coqDirFiles(w, v.libDir), v.libDir.coqChanged(init), coqTempObs(w, v.libTemp),
				coqDirFiles(w, v.binDir), v.binDir.coqChanged(init), coqN(extra), coqBool(v.bin.Code == 0 && !v.bin.TimedOut)))
			meta.Evaluations++
			meta.Distribution["end:"+v.mode]++
			if v.ending != "" {
				meta.Distribution["inserted:"+v.ending]++
			} else {
				meta.Distribution["inserted:none"]++
			}
			meta.Distribution[fmt.Sprintf("executed-statements:%d-%d", v.trace/5*5, v.trace/5*5+4)]++
			if strings.Contains(v.items, "SChange") || strings.Contains(v.items, "SCreate") {
				distinct[v.text] = true
			}
			for _, kw := range []string{"SChange ", "SChangeTemp", "SCreate", "SDeclareTemp", "SCommit", "SRollback", "SFail", "IReadFU", "IRead "} {
				meta.Distribution["op:"+strings.TrimSpace(kw)] += strings.Count(v.items, kw)
			}
			if len(meta.Samples) < 3 && v.ending != "" && v.mode != "Normal" && strings.Contains(v.items, "SCommit") && id%7 == 3 {
				meta.Samples = append(meta.Samples, map[string]interface{}{"procedure": v.text, "ended": v.mode, "binary_exit_code": v.bin.Code, "binary_directory_after": v.binDir.show()})
			}
			id++
		}
		for _, sr := range sigs {
			v := variants[0]
			extra := len(sr.dir.Extra) + len(sr.dir.Bad)
			meta.Cases[fmt.Sprint(id)] = map[string]interface{}{"procedure": v.text, "sigint_at": fmt.Sprintf("%d-th %s (strace -f -e inject=%s:signal=SIGINT:when=%d)", sr.n, sr.sc, sr.sc, sr.n),
				"uninterrupted_end": v.mode, "binary_exit_code": sr.res.Code, "binary_stderr": tail(sr.res.Stderr, 200), "binary_directory_after": sr.dir.show()}
			w.addTo("sigcases", fmt.Sprintf("mkSig %s %s %s (ops_of\n  %s)\n  %s %s %s %s %s", coqN(id), keys, coqD0Ref(w, init), v.items, v.mode,
				coqDirFiles(w, sr.dir), sr.dir.coqChanged(init), coqN(extra), coqBool(sr.res.Code == 0 && !sr.res.TimedOut)))
			meta.Evaluations++
			meta.Distribution["sigint:"+sr.sc]++
			switch {
			case sr.res.Code == 0:
				meta.Distribution["sigint-outcome:exit-0"]++
			case strings.Contains(sr.res.Stderr, "signal received"):
				meta.Distribution["sigint-outcome:signal-reported"]++
			default:
				meta.Distribution["sigint-outcome:other-nonzero"]++
			}
			id++
		}
		// ---- context cancelled between the last statement and the automatic COMMIT ---------------
		if baseOK && variants[0].mode == "Normal" && nCancel > 0 && strings.Contains(variants[0].items, "SChange") {
			nCancel--
			v := &c01Variant{tree: base, init: init, text: variants[0].text}
			if f := c01LibRun(w, v, true); f != "" {
				meta.Direct = append(meta.Direct, DirectViolation{Key: "unexpected-failure", What: "library run with cancellation before the automatic COMMIT failed: " + f, Case: map[string]interface{}{"procedure": v.text}})
				continue
			}
			extra := len(v.libDir.Extra) + len(v.libDir.Bad)
			meta.Cases[fmt.Sprint(id)] = map[string]interface{}{"procedure": v.text, "cancelled": "context cancelled after the last statement, before Processor.AutoCommit (library run)",
				"library_directory_after": v.libDir.show(), "harness_notes": v.notes}
			w.addTo("sigcases", fmt.Sprintf("mkSig %s %s %s (ops_of\n  %s)\n  %s %s %s %s false", coqN(id), keys, coqD0Ref(w, init), v.items, v.mode,
				coqDirFiles(w, v.libDir), v.libDir.coqChanged(init), coqN(extra)))
			meta.Evaluations++
			meta.Distribution["cancel-before-auto-commit"]++
			id++
		}
		if w.n >= 100 {
			w.flush()
		}
	}
	w.flush()
	meta.Distinct = len(distinct)
	meta.write(out)
}

func tail(s string, n int) string {
	if len(s) > n {
		return s[len(s)-n:]
	}
	return s
}
