package main

// C02: what is written to a table file or result stream reads back as the same table
// (and the reader half of C19: loaded tables are rectangular).
//
// Direct tie: query.EncodeView (csvq decides Quote, go-text csv/ltsv writers spell the bytes) and the
// loaders behind the CSV(...) / LTSV(...) table objects (go-text readers + loadViewFromCSVFile /
// loadViewFromLTSVFile) are run on generated tables / texts; bytes and loaded tables are compared
// with Model.Csv / Model.Ltsv inside Coq.  End to end: see c02_e2e.go.

import (
	"bytes"
	"context"
	"fmt"
	"math/rand"
	"os"
	"path/filepath"
	"strconv"
	"strings"
	"unicode"

	"github.com/mithrandie/csvq/lib/option"
	"github.com/mithrandie/csvq/lib/parser"
	"github.com/mithrandie/csvq/lib/query"
	"github.com/mithrandie/csvq/lib/value"
	"github.com/mithrandie/go-text"
)

func init() { runners["C02"] = runC02 }

// stable keys of the known findings (known_findings.json)
const (
	kCrlfUnquoted   = "csv-crlf-unquoted"        // F-C02-1
	kLtsvColon      = "ltsv-colon-dropped"       // F-C02-2
	kSingleEmpty    = "single-column-empty-row"  // F-C02-3
	kFixedCrlf      = "fixed-crlf-cell"          // F-C02-4
	kCrFinal        = "cr-final-line-break"      // new: CR directly before EOF -> bufio UnreadRune error
	kLtsvSingle     = "ltsv-single-field-dropped" // new: LTSV lines with one field are skipped
	c02SpecIDOffset = 1000000
)

// ---- cells ------------------------------------------------------------------------------------
type c02Cell struct {
	kind int // 0 NULL, 1 text (String), 2 plain (Integer/Float/Boolean rendering)
	text string
	val  value.Primary
}

func c02Null() c02Cell          { return c02Cell{0, "", value.NewNull()} }
func c02Text(s string) c02Cell  { return c02Cell{1, s, value.NewString(s)} }
func c02Int(i int64) c02Cell    { return c02Cell{2, strconv.FormatInt(i, 10), value.NewInteger(i)} }
func c02Bool(b bool) c02Cell    { return c02Cell{2, strconv.FormatBool(b), value.NewBoolean(b)} }
func c02Float(f float64) c02Cell {
	return c02Cell{2, strconv.FormatFloat(f, 'f', -1, 64), value.NewFloat(f)}
}

func (c c02Cell) coq() string {
	switch c.kind {
	case 0:
		return "CNull"
	case 1:
		return "(CText " + coqStr(c.text) + ")"
	}
	return "(CPlain " + coqStr(c.text) + ")"
}
func (c c02Cell) show() string {
	switch c.kind {
	case 0:
		return "NULL"
	case 1:
		return fmt.Sprintf("%q", c.text)
	}
	return c.text
}
func (c c02Cell) opt() *string {
	if c.kind == 0 {
		return nil
	}
	s := c.text
	return &s
}

func coqStrList(l []string) string {
	items := make([]string, len(l))
	for i, s := range l {
		items[i] = coqStr(s)
	}
	return coqList(items)
}
func coqCells(rows [][]c02Cell) string {
	rs := make([]string, len(rows))
	for i, r := range rows {
		cs := make([]string, len(r))
		for j, c := range r {
			cs[j] = c.coq()
		}
		rs[i] = coqList(cs)
	}
	return "[" + strings.Join(rs, ";\n    ") + "]"
}
func showCells(rows [][]c02Cell) [][]string {
	out := make([][]string, len(rows))
	for i, r := range rows {
		out[i] = make([]string, len(r))
		for j, c := range r {
			out[i][j] = c.show()
		}
	}
	return out
}
func coqOptStr(s *string) string {
	if s == nil {
		return "None"
	}
	return "(Some " + coqStr(*s) + ")"
}
func coqOptRows(rows [][]*string) string {
	rs := make([]string, len(rows))
	for i, r := range rows {
		cs := make([]string, len(r))
		for j, c := range r {
			cs[j] = coqOptStr(c)
		}
		rs[i] = coqList(cs)
	}
	return "[" + strings.Join(rs, ";\n    ") + "]"
}
func coqTable(hdr []string, rows [][]*string) string {
	return "(TB " + coqStrList(hdr) + " " + coqOptRows(rows) + ")"
}

var c02LBs = []text.LineBreak{text.LF, text.CR, text.CRLF}

func coqLB(lb text.LineBreak) string {
	switch lb {
	case text.LF:
		return "LbLF"
	case text.CR:
		return "LbCR"
	case text.CRLF:
		return "LbCRLF"
	}
	panic("harness: line break " + strconv.Quote(string(lb)))
}
func coqOptLB(lb text.LineBreak) string {
	if lb == "" {
		return "None"
	}
	return "(Some " + coqLB(lb) + ")"
}
func coqRune(r rune) string { return strconv.Itoa(int(r)) }

func c02Letters(ss ...string) string {
	seen := map[rune]bool{}
	var items []string
	for _, s := range ss {
		for _, r := range s {
			if unicode.IsLetter(r) && !seen[r] {
				seen[r] = true
				items = append(items, coqRune(r))
			}
		}
	}
	return coqList(items)
}

// ---- the implementation: writer ---------------------------------------------------------------------
func c02View(hdr []string, rows [][]c02Cell) *query.View {
	v := query.NewView()
	v.Header = query.NewHeader("t", append([]string{}, hdr...))
	v.RecordSet = make(query.RecordSet, len(rows))
	for i, r := range rows {
		rec := make(query.Record, len(r))
		for j, c := range r {
			rec[j] = query.NewCell(c.val)
		}
		v.RecordSet[i] = rec
	}
	return v
}

// c02Encode runs query.EncodeView; ok=false when nothing was written (DataEmpty or a refusal)
func c02Encode(tx *query.Transaction, format option.Format, delim rune, lb text.LineBreak, enclose, noHeader bool, hdr []string, rows [][]c02Cell) (out []byte, ok bool, errText string) {
	opts := option.NewExportOptions()
	opts.Format = format
	opts.Delimiter = delim
	opts.LineBreak = lb
	opts.EncloseAll = enclose
	opts.WithoutHeader = noHeader
	opts.Encoding = text.UTF8
	var buf bytes.Buffer
	_, err := query.EncodeView(context.Background(), &buf, c02View(hdr, rows), opts, tx.Palette)
	if err != nil {
		return buf.Bytes(), false, err.Error()
	}
	return buf.Bytes(), true, ""
}

// ---- the implementation: loaders -----------------------------------------------------------------------
type c02Loaded struct {
	err     error
	hdr     []string
	rows    [][]*string
	lb      text.LineBreak // "" = none detected (the session default was set to "")
	enclose bool
	exp     *option.ExportOptions
}

func (l c02Loaded) coqObs() string {
	if l.err != nil {
		return "OErr"
	}
	return fmt.Sprintf("(OTab %s %s %s)", coqTable(l.hdr, l.rows), coqOptLB(l.lb), coqBool(l.enclose))
}
func (l c02Loaded) show() interface{} {
	if l.err != nil {
		return "error: " + l.err.Error()
	}
	rows := make([][]string, len(l.rows))
	for i, r := range l.rows {
		rows[i] = make([]string, len(r))
		for j, c := range r {
			if c == nil {
				rows[i][j] = "NULL"
			} else {
				rows[i][j] = fmt.Sprintf("%q", *c)
			}
		}
	}
	return map[string]interface{}{"header": l.hdr, "rows": rows, "line_break": fmt.Sprintf("%q", string(l.lb)), "enclosed_all": l.enclose}
}

type c02Loader struct {
	dir string
	n   int
}

// load writes data to a fresh file in the scratch directory and loads it through the table object
// CSV(delimiter, file, 'UTF8', no_header, without_null) or LTSV(file, 'UTF8', without_null) with a new
// transaction whose default line break is sessLB and default enclose-all is sessEnclose.
func (ld *c02Loader) load(data []byte, ltsv bool, delim rune, noHeader, withoutNull, allowUneven bool, sessLB text.LineBreak, sessEnclose bool) c02Loaded {
	ld.n++
	name := fmt.Sprintf("t%d.txt", ld.n)
	path := filepath.Join(ld.dir, name)
	if err := os.WriteFile(path, data, 0644); err != nil {
		panic(err)
	}
	defer os.Remove(path)
	tx := newTx(ld.dir)
	defer func() { _ = tx.ReleaseResources() }()
	tx.Flags.ImportOptions.AllowUnevenFields = allowUneven
	tx.Flags.ExportOptions.LineBreak = sessLB
	tx.Flags.ExportOptions.EncloseAll = sessEnclose
	var sql string
	if ltsv {
		sql = fmt.Sprintf("SELECT 1 FROM LTSV(`%s`, 'UTF8', %v)", name, withoutNull)
	} else {
		sql = fmt.Sprintf("SELECT 1 FROM CSV(@d, `%s`, 'UTF8', %v, %v)", name, noHeader, withoutNull)
	}
	stmts, _, err := parser.Parse(sql, "", false, false)
	if err != nil {
		panic("harness: " + sql + ": " + err.Error())
	}
	tables := stmts[0].(parser.SelectQuery).SelectEntity.(parser.SelectEntity).FromClause.(parser.FromClause).Tables
	scope := query.NewReferenceScope(tx).CreateNode()
	_ = scope.DeclareVariableDirectly(parser.Variable{Name: "d"}, value.NewString(string(delim)))
	view, err := query.LoadView(context.Background(), scope, tables, false, false)
	if err != nil {
		return c02Loaded{err: err}
	}
	res := c02Loaded{lb: view.FileInfo.LineBreak, enclose: view.FileInfo.EncloseAll}
	for _, h := range view.Header {
		res.hdr = append(res.hdr, h.Column)
	}
	for _, rec := range view.RecordSet {
		row := make([]*string, len(rec))
		for j, cell := range rec {
			switch v := cell[0].(type) {
			case *value.String:
				s := v.Raw()
				row[j] = &s
			case *value.Null:
			default:
				panic(fmt.Sprintf("harness: loader produced a %T", v))
			}
		}
		res.rows = append(res.rows, row)
	}
	eo := view.FileInfo.ExportOptions(tx)
	res.exp = &eo
	return res
}

// ---- generators ------------------------------------------------------------------------------------------
var c02Words = []string{"a", "b", "abc", "x1", "42", "-7", "3.5", "true", "été", "日本", "𝄞", "Z", "0", "NULL", "null", "é", " ", "_", "q", "1e3"}

// adversarial pieces: delimiter(s), quote, CR, LF, CRLF, TAB, colon, blanks, non-ASCII blanks
func c02Piece(r *rand.Rand, delim rune, breaks bool) string {
	k := r.Intn(100)
	switch {
	case k < 40:
		return c02Words[r.Intn(len(c02Words))]
	case k < 50:
		return string(delim)
	case k < 60:
		return "\""
	case k < 64:
		return ","
	case k < 68:
		return "\t"
	case k < 74:
		return ":"
	case k < 82:
		return " "
	case k < 85:
		return " "
	case k < 87:
		return "　"
	case k < 89:
		return "''"
	case k < 91:
		return "\\"
	}
	if !breaks {
		return c02Words[r.Intn(len(c02Words))]
	}
	return []string{"\n", "\r", "\r\n", "\n\n", "\r\r"}[r.Intn(5)]
}

func c02TextValue(r *rand.Rand, delim rune, breakRate int) string {
	switch r.Intn(12) {
	case 0:
		return ""
	case 1, 2, 3:
		return c02Words[r.Intn(len(c02Words))]
	}
	n := 1 + r.Intn(4)
	var b strings.Builder
	for i := 0; i < n; i++ {
		b.WriteString(c02Piece(r, delim, r.Intn(100) < breakRate))
	}
	return b.String()
}

func c02GenCell(r *rand.Rand, delim rune, breakRate int) c02Cell {
	switch k := r.Intn(20); {
	case k < 3:
		return c02Null()
	case k == 3:
		return c02Int(r.Int63n(2001) - 1000)
	case k == 4:
		return c02Bool(r.Intn(2) == 0)
	case k == 5:
		return c02Float(float64(r.Int63n(20001)-10000) / 8)
	}
	return c02Text(c02TextValue(r, delim, breakRate))
}

func c02Size(r *rand.Rand) (rows, cols int) {
	cols = 1 + r.Intn(6)
	if r.Intn(4) == 0 {
		cols = 1 + r.Intn(2)
	}
	switch k := r.Intn(20); {
	case k == 0:
		rows = 0
	case k < 12:
		rows = 1 + r.Intn(4)
	case k < 18:
		rows = 5 + r.Intn(8)
	default:
		rows = 13 + r.Intn(28)
	}
	return
}

var c02Delims = []rune{',', ',', ',', ',', '\t', '\t', ';', '|', ' ', ':'}

func hasBreak(s string) bool { return strings.ContainsAny(s, "\r\n") }

// would go-text/csvq write this text between quotes?  (a syntactic reading of encodeCSV + Writer.Write,
// used only to route a case to the main or to the tagged stream)
func c02WrittenQuoted(s string, isText, enclose bool, delim rune, repaired bool) bool {
	return (enclose && isText) || strings.ContainsRune(s, delim) || strings.ContainsRune(s, '"') || (repaired && hasBreak(s))
}

type c02Table struct {
	hdr  []string
	rows [][]c02Cell
}

func c02GenTable(r *rand.Rand, delim rune, breakRate int) c02Table {
	nr, nc := c02Size(r)
	t := c02Table{}
	for j := 0; j < nc; j++ {
		switch r.Intn(8) {
		case 0:
			t.hdr = append(t.hdr, c02TextValue(r, delim, breakRate))
		default:
			t.hdr = append(t.hdr, fmt.Sprintf("%s%d", []string{"c", "col", "名", "h_"}[r.Intn(4)], j+1))
		}
	}
	for i := 0; i < nr; i++ {
		row := make([]c02Cell, nc)
		for j := range row {
			row[j] = c02GenCell(r, delim, breakRate)
		}
		t.rows = append(t.rows, row)
	}
	return t
}

// defects of a CSV case = the known findings it falls under (empty = the property must hold)
func c02CsvDefects(t c02Table, delim rune, lb text.LineBreak, tail text.LineBreak, enclose, noHeader, repaired bool) []string {
	var tags []string
	crlf, empty := false, false
	if !noHeader {
		for _, h := range t.hdr {
			if hasBreak(h) && !c02WrittenQuoted(h, true, enclose, delim, repaired) {
				crlf = true
			}
		}
		if len(t.hdr) == 1 && t.hdr[0] == "" {
			empty = true
		}
	}
	for _, row := range t.rows {
		for _, c := range row {
			if hasBreak(c.text) && !c02WrittenQuoted(c.text, c.kind == 1, enclose, delim, repaired) {
				crlf = true
			}
		}
		if len(row) == 1 && row[0].text == "" {
			empty = true
		}
	}
	if crlf {
		tags = append(tags, kCrlfUnquoted)
	}
	if empty {
		tags = append(tags, kSingleEmpty)
	}
	if tail == text.CR {
		tags = append(tags, kCrFinal)
	}
	return tags
}

// ---- the run -------------------------------------------------------------------------------------------------
type c02Run struct {
	r        *rand.Rand
	meta     *Meta
	w        *shardWriter
	ld       *c02Loader
	id       int
	repaired bool
	sig      map[string]bool
	tx       *query.Transaction
}

func (c *c02Run) nextID() int { c.id++; return c.id }

func (c *c02Run) record(id int, kind string, tags []string, body map[string]interface{}) (sid int) {
	body["kind"] = kind
	c.meta.Cases[fmt.Sprint(id)] = body
	sid = id
	if len(tags) > 0 {
		// spec violations of a tagged case are reported under a second id that carries the tags;
		// model/implementation mismatches stay under the untagged id and are never masked
		sid = id + c02SpecIDOffset
		tagged := map[string]interface{}{"tags": tags, "same_as": id}
		for k, v := range body {
			tagged[k] = v
		}
		c.meta.Cases[fmt.Sprint(sid)] = tagged
		for _, t := range tags {
			c.meta.Distribution["tagged:"+t]++
		}
	}
	c.meta.Evaluations++
	return sid
}

func coqWopts(delim rune, lb text.LineBreak, enclose, noHeader, repaired bool) string {
	return fmt.Sprintf("(WO %s %s %s %s %s)", coqRune(delim), coqLB(lb), coqBool(enclose), coqBool(noHeader), coqBool(repaired))
}

// one CSV/TSV table through EncodeView and back through the loader
func (c *c02Run) csvCase(t c02Table, delim rune, lb, tail, sessLB text.LineBreak, enclose, noHeader, sessEnclose bool, stream string) {
	format := option.CSV
	if delim == '\t' {
		format = option.TSV
	}
	out, ok, errText := c02Encode(c.tx, format, delim, lb, enclose, noHeader, t.hdr, t.rows)
	tags := c02CsvDefects(t, delim, lb, tail, enclose, noHeader, c.repaired)
	id := c.nextID()
	body := map[string]interface{}{"stream": stream, "delimiter": string(delim), "line_break": lb.String(), "appended_line_break": tail.String(),
		"enclose_all": enclose, "without_header": noHeader, "header": t.hdr, "rows": showCells(t.rows)}
	wbytes, wread, wexp := "None", "OErr", "None"
	var letters string = "[]"
	if ok {
		data := append(append([]byte{}, out...), []byte(tail.Value())...)
		body["written"] = string(data)
		wbytes = "(Some " + coqStr(string(data)) + ")"
		letters = c02Letters(string(data))
		// first load: session line break "" makes "nothing detected" observable
		l1 := c.ld.load(data, false, delim, noHeader, false, false, text.LineBreak(""), sessEnclose)
		wread = l1.coqObs()
		body["read_back"] = l1.show()
		// second load with a real session default: the dialect the file would be written back with
		l2 := c.ld.load(data, false, delim, noHeader, false, false, sessLB, sessEnclose)
		if l2.err == nil {
			wexp = fmt.Sprintf("(Some (%s, %s, %s, %s))", coqRune(l2.exp.Delimiter), coqLB(l2.exp.LineBreak), coqBool(l2.exp.WithoutHeader), coqBool(l2.exp.EncloseAll))
			body["export_options"] = fmt.Sprintf("delimiter=%q line_break=%s without_header=%v enclose_all=%v", string(l2.exp.Delimiter), l2.exp.LineBreak, l2.exp.WithoutHeader, l2.exp.EncloseAll)
		}
		if l1.err == nil {
			c.meta.Distribution["csv-write:read-ok"]++
		} else {
			c.meta.Distribution["csv-write:read-error"]++
		}
	} else {
		body["written"] = "nothing: " + errText
		c.meta.Distribution["csv-write:nothing-written"]++
	}
	sid := c.record(id, "csv-write-read", tags, body)
	c.w.add("wcases:wcase", fmt.Sprintf("mkW %d %d %s %s %s %s\n   %s\n   %s\n   %s\n   %s\n   %s\n   %s",
		id, sid, coqWopts(delim, lb, enclose, noHeader, c.repaired), coqOptLB(tail), coqLB(sessLB), coqBool(sessEnclose),
		coqStrList(t.hdr), coqCells(t.rows), letters, wbytes, wread, wexp))
	c.meta.Distribution[fmt.Sprintf("csv-write:%dx%d", bucket(len(t.rows)), len(t.hdr))]++
	c.meta.Distribution["csv-write:lb="+lb.String()+" tail="+tail.String()]++
	if len(tags) == 0 && len(t.rows) > 0 {
		c.sig[fmt.Sprintf("w|%q|%v|%v|%s", out, enclose, noHeader, lb)] = true
	}
	if len(c.meta.Samples) < 2 && len(t.rows) >= 2 && len(t.rows) <= 4 && len(tags) == 0 {
		c.meta.Samples = append(c.meta.Samples, body)
	}
}

func bucket(n int) int {
	switch {
	case n == 0:
		return 0
	case n <= 4:
		return 4
	case n <= 12:
		return 12
	}
	return 40
}

// the CSV/TSV loader on an arbitrary text
func (c *c02Run) csvReadCase(input string, delim rune, noHeader, withoutNull, allowUneven bool, stream string) {
	l := c.ld.load([]byte(input), false, delim, noHeader, withoutNull, allowUneven, text.LineBreak(""), false)
	id := c.nextID()
	body := map[string]interface{}{"stream": stream, "delimiter": string(delim), "no_header": noHeader, "without_null": withoutNull,
		"allow_uneven_fields": allowUneven, "input": input, "loaded": l.show()}
	c.record(id, "csv-read", nil, body)
	c.w.add("rcases:rcase", fmt.Sprintf("mkR %d (RO %s %s %s %s) %s %s\n   %s", id, coqRune(delim), coqBool(noHeader), coqBool(withoutNull), coqBool(allowUneven),
		c02Letters(input), coqStr(input), l.coqObs()))
	if l.err != nil {
		c.meta.Distribution["csv-read:error"]++
	} else {
		c.meta.Distribution[fmt.Sprintf("csv-read:ok-%d-records", bucket(len(l.rows)))]++
		c.sig[fmt.Sprintf("r|%q|%v%v%v", input, noHeader, withoutNull, allowUneven)] = true
	}
	if len(c.meta.Samples) < 4 && l.err == nil && len(l.rows) >= 2 && len(c.meta.Samples) >= 2 {
		c.meta.Samples = append(c.meta.Samples, body)
	}
}

func c02RandomText(r *rand.Rand, delim rune, ltsv bool) string {
	alpha := []string{string(delim), string(delim), "\"", "\"", "\n", "\n", "\r", "\r\n", "a", "b", "1", " ", "é", "\t", ":", "x", ""}
	if ltsv {
		alpha = []string{"\t", "\t", ":", ":", ":", "\n", "\n", "\r", "\r\n", "a", "b", "k", "1", " ", "é", "\"", ","}
	}
	n := r.Intn(28)
	var b strings.Builder
	for i := 0; i < n; i++ {
		b.WriteString(alpha[r.Intn(len(alpha))])
	}
	return b.String()
}

func c02Mutate(r *rand.Rand, s string, delim rune) string {
	rs := []rune(s)
	specials := []rune{delim, '"', '\n', '\r', 'z', '\t', ':'}
	for k := 0; k <= r.Intn(3); k++ {
		if len(rs) == 0 {
			rs = append(rs, specials[r.Intn(len(specials))])
			continue
		}
		p := r.Intn(len(rs))
		switch r.Intn(3) {
		case 0:
			rs = append(rs[:p], rs[p+1:]...)
		case 1:
			rs = append(rs[:p], append([]rune{specials[r.Intn(len(specials))]}, rs[p:]...)...)
		default:
			rs[p] = specials[r.Intn(len(specials))]
		}
	}
	return string(rs)
}

// ---- LTSV ----------------------------------------------------------------------------------------------------------
func c02LtsvLabel(r *rand.Rand, j int) string {
	switch r.Intn(14) {
	case 0:
		return []string{"a b", "k:v", "é", "t\tb", "", "x\n"}[r.Intn(6)]
	}
	return fmt.Sprintf("%s%d", []string{"k", "host", "a.b-", "X_"}[r.Intn(4)], j+1)
}

func c02LtsvValueOK(s string) bool {
	for _, r := range s {
		ok := (r >= 1 && r <= 8) || r == 0xb || r == 0xc || (r >= 0xe && r <= 0xffff) || (r >= 0x10000 && r <= 0xfffff)
		if !ok {
			return false
		}
	}
	return true
}
func c02LtsvLabelOK(s string) bool {
	for _, r := range s {
		ok := r == '-' || r == '.' || (r >= '0' && r <= '9') || (r >= 'A' && r <= 'Z') || r == '_' || (r >= 'a' && r <= 'z')
		if !ok {
			return false
		}
	}
	return true
}

func (c *c02Run) ltsvCase(t c02Table, lb, tail text.LineBreak, stream string) {
	out, ok, errText := c02Encode(c.tx, option.LTSV, ',', lb, false, false, t.hdr, t.rows)
	var tags []string
	colon := false
	for _, row := range t.rows {
		for _, cell := range row {
			if strings.Contains(cell.text, ":") {
				colon = true
			}
		}
	}
	if colon {
		tags = append(tags, kLtsvColon)
	}
	if len(t.hdr) == 1 {
		tags = append(tags, kLtsvSingle)
	}
	if tail == text.CR {
		tags = append(tags, kCrFinal)
	}
	id := c.nextID()
	body := map[string]interface{}{"stream": stream, "line_break": lb.String(), "appended_line_break": tail.String(), "header": t.hdr, "rows": showCells(t.rows)}
	lwbytes, lwread := "None", "OErr"
	if ok {
		data := append(append([]byte{}, out...), []byte(tail.Value())...)
		body["written"] = string(data)
		lwbytes = "(Some " + coqStr(string(data)) + ")"
		l := c.ld.load(data, true, ',', false, false, false, text.LineBreak(""), false)
		lwread = l.coqObs()
		body["read_back"] = l.show()
		c.meta.Distribution["ltsv-write:written"]++
	} else {
		body["written"] = "nothing: " + errText
		if len(out) > 0 {
			body["partial_output"] = string(out)
		}
		c.meta.Distribution["ltsv-write:refused-or-empty"]++
	}
	sid := c.record(id, "ltsv-write-read", tags, body)
	c.w.add("lwcases:lwcase", fmt.Sprintf("mkLW %d %d %s %s %s\n   %s\n   %s\n   %s", id, sid, coqLB(lb), coqOptLB(tail), coqStrList(t.hdr), coqCells(t.rows), lwbytes, lwread))
	if len(tags) == 0 && ok {
		c.sig[fmt.Sprintf("lw|%q", out)] = true
	}
	if len(c.meta.Samples) < 5 && len(c.meta.Samples) >= 4 && ok && len(tags) == 0 {
		c.meta.Samples = append(c.meta.Samples, body)
	}
}

func (c *c02Run) ltsvReadCase(input string, withoutNull bool, stream string) {
	l := c.ld.load([]byte(input), true, ',', false, withoutNull, false, text.LineBreak(""), false)
	id := c.nextID()
	body := map[string]interface{}{"stream": stream, "without_null": withoutNull, "input": input, "loaded": l.show()}
	c.record(id, "ltsv-read", nil, body)
	c.w.add("lrcases:lrcase", fmt.Sprintf("mkLR %d %s %s\n   %s", id, coqBool(withoutNull), coqStr(input), l.coqObs()))
	if l.err != nil {
		c.meta.Distribution["ltsv-read:error"]++
	} else {
		c.meta.Distribution[fmt.Sprintf("ltsv-read:ok-%d-records", bucket(len(l.rows)))]++
		c.sig[fmt.Sprintf("lr|%q|%v", input, withoutNull)] = true
	}
}

func c02GenLtsvTable(r *rand.Rand, breakRate int, colonOK bool) c02Table {
	nr, nc := c02Size(r)
	if nr == 0 && r.Intn(3) > 0 {
		nr = 1
	}
	t := c02Table{}
	seen := map[string]bool{}
	for j := 0; j < nc; j++ {
		// labels are pairwise different (two columns with one label cannot be told apart in LTSV: outside the fragment)
		l := c02LtsvLabel(r, j)
		if seen[l] {
			l = fmt.Sprintf("d%d", j+1)
		}
		seen[l] = true
		t.hdr = append(t.hdr, l)
	}
	if nr > 12 {
		breakRate = 0
	}
	for i := 0; i < nr; i++ {
		row := make([]c02Cell, nc)
		for j := range row {
			cell := c02GenCell(r, ';', breakRate)
			if !colonOK && strings.Contains(cell.text, ":") {
				cell = c02Text(strings.ReplaceAll(cell.text, ":", ";"))
			}
			if breakRate == 0 && strings.Contains(cell.text, "\t") {
				cell = c02Text(strings.ReplaceAll(cell.text, "\t", " "))
			}
			row[j] = cell
		}
		t.rows = append(t.rows, row)
	}
	return t
}

// does this tree quote cells containing CR/LF (the repaired variant of encodeCSV)?
func c02DetectRepaired(tx *query.Transaction) bool {
	out, ok, _ := c02Encode(tx, option.CSV, ',', text.LF, false, false, []string{"h"}, [][]c02Cell{{c02Text("a\nb")}})
	return ok && strings.Contains(string(out), "\"a\nb\"")
}

func runC02(seed int64, tier string, out string) {
	r := rand.New(rand.NewSource(seed))
	meta := newMeta("C02", seed)
	sc := newScratch()
	defer sc.Close()
	c := &c02Run{r: r, meta: meta, ld: &c02Loader{dir: sc.Dir}, sig: map[string]bool{}, tx: newTx(sc.Dir)}
	c.repaired = c02DetectRepaired(c.tx)
	meta.Notes = append(meta.Notes, fmt.Sprintf("writer variant detected on this tree: repaired=%v (encodeCSV quotes cells containing CR/LF)", c.repaired))
	meta.Rule = "tables of 0-40 rows x 1-6 columns whose cells are NULL, integers, floats, booleans or texts over an adversarial alphabet (the delimiter, double quote, CR, LF, CRLF, TAB, colon, comma, leading/trailing blanks, NBSP, ideographic space, backslash, non-ASCII incl. a supplementary-plane character, empty) with delimiters , TAB ; | space colon, line breaks LF/CR/CRLF, enclose-all, without-header and with/without the appended line break: written by query.EncodeView and loaded back through the CSV(...)/LTSV(...) table objects; arbitrary short texts and mutated written files through the loaders with no-header/without-null/allow-uneven-fields; end to end with the csvq binary for CSV, TSV, LTSV, FIXED (explicit delimiter positions on both sides), JSON, JSONL x LF/CR/CRLF x enclose-all x without-header x strip-ending-line-break (write with --out / stdout / INSERT+COMMIT by a second process, re-import with a fresh process and the same settings; text cells and NULL, header h1..hn; UTF-8 plus SJIS/UTF-16/UTF-8-with-BOM with encodable text); for CSV/TSV/LTSV in UTF-8 the bytes of the final file are also compared with the models' bytes; refusals: an LTSV value with TAB, a fixed-length value with LF/CR or too long for its field, in the first and in the 400th record, to --out and to stdout, and INSERTed + COMMITted into an existing file: exit code not 0, a data encode error, no byte written, the committed file unchanged; generated fixed-length tables with a CR/LF cell are judged the same way. The committing process of the INSERT+COMMIT path runs under another --line-break than the file's whenever the file shows its line break. Encoding preservation: for each of the 18 paths of the loaders' encoding sniffing (AUTO / UTF8 / generic UTF16 / explicit UTF8M, UTF16LE, UTF16BE, UTF16LEM, UTF16BEM, SJIS against files in UTF-8, UTF-16 LE/BE and Shift-JIS with and without byte order mark as far as csvq supports the combination) x CSV/TSV/LTSV/FIXED a file produced by the harness's own encoders is updated (UPDATE or INSERT + COMMIT) by a second process and the rewritten BYTES are checked with the harness's own strict decoders: same byte order mark, same byte order/encoding, decoded text = the updated table; SHOW FIELDS must report the encoding the sniffing rules resolve to. Only UTF-8 in the direct tie; U+FEFF and NUL are outside the fragment. Cases that fall under a known finding (by a syntactic test on the generated table) are generated in separate streams and their specification verdicts are reported under a tagged id; model/implementation comparisons of the same cases stay untagged. A case is non-trivial when the table has at least one record (write streams) or the loader returned a table (read streams); distinct = distinct written byte strings / distinct inputs among them."
	c.w = &shardWriter{dir: out, prop: "C02", max: 150, meta: meta,
		header: "From Coq Require Import NArith List.\nRequire Import Csvq.Model.Base Csvq.Model.Csv Csvq.Model.Ltsv Csvq.Harness.H02.\nOpen Scope list_scope.\nOpen Scope N_scope.\n",
		footer: func(ls []string) string {
			// lists a shard does not contain are defined empty, so that every shard has the same interface
			var b strings.Builder
			for _, n := range []string{"wcases:wcase", "rcases:rcase", "lwcases:lwcase", "lrcases:lrcase", "ecases:ecase"} {
				found := false
				for _, l := range ls {
					if l == n {
						found = true
					}
				}
				if !found {
					t := strings.SplitN(n, ":", 2)
					b.WriteString(fmt.Sprintf("Definition %s : list %s := [].\n", t[0], t[1]))
				}
			}
			b.WriteString("Definition M := Eval vm_compute in (check_w wcases ++ check_r rcases ++ check_lw lwcases ++ check_lr lrcases ++ check_e ecases).\nPrint M.\n")
			return b.String()
		}}

	nW, nWTag, nR, nLW, nLWTag, nLR := 420, 160, 600, 180, 90, 260
	if tier == "thorough" {
		nW, nWTag, nR, nLW, nLWTag, nLR = 6000, 1500, 9000, 2500, 900, 4000
	}

	pickLB := func() text.LineBreak { return c02LBs[r.Intn(3)] }
	// ---- main CSV/TSV stream: the property must hold --------------------------------------------------
	var written []struct {
		data  string
		delim rune
	}
	for i := 0; i < nW; i++ {
		delim := c02Delims[r.Intn(len(c02Delims))]
		lb := pickLB()
		enclose, noHeader := r.Intn(3) == 0, r.Intn(4) == 0
		t := c02GenTable(r, delim, 25)
		// keep the case inside the spellable fragment: a cell with CR/LF that would be written bare gets a
		// delimiter or a quote (and is then quoted by go-text); one-column tables get no empty text
		fix := func(s string, isText bool) string {
			if hasBreak(s) && !c02WrittenQuoted(s, isText, enclose, delim, c.repaired) {
				if r.Intn(2) == 0 {
					return s + string(delim)
				}
				return "\"" + s
			}
			if len(t.hdr) == 1 && s == "" {
				return "v"
			}
			return s
		}
		for j := range t.hdr {
			t.hdr[j] = fix(t.hdr[j], true)
		}
		for _, row := range t.rows {
			for j := range row {
				if row[j].kind == 0 {
					if len(t.hdr) == 1 {
						row[j] = c02Text("n")
					}
					continue
				}
				if s := fix(row[j].text, row[j].kind == 1); s != row[j].text {
					row[j] = c02Text(s)
				}
			}
		}
		tail := lb
		if lb == text.CR || r.Intn(4) == 0 {
			tail = ""
		}
		lines := len(t.rows)
		if !noHeader {
			lines++
		}
		sessLB := lb
		if lines >= 2 || tail != "" {
			sessLB = pickLB() // a detected line break overrides the session default
		}
		c.csvCase(t, delim, lb, tail, sessLB, enclose, noHeader, r.Intn(2) == 0, "csv-main")
		if len(written) < 400 {
			if b, ok := meta.Cases[fmt.Sprint(c.id)].(map[string]interface{})["written"].(string); ok {
				written = append(written, struct {
					data  string
					delim rune
				}{b, delim})
			}
		}
	}
	// ---- tagged CSV/TSV stream: tables that fall under a known finding -----------------------------------
	for i := 0; i < nWTag; i++ {
		delim := c02Delims[r.Intn(len(c02Delims))]
		lb := pickLB()
		enclose, noHeader := r.Intn(3) == 0, r.Intn(4) == 0
		t := c02GenTable(r, delim, 60)
		tail := lb
		if r.Intn(6) == 0 {
			tail = ""
		}
		if r.Intn(5) == 0 && len(t.rows) > 0 { // one column with an empty / NULL cell
			t.hdr = t.hdr[:1]
			for k := range t.rows {
				t.rows[k] = t.rows[k][:1]
			}
			t.rows[r.Intn(len(t.rows))][0] = []c02Cell{c02Null(), c02Text("")}[r.Intn(2)]
		}
		c.csvCase(t, delim, lb, tail, lb, enclose, noHeader, false, "csv-tagged")
	}
	// ---- CSV/TSV loader on arbitrary and mutated texts ----------------------------------------------------
	for i := 0; i < nR; i++ {
		delim := c02Delims[r.Intn(len(c02Delims))]
		var input string
		stream := "csv-read-random"
		if i%2 == 1 && len(written) > 0 {
			w := written[r.Intn(len(written))]
			delim = w.delim
			input = c02Mutate(r, w.data, delim)
			stream = "csv-read-mutated"
			if len(input) > 400 {
				input = string([]rune(input)[:200])
			}
		} else {
			input = c02RandomText(r, delim, false)
		}
		c.csvReadCase(input, delim, r.Intn(3) == 0, r.Intn(3) == 0, r.Intn(3) == 0, stream)
	}
	// ---- LTSV ------------------------------------------------------------------------------------------------
	var lwritten []string
	for i := 0; i < nLW; i++ {
		t := c02GenLtsvTable(r, 8, false)
		if len(t.hdr) == 1 {
			t.hdr = append(t.hdr, "k2x")
			for k := range t.rows {
				t.rows[k] = append(t.rows[k], c02GenCell(r, ';', 0))
			}
		}
		for _, row := range t.rows {
			for j := range row {
				if strings.Contains(row[j].text, ":") {
					row[j] = c02Text(strings.ReplaceAll(row[j].text, ":", ";"))
				}
			}
		}
		lb := pickLB()
		tail := lb
		if lb == text.CR || r.Intn(4) == 0 {
			tail = ""
		}
		c.ltsvCase(t, lb, tail, "ltsv-main")
		if b, ok := meta.Cases[fmt.Sprint(c.id)].(map[string]interface{})["written"].(string); ok && len(lwritten) < 200 && !strings.HasPrefix(b, "nothing") {
			lwritten = append(lwritten, b)
		}
	}
	for i := 0; i < nLWTag; i++ {
		t := c02GenLtsvTable(r, 8, true)
		if r.Intn(4) == 0 {
			t.hdr = t.hdr[:1]
			for k := range t.rows {
				t.rows[k] = t.rows[k][:1]
			}
		}
		lb := pickLB()
		tail := lb
		if r.Intn(6) == 0 {
			tail = ""
		}
		c.ltsvCase(t, lb, tail, "ltsv-tagged")
	}
	for i := 0; i < nLR; i++ {
		var input string
		stream := "ltsv-read-random"
		if i%2 == 1 && len(lwritten) > 0 {
			input = c02Mutate(r, lwritten[r.Intn(len(lwritten))], '\t')
			stream = "ltsv-read-mutated"
			if len(input) > 400 {
				input = string([]rune(input)[:200])
			}
		} else {
			input = c02RandomText(r, '\t', true)
		}
		c.ltsvReadCase(input, r.Intn(3) == 0, stream)
	}
	// ---- end to end with the binary ------------------------------------------------------------------------
	c.endToEnd(tier)

	c.w.flush()
	meta.Distinct = len(c.sig)
	meta.write(out)
}
