package main

// C02 end to end: the csvq binary (build/csvq, built from /repo's working tree) writes a table with
// --out / to stdout / by INSERT + COMMIT into an existing file, a fresh process re-imports the file with
// the same settings, and the before/after tables are compared inside Coq by H02.check_e
// (kind roundtrip-broken = a concrete failing input).  Observation channel: the re-import prints the
// table as CSV with --enclose-all on LF lines, where every text is quoted and NULL is an empty field.

import (
	"fmt"
	"math/rand"
	"os"
	"strings"
	"sync"
	"time"
	"unicode"
	"unicode/utf8"

	"github.com/mithrandie/go-text"
)

const (
	kUtf16Final    = "utf16-final-line-break"  // new: the appended line break is not transcoded
	kJsonBackslash = "json-trailing-backslash" // new: go-text's JSON scanner ends a string at \\" one quote late
	kJsonlCR       = "jsonl-cr-line-break"     // new: JSON Lines written with --line-break CR: the reader splits on LF only
	kLtsvPartial   = "ltsv-partial-output"     // new: a refusal after more than one buffer of output leaves the earlier records written
	kFixedUtf16    = "fixed-utf16-padding"     // new: fixed-length padding is counted in bytes but written as pad characters (2 bytes each in UTF-16)
)

// size in bytes of s in the given encoding (what go-text's ByteSize computes)
func encByteSize(s string, enc string) int {
	n := 0
	for _, r := range s {
		switch {
		case strings.HasPrefix(enc, "UTF16"):
			if r >= 0x10000 {
				n += 4
			} else {
				n += 2
			}
		case enc == "SJIS":
			if r < 0x80 || (r >= 0xff61 && r <= 0xff9f) {
				n++
			} else {
				n += 2
			}
		default:
			n += utf8.RuneLen(r)
		}
	}
	return n
}

type e2eSpec struct {
	format   string // CSV TSV LTSV FIXED JSON JSONL
	path     string // out | stdout | commit
	lb       text.LineBreak
	enclose  bool
	noHeader bool
	strip    bool
	delim    rune
	enc      string // UTF8 SJIS UTF16 ...
	explicit bool   // FIXED: explicit delimiter positions
	hdr      []string
	rows     [][]*string
	ins      []*string // commit path: the inserted record
	tags     []string
	stream   string
}

type e2eResult struct {
	writeErr string
	fileText *string // decoded file (UTF-8 formats only)
	after    c02Loaded
	log      []string
}

var e2eExt = map[string]string{"CSV": "csv", "TSV": "tsv", "LTSV": "ltsv", "FIXED": "txt", "JSON": "json", "JSONL": "jsonl"}

func sqlLit(s *string) string {
	if s == nil {
		return "NULL"
	}
	return "'" + strings.ReplaceAll(*s, "'", "''") + "'"
}

// strict parser of the observation channel
func parseEnclosedCSV(s string) (hdr []string, rows [][]*string, err error) {
	if s == "" {
		return nil, nil, nil
	}
	if !strings.HasSuffix(s, "\n") {
		return nil, nil, fmt.Errorf("observation output does not end with LF")
	}
	var recs [][]*string
	var rec []*string
	i := 0
	for i < len(s) {
		// one field
		if s[i] == '"' {
			i++
			var b strings.Builder
			for {
				if i >= len(s) {
					return nil, nil, fmt.Errorf("unterminated quote in observation output")
				}
				if s[i] == '"' {
					if i+1 < len(s) && s[i+1] == '"' {
						b.WriteByte('"')
						i += 2
						continue
					}
					i++
					break
				}
				b.WriteByte(s[i])
				i++
			}
			v := b.String()
			rec = append(rec, &v)
		} else {
			rec = append(rec, nil)
		}
		if i >= len(s) {
			return nil, nil, fmt.Errorf("observation output truncated")
		}
		switch s[i] {
		case ',':
			i++
		case '\n':
			i++
			recs = append(recs, rec)
			rec = nil
		default:
			return nil, nil, fmt.Errorf("unexpected byte %q in observation output at %d", s[i], i)
		}
	}
	if len(recs) == 0 {
		return nil, nil, nil
	}
	for _, h := range recs[0] {
		if h == nil {
			hdr = append(hdr, "")
		} else {
			hdr = append(hdr, *h)
		}
	}
	return hdr, recs[1:], nil
}

func fixedPositions(spec *e2eSpec, all [][]*string) string {
	n := len(spec.hdr)
	w := make([]int, n)
	if !spec.noHeader {
		for j, h := range spec.hdr {
			w[j] = encByteSize(h, spec.enc)
		}
	}
	for _, r := range all {
		for j, c := range r {
			if c != nil && encByteSize(*c, spec.enc) > w[j] {
				w[j] = encByteSize(*c, spec.enc)
			}
		}
	}
	pos := make([]string, n)
	p := 0
	for j := range w {
		if w[j] == 0 {
			w[j] = 1
		}
		p += w[j]
		pos[j] = fmt.Sprint(p)
	}
	return "[" + strings.Join(pos, ",") + "]"
}

func runE2E(spec *e2eSpec) e2eResult {
	sc := newScratch()
	defer sc.Close()
	res := e2eResult{}
	to := 20 * time.Second
	// source table: fully quoted CSV with a guard column, so that one-column tables with NULL cells survive
	srcHdr := append(append([]string{}, spec.hdr...), "zz")
	src := make([][]*string, len(spec.rows))
	for i, r := range spec.rows {
		src[i] = append(append([]*string{}, r...), sp("g"))
	}
	writeCSV(sc.Path("src.csv"), srcHdr, src)
	cols := "`" + strings.Join(spec.hdr, "`, `") + "`"
	ext := e2eExt[spec.format]
	outName := "out." + ext
	all := append([][]*string{}, spec.rows...)
	if spec.ins != nil {
		all = append(all, spec.ins)
	}
	wargs := []string{"--repository", sc.Dir, "--quiet", "--timezone", "UTC", "-f", spec.format, "--line-break", spec.lb.String(), "--write-encoding", spec.enc}
	rargs := []string{"--repository", sc.Dir, "--quiet", "--timezone", "UTC", "-i", spec.format, "--encoding", spec.enc}
	if spec.format == "CSV" {
		wargs = append(wargs, "--write-delimiter", string(spec.delim))
		rargs = append(rargs, "--delimiter", string(spec.delim))
	}
	if spec.format == "FIXED" && spec.explicit {
		p := fixedPositions(spec, all)
		wargs = append(wargs, "--write-delimiter-positions", p)
		rargs = append(rargs, "--delimiter-positions", p)
	}
	if spec.enclose {
		wargs = append(wargs, "--enclose-all")
	}
	if spec.noHeader {
		wargs = append(wargs, "--without-header")
		rargs = append(rargs, "--no-header")
	}
	if spec.strip {
		wargs = append(wargs, "--strip-ending-line-break")
	}
	sel := "SELECT " + cols + " FROM src"
	switch spec.path {
	case "stdout":
		r := runCsvq(sc.Dir, append(wargs, sel), "", to)
		res.log = append(res.log, "csvq "+strings.Join(append(wargs, sel), " "))
		if r.Code != 0 || r.TimedOut {
			res.writeErr = fmt.Sprintf("exit %d: %s", r.Code, strings.TrimSpace(r.Stderr))
			return res
		}
		if err := os.WriteFile(sc.Path(outName), []byte(r.Stdout), 0644); err != nil {
			panic(err)
		}
	default:
		a := append(append([]string{}, wargs...), "--out", outName, sel)
		r := runCsvq(sc.Dir, a, "", to)
		res.log = append(res.log, "csvq "+strings.Join(a, " "))
		if r.Code != 0 || r.TimedOut {
			res.writeErr = fmt.Sprintf("exit %d: %s", r.Code, strings.TrimSpace(r.Stderr))
			return res
		}
		if _, err := os.Stat(sc.Path(outName)); err != nil {
			// lib/action/run.go removes an --out file that stayed empty: an absent file is the empty output
			if err := os.WriteFile(sc.Path(outName), nil, 0644); err != nil {
				panic(err)
			}
		}
	}
	if spec.path == "commit" {
		// a second process updates the existing file; the dialect now comes from the file itself
		vals := make([]string, len(spec.ins))
		for j, v := range spec.ins {
			vals[j] = sqlLit(v)
		}
		q := "INSERT INTO `" + outName + "` VALUES (" + strings.Join(vals, ", ") + ")"
		a := append(append([]string{}, rargs...), "--line-break", spec.lb.String())
		if spec.strip {
			a = append(a, "--strip-ending-line-break")
		}
		a = append(a, q)
		r := runCsvq(sc.Dir, a, "", to)
		res.log = append(res.log, "csvq "+strings.Join(a, " "))
		if r.Code != 0 || r.TimedOut {
			res.writeErr = fmt.Sprintf("update: exit %d: %s", r.Code, strings.TrimSpace(r.Stderr))
			if b, err := os.ReadFile(sc.Path(outName)); err == nil && spec.enc == "UTF8" && utf8.Valid(b) {
				s := string(b) // the file as the failed update left it
				res.fileText = &s
			}
			return res
		}
	}
	if b, err := os.ReadFile(sc.Path(outName)); err == nil {
		if spec.enc == "UTF8" && utf8.Valid(b) {
			s := string(b)
			res.fileText = &s
		}
	} else {
		res.writeErr = "no file written"
		return res
	}
	// fresh process: re-import with the same settings
	a := append(append([]string{}, rargs...), "-f", "CSV", "--enclose-all", "SELECT * FROM `"+outName+"`")
	r := runCsvq(sc.Dir, a, "", to)
	res.log = append(res.log, "csvq "+strings.Join(a, " "))
	if r.Code != 0 || r.TimedOut {
		res.after = c02Loaded{err: fmt.Errorf("re-import: exit %d: %s", r.Code, strings.TrimSpace(r.Stderr))}
		return res
	}
	hdr, rows, err := parseEnclosedCSV(r.Stdout)
	if err != nil {
		res.after = c02Loaded{err: err}
		return res
	}
	res.after = c02Loaded{hdr: hdr, rows: rows}
	return res
}

// ---- generation ---------------------------------------------------------------------------------------------
var e2eSjisWords = []string{"a", "b", "abc", "x1", "42", "日本", "あ", "ｱ", "Z", "0", "q", "-7"}

func e2eText(r *rand.Rand, spec *e2eSpec, breakRate int) string {
	if spec.enc == "SJIS" {
		switch r.Intn(10) {
		case 0:
			return ""
		case 1:
			return e2eSjisWords[r.Intn(len(e2eSjisWords))] + string(spec.delim)
		case 2:
			return "\"" + e2eSjisWords[r.Intn(len(e2eSjisWords))]
		}
		return e2eSjisWords[r.Intn(len(e2eSjisWords))] + e2eSjisWords[r.Intn(len(e2eSjisWords))]
	}
	s := c02TextValue(r, spec.delim, breakRate)
	switch spec.format {
	case "LTSV":
		s = strings.NewReplacer("\t", " ", "\r", "", "\n", "").Replace(s)
	case "FIXED":
		if !spec.explicit {
			// automatic delimiter positions are a heuristic on columns of blanks: only dense, blank-free cells
			s = strings.Map(func(r rune) rune {
				if unicode.IsSpace(r) {
					return '_'
				}
				return r
			}, s)
			if s == "" {
				s = "v"
			}
		}
	}
	return s
}

func e2eGen(r *rand.Rand, spec *e2eSpec, breakRate int) {
	nr, nc := c02Size(r)
	if nr > 12 {
		nr = 12
	}
	for j := 0; j < nc; j++ {
		spec.hdr = append(spec.hdr, fmt.Sprintf("h%d", j+1))
	}
	for i := 0; i < nr; i++ {
		row := make([]*string, nc)
		for j := range row {
			if r.Intn(6) == 0 && !(spec.format == "FIXED" && !spec.explicit) {
				continue
			}
			row[j] = sp(e2eText(r, spec, breakRate))
		}
		spec.rows = append(spec.rows, row)
	}
	if spec.path == "commit" {
		spec.ins = make([]*string, nc)
		for j := range spec.ins {
			if r.Intn(4) != 0 {
				spec.ins[j] = sp([]string{"i", "7", "z"}[r.Intn(3)])
			}
		}
	}
}

func e2eDefects(spec *e2eSpec, repaired bool) []string {
	var tags []string
	all := append([][]*string{}, spec.rows...)
	if spec.ins != nil {
		all = append(all, spec.ins)
	}
	anyBreak, anyColon, emptyOne, endBackslash := false, false, false, false
	for _, r := range all {
		for _, c := range r {
			s := ""
			if c != nil {
				s = *c
			}
			switch spec.format {
			case "CSV", "TSV":
				if hasBreak(s) && !c02WrittenQuoted(s, true, spec.enclose, spec.delim, repaired) {
					anyBreak = true
				}
			case "FIXED":
				if hasBreak(s) {
					anyBreak = true
				}
			case "LTSV":
				if strings.Contains(s, ":") {
					anyColon = true
				}
			}
			if len(r) == 1 && s == "" {
				emptyOne = true
			}
			if strings.HasSuffix(s, "\\") {
				endBackslash = true
			}
		}
	}
	lines := len(all)
	if !spec.noHeader {
		lines++
	}
	switch spec.format {
	case "CSV", "TSV":
		if anyBreak {
			tags = append(tags, kCrlfUnquoted)
		}
		if emptyOne {
			tags = append(tags, kSingleEmpty)
		}
	case "FIXED":
		if anyBreak {
			tags = append(tags, kFixedCrlf)
		}
	case "LTSV":
		if anyColon {
			tags = append(tags, kLtsvColon)
		}
		if len(spec.hdr) == 1 {
			tags = append(tags, kLtsvSingle)
		}
	case "JSONL":
		if !spec.strip {
			tags = append(tags, kJsonlBlank)
		}
		if spec.lb == text.CR && len(all) >= 2 {
			tags = append(tags, kJsonlCR)
		}
		if endBackslash {
			tags = append(tags, kJsonBackslash)
		}
	case "JSON":
		if endBackslash {
			tags = append(tags, kJsonBackslash)
		}
	}
	textual := spec.format == "CSV" || spec.format == "TSV" || spec.format == "LTSV" || spec.format == "FIXED"
	if textual && spec.lb == text.CR && !spec.strip && lines > 0 {
		tags = append(tags, kCrFinal)
	}
	if strings.HasPrefix(spec.enc, "UTF16") && !spec.strip && spec.format != "JSONL" {
		tags = append(tags, kUtf16Final)
	}
	if strings.HasPrefix(spec.enc, "UTF16") && spec.format == "FIXED" {
		// any field shorter than its column is padded
		w := make([]int, len(spec.hdr))
		sizes := [][]int{}
		if !spec.noHeader {
			hs := make([]int, len(spec.hdr))
			for j, h := range spec.hdr {
				hs[j] = encByteSize(h, spec.enc)
			}
			sizes = append(sizes, hs)
		}
		for _, r := range all {
			rs := make([]int, len(r))
			for j, c := range r {
				if c != nil {
					rs[j] = encByteSize(*c, spec.enc)
				}
			}
			sizes = append(sizes, rs)
		}
		for _, rs := range sizes {
			for j, n := range rs {
				if n > w[j] {
					w[j] = n
				}
			}
		}
		padded := false
		for _, rs := range sizes {
			for j, n := range rs {
				if n < w[j] || w[j] == 0 {
					padded = true
				}
			}
		}
		if padded {
			tags = append(tags, kFixedUtf16)
		}
	}
	return tags
}

func (c *c02Run) endToEnd(tier string) {
	r := c.r
	formats := []string{"CSV", "TSV", "LTSV", "FIXED", "JSON", "JSONL"}
	paths := []string{"out", "stdout", "commit"}
	var specs []*e2eSpec
	add := func(s *e2eSpec, breakRate int) {
		if s.format == "TSV" {
			s.delim = '\t'
		}
		e2eGen(r, s, breakRate)
		if (s.format == "LTSV" || s.format == "JSON" || s.format == "JSONL" || ((s.format == "CSV" || s.format == "TSV" || s.format == "FIXED") && s.noHeader)) && len(s.rows) == 0 {
			// an empty record set has no spelling that keeps the header in LTSV/JSON/JSONL, and nothing is
			// written for it without header (DataEmpty): outside the property
			s.rows = append(s.rows, make([]*string, len(s.hdr)))
			for j := range s.rows[0] {
				s.rows[0][j] = sp("v")
			}
		}
		specs = append(specs, s)
	}
	reps := 3
	if tier == "thorough" {
		reps = 12
	}
	for rep := 0; rep < reps; rep++ {
		// the full grid: six formats x line breaks x enclose-all x without-header x strip; the path rotates
		k := rep
		for _, f := range formats {
			for _, lb := range c02LBs {
				for mask := 0; mask < 8; mask++ {
					enclose, noHeader, strip := mask&1 != 0, mask&2 != 0, mask&4 != 0
					if enclose && f != "CSV" && f != "TSV" {
						continue
					}
					if noHeader && (f == "LTSV" || f == "JSON" || f == "JSONL") {
						continue
					}
					k++
					s := &e2eSpec{format: f, path: paths[k%3], lb: lb, enclose: enclose, noHeader: noHeader, strip: strip, delim: ',', enc: "UTF8", explicit: true, stream: "e2e-grid"}
					if f == "CSV" && k%4 == 0 {
						s.delim = []rune{';', '|', ':'}[k%3]
					}
					add(s, 12)
				}
			}
		}
		// other encodings (end to end only), encodable text
		for _, enc := range []string{"SJIS", "UTF16", "UTF16LE", "UTF16BEM", "UTF8M"} {
			for _, f := range []string{"CSV", "TSV", "LTSV", "FIXED"} {
				k++
				add(&e2eSpec{format: f, path: paths[r.Intn(3)], lb: c02LBs[r.Intn(3)], strip: r.Intn(2) == 0, delim: ',', enc: enc, explicit: true, stream: "e2e-encoding"}, 0)
			}
		}
	}
	for _, s := range specs {
		s.tags = e2eDefects(s, c.repaired)
		if s.stream == "e2e-grid" && len(s.tags) > 0 {
			s.stream = "e2e-tagged"
		}
	}
	results := make([]e2eResult, len(specs))
	var wg sync.WaitGroup
	sem := make(chan struct{}, 8)
	for i := range specs {
		wg.Add(1)
		go func(i int) {
			defer wg.Done()
			sem <- struct{}{}
			results[i] = runE2E(specs[i])
			<-sem
		}(i)
	}
	wg.Wait()
	fm := map[string]string{"CSV": "FCsv", "TSV": "FTsv", "LTSV": "FLtsv", "FIXED": "FFixed", "JSON": "FJson", "JSONL": "FJsonl"}
	for i, s := range specs {
		res := results[i]
		id := c.nextID()
		all := append([][]*string{}, s.rows...)
		if s.ins != nil {
			all = append(all, s.ins)
		}
		showRows := showCellRows(all)
		body := map[string]interface{}{"stream": s.stream, "format": s.format, "path": s.path, "line_break": s.lb.String(), "enclose_all": s.enclose,
			"without_header": s.noHeader, "strip_ending_line_break": s.strip, "delimiter": string(s.delim), "encoding": s.enc,
			"header": s.hdr, "rows": showRows, "commands": res.log}
		after := res.after
		if res.writeErr != "" {
			after = c02Loaded{err: fmt.Errorf("write failed: %s", res.writeErr)}
		}
		body["re_imported"] = after.show()
		ebytes := "None"
		textual := s.format == "CSV" || s.format == "TSV" || s.format == "LTSV"
		if res.fileText != nil && textual {
			ebytes = "(Some " + coqStr(*res.fileText) + ")"
			body["file"] = *res.fileText
		}
		ecmp := textual && s.enc == "UTF8"
		var texts []string
		texts = append(texts, s.hdr...)
		for _, r := range all {
			for _, c := range r {
				if c != nil {
					texts = append(texts, *c)
				}
			}
		}
		nIns := 0
		if s.ins != nil {
			nIns = 1
		}
		sid := c.record(id, "end-to-end", s.tags, body)
		obs := "OErr"
		if after.err == nil {
			obs = fmt.Sprintf("(OTab %s None false)", coqTable(after.hdr, after.rows))
		}
		c.w.add("ecases:ecase", fmt.Sprintf("mkE %d %d %s %s %s\n   %s\n   %s\n   %s %s %s %s %d%%nat %s %s %s", id, sid, fm[s.format], coqBool(s.enclose), coqBool(s.noHeader),
			coqTable(s.hdr, all), obs, ebytes, coqLB(s.lb), coqRune(s.delim), coqBool(s.strip), nIns, coqBool(c.repaired), c02Letters(texts...), coqBool(ecmp)))
		c.meta.Distribution["e2e:"+s.format+"/"+s.path]++
		c.meta.Distribution["e2e-encoding:"+s.enc]++
		if after.err != nil {
			c.meta.Distribution["e2e:re-import-error"]++
		}
		if len(s.tags) == 0 && len(all) > 0 {
			c.sig[fmt.Sprintf("e|%s|%s|%v|%v|%v|%v", s.format, s.lb, s.enclose, s.noHeader, s.strip, showRows)] = true
		}
		if len(c.meta.Samples) < 6 && len(s.tags) == 0 && len(all) >= 2 && s.format == "FIXED" {
			c.meta.Samples = append(c.meta.Samples, body)
		}
	}
	c.refusals()
	c.encodingPaths(tier)
}

// refusals: "a cell the format cannot spell is refused with an error and nothing is written".  LTSV values with a
// TAB are refused by go-text; the refusal happens while the records are streamed, so what matters is whether
// anything reached the --out file.  Early refusal (first record) and late refusal (after > 4 KiB) are separate keys.
func (c *c02Run) refusals() {
	for _, late := range []bool{false, true} {
		sc := newScratch()
		n := 3
		if late {
			n = 400
		}
		rows := make([][]*string, n)
		for i := range rows {
			rows[i] = []*string{sp(fmt.Sprintf("value%05d-%s", i, strings.Repeat("x", 24))), sp("y"), sp("g")}
		}
		bad := 0
		if late {
			bad = n - 1
		}
		rows[bad][0] = sp("bad\tvalue")
		writeCSV(sc.Path("src.csv"), []string{"k1", "k2", "zz"}, rows)
		args := []string{"--repository", sc.Dir, "--quiet", "-f", "LTSV", "--out", "out.ltsv", "SELECT k1, k2 FROM src"}
		r := runCsvq(sc.Dir, args, "", 20*time.Second)
		b, _ := os.ReadFile(sc.Path("out.ltsv"))
		sc.Close()
		c.meta.Evaluations++
		c.meta.Distribution[fmt.Sprintf("e2e-refusal:late=%v", late)]++
		cs := map[string]interface{}{"kind": "refusal", "format": "LTSV", "records": n, "unspellable_record": bad, "command": "csvq " + strings.Join(args, " "),
			"exit_code": r.Code, "stderr": strings.TrimSpace(r.Stderr), "bytes_left_in_out_file": len(b)}
		switch {
		case r.Code == 0:
			c.meta.Direct = append(c.meta.Direct, DirectViolation{Key: "unspellable-accepted", What: "an LTSV value containing TAB was written without an error", Case: cs})
		case len(b) > 0 && late:
			c.meta.Direct = append(c.meta.Direct, DirectViolation{Key: kLtsvPartial, What: fmt.Sprintf("LTSV refusal in record %d of %d left %d bytes in the --out file (nothing should be written)", bad+1, n, len(b)), Case: cs})
		case len(b) > 0:
			c.meta.Direct = append(c.meta.Direct, DirectViolation{Key: "unspellable-written", What: fmt.Sprintf("LTSV refusal in the first record left %d bytes in the --out file", len(b)), Case: cs})
		}
	}
}
