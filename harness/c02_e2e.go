package main

// C02 end to end: the csvq binary (build/csvq, built from /repo's working tree) writes a table with
// --out / to stdout / by INSERT + COMMIT into an existing file, a fresh process re-imports the file with
// the same settings, and the before/after tables are compared inside Coq by H02.check_e
// (kind roundtrip-broken = a concrete failing input).  Observation channel: the re-import prints the
// table as CSV with --enclose-all on LF lines, where every text is quoted and NULL is an empty field.

import (
	"fmt"
	"math/rand"
	"os"
	"strings"
	"sync"
	"time"
	"unicode"
	"unicode/utf8"

	"github.com/mithrandie/go-text"
)

const (
	kUtf16Final    = "utf16-final-line-break"  // new: the appended line break is not transcoded
	kJsonBackslash = "json-trailing-backslash" // new: go-text's JSON scanner ends a string at \\" one quote late
	kJsonlCR       = "jsonl-cr-line-break"     // new: JSON Lines written with --line-break CR: the reader splits on LF only
	kLtsvPartial   = "ltsv-partial-output"     // new: a refusal after more than one buffer of output leaves the earlier records written
	kFixedUtf16    = "fixed-utf16-padding"     // new: fixed-length padding is counted in bytes but written as pad characters (2 bytes each in UTF-16)
)

// size in bytes of s in the given encoding (what go-text's ByteSize computes)
func encByteSize(s string, enc string) int {
	n := 0
	for _, r := range s {
		switch {
		case strings.HasPrefix(enc, "UTF16"):
			if r >= 0x10000 {
				n += 4
			} else {
				n += 2
			}
		case enc == "SJIS":
			if r < 0x80 || (r >= 0xff61 && r <= 0xff9f) {
				n++
			} else {
				n += 2
			}
		default:
			n += utf8.RuneLen(r)
		}
	}
	return n
}

type e2eSpec struct {
	format   string // CSV TSV LTSV FIXED JSON JSONL
	path     string // out | stdout | commit
	lb       text.LineBreak
	enclose  bool
	noHeader bool
	strip    bool
	delim    rune
	enc      string // UTF8 SJIS UTF16 ...
	explicit bool   // FIXED: explicit delimiter positions
	hdr      []string
	rows     [][]*string
	ins      []*string // commit path: the inserted record
	tags     []string
	stream   string
	lb2      text.LineBreak // --line-break of the second (INSERT + COMMIT) process
	refuse   string // non-empty: the format cannot spell a cell of this table; the write must be refused and nothing written
}

type e2eResult struct {
	writeCode   int    // exit code of the first write step
	writeStderr string
	stdoutLen   int // bytes the first write step printed (stdout path)
	outFileLen  int // size of the --out file after a failed first step, -1 = absent
	writeErr string
	fileText *string // decoded file (UTF-8 formats only)
	after    c02Loaded
	log      []string
}

var e2eExt = map[string]string{"CSV": "csv", "TSV": "tsv", "LTSV": "ltsv", "FIXED": "txt", "JSON": "json", "JSONL": "jsonl"}

func sqlLit(s *string) string {
	if s == nil {
		return "NULL"
	}
	return "'" + strings.ReplaceAll(*s, "'", "''") + "'"
}

// strict parser of the observation channel
func parseEnclosedCSV(s string) (hdr []string, rows [][]*string, err error) {
	if s == "" {
		return nil, nil, nil
	}
	if !strings.HasSuffix(s, "\n") {
		return nil, nil, fmt.Errorf("observation output does not end with LF")
	}
	var recs [][]*string
	var rec []*string
	i := 0
	for i < len(s) {
		// one field
		if s[i] == '"' {
			i++
			var b strings.Builder
			for {
				if i >= len(s) {
					return nil, nil, fmt.Errorf("unterminated quote in observation output")
				}
				if s[i] == '"' {
					if i+1 < len(s) && s[i+1] == '"' {
						b.WriteByte('"')
						i += 2
						continue
					}
					i++
					break
				}
				b.WriteByte(s[i])
				i++
			}
			v := b.String()
			rec = append(rec, &v)
		} else {
			rec = append(rec, nil)
		}
		if i >= len(s) {
			return nil, nil, fmt.Errorf("observation output truncated")
		}
		switch s[i] {
		case ',':
			i++
		case '\n':
			i++
			recs = append(recs, rec)
			rec = nil
		default:
			return nil, nil, fmt.Errorf("unexpected byte %q in observation output at %d", s[i], i)
		}
	}
	if len(recs) == 0 {
		return nil, nil, nil
	}
	for _, h := range recs[0] {
		if h == nil {
			hdr = append(hdr, "")
		} else {
			hdr = append(hdr, *h)
		}
	}
	return hdr, recs[1:], nil
}

func fixedPositions(spec *e2eSpec, all [][]*string) string {
	n := len(spec.hdr)
	w := make([]int, n)
	if !spec.noHeader {
		for j, h := range spec.hdr {
			w[j] = encByteSize(h, spec.enc)
		}
	}
	for _, r := range all {
		for j, c := range r {
			if c != nil && encByteSize(*c, spec.enc) > w[j] {
				w[j] = encByteSize(*c, spec.enc)
			}
		}
	}
	pos := make([]string, n)
	p := 0
	for j := range w {
		if w[j] == 0 {
			w[j] = 1
		}
		p += w[j]
		pos[j] = fmt.Sprint(p)
	}
	return "[" + strings.Join(pos, ",") + "]"
}

func runE2E(spec *e2eSpec) e2eResult {
	sc := newScratch()
	defer sc.Close()
	res := e2eResult{}
	to := 20 * time.Second
	// source table: fully quoted CSV with a guard column, so that one-column tables with NULL cells survive
	srcHdr := append(append([]string{}, spec.hdr...), "zz")
	src := make([][]*string, len(spec.rows))
	for i, r := range spec.rows {
		src[i] = append(append([]*string{}, r...), sp("g"))
	}
	writeCSV(sc.Path("src.csv"), srcHdr, src)
	cols := "`" + strings.Join(spec.hdr, "`, `") + "`"
	ext := e2eExt[spec.format]
	outName := "out." + ext
	all := append([][]*string{}, spec.rows...)
	if spec.ins != nil {
		all = append(all, spec.ins)
	}
	wargs := []string{"--repository", sc.Dir, "--quiet", "--timezone", "UTC", "-f", spec.format, "--line-break", spec.lb.String(), "--write-encoding", spec.enc}
	rargs := []string{"--repository", sc.Dir, "--quiet", "--timezone", "UTC", "-i", spec.format, "--encoding", spec.enc}
	if spec.format == "CSV" {
		wargs = append(wargs, "--write-delimiter", string(spec.delim))
		rargs = append(rargs, "--delimiter", string(spec.delim))
	}
	if spec.format == "FIXED" && spec.explicit {
		p := fixedPositions(spec, all)
		wargs = append(wargs, "--write-delimiter-positions", p)
		rargs = append(rargs, "--delimiter-positions", p)
	}
	if spec.enclose {
		wargs = append(wargs, "--enclose-all")
	}
	if spec.noHeader {
		wargs = append(wargs, "--without-header")
		rargs = append(rargs, "--no-header")
	}
	if spec.strip {
		wargs = append(wargs, "--strip-ending-line-break")
	}
	sel := "SELECT " + cols + " FROM src"
	switch spec.path {
	case "stdout":
		r := runCsvq(sc.Dir, append(wargs, sel), "", to)
		res.log = append(res.log, "csvq "+strings.Join(append(wargs, sel), " "))
		res.writeCode, res.writeStderr, res.stdoutLen, res.outFileLen = r.Code, strings.TrimSpace(r.Stderr), len(r.Stdout), -1
		if r.Code != 0 || r.TimedOut {
			res.writeErr = fmt.Sprintf("exit %d: %s", r.Code, strings.TrimSpace(r.Stderr))
			return res
		}
		if err := os.WriteFile(sc.Path(outName), []byte(r.Stdout), 0644); err != nil {
			panic(err)
		}
	default:
		a := append(append([]string{}, wargs...), "--out", outName, sel)
		r := runCsvq(sc.Dir, a, "", to)
		res.log = append(res.log, "csvq "+strings.Join(a, " "))
		res.writeCode, res.writeStderr, res.outFileLen = r.Code, strings.TrimSpace(r.Stderr), -1
		if fi, err := os.Stat(sc.Path(outName)); err == nil {
			res.outFileLen = int(fi.Size())
		}
		if r.Code != 0 || r.TimedOut {
			res.writeErr = fmt.Sprintf("exit %d: %s", r.Code, strings.TrimSpace(r.Stderr))
			return res
		}
		if _, err := os.Stat(sc.Path(outName)); err != nil {
			// lib/action/run.go removes an --out file that stayed empty: an absent file is the empty output
			if err := os.WriteFile(sc.Path(outName), nil, 0644); err != nil {
				panic(err)
			}
		}
	}
	if spec.path == "commit" {
		// a second process updates the existing file; the dialect now comes from the file itself
		vals := make([]string, len(spec.ins))
		for j, v := range spec.ins {
			vals[j] = sqlLit(v)
		}
		q := "INSERT INTO `" + outName + "` VALUES (" + strings.Join(vals, ", ") + ")"
		a := append(append([]string{}, rargs...), "--line-break", spec.lb2.String())
		if spec.strip {
			a = append(a, "--strip-ending-line-break")
		}
		a = append(a, q)
		r := runCsvq(sc.Dir, a, "", to)
		res.log = append(res.log, "csvq "+strings.Join(a, " "))
		if r.Code != 0 || r.TimedOut {
			res.writeErr = fmt.Sprintf("update: exit %d: %s", r.Code, strings.TrimSpace(r.Stderr))
			if b, err := os.ReadFile(sc.Path(outName)); err == nil && spec.enc == "UTF8" && utf8.Valid(b) {
				s := string(b) // the file as the failed update left it
				res.fileText = &s
			}
			return res
		}
	}
	if b, err := os.ReadFile(sc.Path(outName)); err == nil {
		if spec.enc == "UTF8" && utf8.Valid(b) {
			s := string(b)
			res.fileText = &s
		}
	} else {
		res.writeErr = "no file written"
		return res
	}
	// fresh process: re-import with the same settings
	a := append(append([]string{}, rargs...), "-f", "CSV", "--enclose-all", "SELECT * FROM `"+outName+"`")
	r := runCsvq(sc.Dir, a, "", to)
	res.log = append(res.log, "csvq "+strings.Join(a, " "))
	if r.Code != 0 || r.TimedOut {
		res.after = c02Loaded{err: fmt.Errorf("re-import: exit %d: %s", r.Code, strings.TrimSpace(r.Stderr))}
		return res
	}
	hdr, rows, err := parseEnclosedCSV(r.Stdout)
	if err != nil {
		res.after = c02Loaded{err: err}
		return res
	}
	res.after = c02Loaded{hdr: hdr, rows: rows}
	return res
}

// ---- generation ---------------------------------------------------------------------------------------------
var e2eSjisWords = []string{"a", "b", "abc", "x1", "42", "日本", "あ", "ｱ", "Z", "0", "q", "-7"}

func e2eText(r *rand.Rand, spec *e2eSpec, breakRate int) string {
	if spec.enc == "SJIS" {
		switch r.Intn(10) {
		case 0:
			return ""
		case 1:
			return e2eSjisWords[r.Intn(len(e2eSjisWords))] + string(spec.delim)
		case 2:
			return "\"" + e2eSjisWords[r.Intn(len(e2eSjisWords))]
		}
		return e2eSjisWords[r.Intn(len(e2eSjisWords))] + e2eSjisWords[r.Intn(len(e2eSjisWords))]
	}
	s := c02TextValue(r, spec.delim, breakRate)
	switch spec.format {
	case "LTSV":
		s = strings.NewReplacer("\t", " ", "\r", "", "\n", "").Replace(s)
	case "FIXED":
		if !spec.explicit {
			// automatic delimiter positions are a heuristic on columns of blanks: only dense, blank-free cells
			s = strings.Map(func(r rune) rune {
				if unicode.IsSpace(r) {
					return '_'
				}
				return r
			}, s)
			if s == "" {
				s = "v"
			}
		}
	}
	return s
}

func e2eGen(r *rand.Rand, spec *e2eSpec, breakRate int) {
	nr, nc := c02Size(r)
	if nr > 12 {
		nr = 12
	}
	for j := 0; j < nc; j++ {
		spec.hdr = append(spec.hdr, fmt.Sprintf("h%d", j+1))
	}
	for i := 0; i < nr; i++ {
		row := make([]*string, nc)
		for j := range row {
			if r.Intn(6) == 0 && !(spec.format == "FIXED" && !spec.explicit) {
				continue
			}
			row[j] = sp(e2eText(r, spec, breakRate))
		}
		spec.rows = append(spec.rows, row)
	}
	if spec.path == "commit" {
		spec.ins = make([]*string, nc)
		for j := range spec.ins {
			if r.Intn(4) != 0 {
				spec.ins[j] = sp([]string{"i", "7", "z"}[r.Intn(3)])
			}
		}
	}
}

func e2eDefects(spec *e2eSpec, repaired bool) []string {
	var tags []string
	all := append([][]*string{}, spec.rows...)
	if spec.ins != nil {
		all = append(all, spec.ins)
	}
	anyBreak, anyColon, emptyOne, endBackslash := false, false, false, false
	for _, r := range all {
		for _, c := range r {
			s := ""
			if c != nil {
				s = *c
			}
			switch spec.format {
			case "CSV", "TSV":
				if hasBreak(s) && !c02WrittenQuoted(s, true, spec.enclose, spec.delim, repaired) {
					anyBreak = true
				}
			case "FIXED":
				if hasBreak(s) {
					anyBreak = true
				}
			case "LTSV":
				if strings.Contains(s, ":") {
					anyColon = true
				}
			}
			if len(r) == 1 && s == "" {
				emptyOne = true
			}
			if strings.HasSuffix(s, "\\") {
				endBackslash = true
			}
		}
	}
	lines := len(all)
	if !spec.noHeader {
		lines++
	}
	switch spec.format {
	case "CSV", "TSV":
		if anyBreak {
			tags = append(tags, kCrlfUnquoted)
		}
		if emptyOne {
			tags = append(tags, kSingleEmpty)
		}
	case "FIXED":
		if anyBreak {
			spec.refuse = "a fixed-length cell contains a line break"
		}
	case "LTSV":
		if anyColon {
			tags = append(tags, kLtsvColon)
		}
		if len(spec.hdr) == 1 {
			tags = append(tags, kLtsvSingle)
		}
	case "JSONL":
		if spec.lb == text.CR && len(all) >= 2 {
			tags = append(tags, kJsonlCR)
		}
		if endBackslash {
			tags = append(tags, kJsonBackslash)
		}
	case "JSON":
		if endBackslash {
			tags = append(tags, kJsonBackslash)
		}
	}
	textual := spec.format == "CSV" || spec.format == "TSV" || spec.format == "LTSV" || spec.format == "FIXED"
	if textual && spec.lb == text.CR && !spec.strip && lines > 0 {
		tags = append(tags, kCrFinal)
	}
	if strings.HasPrefix(spec.enc, "UTF16") && spec.format == "FIXED" {
		// any field shorter than its column is padded
		w := make([]int, len(spec.hdr))
		sizes := [][]int{}
		if !spec.noHeader {
			hs := make([]int, len(spec.hdr))
			for j, h := range spec.hdr {
				hs[j] = encByteSize(h, spec.enc)
			}
			sizes = append(sizes, hs)
		}
		for _, r := range all {
			rs := make([]int, len(r))
			for j, c := range r {
				if c != nil {
					rs[j] = encByteSize(*c, spec.enc)
				}
			}
			sizes = append(sizes, rs)
		}
		for _, rs := range sizes {
			for j, n := range rs {
				if n > w[j] {
					w[j] = n
				}
			}
		}
		padded := false
		for _, rs := range sizes {
			for j, n := range rs {
				if n < w[j] || w[j] == 0 {
					padded = true
				}
			}
		}
		if padded {
			tags = append(tags, kFixedUtf16)
		}
	}
	return tags
}

func (c *c02Run) endToEnd(tier string) {
	r := c.r
	formats := []string{"CSV", "TSV", "LTSV", "FIXED", "JSON", "JSONL"}
	paths := []string{"out", "stdout", "commit"}
	var specs []*e2eSpec
	add := func(s *e2eSpec, breakRate int) {
		if s.format == "TSV" {
			s.delim = '\t'
		}
		e2eGen(r, s, breakRate)
		if (s.format == "LTSV" || s.format == "JSON" || s.format == "JSONL" || ((s.format == "CSV" || s.format == "TSV" || s.format == "FIXED") && s.noHeader)) && len(s.rows) == 0 {
			// an empty record set has no spelling that keeps the header in LTSV/JSON/JSONL, and nothing is
			// written for it without header (DataEmpty): outside the property
			s.rows = append(s.rows, make([]*string, len(s.hdr)))
			for j := range s.rows[0] {
				s.rows[0][j] = sp("v")
			}
		}
		specs = append(specs, s)
	}
	reps := 3
	if tier == "thorough" {
		reps = 12
	}
	for rep := 0; rep < reps; rep++ {
		// the full grid: six formats x line breaks x enclose-all x without-header x strip; the path rotates
		k := rep
		for _, f := range formats {
			for _, lb := range c02LBs {
				for mask := 0; mask < 8; mask++ {
					enclose, noHeader, strip := mask&1 != 0, mask&2 != 0, mask&4 != 0
					if enclose && f != "CSV" && f != "TSV" {
						continue
					}
					if noHeader && (f == "LTSV" || f == "JSON" || f == "JSONL") {
						continue
					}
					k++
					s := &e2eSpec{format: f, path: paths[k%3], lb: lb, enclose: enclose, noHeader: noHeader, strip: strip, delim: ',', enc: "UTF8", explicit: true, stream: "e2e-grid"}
					if f == "CSV" && k%4 == 0 {
						s.delim = []rune{';', '|', ':'}[k%3]
					}
					add(s, 12)
				}
			}
		}
		// other encodings (end to end only), encodable text
		for _, enc := range []string{"SJIS", "UTF16", "UTF16LE", "UTF16BEM", "UTF8M"} {
			for _, f := range []string{"CSV", "TSV", "LTSV", "FIXED"} {
				k++
				add(&e2eSpec{format: f, path: paths[r.Intn(3)], lb: c02LBs[r.Intn(3)], strip: r.Intn(2) == 0, delim: ',', enc: enc, explicit: true, stream: "e2e-encoding"}, 0)
			}
		}
	}
	for _, s := range specs {
		// the committing process runs under another --line-break than the file's whenever the written file shows
		// its line break (two lines, or the appended one): COMMIT must keep the file's own
		s.lb2 = s.lb
		lines := len(s.rows)
		if !s.noHeader && s.format != "LTSV" {
			lines++
		}
		detects := s.format == "CSV" || s.format == "TSV" || s.format == "LTSV" || s.format == "FIXED" // the JSON loaders detect no line break
		if s.path == "commit" && detects && (lines >= 2 || !s.strip) {
			for k, l := range c02LBs {
				if l == s.lb {
					s.lb2 = c02LBs[(k+1)%3]
				}
			}
		}
		s.tags = e2eDefects(s, c.repaired)
		if s.stream == "e2e-grid" && len(s.tags) > 0 {
			s.stream = "e2e-tagged"
		}
	}
	results := make([]e2eResult, len(specs))
	var wg sync.WaitGroup
	sem := make(chan struct{}, 8)
	for i := range specs {
		wg.Add(1)
		go func(i int) {
			defer wg.Done()
			sem <- struct{}{}
			results[i] = runE2E(specs[i])
			<-sem
		}(i)
	}
	wg.Wait()
	fm := map[string]string{"CSV": "FCsv", "TSV": "FTsv", "LTSV": "FLtsv", "FIXED": "FFixed", "JSON": "FJson", "JSONL": "FJsonl"}
	for i, s := range specs {
		res := results[i]
		if s.refuse != "" {
			// "a cell the format cannot spell is refused with an error and nothing is written"
			c.meta.Evaluations++
			c.meta.Distribution["e2e-refusal:"+s.format+"/"+s.path]++
			cs := map[string]interface{}{"kind": "refusal", "format": s.format, "path": s.path, "why": s.refuse, "header": s.hdr, "rows": showCellRows(s.rows),
				"commands": res.log, "exit_code": res.writeCode, "stderr": res.writeStderr, "stdout_bytes": res.stdoutLen, "out_file_bytes": res.outFileLen}
			switch {
			case res.writeCode == 0:
				c.meta.Direct = append(c.meta.Direct, DirectViolation{Key: kFixedCrlf, What: s.format + ": " + s.refuse + " and the table was written without an error", Case: cs})
			case !strings.Contains(res.writeStderr, "data encode error"):
				c.meta.Direct = append(c.meta.Direct, DirectViolation{Key: "refusal-error-class", What: s.format + ": " + s.refuse + ": the refusal is not a data encode error: " + res.writeStderr, Case: cs})
			case res.stdoutLen > 0 || res.outFileLen > 0:
				c.meta.Direct = append(c.meta.Direct, DirectViolation{Key: kLtsvPartial, What: fmt.Sprintf("%s: %s: refused, but %d bytes reached stdout / %d bytes the --out file", s.format, s.refuse, res.stdoutLen, res.outFileLen), Case: cs})
			}
			continue
		}
		id := c.nextID()
		all := append([][]*string{}, s.rows...)
		if s.ins != nil {
			all = append(all, s.ins)
		}
		showRows := showCellRows(all)
		body := map[string]interface{}{"stream": s.stream, "format": s.format, "path": s.path, "line_break": s.lb.String(), "enclose_all": s.enclose,
			"without_header": s.noHeader, "strip_ending_line_break": s.strip, "delimiter": string(s.delim), "encoding": s.enc, "line_break_of_committing_process": s.lb2.String(),
			"header": s.hdr, "rows": showRows, "commands": res.log}
		after := res.after
		if res.writeErr != "" {
			after = c02Loaded{err: fmt.Errorf("write failed: %s", res.writeErr)}
		}
		body["re_imported"] = after.show()
		ebytes := "None"
		textual := s.format == "CSV" || s.format == "TSV" || s.format == "LTSV"
		if res.fileText != nil && textual {
			ebytes = "(Some " + coqStr(*res.fileText) + ")"
			body["file"] = *res.fileText
		}
		ecmp := textual && s.enc == "UTF8"
		var texts []string
		texts = append(texts, s.hdr...)
		for _, r := range all {
			for _, c := range r {
				if c != nil {
					texts = append(texts, *c)
				}
			}
		}
		nIns := 0
		if s.ins != nil {
			nIns = 1
		}
		sid := c.record(id, "end-to-end", s.tags, body)
		obs := "OErr"
		if after.err == nil {
			obs = fmt.Sprintf("(OTab %s None false)", coqTable(after.hdr, after.rows))
		}
		c.w.add("ecases:ecase", fmt.Sprintf("mkE %d %d %s %s %s\n   %s\n   %s\n   %s %s %s %s %d%%nat %s %s %s %s", id, sid, fm[s.format], coqBool(s.enclose), coqBool(s.noHeader),
			coqTable(s.hdr, all), obs, ebytes, coqLB(s.lb), coqRune(s.delim), coqBool(s.strip), nIns, coqBool(c.repaired), c02Letters(texts...), coqBool(ecmp), coqLB(s.lb2)))
		c.meta.Distribution["e2e:"+s.format+"/"+s.path]++
		c.meta.Distribution["e2e-encoding:"+s.enc]++
		if after.err != nil {
			c.meta.Distribution["e2e:re-import-error"]++
		}
		if len(s.tags) == 0 && len(all) > 0 {
			c.sig[fmt.Sprintf("e|%s|%s|%v|%v|%v|%v", s.format, s.lb, s.enclose, s.noHeader, s.strip, showRows)] = true
		}
		if len(c.meta.Samples) < 6 && len(s.tags) == 0 && len(all) >= 2 && s.format == "FIXED" {
			c.meta.Samples = append(c.meta.Samples, body)
		}
	}
	c.refusals()
	c.commitRetry()
	c.largeTables(tier)
	c.encodingPaths(tier)
}

// refusals: "a cell the format cannot spell is refused with an error and nothing is written".  LTSV values with a
// TAB and fixed-length values with a line break or too long for their field are refused while the records are
// encoded; nothing may reach the --out file / stdout, whether the refusal comes in the first record or after
// several buffers of output; an INSERT + COMMIT of such a value must leave the committed file unchanged.
// tables larger than the loaders' buffers (the record set is re-allocated when record 301 arrives, and again
// later): a file written by csvq from N generated records must load back with exactly those N records, in
// order, and an INSERT + COMMIT by a second process must leave N + 1 records
func (c *c02Run) largeTables(tier string) {
	sizes := []int{299, 300, 301, 302, 450, 601, 1000}
	if tier == "thorough" {
		sizes = append(sizes, 150, 151, 599, 600, 900, 901, 2500, 10001)
	}
	to := 60 * time.Second
	for _, format := range []string{"CSV", "TSV", "LTSV", "JSONL"} {
		for _, n := range sizes {
			sc := newScratch()
			rows := make([][]*string, n)
			for i := range rows {
				rows[i] = []*string{sp(fmt.Sprint(i)), sp(fmt.Sprintf("v%d", (i*7919)%1000))}
			}
			writeCSV(sc.Path("src.csv"), []string{"k", "v"}, rows)
			ext := map[string]string{"CSV": "csv", "TSV": "tsv", "LTSV": "ltsv", "FIXED": "txt", "JSONL": "jsonl"}[format]
			out := "big." + ext
			w := runCsvq(sc.Dir, []string{"--repository", sc.Dir, "--quiet", "-f", format, "--out", out, "SELECT k, v FROM src"}, "", to)
			cs := map[string]interface{}{"kind": "large-table", "format": format, "records": n}
			c.meta.Evaluations++
			c.meta.Distribution["e2e-large:"+format]++
			fail := func(what string) {
				c.meta.Direct = append(c.meta.Direct, DirectViolation{Key: "large-table", What: fmt.Sprintf("%s table of %d records: %s", format, n, what), Case: cs})
			}
			if w.Code != 0 {
				fail("writing failed: " + strings.TrimSpace(w.Stderr))
				sc.Close()
				continue
			}
			read := func() (int, string, string) {
				r := runCsvq(sc.Dir, []string{"--repository", sc.Dir, "--quiet", "-f", "CSV", "SELECT COUNT(*), MIN(INTEGER(k)), MAX(INTEGER(k)), SUM(INTEGER(k)) FROM `" + out + "`"}, "", to)
				f := r.Stdout
				first := runCsvq(sc.Dir, []string{"--repository", sc.Dir, "--quiet", "-f", "CSV", "SELECT k, v FROM `" + out + "` LIMIT 1"}, "", to)
				return r.Code, strings.TrimSpace(f), strings.TrimSpace(first.Stdout) + strings.TrimSpace(r.Stderr)
			}
			want := func(m int, extra int) string {
				sum := (n - 1) * n / 2
				mx := n - 1
				if extra >= 0 {
					sum += extra
					if extra > mx {
						mx = extra
					}
				}
				return fmt.Sprintf("%d,0,%d,%d", m, mx, sum)
			}
			code, got, first := read()
			cs["count_min_max_sum"] = got
			if code != 0 || !strings.HasSuffix(got, want(n, -1)) {
				fail(fmt.Sprintf("re-import gives COUNT,MIN,MAX,SUM of the key = %q, expected %s (first record: %s)", got, want(n, -1), first))
			} else if !strings.Contains(first, "0,v0") {
				fail("the first record after re-import is not the first record written: " + first)
			}
			ins := runCsvq(sc.Dir, []string{"--repository", sc.Dir, "--quiet", "INSERT INTO `" + out + "` VALUES (1000000, 'last')"}, "", to)
			code, got, _ = read()
			cs["after_insert"] = got
			if ins.Code != 0 || code != 0 || !strings.HasSuffix(got, want(n+1, 1000000)) {
				fail(fmt.Sprintf("after INSERT + COMMIT by a second process the file holds COUNT,MIN,MAX,SUM = %q, expected %s (%s)", got, want(n+1, 1000000), strings.TrimSpace(ins.Stderr)))
			}
			sc.Close()
		}
	}
}

func (c *c02Run) refusals() {
	type scen struct {
		format, what, bad string
		args              []string // format-specific write options
		key               string
	}
	scens := []scen{
		{"LTSV", "value with TAB", "bad\tvalue", nil, "unspellable-accepted"},
		{"FIXED", "value with LF", "bad\nvalue", nil, kFixedCrlf},
		{"FIXED", "value with CR", "bad\rvalue", []string{"--write-delimiter-positions", "[40,42]"}, kFixedCrlf},
		{"FIXED", "value too long for its field", strings.Repeat("L", 60), []string{"--write-delimiter-positions", "[40,42]"}, "unspellable-accepted"},
	}
	to := 20 * time.Second
	for _, sn := range scens {
		for _, late := range []bool{false, true} {
			for _, path := range []string{"out", "stdout"} {
				sc := newScratch()
				n := 3
				if late {
					n = 400
				}
				rows := make([][]*string, n)
				for i := range rows {
					rows[i] = []*string{sp(fmt.Sprintf("value%05d-%s", i, strings.Repeat("x", 24))), sp("y"), sp("g")}
				}
				bad := 0
				if late {
					bad = n - 1
				}
				rows[bad][0] = sp(sn.bad)
				writeCSV(sc.Path("src.csv"), []string{"k1", "k2", "zz"}, rows)
				args := append([]string{"--repository", sc.Dir, "--quiet", "-f", sn.format}, sn.args...)
				if path == "out" {
					args = append(args, "--out", "out.dat")
				}
				args = append(args, "SELECT k1, k2 FROM src")
				r := runCsvq(sc.Dir, args, "", to)
				b, _ := os.ReadFile(sc.Path("out.dat"))
				sc.Close()
				left := len(b) + len(r.Stdout)
				c.meta.Evaluations++
				c.meta.Distribution[fmt.Sprintf("e2e-refusal:%s/%s/late=%v", sn.format, path, late)]++
				cs := map[string]interface{}{"kind": "refusal", "format": sn.format, "what": sn.what, "records": n, "unspellable_record": bad, "command": "csvq " + strings.Join(args, " "),
					"exit_code": r.Code, "stderr": strings.TrimSpace(r.Stderr), "bytes_in_out_file": len(b), "bytes_on_stdout": len(r.Stdout)}
				switch {
				case r.Code == 0:
					c.meta.Direct = append(c.meta.Direct, DirectViolation{Key: sn.key, What: sn.format + " " + sn.what + " was written without an error", Case: cs})
				case !strings.Contains(r.Stderr, "data encode error"):
					c.meta.Direct = append(c.meta.Direct, DirectViolation{Key: "refusal-error-class", What: sn.format + " " + sn.what + ": the refusal is not a data encode error: " + strings.TrimSpace(r.Stderr), Case: cs})
				case left > 0:
					c.meta.Direct = append(c.meta.Direct, DirectViolation{Key: kLtsvPartial, What: fmt.Sprintf("%s %s refused in record %d of %d, but %d bytes were written (nothing should be)", sn.format, sn.what, bad+1, n, left), Case: cs})
				}
			}
		}
		// INSERT + COMMIT of the unspellable value into an existing file: refused, the committed file unchanged
		sc := newScratch()
		rows := [][]*string{{sp("v1"), sp("y"), sp("g")}, {sp("v2"), sp("z"), sp("g")}}
		writeCSV(sc.Path("src.csv"), []string{"k1", "k2", "zz"}, rows)
		wargs := append([]string{"--repository", sc.Dir, "--quiet", "-f", sn.format}, sn.args...)
		r0 := runCsvq(sc.Dir, append(wargs, "--out", "out.dat", "SELECT k1, k2 FROM src"), "", to)
		before, _ := os.ReadFile(sc.Path("out.dat"))
		iargs := []string{"--repository", sc.Dir, "--quiet", "-i", sn.format}
		if len(sn.args) > 0 {
			iargs = append(iargs, "--delimiter-positions", sn.args[1])
		}
		q := "INSERT INTO `out.dat` VALUES (" + sqlLit(sp(sn.bad)) + ", 'w')"
		r := runCsvq(sc.Dir, append(iargs, q), "", to)
		after, _ := os.ReadFile(sc.Path("out.dat"))
		sc.Close()
		c.meta.Evaluations++
		c.meta.Distribution["e2e-refusal:"+sn.format+"/commit"]++
		cs := map[string]interface{}{"kind": "refusal-commit", "format": sn.format, "what": sn.what, "statement": q, "setup_exit_code": r0.Code,
			"exit_code": r.Code, "stderr": strings.TrimSpace(r.Stderr), "file_before": string(before), "file_after": string(after)}
		switch {
		case r0.Code != 0 || len(before) == 0:
			c.meta.Direct = append(c.meta.Direct, DirectViolation{Key: "harness-setup", What: "refusal scenario: the file to update could not be written: " + strings.TrimSpace(r0.Stderr), Case: cs})
		case r.Code == 0:
			c.meta.Direct = append(c.meta.Direct, DirectViolation{Key: sn.key, What: sn.format + " " + sn.what + " was INSERTed and committed without an error", Case: cs})
		case string(before) != string(after):
			c.meta.Direct = append(c.meta.Direct, DirectViolation{Key: "refused-commit-changed-file", What: sn.format + " " + sn.what + ": the COMMIT was refused but the file changed", Case: cs})
		}
	}
}
