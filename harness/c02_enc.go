package main

// C02 end to end, encodings: "an updated file keeps its delimiter, encoding, line break and header convention".
// For every path of the loaders' encoding sniffing (text.DetectInSpecifiedEncoding as called by the CSV/TSV,
// LTSV and fixed-length loaders: AUTO, UTF8 with/without BOM, the generic UTF16 = "BOM decides, big endian
// without", the explicit encodings) x CSV/TSV/LTSV/FIXED: the file is produced by the encoders in this file
// (independent of csvq and go-text), a second csvq process runs UPDATE (or INSERT) + COMMIT with the generic
// import setting, and the BYTES of the rewritten file are examined: same BOM presence, same byte order / encoding
// (decoded by the decoders in this file), and the decoded text is the updated table.  A third process reports the
// resolved encoding through SHOW FIELDS.

import (
	"bytes"
	"fmt"
	"os"
	"strings"
	"sync"
	"time"
	"unicode/utf16"
	"unicode/utf8"
)

const (
	kEncChanged   = "encoding-not-preserved" // a rewritten file changed BOM / byte order / encoding / content
	kEncDetection = "encoding-detection"     // SHOW FIELDS reports another encoding than the sniffing rules resolve to
)

// ---- own codecs ------------------------------------------------------------------------------------------
var sjisTable = map[rune][]byte{'日': {0x93, 0xfa}, '本': {0x96, 0x7b}, 'あ': {0x82, 0xa0}, 'ｱ': {0xb1}}

type encSpec struct {
	base string // UTF8 | UTF16LE | UTF16BE | SJIS
	bom  bool
}

func (e encSpec) bomBytes() []byte {
	if !e.bom {
		return nil
	}
	switch e.base {
	case "UTF8":
		return []byte{0xef, 0xbb, 0xbf}
	case "UTF16LE":
		return []byte{0xff, 0xfe}
	case "UTF16BE":
		return []byte{0xfe, 0xff}
	}
	return nil
}

func (e encSpec) encode(s string) []byte {
	out := append([]byte{}, e.bomBytes()...)
	switch e.base {
	case "UTF8":
		out = append(out, s...)
	case "UTF16LE", "UTF16BE":
		for _, u := range utf16.Encode([]rune(s)) {
			if e.base == "UTF16LE" {
				out = append(out, byte(u), byte(u>>8))
			} else {
				out = append(out, byte(u>>8), byte(u))
			}
		}
	case "SJIS":
		for _, r := range s {
			if r < 0x80 {
				out = append(out, byte(r))
			} else if b, ok := sjisTable[r]; ok {
				out = append(out, b...)
			} else {
				panic(fmt.Sprintf("harness: %q is not in the SJIS mini table", r))
			}
		}
	}
	return out
}

// decode is strict: it answers ok=false for a missing/unexpected BOM, odd lengths, lone surrogates, invalid bytes
func (e encSpec) decode(b []byte) (string, string) {
	for _, bm := range [][]byte{{0xef, 0xbb, 0xbf}, {0xff, 0xfe}, {0xfe, 0xff}} {
		if bytes.HasPrefix(b, bm) && !bytes.Equal(bm, e.bomBytes()) {
			return "", fmt.Sprintf("the file starts with the byte order mark % x, the original had %s", bm, e.describeBOM())
		}
	}
	if e.bom {
		if !bytes.HasPrefix(b, e.bomBytes()) {
			return "", fmt.Sprintf("the byte order mark % x is gone", e.bomBytes())
		}
		b = b[len(e.bomBytes()):]
	}
	switch e.base {
	case "UTF8":
		if !utf8.Valid(b) {
			return "", "not valid UTF-8"
		}
		return string(b), ""
	case "UTF16LE", "UTF16BE":
		if len(b)%2 != 0 {
			return "", fmt.Sprintf("odd number of bytes (%d) in a UTF-16 file", len(b))
		}
		us := make([]uint16, len(b)/2)
		for i := range us {
			if e.base == "UTF16LE" {
				us[i] = uint16(b[2*i]) | uint16(b[2*i+1])<<8
			} else {
				us[i] = uint16(b[2*i])<<8 | uint16(b[2*i+1])
			}
		}
		rs := utf16.Decode(us)
		for _, r := range rs {
			if r == 0xfffd {
				return "", "lone surrogate in UTF-16 data"
			}
		}
		return string(rs), ""
	case "SJIS":
		var sb strings.Builder
		for i := 0; i < len(b); {
			if b[i] < 0x80 {
				sb.WriteByte(b[i])
				i++
				continue
			}
			found := false
			for r, enc := range sjisTable {
				if bytes.HasPrefix(b[i:], enc) {
					sb.WriteRune(r)
					i += len(enc)
					found = true
					break
				}
			}
			if !found {
				return "", fmt.Sprintf("byte %#x at %d is not Shift-JIS text of the mini table", b[i], i)
			}
		}
		return sb.String(), ""
	}
	return "", "?"
}

func (e encSpec) describeBOM() string {
	if e.bom {
		return fmt.Sprintf("% x", e.bomBytes())
	}
	return "none"
}

func (e encSpec) flipped() (encSpec, bool) {
	switch e.base {
	case "UTF16LE":
		return encSpec{"UTF16BE", false}, true
	case "UTF16BE":
		return encSpec{"UTF16LE", false}, true
	}
	return e, false
}

func (e encSpec) name() string {
	if e.bom {
		return e.base + "+BOM"
	}
	return e.base
}

// size in bytes of s in the encoding (for fixed-length positions)
func (e encSpec) size(s string) int { return len(encSpec{e.base, false}.encode(s)) }

// ---- detection paths ----------------------------------------------------------------------------------------
type encPath struct {
	setting string  // --encoding of the second process
	file    encSpec // how the file really is encoded
	resolve string  // what the sniffing rules resolve the setting to (SHOW FIELDS)
}

var encPaths = []encPath{
	{"AUTO", encSpec{"UTF8", false}, "UTF8"}, {"AUTO", encSpec{"UTF8", true}, "UTF8M"},
	{"AUTO", encSpec{"UTF16LE", true}, "UTF16LEM"}, {"AUTO", encSpec{"UTF16BE", true}, "UTF16BEM"},
	{"AUTO", encSpec{"UTF16LE", false}, "UTF16LE"}, {"AUTO", encSpec{"UTF16BE", false}, "UTF16BE"},
	{"AUTO", encSpec{"SJIS", false}, "SJIS"},
	{"UTF8", encSpec{"UTF8", false}, "UTF8"}, {"UTF8", encSpec{"UTF8", true}, "UTF8M"},
	{"UTF16", encSpec{"UTF16LE", true}, "UTF16LEM"}, {"UTF16", encSpec{"UTF16BE", true}, "UTF16BEM"},
	{"UTF16", encSpec{"UTF16BE", false}, "UTF16BE"},
	{"UTF8M", encSpec{"UTF8", true}, "UTF8M"},
	{"UTF16LE", encSpec{"UTF16LE", false}, "UTF16LE"}, {"UTF16BE", encSpec{"UTF16BE", false}, "UTF16BE"},
	{"UTF16LEM", encSpec{"UTF16LE", true}, "UTF16LEM"}, {"UTF16BEM", encSpec{"UTF16BE", true}, "UTF16BEM"},
	{"SJIS", encSpec{"SJIS", false}, "SJIS"},
}

type encScenario struct {
	path   encPath
	format string // CSV TSV LTSV FIXED
	op     string // update | insert
	strip  bool
}

type encOutcome struct {
	cmds      []string
	problems  []string // unknown-key violations
	rawTail   string   // the finding utf16-final-line-break (fixed in 621cb1c) is back
	showField string
}

// the text of a table in a format: simple cells, no quoting needed; fixed-length packed by byte positions
func encTableText(format string, e encSpec, hdr []string, rows [][]string, widths []int) string {
	var lines []string
	switch format {
	case "CSV", "TSV":
		d := ","
		if format == "TSV" {
			d = "\t"
		}
		lines = append(lines, strings.Join(hdr, d))
		for _, r := range rows {
			lines = append(lines, strings.Join(r, d))
		}
	case "LTSV":
		for _, r := range rows {
			fs := make([]string, len(r))
			for j := range r {
				fs[j] = hdr[j] + ":" + r[j]
			}
			lines = append(lines, strings.Join(fs, "\t"))
		}
	case "FIXED":
		pad := func(r []string) string {
			var sb strings.Builder
			for j, c := range r {
				sb.WriteString(c)
				sb.WriteString(strings.Repeat(" ", widths[j]-e.size(c)))
			}
			return sb.String()
		}
		lines = append(lines, pad(hdr))
		for _, r := range rows {
			lines = append(lines, pad(r))
		}
	}
	return strings.Join(lines, "\n")
}

func runEncScenario(s encScenario) encOutcome {
	out := encOutcome{}
	sc := newScratch()
	defer sc.Close()
	e := s.path.file
	hdr := []string{"h1", "h2"}
	rows := [][]string{{"a1", "é日"}, {"b2", "x𝄞"}, {"c3", "pq"}, {"d4", "abcdefgh"}}
	if e.base == "SJIS" {
		rows = [][]string{{"a1", "日本"}, {"b2", "ｱあ"}, {"c3", "pq"}, {"d4", "abcdefgh"}}
	}
	if s.format == "FIXED" && strings.HasPrefix(e.base, "UTF16") {
		// no padding at all in UTF-16 (known finding fixed-utf16-padding): every cell of a column has the same size
		rows = [][]string{{"a1", "é日"}, {"b2", "xy"}, {"c3", "pq"}, {"d4", "ab"}}
	}
	widths := make([]int, 2)
	all := append([][]string{hdr, {"zz", "zz"}, {"e5", "ww"}}, rows...)
	for _, r := range all {
		for j, c := range r {
			if n := e.size(c); n > widths[j] {
				widths[j] = n
			}
		}
	}
	ext := map[string]string{"CSV": "csv", "TSV": "tsv", "LTSV": "ltsv", "FIXED": "txt"}[s.format]
	name := "t." + ext
	before := encTableText(s.format, e, hdr, rows, widths)
	if err := os.WriteFile(sc.Path(name), e.encode(before), 0644); err != nil {
		panic(err)
	}
	after := make([][]string, len(rows))
	for i, r := range rows {
		after[i] = append([]string{}, r...)
	}
	var q string
	if s.op == "update" {
		after[0][1] = "zz"
		q = "UPDATE `" + name + "` SET h2 = 'zz' WHERE h1 = 'a1'"
	} else {
		after = append(after, []string{"e5", "ww"})
		q = "INSERT INTO `" + name + "` VALUES ('e5', 'ww')"
	}
	want := encTableText(s.format, e, hdr, after, widths)
	base := []string{"--repository", sc.Dir, "--timezone", "UTC", "-i", s.format, "--encoding", s.path.setting}
	if s.format == "FIXED" {
		base = append(base, "--delimiter-positions", fmt.Sprintf("[%d,%d]", widths[0], widths[0]+widths[1]))
	}
	to := 20 * time.Second
	// what the loader resolves the encoding to
	a := append(append([]string{}, base...), "SHOW FIELDS FROM `"+name+"`")
	r := runCsvq(sc.Dir, a, "", to)
	out.cmds = append(out.cmds, "csvq "+strings.Join(a, " "))
	for _, f := range strings.Fields(strings.ReplaceAll(r.Stdout, "Encoding:", "Encoding: ")) {
		if out.showField == "next" {
			out.showField = f
			break
		}
		if f == "Encoding:" {
			out.showField = "next"
		}
	}
	if r.Code != 0 || out.showField != s.path.resolve {
		out.problems = append(out.problems, fmt.Sprintf("SHOW FIELDS reports encoding %q (exit %d %s), the sniffing rules resolve --encoding %s on a %s file to %s",
			out.showField, r.Code, strings.TrimSpace(r.Stderr), s.path.setting, e.name(), s.path.resolve))
	}
	// second process: update + commit
	a = append(append([]string{}, base...), "--quiet")
	if s.strip {
		a = append(a, "--strip-ending-line-break")
	}
	a = append(a, q)
	r = runCsvq(sc.Dir, a, "", to)
	out.cmds = append(out.cmds, "csvq "+strings.Join(a, " "))
	if r.Code != 0 || r.TimedOut {
		out.problems = append(out.problems, fmt.Sprintf("%s failed: exit %d: %s", s.op, r.Code, strings.TrimSpace(r.Stderr)))
		return out
	}
	got, err := os.ReadFile(sc.Path(name))
	if err != nil {
		out.problems = append(out.problems, "the file is gone after COMMIT")
		return out
	}
	if !s.strip {
		// the appended line break must be written in the file's encoding (EncodeEndingLineBreak, 621cb1c)
		want += "\n"
		if bytes.Equal(got, append(e.encode(strings.TrimSuffix(want, "\n")), '\n')) && strings.HasPrefix(e.base, "UTF16") {
			out.rawTail = fmt.Sprintf("%s %s file after %s+COMMIT ends with the raw byte 0a instead of a UTF-16 line break", s.format, e.name(), s.op)
			return out
		}
	}
	text, why := e.decode(got)
	switch {
	case why != "":
		msg := why
		if fe, ok := e.flipped(); ok {
			if t2, w2 := fe.decode(got); w2 == "" && t2 == want {
				msg = fmt.Sprintf("the byte order flipped to %s and %s", fe.base, why)
			}
		}
		out.problems = append(out.problems, fmt.Sprintf("%s file (%s, imported with --encoding %s) after %s+COMMIT: %s; first bytes % x", s.format, e.name(), s.path.setting, s.op, msg, got[:c02min(len(got), 12)]))
	case text != want:
		out.problems = append(out.problems, fmt.Sprintf("%s file (%s, --encoding %s) after %s+COMMIT decodes to %q, expected %q", s.format, e.name(), s.path.setting, s.op, text, want))
	}
	return out
}

func c02min(a, b int) int {
	if a < b {
		return a
	}
	return b
}

func (c *c02Run) encodingPaths(tier string) {
	var scs []encScenario
	k := 0
	for _, p := range encPaths {
		for _, f := range []string{"CSV", "TSV", "LTSV", "FIXED"} {
			k++
			ops := []string{[]string{"update", "insert"}[k%2]}
			if tier == "thorough" {
				ops = []string{"update", "insert"}
			}
			for _, op := range ops {
				scs = append(scs, encScenario{path: p, format: f, op: op, strip: true})
			}
			// with the appended line break (separately keyed known finding for UTF-16)
			if f == "CSV" || tier == "thorough" {
				scs = append(scs, encScenario{path: p, format: f, op: "update", strip: false})
			}
		}
	}
	outs := make([]encOutcome, len(scs))
	var wg sync.WaitGroup
	sem := make(chan struct{}, 8)
	for i := range scs {
		wg.Add(1)
		go func(i int) {
			defer wg.Done()
			sem <- struct{}{}
			outs[i] = runEncScenario(scs[i])
			<-sem
		}(i)
	}
	wg.Wait()
	for i, s := range scs {
		o := outs[i]
		c.meta.Evaluations++
		c.meta.Distribution["e2e-encoding-path:"+s.path.setting+"->"+s.path.resolve]++
		c.meta.Distribution["e2e-encoding-path-format:"+s.format+"/"+s.op]++
		cs := map[string]interface{}{"kind": "encoding-path", "format": s.format, "import_encoding": s.path.setting, "file_encoding": s.path.file.name(),
			"resolves_to": s.path.resolve, "operation": s.op, "strip_ending_line_break": s.strip, "show_fields_encoding": o.showField, "commands": o.cmds}
		if len(o.problems) == 0 && o.rawTail == "" {
			c.sig[fmt.Sprintf("enc|%s|%s|%s|%s|%v", s.path.setting, s.path.file.name(), s.format, s.op, s.strip)] = true
		}
		for _, p := range o.problems {
			key := kEncChanged
			if strings.HasPrefix(p, "SHOW FIELDS") {
				key = kEncDetection
			}
			c.meta.Direct = append(c.meta.Direct, DirectViolation{Key: key, What: p, Case: cs})
		}
		if o.rawTail != "" {
			c.meta.Direct = append(c.meta.Direct, DirectViolation{Key: kUtf16Final, What: o.rawTail, Case: cs})
		}
	}
}
