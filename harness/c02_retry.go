package main

// C02, a COMMIT given again after a refused one: in one session several tables are changed, one of them
// holds a value its format cannot spell, so COMMIT is refused after some of the other files were already
// rewritten; the value is corrected and COMMIT is given again (what a user of the interactive shell does).
// A new session must then read back, from every file, exactly what the session last saw.

import (
	"context"
	"fmt"
	"os"

	"github.com/mithrandie/csvq/lib/parser"
	"github.com/mithrandie/csvq/lib/query"
)

func (c *c02Run) commitRetry() {
	ctx := context.Background()
	for round := 0; round < 6; round++ {
		sc := newScratch()
		ltsv := "code:1\tname:one\ncode:2\tname:two\n"
		_ = os.WriteFile(sc.Path("codes.ltsv"), []byte(ltsv), 0644)
		names := []string{"a.csv", "b.tsv", "d.csv"}
		for i, n := range names {
			sep := ","
			if n == "b.tsv" {
				sep = "\t"
			}
			body := "id" + sep + "label\n"
			for r := 0; r < 3+2*i+round; r++ {
				body += fmt.Sprintf("%d%sold label number %d of table %d\n", r+1, sep, r+1, i)
			}
			_ = os.WriteFile(sc.Path(n), []byte(body), 0644)
		}
		tx := newTx(sc.Dir)
		proc := query.NewProcessor(tx)
		exec := func(sql string) error {
			stmts, _, err := parser.Parse(sql, "", false, false)
			if err != nil {
				panic("harness: statement does not parse: " + sql + ": " + err.Error())
			}
			for _, st := range stmts {
				if _, err := proc.ExecuteStatement(ctx, st); err != nil {
					return err
				}
			}
			return nil
		}
		var hist []string
		step := func(sql string, wantErr bool) bool {
			err := exec(sql)
			hist = append(hist, fmt.Sprintf("%s  =>  %v", sql, err))
			if (err != nil) != wantErr {
				c.meta.Direct = append(c.meta.Direct, DirectViolation{Key: "commit-retry-unexpected", What: fmt.Sprintf("commit-retry session: %q: error %v, expected an error: %v", sql, err, wantErr), Case: hist})
				return false
			}
			return true
		}
		ok := step("CREATE TABLE `items.csv` (id, label); INSERT INTO `items.csv` VALUES ('1', 'first item'), ('2', 'second, with a comma'), ('3', 'third')", false)
		for _, n := range names {
			ok = ok && step("UPDATE `"+n+"` SET label = 'x' WHERE id = 2", false) // shorter than before: the rewritten file shrinks
		}
		ok = ok && step("UPDATE `codes.ltsv` SET name = 'on\\te' WHERE code = '1'", false)
		ok = ok && step("COMMIT", true)
		if ok {
			if raw, _ := os.ReadFile(sc.Path("codes.ltsv")); string(raw) != ltsv {
				c.meta.Direct = append(c.meta.Direct, DirectViolation{Key: "refused-commit-changed-file", What: fmt.Sprintf("the refused COMMIT changed codes.ltsv: %q", raw), Case: hist})
			}
		}
		ok = ok && step("UPDATE `codes.ltsv` SET name = 'uno' WHERE code = '1'", false)
		all := append([]string{"items.csv", "codes.ltsv"}, names...)
		last := map[string][][]string{}
		if ok {
			for _, n := range all {
				v, err := selectViewIn(proc.ReferenceScope, "SELECT * FROM `"+n+"`")
				if err != nil {
					panic("harness: cannot read " + n + " inside the session: " + err.Error())
				}
				last[n] = showValRows(viewRows(v))
			}
		}
		ok = ok && step("COMMIT", false)
		_ = tx.ReleaseResources()
		if ok {
			tx2 := newTx(sc.Dir)
			for _, n := range all {
				v, err := selectView(tx2, "SELECT * FROM `"+n+"`")
				if err != nil {
					raw, _ := os.ReadFile(sc.Path(n))
					if len(raw) > 120 {
						raw = raw[:120]
					}
					c.meta.Direct = append(c.meta.Direct, DirectViolation{Key: "commit-retry-roundtrip", What: fmt.Sprintf("after a refused COMMIT, a correction and a second COMMIT, %s cannot be read back: %v (file starts %q)", n, err, raw), Case: hist})
					continue
				}
				if got := showValRows(viewRows(v)); fmt.Sprint(got) != fmt.Sprint(last[n]) {
					c.meta.Direct = append(c.meta.Direct, DirectViolation{Key: "commit-retry-roundtrip", What: fmt.Sprintf("after a refused COMMIT, a correction and a second COMMIT, %s reads back as %v, the session last saw %v", n, got, last[n]), Case: hist})
				}
			}
			_ = tx2.ReleaseResources()
		}
		c.meta.Evaluations++
		c.meta.Distribution["commit-retry-session"]++
		sc.Close()
	}
}
