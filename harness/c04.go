package main

// C04: bucketing by value equality.  Two streams: (i) query.SerializeComparisonKeys called directly on
// tuples over an adversarial alphabet, (ii) GROUP BY / DISTINCT / set operators / aggregates through SQL
// (cquery.go, profile "C04").

import (
	"bytes"
	"fmt"
	"math"
	"math/rand"
	"strconv"
	"strings"

	"github.com/mithrandie/csvq/lib/query"
	"github.com/mithrandie/csvq/lib/value"
	"github.com/mithrandie/ternary"
)

func init() { runners["C04"] = runC04 }

var c04Texts = []string{"x", "X", " x", "x ", "x:y", "x:[S]y", "y:[S]z", "z", "y", "[S]x", "x:", ":x", "\\", "\\:", "x\\", "x\\:y", "a:b:c", "[I]1", "[N]", "1:[I]2", "",
	"1", " 1 ", "01", "+1", "1.0", "1.50", "1.5", "-0", "0", "0.0", "true", "TRUE", "t", "false", "2012-02-03", "2012-02-03 00:00:00", "2012/02/03", " 2012-02-03", "2012-02-03 ", "2012-2-3", "NaN", "nan", "inf", "あ:い", "à", "À", "abc", "ABC", "Abc ",
	"9223372036854775807", "9223372036854775808", "1e2", "100", "100.0"}

func c04Val(r *rand.Rand) value.Primary {
	switch r.Intn(12) {
	case 0:
		return value.NewNull()
	case 1:
		return value.NewInteger([]int64{0, 1, -1, 2, 100, math.MaxInt64, math.MinInt64}[r.Intn(7)])
	case 2:
		return value.NewFloat([]float64{0, math.Copysign(0, -1), 1, 1.5, -1.5, 100, math.NaN(), math.Inf(1), math.Inf(-1), 1e21, 1e-7, 0.1}[r.Intn(12)])
	case 3:
		return value.NewBoolean(r.Intn(2) == 0)
	case 4:
		return value.NewTernary([]ternary.Value{ternary.TRUE, ternary.FALSE, ternary.UNKNOWN}[r.Intn(3)])
	case 5:
		// also datetimes outside the years 1678..2262, where UnixNano is not defined (finding
		// datetime-key-beyond-int64-nanos, fixed: the key holds the exact nanoseconds)
		return value.NewDatetime(c06Times[r.Intn(len(c06Times))])
	default:
		return value.NewString(c04Texts[r.Intn(len(c04Texts))])
	}
}

func runC04(seed int64, tier string, out string) {
	// stream (ii): SQL
	runQueryProp("C04", seed, tier, out)
	// re-open the meta written by the SQL stream and add the key stream to it
	meta := readMeta(out)
	meta.Rule += " PLUS direct key batches: 8-24 tuples of 1-3 values over an adversarial alphabet (the separator ':', the tags [S] [I] [N], backslashes, values equal across types such as 1 / '1' / ' 1 ' / 1.0 / true, case and padding variants, -0, NaN, NULL, UNKNOWN) serialized by query.SerializeComparisonKeys with and without --strict-equal; every key string is compared with Model.Key.ser_keys and the batch is checked for bucket identity (same key iff equal normal forms) on the observed strings."
	r := rand.New(rand.NewSource(seed ^ 0x4b45))
	nBatches := 150
	if tier == "thorough" {
		nBatches = 2500
	}
	tx := newTx("")
	header := "From Coq Require Import ZArith NArith List Floats.\nRequire Import Csvq.Model.Base Csvq.Model.Value Csvq.Model.Key Csvq.Harness.H04.\nOpen Scope list_scope.\n"
	var cases []string
	shardN := 0
	flush := func() {
		if len(cases) == 0 {
			return
		}
		name := fmt.Sprintf("cases_C04_keys_%d.v", shardN)
		writeFile(out, name, header+"Definition kcases : list kcase := [\n "+strings.Join(cases, ";\n ")+"\n].\nDefinition M := Eval vm_compute in (check_keys kcases).\nPrint M.\n")
		meta.Shards = append(meta.Shards, name)
		shardN++
		cases = nil
	}
	distinctKeys := map[string]bool{}
	for b := 0; b < nBatches; b++ {
		id := 1000000 + b
		strict := r.Intn(3) == 0
		tx.Flags.SetStrictEqual(strict)
		width := 1 + r.Intn(3)
		n := 8 + r.Intn(17)
		var tuples, obs, show []string
		ffmt := map[uint64]string{}
		var ffl []string
		for i := 0; i < n; i++ {
			vals := make([]value.Primary, width)
			cv := make([]string, width)
			sv := make([]string, width)
			for j := range vals {
				vals[j] = c04Val(r)
				cv[j] = coqVal(vals[j])
				sv[j] = showVal(vals[j])
				// floats that the key can contain: the value itself or the float reading of a text
				if f := value.ToFloat(vals[j]); !value.IsNull(f) {
					fv := f.(*value.Float).Raw()
					bits := math.Float64bits(fv)
					if math.IsNaN(fv) {
						bits = 0x7ff8000000000001
					}
					if _, ok := ffmt[bits]; !ok {
						ffmt[bits] = strconv.FormatFloat(fv, 'f', -1, 64)
						ffl = append(ffl, "("+coqFloat(fv)+", "+coqStr(ffmt[bits])+")")
					}
				}
			}
			buf := &bytes.Buffer{}
			query.SerializeComparisonKeys(buf, vals, tx.Flags)
			key := buf.String()
			tuples = append(tuples, coqList(cv))
			obs = append(obs, coqStr(key))
			show = append(show, fmt.Sprintf("%v -> %q", sv, key))
			distinctKeys[key] = true
		}
		cases = append(cases, fmt.Sprintf("mkK %s %s %s %s %s", coqN(id), coqBool(strict), coqList(tuples), coqList(obs), coqList(ffl)))
		c := map[string]interface{}{"kind": "key-batch", "strict_equal": strict, "tuples -> observed key": show}
		meta.Cases[fmt.Sprint(id)] = c
		if b == 7 {
			meta.Samples = append(meta.Samples, c)
		}
		meta.Evaluations++
		meta.Distribution[fmt.Sprintf("key-batch:width=%d,strict=%v", width, strict)]++
		if len(cases) >= 400 {
			flush()
		}
	}
	flush()
	meta.Distinct += len(distinctKeys)
	meta.Rule += " PLUS bucket members: tables with a row-number column; for generated GROUP BY keys (columns and expressions, with and without --strict-equal, --cpu 1 and 4, tables of 2-15 and 170-370 rows) LISTAGG of the row number gives the members of every bucket, compared inside Coq with Model.Query.bucket_idx, and MEDIAN, STDEV(P), VAR(P), JSON_AGG, LISTAGG, a user-defined aggregate, COUNT / SUM DISTINCT of every bucket are compared with the same aggregates computed by the implementation over exactly those rows."
	runC04Members(rand.New(rand.NewSource(seed^0x6d62)), tier, out, meta)
	meta.write(out)
}
