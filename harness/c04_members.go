package main

// C04, the members of every bucket and the aggregates the model does not compute.
// A table with a row-number column rid; for generated GROUP BY keys the query
//   SELECT LISTAGG(rid, ','), COUNT(*), MEDIAN(v), STDEV(v), STDEVP(v), VAR(v), VARP(v), JSON_AGG(v), LISTAGG(c2, '|'), usum(v) .. GROUP BY keys
// is run; (1) the listed row numbers of every output row are compared inside Coq with the model's buckets
// (Model.Query.bucket_idx; theorem C04_aggregates_get_the_rows_of_their_bucket), (2) every other aggregate of the row
// is compared with the same aggregate computed by the implementation over exactly those rows
// (SELECT .. FROM t WHERE rid IN (..), no GROUP BY): whatever the aggregate, it must have been given the bucket.

import (
	"context"
	"encoding/json"
	"fmt"
	"math/rand"
	"sort"
	"strconv"
	"strings"

	"github.com/mithrandie/csvq/lib/parser"
	"github.com/mithrandie/csvq/lib/query"
	"github.com/mithrandie/csvq/lib/value"
)

// the last two items: an aggregate whose WITHIN GROUP order is an expression (a sort key is computed for every record
// of the group), and after it the first column of the records once more - it must still hold the table's cells
const c04Aggs = "COUNT(*), MEDIAN(v), STDEV(v), STDEVP(v), VAR(v), VARP(v), JSON_AGG(v), LISTAGG(c2, '|'), usum(v), COUNT(DISTINCT c1), SUM(DISTINCT v), LISTAGG(c2, ',') WITHIN GROUP (ORDER BY v * 1, rid * 1), JSON_AGG(c1), LISTAGG(c1, '|') WITHIN GROUP (ORDER BY rid * 1)"

func runC04Members(r *rand.Rand, tier string, out string, meta *Meta) {
	nWorlds, perWorld := 14, 6
	if tier == "thorough" {
		nWorlds, perWorld = 80, 8
	}
	g := &qGen{r: r, pool: qPool(), noDiv: true}
	header := "From Coq Require Import ZArith NArith List Floats.\nRequire Import Csvq.Model.Base Csvq.Model.Value Csvq.Model.Compare Csvq.Model.Arith Csvq.Model.Expr Csvq.Model.Key Csvq.Model.SortVal Csvq.Model.Query Csvq.Harness.HQuery.\nOpen Scope list_scope.\n"
	var defs, cases []string
	shardN := 0
	flush := func() {
		if len(cases) == 0 {
			return
		}
		name := fmt.Sprintf("cases_C04_members_%d.v", shardN)
		writeFile(out, name, header+strings.Join(defs, "")+"Definition bcases : list bcase := [\n "+strings.Join(cases, ";\n ")+"\n].\nDefinition M := Eval vm_compute in (check_members bcases).\nPrint M.\n")
		meta.Shards = append(meta.Shards, name)
		shardN++
		defs, cases = nil, nil
	}
	ctx := context.Background()
	id := 2000000
	for wi := 0; wi < nWorlds; wi++ {
		sc := newScratch()
		nrows := 2 + r.Intn(14)
		if wi%5 == 3 {
			nrows = 170 + r.Intn(200) // several goroutines
		}
		t := &qTable{name: "m", cols: []string{"c1", "c2", "v", "rid"}, coq: fmt.Sprintf("mw%d_t", wi)}
		p1, p2 := qProfiles[qProfileNames[r.Intn(len(qProfileNames))]], qProfiles[qProfileNames[r.Intn(len(qProfileNames))]]
		pv := qProfiles[[]string{"int", "num", "int", "mixed"}[r.Intn(4)]]
		for i := 0; i < nrows; i++ {
			row := []*string{sp(p1[r.Intn(len(p1))]), sp(p2[r.Intn(len(p2))]), sp(pv[r.Intn(len(pv))]), sp(strconv.Itoa(i))}
			for c := 0; c < 3; c++ {
				if r.Intn(8) == 0 {
					row[c] = nil
				}
			}
			t.rows = append(t.rows, row)
		}
		writeCSV(sc.Path("m.csv"), t.cols, t.rows)
		defs = append(defs, t.coqDef())
		cols := []qCol{{"c1", 0}, {"c2", 1}, {"v", 2}}
		for qi := 0; qi < perWorld; qi++ {
			strict := r.Intn(4) == 0
			cpu := 1
			if nrows > 160 || qi%3 == 2 {
				cpu = 4
			}
			nk := 1 + r.Intn(2)
			var keys, ckeys []string
			for i := 0; i < nk; i++ {
				var e qE
				if r.Intn(4) == 0 {
					e = g.scalar(cols, 1)
				} else {
					c := cols[r.Intn(len(cols))]
					e = qE{c.sql, fmt.Sprintf("(ECol %d)", c.idx)}
				}
				keys, ckeys = append(keys, e.sql), append(ckeys, e.coq)
			}
			tx := newTx(sc.Dir)
			tx.Flags.SetCPU(cpu)
			tx.Flags.SetStrictEqual(strict)
			proc := query.NewProcessor(tx)
			decl, _, perr := parser.Parse("DECLARE usum AGGREGATE (list) AS BEGIN VAR @s := 0; VAR @x; WHILE @x IN list DO IF FLOAT(@x) IS NULL THEN CONTINUE; END IF; @s := @s + FLOAT(@x) * 2; END WHILE; RETURN @s; END;", "", false, false)
			if perr != nil {
				panic("harness: " + perr.Error())
			}
			for _, st := range decl {
				if _, err := proc.ExecuteStatement(ctx, st); err != nil {
					panic("harness: cannot declare the aggregate: " + err.Error())
				}
			}
			sqlA := "SELECT LISTAGG(rid, ',') AS ids, " + c04Aggs + " FROM m GROUP BY " + strings.Join(keys, ", ")
			va, err := selectViewIn(proc.ReferenceScope, sqlA)
			obs := ""
			cs := map[string]interface{}{"kind": "bucket-members", "sql": sqlA, "strict_equal": strict, "cpu": cpu, "rows": len(t.rows)}
			if len(t.rows) <= 16 {
				cs["table m (c1, c2, v, rid)"] = showCellRows(t.rows)
			}
			if err != nil {
				obs = obsRes(nil, err)
				cs["observed"] = "error: " + err.Error()
			} else {
				rowsA := viewRows(va)
				var buckets [][]int
				for bi, ra := range rowsA {
					var ids []int
					idText := ""
					if s, ok := ra[0].(*value.String); ok {
						idText = s.Raw()
						for _, x := range strings.Split(idText, ",") {
							n, e := strconv.Atoi(x)
							if e != nil {
								panic("harness: LISTAGG(rid) is not a list of numbers: " + idText)
							}
							ids = append(ids, n)
						}
					}
					if cpu > 1 {
						sort.Ints(ids)
					}
					buckets = append(buckets, ids)
					// (1b) JSON_AGG(c1), evaluated after an aggregate that computed sort keys for the records of the group,
					// still lists the c1 cells of exactly these rows
					if len(ids) > 0 {
						// the last item lists the first column in the order of an expression (the row number): the c1 cells
						// of these rows that are not NULL, in row order
						sorted := append([]int{}, ids...)
						sort.Ints(sorted)
						var want []string
						for _, k := range sorted {
							if c := t.rows[k][0]; c != nil {
								want = append(want, *c)
							}
						}
						got, isStr := ra[len(ra)-1].(*value.String)
						if (len(want) == 0) != !isStr || (isStr && got.Raw() != strings.Join(want, "|")) {
							meta.Direct = append(meta.Direct, DirectViolation{Key: "group-cells-changed-by-evaluation", What: fmt.Sprintf("bucket %d: LISTAGG(c1, '|') WITHIN GROUP (ORDER BY rid * 1) is %s, the c1 cells of the rows %v are %q", bi, ra[len(ra)-1].String(), sorted, want),
								Case: map[string]interface{}{"group query": sqlA, "strict_equal": strict, "cpu": cpu, "table m (c1, c2, v, rid)": showCellRows(t.rows)}})
						}
					}
					if js, ok := ra[len(ra)-2].(*value.String); ok && len(ids) > 0 {
						var got []*string
						if e := json.Unmarshal([]byte(js.Raw()), &got); e == nil {
							sorted := append([]int{}, ids...)
							sort.Ints(sorted)
							same := len(got) == len(sorted)
							for k := 0; same && k < len(sorted); k++ {
								want := t.rows[sorted[k]][0]
								same = (got[k] == nil) == (want == nil) && (want == nil || *got[k] == *want)
							}
							if !same {
								meta.Direct = append(meta.Direct, DirectViolation{Key: "group-cells-changed-by-evaluation", What: fmt.Sprintf("bucket %d: JSON_AGG(c1), evaluated after LISTAGG(..) WITHIN GROUP (ORDER BY v * 1, rid * 1), does not list the c1 cells of the rows %v of the table: %s", bi, sorted, js.Raw()),
									Case: map[string]interface{}{"group query": sqlA, "strict_equal": strict, "cpu": cpu, "table m (c1, c2, v, rid)": showCellRows(t.rows)}})
							}
						}
					}
					// (2) the other aggregates over exactly these rows
					if len(ids) > 0 {
						sqlB := "SELECT " + c04Aggs + " FROM m WHERE rid IN (" + idText + ")"
						vb, eb := selectViewIn(proc.ReferenceScope, sqlB)
						if eb != nil {
							meta.Direct = append(meta.Direct, DirectViolation{Key: "aggregate-over-bucket-rows-fails", What: "the aggregates of one bucket, computed over exactly its rows, fail: " + eb.Error(), Case: map[string]interface{}{"group query": sqlA, "bucket query": sqlB}})
						} else if rb := viewRows(vb); len(rb) != 1 || fmt.Sprint(showValRows([][]value.Primary{ra[1:]})) != fmt.Sprint(showValRows(rb)) {
							meta.Direct = append(meta.Direct, DirectViolation{Key: "aggregate-not-over-its-bucket", What: fmt.Sprintf("bucket %d of the GROUP BY query: an aggregate differs from the same aggregate computed over exactly the rows of the bucket: grouped %v, over the rows %v", bi, showValRows([][]value.Primary{ra[1:]}), showValRows(rb)),
								Case: map[string]interface{}{"group query": sqlA, "bucket query": sqlB, "strict_equal": strict, "cpu": cpu, "table m (c1, c2, v, rid)": showCellRows(t.rows)}})
						}
						meta.Evaluations++
					}
				}
				if cpu > 1 {
					sort.Slice(buckets, func(i, j int) bool {
						if len(buckets[i]) == 0 || len(buckets[j]) == 0 {
							return len(buckets[i]) < len(buckets[j])
						}
						return buckets[i][0] < buckets[j][0]
					})
				}
				var bs []string
				for _, b := range buckets {
					var xs []string
					for _, x := range b {
						xs = append(xs, fmt.Sprintf("%d%%nat", x))
					}
					bs = append(bs, coqList(xs))
				}
				obs = "(Ok " + coqList(bs) + ")"
				cs["observed buckets (row numbers)"] = fmt.Sprint(buckets)
			}
			cases = append(cases, fmt.Sprintf("mkB %s %s %s %s %s", coqN(id), coqBool(strict), t.coq, coqList(ckeys), obs))
			meta.Cases[fmt.Sprint(id)] = cs
			meta.Evaluations++
			meta.Distribution[fmt.Sprintf("bucket-members:cpu=%d", cpu)]++
			id++
			_ = tx.ReleaseResources()
		}
		sc.Close()
		if len(cases) >= 40 {
			flush()
		}
	}
	flush()
}
