package main

// C05: INSERT / UPDATE / DELETE / REPLACE / ALTER change exactly what they say and report it.
// Histories of data-changing statements through parser.Parse + Processor.ExecuteStatement on one
// transaction (file table or temporary table); after every statement SELECT * and the reported count
// are compared with Model.Dml inside Coq.

import (
	"bytes"
	"context"
	"fmt"
	"math/rand"
	"os"
	"regexp"
	"strconv"
	"strings"
	"time"

	"github.com/mithrandie/csvq/lib/parser"
	"github.com/mithrandie/csvq/lib/query"
)

func init() { runners["C05"] = runC05 }

type bufCloser struct{ bytes.Buffer }

func (b *bufCloser) Close() error { return nil }

var c05CountRe = regexp.MustCompile(`(?m)^(no|\d+) (?:record|records|field|fields) (inserted|updated|deleted|replaced|added|dropped|renamed)`)

func runC05(seed int64, tier string, out string) {
	r := rand.New(rand.NewSource(seed))
	meta := newMeta("C05", seed)
	meta.Rule = "(i) histories of 1-10 data-changing statements (INSERT VALUES with and without a column list, INSERT SELECT, UPDATE SET .. WHERE, DELETE WHERE, REPLACE .. USING keys, ALTER TABLE ADD [DEFAULT expr] FIRST/LAST/AFTER/BEFORE, DROP, RENAME) on a CSV file table or a temporary table of 1-4 columns and 0-8 rows (some 200-400 rows, cpu 1 and 4), expressions from the C06 language over the table's columns, some statements failing (division by zero, wrong row length); after every statement the reported count and SELECT * are compared with the model. (ii) histories of 1-4 multi-table statements over two joined file tables p, c: DELETE p[, c] FROM p JOIN c ON .. [WHERE ..] and UPDATE p SET .. FROM p JOIN c ON .. (incl. the ambiguous-update error), per-table counts taken from the log lines by file path, then COMMIT and a re-read by a fresh transaction. Non-trivial = a history with at least one successful statement that changed the table; distinct = distinct statement texts."
	g := &qGen{r: r, pool: qPool(), noDiv: false}
	selfCheckLiterals(g.pool)
	nHist := 120
	if tier == "thorough" {
		nHist = 2500
	}
	header := "From Coq Require Import ZArith NArith List Floats.\nRequire Import Csvq.Model.Base Csvq.Model.Value Csvq.Model.Compare Csvq.Model.Arith Csvq.Model.Expr Csvq.Model.Key Csvq.Model.SortVal Csvq.Model.Query Csvq.Model.Dml Csvq.Harness.H05.\nOpen Scope list_scope.\n"
	var cases []string
	shardN := 0
	flush := func() {
		if len(cases) == 0 {
			return
		}
		name := fmt.Sprintf("cases_C05_%d.v", shardN)
		writeFile(out, name, header+"Definition dcases : list dcase := [\n "+strings.Join(cases, ";\n ")+"\n].\nDefinition M := Eval vm_compute in (check_dml dcases).\nPrint M.\n")
		meta.Shards = append(meta.Shards, name)
		shardN++
		cases = nil
	}
	distinct := map[string]bool{}
	ctx := context.Background()
	c05CaseVariantNames(meta)
	for h := 0; h < nHist; h++ {
		sc := newScratch()
		tx := newTx(sc.Dir)
		tx.Flags.SetQuiet(false)
		logbuf := &bufCloser{}
		tx.Session.SetStdout(logbuf)
		strict := r.Intn(5) == 0
		tx.Flags.SetStrictEqual(strict)
		cpu := 1
		big := h%25 == 7
		if h%3 == 0 {
			cpu = 4
		}
		tx.Flags.SetCPU(cpu)
		ncols := 1 + r.Intn(4)
		if ncols == 1 {
			ncols = 2
		}
		nrows := r.Intn(9)
		if big {
			nrows = 200 + r.Intn(200)
		}
		t := g.genTable("t", ncols, nrows, "")
		u := g.genTable("u", 2, 3+r.Intn(4), "")
		writeCSV(sc.Path("t.csv"), t.cols, t.rows)
		writeCSV(sc.Path("u.csv"), u.cols, u.rows)
		target := "t"
		temp := r.Intn(4) == 0
		proc := query.NewProcessor(tx)
		exec := func(sql string) error {
			stmts, _, err := parser.Parse(sql, "", false, false)
			if err != nil {
				panic("harness: generated statement does not parse: " + sql + ": " + err.Error())
			}
			for _, st := range stmts {
				if _, err := proc.ExecuteStatement(ctx, st); err != nil {
					return err
				}
			}
			return nil
		}
		if temp {
			target = "tmp"
			if err := exec("DECLARE tmp VIEW (" + strings.Join(t.cols, ", ") + ") AS SELECT " + strings.Join(t.cols, ", ") + " FROM t"); err != nil {
				panic("harness: cannot declare temporary table: " + err.Error())
			}
		}
		cols := append([]string{}, t.cols...) // current column names
		nextCol := 100
		colRefs := func() []qCol {
			cs := make([]qCol, len(cols))
			for i, c := range cols {
				cs[i] = qCol{c, i}
			}
			return cs
		}
		uCols := []qCol{{"u.c1", 0}, {"u.c2", 1}}
		var steps, show []string
		changed := false
		nst := 1 + r.Intn(10)
		if big {
			nst = 1 + r.Intn(4)
		}
		for si := 0; si < nst; si++ {
			var sql, coq string
			newCols := cols
			kind := r.Intn(12)
			pickFields := func() ([]int, []string) {
				n := 1 + r.Intn(len(cols))
				perm := r.Perm(len(cols))[:n]
				names := make([]string, n)
				for i, p := range perm {
					names[i] = cols[p]
				}
				return perm, names
			}
			natList := func(l []int) string {
				ss := make([]string, len(l))
				for i, x := range l {
					ss[i] = fmt.Sprintf("%d%%nat", x)
				}
				return coqList(ss)
			}
			valuesList := func(width int, allowBad bool) (string, string) {
				nr := 1 + r.Intn(3)
				var rsql, rcoq []string
				for i := 0; i < nr; i++ {
					w := width
					if allowBad && r.Intn(25) == 0 {
						w = width + 1 // wrong row length: the statement must fail and change nothing
					}
					var es, cs []string
					for j := 0; j < w; j++ {
						e := g.scalar(nil, 1)
						es, cs = append(es, e.sql), append(cs, e.coq)
					}
					rsql = append(rsql, "("+strings.Join(es, ", ")+")")
					rcoq = append(rcoq, coqList(cs))
				}
				return strings.Join(rsql, ", "), coqList(rcoq)
			}
			switch {
			case kind <= 1: // INSERT VALUES
				if r.Intn(3) == 0 {
					all := make([]int, len(cols))
					for i := range all {
						all[i] = i
					}
					vs, vc := valuesList(len(cols), true)
					sql = fmt.Sprintf("INSERT INTO %s VALUES %s", target, vs)
					coq = fmt.Sprintf("SInsert %s %s", natList(all), vc)
				} else {
					idx, names := pickFields()
					vs, vc := valuesList(len(idx), true)
					sql = fmt.Sprintf("INSERT INTO %s (%s) VALUES %s", target, strings.Join(names, ", "), vs)
					coq = fmt.Sprintf("SInsert %s %s", natList(idx), vc)
				}
			case kind == 2: // INSERT SELECT
				idx, names := pickFields()
				var items, citems []string
				for range idx {
					e := g.scalar(uCols, 1)
					items, citems = append(items, e.sql), append(citems, "SExpr "+e.coq)
				}
				wh, cwh := "", "None"
				if r.Intn(2) == 0 {
					c := g.cond(uCols, 1)
					wh, cwh = " WHERE "+c.sql, "(Some "+c.coq+")"
				}
				sql = fmt.Sprintf("INSERT INTO %s (%s) SELECT %s FROM u%s", target, strings.Join(names, ", "), strings.Join(items, ", "), wh)
				coq = fmt.Sprintf("SInsertSel %s (Q (BSelect (SrcTable 2 %s) %s None None %s false) [] None None)", natList(idx), coqCellRows(u.rows), cwh, coqList(citems))
			case kind <= 5: // UPDATE
				idx, names := pickFields()
				if len(idx) > 2 {
					idx, names = idx[:2], names[:2]
				}
				var sets, csets []string
				for i := range idx {
					e := g.scalar(colRefs(), 2)
					sets = append(sets, names[i]+" = "+e.sql)
					csets = append(csets, fmt.Sprintf("(%d%%nat, %s)", idx[i], e.coq))
				}
				wh, cwh := "", "None"
				if r.Intn(5) != 0 {
					c := g.cond(colRefs(), r.Intn(3))
					wh, cwh = " WHERE "+c.sql, "(Some "+c.coq+")"
				}
				sql = fmt.Sprintf("UPDATE %s SET %s%s", target, strings.Join(sets, ", "), wh)
				coq = fmt.Sprintf("SUpdate %s %s", coqList(csets), cwh)
			case kind <= 7: // DELETE
				wh, cwh := "", "None"
				if r.Intn(8) != 0 {
					c := g.cond(colRefs(), r.Intn(3))
					wh, cwh = " WHERE "+c.sql, "(Some "+c.coq+")"
				}
				sql = fmt.Sprintf("DELETE FROM %s%s", target, wh)
				coq = fmt.Sprintf("SDelete %s", cwh)
			case kind == 8: // REPLACE
				idx, names := pickFields()
				nk := 1 + r.Intn(len(idx))
				if nk > 2 {
					nk = 2
				}
				vs, vc := valuesList(len(idx), false)
				sql = fmt.Sprintf("REPLACE INTO %s (%s) USING (%s) VALUES %s", target, strings.Join(names, ", "), strings.Join(names[:nk], ", "), vs)
				coq = fmt.Sprintf("SReplace %s %s %s", natList(idx), natList(idx[:nk]), vc)
			case kind == 9: // ADD
				n := 1 + r.Intn(2)
				pos, psql := len(cols), ""
				switch r.Intn(4) {
				case 0:
					pos, psql = 0, " FIRST"
				case 1:
					pos, psql = len(cols), " LAST"
				case 2:
					k := r.Intn(len(cols))
					pos, psql = k+1, " AFTER "+cols[k]
				default:
					k := r.Intn(len(cols))
					pos, psql = k, " BEFORE "+cols[k]
				}
				var defs, cdefs, names []string
				for i := 0; i < n; i++ {
					nextCol++
					nm := fmt.Sprintf("n%d", nextCol)
					names = append(names, nm)
					if r.Intn(2) == 0 {
						e := g.scalar(colRefs(), 1)
						defs = append(defs, nm+" DEFAULT "+e.sql)
						cdefs = append(cdefs, "(Some "+e.coq+")")
					} else {
						defs = append(defs, nm)
						cdefs = append(cdefs, "None")
					}
				}
				sql = fmt.Sprintf("ALTER TABLE %s ADD (%s)%s", target, strings.Join(defs, ", "), psql)
				coq = fmt.Sprintf("SAddCols %d%%nat %s", pos, coqList(cdefs))
				newCols = append(append(append([]string{}, cols[:pos]...), names...), cols[pos:]...)
			case kind == 10 && len(cols) > 2: // DROP
				k := r.Intn(len(cols))
				sql = fmt.Sprintf("ALTER TABLE %s DROP %s", target, cols[k])
				coq = fmt.Sprintf("SDropCols [%d%%nat]", k)
				newCols = append(append([]string{}, cols[:k]...), cols[k+1:]...)
			default: // RENAME
				k := r.Intn(len(cols))
				nextCol++
				nm := fmt.Sprintf("r%d", nextCol)
				sql = fmt.Sprintf("ALTER TABLE %s RENAME %s TO %s", target, cols[k], nm)
				coq = fmt.Sprintf("SRename %d%%nat", k)
				newCols = append([]string{}, cols...)
				newCols[k] = nm
			}
			logbuf.Reset()
			err := exec(sql)
			var cnt string
			var cshow string
			if err != nil {
				cnt = obsRes(nil, err)
				cnt = strings.Replace(cnt, "(Err", "(Err", 1)
				cshow = "error: " + err.Error()
			} else {
				m := c05CountRe.FindStringSubmatch(logbuf.String())
				if m == nil {
					panic("harness: no count line in log for " + sql + ": " + logbuf.String())
				}
				n := 0
				if m[1] != "no" {
					n, _ = strconv.Atoi(m[1])
				}
				cnt = fmt.Sprintf("(Ok (%d)%%Z)", n)
				cshow = strings.TrimSpace(logbuf.String())
				cols = newCols
				if n > 0 {
					changed = true
				}
			}
			view, verr := selectViewIn(proc.ReferenceScope, "SELECT * FROM "+target)
			if verr != nil {
				panic("harness: cannot read the table back: " + verr.Error())
			}
			rows := viewRows(view)
			steps = append(steps, fmt.Sprintf("mkDS (%s) %s %s", coq, cnt, coqValRows(rows)))
			after := fmt.Sprintf("%d rows", len(rows))
			if len(rows) <= 10 {
				after = fmt.Sprint(showValRows(rows))
			}
			show = append(show, sql+"  =>  "+cshow+"  =>  "+after)
			distinct[sql] = true
			meta.Distribution["stmt:"+strings.SplitN(coq, " ", 2)[0]]++
			if err != nil {
				meta.Distribution["stmt-result:error"]++
			}
			meta.Evaluations++
		}
		init := fmt.Sprintf("(mkT %d%%nat %s)", len(t.cols), coqCellRows(t.rows))
		cases = append(cases, fmt.Sprintf("mkD %s %s %s %s", coqN(h), coqBool(strict), init, coqList(steps)))
		initShow := interface{}(showCellRows(t.rows))
		if len(t.rows) > 12 {
			initShow = fmt.Sprintf("%d rows", len(t.rows))
		}
		c := map[string]interface{}{"target": map[bool]string{true: "temporary table", false: "file table"}[temp], "columns": t.cols, "initial": initShow,
			"u": showCellRows(u.rows), "strict_equal": strict, "cpu": cpu, "history": show}
		meta.Cases[fmt.Sprint(h)] = c
		if len(meta.Samples) < 3 && h%17 == 2 {
			meta.Samples = append(meta.Samples, c)
		}
		if changed {
			meta.Distinct++
		}
		meta.Distribution[fmt.Sprintf("target:%v", c["target"])]++
		_ = tx.Rollback(proc.ReferenceScope, nil)
		_ = tx.ReleaseResources()
		sc.Close()
		if len(cases) >= 40 || big {
			flush()
		}
	}
	flush()
	runC05Multi(r, tier, out, meta, g)
	meta.Notes = append(meta.Notes, fmt.Sprintf("distinct statement texts: %d", len(distinct)))
	meta.write(out)
}

// corpus: two files whose names differ only in case (a case-sensitive file system).  A statement on one of them
// must read and change that one; csvq keys its view cache by the upper-cased path (finding case-variant-file-alias).
func c05CaseVariantNames(meta *Meta) {
	progs := []struct{ sql, what string }{
		{"SELECT * FROM `A.csv`; UPDATE `a.csv` SET v = 'changed'; COMMIT;", "UPDATE of a.csv after A.csv was read"},
		{"SELECT * FROM `a.csv`; DELETE FROM `A.csv`; COMMIT;", "DELETE on A.csv after a.csv was read"},
		{"UPDATE `a.csv` SET v = 'changed'; COMMIT;", "UPDATE of a.csv alone (control)"},
	}
	for _, p := range progs {
		sc := newScratch()
		upper, lower := "k,v\n1,upper\n", "k,v\n1,lower\n"
		if err := os.WriteFile(sc.Path("A.csv"), []byte(upper), 0644); err != nil {
			panic(err)
		}
		if err := os.WriteFile(sc.Path("a.csv"), []byte(lower), 0644); err != nil {
			panic(err)
		}
		chk, _ := os.ReadFile(sc.Path("A.csv"))
		if string(chk) != upper { // a case-insensitive file system: the scenario does not exist
			sc.Close()
			return
		}
		r := runCsvq(sc.Dir, []string{"--repository", sc.Dir, "--quiet", p.sql}, "", 20*time.Second)
		a1, _ := os.ReadFile(sc.Path("A.csv"))
		a2, _ := os.ReadFile(sc.Path("a.csv"))
		sc.Close()
		meta.Evaluations++
		meta.Distribution["corpus:case-variant-names"]++
		wantU, wantL := upper, lower
		if strings.Contains(p.sql, "UPDATE `a.csv`") {
			wantL = "k,v\n1,changed\n"
		} else {
			wantU = "k,v\n"
		}
		if r.Code != 0 || string(a1) != wantU || string(a2) != wantL {
			meta.Direct = append(meta.Direct, DirectViolation{Key: "case-variant-file-alias",
				What: fmt.Sprintf("%s: the statement must change exactly the file it names; A.csv = %q (expected %q), a.csv = %q (expected %q), exit %d %s", p.what, a1, wantU, a2, wantL, r.Code, strings.TrimSpace(r.Stderr)),
				Case: map[string]interface{}{"program": p.sql, "A.csv_before": upper, "a.csv_before": lower, "A.csv_after": string(a1), "a.csv_after": string(a2), "tags": []string{"case-variant-file-alias"}}})
		}
	}
}
