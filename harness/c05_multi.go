package main

// C05, multi-table forms: DELETE p, c FROM p JOIN c ..., UPDATE p SET .. FROM p JOIN c ...
// After every statement the per-table counts (from the log lines, keyed by file path) and both
// tables are compared with Model.Dml.delete_join / update_join; at the end COMMIT and a fresh
// transaction must read back what was last seen (a table whose count was reported wrongly is not
// written).

import (
	"context"
	"fmt"
	"math/rand"
	"path/filepath"
	"regexp"
	"strconv"
	"strings"

	"github.com/mithrandie/csvq/lib/parser"
	"github.com/mithrandie/csvq/lib/query"
	"github.com/mithrandie/csvq/lib/value"
	"github.com/mithrandie/ternary"
)

var c05MultiRe = regexp.MustCompile(`(?m)^(no|\d+) records? (deleted|updated) on "([^"]*)"`)

func runC05Multi(r *rand.Rand, tier string, out string, meta *Meta, g *qGen) {
	nHist := 60
	if tier == "thorough" {
		nHist = 1200
	}
	header := "From Coq Require Import ZArith NArith List Floats.\nRequire Import Csvq.Model.Base Csvq.Model.Value Csvq.Model.Compare Csvq.Model.Arith Csvq.Model.Expr Csvq.Model.Key Csvq.Model.SortVal Csvq.Model.Query Csvq.Model.Dml Csvq.Harness.H05.\nOpen Scope list_scope.\n"
	var cases []string
	shardN := 0
	flush := func() {
		if len(cases) == 0 {
			return
		}
		name := fmt.Sprintf("cases_C05_multi_%d.v", shardN)
		writeFile(out, name, header+"Definition mcases : list mcase := [\n "+strings.Join(cases, ";\n ")+"\n].\nDefinition M := Eval vm_compute in (check_multi mcases).\nPrint M.\n")
		meta.Shards = append(meta.Shards, name)
		shardN++
		cases = nil
	}
	ctx := context.Background()
	keys := []string{"1", "2", "3", "4", "2", "3", " 2", "05"}
	for h := 0; h < nHist; h++ {
		id := 500000 + h
		sc := newScratch()
		tx := newTx(sc.Dir)
		tx.Flags.SetQuiet(false)
		logbuf := &bufCloser{}
		tx.Session.SetStdout(logbuf)
		cpu := 1 + 3*(h%2)
		tx.Flags.SetCPU(cpu)
		mk := func(name string, ncols, nrows int) *qTable {
			t := &qTable{name: name}
			for c := 0; c < ncols; c++ {
				t.cols = append(t.cols, fmt.Sprintf("%s%d", name, c+1))
			}
			for i := 0; i < nrows; i++ {
				row := make([]*string, ncols)
				row[0] = sp(keys[r.Intn(len(keys))])
				for c := 1; c < ncols; c++ {
					if r.Intn(6) != 0 {
						row[c] = sp(g.pool[r.Intn(len(g.pool))])
					}
				}
				t.rows = append(t.rows, row)
			}
			return t
		}
		p := mk("p", 3, 1+r.Intn(7))
		c := mk("c", 2, 1+r.Intn(6))
		writeCSV(sc.Path("p.csv"), p.cols, p.rows)
		writeCSV(sc.Path("c.csv"), c.cols, c.rows)
		proc := query.NewProcessor(tx)
		exec := func(sql string) error {
			stmts, _, err := parser.Parse(sql, "", false, false)
			if err != nil {
				panic("harness: generated statement does not parse: " + sql + ": " + err.Error())
			}
			for _, st := range stmts {
				if _, err := proc.ExecuteStatement(ctx, st); err != nil {
					return err
				}
			}
			return nil
		}
		// merged row: p1 p2 p3 c1 c2
		cols := []qCol{{"p.p1", 0}, {"p.p2", 1}, {"p.p3", 2}, {"c.c1", 3}, {"c.c2", 4}}
		var steps, show []string
		nst := 1 + r.Intn(4)
		for si := 0; si < nst; si++ {
			on := qE{"p.p1 = c.c1", "(ECmp OpEq (ECol 0) (ECol 3))"}
			if r.Intn(5) == 0 {
				on = g.cond(cols, 1)
			}
			wh, cwh := "", "None"
			if r.Intn(2) == 0 {
				w := g.cond(cols, 1)
				wh, cwh = " WHERE "+w.sql, "(Some "+w.coq+")"
			}
			var sql, coq string
			if r.Intn(3) == 0 {
				// DELETE over LEFT / RIGHT / FULL (and plain) joins: a joined row can lack the record of one table
				// (Model/Dml.v delete_join_k: every row carries its position in one more column, so c's columns
				// are one further to the right)
				kcols := []qCol{{"p.p1", 0}, {"p.p2", 1}, {"p.p3", 2}, {"c.c1", 4}, {"c.c2", 5}}
				jk := [][2]string{{"LEFT JOIN", "JLeft"}, {"LEFT OUTER JOIN", "JLeft"}, {"RIGHT JOIN", "JRight"}, {"FULL JOIN", "JFull"}, {"FULL OUTER JOIN", "JFull"}, {"INNER JOIN", "JInner"}}[r.Intn(6)]
				kon := qE{"p.p1 = c.c1", "(ECmp OpEq (ECol 0) (ECol 4))"}
				if r.Intn(5) == 0 {
					kon = g.cond(kcols, 1)
				}
				kwh, kcwh := "", "None"
				if r.Intn(3) == 0 {
					w := g.cond(kcols, 1)
					kwh, kcwh = " WHERE "+w.sql, "(Some "+w.coq+")"
				}
				tp, tc := true, true
				switch r.Intn(4) {
				case 0:
					tc = false
				case 1:
					tp = false
				}
				var targets []string
				if tp {
					targets = append(targets, "p")
				}
				if tc {
					targets = append(targets, "c")
				}
				sql = fmt.Sprintf("DELETE %s FROM p %s c ON %s%s", strings.Join(targets, ", "), jk[0], kon.sql, kwh)
				coq = fmt.Sprintf("MDeleteK %s %s %s 3 2 (Some %s) %s", jk[1], coqBool(tp), coqBool(tc), kon.coq, kcwh)
			} else if r.Intn(3) != 0 {
				tp, tc := true, true
				switch r.Intn(3) {
				case 0:
					tc = false
				case 1:
					tp = false
				}
				var targets []string
				if tp {
					targets = append(targets, "p")
				}
				if tc {
					targets = append(targets, "c")
				}
				sql = fmt.Sprintf("DELETE %s FROM p JOIN c ON %s%s", strings.Join(targets, ", "), on.sql, wh)
				coq = fmt.Sprintf("MDelete %s %s (Some %s) %s", coqBool(tp), coqBool(tc), on.coq, cwh)
			} else {
				fields := r.Perm(2)[:1+r.Intn(2)]
				var sets, csets []string
				for _, f := range fields {
					e := g.scalar(cols, 1)
					sets = append(sets, fmt.Sprintf("p.p%d = %s", f+2, e.sql))
					csets = append(csets, fmt.Sprintf("(%d%%nat, %s)", f+1, e.coq))
				}
				sql = fmt.Sprintf("UPDATE p SET %s FROM p JOIN c ON %s%s", strings.Join(sets, ", "), on.sql, wh)
				coq = fmt.Sprintf("MUpdate %s (Some %s) %s", coqList(csets), on.coq, cwh)
			}
			logbuf.Reset()
			err := exec(sql)
			cnt, cshow := "", ""
			if err != nil {
				cnt, cshow = obsRes(nil, err), "error: "+err.Error()
			} else {
				np, nc := 0, 0
				for _, m := range c05MultiRe.FindAllStringSubmatch(logbuf.String(), -1) {
					n := 0
					if m[1] != "no" {
						n, _ = strconv.Atoi(m[1])
					}
					switch filepath.Base(m[3]) {
					case "p.csv":
						np = n
					case "c.csv":
						nc = n
					}
				}
				cnt = fmt.Sprintf("(Ok ((%d)%%Z, (%d)%%Z))", np, nc)
				cshow = strings.ReplaceAll(strings.TrimSpace(logbuf.String()), sc.Dir, "")
			}
			vp, e1 := selectViewIn(proc.ReferenceScope, "SELECT * FROM p")
			vc, e2 := selectViewIn(proc.ReferenceScope, "SELECT * FROM c")
			if e1 != nil || e2 != nil {
				panic(fmt.Sprint("harness: cannot read the tables back: ", e1, e2))
			}
			steps = append(steps, fmt.Sprintf("mkMS (%s) %s %s %s", coq, cnt, coqValRows(viewRows(vp)), coqValRows(viewRows(vc))))
			show = append(show, fmt.Sprintf("%s  =>  %s  =>  p=%v c=%v", sql, cshow, showValRows(viewRows(vp)), showValRows(viewRows(vc))))
			meta.Evaluations++
			meta.Distribution["multi:"+strings.SplitN(coq, " ", 2)[0]]++
			if err != nil {
				meta.Distribution["multi-result:error"]++
			}
		}
		// COMMIT, then a fresh transaction must see what was last seen
		vp, _ := selectViewIn(proc.ReferenceScope, "SELECT * FROM p")
		vc, _ := selectViewIn(proc.ReferenceScope, "SELECT * FROM c")
		lastP, lastC := viewRows(vp), viewRows(vc)
		if err := exec("COMMIT"); err != nil {
			meta.Direct = append(meta.Direct, DirectViolation{Key: "multi-commit-failed", What: "COMMIT after multi-table statements failed: " + err.Error(), Case: show})
		}
		_ = tx.ReleaseResources()
		tx2 := newTx(sc.Dir)
		for _, tc := range []struct {
			name string
			last [][]value.Primary
		}{{"p", lastP}, {"c", lastC}} {
			v2, err := selectView(tx2, "SELECT * FROM "+tc.name)
			if err != nil {
				meta.Direct = append(meta.Direct, DirectViolation{Key: "multi-commit-unreadable", What: "table " + tc.name + " cannot be read after COMMIT: " + err.Error(), Case: show})
				continue
			}
			if !sameTexts(viewRows(v2), tc.last) {
				meta.Direct = append(meta.Direct, DirectViolation{Key: "multi-commit-differs", What: fmt.Sprintf("after COMMIT the file of table %s does not hold what the transaction last saw: file %v, last seen %v", tc.name, showValRows(viewRows(v2)), showValRows(tc.last)), Case: show})
			}
		}
		_ = tx2.ReleaseResources()
		cases = append(cases, fmt.Sprintf("mkM %s false %s %s %s", coqN(id), coqCellRows(p.rows), coqCellRows(c.rows), coqList(steps)))
		cs := map[string]interface{}{"p": showCellRows(p.rows), "c": showCellRows(c.rows), "cpu": cpu, "history": show}
		meta.Cases[fmt.Sprint(id)] = cs
		if h == 3 {
			meta.Samples = append(meta.Samples, cs)
		}
		meta.Distinct++
		sc.Close()
		if len(cases) >= 40 {
			flush()
		}
	}
	flush()
}

// sameTexts compares two tables by the text csvq writes for each cell (NULL = empty)
func sameTexts(a, b [][]value.Primary) bool {
	if len(a) != len(b) {
		return false
	}
	txt := func(p value.Primary) string {
		if value.IsNull(p) {
			return ""
		}
		switch t := p.(type) {
		case *value.Ternary: // written to the file as true / false, UNKNOWN as an empty field (which reads back as NULL)
			if t.Ternary() == ternary.UNKNOWN {
				return ""
			}
			return strings.ToLower(p.String())
		case *value.Boolean: // written to the file in lower case
			return strings.ToLower(p.String())
		}
		s := value.ToString(p)
		if value.IsNull(s) {
			return p.String()
		}
		return s.(*value.String).Raw()
	}
	for i := range a {
		if len(a[i]) != len(b[i]) {
			return false
		}
		for j := range a[i] {
			if txt(a[i][j]) != txt(b[i][j]) {
				return false
			}
		}
	}
	return true
}
