package main

// C06: comparison, ternary logic, arithmetic, casting.
// Implementation entry points: value.Compare, query.Calculate, parser.Parse + query.Evaluate.

import (
	"context"
	"fmt"
	"math"
	"math/rand"
	"os"
	"path/filepath"
	"strings"
	"time"

	"github.com/mithrandie/csvq/lib/parser"
	"github.com/mithrandie/csvq/lib/query"
	"github.com/mithrandie/csvq/lib/value"
	"github.com/mithrandie/ternary"
)

func init() { runners["C06"] = runC06 }

var c06Strings = []string{
	"", " ", "1", " 1 ", "+1", "-1", "-0", "0", "007", "1.0", "1e2", "1E2", "0x10", "1_000", "NaN", "nan", "inf", "-Inf", "Infinity",
	"true", "T", " false", "FALSE", "f", "True", "tRUE", "abc", "ABC ", " abc", "Abc", "abd", "あ", "ａ", "à", "À", " abc", " abcà", "abc ", "\u0085x",
	"9999-12-31", "1600-02-29", "2262-04-12", "1677-09-21", "0001-01-01 00:00:00", "2012-02-03", "2012-02-03 09:18:15", "2012-02-03T09:18:15Z", "2012-02-03T09:18:15+09:00", "2012/2/3", "2012-02-04", " 2012-02-03 ", "2012-02-03 09:18:15.123456789",
	"9223372036854775807", "9223372036854775808", "-9223372036854775808", "-9223372036854775809", "9007199254740993", "9007199254740992", "1.5", ".5", "5.", "-1.5", "2", "3", "-3", "5", "5.0", "-5.0", "1e400", "1e-400", "0.1", "0.30000000000000004",
	"١٢٣", "1 ", "\t2\n", "tru", "null", "NULL", "unknown", "a:b", "[S]x",
}
var c06Ints = []int64{0, 1, -1, 2, 3, -3, 5, -5, 7, 10, 100, math.MaxInt64, math.MinInt64, math.MaxInt64 - 1, math.MinInt64 + 1, 1 << 53, 1<<53 + 1, 1<<53 - 1, -(1 << 53), -(1<<53 + 1), 1 << 31, 1 << 32, 1 << 62, 3037000500, 4611686018427387904}
var c06Floats = []float64{0, math.Copysign(0, -1), 1, -1, 1.5, -1.5, 2, 3, -3, 5, -5, 5.5, -5.5, 0.1, 0.5, 2.5, 3.5, math.NaN(), math.Inf(1), math.Inf(-1), 1e308, -1e308, 5e-324, 2.2250738585072014e-308, 9007199254740992, 9007199254740993, 9223372036854775807, 9223372036854775808, -9223372036854775808, 1e19, 100, 1e-7, 123456.789, 7.25}
var c06Times = []time.Time{
	time.Date(2012, 2, 3, 9, 18, 15, 0, time.UTC), time.Date(2012, 2, 3, 9, 18, 15, 123456789, time.UTC), time.Date(2012, 2, 3, 0, 0, 0, 0, time.UTC),
	time.Date(9999, 12, 31, 0, 0, 0, 0, time.UTC), time.Date(1600, 2, 29, 0, 0, 0, 0, time.UTC), time.Date(2262, 4, 12, 0, 0, 0, 0, time.UTC), time.Date(1677, 9, 20, 0, 0, 0, 0, time.UTC),
	time.Date(2012, 2, 4, 0, 0, 0, 0, time.UTC), time.Date(1970, 1, 1, 0, 0, 0, 0, time.UTC), time.Date(1969, 12, 31, 23, 59, 59, 999999999, time.UTC), time.Date(2012, 2, 3, 0, 18, 15, 0, time.UTC),
}

func c06BoundaryValues() []value.Primary {
	var vs []value.Primary
	vs = append(vs, value.NewNull())
	for _, i := range c06Ints {
		vs = append(vs, value.NewInteger(i))
	}
	for _, f := range c06Floats {
		vs = append(vs, value.NewFloat(f))
	}
	for _, s := range c06Strings {
		vs = append(vs, value.NewString(s))
	}
	vs = append(vs, value.NewBoolean(true), value.NewBoolean(false))
	vs = append(vs, value.NewTernary(ternary.TRUE), value.NewTernary(ternary.FALSE), value.NewTernary(ternary.UNKNOWN))
	for _, t := range c06Times {
		vs = append(vs, value.NewDatetime(t))
	}
	return vs
}

func classOf(p value.Primary) string {
	switch v := p.(type) {
	case *value.Null:
		return "null"
	case *value.Integer:
		return "integer"
	case *value.Float:
		if math.IsNaN(v.Raw()) || math.IsInf(v.Raw(), 0) {
			return "float-special"
		}
		return "float"
	case *value.Boolean:
		return "boolean"
	case *value.Ternary:
		return "ternary"
	case *value.Datetime:
		return "datetime"
	case *value.String:
		s := v.Raw()
		if !value.IsNull(value.ToIntegerStrictly(p)) {
			return "string-int"
		}
		if !value.IsNull(value.ToFloat(p)) {
			return "string-float"
		}
		if _, ok := value.StrToTime(s, nil, utc); ok {
			return "string-datetime"
		}
		if p.Ternary() != ternary.UNKNOWN {
			return "string-bool"
		}
		return "string-plain"
	}
	return "?"
}

func randVal(r *rand.Rand, pool []value.Primary) value.Primary {
	switch r.Intn(10) {
	case 0:
		return value.NewInteger(r.Int63n(2001) - 1000)
	case 1:
		return value.NewInteger(int64(r.Uint64()))
	case 2:
		return value.NewFloat(math.Float64frombits(r.Uint64()))
	case 3:
		return value.NewFloat(float64(r.Int63n(2001)-1000) / 4)
	case 4:
		// numeric-looking string with padding / sign variants
		forms := []string{"%d", " %d", "%d ", "+%d", "%d.0", "%d.50", "%de1", "0%d"}
		return value.NewString(fmt.Sprintf(forms[r.Intn(len(forms))], r.Int63n(41)-20))
	default:
		return pool[r.Intn(len(pool))]
	}
}

var cmpOps = []string{"=", "==", ">", "<", ">=", "<=", "<>"}
var arithOps = []int{'+', '-', '*', '/', '%'}

func obsRes(p value.Primary, err error) string {
	if err != nil {
		if strings.Contains(err.Error(), "devided by zero") || strings.Contains(err.Error(), "divided by zero") {
			return "(Err EDivZero)"
		}
		return "(Err (EOther 0%N))"
	}
	return "(Ok " + coqVal(p) + ")"
}
func showRes(p value.Primary, err error) string {
	if err != nil {
		return "error: " + err.Error()
	}
	return showVal(p)
}

type shardWriter struct {
	dir, prop, header string
	max               int
	k, n              int
	f                 *os.File
	lists             map[string][]string
	order             []string
	footer            func(lists []string) string
	meta              *Meta
}

func (w *shardWriter) add(list string, term string) {
	if w.lists == nil {
		w.lists = map[string][]string{}
	}
	if _, ok := w.lists[list]; !ok {
		w.order = append(w.order, list)
	}
	w.lists[list] = append(w.lists[list], term)
	w.n++
	if w.n >= w.max {
		w.flush()
	}
}

func (w *shardWriter) flush() {
	if w.n == 0 {
		return
	}
	name := fmt.Sprintf("cases_%s_%d.v", w.prop, w.k)
	var b strings.Builder
	b.WriteString(w.header)
	for _, l := range w.order {
		items := w.lists[l]
		typ := strings.SplitN(l, ":", 2)
		b.WriteString(fmt.Sprintf("Definition %s : list %s := [\n %s\n].\n", typ[0], typ[1], strings.Join(items, ";\n ")))
	}
	b.WriteString(w.footer(w.order))
	if err := os.WriteFile(filepath.Join(w.dir, name), []byte(b.String()), 0644); err != nil {
		panic(err)
	}
	w.meta.Shards = append(w.meta.Shards, name)
	w.k++
	w.n = 0
	for _, l := range w.order {
		w.lists[l] = nil
	}
}

func runC06(seed int64, tier string, out string) {
	r := rand.New(rand.NewSource(seed))
	meta := newMeta("C06", seed)
	meta.Rule = "operand pairs drawn from a boundary set covering every value class (full cross product in the thorough tier) plus random ints/floats/numeric strings; each pair is run through value.Compare (7 operators, both directions) and query.Calculate (5 operators); expressions (BETWEEN/IN/ANY/ALL/IS/CASE/AND/OR/NOT/unary/arithmetic/comparison over variables bound to such values) are parsed by parser.Parse and evaluated by query.Evaluate. A case is non-trivial when neither operand is NULL; distinct = distinct (class,class,observed results) signatures for pairs and distinct expression texts."
	w := &shardWriter{dir: out, prop: "C06", max: 1500, meta: meta,
		header: "From Coq Require Import ZArith NArith List Floats.\nRequire Import Csvq.Model.Base Csvq.Model.Value Csvq.Model.Compare Csvq.Model.Arith Csvq.Model.Expr Csvq.Harness.H06.\nOpen Scope list_scope.\n",
		footer: func(ls []string) string {
			pc, ec := "[]", "[]"
			for _, l := range ls {
				if strings.HasPrefix(l, "pcases") {
					pc = "pcases"
				}
				if strings.HasPrefix(l, "ecases") {
					ec = "ecases"
				}
			}
			return fmt.Sprintf("Definition M := Eval vm_compute in (check_pairs %s ++ check_exprs %s).\nPrint M.\n", pc, ec)
		}}

	pool := c06BoundaryValues()
	nPairs, nExprs := 2500, 700
	if tier == "thorough" {
		nPairs, nExprs = 40000, 8000
	}
	sig := map[string]bool{}
	id := 0
	doPair := func(a, b value.Primary) {
		var ab, ba, calc, show []string
		for _, op := range cmpOps {
			t1 := value.Compare(a, b, op, nil, utc)
			t2 := value.Compare(b, a, op, nil, utc)
			ab = append(ab, coqTern(t1))
			ba = append(ba, coqTern(t2))
			show = append(show, fmt.Sprintf("a %s b = %s", op, t1))
		}
		for _, op := range arithOps {
			p, err := query.Calculate(a, b, op)
			calc = append(calc, obsRes(p, err))
			show = append(show, fmt.Sprintf("a %c b = %s", op, showRes(p, err)))
		}
		w.add("pcases:pcase", fmt.Sprintf("mkP %s %s %s %s %s %s", coqN(id), coqVal(a), coqVal(b), coqList(ab), coqList(ba), coqList(calc)))
		c := map[string]interface{}{"kind": "pair", "a": showVal(a), "b": showVal(b), "observed": show}
		meta.Cases[fmt.Sprint(id)] = c
		if len(meta.Samples) < 3 && id%977 == 5 {
			meta.Samples = append(meta.Samples, c)
		}
		meta.Evaluations++
		meta.Distribution["pair:"+classOf(a)+"×"+classOf(b)]++
		if !value.IsNull(a) && !value.IsNull(b) {
			sig[classOf(a)+"|"+classOf(b)+"|"+strings.Join(ab, "")+strings.Join(calc, "")] = true
		}
		id++
	}
	if tier == "thorough" {
		for _, a := range pool {
			for _, b := range pool {
				doPair(a, b)
			}
		}
	} else {
		// every boundary value meets every class representative at least once
		for i, a := range pool {
			doPair(a, pool[(i*7+3)%len(pool)])
		}
	}
	for i := 0; i < nPairs; i++ {
		doPair(randVal(r, pool), randVal(r, pool))
	}

	// ---- expressions through the parser and the evaluator ------------------------------------
	tx := newTx("")
	ctx := context.Background()
	exprSeen := map[string]bool{}
	for i := 0; i < nExprs; i++ {
		g := &exprGen{r: r, pool: pool, vars: map[string]value.Primary{}}
		text := g.gen(3)
		stmts, _, perr := parser.Parse("SELECT "+text, "", false, false)
		if perr != nil {
			panic("harness: generated expression does not parse: " + text + ": " + perr.Error())
		}
		sel := stmts[0].(parser.SelectQuery).SelectEntity.(parser.SelectEntity).SelectClause.(parser.SelectClause)
		ex := sel.Fields[0].(parser.Field).Object
		scope := query.NewReferenceScope(tx)
		for name, v := range g.vars {
			_ = scope.DeclareVariableDirectly(parser.Variable{Name: name}, v)
		}
		term, ok := exprToCoq(ex, g.vars)
		if !ok {
			meta.Distribution["expr:skipped-outside-fragment"]++
			continue
		}
		p, err := query.Evaluate(ctx, scope, ex)
		w.add("ecases:ecase", fmt.Sprintf("mkE %s %s %s", coqN(id), term, obsRes(p, err)))
		vars := map[string]string{}
		for n, v := range g.vars {
			vars["@"+n] = showVal(v)
		}
		c := map[string]interface{}{"kind": "expr", "sql": text, "vars": vars, "observed": showRes(p, err)}
		meta.Cases[fmt.Sprint(id)] = c
		if len(meta.Samples) < 6 && i%211 == 7 {
			meta.Samples = append(meta.Samples, c)
		}
		meta.Evaluations++
		meta.Distribution["expr:"+g.top]++
		if err != nil {
			meta.Distribution["expr-result:error"]++
		} else {
			meta.Distribution["expr-result:"+classOf(p)]++
		}
		exprSeen[text+fmt.Sprint(vars)] = true
		id++
	}
	w.flush()
	meta.Distinct = len(sig) + len(exprSeen)
	meta.write(out)
}

// ---- expression generator: text over variables @v0.. bound to arbitrary values ---------------
type exprGen struct {
	r    *rand.Rand
	pool []value.Primary
	vars map[string]value.Primary
	top  string
}

func (g *exprGen) atom() string {
	switch g.r.Intn(8) {
	case 0:
		return fmt.Sprint(g.r.Intn(7))
	case 1:
		return []string{"1.5", "2.0", "0.5", "3.25"}[g.r.Intn(4)]
	case 2:
		return []string{"'1'", "'abc'", "' 2 '", "'true'", "'2012-02-03'", "''"}[g.r.Intn(6)]
	case 3:
		return []string{"NULL", "TRUE", "FALSE", "UNKNOWN"}[g.r.Intn(4)]
	default:
		name := fmt.Sprintf("v%d", len(g.vars))
		g.vars[name] = randVal(g.r, g.pool)
		return "@" + name
	}
}

func (g *exprGen) list(d int) string {
	n := 1 + g.r.Intn(4)
	items := make([]string, n)
	for i := range items {
		items[i] = g.gen(d - 1)
	}
	return "(" + strings.Join(items, ", ") + ")"
}

func (g *exprGen) gen(d int) string {
	if d <= 0 {
		return g.atom()
	}
	k := g.r.Intn(14)
	kind := []string{"atom", "arith", "cmp", "is", "between", "in", "any", "all", "case", "case-value", "and", "or", "not", "unary"}[k]
	if g.top == "" || d == 3 {
		g.top = kind
	}
	sub := func() string { return g.gen(d - 1) }
	cmp := []string{"=", "==", ">", "<", ">=", "<=", "<>", "!="}[g.r.Intn(8)]
	switch kind {
	case "atom":
		return g.atom()
	case "arith":
		return "(" + sub() + " " + []string{"+", "-", "*", "/", "%"}[g.r.Intn(5)] + " " + sub() + ")"
	case "cmp":
		return "(" + sub() + " " + cmp + " " + sub() + ")"
	case "is":
		return "(" + sub() + " IS " + []string{"", "NOT "}[g.r.Intn(2)] + []string{"NULL", "TRUE", "FALSE", "UNKNOWN"}[g.r.Intn(4)] + ")"
	case "between":
		return "(" + sub() + []string{" BETWEEN ", " NOT BETWEEN "}[g.r.Intn(2)] + g.gen(d-2) + " AND " + g.gen(d-2) + ")"
	case "in":
		return "(" + sub() + []string{" IN ", " NOT IN "}[g.r.Intn(2)] + g.list(d-1) + ")"
	case "any":
		return "(" + sub() + " " + cmp + " ANY " + g.list(d-1) + ")"
	case "all":
		return "(" + sub() + " " + cmp + " ALL " + g.list(d-1) + ")"
	case "case":
		s := "CASE"
		for i := 0; i <= g.r.Intn(3); i++ {
			s += " WHEN " + sub() + " THEN " + sub()
		}
		if g.r.Intn(2) == 0 {
			s += " ELSE " + sub()
		}
		return s + " END"
	case "case-value":
		s := "CASE " + sub()
		for i := 0; i <= g.r.Intn(3); i++ {
			s += " WHEN " + sub() + " THEN " + sub()
		}
		if g.r.Intn(2) == 0 {
			s += " ELSE " + sub()
		}
		return s + " END"
	case "and":
		return "(" + sub() + " AND " + sub() + ")"
	case "or":
		return "(" + sub() + " OR " + sub() + ")"
	case "not":
		return "(NOT " + sub() + ")"
	default:
		return "(" + []string{"-", "+"}[g.r.Intn(2)] + sub() + ")"
	}
}

// ---- parser AST -> Coq expr (the fragment of Csvq.Model.Expr) -----------------------------------
func copToCoq(lit string) (string, bool) {
	switch lit {
	case "=":
		return "OpEq", true
	case "==":
		return "OpIdent", true
	case ">":
		return "OpGt", true
	case "<":
		return "OpLt", true
	case ">=":
		return "OpGe", true
	case "<=":
		return "OpLe", true
	case "<>", "!=":
		return "OpNe", true
	}
	return "", false
}

func exprListToCoq(e parser.QueryExpression, vars map[string]value.Primary) (string, bool) {
	// x IN (a, b, c): Values = RowValue{ValueList}
	rv, ok := e.(parser.RowValue)
	if !ok {
		return "", false
	}
	vl, ok := rv.Value.(parser.ValueList)
	if !ok {
		return "", false
	}
	items := make([]string, len(vl.Values))
	for i, v := range vl.Values {
		t, ok := exprToCoq(v, vars)
		if !ok {
			return "", false
		}
		items[i] = t
	}
	return coqList(items), true
}

func exprToCoq(e parser.QueryExpression, vars map[string]value.Primary) (string, bool) {
	switch x := e.(type) {
	case parser.PrimitiveType:
		return "(ELit " + coqVal(x.Value) + ")", true
	case parser.Variable:
		v, ok := vars[x.Name]
		if !ok {
			return "", false
		}
		return "(ELit " + coqVal(v) + ")", true
	case parser.Parentheses:
		return exprToCoq(x.Expr, vars)
	case parser.Arithmetic:
		a, ok1 := exprToCoq(x.LHS, vars)
		b, ok2 := exprToCoq(x.RHS, vars)
		op := map[int]string{'+': "APlus", '-': "AMinus", '*': "AMul", '/': "ADiv", '%': "AMod"}[x.Operator.Token]
		if !ok1 || !ok2 || op == "" {
			return "", false
		}
		return fmt.Sprintf("(EArith %s %s %s)", op, a, b), true
	case parser.UnaryArithmetic:
		a, ok := exprToCoq(x.Operand, vars)
		if !ok {
			return "", false
		}
		return fmt.Sprintf("(EUnary %s %s)", coqBool(x.Operator.Token == '-'), a), true
	case parser.Comparison:
		a, ok1 := exprToCoq(x.LHS, vars)
		b, ok2 := exprToCoq(x.RHS, vars)
		op, ok3 := copToCoq(x.Operator.Literal)
		if !ok1 || !ok2 || !ok3 {
			return "", false
		}
		return fmt.Sprintf("(ECmp %s %s %s)", op, a, b), true
	case parser.Is:
		a, ok1 := exprToCoq(x.LHS, vars)
		b, ok2 := exprToCoq(x.RHS, vars)
		if !ok1 || !ok2 {
			return "", false
		}
		return fmt.Sprintf("(EIs %s %s %s)", coqBool(x.IsNegated()), a, b), true
	case parser.Between:
		a, ok1 := exprToCoq(x.LHS, vars)
		lo, ok2 := exprToCoq(x.Low, vars)
		hi, ok3 := exprToCoq(x.High, vars)
		if !ok1 || !ok2 || !ok3 {
			return "", false
		}
		return fmt.Sprintf("(EBetween %s %s %s %s)", coqBool(x.IsNegated()), a, lo, hi), true
	case parser.In:
		a, ok1 := exprToCoq(x.LHS, vars)
		l, ok2 := exprListToCoq(x.Values, vars)
		if !ok1 || !ok2 {
			return "", false
		}
		return fmt.Sprintf("(EIn %s %s %s)", coqBool(x.IsNegated()), a, l), true
	case parser.Any:
		a, ok1 := exprToCoq(x.LHS, vars)
		l, ok2 := exprListToCoq(x.Values, vars)
		op, ok3 := copToCoq(x.Operator.Literal)
		if !ok1 || !ok2 || !ok3 {
			return "", false
		}
		return fmt.Sprintf("(EAny %s %s %s)", op, a, l), true
	case parser.All:
		a, ok1 := exprToCoq(x.LHS, vars)
		l, ok2 := exprListToCoq(x.Values, vars)
		op, ok3 := copToCoq(x.Operator.Literal)
		if !ok1 || !ok2 || !ok3 {
			return "", false
		}
		return fmt.Sprintf("(EAll %s %s %s)", op, a, l), true
	case parser.CaseExpr:
		v := "None"
		if x.Value != nil {
			t, ok := exprToCoq(x.Value, vars)
			if !ok {
				return "", false
			}
			v = "(Some " + t + ")"
		}
		var ws []string
		for _, wn := range x.When {
			cw := wn.(parser.CaseExprWhen)
			c, ok1 := exprToCoq(cw.Condition, vars)
			rr, ok2 := exprToCoq(cw.Result, vars)
			if !ok1 || !ok2 {
				return "", false
			}
			ws = append(ws, "("+c+", "+rr+")")
		}
		el := "None"
		if x.Else != nil {
			t, ok := exprToCoq(x.Else.(parser.CaseExprElse).Result, vars)
			if !ok {
				return "", false
			}
			el = "(Some " + t + ")"
		}
		return fmt.Sprintf("(ECase %s %s %s)", v, coqList(ws), el), true
	case parser.Logic:
		a, ok1 := exprToCoq(x.LHS, vars)
		b, ok2 := exprToCoq(x.RHS, vars)
		if !ok1 || !ok2 {
			return "", false
		}
		if x.Operator.Token == parser.AND {
			return fmt.Sprintf("(EAnd %s %s)", a, b), true
		}
		if x.Operator.Token == parser.OR {
			return fmt.Sprintf("(EOr %s %s)", a, b), true
		}
		return "", false
	case parser.UnaryLogic:
		a, ok := exprToCoq(x.Operand, vars)
		if !ok {
			return "", false
		}
		return "(ENot " + a + ")", true
	}
	return "", false
}
