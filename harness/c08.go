package main

// C08: a statement that fails leaves every table exactly as it was.
// Interactive-shell discipline through the library: ONE Transaction, statements executed one at a
// time with Processor.Execute on a single statement, execution continues after an error.  Fault
// matrix = statement kind x failure kind x position of the failing row x table kind x state of
// the table before the statement.  After every step ALL visible tables are read.

import (
	"context"
	"fmt"
	"math/rand"
	"os"
	"path/filepath"
	"sort"
	"strings"
	"time"

	"github.com/mithrandie/csvq/lib/query"
)

func init() { runners["C08"] = runC08 }

// ---- recorder: executes statements on a libSess and records the item list -----------------------
type recorder struct {
	s      *libSess
	w      *txnShard
	items  []string
	show   []interface{}
	nfiles int // universe of file keys 0..nfiles-1
	ntemps int
	notes  []string
}

func (r *recorder) emit(term string, show interface{}) {
	r.items = append(r.items, term)
	if show != nil {
		r.show = append(r.show, show)
	}
}

type effect struct {
	kind    string // change | create | declare | commit | rollback | read | readfu | fail | none
	file    int    // target file key (-1: none)
	temp    int    // target temporary table key (-1: none)
	always  bool   // ALTER: marked whatever the count
	touched []int  // fail: file tables loaded for update before the error
	reads   []int  // file tables loaded by a plain SELECT inside the statement (sub-queries, sources), in order
	create  bool   // fail: the statement is a CREATE TABLE of e.file
}

func targetEff(kind string, isTemp bool, k int) effect {
	e := effect{kind: kind, file: -1, temp: -1}
	if isTemp {
		e.temp = k
	} else {
		e.file = k
	}
	return e
}

// do executes one statement and records its abstract effect; returns (error, flow is EXIT)
func (r *recorder) do(ctx context.Context, sql string, e effect) (error, bool) {
	flow, affected, err := r.s.execOne(ctx, sql)
	for _, k := range e.reads {
		r.emit(fmt.Sprintf("IOp (SRead %s)", coqN(k)), nil)
	}
	if err != nil {
		var touched []int
		switch e.kind {
		case "fail":
			touched = e.touched
		case "change", "readfu":
			if e.file >= 0 {
				touched = []int{e.file}
			}
		}
		r.emit(fmt.Sprintf("IOp (SFail %s)", coqKeys(touched)), map[string]interface{}{"sql": sql, "error": err.Error()})
		return err, false
	}
	shown := map[string]interface{}{"sql": sql}
	switch e.kind {
	case "fail":
		// expected to fail but did not: outside the planned matrix
		r.notes = append(r.notes, "expected-failure-did-not-fail: "+sql)
		if e.create {
			t, rerr := r.s.read(fileSQL(e.file))
			if rerr != nil {
				panic("harness: cannot read back created " + fileSQL(e.file) + ": " + rerr.Error())
			}
			r.emit(fmt.Sprintf("IOp (SCreate %s %s)", coqN(e.file), r.w.tabRef(t)), shown)
			break
		}
		fallthrough
	case "change":
		mk := e.always || affected > 0
		if e.file >= 0 {
			t, rerr := r.s.read(fileSQL(e.file))
			if rerr != nil {
				panic("harness: cannot read back " + fileSQL(e.file) + ": " + rerr.Error())
			}
			r.emit(fmt.Sprintf("IOp (SChange %s %s %s)", coqN(e.file), coqBool(mk), r.w.tabRef(t)), shown)
			shown["affected"], shown["table_after"] = affected, showTab(t)
		} else if e.temp >= 0 {
			t, rerr := r.s.read(tempName(e.temp))
			if rerr != nil {
				panic("harness: cannot read back " + tempName(e.temp) + ": " + rerr.Error())
			}
			r.emit(fmt.Sprintf("IOp (SChangeTemp %s %s %s)", coqN(e.temp), coqBool(mk), r.w.tabRef(t)), shown)
			shown["affected"], shown["table_after"] = affected, showTab(t)
		} else {
			r.notes = append(r.notes, "statement without target succeeded: "+sql)
		}
	case "create":
		t, rerr := r.s.read(fileSQL(e.file))
		if rerr != nil {
			panic("harness: cannot read back created " + fileSQL(e.file) + ": " + rerr.Error())
		}
		r.emit(fmt.Sprintf("IOp (SCreate %s %s)", coqN(e.file), r.w.tabRef(t)), shown)
		shown["table_after"] = showTab(t)
	case "declare":
		t, rerr := r.s.read(tempName(e.temp))
		if rerr != nil {
			panic("harness: cannot read back declared " + tempName(e.temp) + ": " + rerr.Error())
		}
		r.emit(fmt.Sprintf("IOp (SDeclareTemp %s %s)", coqN(e.temp), r.w.tabRef(t)), shown)
		shown["table_after"] = showTab(t)
	case "commit":
		r.emit("IOp SCommit", shown)
	case "rollback":
		r.emit("IOp SRollback", shown)
	case "read":
		r.emit(fmt.Sprintf("IOp (SRead %s)", coqN(e.file)), shown)
	case "readfu":
		r.emit(fmt.Sprintf("IOp (SReadFU %s)", coqN(e.file)), shown)
	case "none":
	}
	return nil, flow == query.Exit
}

// observe reads every table of the universe (a plain SELECT *, as the next statement of the same
// transaction would) and records the transaction's cache / uncommitted maps and the directory
func (r *recorder) observe(tag string) {
	obs := map[string]interface{}{}
	for k := 0; k < r.nfiles; k++ {
		t, err := r.s.read(fileSQL(k))
		r.emit(fmt.Sprintf("IRead %s %s", coqN(k), r.w.optTabRef(t, err == nil)), nil)
		if err == nil {
			obs[fileName(k)] = showTab(t)
		} else {
			obs[fileName(k)] = "error: " + err.Error()
		}
	}
	for k := 0; k < r.ntemps; k++ {
		t, err := r.s.read(tempName(k))
		r.emit(fmt.Sprintf("IReadT %s %s", coqN(k), r.w.optTabRef(t, err == nil)), nil)
		if err == nil {
			obs[tempName(k)] = showTab(t)
		} else {
			obs[tempName(k)] = "error"
		}
	}
	r.white()
	r.files()
	r.show = append(r.show, map[string]interface{}{"observe": tag, "tables": obs})
}

func (r *recorder) white() {
	w := r.s.white()
	if len(w.Unknown) > 0 {
		r.notes = append(r.notes, "unknown keys in the transaction maps: "+strings.Join(w.Unknown, ","))
	}
	r.emit(w.coq(), map[string]interface{}{"transaction": w.show()})
}

func (r *recorder) files() {
	ents, err := os.ReadDir(r.s.dir)
	if err != nil {
		panic(err)
	}
	var ks []int
	for _, e := range ents {
		if k := fileKeyOf(e.Name()); k >= 0 && e.Name() == fileName(k) {
			ks = append(ks, k)
		}
	}
	sort.Ints(ks)
	r.emit("IFiles "+coqKeys(ks), nil)
}

func (r *recorder) disk(init map[int]initTab) dirObs {
	o := observeDir(r.s.dir, init)
	r.emit("IDisk "+func() string {
		ks := make([]int, 0, len(o.Files))
		for k := range o.Files {
			ks = append(ks, k)
		}
		sort.Ints(ks)
		items := make([]string, len(ks))
		for i, k := range ks {
			items[i] = fmt.Sprintf("(%s, %s)", coqN(k), r.w.tabRef(o.Files[k]))
		}
		return coqList(items)
	}(), map[string]interface{}{"directory": o.show()})
	if len(o.Bad) > 0 {
		r.notes = append(r.notes, "unreadable table files: "+strings.Join(o.Bad, "; "))
	}
	return o
}

func (r *recorder) coqItems() string { return "[" + strings.Join(r.items, ";\n   ") + "]" }

func coqD0Ref(w *txnShard, init map[int]initTab) string {
	ks := make([]int, 0, len(init))
	for k := range init {
		ks = append(ks, k)
	}
	sort.Ints(ks)
	items := make([]string, len(ks))
	for i, k := range ks {
		items[i] = fmt.Sprintf("(%s, %s)", coqN(k), w.tabRef(init[k].tab()))
	}
	return coqList(items)
}

// ---- the fault matrix -------------------------------------------------------------------------------
type c08Fault struct {
	stmt, fail string
	rowDep     bool // the failure strikes at row K
	// sql for target table T (SQL name), aux table A, position K (1-based), n rows
	sql func(T, A string, K, n int) string
	// effects besides the error: file tables loaded for update / read plainly (targetIsFile: T is f0)
	touchT  bool // T is loaded for update before the error
	touchA  bool // A too (it is in the FROM clause of an UPDATE)
	readA   bool // A is loaded by a plain SELECT before the error
	readT   bool // T is loaded by a plain SELECT (CREATE TABLE ... AS SELECT ... FROM T)
	create  bool // CREATE TABLE: target is the new file f2
	// the statement's target f2 was created (and filled) earlier in this transaction: the failing CREATE TABLE
	// must leave that uncommitted file, its rows and its handler alone
	createdHere bool
}

func valuesRows(n, K int, bad string) string {
	rows := make([]string, n)
	for i := 1; i <= n; i++ {
		if i == K {
			rows[i-1] = bad
		} else {
			rows[i-1] = fmt.Sprintf("(%d, %d, 'n%d')", 100+i, i, i)
		}
	}
	return strings.Join(rows, ", ")
}
func replaceRows(n, K int, bad string) string {
	rows := make([]string, n)
	for i := 1; i <= n; i++ {
		if i == K {
			rows[i-1] = bad
		} else {
			rows[i-1] = fmt.Sprintf("(%d, %d, 'p%d')", i, 1000+i, i)
		}
	}
	return strings.Join(rows, ", ")
}

var c08Faults = []c08Fault{
	// UPDATE
	{stmt: "UPDATE", fail: "div0-in-SET", rowDep: true, touchT: true, sql: func(T, A string, K, n int) string {
		return fmt.Sprintf("UPDATE %s SET c2 = 100 / (c1 - %d)", T, K)
	}},
	{stmt: "UPDATE", fail: "div0-in-second-SET", rowDep: true, touchT: true, sql: func(T, A string, K, n int) string {
		return fmt.Sprintf("UPDATE %s SET c3 = 'z', c2 = 100 / (c1 - %d)", T, K)
	}},
	{stmt: "UPDATE", fail: "div0-in-WHERE", rowDep: true, touchT: true, sql: func(T, A string, K, n int) string {
		return fmt.Sprintf("UPDATE %s SET c2 = 0 WHERE 100 / (c1 - %d) > 0", T, K)
	}},
	{stmt: "UPDATE", fail: "unknown-field-in-SET", touchT: true, sql: func(T, A string, K, n int) string {
		return fmt.Sprintf("UPDATE %s SET nosuch = 1", T)
	}},
	{stmt: "UPDATE", fail: "unknown-field-in-value", touchT: true, sql: func(T, A string, K, n int) string {
		return fmt.Sprintf("UPDATE %s SET c2 = nosuch", T)
	}},
	{stmt: "UPDATE", fail: "ambiguous-update", rowDep: true, touchT: true, touchA: true, sql: func(T, A string, K, n int) string {
		return fmt.Sprintf("UPDATE t SET t.c2 = a.v FROM %s t JOIN %s a ON a.k = t.c1", T, A)
	}},
	{stmt: "UPDATE", fail: "subquery-too-many-records", touchT: true, readA: true, sql: func(T, A string, K, n int) string {
		return fmt.Sprintf("UPDATE %s SET c2 = (SELECT v FROM %s)", T, A)
	}},
	{stmt: "UPDATE", fail: "subquery-unknown-table", touchT: true, sql: func(T, A string, K, n int) string {
		return fmt.Sprintf("UPDATE %s SET c2 = (SELECT v FROM nosuch)", T)
	}},
	// INSERT ... VALUES
	{stmt: "INSERT VALUES", fail: "div0-in-VALUES-row", rowDep: true, touchT: true, sql: func(T, A string, K, n int) string {
		return fmt.Sprintf("INSERT INTO %s VALUES %s", T, valuesRows(n, K, fmt.Sprintf("(%d, 1/0, 'bad')", 100+K)))
	}},
	{stmt: "INSERT VALUES", fail: "wrong-row-length", rowDep: true, touchT: true, sql: func(T, A string, K, n int) string {
		return fmt.Sprintf("INSERT INTO %s VALUES %s", T, valuesRows(n, K, fmt.Sprintf("(%d, 1)", 100+K)))
	}},
	{stmt: "INSERT VALUES", fail: "unknown-field", touchT: true, sql: func(T, A string, K, n int) string {
		return fmt.Sprintf("INSERT INTO %s (c1, nosuch) VALUES (1, 2)", T)
	}},
	{stmt: "INSERT VALUES", fail: "subquery-too-many-records", touchT: true, readA: true, sql: func(T, A string, K, n int) string {
		return fmt.Sprintf("INSERT INTO %s VALUES (777, (SELECT v FROM %s), 'x')", T, A)
	}},
	// INSERT ... SELECT
	{stmt: "INSERT SELECT", fail: "div0-in-source-row", rowDep: true, touchT: true, readA: true, sql: func(T, A string, K, n int) string {
		return fmt.Sprintf("INSERT INTO %s SELECT k, 100 / (k - %d), 'n' FROM %s", T, K, A)
	}},
	{stmt: "INSERT SELECT", fail: "field-length", touchT: true, readA: true, sql: func(T, A string, K, n int) string {
		return fmt.Sprintf("INSERT INTO %s SELECT k FROM %s", T, A)
	}},
	{stmt: "INSERT SELECT", fail: "unknown-table", touchT: true, sql: func(T, A string, K, n int) string {
		return fmt.Sprintf("INSERT INTO %s SELECT * FROM nosuch", T)
	}},
	{stmt: "INSERT SELECT", fail: "div0-selecting-from-itself", rowDep: true, touchT: true, sql: func(T, A string, K, n int) string {
		return fmt.Sprintf("INSERT INTO %s SELECT c1, 100 / (c1 - %d), c3 FROM %s", T, K, T)
	}},
	// DELETE
	{stmt: "DELETE", fail: "div0-in-WHERE", rowDep: true, touchT: true, sql: func(T, A string, K, n int) string {
		return fmt.Sprintf("DELETE FROM %s WHERE 100 / (c1 - %d) > 0", T, K)
	}},
	{stmt: "DELETE", fail: "unknown-field", touchT: true, sql: func(T, A string, K, n int) string {
		return fmt.Sprintf("DELETE FROM %s WHERE nosuch = 1", T)
	}},
	{stmt: "DELETE", fail: "subquery-too-many-records", touchT: true, readA: true, sql: func(T, A string, K, n int) string {
		return fmt.Sprintf("DELETE FROM %s WHERE c2 = (SELECT v FROM %s)", T, A)
	}},
	// REPLACE
	{stmt: "REPLACE", fail: "div0-in-VALUES-row", rowDep: true, touchT: true, sql: func(T, A string, K, n int) string {
		return fmt.Sprintf("REPLACE INTO %s (c1, c2, c3) USING (c1) VALUES %s", T, replaceRows(n, K, fmt.Sprintf("(%d, 1/0, 'bad')", K)))
	}},
	{stmt: "REPLACE", fail: "wrong-row-length", rowDep: true, touchT: true, sql: func(T, A string, K, n int) string {
		return fmt.Sprintf("REPLACE INTO %s (c1, c2, c3) USING (c1) VALUES %s", T, replaceRows(n, K, fmt.Sprintf("(%d, 1)", K)))
	}},
	{stmt: "REPLACE", fail: "key-not-set", touchT: true, sql: func(T, A string, K, n int) string {
		return fmt.Sprintf("REPLACE INTO %s (c2, c3) USING (c1) VALUES (1, 'x')", T)
	}},
	{stmt: "REPLACE", fail: "unknown-key-field", touchT: true, sql: func(T, A string, K, n int) string {
		return fmt.Sprintf("REPLACE INTO %s (c1, c2, c3) USING (nosuch) VALUES (1, 2, 'x')", T)
	}},
	{stmt: "REPLACE", fail: "div0-in-source-row", rowDep: true, touchT: true, readA: true, sql: func(T, A string, K, n int) string {
		return fmt.Sprintf("REPLACE INTO %s (c1, c2, c3) USING (c1) SELECT k, 100 / (k - %d), 'n' FROM %s", T, K, A)
	}},
	// CREATE TABLE (the new file is f2)
	{stmt: "CREATE TABLE", fail: "duplicate-column", create: true, sql: func(T, A string, K, n int) string {
		return fmt.Sprintf("CREATE TABLE %s (a, a)", fileSQL(2))
	}},
	{stmt: "CREATE TABLE", fail: "div0-in-source-row", rowDep: true, create: true, readT: true, sql: func(T, A string, K, n int) string {
		return fmt.Sprintf("CREATE TABLE %s (a, b) AS SELECT c1, 100 / (c1 - %d) FROM %s", fileSQL(2), K, T)
	}},
	{stmt: "CREATE TABLE", fail: "field-length", create: true, readT: true, sql: func(T, A string, K, n int) string {
		return fmt.Sprintf("CREATE TABLE %s (a) AS SELECT c1, c2 FROM %s", fileSQL(2), T)
	}},
	{stmt: "CREATE TABLE", fail: "file-exists", create: true, sql: func(T, A string, K, n int) string {
		return fmt.Sprintf("CREATE TABLE %s (a, b)", fileSQL(0))
	}},
	{stmt: "CREATE TABLE", fail: "file-exists-created-in-this-transaction", create: true, createdHere: true, sql: func(T, A string, K, n int) string {
		return fmt.Sprintf("CREATE TABLE %s (x)", fileSQL(2))
	}},
	{stmt: "CREATE TABLE", fail: "unknown-source-table", create: true, sql: func(T, A string, K, n int) string {
		return fmt.Sprintf("CREATE TABLE %s AS SELECT * FROM nosuch", fileSQL(2))
	}},
	// ALTER TABLE ADD
	{stmt: "ALTER ADD", fail: "div0-in-default", rowDep: true, touchT: true, sql: func(T, A string, K, n int) string {
		return fmt.Sprintf("ALTER TABLE %s ADD (x DEFAULT 100 / (c1 - %d))", T, K)
	}},
	{stmt: "ALTER ADD", fail: "div0-in-second-default", rowDep: true, touchT: true, sql: func(T, A string, K, n int) string {
		return fmt.Sprintf("ALTER TABLE %s ADD (x DEFAULT 1, y DEFAULT 100 / (c1 - %d)) FIRST", T, K)
	}},
	{stmt: "ALTER ADD", fail: "duplicate-of-existing-column", touchT: true, sql: func(T, A string, K, n int) string {
		return fmt.Sprintf("ALTER TABLE %s ADD (c2)", T)
	}},
	{stmt: "ALTER ADD", fail: "duplicate-new-column", touchT: true, sql: func(T, A string, K, n int) string {
		return fmt.Sprintf("ALTER TABLE %s ADD (x, x)", T)
	}},
	{stmt: "ALTER ADD", fail: "unknown-position-column", touchT: true, sql: func(T, A string, K, n int) string {
		return fmt.Sprintf("ALTER TABLE %s ADD x AFTER nosuch", T)
	}},
	{stmt: "ALTER ADD", fail: "unknown-field-in-default", touchT: true, sql: func(T, A string, K, n int) string {
		return fmt.Sprintf("ALTER TABLE %s ADD (x DEFAULT nosuch)", T)
	}},
	// ALTER TABLE DROP / RENAME
	{stmt: "ALTER DROP", fail: "unknown-field", touchT: true, sql: func(T, A string, K, n int) string {
		return fmt.Sprintf("ALTER TABLE %s DROP nosuch", T)
	}},
	{stmt: "ALTER DROP", fail: "second-field-unknown", touchT: true, sql: func(T, A string, K, n int) string {
		return fmt.Sprintf("ALTER TABLE %s DROP (c2, nosuch)", T)
	}},
	{stmt: "ALTER RENAME", fail: "duplicate-column", touchT: true, sql: func(T, A string, K, n int) string {
		return fmt.Sprintf("ALTER TABLE %s RENAME c2 TO c3", T)
	}},
	{stmt: "ALTER RENAME", fail: "unknown-field", touchT: true, sql: func(T, A string, K, n int) string {
		return fmt.Sprintf("ALTER TABLE %s RENAME nosuch TO z", T)
	}},
}

var c08Pre = []string{"not-loaded", "loaded-by-select", "changed-uncommitted", "changed-committed-then-selected", "altered-uncommitted"}

func c08Target(n int) initTab {
	t := initTab{Header: []string{"c1", "c2", "c3"}}
	for i := 1; i <= n; i++ {
		t.Rows = append(t.Rows, strCells(fmt.Sprint(i), fmt.Sprint(10*i), fmt.Sprintf("r%d", i)))
	}
	return t
}

// aux table: one row per key 1..n, the key K twice (so that a join makes the K-th target row
// ambiguous, and a scalar sub-query over it returns too many records)
func c08Aux(n, K int) initTab {
	t := initTab{Header: []string{"k", "v"}}
	for i := 1; i <= n; i++ {
		t.Rows = append(t.Rows, strCells(fmt.Sprint(i), fmt.Sprint(100+i)))
		if i == K {
			t.Rows = append(t.Rows, strCells(fmt.Sprint(i), fmt.Sprint(200+i)))
		}
	}
	if n == 1 && K != 1 {
		t.Rows = append(t.Rows, strCells("1", "201"))
	}
	return t
}

type c08Plan struct {
	f      c08Fault
	n, K   int
	isTemp bool
	pre    string
	end    string // commit | rollback
}

func runC08(seed int64, tier string, out string) {
	rnd := rand.New(rand.NewSource(seed))
	meta := newMeta("C08", seed)
	meta.Rule = "fault matrix: statement kind (UPDATE / INSERT VALUES / INSERT SELECT / DELETE / REPLACE / CREATE TABLE / ALTER ADD / DROP / RENAME) x failure kind (division by zero in a SET / VALUES / WHERE / DEFAULT / source row, wrong row length in the K-th VALUES row, unknown field, ambiguous update, failing sub-query, duplicate column, key not set, file exists, cancellation - by a timer and, for a list of single-table statements that are the first to load their table and of two-table UPDATE / DELETE statements over files and temporary tables, at every single point where the statement looks at its context; refused ALTER TABLE .. SET statements on JSON / JSONL / CSV / LTSV tables followed by a change of format and COMMIT, compared byte for byte with the same session without the refused statement) x position K of the failing row (first / middle / last; every row in the thorough tier for tables up to 8 rows) x table kind (file / temporary) x state before (not loaded / loaded by SELECT / changed, uncommitted / changed, committed / altered; all five for failures that do not depend on a row; CREATE TABLE also of a file created earlier in the same transaction). One interactive Transaction per case; after every step every visible table is read. Distinct = distinct (statement, failure, K, n, table kind, state before) tuples whose statement really returned an error."
	w := &txnShard{dir: out, prop: "C08", max: 150, meta: meta, caseType: "c08case", checkFn: "check_c08",
		header: fmt.Sprintf(txnShardHeader, "Csvq.Harness.H08")}

	// ---- plan ----------------------------------------------------------------------------------
	var plans []c08Plan
	sizes := map[int][]int{5: {1, 3, 5}, 2: {1, 2}, 1: {1}}
	order := []int{5, 2, 1}
	if tier == "thorough" {
		sizes = map[int][]int{1: {1}, 2: {1, 2}, 3: {1, 2, 3}, 4: {1, 2, 3, 4}, 5: {1, 2, 3, 4, 5}, 6: {1, 2, 3, 4, 5, 6}, 8: {1, 2, 3, 4, 5, 6, 7, 8}}
		order = []int{1, 2, 3, 4, 5, 6, 8}
	}
	ci := 0
	for _, f := range c08Faults {
		for _, isTemp := range []bool{false, true} {
			var nks [][2]int
			if f.rowDep {
				for _, n := range order {
					for _, K := range sizes[n] {
						nks = append(nks, [2]int{n, K})
					}
				}
			} else {
				nks = [][2]int{{3, 2}}
				if tier == "thorough" {
					nks = append(nks, [2]int{1, 1}, [2]int{8, 5})
				}
			}
			for _, nk := range nks {
				pres := c08Pre
				if tier != "thorough" && f.rowDep {
					// two of the states per point, rotating, so that every (fault, state) pair occurs
					pres = []string{c08Pre[ci%len(c08Pre)], c08Pre[(ci+2)%len(c08Pre)]}
				}
				for _, pre := range pres {
					end := "commit"
					if ci%3 == 2 {
						end = "rollback"
					}
					plans = append(plans, c08Plan{f: f, n: nk[0], K: nk[1], isTemp: isTemp, pre: pre, end: end})
					ci++
				}
			}
		}
	}

	seen := map[string]bool{}
	id := 0
	ctx := context.Background()
	for _, p := range plans {
		func() {
			sc := newScratch()
			defer sc.Close()
			defer func() {
				if e := recover(); e != nil {
					meta.Direct = append(meta.Direct, DirectViolation{Key: "unexpected-failure", What: "the implementation failed where the harness needs it to work (reading a table back, COMMIT, ...): " + fmt.Sprint(e),
						Case: map[string]interface{}{"statement": p.f.stmt, "failure": p.f.fail, "rows": p.n, "failing_row": p.K, "temporary": p.isTemp, "state_before": p.pre}})
				}
			}()
			init := map[int]initTab{0: c08Target(p.n), 1: c08Aux(p.n, p.K)}
			writeInit(sc.Dir, init)
			s := newLibSess(sc.Dir, 5)
			r := &recorder{s: s, w: w, nfiles: 3, ntemps: 1}
			T, A := fileSQL(0), fileSQL(1)
			if p.isTemp {
				T = tempName(0)
				// the temporary table gets the same rows as f0 would have, then a restore point
				r.do(ctx, "DECLARE tt0 VIEW (c1, c2, c3)", effect{kind: "declare", file: -1, temp: 0})
				var rows []string
				for i := 1; i <= p.n; i++ {
					rows = append(rows, fmt.Sprintf("(%d, %d, 'r%d')", i, 10*i, i))
				}
				r.do(ctx, "INSERT INTO tt0 VALUES "+strings.Join(rows, ", "), targetEff("change", true, 0))
				r.do(ctx, "COMMIT", effect{kind: "commit", file: -1, temp: -1})
			}
			tEff := func(kind string) effect { return targetEff(kind, p.isTemp, 0) }
			switch p.pre {
			case "loaded-by-select":
				if p.isTemp {
					r.do(ctx, "SELECT * FROM "+T, effect{kind: "none"})
				} else {
					r.do(ctx, "SELECT * FROM "+T, effect{kind: "read", file: 0, temp: -1})
				}
			case "changed-uncommitted":
				r.do(ctx, fmt.Sprintf("UPDATE %s SET c3 = 'pre' WHERE c1 = 1", T), tEff("change"))
			case "changed-committed-then-selected":
				r.do(ctx, fmt.Sprintf("INSERT INTO %s VALUES (50, 500, 'pre')", T), tEff("change"))
				r.do(ctx, "COMMIT", effect{kind: "commit", file: -1, temp: -1})
				if !p.isTemp {
					r.do(ctx, "SELECT * FROM "+T, effect{kind: "read", file: 0, temp: -1})
				}
			case "altered-uncommitted":
				e := tEff("change")
				e.always = true
				r.do(ctx, fmt.Sprintf("ALTER TABLE %s ADD (w DEFAULT 7)", T), e)
			}
			if p.pre == "altered-uncommitted" && (strings.Contains(p.f.fail, "row-length") || p.f.stmt == "INSERT SELECT" || strings.HasPrefix(p.f.fail, "div0-in-VALUES") && p.f.stmt == "INSERT VALUES") {
				// the planned statement assumes three columns
				meta.Distribution["skipped:needs-3-columns"]++
				_ = s.finish(false)
				return
			}
			if p.f.createdHere {
				r.do(ctx, fmt.Sprintf("CREATE TABLE %s (a, b)", fileSQL(2)), effect{kind: "create", file: 2, temp: -1})
				r.do(ctx, fmt.Sprintf("INSERT INTO %s VALUES (1, 2), (3, 4)", fileSQL(2)), effect{kind: "change", file: 2, temp: -1})
			}
			r.observe("before")

			// ---- the failing statement ---------------------------------------------------------
			sql := p.f.sql(T, A, p.K, p.n)
			fe := effect{kind: "fail", file: -1, temp: -1}
			if p.f.create {
				fe.file = 2
				fe.create = true
			} else if p.isTemp {
				fe.temp = 0
			} else {
				fe.file = 0
			}
			if p.f.touchT && !p.isTemp {
				fe.touched = append(fe.touched, 0)
			}
			if p.f.touchA {
				fe.touched = append(fe.touched, 1)
			}
			if p.f.readT && !p.isTemp {
				fe.reads = append(fe.reads, 0)
			}
			if p.f.readA {
				fe.reads = append(fe.reads, 1)
			}
			err, _ := r.do(ctx, sql, fe)
			failed := err != nil
			r.observe("after the failing statement")

			// ---- life goes on: a successful statement, then COMMIT / ROLLBACK -------------------
			r.do(ctx, fmt.Sprintf("DELETE FROM %s WHERE c1 = 1", T), tEff("change"))
			r.observe("after a following DELETE")
			if p.end == "commit" {
				r.do(ctx, "COMMIT", effect{kind: "commit", file: -1, temp: -1})
			} else {
				r.do(ctx, "ROLLBACK", effect{kind: "rollback", file: -1, temp: -1})
			}
			r.white()
			r.disk(init)
			r.observe("after " + p.end)
			_ = s.finish(false)

			tk := "file"
			if p.isTemp {
				tk = "temporary"
			}
			c := map[string]interface{}{"statement": p.f.stmt, "failure": p.f.fail, "sql": sql, "rows": p.n, "failing_row": p.K,
				"table_kind": tk, "state_before": p.pre, "end": p.end, "returned_error": failed, "run": r.show}
			if len(r.notes) > 0 {
				c["harness_notes"] = r.notes
			}
			meta.Cases[fmt.Sprint(id)] = c
			w.add(fmt.Sprintf("mkC08 %s %s %s %s\n  %s", coqN(id), coqKeys(seqInts(3)), coqKeys(seqInts(1)), coqD0Ref(w, init), r.coqItems()))
			meta.Evaluations++
			meta.Distribution["stmt:"+p.f.stmt]++
			meta.Distribution["failure:"+p.f.fail]++
			meta.Distribution["table:"+tk]++
			meta.Distribution["before:"+p.pre]++
			meta.Distribution[fmt.Sprintf("rows:%d", p.n)]++
			if failed {
				meta.Distribution["outcome:error"]++
				seen[fmt.Sprintf("%s|%s|%d|%d|%s|%s", p.f.stmt, p.f.fail, p.K, p.n, tk, p.pre)] = true
			} else {
				meta.Distribution["outcome:no-error"]++
			}
			if len(meta.Samples) < 3 && failed && id%97 == 3 {
				meta.Samples = append(meta.Samples, map[string]interface{}{"sql": sql, "rows": p.n, "failing_row": p.K, "table_kind": tk, "state_before": p.pre, "error": fmt.Sprint(err)})
			}
			id++
		}()
	}
	w.flush()

	// ---- cancellation through the context, after some rows (position not controlled): the
	// statement either returns an error and the table is unchanged, or completes ----------------
	nCancel := 12
	if tier == "thorough" {
		nCancel = 60
	}
	for i := 0; i < nCancel; i++ {
		c08Cancel(rnd, meta, i)
	}
	c08Countdown(meta, tier)
	c08Attributes(meta)
	c08CopyShape(meta)
	meta.Distinct = len(seen)
	meta.write(out)
}

// the shape Model/CopyPublish.v assumes of ViewMap.Get (= View.Copy): a fresh array per record,
// the cells shared with the cached view
func c08CopyShape(meta *Meta) {
	sc := newScratch()
	defer sc.Close()
	writeInit(sc.Dir, map[int]initTab{0: c08Target(4)})
	s := newLibSess(sc.Dir, 5)
	defer s.finish(false)
	if _, err := s.read(fileSQL(0)); err != nil {
		panic(err)
	}
	for _, k := range s.tx.CachedViews.Keys() {
		orig, ok := s.tx.CachedViews.Load(k)
		if !ok {
			continue
		}
		cp, err := s.tx.CachedViews.Get(k)
		if err != nil {
			panic(err)
		}
		meta.Evaluations++
		bad := ""
		if len(cp.RecordSet) != len(orig.RecordSet) || len(cp.Header) != len(orig.Header) {
			bad = "the copy has another shape"
		} else {
			if len(cp.Header) > 0 && &cp.Header[0] == &orig.Header[0] {
				bad = "the header array is shared"
			}
			for i := range cp.RecordSet {
				if len(cp.RecordSet[i]) > 0 && &cp.RecordSet[i][0] == &orig.RecordSet[i][0] {
					bad = fmt.Sprintf("record array %d is shared with the cached view", i)
				}
				for j := range cp.RecordSet[i] {
					if len(cp.RecordSet[i][j]) > 0 && &cp.RecordSet[i][j][0] != &orig.RecordSet[i][j][0] {
						meta.Distribution["copy-shape:cells-not-shared"]++ // allowed (stronger than the model needs)
					}
				}
			}
		}
		if bad != "" {
			meta.Direct = append(meta.Direct, DirectViolation{Key: "copy-aliases-cached-view", What: "ViewMap.Get does not return an isolated copy: " + bad, Case: map[string]interface{}{"table": k}})
		} else {
			meta.Distribution["copy-shape:fresh-record-arrays"]++
		}
	}
}

func c08Cancel(rnd *rand.Rand, meta *Meta, i int) {
	sc := newScratch()
	defer sc.Close()
	n := 3000 + rnd.Intn(3000)
	var b strings.Builder
	b.WriteString("\"c1\",c2,c3\n")
	for r := 1; r <= n; r++ {
		fmt.Fprintf(&b, "\"%d\",%d,\"r%d\"\n", r, 10*r, r)
	}
	if err := os.WriteFile(filepath.Join(sc.Dir, fileName(0)), []byte(b.String()), 0644); err != nil {
		panic(err)
	}
	s := newLibSess(sc.Dir, 5)
	defer s.finish(false)
	bg := context.Background()
	if _, _, err := s.execOne(bg, "UPDATE "+fileSQL(0)+" SET c3 = 'pre' WHERE c1 = 1"); err != nil {
		panic(err)
	}
	before, err := s.read(fileSQL(0))
	if err != nil {
		panic(err)
	}
	stmts := []string{
		"UPDATE %s SET c2 = c2 + 1, c3 = c3 || 'x'",
		"DELETE FROM %s WHERE c1 %% 2 = 0",
		"INSERT INTO %s SELECT c1 + 100000, c2, c3 FROM %s",
		"ALTER TABLE %s ADD (x DEFAULT c1 * 2)",
		"REPLACE INTO %s (c1, c2, c3) USING (c1) SELECT c1, 0, 'rep' FROM %s",
	}
	sql := stmts[i%len(stmts)]
	if strings.Count(sql, "%s") == 2 {
		sql = fmt.Sprintf(sql, fileSQL(0), fileSQL(0))
	} else {
		sql = fmt.Sprintf(sql, fileSQL(0))
	}
	ctx, cancel := context.WithCancel(bg)
	delay := time.Duration(50+rnd.Intn(3000)) * time.Microsecond
	timer := time.AfterFunc(delay, cancel)
	_, _, err = s.execOne(ctx, sql)
	timer.Stop()
	cancel()
	after, rerr := s.read(fileSQL(0))
	meta.Evaluations++
	if err != nil {
		meta.Distribution["cancel:error"]++
		if rerr != nil || !tabEqual(before, after) {
			meta.Direct = append(meta.Direct, DirectViolation{Key: "cancel-partial-effect",
				What: "a statement cancelled through its context returned an error but the table visible to the next statement differs from before",
				Case: map[string]interface{}{"sql": sql, "rows": n, "cancel_after": delay.String(), "error": err.Error()}})
		}
	} else {
		meta.Distribution["cancel:completed-before-cancellation"]++
	}
}
