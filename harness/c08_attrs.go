package main

// C08, table attributes: an ALTER TABLE .. SET that is refused must leave the table's attributes as they were.
// For every (table kind, refused SET statement) two sessions run on copies of one directory: the first changes a
// record, runs the refused statement (it must return an error), then changes the format and commits; the second
// does the same without the refused statement.  The files must be byte-identical: a later COMMIT writes none of
// the refused statement's effects.

import (
	"context"
	"fmt"
	"os"
	"path/filepath"
	"sort"
)

func c08Attributes(meta *Meta) {
	type tab struct {
		name, body, update, reformat string
	}
	tabs := []tab{
		{"t.json", "[{\"id\":1,\"v\":\"日本\"},{\"id\":2,\"v\":\"b\"}]\n", "UPDATE `t.json` SET v = v || '語' WHERE id = 1", "ALTER TABLE `t.json` SET FORMAT TO CSV"},
		{"t.jsonl", "{\"id\":1,\"v\":\"日本\"}\n{\"id\":2,\"v\":\"b\"}\n", "UPDATE `t.jsonl` SET v = v || '語' WHERE id = 1", "ALTER TABLE `t.jsonl` SET FORMAT TO TSV"},
		{"t.csv", "id,v\n1,日本\n2,b\n", "UPDATE `t.csv` SET v = v || '語' WHERE id = 1", "ALTER TABLE `t.csv` SET FORMAT TO LTSV"},
		{"t.ltsv", "id:1\tv:日本\nid:2\tv:b\n", "UPDATE `t.ltsv` SET v = v || '語' WHERE id = 1", "ALTER TABLE `t.ltsv` SET FORMAT TO CSV"},
	}
	sets := []string{"ENCODING TO SJIS", "ENCODING TO UTF16", "ENCODING TO UTF8M", "ENCODING TO 'NOPE'", "DELIMITER TO 'ab'", "DELIMITER TO ''", "FORMAT TO 'NOPE'", "LINE_BREAK TO 'XX'", "LINE_BREAK TO CRLF2",
		"HEADER TO 'maybe'", "ENCLOSE_ALL TO 'maybe'", "PRETTY_PRINT TO 'maybe'", "JSON_ESCAPE TO 'NOPE'", "DELIMITER_POSITIONS TO 'x'", "DELIMITER_POSITIONS TO '[3,1]'", "NOATTR TO 1"}
	ctx := context.Background()
	run := func(t tab, refused string) (map[string]string, bool, string) {
		sc := newScratch()
		defer sc.Close()
		if err := os.WriteFile(filepath.Join(sc.Dir, t.name), []byte(t.body), 0644); err != nil {
			panic(err)
		}
		s := newLibSess(sc.Dir, 5)
		if _, _, err := s.execOne(ctx, t.update); err != nil {
			panic("c08 attributes: " + t.update + ": " + err.Error())
		}
		failed := false
		msg := ""
		if refused != "" {
			_, _, err := s.execOne(ctx, refused)
			failed = err != nil
			if err != nil {
				msg = err.Error()
			}
		}
		if _, _, err := s.execOne(ctx, t.reformat); err != nil {
			panic("c08 attributes: " + t.reformat + ": " + err.Error())
		}
		if _, _, err := s.execOne(ctx, "COMMIT"); err != nil {
			return map[string]string{"COMMIT": err.Error()}, failed, msg
		}
		_ = s.finish(false)
		files := map[string]string{}
		ents, _ := os.ReadDir(sc.Dir)
		for _, e := range ents {
			b, _ := os.ReadFile(filepath.Join(sc.Dir, e.Name()))
			files[e.Name()] = fmt.Sprintf("%x", b)
		}
		return files, failed, msg
	}
	show := func(m map[string]string) string {
		var ks []string
		for k := range m {
			ks = append(ks, k)
		}
		sort.Strings(ks)
		out := ""
		for _, k := range ks {
			v := m[k]
			if len(v) > 160 {
				v = v[:160] + "..."
			}
			out += k + "=" + v + " "
		}
		return out
	}
	for _, t := range tabs {
		ref, _, _ := run(t, "")
		for _, st := range sets {
			refused := "ALTER TABLE `" + t.name + "` SET " + st
			got, failed, msg := run(t, refused)
			meta.Evaluations++
			if !failed {
				meta.Distribution["attributes:statement-accepted"]++
				continue
			}
			meta.Distribution["attributes:statement-refused"]++
			if fmt.Sprint(got) != fmt.Sprint(ref) {
				meta.Direct = append(meta.Direct, DirectViolation{Key: "refused-alter-set-leaves-an-attribute",
					What: "a refused ALTER TABLE .. SET left its mark: after a later change of format and COMMIT the files differ from those of the same session without the refused statement",
					Case: map[string]interface{}{"table": t.name, "contents": t.body, "session": []string{t.update, refused + "  => " + msg, t.reformat, "COMMIT"}, "files (hex)": show(got), "files of the session without the refused statement (hex)": show(ref)}})
			}
		}
	}
}
