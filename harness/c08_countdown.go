package main

// C08, cancellation at every point: a context whose Err() answers nil a given number of times and
// reports the cancellation from then on.  For every statement of the list and every such number (up to
// the first one with which the statement completes) a fresh session runs the statement; when it
// returned an error, every table it could touch must read as before, and after a later successful change
// and COMMIT a new session must find the files holding exactly: before + that later change.
// Two groups: (a) the statement is the first one to load its table (the load itself can be cancelled),
// (b) statements over two tables (files, temporary tables, one of each), where the changed tables are
// stored one after the other.

import (
	"context"
	"fmt"
	"os"
	"path/filepath"
	"strings"
	"sync"
	"sync/atomic"
)

type countdownCtx struct {
	context.Context
	left int64
	once sync.Once
	done chan struct{}
}

func newCountdown(n int) *countdownCtx {
	return &countdownCtx{Context: context.Background(), left: int64(n), done: make(chan struct{})}
}
func (c *countdownCtx) Err() error {
	if atomic.AddInt64(&c.left, -1) < 0 {
		c.once.Do(func() { close(c.done) })
		return context.Canceled
	}
	return nil
}
func (c *countdownCtx) Done() <-chan struct{} { return c.done }

type c08cdCase struct {
	name   string
	setup  []string          // run before, with the background context
	files  map[string]string // name -> contents
	stmt   string
	tables []string // SQL names of the tables to compare
	later  []string // a later successful change of every table (then COMMIT)
}

func c08CountdownCases() []c08cdCase {
	rows := func(n int, tag string) string {
		var b strings.Builder
		b.WriteString("id,v,w\n")
		for i := 1; i <= n; i++ {
			fmt.Fprintf(&b, "%d,%d,%s%d\n", i, i%7, tag, i)
		}
		return b.String()
	}
	t100 := rows(100, "a")
	one := func(name, stmt string) c08cdCase {
		return c08cdCase{name: name, files: map[string]string{"t.csv": t100}, stmt: stmt, tables: []string{"`t.csv`"},
			later: []string{"UPDATE `t.csv` SET w = 'later' WHERE id = 1"}}
	}
	p3, c3 := rows(12, "p"), rows(9, "c")
	two := func(name string, stmt string, temp int) c08cdCase {
		cs := c08cdCase{name: name, files: map[string]string{"p.csv": p3, "c.csv": c3}, stmt: stmt}
		P, C := "`p.csv`", "`c.csv`"
		if temp >= 1 {
			cs.setup = append(cs.setup, "DECLARE pt VIEW AS SELECT * FROM `p.csv`")
			P = "pt"
		}
		if temp >= 2 {
			cs.setup = append(cs.setup, "DECLARE ct VIEW AS SELECT * FROM `c.csv`")
			C = "ct"
		}
		cs.stmt = strings.ReplaceAll(strings.ReplaceAll(stmt, "{P}", P), "{C}", C)
		cs.tables = []string{P, C}
		cs.later = []string{"UPDATE " + P + " SET w = 'later' WHERE id = 1", "UPDATE " + C + " SET w = 'later' WHERE id = 1"}
		return cs
	}
	var out []c08cdCase
	out = append(out,
		one("first-load:update", "UPDATE `t.csv` SET v = v + 1, w = w || 'x' WHERE id % 3 = 0"),
		one("first-load:delete", "DELETE FROM `t.csv` WHERE id % 2 = 0"),
		one("first-load:insert-select", "INSERT INTO `t.csv` SELECT id + 1000, v, w FROM `t.csv` WHERE id < 40"),
		one("first-load:insert-values", "INSERT INTO `t.csv` VALUES (1001, 1, 'n1'), (1002, 2, 'n2')"),
		one("first-load:replace", "REPLACE INTO `t.csv` (id, v, w) USING (id) SELECT id, 0, 'rep' FROM `t.csv` WHERE id > 90"),
		one("first-load:alter-add", "ALTER TABLE `t.csv` ADD (x DEFAULT id * 2)"),
		one("first-load:alter-drop", "ALTER TABLE `t.csv` DROP w"),
	)
	for temp := 0; temp <= 2; temp++ {
		kind := []string{"files", "temp+file", "temps"}[temp]
		out = append(out,
			two("two-tables:update:"+kind, "UPDATE p, c SET p.w = 'P', c.w = 'C' FROM {P} p JOIN {C} c ON p.id = c.id WHERE p.id < 6", temp),
			two("two-tables:delete:"+kind, "DELETE p, c FROM {P} p JOIN {C} c ON p.id = c.id WHERE p.id < 6", temp),
		)
	}
	return out
}

func c08Countdown(meta *Meta, tier string) {
	maxN := 400
	for _, cs := range c08CountdownCases() {
		completed := false
		for n := 0; n <= maxN && !completed; n++ {
			sc := newScratch()
			for name, body := range cs.files {
				if err := os.WriteFile(filepath.Join(sc.Dir, name), []byte(body), 0644); err != nil {
					panic(err)
				}
			}
			s := newLibSess(sc.Dir, 5)
			bg := context.Background()
			for _, q := range cs.setup {
				if _, _, err := s.execOne(bg, q); err != nil {
					panic("c08 countdown: setup failed: " + q + ": " + err.Error())
				}
			}
			// what every table holds before: read by a session of its own, so that this one has not loaded them
			before := map[string]obsTab{}
			s0 := newLibSess(sc.Dir, 5)
			for _, q := range cs.setup {
				_, _, _ = s0.execOne(bg, q)
			}
			for _, t := range cs.tables {
				tab, err := s0.read(t)
				if err != nil {
					panic("c08 countdown: cannot read " + t + ": " + err.Error())
				}
				before[t] = tab
			}
			_ = s0.finish(false)

			_, _, err := s.execOne(newCountdown(n), cs.stmt)
			meta.Evaluations++
			if err == nil {
				completed = true
				meta.Distribution["countdown:completes-after:"+cs.name] = n
				_ = s.finish(false)
				sc.Close()
				break
			}
			meta.Distribution["countdown:cancelled-runs"]++
			show := map[string]interface{}{"case": cs.name, "setup": cs.setup, "statement": cs.stmt, "context": fmt.Sprintf("Err() answers nil %d times, then context.Canceled", n), "error": err.Error()}
			bad := false
			for _, t := range cs.tables {
				after, rerr := s.read(t)
				if rerr != nil || !tabEqual(before[t], after) {
					bad = true
					got := "unreadable"
					if rerr == nil {
						got = fmt.Sprintf("%d rows", len(after))
					} else {
						got = rerr.Error()
					}
					show["table "+t] = fmt.Sprintf("before %d rows, after the failed statement: %s", len(before[t]), got)
				}
			}
			if bad {
				meta.Direct = append(meta.Direct, DirectViolation{Key: "cancel-partial-effect:" + strings.SplitN(cs.name, ":", 3)[0] + ":" + strings.SplitN(cs.name, ":", 3)[1],
					What: "a statement cancelled through its context returned an error but a table visible to the next statement differs from before", Case: show})
			} else {
				// a later successful change and COMMIT must write before + that change only
				want := map[string]obsTab{}
				ok := true
				for _, q := range cs.later {
					if _, _, e := s.execOne(bg, q); e != nil {
						ok = false
						meta.Direct = append(meta.Direct, DirectViolation{Key: "cancel-then-change-fails", What: "after a cancelled statement a later change fails: " + q + ": " + e.Error(), Case: show})
					}
				}
				if ok {
					for _, t := range cs.tables {
						want[t], _ = s.read(t)
					}
					if _, _, e := s.execOne(bg, "COMMIT"); e != nil {
						ok = false
						meta.Direct = append(meta.Direct, DirectViolation{Key: "cancel-then-commit-fails", What: "after a cancelled statement COMMIT fails: " + e.Error(), Case: show})
					}
				}
				_ = s.finish(false)
				if ok {
					s2 := newLibSess(sc.Dir, 5)
					for _, t := range cs.tables {
						if !strings.HasPrefix(t, "`") {
							continue // temporary tables end with the session
						}
						got, rerr := s2.read(t)
						// want = before with the later change: same number of rows as before
						if rerr != nil || !tabEqual(got, want[t]) || len(got) != len(before[t]) {
							show["file "+t] = fmt.Sprintf("before %d rows; after the cancelled statement, a later UPDATE of one row and COMMIT the file holds %d rows (error %v)", len(before[t]), len(got), rerr)
							meta.Direct = append(meta.Direct, DirectViolation{Key: "cancel-partial-effect-committed", What: "a later COMMIT wrote partial effects of a cancelled statement", Case: show})
						}
					}
					_ = s2.finish(false)
				}
				sc.Close()
				continue
			}
			_ = s.finish(false)
			sc.Close()
		}
		if !completed {
			meta.Distribution["countdown:never-completed:"+cs.name]++
		}
	}
}
