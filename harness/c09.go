//go:build verif

package main

// C09: locking between processes.
//
// In-process part: 2 or 3 "processes" (each its own query.Session + query.Transaction, hence its own
// file.Container) work on one table in a real scratch directory.  lib/file is built with the tag
// `verif`, so every file-system step of lock acquisition / commit / release is preceded by a yield
// point (file.VerifHook).  A scheduler installed through the hook lets exactly one process run from
// its current yield point to the next one; after every such step the directory (which control files
// exist, created by whom; the table's counter) and the point every process is parked at are
// recorded.  The schedule and the observations go into cases_C09_k.v, where Model.Lock.run replays
// the same schedule and H09.check_cases compares after every step.
//
// Real-process part: N concurrent csvq binaries run `UPDATE t SET n = n + 1`.

import (
	"bytes"
	"context"
	"fmt"
	"math/rand"
	"os"
	"path/filepath"
	"sort"
	"strconv"
	"strings"
	"sync"
	"time"

	"github.com/mithrandie/csvq/lib/file"
	"github.com/mithrandie/csvq/lib/parser"
	"github.com/mithrandie/csvq/lib/query"
)

func init() { runners["C09"] = runC09 }

// ---- roles, points, outcomes (codes shared with coq/Model/Lock.v) -------------------------------
const (
	roleR   = 0 // SELECT n FROM t
	roleW   = 1 // UPDATE t SET n = n + 1; COMMIT
	roleWR  = 2 // UPDATE t SET n = n + 1; ROLLBACK
	roleRW  = 3 // SELECT n FROM t; UPDATE t SET n = n + 1; COMMIT   (one transaction)
	nRoles  = 4
	c09File = "t.csv"
)

var roleName = []string{"R", "W", "Wrb", "RW"}
var roleCoq = []string{"RoleR", "RoleW", "RoleWrb", "RoleRW"}
var roleSQL = []string{
	"SELECT n FROM `t.csv`;",
	"UPDATE `t.csv` SET n = n + 1; COMMIT;",
	"UPDATE `t.csv` SET n = n + 1; ROLLBACK;",
	"SELECT n FROM `t.csv`; UPDATE `t.csv` SET n = n + 1; COMMIT;",
}

// yield point names -> codes (Model.Lock.pc_point)
var pointCode = map[string]int{
	"start": 0, "done": 1,
	"read.exists": 2, "rlock.check": 3, "rlock.lock": 4, "rlock.create": 5, "read.open": 6,
	"upd.exists": 7, "lock.check": 8, "lock.create": 9, "lock.recheck": 10, "upd.open": 11, "temp.create": 12,
	"commit.exists": 13, "commit.remove": 14, "commit.rename": 15,
	"cf.exists": 16, "cf.remove": 17, "retry.wait": 18,
	"blocked": 99,
}

// outcomes (Model.Lock.outcome)
const (
	oRunning    = 0
	oCommitted  = 1
	oRolledBack = 2
	oRead       = 3
	oTimeout    = 4
	oNotExist   = 5
	oIOErr      = 6
	oOther      = 7
)

var outcomeName = []string{"running", "committed", "rolled-back", "read", "timeout", "not-exist", "io-error", "other-error"}

// ---- a context whose deadline is fired by the scheduler ------------------------------------------
type schedCtx struct {
	mu    sync.Mutex
	done  chan struct{}
	fired bool
}

func newSchedCtx() *schedCtx { return &schedCtx{done: make(chan struct{})} }
func (c *schedCtx) Deadline() (time.Time, bool) {
	return time.Date(2999, 1, 1, 0, 0, 0, 0, time.UTC), true
}
func (c *schedCtx) Done() <-chan struct{} { return c.done }
func (c *schedCtx) Err() error {
	c.mu.Lock()
	defer c.mu.Unlock()
	if c.fired {
		return context.DeadlineExceeded
	}
	return nil
}
func (c *schedCtx) Value(interface{}) interface{} { return nil }
func (c *schedCtx) isFired() bool {
	c.mu.Lock()
	defer c.mu.Unlock()
	return c.fired
}
func (c *schedCtx) fire() {
	c.mu.Lock()
	defer c.mu.Unlock()
	if !c.fired {
		c.fired = true
		close(c.done)
	}
}

// ---- scheduler ------------------------------------------------------------------------------------
type vproc struct {
	id      int
	role    int
	ctx     *schedCtx
	resume  chan struct{}
	parked  chan string
	point   string // where it is parked now ("done" when finished)
	outcome int
	val     int64 // value read (R) / value read before the increment (W*)
	errText string
	tx      *query.Transaction
	// the process is inside NewHandlerForRead/NewHandlerForUpdate before its open step: an elapsed
	// wait timeout is noticed by lib/file itself (and not by the statement evaluation of lib/query)
	acquiring bool
	phase     byte // 'r' inside the read part, 'w' inside the update part of the program
}

type world struct {
	dir     string
	procs   []*vproc
	current *vproc
	free    bool // after an abort: yield points no longer park
	mu      sync.Mutex
	// a fired deadline lost the race against the retry timer in the select of the retry loop
	timerRace bool
	// attribution of control files to the process that created them
	owner map[string]int
}

var theWorld *world

// a process that has not reached its next yield point after this long is blocked outside the
// lock-file protocol (flock); generous because the machine may be busy
const c09Watchdog = 4 * time.Second

// the hook has no argument to carry it

func c09Hook(point string) {
	w := theWorld
	if w == nil {
		return
	}
	w.mu.Lock()
	free, p := w.free, w.current
	w.mu.Unlock()
	if free || p == nil {
		return
	}
	p.parked <- point
	<-p.resume
}

// observation after a step
type c09Obs struct {
	Lock    int      `json:"lock"` // owner of ._t.csv.lock, -1 none, -2 unattributed
	RLocks  []int    `json:"rlocks"`
	Temp    int      `json:"temp"`
	Data    int64    `json:"data"` // counter in t.csv, -1 = file absent, -2 = unreadable
	Points  []string `json:"points"`
	Outcome []int    `json:"outcomes"`
	Vals    []int64  `json:"vals"`
	Other   []string `json:"other,omitempty"` // unexpected directory entries
}

func newWorld(dir string, roles []int, init int64) *world {
	w := &world{dir: dir, owner: map[string]int{}}
	// clean directory
	ents, _ := os.ReadDir(dir)
	for _, e := range ents {
		_ = os.Remove(filepath.Join(dir, e.Name()))
	}
	if err := os.WriteFile(filepath.Join(dir, c09File), []byte(fmt.Sprintf("n\n%d\n", init)), 0644); err != nil {
		panic(err)
	}
	for i, r := range roles {
		p := &vproc{id: i, role: r, ctx: newSchedCtx(), resume: make(chan struct{}), parked: make(chan string, 1), point: "start"}
		w.procs = append(w.procs, p)
		p.tx = newTx(dir)
		// the retry delay must be long enough that the retry timer cannot be due when the select of
		// the retry loop is reached with an already elapsed deadline (both ready = random choice);
		// runs in which that still happens are detected (timerRace) and discarded
		p.tx.UpdateWaitTimeout(30, 500*time.Microsecond)
		go w.body(p)
	}
	return w
}

func classifyErr(err error) int {
	switch err.(type) {
	case *query.FileLockTimeoutError, *query.ContextDone:
		return oTimeout
	case *query.FileNotExistError:
		return oNotExist
	case *query.IOError:
		return oIOErr
	}
	return oOther
}

func (w *world) body(p *vproc) {
	<-p.resume
	out := &bytes.Buffer{}
	p.tx.Session.SetStdout(&c09Writer{out})
	p.tx.Flags.SetQuiet(true)
	_ = p.tx.Flags.SetFormat("CSV", "", false)
	p.tx.Flags.ExportOptions.WithoutHeader = true
	stmts, _, err := parser.Parse(roleSQL[p.role], "", false, p.tx.Flags.AnsiQuotes)
	if err != nil {
		panic(err)
	}
	proc := query.NewProcessor(p.tx)
	_, err = proc.Execute(p.ctx, stmts)
	if err != nil {
		p.outcome = classifyErr(err)
		p.errText = err.Error()
		// what lib/action does after a failed run: roll back and force-release
		_ = p.tx.Rollback(nil, nil)
		_ = p.tx.ReleaseResourcesWithErrors()
	} else {
		switch p.role {
		case roleR:
			p.outcome = oRead
		case roleW, roleRW:
			p.outcome = oCommitted
		case roleWR:
			p.outcome = oRolledBack
		}
		_ = p.tx.ReleaseResources()
	}
	if s := strings.TrimSpace(strings.Split(strings.TrimSpace(out.String()), "\n")[0]); s != "" {
		if v, e := strconv.ParseInt(s, 10, 64); e == nil {
			p.val = v
		}
	}
	p.parked <- "done"
}

type c09Writer struct{ b *bytes.Buffer }

func (w *c09Writer) Write(p []byte) (int, error) { return w.b.Write(p) }
func (w *c09Writer) Close() error                { return nil }

// step lets process i run to its next yield point; false when it did not get there in time
func (w *world) step(i int) bool {
	p := w.procs[i]
	if p.point == "done" {
		return true
	}
	w.mu.Lock()
	w.current = p
	w.mu.Unlock()
	from := p.point
	p.resume <- struct{}{}
	select {
	case pt := <-p.parked:
		p.point = pt
		w.track(p, from)
		return true
	case <-time.After(c09Watchdog):
		p.point = "blocked"
		return false
	}
}

func (w *world) track(p *vproc, from string) {
	switch p.point {
	case "read.exists":
		p.acquiring, p.phase = true, 'r'
	case "upd.exists":
		p.acquiring, p.phase = true, 'w'
	case "done":
		p.acquiring = false
	}
	if from == "read.open" || from == "upd.open" {
		p.acquiring = false
	}
	if from == "retry.wait" && p.ctx.isFired() && p.point != "done" && p.point != "cf.exists" {
		w.timerRace = true
	}
}

// finish: let everybody run freely to the end (after an abort or at the end of a case)
func (w *world) abort() {
	w.mu.Lock()
	w.free = true
	w.mu.Unlock()
	for _, p := range w.procs {
		p.ctx.fire()
	}
	for _, p := range w.procs {
		if p.point == "done" {
			continue
		}
		if p.point != "blocked" {
			select {
			case p.resume <- struct{}{}:
			case <-time.After(2 * time.Second):
			}
		}
		deadline := time.After(5 * time.Second)
	drain:
		for {
			select {
			case pt := <-p.parked:
				if pt == "done" {
					break drain
				}
				// a point reached while it was still parking: release it again
				select {
				case p.resume <- struct{}{}:
				case <-time.After(time.Second):
				}
			case <-deadline:
				break drain
			}
		}
		p.point = "done"
	}
}

func (w *world) observe(stepper int, prev *c09Obs) c09Obs {
	o := c09Obs{Lock: -1, Temp: -1, Data: -1}
	ents, _ := os.ReadDir(w.dir)
	seen := map[string]bool{}
	for _, e := range ents {
		n := e.Name()
		seen[n] = true
		switch {
		case n == c09File:
			b, err := os.ReadFile(filepath.Join(w.dir, n))
			o.Data = -2
			if err == nil {
				ls := strings.Split(strings.TrimSpace(string(b)), "\n")
				if len(ls) == 2 && ls[0] == "n" {
					if v, e := strconv.ParseInt(strings.TrimSpace(ls[1]), 10, 64); e == nil {
						o.Data = v
					}
				}
			}
		case n == "._"+c09File+"_.lock" || n == "."+c09File+file.LockFileSuffix:
			o.Lock = w.attribute(n, stepper)
		case n == "."+c09File+file.TempFileSuffix:
			o.Temp = w.attribute(n, stepper)
		case strings.HasPrefix(n, "."+c09File+".") && strings.HasSuffix(n, file.RLockFileSuffix):
			o.RLocks = append(o.RLocks, w.attribute(n, stepper))
		default:
			o.Other = append(o.Other, n)
		}
	}
	for n := range w.owner {
		if !seen[n] {
			delete(w.owner, n)
		}
	}
	sort.Ints(o.RLocks)
	for _, p := range w.procs {
		o.Points = append(o.Points, p.point)
		if p.point == "done" {
			o.Outcome = append(o.Outcome, p.outcome)
		} else {
			o.Outcome = append(o.Outcome, oRunning)
		}
		o.Vals = append(o.Vals, p.val)
	}
	return o
}

// a control file that was not there after the previous step was created by the process that just ran
func (w *world) attribute(name string, stepper int) int {
	if o, ok := w.owner[name]; ok {
		return o
	}
	if stepper < 0 {
		w.owner[name] = -2
		return -2
	}
	w.owner[name] = stepper
	return stepper
}

// ---- events -----------------------------------------------------------------------------------------
type c09Event struct {
	Proc   int  `json:"p"`
	Expire bool `json:"x,omitempty"` // the wait timeout of process p elapses now (no process runs)
}

func (e c09Event) String() string {
	if e.Expire {
		return fmt.Sprintf("X%d", e.Proc)
	}
	return fmt.Sprintf("%d", e.Proc)
}

type c09Run struct {
	Roles   []int
	Init    int64
	Events  []c09Event
	Obs     []c09Obs
	Keys    []string // state key after each event
	Aborted bool
	Kind    string
}

// a live execution of one schedule
type c09Exec struct {
	w   *world
	run *c09Run
	ok  bool
}

func c09Start(dir string, roles []int, init int64, kind string) *c09Exec {
	w := newWorld(dir, roles, init)
	theWorld = w
	return &c09Exec{w: w, run: &c09Run{Roles: roles, Init: init, Kind: kind}, ok: true}
}

// stateKey: everything the harness can see of the joint state (used only to steer the exploration)
func (x *c09Exec) stateKey(o *c09Obs) string {
	var b strings.Builder
	fmt.Fprintf(&b, "L%d R%v T%d D%d", o.Lock, o.RLocks, o.Temp, o.Data)
	for i, p := range x.w.procs {
		f, a := 0, 0
		if p.ctx.isFired() && p.point != "done" {
			f = 1
		}
		if p.acquiring {
			a = 1
		}
		fmt.Fprintf(&b, "|%s,%d,%d,%d,%c", p.point, o.Outcome[i], f, a, '-'+p.phase)
	}
	return b.String()
}

func (x *c09Exec) initialKey() string {
	o := x.w.observe(-1, nil)
	return x.stateKey(&o)
}

func (x *c09Exec) do(ev c09Event) bool {
	if !x.ok {
		return false
	}
	x.run.Events = append(x.run.Events, ev)
	st := ev.Proc
	if ev.Expire {
		x.w.procs[ev.Proc].ctx.fire()
		st = -1
	} else if !x.w.step(ev.Proc) {
		x.ok = false
		x.run.Aborted = true
	}
	o := x.w.observe(st, nil)
	x.run.Obs = append(x.run.Obs, o)
	x.run.Keys = append(x.run.Keys, x.stateKey(&o))
	return x.ok
}

// enabled events in the current state; Expire only where lib/file itself will notice it
func (x *c09Exec) enabled(withExpire bool) []c09Event {
	var evs []c09Event
	for _, p := range x.w.procs {
		if p.point == "done" || p.point == "blocked" {
			continue
		}
		evs = append(evs, c09Event{Proc: p.id})
		if withExpire && p.acquiring && !p.ctx.isFired() {
			evs = append(evs, c09Event{Proc: p.id, Expire: true})
		}
	}
	return evs
}

func (x *c09Exec) allDone() bool {
	for _, p := range x.w.procs {
		if p.point != "done" {
			return false
		}
	}
	return true
}

// complete: run whoever is still live round-robin to the end; waiters that do not get through
// within maxExtra steps have their timeout elapse
func (x *c09Exec) complete(maxExtra int) {
	extra := 0
	for x.ok && !x.allDone() {
		for _, p := range x.w.procs {
			if !x.ok || p.point == "done" {
				continue
			}
			if extra >= maxExtra && p.acquiring && !p.ctx.isFired() {
				x.do(c09Event{Proc: p.id, Expire: true})
			}
			x.do(c09Event{Proc: p.id})
			extra++
		}
		if extra > maxExtra+400 {
			x.ok = false
			x.run.Aborted = true
		}
	}
}

func (x *c09Exec) close() *c09Run {
	x.w.abort()
	theWorld = nil
	for _, p := range x.w.procs {
		_ = p.tx.ReleaseResourcesWithErrors()
	}
	return x.run
}

// c09Replay executes a fixed schedule again; reports whether the timer race showed up again
func c09Replay(dir string, run *c09Run) (*c09Run, bool) {
	x := c09Start(dir, run.Roles, run.Init, run.Kind)
	for _, ev := range run.Events {
		if !x.do(ev) {
			break
		}
	}
	r := x.close()
	return r, x.w.timerRace
}

// a run in which a process with an elapsed timeout went on retrying: a rare race between deadline
// and retry timer in Go's select -- or what the code always does on this schedule.  Executing the
// same schedule again tells: true = it happened every time (the run is kept and the model judges it)
func c09Systematic(dir string, run *c09Run) bool {
	for k := 0; k < 3; k++ {
		if _, race := c09Replay(dir, run); !race {
			return false
		}
	}
	return true
}

// ---- exploration of the joint state graph -------------------------------------------------------
// Nodes are observed joint states, edges the enabled events.  Every run is a walk that prefers
// events never taken from the state it is in, is steered to the nearest state that still has such
// events, and is then completed; the exploration of one configuration ends when every enabled event
// of every state reached has been executed on the real implementation at least once.
type c09Node struct {
	events []c09Event
	next   map[c09Event]string
}

type c09Graph struct {
	nodes      map[string]*c09Node
	init       string
	nondet     int
	discarded  int
	aborted    int
	systematic int
	outOfTime  bool
	// the last run thrown away because a process with an elapsed timeout went on retrying
	lastDiscarded *c09Run
}

// shortest known path from `from` to a state with an untaken event (nil, false if none)
func (g *c09Graph) pathToFrontier(from string) ([]c09Event, bool) {
	type item struct {
		key  string
		path []c09Event
	}
	seen := map[string]bool{from: true}
	q := []item{{from, nil}}
	for len(q) > 0 {
		it := q[0]
		q = q[1:]
		n := g.nodes[it.key]
		if n == nil {
			continue
		}
		for _, ev := range n.events {
			if _, ok := n.next[ev]; !ok {
				return append(append([]c09Event{}, it.path...), ev), true
			}
		}
		for _, ev := range n.events {
			nk := n.next[ev]
			if !seen[nk] {
				seen[nk] = true
				q = append(q, item{nk, append(append([]c09Event{}, it.path...), ev)})
			}
		}
	}
	return nil, false
}

func (g *c09Graph) edges() (taken, total int) {
	for _, n := range g.nodes {
		total += len(n.events)
		taken += len(n.next)
	}
	return
}

func c09Explore(dir string, roles []int, init int64, withExpire bool, maxRuns int, deadline time.Time, emit func(*c09Run)) *c09Graph {
	g := &c09Graph{nodes: map[string]*c09Node{}}
	for runs := 0; runs < maxRuns; runs++ {
		if g.init != "" && g.nodes[g.init] != nil {
			if _, ok := g.pathToFrontier(g.init); !ok {
				break
			}
		}
		x := c09Start(dir, roles, init, "graph-walk")
		cur := x.initialKey()
		g.init = cur
		// journal of what this run adds to the graph (undone if the run is discarded)
		var newNodes []string
		type edge struct {
			n  *c09Node
			ev c09Event
		}
		var newEdges []edge
		visit := func(key string) *c09Node {
			n := g.nodes[key]
			if n == nil {
				n = &c09Node{events: x.enabled(withExpire), next: map[c09Event]string{}}
				g.nodes[key] = n
				newNodes = append(newNodes, key)
			}
			return n
		}
		visit(cur)
		var plan []c09Event
		for x.ok && !x.allDone() && len(x.run.Events) < 600 {
			if len(plan) == 0 {
				p, ok := g.pathToFrontier(cur)
				if !ok {
					break
				}
				plan = p
			}
			ev := plan[0]
			plan = plan[1:]
			n := g.nodes[cur]
			if !x.do(ev) {
				// the process did not come back: a terminal node of its own
				nk := x.run.Keys[len(x.run.Keys)-1]
				if _, ok := n.next[ev]; !ok {
					newEdges = append(newEdges, edge{n, ev})
				}
				n.next[ev] = nk
				if g.nodes[nk] == nil {
					g.nodes[nk] = &c09Node{next: map[c09Event]string{}}
					newNodes = append(newNodes, nk)
				}
				break
			}
			nk := x.run.Keys[len(x.run.Keys)-1]
			if old, ok := n.next[ev]; ok {
				if old != nk {
					g.nondet++
					plan = nil
					if os.Getenv("C09_DEBUG") != "" {
						fmt.Fprintf(os.Stderr, "surprise: from %s by %s: %s vs %s\n", cur, ev, old, nk)
					}
				}
			} else {
				newEdges = append(newEdges, edge{n, ev})
			}
			n.next[ev] = nk
			cur = nk
			visit(cur)
		}
		x.complete(60)
		run := x.close()
		if x.w.timerRace {
			if c09Systematic(dir, run) {
				// not a timer race: this is what the code does on this schedule; the model judges it
				g.systematic++
				g.lastDiscarded = run
				emit(run)
				if g.systematic >= 3 {
					break
				}
				continue
			}
			// discard: the outcome of this run depended on a timer, not on the schedule
			for _, e := range newEdges {
				delete(e.n.next, e.ev)
			}
			for _, k := range newNodes {
				delete(g.nodes, k)
			}
			g.discarded++
			continue
		}
		emit(run)
		if run.Aborted {
			g.aborted++
			if g.aborted >= 3 {
				break // every further run costs a watchdog period; the emitted cases already disagree with the model
			}
		}
		if time.Now().After(deadline) {
			g.outOfTime = true
			break
		}
	}
	return g
}

// a random interleaving, run to the end
func c09Random(r *rand.Rand, dir string, roles []int, init int64, pExpire float64, emit func(*c09Run)) {
	for attempt := 0; attempt < 3; attempt++ {
		x := c09Start(dir, roles, init, "random")
		r2 := rand.New(rand.NewSource(r.Int63()))
		for x.ok && !x.allDone() && len(x.run.Events) < 400 {
			evs := x.enabled(pExpire > 0)
			var steps, exps []c09Event
			for _, e := range evs {
				if e.Expire {
					exps = append(exps, e)
				} else {
					steps = append(steps, e)
				}
			}
			if len(exps) > 0 && r2.Float64() < pExpire {
				x.do(exps[r2.Intn(len(exps))])
				continue
			}
			// bursts: keep running the same process with some probability
			e := steps[r2.Intn(len(steps))]
			x.do(e)
			for x.ok && r2.Intn(3) == 0 && x.w.procs[e.Proc].point != "done" {
				x.do(e)
			}
		}
		x.complete(40)
		run := x.close()
		if !x.w.timerRace || c09Systematic(dir, run) {
			emit(run)
			return
		}
	}
}

// ---- rendering ---------------------------------------------------------------------------------------
func coqOptNat(v int) string {
	switch {
	case v == -1:
		return "None"
	case v < 0:
		return "(Some 999)" // a file nobody was seen creating
	}
	return fmt.Sprintf("(Some %d)", v)
}

func coqObs(o *c09Obs) string {
	rl := make([]string, len(o.RLocks))
	for i, v := range o.RLocks {
		if v < 0 {
			v = 999
		}
		rl[i] = strconv.Itoa(v)
	}
	data := "None"
	if o.Data >= 0 {
		data = fmt.Sprintf("(Some %d)", o.Data)
	} else if o.Data == -2 {
		data = "(Some 99999)" // present but not a counter table
	}
	ps := make([]string, len(o.Points))
	for i := range o.Points {
		code, ok := pointCode[o.Points[i]]
		if !ok {
			code = 98
		}
		v := o.Vals[i]
		if v < 0 {
			v = 99999
		}
		ps[i] = fmt.Sprintf("mkPO %d %d %d", code, o.Outcome[i], v)
	}
	if len(o.Other) > 0 {
		// unexpected directory entries: make the observation unmatchable
		rl = append(rl, "998")
	}
	return fmt.Sprintf("mkO %s [%s] %s %s [%s]", coqOptNat(o.Lock), strings.Join(rl, ";"), coqOptNat(o.Temp), data, strings.Join(ps, "; "))
}

func coqCase(id int, run *c09Run, atomic bool) string {
	rs := make([]string, len(run.Roles))
	for i, r := range run.Roles {
		rs[i] = roleCoq[r]
	}
	es := make([]string, len(run.Events))
	for i, e := range run.Events {
		if e.Expire {
			es[i] = fmt.Sprintf("Expire %d", e.Proc)
		} else {
			es[i] = fmt.Sprintf("Step %d", e.Proc)
		}
	}
	os_ := make([]string, len(run.Obs))
	for i := range run.Obs {
		os_[i] = coqObs(&run.Obs[i])
	}
	return fmt.Sprintf("mkC %s [%s] %s %d\n  [%s]\n  [%s]", coqN(id), strings.Join(rs, ";"), coqBool(atomic), run.Init,
		strings.Join(es, ";"), strings.Join(os_, ";\n   "))
}

func showRun(run *c09Run, atomic bool) map[string]interface{} {
	rs := make([]string, len(run.Roles))
	for i, r := range run.Roles {
		rs[i] = roleName[r] + ": " + roleSQL[r]
	}
	es := make([]string, len(run.Events))
	for i, e := range run.Events {
		es[i] = e.String()
	}
	var trace []string
	for i := range run.Obs {
		o := &run.Obs[i]
		trace = append(trace, fmt.Sprintf("%s -> lock=%d rlocks=%v temp=%d data=%d at=%v outcome=%v", es[i], o.Lock, o.RLocks, o.Temp, o.Data, o.Points, o.Outcome))
	}
	if len(trace) > 40 {
		trace = append(trace[:20], append([]string{"..."}, trace[len(trace)-19:]...)...)
	}
	m := map[string]interface{}{"kind": run.Kind, "processes": rs, "initial_counter": run.Init, "schedule": strings.Join(es, " "),
		"rename_over": atomic, "observed": trace}
	if n := len(run.Obs); n > 0 {
		last := run.Obs[n-1]
		outs := make([]string, len(last.Outcome))
		for i, o := range last.Outcome {
			outs[i] = outcomeName[o]
		}
		m["outcomes"] = outs
		m["final_counter"] = last.Data
	}
	if run.Aborted {
		m["aborted"] = "a process did not reach its next yield point within 4 s (blocked outside the lock-file protocol, e.g. in flock)"
	}
	return m
}

// ---- real processes ---------------------------------------------------------------------------------
type c09Soak struct {
	N       int      `json:"processes"`
	Timeout string   `json:"wait_timeout"`
	Init    int64    `json:"initial_counter"`
	Final   int64    `json:"final_counter"`
	Exits   []int    `json:"exit_classes"` // 0 ok, 1 lock timeout, 2 file does not exist, 3 other
	Codes   []int    `json:"exit_codes"`
	Errs    []string `json:"stderr_of_failures,omitempty"`
	Left    []string `json:"leftover,omitempty"`
}

func c09RunSoak(n int, waitTimeout string, init int64) *c09Soak {
	sc := newScratch()
	defer sc.Close()
	if err := os.WriteFile(sc.Path(c09File), []byte(fmt.Sprintf("n\n%d\n", init)), 0644); err != nil {
		panic(err)
	}
	res := make([]RunResult, n)
	var wg sync.WaitGroup
	start := make(chan struct{})
	for i := 0; i < n; i++ {
		wg.Add(1)
		go func(i int) {
			defer wg.Done()
			<-start
			res[i] = runCsvq(sc.Dir, []string{"-r", sc.Dir, "-q", "--wait-timeout", waitTimeout, "UPDATE `t.csv` SET n = n + 1"}, "", 60*time.Second)
		}(i)
	}
	close(start)
	wg.Wait()
	s := &c09Soak{N: n, Timeout: waitTimeout, Init: init, Final: -1}
	for _, r := range res {
		cl := 3
		switch {
		case r.Code == 0 && !r.TimedOut:
			cl = 0
		case r.Code == query.ReturnCodeContextDone:
			cl = 1
		case r.Code == query.ReturnCodeIOError && strings.Contains(r.Stderr, "does not exist"):
			cl = 2
		}
		s.Exits = append(s.Exits, cl)
		s.Codes = append(s.Codes, r.Code)
		if cl != 0 && len(s.Errs) < 4 {
			s.Errs = append(s.Errs, strings.TrimSpace(r.Stderr))
		}
	}
	ents, _ := os.ReadDir(sc.Dir)
	for _, e := range ents {
		if e.Name() == c09File {
			b, err := os.ReadFile(sc.Path(c09File))
			if err == nil {
				ls := strings.Split(strings.TrimSpace(string(b)), "\n")
				if len(ls) == 2 && ls[0] == "n" {
					if v, e := strconv.ParseInt(strings.TrimSpace(ls[1]), 10, 64); e == nil {
						s.Final = v
					}
				}
			}
		} else if strings.HasPrefix(e.Name(), ".") && strings.Contains(e.Name(), c09File) {
			s.Left = append(s.Left, e.Name())
		}
	}
	return s
}

// c09InsertSoak: n processes at once run a read-modify-write in ONE statement whose source reads its own target,
// INSERT INTO ids SELECT MAX(id) + 1 FROM ids.  The target is held for update from the start of the statement,
// so the statements are serialised: the k that succeed must leave the ids init .. init+k, each once.
func c09InsertSoak(n int, meta *Meta) {
	sc := newScratch()
	defer sc.Close()
	if err := os.WriteFile(sc.Path("ids.csv"), []byte("id,who\n1,init\n"), 0644); err != nil {
		panic(err)
	}
	res := make([]RunResult, n)
	var wg sync.WaitGroup
	start := make(chan struct{})
	for i := 0; i < n; i++ {
		wg.Add(1)
		go func(i int) {
			defer wg.Done()
			<-start
			res[i] = runCsvq(sc.Dir, []string{"-r", sc.Dir, "-q", "--wait-timeout", "30", fmt.Sprintf("INSERT INTO `ids.csv` SELECT MAX(id) + 1, 'p%d' FROM `ids.csv`", i)}, "", 90*time.Second)
		}(i)
	}
	close(start)
	wg.Wait()
	ok := 0
	var errs []string
	for _, r := range res {
		if r.Code == 0 && !r.TimedOut {
			ok++
		} else if len(errs) < 3 {
			errs = append(errs, strings.TrimSpace(r.Stderr))
		}
	}
	b, _ := os.ReadFile(sc.Path("ids.csv"))
	lines := strings.Split(strings.TrimSpace(string(b)), "\n")
	seen := map[string]int{}
	for _, l := range lines[1:] {
		seen[strings.SplitN(l, ",", 2)[0]]++
	}
	bad := len(lines)-1 != ok+1
	for k := 1; k <= ok+1; k++ {
		if seen[strconv.Itoa(k)] != 1 {
			bad = true
		}
	}
	meta.Evaluations += n
	meta.Distribution["insert-select-soak:processes"] += n
	meta.Distribution["insert-select-soak:succeeded"] += ok
	if bad {
		meta.Direct = append(meta.Direct, DirectViolation{Key: "insert-select-not-serialised",
			What: fmt.Sprintf("%d processes at once ran INSERT INTO ids SELECT MAX(id) + 1 FROM ids; %d succeeded, but the file does not hold the ids 1..%d once each: an update was lost or made from a stale read", n, ok, ok+1),
			Case: map[string]interface{}{"file": string(b), "stderr of failures": errs, "command": "csvq -r DIR -q --wait-timeout 30 \"INSERT INTO `ids.csv` SELECT MAX(id) + 1, 'pK' FROM `ids.csv`\"  (N at once)"}})
	}
}

func coqSoak(id int, s *c09Soak, atomic bool) string {
	fin := "None"
	if s.Final >= 0 {
		fin = fmt.Sprintf("(Some %d)", s.Final)
	}
	ex := make([]string, len(s.Exits))
	for i, e := range s.Exits {
		ex[i] = strconv.Itoa(e)
	}
	return fmt.Sprintf("mkS %s %d %s [%s] %d %s", coqN(id), s.Init, fin, strings.Join(ex, ";"), len(s.Left), coqBool(atomic))
}

// ---- driver -------------------------------------------------------------------------------------------
type c09Config struct {
	roles  []int
	expire bool
}

func c09Name(c c09Config) string {
	ns := make([]string, len(c.roles))
	for i, r := range c.roles {
		ns[i] = roleName[r]
	}
	s := strings.Join(ns, "/")
	if c.expire {
		s += "+timeout"
	}
	return s
}

func runC09(seed int64, tier string, out string) {
	file.VerifHook = c09Hook
	r := rand.New(rand.NewSource(seed))
	meta := newMeta("C09", seed)
	sc := newScratch()
	defer sc.Close()
	w := &shardWriter{dir: out, prop: "C09", max: 60, meta: meta,
		header: "From Coq Require Import Arith NArith List.\nRequire Import Csvq.Model.Lock Csvq.Harness.H09.\nImport ListNotations.\nOpen Scope nat_scope.\n",
		footer: func(ls []string) string {
			cs, ss := "[]", "[]"
			for _, l := range ls {
				if strings.HasPrefix(l, "cases") {
					cs = "cases"
				}
				if strings.HasPrefix(l, "soaks") {
					ss = "soaks"
				}
			}
			return fmt.Sprintf("Definition M := Eval vm_compute in (check_cases %s ++ check_soaks %s).\nPrint M.\n", cs, ss)
		}}

	// does COMMIT still remove the table before renaming the temp file over it?
	solo := c09Start(sc.Dir, []int{roleW}, 5, "solo")
	solo.complete(100)
	soloRun := solo.close()
	atomic := true
	for _, o := range soloRun.Obs {
		if o.Points[0] == "commit.exists" || o.Points[0] == "commit.remove" {
			atomic = false
		}
	}
	meta.Notes = append(meta.Notes, fmt.Sprintf("COMMIT renames over the table (no Exists/Remove yield points): %v", atomic))

	id := 0
	edgeSeen := map[string]bool{}
	windowSeen := false
	emit := func(cfgName string) func(run *c09Run) {
		return func(run *c09Run) {
			w.add("cases:case", coqCase(id, run, atomic))
			c := showRun(run, atomic)
			c["config"] = cfgName
			tags := []string{}
			last := run.Obs[len(run.Obs)-1]
			for _, o := range last.Outcome {
				meta.Distribution["outcome:"+outcomeName[o]]++
				if o == oNotExist {
					tags = append(tags, "commit-remove-rename-window")
				}
			}
			if len(tags) > 0 {
				c["tags"] = tags[:1]
				if !windowSeen {
					windowSeen = true
					meta.Direct = append(meta.Direct, DirectViolation{Key: "commit-remove-rename-window",
						What: "a transaction that starts while another one is between os.Remove(table) and os.Rename(temp, table) of its COMMIT fails with 'file does not exist' instead of waiting for the lock (it changes nothing; no update is lost)",
						Case: c})
				}
			}
			meta.Cases[fmt.Sprint(id)] = c
			meta.Distribution["runs:"+run.Kind]++
			meta.Distribution["config:"+cfgName]++
			meta.Evaluations += len(run.Events)
			prev := "init"
			for k, key := range run.Keys {
				edgeSeen[cfgName+"#"+prev+"#"+run.Events[k].String()] = true
				prev = key
			}
			if run.Aborted {
				meta.Distribution["aborted"]++
			}
			if len(meta.Samples) < 3 && (id == 3 || id%97 == 11) {
				meta.Samples = append(meta.Samples, c)
			}
			id++
		}
	}

	var graphCfgs []c09Config
	pairs := [][]int{}
	for a := 0; a < nRoles; a++ {
		for b := a; b < nRoles; b++ {
			pairs = append(pairs, []int{a, b})
		}
	}
	for _, p := range pairs {
		graphCfgs = append(graphCfgs, c09Config{p, false})
	}
	expirePairs := [][]int{{roleR, roleW}, {roleW, roleW}, {roleW, roleWR}}
	triples := [][]int{{roleR, roleR, roleW}}
	nRandom, randomProcs := 150, 3
	soaks := [][2]interface{}{{6, "10"}, {8, "0.003"}}
	if tier == "thorough" {
		expirePairs = pairs
		triples = [][]int{{roleR, roleR, roleW}, {roleR, roleW, roleW}, {roleW, roleW, roleW}, {roleR, roleRW, roleW}, {roleRW, roleRW, roleWR}, {roleR, roleR, roleR}, {roleRW, roleW, roleWR}}
		nRandom, randomProcs = 3000, 5
		soaks = [][2]interface{}{{8, "10"}, {8, "10"}, {16, "20"}, {8, "0.002"}, {8, "0.005"}, {12, "0.01"}, {16, "0.02"}, {8, "10"}, {8, "10"}}
	}
	for _, p := range expirePairs {
		graphCfgs = append(graphCfgs, c09Config{p, true})
	}
	for _, t := range triples {
		graphCfgs = append(graphCfgs, c09Config{t, false})
	}
	if tier == "thorough" {
		graphCfgs = append(graphCfgs, c09Config{[]int{roleR, roleR, roleW}, true}, c09Config{[]int{roleR, roleW, roleW}, true})
	}
	t0 := time.Now()
	deadline := t0.Add(60 * time.Second)
	if tier == "thorough" {
		deadline = t0.Add(1200 * time.Second)
	}
	for _, c := range graphCfgs {
		name := c09Name(c)
		g := c09Explore(sc.Dir, c.roles, 5, c.expire, 20000, deadline, emit(name))
		taken, total := g.edges()
		meta.Notes = append(meta.Notes, fmt.Sprintf("%s: %d joint states, %d/%d enabled events executed, %d steering surprises, %d runs discarded (retry timer won against an elapsed deadline)", name, len(g.nodes), taken, total, g.nondet, g.discarded))
		meta.Distribution["states:"+name] = len(g.nodes)
		if g.systematic > 0 && g.lastDiscarded != nil {
			meta.Direct = append(meta.Direct, DirectViolation{Key: "timeout-not-honoured",
				What: fmt.Sprintf("configuration %s: a process whose wait timeout had elapsed while it was in the retry wait went on retrying instead of failing with the lock timeout -- reproducibly (3 of 3 re-executions of the same schedule), so not the select race between deadline and retry timer", name),
				Case: showRun(g.lastDiscarded, atomic)})
		} else if g.aborted > 0 {
			meta.Notes = append(meta.Notes, fmt.Sprintf("%s: exploration stopped after %d runs in which a process did not reach its next yield point", name, g.aborted))
		} else if taken != total || g.outOfTime {
			meta.Direct = append(meta.Direct, DirectViolation{Key: "exploration-incomplete", What: fmt.Sprintf("configuration %s: only %d of %d enabled events of the reachable joint states were executed", name, taken, total)})
		}
	}
	meta.Notes = append(meta.Notes, fmt.Sprintf("graph exploration took %.1fs", time.Since(t0).Seconds()))
	for k := 0; k < nRandom; k++ {
		n := 2 + r.Intn(randomProcs-1)
		roles := make([]int, n)
		for i := range roles {
			roles[i] = r.Intn(nRoles)
		}
		pe := 0.0
		if r.Intn(3) == 0 {
			pe = 0.05
		}
		c09Random(r, sc.Dir, roles, int64(r.Intn(4)), pe, emit("random"))
		if meta.Distribution["aborted"] >= 6 || time.Now().After(deadline.Add(30*time.Second)) {
			meta.Notes = append(meta.Notes, fmt.Sprintf("random interleavings stopped after %d of %d (aborted runs / time)", k+1, nRandom))
			break
		}
	}
	w.flush()

	// real processes
	c09InsertSoak(8, meta)
	if tier == "thorough" {
		for i := 0; i < 6; i++ {
			c09InsertSoak(6+2*i, meta)
		}
	}
	sid := 100000
	for _, sk := range soaks {
		s := c09RunSoak(sk[0].(int), sk[1].(string), int64(r.Intn(5)))
		w.add("soaks:soak", coqSoak(sid, s, atomic))
		c := map[string]interface{}{"kind": "soak", "soak": s, "command": "csvq -r DIR -q --wait-timeout T 'UPDATE `t.csv` SET n = n + 1'  (N at once)"}
		tags := []string{}
		nok := 0
		for _, e := range s.Exits {
			meta.Distribution[fmt.Sprintf("soak-exit-class:%d", e)]++
			if e == 0 {
				nok++
			}
			if e == 2 && len(tags) == 0 && !atomic {
				tags = append(tags, "commit-remove-rename-window")
			}
		}
		if len(tags) > 0 {
			c["tags"] = tags
		}
		meta.Cases[fmt.Sprint(sid)] = c
		meta.Evaluations += s.N
		if len(meta.Samples) < 4 {
			meta.Samples = append(meta.Samples, c)
		}
		sid++
	}
	w.flush()
	meta.Distinct = len(edgeSeen)
	meta.Rule = "in-process: for every configuration (all unordered pairs of the roles R=SELECT, W=UPDATE+COMMIT, Wrb=UPDATE+ROLLBACK, RW=SELECT;UPDATE;COMMIT; pairs R/W, W/W, W/Wrb also with the wait timeout elapsing at any point of the acquisition; triple R/R/W; all pairs with timeouts, seven triples and two triples with timeouts in the thorough tier) the joint state graph (control files + creator, counter, yield point and outcome of every process) is explored on the real implementation until every enabled event (step of a live process, timeout of an acquiring one) of every reachable state has been executed at least once; plus random interleavings of 2..N processes with random roles. Each run is a schedule of yield-point steps, completed to the end; after every event the directory and the parked points are compared with Model.Lock.step. Distinct = distinct (configuration, observed joint state, event) triples executed. Real processes: N concurrent csvq binaries, counter must grow by exactly the number of exit-0 processes."
	meta.write(out)
}
