package main

// C10 -- a crash at any instant of COMMIT leaves each existing table complete: old or new.
//
// For generated transactions (1-3 updated tables, 0-2 created tables, 0-1 tables held for update
// but unchanged, one table outside the transaction; implicit or explicit COMMIT; LF / CRLF / no
// final line break) the real binary build/csvq runs under strace:
//   * once undisturbed: the mutating system calls on the repository must equal the op list of
//     coq/Model/Commit.v (tables inside one commit phase in the order this run visited them);
//   * once per (system call class, N) with SIGKILL injected before the N-th call of that class:
//     the calls completed so far must be a prefix of the model's list, the directory found must
//     equal the model's state after that prefix, and the decidable old_or_new checker is evaluated
//     on the directory found.
// Everything is written to cases_C10_k.v and decided inside Coq (Harness/H10.v).

import (
	"bytes"
	"fmt"
	"math/rand"
	"os"
	"path/filepath"
	"sort"
	"strings"
	"sync"
	"time"
)

func init() { runners["C10"] = runC10 }

const c10WindowKey = "commit-remove-rename-window"

type acqItem struct {
	Create bool
	Tbl    int
}

type c10Txn struct {
	Id       int
	Tables   map[string]int    // file name -> table number
	NameOf   map[int]string    // table number -> file name
	Init     map[string]string // file name -> initial contents
	Program  string
	Args     []string // flags before the program
	LB       []byte
	Acq      []acqItem
	ExpCr    []int
	ExpUp    []int
	ExpIdle  []int
	Shape    string
	RootDir  string
	RenameOv bool
	NewBody  map[int][]byte // table -> new contents without the final line break (from the reference run)
	RefOps   []fsOp
	Counts   map[string]int
}

type c10Obs struct {
	Txn    *c10Txn
	Id     int
	Recovered bool
	RecoverErr string
	Inject string
	Ops    []fsOp
	Full   bool
	Snap   fsSnap
	Res    RunResult
	Trace  traceResult
}

func c10Gen(r *rand.Rand, id int) *c10Txn {
	t := &c10Txn{Id: id, Tables: map[string]int{}, NameOf: map[int]string{}, Init: map[string]string{}, NewBody: map[int][]byte{}}
	for i := 1; i <= 4; i++ {
		t.Tables[fmt.Sprintf("t%d.csv", i)] = i
	}
	t.Tables["n1.csv"], t.Tables["n2.csv"] = 11, 12
	for n, i := range t.Tables {
		t.NameOf[i] = n
	}
	keys := map[int][]int{}
	vals := 0
	val := func() string { vals++; return fmt.Sprintf("v%d%c", vals, 'a'+rune(r.Intn(26))) }
	for i := 1; i <= 4; i++ {
		nrows := 1 + r.Intn(4)
		var b strings.Builder
		b.WriteString("k,v\n")
		for k := 1; k <= nrows; k++ {
			fmt.Fprintf(&b, "%d,%s\n", k, val())
			keys[i] = append(keys[i], k)
		}
		t.Init[fmt.Sprintf("t%d.csv", i)] = b.String()
	}
	nu := []int{1, 1, 1, 1, 2, 2, 2, 3, 3, 3}[r.Intn(10)]
	nc := []int{0, 0, 0, 0, 1, 1, 1, 2, 2, 2}[r.Intn(10)]
	ni := 0
	if nu < 3 && r.Intn(10) < 4 {
		ni = 1
	}
	perm := r.Perm(3)
	var seqs [][]string
	firstTbl := map[int]bool{}
	_ = firstTbl
	for j := 0; j < nu; j++ {
		tb := perm[j] + 1
		t.ExpUp = append(t.ExpUp, tb)
		var s []string
		nst := 1 + r.Intn(2)
		nextKey := 100
		for q := 0; q < nst; q++ {
			ks := keys[tb]
			switch c := r.Intn(3); {
			case c == 0 && len(ks) > 0:
				s = append(s, fmt.Sprintf("UPDATE t%d SET v = '%s' WHERE k = %d;", tb, val(), ks[r.Intn(len(ks))]))
			case c == 1 && len(ks) > 0:
				i := r.Intn(len(ks))
				s = append(s, fmt.Sprintf("DELETE FROM t%d WHERE k = %d;", tb, ks[i]))
				keys[tb] = append(append([]int{}, ks[:i]...), ks[i+1:]...)
			default:
				nextKey++
				s = append(s, fmt.Sprintf("INSERT INTO t%d VALUES (%d, '%s');", tb, nextKey, val()))
				keys[tb] = append(keys[tb], nextKey)
			}
		}
		seqs = append(seqs, s)
	}
	for j := 0; j < ni; j++ {
		tb := perm[nu+j] + 1
		t.ExpIdle = append(t.ExpIdle, tb)
		if r.Intn(2) == 0 {
			seqs = append(seqs, []string{fmt.Sprintf("UPDATE t%d SET v = 'none' WHERE k = 999;", tb)})
		} else {
			seqs = append(seqs, []string{fmt.Sprintf("DELETE FROM t%d WHERE k = 999;", tb)})
		}
	}
	for j := 0; j < nc; j++ {
		tb := 11 + j
		t.ExpCr = append(t.ExpCr, tb)
		s := []string{fmt.Sprintf("CREATE TABLE `n%d.csv` (a, b);", j+1)}
		for q := r.Intn(3); q > 0; q-- {
			s = append(s, fmt.Sprintf("INSERT INTO `n%d.csv` VALUES (%d, '%s');", j+1, q, val()))
		}
		seqs = append(seqs, s)
	}
	// random interleaving that keeps each table's statements in order
	var prog []string
	tblOfSeq := append(append(append([]int{}, t.ExpUp...), t.ExpIdle...), t.ExpCr...)
	seen := map[int]bool{}
	for {
		var live []int
		for i, s := range seqs {
			if len(s) > 0 {
				live = append(live, i)
			}
		}
		if len(live) == 0 {
			break
		}
		i := live[r.Intn(len(live))]
		prog = append(prog, seqs[i][0])
		seqs[i] = seqs[i][1:]
		if tb := tblOfSeq[i]; !seen[tb] {
			seen[tb] = true
			t.Acq = append(t.Acq, acqItem{Create: tb >= 11, Tbl: tb})
		}
	}
	ending := "implicit"
	if r.Intn(2) == 0 {
		prog = append(prog, "COMMIT;")
		ending = "COMMIT"
	}
	t.Program = strings.Join(prog, " ")
	lbMode := "LF"
	t.LB = []byte("\n")
	switch r.Intn(10) {
	case 0, 1:
		lbMode = "CRLF"
		t.LB = []byte("\r\n")
		t.Args = append(t.Args, "--line-break", "CRLF")
	case 2, 3:
		lbMode = "strip"
		t.LB = nil
		t.Args = append(t.Args, "--strip-ending-line-break")
	}
	if r.Intn(2) == 0 {
		t.Args = append(t.Args, "-q")
	}
	t.Shape = fmt.Sprintf("updated=%d created=%d idle=%d end=%s lb=%s", nu, nc, ni, ending, lbMode)
	return t
}

func (t *c10Txn) names(dir string) *repoNames {
	return &repoNames{Dir: dir, Tables: t.Tables, Foreign: map[string]int{}}
}

func (t *c10Txn) filterPaths(dir string) []string {
	var ps []string
	var ns []string
	for n := range t.Tables {
		ns = append(ns, n)
	}
	sort.Strings(ns)
	for _, n := range ns {
		ps = append(ps, filepath.Join(dir, n), filepath.Join(dir, "."+n+".lock"), filepath.Join(dir, "."+n+".temp"))
	}
	return ps
}

// run executes the transaction in a fresh copy of the initial directory
func (t *c10Txn) run(tag string, inject string) c10Obs {
	dir := filepath.Join(t.RootDir, tag)
	if err := os.MkdirAll(dir, 0755); err != nil {
		panic(err)
	}
	for n, c := range t.Init {
		if err := os.WriteFile(filepath.Join(dir, n), []byte(c), 0644); err != nil {
			panic(err)
		}
	}
	home := filepath.Join(t.RootDir, "home")
	_ = os.MkdirAll(home, 0755)
	args := append([]string{"-r", dir}, t.Args...)
	args = append(args, t.Program)
	text, res := straceCsvq(home, filepath.Join(t.RootDir, tag+".strace"), args,
		straceOpts{Paths: t.filterPaths(dir), Inject: inject, Env: []string{"HOME=" + home}, Timeout: 40 * time.Second})
	n := t.names(dir)
	tr := traceToOps(parseStrace(text), n)
	o := c10Obs{Txn: t, Inject: inject, Ops: tr.Ops, Snap: snapshotDir(n), Res: res, Trace: tr}
	o.Full = !strings.Contains(text, "killed by SIGKILL")
	// "after deleting the leftover hidden control files the table is usable again"
	if ents, err := os.ReadDir(dir); err == nil {
		for _, e := range ents {
			if strings.HasPrefix(e.Name(), ".") {
				_ = os.Remove(filepath.Join(dir, e.Name()))
			}
		}
	}
	var sel []string
	for i := 1; i <= 4; i++ {
		sel = append(sel, fmt.Sprintf("SELECT COUNT(*) FROM t%d;", i))
	}
	rr := runCmdNoStdin(home, []string{csvqBinary(), "-r", dir, strings.Join(sel, " ")}, 20*time.Second, "HOME="+home)
	o.Recovered = rr.Code == 0 && !rr.TimedOut
	if !o.Recovered {
		o.RecoverErr = fmt.Sprintf("exit %d: %s", rr.Code, rr.Stderr)
	}
	_ = os.RemoveAll(dir)
	_ = os.Remove(filepath.Join(t.RootDir, tag+".strace"))
	return o
}

// orders: created / updated tables in the order this run's COMMIT visited them, idle tables in
// the order they were released; tables the run did not reach follow in generator order
func (t *c10Txn) orders(ops []fsOp) (cr, up, idle []int) {
	isIn := func(l []int, x int) bool {
		for _, y := range l {
			if y == x {
				return true
			}
		}
		return false
	}
	for _, o := range ops {
		switch {
		case o.Kind == "trunc" && o.P.Kind == kData && isIn(t.ExpCr, o.P.Tbl) && !isIn(cr, o.P.Tbl):
			cr = append(cr, o.P.Tbl)
		case o.Kind == "trunc" && o.P.Kind == kTemp && isIn(t.ExpUp, o.P.Tbl) && !isIn(up, o.P.Tbl):
			up = append(up, o.P.Tbl)
		case o.Kind == "close" && o.P.Kind == kData && isIn(t.ExpIdle, o.P.Tbl) && !isIn(idle, o.P.Tbl):
			idle = append(idle, o.P.Tbl)
		}
	}
	for _, x := range t.ExpCr {
		if !isIn(cr, x) {
			cr = append(cr, x)
		}
	}
	for _, x := range t.ExpUp {
		if !isIn(up, x) {
			up = append(up, x)
		}
	}
	for _, x := range t.ExpIdle {
		if !isIn(idle, x) {
			idle = append(idle, x)
		}
	}
	return
}

func coqNs(l []int) string {
	it := make([]string, len(l))
	for i, x := range l {
		it[i] = fmt.Sprintf("%d", x)
	}
	if len(it) == 0 {
		return "[]"
	}
	return "[" + strings.Join(it, "; ") + "]%N"
}

// tailOf: the line break COMMIT appends after the records of table tb: nothing with
// --strip-ending-line-break, the session's --line-break for a table the transaction created, the
// file's own line break (the generator writes LF files) for an existing table
func (t *c10Txn) tailOf(tb int) []byte {
	if len(t.LB) == 0 {
		return nil
	}
	if tb >= 11 {
		return t.LB
	}
	return []byte("\n")
}

func (t *c10Txn) initSnap() fsSnap {
	s := fsSnap{Files: map[fsPath][]byte{}}
	for n, c := range t.Init {
		s.Files[fsPath{Kind: kData, Tbl: t.Tables[n]}] = []byte(c)
	}
	return s
}

func (t *c10Txn) coqCase(id int, o c10Obs) string {
	cr, up, idle := t.orders(o.Ops)
	tch := func(l []int) string {
		it := make([]string, len(l))
		for i, x := range l {
			it[i] = fmt.Sprintf("mkT %d%%N %s %s", x, coqBytes(t.NewBody[x]), coqBytes(t.tailOf(x)))
		}
		return "[" + strings.Join(it, "; ") + "]"
	}
	acq := make([]string, len(t.Acq))
	for i, a := range t.Acq {
		acq[i] = fmt.Sprintf("(%s, %d%%N)", coqBool(a.Create), a.Tbl)
	}
	return fmt.Sprintf("mkC %d%%N %d%%N %s\n  %s\n  [%s] %s %s %s %s %s %s\n  %s\n  %s\n  %s %s",
		id, id+1, coqBool(t.RenameOv), t.initSnap().coq(), strings.Join(acq, "; "),
		tch(cr), tch(up), coqNs(idle), coqNs(t.ExpCr), coqNs(t.ExpUp), coqNs(t.ExpIdle),
		coqOps(o.Ops), coqBool(o.Full), o.Snap.coq(), coqBool(o.Recovered))
}

// c10CaseId: stable across runs (the set of runs that get killed at a new place varies with thread
// scheduling, the identity of a run does not); even = main id, odd = id of the window finding
func c10CaseId(txn, class, n, round int) int { return (((txn*8+class)*500+n)*8 + round) * 2 }

func runC10(seed int64, tier string, out string) {
	r := rand.New(rand.NewSource(seed))
	meta := newMeta("C10", seed)
	meta.Rule = "transactions generated from one seeded PRNG: 1-3 of the tables t1..t3 updated by 1-2 UPDATE/INSERT/DELETE statements each, 0-2 tables created (CREATE TABLE + 0-2 INSERT), 0-1 table locked by a statement that changes nothing, t4 untouched, statements interleaved at random, implicit or explicit COMMIT, line break LF/CRLF/stripped. Each transaction is run by build/csvq under strace -f once undisturbed and once per (system call class in openat/ftruncate/write/close/unlinkat/renameat, N) with SIGKILL injected before the N-th such call on a repository path. After every run the hidden files are deleted and csvq must be able to SELECT from t1..t4 (recoverable). Second part (model-free): two large tables (1500+300 records quick, 6000+600 thorough) in each of CSV, TSV, LTSV, JSON Lines, JSON and fixed-length format are updated and committed while SIGTERM/SIGINT/SIGQUIT (cancellation noticed by the encoders between records) or SIGKILL is injected at a spread of the write calls and at ftruncate/renameat/close calls of the COMMIT; afterwards each table file must be byte-identical to its complete old or complete new contents and, with the hidden files deleted, a fresh csvq must count the right number of records. A case = one run; it is non-trivial when at least one mutating call completed; distinct = distinct (transaction, number of completed calls, killed or not) triples."
	w := &shardWriter{dir: out, prop: "C10", max: 120, meta: meta,
		header: "From Coq Require Import NArith List.\nRequire Import Csvq.Model.Base Csvq.Model.Fs Csvq.Model.Commit Csvq.Harness.H10.\nOpen Scope list_scope.\n",
		footer: func(ls []string) string {
			return "Definition M := Eval vm_compute in (check_c10 cases).\nPrint M.\n"
		}}
	nTxn, rounds := 30, 2
	if tier == "thorough" {
		nTxn, rounds = 400, 6
	}
	sc := newScratch()
	defer sc.Close()

	txns := make([]*c10Txn, nTxn)
	for i := range txns {
		txns[i] = c10Gen(r, i)
		txns[i].RootDir = sc.Path(fmt.Sprintf("x%d", i))
		_ = os.MkdirAll(txns[i].RootDir, 0755)
	}
	// reference runs
	refs := make([]c10Obs, nTxn)
	parallelDo(nTxn, 16, func(i int) { refs[i] = txns[i].run("ref", "") })

	type job struct {
		t      *c10Txn
		inject string
		tag    string
		id     int
	}
	var mu sync.Mutex
	var obs []c10Obs
	usable := make([]bool, nTxn)
	for i, t := range txns {
		o := refs[i]
		if o.Res.Code != 0 || !o.Full || len(o.Trace.Strange) > 0 || len(o.Trace.OtherMut) > 0 || len(o.Snap.Unknown) > 0 {
			meta.Direct = append(meta.Direct, DirectViolation{Key: "reference-run-not-understood",
				What: fmt.Sprintf("undisturbed run of a generated transaction failed or its trace contains calls outside the model's vocabulary (exit %d, stderr %q, strange %v, other %v, unknown files %v)", o.Res.Code, o.Res.Stderr, o.Trace.Strange, o.Trace.OtherMut, o.Snap.Unknown),
				Case: map[string]interface{}{"program": t.Program, "args": t.Args, "trace": showOps(o.Ops)}})
			continue
		}
		usable[i] = true
		// variant: is the table file removed before the rename?
		t.RenameOv = true
		for _, op := range o.Ops {
			if op.Kind == "remove" && op.P.Kind == kData {
				t.RenameOv = false
			}
		}
		for _, tb := range append(append([]int{}, t.ExpCr...), t.ExpUp...) {
			c := o.Snap.Files[fsPath{Kind: kData, Tbl: tb}]
			if tl := t.tailOf(tb); len(tl) > 0 && bytes.HasSuffix(c, tl) {
				c = c[:len(c)-len(tl)]
			}
			t.NewBody[tb] = c
		}
		t.RefOps = o.Ops
		t.Counts = o.Trace.Counts
		o.Id = c10CaseId(t.Id, 0, 0, 0)
		obs = append(obs, o)
	}
	// crash runs; in the thorough tier repeated until every prefix length has been seen
	covered := make([]map[int]bool, nTxn)
	for i := range covered {
		covered[i] = map[int]bool{len(refs[i].Ops): true}
	}
	classes := []string{"openat", "ftruncate", "write", "close", "unlinkat", "renameat"}
	for round := 0; round < rounds; round++ {
		var jobs []job
		for i, t := range txns {
			if !usable[i] {
				continue
			}
			missing := false
			for k := 0; k < len(t.RefOps); k++ {
				if !covered[i][k] {
					missing = true
				}
			}
			if round > 0 && !missing {
				continue
			}
			for ci, c := range classes {
				for n := 1; n <= t.Counts[c] && n < 500; n++ {
					jobs = append(jobs, job{t, fmt.Sprintf("%s:signal=SIGKILL:when=%d", c, n), fmt.Sprintf("r%d_%s_%d", round, c, n), c10CaseId(t.Id, ci+1, n, round)})
				}
			}
		}
		parallelDo(len(jobs), 16, func(j int) {
			o := jobs[j].t.run(jobs[j].tag, jobs[j].inject)
			o.Id = jobs[j].id
			mu.Lock()
			defer mu.Unlock()
			if round > 0 && covered[o.Txn.Id][len(o.Ops)] && !o.Full {
				return // nothing new
			}
			if !o.Full {
				covered[o.Txn.Id][len(o.Ops)] = true
			}
			obs = append(obs, o)
		})
	}
	sort.SliceStable(obs, func(a, b int) bool {
		if obs[a].Txn.Id != obs[b].Txn.Id {
			return obs[a].Txn.Id < obs[b].Txn.Id
		}
		if len(obs[a].Ops) != len(obs[b].Ops) {
			return len(obs[a].Ops) < len(obs[b].Ops)
		}
		return obs[a].Inject < obs[b].Inject
	})

	distinct := map[string]bool{}
	for _, o := range obs {
		t := o.Txn
		id := o.Id
		if len(o.Trace.Strange) > 0 || len(o.Trace.OtherMut) > 0 || len(o.Snap.Unknown) > 0 {
			meta.Direct = append(meta.Direct, DirectViolation{Key: "trace-not-understood",
				What: fmt.Sprintf("a run issued calls on the repository outside the model's vocabulary: %v %v; unknown files %v", o.Trace.Strange, o.Trace.OtherMut, o.Snap.Unknown),
				Case: map[string]interface{}{"program": t.Program, "args": t.Args, "inject": o.Inject}})
			continue
		}
		w.add("cases:ccase", t.coqCase(id, o))
		next := "-"
		if !o.Full && len(o.Ops) < len(t.RefOps) {
			next = t.RefOps[len(o.Ops)].Kind
		}
		last := o.Ops
		if len(last) > 4 {
			last = last[len(last)-4:]
		}
		c := map[string]interface{}{"transaction": t.Id, "shape": t.Shape, "program": t.Program, "args": t.Args,
			"inject": o.Inject, "killed": !o.Full, "completed_calls": len(o.Ops), "last_completed": showOps(last),
			"directory_found": o.Snap.show(), "exit": o.Res.Code, "readable_after_deleting_hidden_files": o.Recovered, "recover_error": o.RecoverErr}
		meta.Cases[fmt.Sprint(id)] = c
		// the id under which Coq reports "missing, but complete in the temp file" (kind 6 only)
		missing := false
		for n := range t.Init {
			p := fsPath{Kind: kData, Tbl: t.Tables[n]}
			if _, ok := o.Snap.Files[p]; !ok {
				missing = true
			}
		}
		if missing {
			cw := map[string]interface{}{}
			for k, v := range c {
				cw[k] = v
			}
			cw["tags"] = []string{c10WindowKey}
			meta.Cases[fmt.Sprint(id+1)] = cw
			meta.Distribution["table missing after kill (remove->rename window)"]++
		}
		meta.Evaluations++
		meta.Distribution[t.Shape[:strings.Index(t.Shape, " end=")]]++
		if o.Full {
			meta.Distribution["undisturbed"]++
		} else {
			meta.Distribution["killed before "+next]++
		}
		if len(o.Ops) > 0 {
			distinct[fmt.Sprintf("%d/%d/%v", t.Id, len(o.Ops), o.Full)] = true
		}
		if len(meta.Samples) < 4 && (o.Full && len(meta.Samples) == 0 || missing && len(meta.Samples) < 2 || !o.Full && len(o.Ops) > 8) {
			meta.Samples = append(meta.Samples, map[string]interface{}{"case": c, "all_completed_calls": showOps(o.Ops)})
		}
	}
	w.flush()
	c10Formats(meta, r, tier, sc)
	tot, cov, ro := 0, 0, 0
	for i, t := range txns {
		if !usable[i] {
			continue
		}
		if t.RenameOv {
			ro++
		}
		for k := 0; k <= len(t.RefOps); k++ {
			tot++
			if covered[i][k] {
				cov++
			}
		}
	}
	meta.Distinct = len(distinct)
	meta.Distribution["variant: rename over the file (transactions)"] = ro
	meta.Distribution["variant: remove then rename (transactions)"] = len(txns) - ro
	meta.Notes = append(meta.Notes, fmt.Sprintf("crash-point coverage: %d of %d (transaction, prefix length) pairs were hit (strace counts injections per thread; the Go runtime moves the goroutine between threads, so a few positions can be missed in the quick tier; the thorough tier repeats until all are hit or %d rounds)", cov, tot, rounds))
	meta.write(out)
}
