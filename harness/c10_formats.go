package main

// C10, second part: COMMIT of tables in the other formats csvq writes (TSV, LTSV, JSON Lines, JSON,
// fixed-length, and a large CSV table), interrupted by SIGTERM / SIGINT / SIGQUIT (which csvq turns
// into a cancellation that the encoders notice between records) and by SIGKILL, injected by strace
// at system calls of the commit.  The op-list model of Commit.v describes small CSV tables (one
// write call per table); here the tables are large enough for many write calls and for the
// encoders' context checks, and the judgement needs no model: after the process ended every table
// file must be byte-identical to its complete old or its complete new contents (the latter from an
// undisturbed run), and after deleting the hidden files a fresh csvq process must be able to read
// every table and count the right number of records.

import (
	"fmt"
	"math/rand"
	"os"
	"path/filepath"
	"strings"
	"sync"
	"time"
)

type c10Fmt struct {
	Name  string
	Ext   string
	Args  []string
	Write func(rows int, tag string) string
}

func c10FormatList() []c10Fmt {
	val := func(tag string, i int) string { return fmt.Sprintf("%s value number %d of the table", tag, i) }
	return []c10Fmt{
		{"CSV", "csv", nil, func(n int, tag string) string {
			var b strings.Builder
			b.WriteString("k,v\n")
			for i := 1; i <= n; i++ {
				fmt.Fprintf(&b, "%d,%s\n", i, val(tag, i))
			}
			return b.String()
		}},
		{"TSV", "tsv", nil, func(n int, tag string) string {
			var b strings.Builder
			b.WriteString("k\tv\n")
			for i := 1; i <= n; i++ {
				fmt.Fprintf(&b, "%d\t%s\n", i, val(tag, i))
			}
			return b.String()
		}},
		{"LTSV", "ltsv", nil, func(n int, tag string) string {
			var b strings.Builder
			for i := 1; i <= n; i++ {
				fmt.Fprintf(&b, "k:%d\tv:%s\n", i, val(tag, i))
			}
			return b.String()
		}},
		{"JSONL", "jsonl", nil, func(n int, tag string) string {
			var b strings.Builder
			for i := 1; i <= n; i++ {
				fmt.Fprintf(&b, "{\"k\":%d,\"v\":\"%s\"}\n", i, val(tag, i))
			}
			return b.String()
		}},
		{"JSON", "json", nil, func(n int, tag string) string {
			var b strings.Builder
			b.WriteString("[")
			for i := 1; i <= n; i++ {
				if i > 1 {
					b.WriteString(",")
				}
				fmt.Fprintf(&b, "{\"k\":%d,\"v\":\"%s\"}", i, val(tag, i))
			}
			b.WriteString("]\n")
			return b.String()
		}},
		{"FIXED", "txt", []string{"-i", "fixed", "-m", "[8,48]"}, func(n int, tag string) string {
			var b strings.Builder
			fmt.Fprintf(&b, "%-8s%-40s\n", "k", "v")
			for i := 1; i <= n; i++ {
				fmt.Fprintf(&b, "%-8d%-40s\n", i, val(tag, i))
			}
			return b.String()
		}},
	}
}

type c10FmtRun struct {
	f      c10Fmt
	inject string
	tag    string
}

// c10Formats appends model-free violations to meta.Direct
func c10Formats(meta *Meta, r *rand.Rand, tier string, sc *Scratch) {
	rowsT, rowsU, spread := 1500, 300, 8
	if tier == "thorough" {
		rowsT, rowsU, spread = 6000, 600, 40
	}
	sigs := []string{"SIGTERM", "SIGINT", "SIGQUIT"}
	var mu sync.Mutex
	for fi, f := range c10FormatList() {
		root := sc.Path("fmt_" + f.Ext)
		home := filepath.Join(root, "home")
		_ = os.MkdirAll(home, 0755)
		tn, un := "t."+f.Ext, "u."+f.Ext
		old := map[string]string{tn: f.Write(rowsT, "t"), un: f.Write(rowsU, "u")}
		rows := map[string]int{tn: rowsT, un: rowsU}
		tables := map[string]int{tn: 1, un: 2}
		prog := fmt.Sprintf("UPDATE `%s` SET v = 'changed' WHERE k = 1; UPDATE `%s` SET v = 'changed' WHERE k = 2;", tn, un)
		if fi%2 == 1 {
			prog += " COMMIT;"
		}
		run := func(tag, inject string) (map[string]string, traceResult, RunResult, bool, string) {
			dir := filepath.Join(root, tag)
			_ = os.MkdirAll(dir, 0755)
			for n, c := range old {
				if err := os.WriteFile(filepath.Join(dir, n), []byte(c), 0644); err != nil {
					panic(err)
				}
			}
			var paths []string
			for n := range old {
				paths = append(paths, filepath.Join(dir, n), filepath.Join(dir, "."+n+".lock"), filepath.Join(dir, "."+n+".temp"))
			}
			args := append(append([]string{"-r", dir, "-q"}, f.Args...), prog)
			text, res := straceCsvq(home, filepath.Join(root, tag+".strace"), args,
				straceOpts{Paths: paths, Inject: inject, Env: []string{"HOME=" + home}, Timeout: 60 * time.Second})
			tr := traceToOps(parseStrace(text), &repoNames{Dir: dir, Tables: tables, Foreign: map[string]int{}})
			found := map[string]string{}
			ents, _ := os.ReadDir(dir)
			for _, e := range ents {
				b, _ := os.ReadFile(filepath.Join(dir, e.Name()))
				found[e.Name()] = string(b)
			}
			// "after deleting the leftover hidden control files the table is usable again"
			for n := range found {
				if strings.HasPrefix(n, ".") {
					_ = os.Remove(filepath.Join(dir, n))
				}
			}
			sel := fmt.Sprintf("SELECT COUNT(*) FROM `%s`; SELECT COUNT(*) FROM `%s`;", tn, un)
			rr := runCmdNoStdin(home, append(append([]string{csvqBinary(), "-r", dir, "-f", "csv", "-N"}, f.Args...), sel), 60*time.Second, "HOME="+home)
			readable := rr.Code == 0 && !rr.TimedOut && strings.TrimSpace(rr.Stdout) == fmt.Sprintf("%d\n%d", rowsT, rowsU)
			_ = os.RemoveAll(dir)
			_ = os.Remove(filepath.Join(root, tag+".strace"))
			return found, tr, res, readable, strings.TrimSpace(rr.Stdout + " " + rr.Stderr)
		}
		ref, rtr, rres, rreadable, rmsg := run("ref", "")
		if rres.Code != 0 || !rreadable || ref[tn] == old[tn] || ref[un] == old[un] {
			meta.Direct = append(meta.Direct, DirectViolation{Key: "format-reference-run-failed",
				What: fmt.Sprintf("undisturbed COMMIT of two %s tables failed or did not change them (exit %d, %s, %s)", f.Name, rres.Code, rres.Stderr, rmsg),
				Case: map[string]interface{}{"format": f.Name, "program": prog}})
			continue
		}
		// injection points: signals at a spread of the write calls (the encoders work between them), at
		// every ftruncate and renameat and at a few close calls; SIGKILL at a few write calls and renames
		var jobs []c10FmtRun
		pick := func(total, k int) []int {
			var ns []int
			if total <= k {
				for n := 1; n <= total; n++ {
					ns = append(ns, n)
				}
				return ns
			}
			seen := map[int]bool{}
			for i := 0; i < k; i++ {
				n := 1 + i*(total-1)/(k-1)
				if i%2 == 1 {
					n = 1 + r.Intn(total)
				}
				if !seen[n] {
					seen[n] = true
					ns = append(ns, n)
				}
			}
			return ns
		}
		si := 0
		for _, c := range []struct {
			class string
			k     int
		}{{"write", spread}, {"ftruncate", 4}, {"renameat", 4}, {"close", 3}} {
			for _, n := range pick(rtr.Counts[c.class], c.k) {
				sig := sigs[si%3]
				si++
				jobs = append(jobs, c10FmtRun{f, fmt.Sprintf("%s:signal=%s:when=%d", c.class, sig, n), fmt.Sprintf("%s_%d_%s", c.class, n, sig)})
			}
		}
		for _, n := range pick(rtr.Counts["write"], spread/2) {
			jobs = append(jobs, c10FmtRun{f, fmt.Sprintf("write:signal=SIGKILL:when=%d", n), fmt.Sprintf("write_%d_kill", n)})
		}
		for n := 1; n <= rtr.Counts["renameat"]; n++ {
			jobs = append(jobs, c10FmtRun{f, fmt.Sprintf("renameat:signal=SIGKILL:when=%d", n), fmt.Sprintf("renameat_%d_kill", n)})
		}
		parallelDo(len(jobs), 16, func(j int) {
			found, tr, res, readable, msg := run(jobs[j].tag, jobs[j].inject)
			mu.Lock()
			defer mu.Unlock()
			meta.Evaluations++
			sigName := strings.SplitN(strings.SplitN(jobs[j].inject, "signal=", 2)[1], ":", 2)[0]
			meta.Distribution[fmt.Sprintf("large %s tables: %s during COMMIT", f.Name, sigName)]++
			state := map[string]string{}
			bad := ""
			for n := range old {
				c, ok := found[n]
				switch {
				case !ok:
					state[n], bad = "MISSING", n
				case c == old[n]:
					state[n] = "complete old"
				case c == ref[n]:
					state[n] = "complete new"
				default:
					state[n], bad = fmt.Sprintf("NEITHER: %d bytes, %d lines (old %d bytes, new %d bytes, %d records)", len(c), strings.Count(c, "\n"), len(old[n]), len(ref[n]), rows[n]), n
				}
			}
			cinfo := map[string]interface{}{"format": f.Name, "program": prog, "args": f.Args, "inject": jobs[j].inject,
				"records": rows, "tables_after_the_run": state, "exit": res.Code, "stderr": res.Stderr[:minInt(200, len(res.Stderr))],
				"write_calls_completed": tr.Counts["write"], "read_back_after_deleting_hidden_files": msg}
			if len(meta.Samples) < 6 && j == 1 {
				meta.Samples = append(meta.Samples, cinfo)
			}
			if bad != "" {
				meta.Direct = append(meta.Direct, DirectViolation{Key: "commit-format-not-old-or-new",
					What: fmt.Sprintf("%s arriving while COMMIT writes a %s table left %s neither complete old nor complete new (%s)", sigName, f.Name, bad, state[bad]), Case: cinfo})
			} else if !readable {
				meta.Direct = append(meta.Direct, DirectViolation{Key: "commit-format-unreadable",
					What: fmt.Sprintf("after %s during COMMIT of %s tables and deleting the hidden files, a fresh csvq cannot read the tables or counts other numbers of records (%s)", sigName, f.Name, msg), Case: cinfo})
			}
		})
	}
}
